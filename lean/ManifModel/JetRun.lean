/-
  JetRun.lean — the model evaluated at dual numbers, driven like the Jet harness (harness/jetgeneric.h).

  `jet_<op>` answers: value and analytic Jacobians of the run over `Dual K` with constant inputs
  (value parts), then — per requested Jacobian — the derivative of `f(X ⊕ d) ⊖ f(X)` (or of `f`
  itself for tangent/vector valued `f`) with respect to `d` at `d = 0`, read off the infinitesimal
  parts: one model run over `Dual K` per direction (a ceres::Jet carries all directions at once; its
  partial derivatives do not interact), then the largest infinitesimal part of the constant run.
  The composite maps are the harness's, built from the model's own `rplus` / `rminus`.
-/
import ManifModel.Bundle
import ManifModel.Dual
namespace Manif
open Scalar
variable {K : Type} [Scalar K]

structure JetSizes where
  rep : Nat
  dof : Nat
  dim : Nat

def jetSizes (grp : String) : JetSizes :=
  if grp.startsWith "B:" then
    let es := ((grp.drop 2).toString.splitOn ",").map elemSizes
    ⟨(es.map (·.rep)).foldl (· + ·) 0, (es.map (·.dof)).foldl (· + ·) 0, (es.map (·.dim)).foldl (· + ·) 0⟩
  else
    let e := elemSizes grp
    ⟨e.rep, e.dof, e.dim⟩

def liftL (l : List K) : List (Dual K) := l.map Dual.lift
/-- value `p` (or 0), derivative `e_i` -/
def seedAt (p : List K) (i : Nat) : List (Dual K) :=
  (List.zip p (List.range p.length)).map fun (a, k) => ⟨a, if k = i then nat 1 else nat 0⟩
def seedZero (n i : Nat) : List (Dual K) :=
  (List.range n).map fun k => ⟨nat 0, if k = i then nat 1 else nat 0⟩

/-- run over dual numbers; protocol errors become `bad_op` -/
def runD (grp : String) (dbg : Bool) (op : String) (mask : Nat) (args : List (Dual K)) :
    Except Err (List (Dual K)) :=
  match runTop (K := Dual K) grp dbg op mask args [] with
  | some r => r
  | none => .error .bad_op

/-- columns (one list of components per direction) → row-major block -/
def colsToRows (cols : List (List K)) (nrows : Nat) : List K :=
  (List.range nrows).flatMap fun i => cols.map fun c => c.getD i (nat 0)

def runJet (grp : String) (dbg : Bool) (op : String) (mask : Nat) (a : List K) :
    Option (Except Err (List K)) :=
  let sz := jetSizes grp
  let R := sz.rep; let D := sz.dof; let Dm := sz.dim
  let w0 := mask % 2 == 1
  let w1 := (mask / 2) % 2 == 1
  let run := runD (K := K) grp dbg
  let plus (X : List (Dual K)) (i : Nat) : Except Err (List (Dual K)) := run "rplus" 0 (X ++ seedZero D i)
  -- derivative block: for each direction, the dual parts of `F i`
  let block (n nrows : Nat) (F : Nat → Except Err (List (Dual K))) : Except Err (List K) := do
    let cols ← (List.range n).mapM fun i => (F i).map fun l => l.map (·.du)
    pure (colsToRows cols nrows)
  let finish (f0 : List (Dual K)) (ad : List K) : List K :=
    f0.map (·.re) ++ ad ++ [nat 0]
  match op with
  | "exp" => if a.length != D then none else some do
      let f0 ← run "exp" mask (liftL a)
      let v0 := f0.take R
      let ad ← if w0 then block D D (fun i => do
        let e ← run "exp" 0 (seedAt a i)
        run "rminus" 0 (e ++ v0)) else pure []
      pure (finish f0 ad)
  | "log" => if a.length != R then none else some do
      let X := liftL a
      let f0 ← run "log" mask X
      let ad ← if w0 then block D D (fun i => do
        let Xp ← plus X i
        run "log" 0 Xp) else pure []
      pure (finish f0 ad)
  | "inverse" => if a.length != R then none else some do
      let X := liftL a
      let f0 ← run "inverse" mask X
      let v0 := f0.take R
      let ad ← if w0 then block D D (fun i => do
        let Xp ← plus X i
        let r ← run "inverse" 0 Xp
        run "rminus" 0 (r ++ v0)) else pure []
      pure (finish f0 ad)
  | "compose" | "between" => if a.length != 2 * R then none else some do
      let X := liftL (a.take R); let Y := liftL (a.drop R)
      let f0 ← run op mask (X ++ Y)
      let v0 := f0.take R
      let ada ← if w0 then block D D (fun i => do
        let Xp ← plus X i
        let r ← run op 0 (Xp ++ Y)
        run "rminus" 0 (r ++ v0)) else pure []
      let adb ← if w1 then block D D (fun i => do
        let Yp ← plus Y i
        let r ← run op 0 (X ++ Yp)
        run "rminus" 0 (r ++ v0)) else pure []
      pure (finish f0 (ada ++ adb))
  | "rplus" | "lplus" => if a.length != R + D then none else some do
      let X := liftL (a.take R); let t := liftL (a.drop R)
      let f0 ← run op mask (X ++ t)
      let v0 := f0.take R
      let ada ← if w0 then block D D (fun i => do
        let Xp ← plus X i
        let r ← run op 0 (Xp ++ t)
        run "rminus" 0 (r ++ v0)) else pure []
      let adb ← if w1 then block D D (fun i => do
        let r ← run op 0 (X ++ seedAt (a.drop R) i)
        run "rminus" 0 (r ++ v0)) else pure []
      pure (finish f0 (ada ++ adb))
  | "rminus" | "lminus" => if a.length != 2 * R then none else some do
      let X := liftL (a.take R); let Y := liftL (a.drop R)
      let f0 ← run op mask (X ++ Y)
      let ada ← if w0 then block D D (fun i => do
        let Xp ← plus X i
        run op 0 (Xp ++ Y)) else pure []
      let adb ← if w1 then block D D (fun i => do
        let Yp ← plus Y i
        run op 0 (X ++ Yp)) else pure []
      pure (finish f0 (ada ++ adb))
  | "act" => if a.length != R + Dm then none else some do
      let X := liftL (a.take R); let v := liftL (a.drop R)
      let f0 ← run "act" mask (X ++ v)
      let ada ← if w0 then block D Dm (fun i => do
        let Xp ← plus X i
        run "act" 0 (Xp ++ v)) else pure []
      let adb ← if w1 then block Dm Dm (fun i => run "act" 0 (X ++ seedAt (a.drop R) i)) else pure []
      pure (finish f0 (ada ++ adb))
  | "rjac" | "ljac" | "rjacinv" | "ljacinv" | "smallAdj" | "hat" => if a.length != D then none else some do
      let f0 ← run op 0 (liftL a)
      pure (finish f0 [])
  | "adj" | "transform" => if a.length != R then none else some do
      let f0 ← run op 0 (liftL a)
      pure (finish f0 [])
  | _ => none

end Manif
