/-
  SO2.lean — include/manif/impl/so2/{SO2_base.h, SO2Tangent_base.h, SO2.h, SO2Tangent.h}
  One definition per C++ member, same operation order, same branch conditions.
  The 1×1 Jacobian is a scalar.  `dbg` = assertions enabled (no NDEBUG): every constructor
  from raw coefficients runs the unit-norm check and may raise `invalid_argument`.
-/
import ManifModel.Lin
import ManifModel.Utils
namespace Manif
open Scalar

/-- coefficients `[real, imag]`. -/
structure SO2 (K : Type) where
  re : K
  im : K
  deriving Repr, Inhabited

/-- tangent coefficient `[angle]`. -/
structure SO2T (K : Type) where
  ang : K
  deriving Repr, Inhabited

variable {K : Type} [Scalar K]

namespace SO2
/-- `SO2(real, imag)` → `SO2(DataType)` → `AssignmentEvaluator` -/
def make (dbg : Bool) (re im : K) : Except Err (SO2 K) := do
  checkUnit dbg (V2.mk re im).norm
  pure ⟨re, im⟩
/-- `SO2(theta)` constructor -/
def ofAngle (dbg : Bool) (θ : K) : Except Err (SO2 K) := make dbg (Scalar.cosUnq θ) (Scalar.sinUnq θ)
end SO2

namespace SO2T
/-- `SO2TangentBase::exp` (value, unchecked arithmetic) -/
def expRaw (t : SO2T K) : SO2 K := ⟨Scalar.cos t.ang, Scalar.sin t.ang⟩
def exp (dbg : Bool) (t : SO2T K) : Except Err (SO2 K) :=
  SO2.make dbg (Scalar.cos t.ang) (Scalar.sin t.ang)
def rjac (_t : SO2T K) : K := nat 1
def ljac (_t : SO2T K) : K := nat 1
def rjacinv (t : SO2T K) : K := rjac t
def ljacinv (t : SO2T K) : K := ljac t
def smallAdj (_t : SO2T K) : K := nat 0
def expJ (t : SO2T K) : K := rjac t
/-- `hat()` 2×2 -/
def hat (t : SO2T K) : M2 K := ⟨nat 0, -t.ang, t.ang, nat 0⟩
/-- `GeneratorEvaluator::run(i)`: `MANIF_CHECK(i==0, …, invalid_argument)`; `E0 = skew(1)`. -/
def generator (i : Int) : Except Err (M2 K) :=
  if i = 0 then .ok (M2.skew (nat 1)) else .error .invalid_argument
/-- `VeeEvaluatorImpl::run`: `t.coeffs() << v(1,0)` -/
def vee (m : M2 K) : SO2T K := ⟨m.a10⟩
def neg (t : SO2T K) : SO2T K := ⟨-t.ang⟩
def toList (t : SO2T K) : List K := [t.ang]
end SO2T

namespace SO2
def angle (X : SO2 K) : K := Scalar.atan2 X.im X.re
/-- `rotation()`: goes through `angle()` and `cos/sin` -/
def rotation (X : SO2 K) : M2 K :=
  let θ := X.angle
  ⟨Scalar.cos θ, -Scalar.sin θ, Scalar.sin θ, Scalar.cos θ⟩
/-- `transform()` 3×3 -/
def transform (X : SO2 K) : M3 K :=
  let R := X.rotation
  ⟨R.a00, R.a01, nat 0, R.a10, R.a11, nat 0, nat 0, nat 0, nat 1⟩
def inverseRaw (X : SO2 K) : SO2 K := ⟨X.re, -X.im⟩
def inverse (dbg : Bool) (X : SO2 K) : Except Err (SO2 K) := make dbg X.re (-X.im)
def inverseJ (_X : SO2 K) : K := -(nat 1)
def log (X : SO2 K) : SO2T K := ⟨X.angle⟩
def logJ (_X : SO2 K) : K := nat 1
/-- `compose` arithmetic: complex product, then the `|‖·‖²−1| > eps` renormalisation branch. -/
def composeRaw (X Y : SO2 K) : SO2 K :=
  let ret_real := X.re * Y.re - X.im * Y.im
  let ret_imag := X.re * Y.im + X.im * Y.re
  let ret_sqnorm := ret_real * ret_real + ret_imag * ret_imag
  if Scalar.gt (Scalar.abs (ret_sqnorm - nat 1)) Scalar.eps then
    let scale := approxSqrtInv ret_sqnorm
    ⟨ret_real * scale, ret_imag * scale⟩
  else ⟨ret_real, ret_imag⟩
def compose (dbg : Bool) (X Y : SO2 K) : Except Err (SO2 K) :=
  let r := composeRaw X Y
  make dbg r.re r.im
def composeJa (_X _Y : SO2 K) : K := nat 1
def composeJb (_X _Y : SO2 K) : K := nat 1
def act (X : SO2 K) (v : V2 K) : V2 K := X.rotation.mulVec v
/-- `J_vout_m = R * skew(1) * v` (2×1) -/
def actJm (X : SO2 K) (v : V2 K) : V2 K := (X.rotation.mul (M2.skew (nat 1))).mulVec v
def actJv (X : SO2 K) (_v : V2 K) : M2 K := X.rotation
def adj (_X : SO2 K) : K := nat 1
/-- `coeffs().normalize()` -/
def normalize (X : SO2 K) : SO2 K :=
  let n := (V2.mk X.re X.im).normalized
  ⟨n.x, n.y⟩
def toList (X : SO2 K) : List K := [X.re, X.im]
end SO2

end Manif
