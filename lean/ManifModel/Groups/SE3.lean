/-
  SE3.lean — include/manif/impl/se3/{SE3_base.h, SE3Tangent_base.h, SE3.h}
  Coefficients `[t(3), q(4)]`; tangent `[lin(3), ang(3)]`; Jacobians 6×6 as 2×2 blocks of 3×3.
-/
import ManifModel.Groups.SO3
namespace Manif
open Scalar

/-- 6×6 matrix as 3×3 blocks (top-left, top-right, bottom-left, bottom-right). -/
structure M6 (K : Type) where
  tl : M3 K
  tr : M3 K
  bl : M3 K
  br : M3 K
  deriving Repr, Inhabited

structure SE3 (K : Type) where
  t : V3 K
  q : Quat K
  deriving Repr, Inhabited

structure SE3T (K : Type) where
  lin : V3 K
  ang : V3 K
  deriving Repr, Inhabited

variable {K : Type} [Scalar K]

namespace M6
def one : M6 K := ⟨M3.one, M3.zero, M3.zero, M3.one⟩
def neg (a : M6 K) : M6 K := ⟨a.tl.neg, a.tr.neg, a.bl.neg, a.br.neg⟩
/-- 6×6 · 6×6 fixed-size coefficient-based product.  A 6-term dot product is reduced by Eigen as
    `(a0b0+(a1b1+a2b2)) + (a3b3+(a4b4+a5b5))`, i.e. block-wise `sum3 + sum3`. -/
def mul (a b : M6 K) : M6 K :=
  ⟨(a.tl.mul b.tl).add (a.tr.mul b.bl), (a.tl.mul b.tr).add (a.tr.mul b.br),
   (a.bl.mul b.tl).add (a.br.mul b.bl), (a.bl.mul b.tr).add (a.br.mul b.br)⟩
def toList (a : M6 K) : List K :=
  a.tl.row0 ++ a.tr.row0 ++ a.tl.row1 ++ a.tr.row1 ++ a.tl.row2 ++ a.tr.row2 ++
  a.bl.row0 ++ a.br.row0 ++ a.bl.row1 ++ a.br.row1 ++ a.bl.row2 ++ a.br.row2
end M6

namespace SE3
def asSO3 (X : SE3 K) : SO3 K := ⟨X.q⟩
/-- `SE3(t, q)` → `SE3(DataType)`: assertion on `tail<4>().norm()`. -/
def make (dbg : Bool) (t : V3 K) (q : Quat K) : Except Err (SE3 K) := do
  checkUnit dbg q.norm
  pure ⟨t, q⟩
end SE3

namespace SE3
def ofXYZRPY (dbg : Bool) (x y z roll pitch yaw : K) : Except Err (SE3 K) :=
  let qz := Quat.ofAngleAxis yaw ⟨nat 0, nat 0, nat 1⟩
  let qy := Quat.ofAngleAxis pitch ⟨nat 0, nat 1, nat 0⟩
  let qx := Quat.ofAngleAxis roll ⟨nat 1, nat 0, nat 0⟩
  make dbg ⟨x, y, z⟩ ((qz.mul qy).mul qx)
/-- `SE3(t, AngleAxis)` -/
def ofTAA (dbg : Bool) (t : V3 K) (angle : K) (axis : V3 K) : Except Err (SE3 K) :=
  make dbg t (Quat.ofAngleAxis angle axis)
/-- `SE3(Isometry)`: `SE3(h.translation(), Quaternion(h.rotation()))`, 4×4 row-major -/
def ofIsometry (dbg : Bool) (h : List K) : Except Err (SE3 K) :=
  let g (r c : Nat) : K := h.getD (4 * r + c) (nat 0)
  make dbg ⟨g 0 3, g 1 3, g 2 3⟩
    (Quat.ofRot ⟨g 0 0, g 0 1, g 0 2, g 1 0, g 1 1, g 1 2, g 2 0, g 2 1, g 2 2⟩)
def setQuat (dbg : Bool) (X : SE3 K) (q : Quat K) : Except Err (SE3 K) := do
  checkUnit dbg q.norm
  pure ⟨X.t, q⟩
end SE3

namespace SE3T
def asSO3 (t : SE3T K) : SO3T K := ⟨t.ang⟩
def neg (t : SE3T K) : SE3T K := ⟨t.lin.neg, t.ang.neg⟩

/-- `SE3TangentBase::fillQ(Q, c)` with `c = [lin; ang]`. -/
def fillQ (lin ang : V3 K) : M3 K :=
  let theta_sq := ang.sqNorm
  let A : K := rat 1 2
  let (B, C, D) :=
    if Scalar.le theta_sq Scalar.eps then
      (rat 1 6 + rat 1 120 * theta_sq,
       -(rat 1 24) + rat 1 720 * theta_sq,
       -(rat 1 60))
    else
      let theta := Scalar.sqrt theta_sq
      let sin_theta := Scalar.sin theta
      let cos_theta := Scalar.cos theta
      let B := (theta - sin_theta) / (theta_sq * theta)
      let C := (nat 1 - theta_sq / nat 2 - cos_theta) / (theta_sq * theta_sq)
      let D := C - nat 3 * (theta - sin_theta - theta_sq * theta / nat 6) / (theta_sq * theta_sq * theta)
      (B, C, D)
  let V := M3.skew lin
  let W := M3.skew ang
  let VW := V.mul W
  let WV := VW.transpose
  let WVW := WV.mul W
  let VWW := VW.mul W
  -- Q = + A*V + B*(WV+VW+WVW) - C*(VWW - VWW^T - 3*WVW) - (D*WVW)*W
  (((M3.smul A V).add (M3.smul B ((WV.add VW).add WVW))).sub
      (M3.smul C ((VWW.sub VWW.transpose).sub (M3.smul (nat 3) WVW)))).sub
    ((M3.smul D WVW).mul W)

def hatRows (t : SE3T K) : List K :=
  let l := t.lin; let a := t.ang
  [nat 0, -a.z, a.y, l.x,
   a.z, nat 0, -a.x, l.y,
   -a.y, a.x, nat 0, l.z,
   nat 0, nat 0, nat 0, nat 0]

def rjac (t : SE3T K) : M6 K :=
  let J := t.asSO3.rjac
  ⟨J, fillQ t.lin.neg t.ang.neg, M3.zero, J⟩
def ljac (t : SE3T K) : M6 K :=
  let J := t.asSO3.ljac
  ⟨J, fillQ t.lin t.ang, M3.zero, J⟩
def rjacinv (t : SE3T K) : M6 K :=
  let Q := fillQ t.lin.neg t.ang.neg
  let J := t.asSO3.rjacinv
  ⟨J, (J.neg.mul Q).mul J, M3.zero, J⟩
def ljacinv (t : SE3T K) : M6 K :=
  let Q := fillQ t.lin t.ang
  let J := t.asSO3.ljacinv
  ⟨J, (J.neg.mul Q).mul J, M3.zero, J⟩
def smallAdj (t : SE3T K) : M6 K :=
  let W := M3.skew t.ang
  ⟨W, M3.skew t.lin, M3.zero, W⟩

def expRaw (t : SE3T K) : V3 K × Quat K :=
  (t.asSO3.ljac.mulVec t.lin, t.asSO3.expRaw)
/-- `LieGroup(asSO3().ljac()*lin(), asSO3().exp().quat())`: the inner `SO3` is constructed
    (checked), then the `SE3`. -/
def exp (dbg : Bool) (t : SE3T K) : Except Err (SE3 K) := do
  let r ← t.asSO3.exp dbg
  SE3.make dbg (t.asSO3.ljac.mulVec t.lin) r.q
def expJ (t : SE3T K) : M6 K := rjac t

/-- generators `E0..E5` as 4×4 row-major lists. -/
def generator (i : Int) : Except Err (List K) :=
  let z : K := nat 0; let o : K := nat 1; let m : K := -(nat 1)
  if i = 0 then .ok [z,z,z,o, z,z,z,z, z,z,z,z, z,z,z,z]
  else if i = 1 then .ok [z,z,z,z, z,z,z,o, z,z,z,z, z,z,z,z]
  else if i = 2 then .ok [z,z,z,z, z,z,z,z, z,z,z,o, z,z,z,z]
  else if i = 3 then .ok [z,z,z,z, z,z,m,z, z,o,z,z, z,z,z,z]
  else if i = 4 then .ok [z,z,o,z, z,z,z,z, m,z,z,z, z,z,z,z]
  else if i = 5 then .ok [z,m,z,z, o,z,z,z, z,z,z,z, z,z,z,z]
  else .error .invalid_argument

/-- `t.coeffs() << v(0,3), v(1,3), v(2,3), v(2,1), v(0,2), v(1,0)` on a 4×4 row-major list. -/
def vee (m : List K) : SE3T K :=
  let g (r c : Nat) : K := m.getD (4 * r + c) (nat 0)
  ⟨⟨g 0 3, g 1 3, g 2 3⟩, ⟨g 2 1, g 0 2, g 1 0⟩⟩
def toList (t : SE3T K) : List K := t.lin.toList ++ t.ang.toList
end SE3T

namespace SE3
def rotation (X : SE3 K) : M3 K := X.asSO3.rotation
def translation (X : SE3 K) : V3 K := X.t
def transformRows (X : SE3 K) : List K :=
  let R := X.rotation
  [R.a00, R.a01, R.a02, X.t.x,
   R.a10, R.a11, R.a12, X.t.y,
   R.a20, R.a21, R.a22, X.t.z,
   nat 0, nat 0, nat 0, nat 1]
def adj (X : SE3 K) : M6 K :=
  let R := X.rotation
  ⟨R, (M3.skew X.t).mul R, M3.zero, R⟩
def inverseRaw (X : SE3 K) : V3 K × Quat K :=
  let qi := X.q.conj
  (((SO3.mk qi).act X.t).neg, qi)
def inverse (dbg : Bool) (X : SE3 K) : Except Err (SE3 K) := do
  let so3inv ← X.asSO3.inverse dbg
  make dbg (so3inv.act X.t).neg so3inv.q
def inverseJ (X : SE3 K) : M6 K := (adj X).neg
def log (X : SE3 K) : SE3T K :=
  let so3tan := X.asSO3.log
  ⟨so3tan.ljacinv.mulVec X.t, so3tan.v⟩
def logJ (X : SE3 K) : M6 K := (log X).rjacinv
def composeRaw (X Y : SE3 K) : V3 K × Quat K :=
  ((X.rotation.mulVec Y.t).add X.t, SO3.composeRaw X.asSO3 Y.asSO3)
def compose (dbg : Bool) (X Y : SE3 K) : Except Err (SE3 K) := do
  let r ← SO3.compose dbg X.asSO3 Y.asSO3
  make dbg ((X.rotation.mulVec Y.t).add X.t) r.q
def composeJa (dbg : Bool) (_X Y : SE3 K) : Except Err (M6 K) := do
  let yi ← inverse dbg Y
  pure (adj yi)
def composeJb (_X _Y : SE3 K) : M6 K := M6.one
def act (X : SE3 K) (v : V3 K) : V3 K := X.t.add (X.rotation.mulVec v)
/-- 3×6 `[R | -R*skew(v)]` row-major -/
def actJm (X : SE3 K) (v : V3 K) : List K :=
  let R := X.rotation
  let S := R.neg.mul (M3.skew v)
  R.row0 ++ S.row0 ++ R.row1 ++ S.row1 ++ R.row2 ++ S.row2
def actJv (X : SE3 K) (_v : V3 K) : M3 K := X.rotation
def normalize (X : SE3 K) : SE3 K := ⟨X.t, X.q.normalized⟩
def toList (X : SE3 K) : List K := X.t.toList ++ X.q.toList
end SE3

end Manif
