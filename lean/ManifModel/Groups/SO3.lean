/-
  SO3.lean — include/manif/impl/so3/{SO3_base.h, SO3Tangent_base.h, SO3.h}
  Coefficients: Eigen quaternion order `[x, y, z, w]`; tangent `[x, y, z]`; Jacobians 3×3.
-/
import ManifModel.Lin
import ManifModel.Utils
namespace Manif
open Scalar

structure SO3 (K : Type) where
  q : Quat K
  deriving Repr, Inhabited

structure SO3T (K : Type) where
  v : V3 K
  deriving Repr, Inhabited

variable {K : Type} [Scalar K]

namespace SO3
/-- every raw-coefficient constructor: `abs(data.norm()-1) < eps` when assertions are on. -/
def make (dbg : Bool) (q : Quat K) : Except Err (SO3 K) := do
  checkUnit dbg q.norm
  pure ⟨q⟩
end SO3

namespace SO3
/-- `SO3(AngleAxis)` -/
def ofAngleAxis (dbg : Bool) (angle : K) (axis : V3 K) : Except Err (SO3 K) :=
  make dbg (Quat.ofAngleAxis angle axis)
/-- `SO3(roll, pitch, yaw)`: `AngleAxis(yaw,Z) * AngleAxis(pitch,Y) * AngleAxis(roll,X)` -/
def ofRPY (dbg : Bool) (roll pitch yaw : K) : Except Err (SO3 K) :=
  let qz := Quat.ofAngleAxis yaw ⟨nat 0, nat 0, nat 1⟩
  let qy := Quat.ofAngleAxis pitch ⟨nat 0, nat 1, nat 0⟩
  let qx := Quat.ofAngleAxis roll ⟨nat 1, nat 0, nat 0⟩
  make dbg ((qz.mul qy).mul qx)
/-- `quat(q)` setter: `MANIF_ASSERT(abs(q.norm()-1) < eps)`; the object keeps its value on failure. -/
def setQuat (dbg : Bool) (_X : SO3 K) (q : Quat K) : Except Err (SO3 K) := do
  checkUnit dbg q.norm
  pure ⟨q⟩
end SO3

namespace SO3T
def hat (t : SO3T K) : M3 K := M3.skew t.v

/-- value of `exp`, unchecked arithmetic. -/
def expRaw (t : SO3T K) : Quat K :=
  let theta_sq := t.v.sqNorm
  if Scalar.gt theta_sq Scalar.eps then
    let theta := Scalar.sqrt theta_sq
    Quat.ofAngleAxis theta t.v.normalized
  else
    ⟨t.v.x / nat 2, t.v.y / nat 2, t.v.z / nat 2, nat 1⟩

def exp (dbg : Bool) (t : SO3T K) : Except Err (SO3 K) := SO3.make dbg (expRaw t)

/-- `J_m_t` of `exp`. (`setIdentity; noalias() -= a*W; noalias() += b*W*W`) -/
def expJ (t : SO3T K) : M3 K :=
  let theta_sq := t.v.sqNorm
  if Scalar.gt theta_sq Scalar.eps then
    let theta := Scalar.sqrt theta_sq
    let W := hat t
    let J := M3.one.sub (M3.smul (nat 2 * Scalar.sin (theta / nat 2) * Scalar.sin (theta / nat 2) / theta_sq) W)
    J.add ((M3.smul ((theta - Scalar.sin theta) / (theta_sq * theta)) W).mul W)
  else
    M3.one.sub (M3.smul (rat 1 2) (hat t))

def ljac (t : SO3T K) : M3 K :=
  let theta_sq := t.v.sqNorm
  let W := hat t
  if Scalar.le theta_sq Scalar.eps then
    M3.one.add (M3.smul (rat 1 2) W)
  else
    let theta := Scalar.sqrt theta_sq
    (M3.one.add (M3.smul (nat 2 * Scalar.sin (theta / nat 2) * Scalar.sin (theta / nat 2) / theta_sq) W)).add
      ((M3.smul ((theta - Scalar.sin theta) / (theta_sq * theta)) W).mul W)

def rjac (t : SO3T K) : M3 K := (ljac t).transpose

def ljacinv (t : SO3T K) : M3 K :=
  let theta_sq := t.v.sqNorm
  let W := hat t
  if Scalar.le theta_sq Scalar.eps then
    M3.one.sub (M3.smul (rat 1 2) W)
  else
    let theta := Scalar.sqrt theta_sq
    ((M3.one.sub (M3.smul (rat 1 2) W))).add
      ((M3.smul (nat 1 / theta_sq - Scalar.cos (theta / nat 2) / (nat 2 * theta * Scalar.sin (theta / nat 2))) W).mul W)

def rjacinv (t : SO3T K) : M3 K := (ljacinv t).transpose
def smallAdj (t : SO3T K) : M3 K := hat t

def generator (i : Int) : Except Err (M3 K) :=
  if i = 0 then .ok ⟨nat 0, nat 0, nat 0, nat 0, nat 0, -(nat 1), nat 0, nat 1, nat 0⟩
  else if i = 1 then .ok ⟨nat 0, nat 0, nat 1, nat 0, nat 0, nat 0, -(nat 1), nat 0, nat 0⟩
  else if i = 2 then .ok ⟨nat 0, -(nat 1), nat 0, nat 1, nat 0, nat 0, nat 0, nat 0, nat 0⟩
  else .error .invalid_argument

/-- `t.coeffs() << v(2,1), v(0,2), v(1,0)` -/
def vee (m : M3 K) : SO3T K := ⟨⟨m.a21, m.a02, m.a10⟩⟩
def neg (t : SO3T K) : SO3T K := ⟨t.v.neg⟩
def toList (t : SO3T K) : List K := t.v.toList
end SO3T

namespace SO3
def rotation (X : SO3 K) : M3 K := X.q.toRot
/-- 4×4 -/
def transformRows (X : SO3 K) : List K :=
  let R := X.rotation
  [R.a00, R.a01, R.a02, nat 0,
   R.a10, R.a11, R.a12, nat 0,
   R.a20, R.a21, R.a22, nat 0,
   nat 0, nat 0, nat 0, nat 1]
def inverseRaw (X : SO3 K) : Quat K := X.q.conj
def inverse (dbg : Bool) (X : SO3 K) : Except Err (SO3 K) := make dbg X.q.conj
def inverseJ (X : SO3 K) : M3 K := X.rotation.neg

def log (X : SO3 K) : SO3T K :=
  let vec := X.q.vec
  let sin_angle_squared := vec.sqNorm
  let log_coeff :=
    if Scalar.gt sin_angle_squared Scalar.eps then
      let sin_angle := Scalar.sqrt sin_angle_squared
      let cos_angle := X.q.w
      let two_angle := nat 2 *
        (if Scalar.lt cos_angle (nat 0) then Scalar.atan2 (-sin_angle) (-cos_angle)
         else Scalar.atan2 sin_angle cos_angle)
      two_angle / sin_angle
    else (if Scalar.lt X.q.w (nat 0) then -(nat 2) else nat 2)
  ⟨vec.muls log_coeff⟩

/-- `J_t_m` of `log`: `I + 0.5 hat + (…) hat hat` with its own `theta2 > eps` branch. -/
def logJ (X : SO3 K) : M3 K :=
  let tan := log X
  let W := tan.hat
  let J := M3.one.add (M3.smul (rat 1 2) W)
  let theta2 := tan.v.sqNorm
  if Scalar.gt theta2 Scalar.eps then
    let theta := Scalar.sqrt theta2
    J.add ((M3.smul (Scalar.so3LogJCoeff theta2 theta) W).mul W)
  else J

def composeRaw (X Y : SO3 K) : Quat K :=
  let ret_q := X.q.mul Y.q
  let ret_sqnorm := ret_q.sqNorm
  if Scalar.gt (Scalar.abs (ret_sqnorm - nat 1)) Scalar.eps then
    ret_q.scale (approxSqrtInv ret_sqnorm)
  else ret_q
def compose (dbg : Bool) (X Y : SO3 K) : Except Err (SO3 K) := make dbg (composeRaw X Y)
def composeJa (_X Y : SO3 K) : M3 K := Y.rotation.transpose
def composeJb (_X _Y : SO3 K) : M3 K := M3.one
def act (X : SO3 K) (v : V3 K) : V3 K := X.rotation.mulVec v
def actJm (X : SO3 K) (v : V3 K) : M3 K := X.rotation.neg.mul (M3.skew v)
def actJv (X : SO3 K) (_v : V3 K) : M3 K := X.rotation
def adj (X : SO3 K) : M3 K := X.rotation
def normalize (X : SO3 K) : SO3 K := ⟨X.q.normalized⟩
def toList (X : SO3 K) : List K := X.q.toList
end SO3

end Manif
