/-
  SE2.lean — include/manif/impl/se2/{SE2_base.h, SE2Tangent_base.h, SE2.h}
  Coefficients `[x, y, real, imag]`, tangent `[x, y, angle]`, Jacobians 3×3.
-/
import ManifModel.Groups.SO2
namespace Manif
open Scalar

structure SE2 (K : Type) where
  x : K
  y : K
  re : K
  im : K
  deriving Repr, Inhabited

structure SE2T (K : Type) where
  x : K
  y : K
  ang : K
  deriving Repr, Inhabited

variable {K : Type} [Scalar K]

namespace SE2
/-- `SE2(x, y, real, imag)` → `SE2(DataType)` → assertion on `tail<2>().norm()` -/
def make (dbg : Bool) (x y re im : K) : Except Err (SE2 K) := do
  checkUnit dbg (V2.mk re im).norm
  pure ⟨x, y, re, im⟩
/-- `SE2(x, y, theta)` -/
def ofXYAngle (dbg : Bool) (x y θ : K) : Except Err (SE2 K) :=
  make dbg x y (Scalar.cosUnq θ) (Scalar.sinUnq θ)
/-- `SE2(Isometry2)`: `SE2(tx, ty, Rotation2D(h.rotation()).angle())`, `angle = atan2(m10, m00)` -/
def ofIsometry (dbg : Bool) (h : List K) : Except Err (SE2 K) :=
  let g (r c : Nat) : K := h.getD (3 * r + c) (nat 0)
  ofXYAngle dbg (g 0 2) (g 1 2) (Scalar.atan2 (g 1 0) (g 0 0))
end SE2

namespace SE2T

/-- The coefficients `A = sin θ/θ`, `B = (1-cos θ)/θ` with their small-angle branch
    (`theta_sq*theta_sq < eps`, i.e. |θ| < eps^(1/4)), as written three times in `SE2Tangent_base.h` (exp, ljac) and once in
    `SE2_base.h` (log). -/
def coefAB (theta cos_theta sin_theta : K) : K × K :=
  let theta_sq := theta * theta
  if Scalar.lt (theta_sq * theta_sq) Scalar.eps then
    (nat 1 - rat 1 6 * theta_sq,
     rat 1 2 * theta - rat 1 24 * theta * theta_sq)
  else
    (sin_theta / theta, (nat 1 - cos_theta) / theta)

def expRaw (t : SE2T K) : SE2 K :=
  let theta := t.ang
  let cos_theta := Scalar.cos theta
  let sin_theta := Scalar.sin theta
  let (A, B) := coefAB theta cos_theta sin_theta
  ⟨A * t.x - B * t.y, B * t.x + A * t.y, cos_theta, sin_theta⟩

def exp (dbg : Bool) (t : SE2T K) : Except Err (SE2 K) :=
  let r := expRaw t
  SE2.make dbg r.x r.y r.re r.im

/-- `J_m_t` of `exp` (= `rjac()`). -/
def expJ (t : SE2T K) : M3 K :=
  let theta := t.ang
  let cos_theta := Scalar.cos theta
  let sin_theta := Scalar.sin theta
  let theta_sq := theta * theta
  let (A, B) := coefAB theta cos_theta sin_theta
  let (j02, j12) :=
    if Scalar.lt (theta_sq * theta_sq) Scalar.eps then
      (-t.y / nat 2 + theta * t.x / nat 6,
        t.x / nat 2 + theta * t.y / nat 6)
    else
      ((-t.y + theta * t.x + t.y * cos_theta - t.x * sin_theta) / theta_sq,
       ( t.x + theta * t.y - t.x * cos_theta - t.y * sin_theta) / theta_sq)
  ⟨A, B, j02,
   -B, A, j12,
   nat 0, nat 0, nat 1⟩

def rjac (t : SE2T K) : M3 K := expJ t

def rjacinv (t : SE2T K) : M3 K :=
  let theta := t.ang
  let cos_theta := Scalar.cos theta
  let sin_theta := Scalar.sin theta
  let theta_sq := theta * theta
  let A := theta * sin_theta
  let j01 := -theta * rat 1 2
  let j10 := -j01
  if Scalar.gt (theta_sq * theta_sq * theta_sq * theta_sq) Scalar.eps then
    let j00 := -A / (nat 2 * cos_theta - nat 2)
    let C := nat 1 / theta - sin_theta / (nat 2 * (nat 1 - cos_theta))
    let j02 := t.y / nat 2 + C * t.x
    let j12 := -t.x / nat 2 + C * t.y
    ⟨j00, j01, j02, j10, j00, j12, nat 0, nat 0, nat 1⟩
  else
    let S := rat 1 12 + theta_sq * (rat 1 720 + theta_sq * rat 1 30240)
    let j00 := nat 1 - theta_sq * S
    let C := theta * S
    let j02 := t.y / nat 2 + C * t.x
    let j12 := -t.x / nat 2 + C * t.y
    ⟨j00, j01, j02, j10, j00, j12, nat 0, nat 0, nat 1⟩

def ljac (t : SE2T K) : M3 K :=
  let theta := t.ang
  let cos_theta := Scalar.cos theta
  let sin_theta := Scalar.sin theta
  let theta_sq := theta * theta
  let (A, B) := coefAB theta cos_theta sin_theta
  let (j02, j12) :=
    if Scalar.lt (theta_sq * theta_sq) Scalar.eps then
      ( t.y / nat 2 + theta * t.x / nat 6,
       -t.x / nat 2 + theta * t.y / nat 6)
    else
      (( t.y + theta * t.x - t.y * cos_theta - t.x * sin_theta) / theta_sq,
       (-t.x + theta * t.y + t.x * cos_theta - t.y * sin_theta) / theta_sq)
  ⟨A, -B, j02,
   B, A, j12,
   nat 0, nat 0, nat 1⟩

def ljacinv (t : SE2T K) : M3 K :=
  let theta := t.ang
  let cos_theta := Scalar.cos theta
  let sin_theta := Scalar.sin theta
  let theta_sq := theta * theta
  let A := theta * sin_theta
  let j01 := theta * rat 1 2
  let j10 := -j01
  if Scalar.gt (theta_sq * theta_sq * theta_sq * theta_sq) Scalar.eps then
    let j00 := -A / (nat 2 * cos_theta - nat 2)
    let C := nat 1 / theta - sin_theta / (nat 2 * (nat 1 - cos_theta))
    let j02 := -t.y / nat 2 + C * t.x
    let j12 := t.x / nat 2 + C * t.y
    ⟨j00, j01, j02, j10, j00, j12, nat 0, nat 0, nat 1⟩
  else
    let S := rat 1 12 + theta_sq * (rat 1 720 + theta_sq * rat 1 30240)
    let j00 := nat 1 - theta_sq * S
    let C := theta * S
    let j02 := -t.y / nat 2 + C * t.x
    let j12 := t.x / nat 2 + C * t.y
    ⟨j00, j01, j02, j10, j00, j12, nat 0, nat 0, nat 1⟩

def smallAdj (t : SE2T K) : M3 K :=
  ⟨nat 0, -t.ang, t.y,
   t.ang, nat 0, -t.x,
   nat 0, nat 0, nat 0⟩

def hat (t : SE2T K) : M3 K :=
  ⟨nat 0, -t.ang, t.x,
   t.ang, nat 0, t.y,
   nat 0, nat 0, nat 0⟩

def generator (i : Int) : Except Err (M3 K) :=
  if i = 0 then .ok ⟨nat 0, nat 0, nat 1, nat 0, nat 0, nat 0, nat 0, nat 0, nat 0⟩
  else if i = 1 then .ok ⟨nat 0, nat 0, nat 0, nat 0, nat 0, nat 1, nat 0, nat 0, nat 0⟩
  else if i = 2 then .ok ⟨nat 0, -(nat 1), nat 0, nat 1, nat 0, nat 0, nat 0, nat 0, nat 0⟩
  else .error .invalid_argument

/-- `InnerWeightsEvaluator<SE2TangentBase>` (hand-written override): diag(1,1,2). -/
def innerWeights : M3 K := ⟨nat 1, nat 0, nat 0, nat 0, nat 1, nat 0, nat 0, nat 0, nat 2⟩

/-- `t.coeffs() << v(0,2), v(1,2), v(1,0)` -/
def vee (m : M3 K) : SE2T K := ⟨m.a02, m.a12, m.a10⟩
def neg (t : SE2T K) : SE2T K := ⟨-t.x, -t.y, -t.ang⟩
def toList (t : SE2T K) : List K := [t.x, t.y, t.ang]
end SE2T

namespace SE2
def angle (X : SE2 K) : K := Scalar.atan2 X.im X.re
def rotation (X : SE2 K) : M2 K := ⟨X.re, -X.im, X.im, X.re⟩
def translation (X : SE2 K) : V2 K := ⟨X.x, X.y⟩
def transform (X : SE2 K) : M3 K :=
  ⟨X.re, -X.im, X.x,
   X.im, X.re, X.y,
   nat 0, nat 0, nat 1⟩
def adj (X : SE2 K) : M3 K :=
  ⟨X.re, -X.im, X.y,
   X.im, X.re, -X.x,
   nat 0, nat 0, nat 1⟩
/-- `inverse`: `LieGroup(-x*re - y*im, x*im - y*re, real(), -imag())` (conjugate rotation). -/
def inverseRaw (X : SE2 K) : SE2 K :=
  ⟨-X.x * X.re - X.y * X.im, X.x * X.im - X.y * X.re, X.re, -X.im⟩
def inverse (dbg : Bool) (X : SE2 K) : Except Err (SE2 K) :=
  let r := inverseRaw X
  make dbg r.x r.y r.re r.im
def inverseJ (X : SE2 K) : M3 K := (adj X).neg
def log (X : SE2 K) : SE2T K :=
  let theta := X.angle
  let cos_theta := X.re
  let sin_theta := X.im
  let (A, B) := SE2T.coefAB theta cos_theta sin_theta
  let den := nat 1 / (A * A + B * B)
  let A := A * den
  let B := B * den
  ⟨A * X.x + B * X.y, -B * X.x + A * X.y, theta⟩
def logJ (X : SE2 K) : M3 K := (log X).rjacinv
def composeRaw (X Y : SE2 K) : SE2 K :=
  let lhs_real := X.re
  let lhs_imag := X.im
  let rhs_real := Y.re
  let rhs_imag := Y.im
  let ret_real := lhs_real * rhs_real - lhs_imag * rhs_imag
  let ret_imag := lhs_real * rhs_imag + lhs_imag * rhs_real
  let ret_sqnorm := ret_real * ret_real + ret_imag * ret_imag
  let (ret_real, ret_imag) :=
    if Scalar.gt (Scalar.abs (ret_sqnorm - nat 1)) Scalar.eps then
      let scale := approxSqrtInv ret_sqnorm
      (ret_real * scale, ret_imag * scale)
    else (ret_real, ret_imag)
  ⟨lhs_real * Y.x - lhs_imag * Y.y + X.x,
   lhs_imag * Y.x + lhs_real * Y.y + X.y,
   ret_real, ret_imag⟩
def compose (dbg : Bool) (X Y : SE2 K) : Except Err (SE2 K) :=
  let r := composeRaw X Y
  make dbg r.x r.y r.re r.im
/-- `J_mc_ma = m.inverse().adj()` — note it *constructs* `m.inverse()` (checked). -/
def composeJa (dbg : Bool) (_X Y : SE2 K) : Except Err (M3 K) := do
  let yi ← inverse dbg Y
  pure (adj yi)
def composeJb (_X _Y : SE2 K) : M3 K := M3.one
def act (X : SE2 K) (v : V2 K) : V2 K := X.translation.add (X.rotation.mulVec v)
/-- 2×3: `[R | R*(skew(1)*v)]`, returned as rows. -/
def actJm (X : SE2 K) (v : V2 K) : List K :=
  let R := X.rotation
  let c := R.mulVec ((M2.skew (nat 1)).mulVec v)
  [R.a00, R.a01, c.x, R.a10, R.a11, c.y]
def actJv (X : SE2 K) (_v : V2 K) : M2 K := X.rotation
def normalize (X : SE2 K) : SE2 K :=
  let n := (V2.mk X.re X.im).normalized
  ⟨X.x, X.y, n.x, n.y⟩
def toList (X : SE2 K) : List K := [X.x, X.y, X.re, X.im]
end SE2

end Manif
