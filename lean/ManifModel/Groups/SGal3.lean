/-
  SGal3.lean — include/manif/impl/sgal3/{SGal3_base.h, SGal3Tangent_base.h, SGal3.h}
  Coefficients `[p(3), q(4), v(3), t]`; tangent `[rho(3), nu(3), theta(3), iota]`
  (`lin, lin2, ang, t`); Jacobians 10×10, kept as rows (a 3×3 grid of 3×3 blocks, a last column
  and a last row).  Transcribed in Eigen's evaluation order (which sub-expression is a
  temporary, `dst ±= xpr + product` split into two updates, scalar factors folded into the left
  operand of a product).  `rjacinv` / `ljacinv` are `rjac().inverse()` / `ljac().inverse()` in
  the C++ — Eigen's general LU inverse; the model inverts with the same unblocked partial-pivoting
  elimination but plain triangular solves, so those outputs (and the Jacobians built from them)
  are compared under a rounding tolerance by the correspondence check, not bit for bit.
-/
import ManifModel.Groups.SE23
import ManifModel.Groups.Rn
namespace Manif
open Scalar

structure SGal3 (K : Type) where
  p : V3 K
  q : Quat K
  v : V3 K
  t : K
  deriving Repr, Inhabited

structure SGal3T (K : Type) where
  lin : V3 K      -- rho
  lin2 : V3 K     -- nu
  ang : V3 K      -- theta
  t : K           -- iota
  deriving Repr, Inhabited

variable {K : Type} [Scalar K]

/-- 10×10 rows from a 3×3 grid of 3×3 blocks, the last column `(c0; c1; c2; corner)` and a zero
    last row. -/
def rows10 (b : M9 K) (c0 c1 c2 : V3 K) (corner : K) : List (List K) :=
  [b.b00.row0 ++ b.b01.row0 ++ b.b02.row0 ++ [c0.x],
   b.b00.row1 ++ b.b01.row1 ++ b.b02.row1 ++ [c0.y],
   b.b00.row2 ++ b.b01.row2 ++ b.b02.row2 ++ [c0.z],
   b.b10.row0 ++ b.b11.row0 ++ b.b12.row0 ++ [c1.x],
   b.b10.row1 ++ b.b11.row1 ++ b.b12.row1 ++ [c1.y],
   b.b10.row2 ++ b.b11.row2 ++ b.b12.row2 ++ [c1.z],
   b.b20.row0 ++ b.b21.row0 ++ b.b22.row0 ++ [c2.x],
   b.b20.row1 ++ b.b21.row1 ++ b.b22.row1 ++ [c2.y],
   b.b20.row2 ++ b.b21.row2 ++ b.b22.row2 ++ [c2.z],
   (List.replicate 9 (nat 0 : K)) ++ [corner]]

namespace RowsMat
/-- unblocked LU with partial pivoting (`partial_lu_impl::unblocked_lu`, used for sizes ≤ 16):
    pivot = first entry of largest magnitude in the column, row swap, column scaled by the pivot,
    rank-one update.  Returns the packed LU rows and the row permutation applied so far. -/
def luStep (n : Nat) (k : Nat) (st : List (List K) × List Nat) : List (List K) × List Nat :=
  let (a, perm) := st
  let colAbs (i : Nat) : K := Scalar.abs ((a.getD i []).getD k (nat 0))
  -- first index of the maximum of |a_ik|, i ≥ k
  let piv := (List.range (n - k)).foldl (fun best d =>
    let i := k + d
    if Scalar.lt (colAbs best) (colAbs i) then i else best) k
  let swap {α : Type} (l : List α) (dflt : α) : List α :=
    (List.range l.length).map fun i =>
      if i = k then l.getD piv dflt else if i = piv then l.getD k dflt else l.getD i dflt
  let a := swap a []
  let perm := swap perm 0
  let rowk := a.getD k []
  let akk := rowk.getD k (nat 0)
  let a := (List.range n).map fun i =>
    let row := a.getD i []
    if i ≤ k then row else
      let l := row.getD k (nat 0) / akk
      (List.range n).map fun j =>
        if j < k then row.getD j (nat 0)
        else if j = k then l
        else row.getD j (nat 0) - l * rowk.getD j (nat 0)
  (a, perm)

def lu (n : Nat) (a : List (List K)) : List (List K) × List Nat :=
  (List.range n).foldl (fun st k => luStep n k st) (a, List.range n)

/-- inverse through the LU factors: for each unit vector of the permuted identity, forward
    substitution with the unit lower factor, back substitution with the upper factor. -/
def inverse (n : Nat) (a : List (List K)) : List (List K) :=
  let (f, perm) := lu n a
  let g (i j : Nat) : K := (f.getD i []).getD j (nat 0)
  let cols := (List.range n).map fun c =>
    -- right-hand side: column c of P (row i of P·I is e_{perm i})
    let b := (List.range n).map fun i => if perm.getD i 0 = c then (nat 1 : K) else nat 0
    let y := (List.range n).foldl (fun (y : List K) i =>
      y ++ [(List.range i).foldl (fun acc j => acc - g i j * y.getD j (nat 0)) (b.getD i (nat 0))]) []
    let x := (List.range n).foldl (fun (x : List K) d =>
      let i := n - 1 - d
      -- x holds entries i+1 … n-1 (in order)
      let s := (List.range (n - 1 - i)).foldl (fun acc e =>
        let j := i + 1 + e
        acc - g i j * x.getD e (nat 0)) (y.getD i (nat 0))
      (s / g i i) :: x) []
    x
  (List.range n).map fun i => cols.map fun col => col.getD i (nat 0)

def neg (a : List (List K)) : List (List K) := a.map fun r => r.map fun x => -x
def transpose (n : Nat) (a : List (List K)) : List (List K) :=
  (List.range n).map fun j => a.map fun r => r.getD j (nat 0)
end RowsMat

namespace SGal3
def asSO3 (X : SGal3 K) : SO3 K := ⟨X.q⟩
/-- assertion on `segment<4>(3).norm()` -/
def make (dbg : Bool) (p : V3 K) (q : Quat K) (v : V3 K) (t : K) : Except Err (SGal3 K) := do
  checkUnit dbg q.norm
  pure ⟨p, q, v, t⟩
/-- `SGal3(Isometry3, v, t)`: 16 row-major entries, then `v`, then `t` -/
def ofIsometry (dbg : Bool) (h : List K) : Except Err (SGal3 K) :=
  let g (r c : Nat) : K := h.getD (4 * r + c) (nat 0)
  make dbg ⟨g 0 3, g 1 3, g 2 3⟩
    (Quat.ofRot ⟨g 0 0, g 0 1, g 0 2, g 1 0, g 1 1, g 1 2, g 2 0, g 2 1, g 2 2⟩)
    ⟨h.getD 16 (nat 0), h.getD 17 (nat 0), h.getD 18 (nat 0)⟩ (h.getD 19 (nat 0))
def toList (X : SGal3 K) : List K := X.p.toList ++ X.q.toList ++ X.v.toList ++ [X.t]
end SGal3

namespace SGal3T
def asSO3 (t : SGal3T K) : SO3T K := ⟨t.ang⟩
def neg (t : SGal3T K) : SGal3T K := ⟨t.lin.neg, t.lin2.neg, t.ang.neg, -t.t⟩
def toList (t : SGal3T K) : List K := t.lin.toList ++ t.lin2.toList ++ t.ang.toList ++ [t.t]

/-- `fillE`: `E = ½I`, then `E += c₁W` and `E += (c₂W)W` (the sum `xpr + product` is applied as
    two updates); series of the coefficients (to `θ⁶`) below `θ⁸ < eps`. -/
def fillE (so3 : SO3T K) : M3 K :=
  let theta_sq := so3.v.sqNorm
  let half : M3 K := M3.smul (rat 1 2) M3.one    -- DiagonalMatrix(0.5,0.5,0.5).toDenseMatrix()
  let E0 : M3 K := ⟨rat 1 2, nat 0, nat 0, nat 0, rat 1 2, nat 0, nat 0, nat 0, rat 1 2⟩
  let _ := half
  let W := so3.hat
  if Scalar.lt (theta_sq * theta_sq * theta_sq * theta_sq) Scalar.eps then
    let A := rat 1 6 - theta_sq * (rat 1 120 - theta_sq * (rat 1 5040 - theta_sq * rat 1 362880))
    let B := rat 1 24 - theta_sq * (rat 1 720 - theta_sq * (rat 1 40320 - theta_sq * rat 1 3628800))
    (E0.add (M3.smul A W)).add ((M3.smul B W).mul W)
  else
    let (A, B) := Scalar.sgal3EAB theta_sq
    (E0.add (M3.smul A W)).add ((M3.smul B W).mul W)

def hatRows (t : SGal3T K) : List K :=
  let a := t.ang; let n := t.lin2; let r := t.lin
  [nat 0, -a.z, a.y, n.x, r.x,
   a.z, nat 0, -a.x, n.y, r.y,
   -a.y, a.x, nat 0, n.z, r.z,
   nat 0, nat 0, nat 0, nat 0, t.t,
   nat 0, nat 0, nat 0, nat 0, nat 0]

/-- left Jacobian (J. Kelly's block structure), in the order the C++ fills the blocks. -/
def ljac (t : SGal3T K) : List (List K) :=
  let so3 := t.asSO3
  let W := so3.hat
  let WW := W.mul W
  let V := M3.skew t.lin2
  let theta_sq := so3.v.sqNorm
  let theta := Scalar.sqrt theta_sq
  let theta_cu := theta * theta_sq
  let sin_t := Scalar.sin theta
  let cos_t := Scalar.cos theta
  let D := so3.ljac
  let E0 : M3 K := ⟨rat 1 2, nat 0, nat 0, nat 0, rat 1 2, nat 0, nat 0, nat 0, rat 1 2⟩
  -- block E (dst += A*W + B*WW : no product inside, one coefficient-wise update)
  let E :=
    if Scalar.gt (theta_sq * theta_sq) Scalar.eps then
      let A := (theta - sin_t) / theta_sq / theta
      let B := (theta_sq + nat 2 * cos_t - nat 2) / (nat 2 * theta_sq * theta_sq)
      E0.add ((M3.smul A W).add (M3.smul B WW))
    else
      E0.add ((M3.smul (rat 1 6) W).add (M3.smul (rat 1 24) WW))
  let Enu := E.mulVec t.lin2
  -- block L
  let (cA, cB) :=
    if Scalar.gt theta_cu Scalar.eps then
      ((sin_t - theta * cos_t) / theta_cu,
       (theta_sq + nat 2 * (nat 1 - theta * sin_t - cos_t)) / (nat 2 * theta_sq * theta_sq))
    else
      (rat 1 3 - rat 1 30 * theta_sq, rat 1 8)
  let mLt := M3.smul (-t.t) ((E0.add (M3.smul cA W)).add (M3.smul cB WW))
  -- block M = Q(nu, theta); N1 = Q(rho, theta)
  let M := SE3T.fillQ t.lin2 t.ang
  let N1 := SE3T.fillQ t.lin t.ang
  -- block N2
  let (cA, cB, cC, cD, cE, cF) :=
    if Scalar.gt (theta_cu * theta_cu) Scalar.eps then
      ((nat 2 - theta * sin_t - nat 2 * cos_t) / theta_cu / theta,
       (theta_cu + nat 6 * theta + nat 6 * theta * cos_t - nat 12 * sin_t) / (nat 6 * theta_cu * theta_sq),
       (nat 12 * sin_t - theta_cu - nat 3 * theta_sq * sin_t - nat 12 * theta * cos_t) / (nat 6 * theta_cu * theta_sq),
       (nat 4 + theta_sq * (nat 1 + cos_t) - nat 4 * (theta * sin_t + cos_t)) / (nat 2 * theta_cu * theta_cu),
       (theta_sq + nat 2 * (cos_t - nat 1)) / (nat 2 * theta_cu * theta),
       (theta_cu + nat 6 * (sin_t - theta)) / (nat 6 * theta_cu * theta_sq))
    else
      (rat 1 12, rat 1 40, rat 1 60, rat 1 144, rat 1 24, rat 1 120)
  let tV := M3.smul t.t V
  let tW := M3.smul t.t W
  let T1 := ((M3.smul cA W).add (M3.smul cB WW)).mul tV
  let T2 := ((M3.smul cC W).mul V).mul tW
  let T3 := ((M3.smul cD WW).mul V).mul tW
  let X := (((M3.smul (t.t / nat 6) V).add T1).add T2).add T3
  let P4 := tV.mul ((M3.smul cE W).add (M3.smul cF WW))
  -- `block -= (…)` without noalias(): the right-hand side is evaluated into a temporary first
  -- (tmp = X; tmp += P4), then subtracted
  let N := N1.sub (X.add P4)
  rows10 ⟨D, mLt, N, M3.zero, D, M, M3.zero, M3.zero, D⟩ Enu V3.zero V3.zero (nat 1)

def rjac (t : SGal3T K) : List (List K) := ljac t.neg
def rjacinv (t : SGal3T K) : List (List K) := RowsMat.inverse 10 (rjac t)
def ljacinv (t : SGal3T K) : List (List K) := RowsMat.inverse 10 (ljac t)

def smallAdj (t : SGal3T K) : List (List K) :=
  let W := M3.skew t.ang
  rows10 ⟨W, M3.smul (-t.t) M3.one, M3.skew t.lin,
          M3.zero, W, M3.skew t.lin2,
          M3.zero, M3.zero, W⟩ t.lin2 V3.zero V3.zero (nat 0)

def exp (dbg : Bool) (t : SGal3T K) : Except Err (SGal3 K) := do
  let so3 := t.asSO3
  let so3_ljac := so3.ljac
  let E := fillE so3
  let r ← so3.exp dbg
  SGal3.make dbg ((so3_ljac.mulVec t.lin).add (E.mulVec (t.lin2.smul t.t))) r.q (so3_ljac.mulVec t.lin2) t.t
def expJ (t : SGal3T K) : List (List K) := rjac t

/-- `t.coeffs() << v(0,4),v(1,4),v(2,4), v(0,3),v(1,3),v(2,3), v(2,1),v(0,2),v(1,0), v(3,4)` -/
def vee (m : List K) : SGal3T K :=
  let g (r c : Nat) : K := m.getD (5 * r + c) (nat 0)
  ⟨⟨g 0 4, g 1 4, g 2 4⟩, ⟨g 0 3, g 1 3, g 2 3⟩, ⟨g 2 1, g 0 2, g 1 0⟩, g 3 4⟩
end SGal3T

namespace SGal3
def rotation (X : SGal3 K) : M3 K := X.asSO3.rotation
def transformRows (X : SGal3 K) : List K :=
  let R := X.rotation
  [R.a00, R.a01, R.a02, X.v.x, X.p.x,
   R.a10, R.a11, R.a12, X.v.y, X.p.y,
   R.a20, R.a21, R.a22, X.v.z, X.p.z,
   nat 0, nat 0, nat 0, nat 1, X.t,
   nat 0, nat 0, nat 0, nat 0, nat 1]
def adj (X : SGal3 K) : List (List K) :=
  let R := X.rotation
  rows10 ⟨R, M3.smul (-X.t) R, (M3.skew (X.p.sub (X.v.smul X.t))).mul R,
          M3.zero, R, (M3.skew X.v).mul R,
          M3.zero, M3.zero, R⟩ X.v V3.zero V3.zero (nat 1)
def inverse (dbg : Bool) (X : SGal3 K) : Except Err (SGal3 K) := do
  let so3inv ← X.asSO3.inverse dbg
  make dbg (so3inv.act (X.p.sub (X.v.smul X.t))).neg so3inv.q (so3inv.act X.v).neg (-X.t)
def inverseJ (X : SGal3 K) : List (List K) := RowsMat.neg (adj X)
def log (X : SGal3 K) : SGal3T K :=
  let so3tan := X.asSO3.log
  let E := SGal3T.fillE so3tan
  let nu := so3tan.ljacinv.mulVec X.v
  ⟨so3tan.ljacinv.mulVec (X.p.sub (E.mulVec (nu.smul X.t))), nu, so3tan.v, X.t⟩
def logJ (X : SGal3 K) : List (List K) := (log X).rjacinv
def compose (dbg : Bool) (X Y : SGal3 K) : Except Err (SGal3 K) := do
  let r ← SO3.compose dbg X.asSO3 Y.asSO3
  make dbg (((X.rotation.mulVec Y.p).add (X.v.smul Y.t)).add X.p) r.q
    ((X.rotation.mulVec Y.v).add X.v) (X.t + Y.t)
def composeJa (dbg : Bool) (_X Y : SGal3 K) : Except Err (List (List K)) := do
  let yi ← inverse dbg Y
  pure (adj yi)
def composeJb (_X _Y : SGal3 K) : List (List K) := Rn.identRows 10
def act (X : SGal3 K) (p : V3 K) : V3 K := X.p.add (X.rotation.mulVec p)
/-- 3×10 `[R | 0 | -R*skew(p) | v]` -/
def actJm (X : SGal3 K) (p : V3 K) : List K :=
  let R := X.rotation
  let S := R.neg.mul (M3.skew p)
  let Z : M3 K := M3.zero
  R.row0 ++ Z.row0 ++ S.row0 ++ [X.v.x] ++ R.row1 ++ Z.row1 ++ S.row1 ++ [X.v.y] ++
    R.row2 ++ Z.row2 ++ S.row2 ++ [X.v.z]
def actJv (X : SGal3 K) (_p : V3 K) : M3 K := X.rotation
def normalize (X : SGal3 K) : SGal3 K := ⟨X.p, X.q.normalized, X.v, X.t⟩
end SGal3

end Manif
