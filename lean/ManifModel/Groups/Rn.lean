/-
  Rn.lean — include/manif/impl/rn/{Rn_base.h, RnTangent_base.h}: the vector group (R^n, +),
  for every n.  Coefficients and tangents are lists of length n, Jacobians lists of rows.
-/
import ManifModel.Lin
namespace Manif
open Scalar
variable {K : Type} [Scalar K]

namespace Rn
def zipAdd (a b : List K) : List K := List.zipWith (· + ·) a b
def negL (a : List K) : List K := a.map (fun x => -x)
/-- `Jacobian::Identity()` n×n, rows -/
def identRows (n : Nat) : List (List K) :=
  (List.range n).map fun i => (List.range n).map fun j => if i = j then nat 1 else nat 0
def zeroRows (n : Nat) : List (List K) :=
  (List.range n).map fun _ => (List.range n).map fun _ => nat 0
/-- `setIdentity() *= Scalar(-1)` -/
def negIdentRows (n : Nat) : List (List K) :=
  (identRows (K := K) n).map fun r => r.map fun x => x * -(nat 1)

def compose (a b : List K) : List K := zipAdd a b
def inverse (a : List K) : List K := negL a
def log (a : List K) : List K := a
def exp (t : List K) : List K := t
def act (a v : List K) : List K := zipAdd a v
/-- `transform()`: `Transformation::Identity()` of size `tsize × tsize` with
    `topRightCorner<Dim,1>() = coeffs()`.  `tsize` is the `Transformation` typedef of
    `Rn.h` (the homogeneous matrix needs `tsize = n+1`). -/
def transformRowsSized (tsize : Nat) (a : List K) : List K :=
  let n := a.length
  (List.range tsize).flatMap fun i => (List.range tsize).map fun j =>
    if j = tsize - 1 ∧ i < n then a.getD i (nat 0) else if i = j then nat 1 else nat 0
/-- size of `Rn<_,N>::Transformation` as declared in the source (`Rn.h`). -/
def transformSize (n : Nat) : Nat := n + 1
def transformRows (a : List K) : List K := transformRowsSized (transformSize a.length) a
def hatRows (t : List K) : List K :=
  let n := t.length
  (List.range (n + 1)).flatMap fun i => (List.range (n + 1)).map fun j =>
    if j = n ∧ i < n then t.getD i (nat 0) else nat 0
/-- `MANIF_CHECK(i<DoF, …, invalid_argument)`; `Ei(i, DoF) = 1` -/
def generator (n : Nat) (i : Int) : Except Err (List K) :=
  if 0 ≤ i ∧ i < n then
    .ok ((List.range (n + 1)).flatMap fun (r : Nat) => (List.range (n + 1)).map fun (c : Nat) =>
      if c = n ∧ Int.ofNat r = i then nat 1 else nat 0)
  else .error .invalid_argument
end Rn

end Manif
