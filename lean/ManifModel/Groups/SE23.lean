/-
  SE23.lean — include/manif/impl/se_2_3/{SE_2_3_base.h, SE_2_3Tangent_base.h, SE_2_3.h}
  Coefficients `[t(3), q(4), v(3)]`; tangent `[lin(3), ang(3), lin2(3)]`;
  Jacobians 9×9 as 3×3 blocks of 3×3.
-/
import ManifModel.Groups.SE3
namespace Manif
open Scalar

/-- 9×9 matrix as a 3×3 grid of 3×3 blocks, `bij` = block row i, block column j. -/
structure M9 (K : Type) where
  b00 : M3 K
  b01 : M3 K
  b02 : M3 K
  b10 : M3 K
  b11 : M3 K
  b12 : M3 K
  b20 : M3 K
  b21 : M3 K
  b22 : M3 K
  deriving Repr, Inhabited

structure SE23 (K : Type) where
  t : V3 K
  q : Quat K
  v : V3 K
  deriving Repr, Inhabited

structure SE23T (K : Type) where
  lin : V3 K
  ang : V3 K
  lin2 : V3 K
  deriving Repr, Inhabited

variable {K : Type} [Scalar K]

namespace M9
def one : M9 K := ⟨M3.one, M3.zero, M3.zero, M3.zero, M3.one, M3.zero, M3.zero, M3.zero, M3.one⟩
def neg (a : M9 K) : M9 K :=
  ⟨a.b00.neg, a.b01.neg, a.b02.neg, a.b10.neg, a.b11.neg, a.b12.neg, a.b20.neg, a.b21.neg, a.b22.neg⟩
/-- 9×9 product (block form).  Eigen evaluates 9×9·9×9 with its GEMM kernel, whose summation
    order is sequential in the inner index; the block form `(A0B0 + A1B1) + A2B2` with `sum3`
    inside each block is *not* that order — outputs that go through this product are compared
    under a rounding tolerance by the correspondence check, not bit for bit (see l1.py). -/
def mul (a b : M9 K) : M9 K :=
  let blk (x0 x1 x2 y0 y1 y2 : M3 K) : M3 K := ((x0.mul y0).add (x1.mul y1)).add (x2.mul y2)
  ⟨blk a.b00 a.b01 a.b02 b.b00 b.b10 b.b20, blk a.b00 a.b01 a.b02 b.b01 b.b11 b.b21, blk a.b00 a.b01 a.b02 b.b02 b.b12 b.b22,
   blk a.b10 a.b11 a.b12 b.b00 b.b10 b.b20, blk a.b10 a.b11 a.b12 b.b01 b.b11 b.b21, blk a.b10 a.b11 a.b12 b.b02 b.b12 b.b22,
   blk a.b20 a.b21 a.b22 b.b00 b.b10 b.b20, blk a.b20 a.b21 a.b22 b.b01 b.b11 b.b21, blk a.b20 a.b21 a.b22 b.b02 b.b12 b.b22⟩
def toList (a : M9 K) : List K :=
  a.b00.row0 ++ a.b01.row0 ++ a.b02.row0 ++ a.b00.row1 ++ a.b01.row1 ++ a.b02.row1 ++
  a.b00.row2 ++ a.b01.row2 ++ a.b02.row2 ++
  a.b10.row0 ++ a.b11.row0 ++ a.b12.row0 ++ a.b10.row1 ++ a.b11.row1 ++ a.b12.row1 ++
  a.b10.row2 ++ a.b11.row2 ++ a.b12.row2 ++
  a.b20.row0 ++ a.b21.row0 ++ a.b22.row0 ++ a.b20.row1 ++ a.b21.row1 ++ a.b22.row1 ++
  a.b20.row2 ++ a.b21.row2 ++ a.b22.row2
end M9

namespace SE23
def asSO3 (X : SE23 K) : SO3 K := ⟨X.q⟩
/-- assertion on `segment<4>(3).norm()` -/
def make (dbg : Bool) (t : V3 K) (q : Quat K) (v : V3 K) : Except Err (SE23 K) := do
  checkUnit dbg q.norm
  pure ⟨t, q, v⟩
/-- `SE_2_3(Isometry3, v)`: `SE_2_3(h.translation(), Quaternion(h.rotation()), v)`; 16 row-major entries then `v` -/
def ofIsometry (dbg : Bool) (h : List K) : Except Err (SE23 K) :=
  let g (r c : Nat) : K := h.getD (4 * r + c) (nat 0)
  make dbg ⟨g 0 3, g 1 3, g 2 3⟩
    (Quat.ofRot ⟨g 0 0, g 0 1, g 0 2, g 1 0, g 1 1, g 1 2, g 2 0, g 2 1, g 2 2⟩)
    ⟨h.getD 16 (nat 0), h.getD 17 (nat 0), h.getD 18 (nat 0)⟩
end SE23

namespace SE23T
def asSO3 (t : SE23T K) : SO3T K := ⟨t.ang⟩
def neg (t : SE23T K) : SE23T K := ⟨t.lin.neg, t.ang.neg, t.lin2.neg⟩

def hatRows (t : SE23T K) : List K :=
  let l := t.lin; let a := t.ang; let m := t.lin2
  [nat 0, -a.z, a.y, l.x, m.x,
   a.z, nat 0, -a.x, l.y, m.y,
   -a.y, a.x, nat 0, l.z, m.z,
   nat 0, nat 0, nat 0, nat 0, nat 0,
   nat 0, nat 0, nat 0, nat 0, nat 0]

/-- layout of the Jacobians: rows/cols (lin, ang, lin2).
    `Jr = [[J, Q(-lin,-ang), 0], [0, J, 0], [0, Q(-lin2,-ang), J]]` -/
def rjac (t : SE23T K) : M9 K :=
  let J := t.asSO3.rjac
  ⟨J, SE3T.fillQ t.lin.neg t.ang.neg, M3.zero,
   M3.zero, J, M3.zero,
   M3.zero, SE3T.fillQ t.lin2.neg t.ang.neg, J⟩
def ljac (t : SE23T K) : M9 K :=
  let J := t.asSO3.ljac
  ⟨J, SE3T.fillQ t.lin t.ang, M3.zero,
   M3.zero, J, M3.zero,
   M3.zero, SE3T.fillQ t.lin2 t.ang, J⟩
def rjacinv (t : SE23T K) : M9 K :=
  let J := t.asSO3.rjacinv
  let Q1 := SE3T.fillQ t.lin.neg t.ang.neg
  let Q2 := SE3T.fillQ t.lin2.neg t.ang.neg
  ⟨J, (J.neg.mul Q1).mul J, M3.zero,
   M3.zero, J, M3.zero,
   M3.zero, (J.neg.mul Q2).mul J, J⟩
def ljacinv (t : SE23T K) : M9 K :=
  let J := t.asSO3.ljacinv
  let Q1 := SE3T.fillQ t.lin t.ang
  let Q2 := SE3T.fillQ t.lin2 t.ang
  ⟨J, (J.neg.mul Q1).mul J, M3.zero,
   M3.zero, J, M3.zero,
   M3.zero, (J.neg.mul Q2).mul J, J⟩
def smallAdj (t : SE23T K) : M9 K :=
  let W := M3.skew t.ang
  ⟨W, M3.skew t.lin, M3.zero,
   M3.zero, W, M3.zero,
   M3.zero, M3.skew t.lin2, W⟩

def exp (dbg : Bool) (t : SE23T K) : Except Err (SE23 K) := do
  let so3_ljac := t.asSO3.ljac
  let r ← t.asSO3.exp dbg
  SE23.make dbg (so3_ljac.mulVec t.lin) r.q (so3_ljac.mulVec t.lin2)
def expJ (t : SE23T K) : M9 K := rjac t

/-- `t.coeffs() << v(0,3), v(1,3), v(2,3), v(2,1), v(0,2), v(1,0), v(0,4), v(1,4), v(2,4)` -/
def vee (m : List K) : SE23T K :=
  let g (r c : Nat) : K := m.getD (5 * r + c) (nat 0)
  ⟨⟨g 0 3, g 1 3, g 2 3⟩, ⟨g 2 1, g 0 2, g 1 0⟩, ⟨g 0 4, g 1 4, g 2 4⟩⟩
def toList (t : SE23T K) : List K := t.lin.toList ++ t.ang.toList ++ t.lin2.toList
end SE23T

namespace SE23
def rotation (X : SE23 K) : M3 K := X.asSO3.rotation
def transformRows (X : SE23 K) : List K :=
  let R := X.rotation
  [R.a00, R.a01, R.a02, X.t.x, X.v.x,
   R.a10, R.a11, R.a12, X.t.y, X.v.y,
   R.a20, R.a21, R.a22, X.t.z, X.v.z,
   nat 0, nat 0, nat 0, nat 1, nat 0,
   nat 0, nat 0, nat 0, nat 0, nat 1]
def adj (X : SE23 K) : M9 K :=
  let R := X.rotation
  ⟨R, (M3.skew X.t).mul R, M3.zero,
   M3.zero, R, M3.zero,
   M3.zero, (M3.skew X.v).mul R, R⟩
def inverse (dbg : Bool) (X : SE23 K) : Except Err (SE23 K) := do
  let so3inv ← X.asSO3.inverse dbg
  make dbg (so3inv.act X.t).neg so3inv.q (so3inv.act X.v).neg
def inverseJ (X : SE23 K) : M9 K := (adj X).neg
def log (X : SE23 K) : SE23T K :=
  let so3tan := X.asSO3.log
  ⟨so3tan.ljacinv.mulVec X.t, so3tan.v, so3tan.ljacinv.mulVec X.v⟩
def logJ (X : SE23 K) : M9 K := (log X).rjacinv
def compose (dbg : Bool) (X Y : SE23 K) : Except Err (SE23 K) := do
  let r ← SO3.compose dbg X.asSO3 Y.asSO3
  make dbg ((X.rotation.mulVec Y.t).add X.t) r.q ((X.rotation.mulVec Y.v).add X.v)
def composeJa (dbg : Bool) (_X Y : SE23 K) : Except Err (M9 K) := do
  let yi ← inverse dbg Y
  pure (adj yi)
def composeJb (_X _Y : SE23 K) : M9 K := M9.one
def act (X : SE23 K) (p : V3 K) : V3 K := X.t.add (X.rotation.mulVec p)
/-- 3×9 `[R | -R*skew(v) | 0]` -/
def actJm (X : SE23 K) (p : V3 K) : List K :=
  let R := X.rotation
  let S := R.neg.mul (M3.skew p)
  let Z : M3 K := M3.zero
  R.row0 ++ S.row0 ++ Z.row0 ++ R.row1 ++ S.row1 ++ Z.row1 ++ R.row2 ++ S.row2 ++ Z.row2
def actJv (X : SE23 K) (_p : V3 K) : M3 K := X.rotation
def normalize (X : SE23 K) : SE23 K := ⟨X.t, X.q.normalized, X.v⟩
def toList (X : SE23 K) : List K := X.t.toList ++ X.q.toList ++ X.v.toList
end SE23

end Manif
