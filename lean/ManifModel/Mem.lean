/-
  Mem.lean — views over external memory (Eigen::Map<G>, Eigen::Map<const G>) as the model sees
  them: a buffer is a list of scalars, a view is an (offset, length) window; a mutating member
  called through a view reads the window, computes on the owned copy, writes the window back.
-/
namespace Manif.Mem

def readView {K : Type} (b : List K) (off len : Nat) : List K := (b.drop off).take len

def writeView {K : Type} (b : List K) (off : Nat) (v : List K) : List K :=
  b.take off ++ v ++ b.drop (off + v.length)

/-- a mutating member `f` applied through a view of `len` scalars at `off` -/
def viewApply {K : Type} (f : List K → List K) (b : List K) (off len : Nat) : List K :=
  writeView b off (f (readView b off len))

/-- bundle element `i` of a flat coefficient vector: the window given by the prefix sums of the
    element sizes (BundleBase::element<i>() / Eigen::Map over coeffs().data() + offset) -/
def prefixSums : List Nat → List Nat
  | [] => []
  | s :: rest => 0 :: (prefixSums rest).map (· + s)

end Manif.Mem
