/-
  Flat.lean — the flat (coefficient-list) view of every modelled group, used by the driver and
  by the correspondence check: operations take and return `List K` in manif's coefficient order,
  Jacobians row-major.  Nothing here is arithmetic; it only routes to the typed model.
-/
import ManifModel.Base
import ManifModel.Groups.SO2
import ManifModel.Groups.SE2
import ManifModel.Groups.SO3
import ManifModel.Groups.SE3
namespace Manif
open Scalar

structure Codec (K G T J : Type) where
  rep : Nat
  dof : Nat
  gOf : List K → Option G
  gTo : G → List K
  tOf : List K → Option T
  tTo : T → List K
  jTo : J → List K

variable {K : Type} [Scalar K]

def optJ {J} (f : J → List K) : Option J → List K
  | some j => f j
  | none => []

/-- split `args` into a group element (first `rep` values) and the rest -/
def takeG {G T J} (c : Codec K G T J) (args : List K) : Option (G × List K) :=
  if args.length < c.rep then none else
  (c.gOf (args.take c.rep)).map (·, args.drop c.rep)
def takeT {G T J} (c : Codec K G T J) (args : List K) : Option (T × List K) :=
  if args.length < c.dof then none else
  (c.tOf (args.take c.dof)).map (·, args.drop c.dof)

/-- Operations every group gets from its `GroupOps` (primitives with masks + derived).
    `none` = not an operation of this table / malformed arguments. -/
def runBase {G T J} (o : GroupOps K G T J) (c : Codec K G T J)
    (dbg : Bool) (op : String) (mask : Nat) (args : List K) : Option (Except Err (List K)) :=
  let w0 := mask % 2 == 1
  let w1 := (mask / 2) % 2 == 1
  let out2G (r : Except Err (Out2 G J)) : Except Err (List K) :=
    r.map fun x => c.gTo x.val ++ optJ c.jTo x.j1 ++ optJ c.jTo x.j2
  let out2T (r : Except Err (Out2 T J)) : Except Err (List K) :=
    r.map fun x => c.tTo x.val ++ optJ c.jTo x.j1 ++ optJ c.jTo x.j2
  match op with
  | "exp" => do
      let (t, _) ← takeT c args
      pure ((o.exp dbg t).map fun g => c.gTo g ++ (if w0 then c.jTo (o.expJ t) else []))
  | "log" => do
      let (X, _) ← takeG c args
      pure (.ok (c.tTo (o.log X) ++ (if w0 then c.jTo (o.logJ X) else [])))
  | "inverse" => do
      let (X, _) ← takeG c args
      pure ((o.inverse dbg X).map fun g => c.gTo g ++ (if w0 then c.jTo (o.inverseJ X) else []))
  | "compose" => do
      let (X, r) ← takeG c args
      let (Y, _) ← takeG c r
      pure (out2G (o.composeM dbg X Y w0 w1))
  | "between" => do
      let (X, r) ← takeG c args
      let (Y, _) ← takeG c r
      pure (out2G (o.between dbg X Y w0 w1))
  | "rplus" => do
      let (X, r) ← takeG c args
      let (t, _) ← takeT c r
      pure (out2G (o.rplus dbg X t w0 w1))
  | "lplus" => do
      let (X, r) ← takeG c args
      let (t, _) ← takeT c r
      pure (out2G (o.lplus dbg X t w0 w1))
  | "rminus" => do
      let (X, r) ← takeG c args
      let (Y, _) ← takeG c r
      pure (out2T (o.rminus dbg X Y w0 w1))
  | "lminus" => do
      let (X, r) ← takeG c args
      let (Y, _) ← takeG c r
      pure (out2T (o.lminus dbg X Y w0 w1))
  | "adj" => do
      let (X, _) ← takeG c args
      pure (.ok (c.jTo (o.adj X)))
  | "rjac" => do let (t, _) ← takeT c args; pure (.ok (c.jTo (o.rjac t)))
  | "ljac" => do let (t, _) ← takeT c args; pure (.ok (c.jTo (o.ljac t)))
  | "rjacinv" => do let (t, _) ← takeT c args; pure (.ok (c.jTo (o.rjacinv t)))
  | "ljacinv" => do let (t, _) ← takeT c args; pure (.ok (c.jTo (o.ljacinv t)))
  | "smallAdj" => do let (t, _) ← takeT c args; pure (.ok (c.jTo (o.smallAdj t)))
  | _ => none

/-! ### per-group tables -/

def so2Ops : GroupOps K (SO2 K) (SO2T K) K where
  exp := SO2T.exp
  expJ := SO2T.expJ
  log := SO2.log
  logJ := SO2.logJ
  compose := SO2.compose
  composeJa := fun _ X Y => .ok (SO2.composeJa X Y)
  composeJb := SO2.composeJb
  inverse := SO2.inverse
  inverseJ := SO2.inverseJ
  adj := SO2.adj
  rjac := SO2T.rjac
  ljac := SO2T.ljac
  rjacinv := SO2T.rjacinv
  ljacinv := SO2T.ljacinv
  smallAdj := SO2T.smallAdj
  tneg := SO2T.neg
  jmul := fun a b => a * b
  jneg := fun a => -a
  jone := nat 1

def so2Codec : Codec K (SO2 K) (SO2T K) K where
  rep := 2
  dof := 1
  gOf := fun l => match l with | [a, b] => some ⟨a, b⟩ | _ => none
  gTo := SO2.toList
  tOf := fun l => match l with | [a] => some ⟨a⟩ | _ => none
  tTo := SO2T.toList
  jTo := fun j => [j]

def se2Ops : GroupOps K (SE2 K) (SE2T K) (M3 K) where
  exp := SE2T.exp
  expJ := SE2T.expJ
  log := SE2.log
  logJ := SE2.logJ
  compose := SE2.compose
  composeJa := SE2.composeJa
  composeJb := SE2.composeJb
  inverse := SE2.inverse
  inverseJ := SE2.inverseJ
  adj := SE2.adj
  rjac := SE2T.rjac
  ljac := SE2T.ljac
  rjacinv := SE2T.rjacinv
  ljacinv := SE2T.ljacinv
  smallAdj := SE2T.smallAdj
  tneg := SE2T.neg
  jmul := M3.mul
  jneg := M3.neg
  jone := M3.one

def se2Codec : Codec K (SE2 K) (SE2T K) (M3 K) where
  rep := 4
  dof := 3
  gOf := fun l => match l with | [a, b, c, d] => some ⟨a, b, c, d⟩ | _ => none
  gTo := SE2.toList
  tOf := fun l => match l with | [a, b, c] => some ⟨a, b, c⟩ | _ => none
  tTo := SE2T.toList
  jTo := M3.toList

def so3Ops : GroupOps K (SO3 K) (SO3T K) (M3 K) where
  exp := SO3T.exp
  expJ := SO3T.expJ
  log := SO3.log
  logJ := SO3.logJ
  compose := SO3.compose
  composeJa := fun _ X Y => .ok (SO3.composeJa X Y)
  composeJb := SO3.composeJb
  inverse := SO3.inverse
  inverseJ := SO3.inverseJ
  adj := SO3.adj
  rjac := SO3T.rjac
  ljac := SO3T.ljac
  rjacinv := SO3T.rjacinv
  ljacinv := SO3T.ljacinv
  smallAdj := SO3T.smallAdj
  tneg := SO3T.neg
  jmul := M3.mul
  jneg := M3.neg
  jone := M3.one

def so3Codec : Codec K (SO3 K) (SO3T K) (M3 K) where
  rep := 4
  dof := 3
  gOf := fun l => match l with | [a, b, c, d] => some ⟨⟨a, b, c, d⟩⟩ | _ => none
  gTo := SO3.toList
  tOf := fun l => match l with | [a, b, c] => some ⟨⟨a, b, c⟩⟩ | _ => none
  tTo := SO3T.toList
  jTo := M3.toList

def se3Ops : GroupOps K (SE3 K) (SE3T K) (M6 K) where
  exp := SE3T.exp
  expJ := SE3T.expJ
  log := SE3.log
  logJ := SE3.logJ
  compose := SE3.compose
  composeJa := SE3.composeJa
  composeJb := SE3.composeJb
  inverse := SE3.inverse
  inverseJ := SE3.inverseJ
  adj := SE3.adj
  rjac := SE3T.rjac
  ljac := SE3T.ljac
  rjacinv := SE3T.rjacinv
  ljacinv := SE3T.ljacinv
  smallAdj := SE3T.smallAdj
  tneg := SE3T.neg
  jmul := M6.mul
  jneg := M6.neg
  jone := M6.one

def se3Codec : Codec K (SE3 K) (SE3T K) (M6 K) where
  rep := 7
  dof := 6
  gOf := fun l => match l with
    | [a, b, c, x, y, z, w] => some ⟨⟨a, b, c⟩, ⟨x, y, z, w⟩⟩ | _ => none
  gTo := SE3.toList
  tOf := fun l => match l with
    | [a, b, c, d, e, f] => some ⟨⟨a, b, c⟩, ⟨d, e, f⟩⟩ | _ => none
  tTo := SE3T.toList
  jTo := M6.toList

/-- group-specific operations (act, hat, transform, generators, …). -/
def runSO2 (dbg : Bool) (op : String) (mask : Nat) (args : List K) (ints : List Int) :
    Option (Except Err (List K)) :=
  let w0 := mask % 2 == 1
  let w1 := (mask / 2) % 2 == 1
  match op, args, ints with
  | "act", [a, b, x, y], _ =>
      let X : SO2 K := ⟨a, b⟩; let v : V2 K := ⟨x, y⟩
      some (.ok ((X.act v).toList ++ (if w0 then (X.actJm v).toList else []) ++
        (if w1 then (X.actJv v).toList else [])))
  | "hat", [a], _ => some (.ok (SO2T.hat ⟨a⟩).toList)
  | "transform", [a, b], _ => some (.ok (SO2.transform ⟨a, b⟩).toList)
  | "rotation", [a, b], _ => some (.ok (SO2.rotation ⟨a, b⟩).toList)
  | "generator", [], [i] => some ((SO2T.generator (K := K) i).map M2.toList)
  | "normalize", [a, b], _ => some (.ok (SO2.normalize ⟨a, b⟩).toList)
  | "make", [a, b], _ => some ((SO2.make dbg a b).map SO2.toList)
  | "ofAngle", [a], _ => some ((SO2.ofAngle dbg a).map SO2.toList)
  | "angle", [a, b], _ => some (.ok [SO2.angle ⟨a, b⟩])
  | _, _, _ => runBase so2Ops so2Codec dbg op mask args

def runSE2 (dbg : Bool) (op : String) (mask : Nat) (args : List K) (ints : List Int) :
    Option (Except Err (List K)) :=
  let w0 := mask % 2 == 1
  let w1 := (mask / 2) % 2 == 1
  match op, args, ints with
  | "act", [a, b, c, d, x, y], _ =>
      let X : SE2 K := ⟨a, b, c, d⟩; let v : V2 K := ⟨x, y⟩
      some (.ok ((X.act v).toList ++ (if w0 then X.actJm v else []) ++
        (if w1 then (X.actJv v).toList else [])))
  | "hat", [a, b, c], _ => some (.ok (SE2T.hat ⟨a, b, c⟩).toList)
  | "transform", [a, b, c, d], _ => some (.ok (SE2.transform ⟨a, b, c, d⟩).toList)
  | "rotation", [a, b, c, d], _ => some (.ok (SE2.rotation ⟨a, b, c, d⟩).toList)
  | "generator", [], [i] => some ((SE2T.generator (K := K) i).map M3.toList)
  | "innerWeights", [], _ => some (.ok (SE2T.innerWeights (K := K)).toList)
  | "normalize", [a, b, c, d], _ => some (.ok (SE2.normalize ⟨a, b, c, d⟩).toList)
  | "make", [a, b, c, d], _ => some ((SE2.make dbg a b c d).map SE2.toList)
  | "ofXYAngle", [a, b, c], _ => some ((SE2.ofXYAngle dbg a b c).map SE2.toList)
  | "angle", [a, b, c, d], _ => some (.ok [SE2.angle ⟨a, b, c, d⟩])
  | _, _, _ => runBase se2Ops se2Codec dbg op mask args

def runSO3 (dbg : Bool) (op : String) (mask : Nat) (args : List K) (ints : List Int) :
    Option (Except Err (List K)) :=
  let w0 := mask % 2 == 1
  let w1 := (mask / 2) % 2 == 1
  match op, args, ints with
  | "act", [a, b, c, d, x, y, z], _ =>
      let X : SO3 K := ⟨⟨a, b, c, d⟩⟩; let v : V3 K := ⟨x, y, z⟩
      some (.ok ((X.act v).toList ++ (if w0 then (X.actJm v).toList else []) ++
        (if w1 then (X.actJv v).toList else [])))
  | "hat", [a, b, c], _ => some (.ok (SO3T.hat ⟨⟨a, b, c⟩⟩).toList)
  | "transform", [a, b, c, d], _ => some (.ok (SO3.transformRows ⟨⟨a, b, c, d⟩⟩))
  | "rotation", [a, b, c, d], _ => some (.ok (SO3.rotation ⟨⟨a, b, c, d⟩⟩).toList)
  | "generator", [], [i] => some ((SO3T.generator (K := K) i).map M3.toList)
  | "normalize", [a, b, c, d], _ => some (.ok (SO3.normalize ⟨⟨a, b, c, d⟩⟩).toList)
  | "make", [a, b, c, d], _ => some ((SO3.make dbg ⟨a, b, c, d⟩).map SO3.toList)
  | _, _, _ => runBase so3Ops so3Codec dbg op mask args

def runSE3 (dbg : Bool) (op : String) (mask : Nat) (args : List K) (ints : List Int) :
    Option (Except Err (List K)) :=
  let w0 := mask % 2 == 1
  let w1 := (mask / 2) % 2 == 1
  match op, args, ints with
  | "act", [a, b, c, qx, qy, qz, qw, x, y, z], _ =>
      let X : SE3 K := ⟨⟨a, b, c⟩, ⟨qx, qy, qz, qw⟩⟩; let v : V3 K := ⟨x, y, z⟩
      some (.ok ((X.act v).toList ++ (if w0 then X.actJm v else []) ++
        (if w1 then (X.actJv v).toList else [])))
  | "hat", [a, b, c, d, e, f], _ => some (.ok (SE3T.hatRows ⟨⟨a, b, c⟩, ⟨d, e, f⟩⟩))
  | "transform", [a, b, c, qx, qy, qz, qw], _ =>
      some (.ok (SE3.transformRows ⟨⟨a, b, c⟩, ⟨qx, qy, qz, qw⟩⟩))
  | "rotation", [a, b, c, qx, qy, qz, qw], _ =>
      some (.ok (SE3.rotation ⟨⟨a, b, c⟩, ⟨qx, qy, qz, qw⟩⟩).toList)
  | "generator", [], [i] => some (SE3T.generator (K := K) i)
  | "normalize", [a, b, c, qx, qy, qz, qw], _ =>
      some (.ok (SE3.normalize ⟨⟨a, b, c⟩, ⟨qx, qy, qz, qw⟩⟩).toList)
  | "make", [a, b, c, qx, qy, qz, qw], _ =>
      some ((SE3.make dbg ⟨a, b, c⟩ ⟨qx, qy, qz, qw⟩).map SE3.toList)
  | "fillQ", [a, b, c, d, e, f], _ => some (.ok (SE3T.fillQ ⟨a, b, c⟩ ⟨d, e, f⟩).toList)
  | _, _, _ => runBase se3Ops se3Codec dbg op mask args

/-- dispatch on the group name. -/
def runGroup (grp : String) (dbg : Bool) (op : String) (mask : Nat) (args : List K)
    (ints : List Int) : Option (Except Err (List K)) :=
  match grp with
  | "SO2" => runSO2 dbg op mask args ints
  | "SE2" => runSE2 dbg op mask args ints
  | "SO3" => runSO3 dbg op mask args ints
  | "SE3" => runSE3 dbg op mask args ints
  | _ => none

end Manif
