/-
  Flat.lean — the flat (coefficient-list) view of every modelled group, used by the driver and
  by the correspondence check: operations take and return `List K` in manif's coefficient order,
  Jacobians row-major.  Nothing here is arithmetic; it only routes to the typed model.
-/
import ManifModel.Base
import ManifModel.Api
import ManifModel.Groups.SO2
import ManifModel.Groups.SE2
import ManifModel.Groups.SO3
import ManifModel.Groups.SE3
import ManifModel.Groups.SE23
import ManifModel.Groups.SGal3
import ManifModel.Groups.Rn
import ManifModel.Algorithms.Interp
import ManifModel.Algorithms.DeCasteljau
import ManifModel.Algorithms.Average
import ManifModel.Generated.Generators
namespace Manif
open Scalar

structure Codec (K G T J : Type) where
  rep : Nat
  dof : Nat
  gOf : List K → Option G
  gTo : G → List K
  tOf : List K → Option T
  tTo : T → List K
  jTo : J → List K
  /-- the group's generator matrices, row-major, as integer tables (see Generated/Generators) -/
  genTable : List (List Int) := []

variable {K : Type} [Scalar K]

/-- Eigen's completely unrolled, non-vectorised reduction: split the range in halves. -/
def treeSum : (fuel : Nat) → List K → K
  | 0, _ => nat 0
  | fuel + 1, l =>
    match l with
    | [] => nat 0
    | [a] => a
    | _ =>
      let h := l.length / 2
      treeSum fuel (l.take h) + treeSum fuel (l.drop h)

def dotTree (a b : List K) : K := treeSum (a.length + 1) (List.zipWith (· * ·) a b)

/-- row-major `n×n` list times vector (fixed-size coefficient-based product) -/
def matVecFlat (n : Nat) (m : List K) (v : List K) : List K :=
  (List.range n).map fun i => dotTree ((m.drop (n * i)).take n) v

/-- row vector times row-major `n×n` list -/
def vecMatFlat (n : Nat) (v : List K) (m : List K) : List K :=
  (List.range n).map fun j => dotTree v ((List.range n).map fun k => m.getD (n * k + j) (nat 0))

def ofInt (v : Int) : K := if v < 0 then -(nat v.natAbs) else nat v.natAbs

/-- `InnerWeightsEvaluator::run`: `W(r,c) = trace(Generator(r) * Generator(c)^T)`; the entries
    are small integers, so the summation order is immaterial. -/
def innerWeightsOfTable (tbl : List (List Int)) : List K :=
  tbl.flatMap fun gr => tbl.map fun gc =>
    ofInt ((List.zipWith (· * ·) gr gc).foldl (· + ·) 0)

/-- `cwiseAbs2().sum()` of a flat vector -/
def sqNormFlat (a : List K) : K := treeSum (a.length + 1) (a.map fun x => x * x)

/-- `TangentBase::isApprox(t, eps)`: absolute test (`isZero`) when either norm is below `eps`,
    Eigen's relative `isApprox` otherwise. -/
def tanIsApprox (a b : List K) (eps : K) : Bool :=
  if Scalar.lt (Scalar.min (Scalar.sqrt (sqNormFlat a)) (Scalar.sqrt (sqNormFlat b))) eps then
    (List.zipWith (· - ·) a b).all fun x => Scalar.le (Scalar.abs x) (Scalar.abs (nat 1) * eps)
  else
    Scalar.le (sqNormFlat (List.zipWith (· - ·) a b))
      (eps * eps * Scalar.min (sqNormFlat a) (sqNormFlat b))

def boolK (b : Bool) : K := if b then nat 1 else nat 0

def optJ {J} (f : J → List K) : Option J → List K
  | some j => f j
  | none => []

/-- split `args` into a group element (first `rep` values) and the rest -/
def takeG {G T J} (c : Codec K G T J) (args : List K) : Option (G × List K) :=
  if args.length < c.rep then none else
  (c.gOf (args.take c.rep)).map (·, args.drop c.rep)
def takeT {G T J} (c : Codec K G T J) (args : List K) : Option (T × List K) :=
  if args.length < c.dof then none else
  (c.tOf (args.take c.dof)).map (·, args.drop c.dof)

/-- Operations every group gets from its `GroupOps` (primitives with masks + derived).
    `none` = not an operation of this table / malformed arguments. -/
def runBase {G T J} (o : GroupOps K G T J) (c : Codec K G T J)
    (dbg : Bool) (op : String) (mask : Nat) (args : List K) (ints : List Int := []) :
    Option (Except Err (List K)) :=
  let w0 := mask % 2 == 1
  let w1 := (mask / 2) % 2 == 1
  let out2G (r : Except Err (Out2 G J)) : Except Err (List K) :=
    r.map fun x => c.gTo x.val ++ optJ c.jTo x.j1 ++ optJ c.jTo x.j2
  let out2T (r : Except Err (Out2 T J)) : Except Err (List K) :=
    r.map fun x => c.tTo x.val ++ optJ c.jTo x.j1 ++ optJ c.jTo x.j2
  match op with
  | "exp" => do
      let (t, _) ← takeT c args
      pure ((o.exp dbg t).map fun g => c.gTo g ++ (if w0 then c.jTo (o.expJ t) else []))
  | "log" => do
      let (X, _) ← takeG c args
      pure (.ok (c.tTo (o.log X) ++ (if w0 then c.jTo (o.logJ X) else [])))
  | "inverse" => do
      let (X, _) ← takeG c args
      pure ((o.inverse dbg X).map fun g => c.gTo g ++ (if w0 then c.jTo (o.inverseJ X) else []))
  | "compose" => do
      let (X, r) ← takeG c args
      let (Y, _) ← takeG c r
      pure (out2G (o.composeM dbg X Y w0 w1))
  | "between" => do
      let (X, r) ← takeG c args
      let (Y, _) ← takeG c r
      pure (out2G (o.between dbg X Y w0 w1))
  | "rplus" => do
      let (X, r) ← takeG c args
      let (t, _) ← takeT c r
      pure (out2G (o.rplus dbg X t w0 w1))
  | "lplus" => do
      let (X, r) ← takeG c args
      let (t, _) ← takeT c r
      pure (out2G (o.lplus dbg X t w0 w1))
  | "rminus" => do
      let (X, r) ← takeG c args
      let (Y, _) ← takeG c r
      pure (out2T (o.rminus dbg X Y w0 w1))
  | "lminus" => do
      let (X, r) ← takeG c args
      let (Y, _) ← takeG c r
      pure (out2T (o.lminus dbg X Y w0 w1))
  | "adj" => do
      let (X, _) ← takeG c args
      pure (.ok (c.jTo (o.adj X)))
  | "rjac" => do let (t, _) ← takeT c args; pure (.ok (c.jTo (o.rjac t)))
  | "ljac" => do let (t, _) ← takeT c args; pure (.ok (c.jTo (o.ljac t)))
  | "rjacinv" => do let (t, _) ← takeT c args; pure (.ok (c.jTo (o.rjacinv t)))
  | "ljacinv" => do let (t, _) ← takeT c args; pure (.ok (c.jTo (o.ljacinv t)))
  | "smallAdj" => do let (t, _) ← takeT c args; pure (.ok (c.jTo (o.smallAdj t)))
  | "bracket" => do
      -- `BracketEvaluatorImpl::run`: `a.smallAdj() * b`
      let (a, r) ← takeT c args
      let (b, _) ← takeT c r
      pure (.ok (matVecFlat c.dof (c.jTo (o.smallAdj a)) (c.tTo b)))
  | "innerWeights" => if args.isEmpty then some (.ok (innerWeightsOfTable c.genTable)) else none
  | "inner" => do
      -- `(coeffs().transpose() * InnerWeights() * t.coeffs())(0)`
      let (a, r) ← takeT c args
      let (b, _) ← takeT c r
      let W : List K := innerWeightsOfTable c.genTable
      pure (.ok [dotTree (vecMatFlat c.dof (c.tTo a) W) (c.tTo b)])
  | "sqwnorm" => do
      let (a, _) ← takeT c args
      let W : List K := innerWeightsOfTable c.genTable
      pure (.ok [dotTree (vecMatFlat c.dof (c.tTo a) W) (c.tTo a)])
  | "wnorm" => do
      let (a, _) ← takeT c args
      let W : List K := innerWeightsOfTable c.genTable
      pure (.ok [Scalar.sqrt (dotTree (vecMatFlat c.dof (c.tTo a) W) (c.tTo a))])
  | "t_isApprox" => do
      let (a, r) ← takeT c args
      let (b, r) ← takeT c r
      match r with
      | [eps] => pure (.ok [boolK (tanIsApprox (c.tTo a) (c.tTo b) eps)])
      | [] => pure (.ok [boolK (tanIsApprox (c.tTo a) (c.tTo b) Scalar.eps)])      -- `operator==`
      | _ => none
  | "isApprox" => do
      -- `rminus(m).isApprox(Tangent::Zero(), eps)`
      let (X, r) ← takeG c args
      let (Y, r) ← takeG c r
      let eps ← match r with
        | [e] => some e
        | [] => some Scalar.eps          -- `operator==`
        | _ => none
      pure ((o.rminus dbg X Y false false).map fun d =>
        [boolK (tanIsApprox (c.tTo d.val) (c.tTo o.tzero) eps)])
  | "interp_slerp" => do
      let (A, r) ← takeG c args
      let (B, r) ← takeG c r
      match r with
      | [t] => pure ((o.interpSlerp dbg A B t).map c.gTo)
      | _ => none
  | "interp_cubic" => do
      let (A, r) ← takeG c args
      let (B, r) ← takeG c r
      match r with
      | t :: r =>
        let (ta, r) ← takeT c r
        let (tb, _) ← takeT c r
        pure ((o.interpCubic dbg A B t ta tb).map c.gTo)
      | _ => none
  | "interp_smooth" => do
      let (A, r) ← takeG c args
      let (B, r) ← takeG c r
      match r, ints with
      | t :: r, [m] =>
        let (ta, r) ← takeT c r
        let (tb, _) ← takeT c r
        -- `const unsigned int m`: a negative int wraps to a huge degree -> logic_error from phi
        pure ((o.interpSmooth dbg A B t (if m < 0 then 1000000 else m.toNat) ta tb).map c.gTo)
      | _, _ => none
  | "avg_bi" | "avg_w" | "avg_fl" | "avg_fr" =>
      match args, ints with
      | eps :: pts, [maxIt] =>
        if c.rep == 0 || pts.length % c.rep != 0 then none else
        let n := pts.length / c.rep
        let gs := (List.range n).filterMap fun i => c.gOf ((pts.drop (i * c.rep)).take c.rep)
        if gs.length != n then none else
        let mi := maxIt.toNat
        let r := match op with
          | "avg_bi" => o.averageBiinvariant dbg gs eps mi
          | "avg_w" => o.averageWeighted dbg gs mi
          | "avg_fl" => o.averageFrechetLeft dbg gs eps mi
          | _ => o.averageFrechetRight dbg gs eps mi
        some (r.map c.gTo)
      | _, _ => none
  | "decasteljau" =>
      match ints with
      | [d, k, cl] =>
        if c.rep == 0 || args.length % c.rep != 0 then none else
        let n := args.length / c.rep
        let gs := (List.range n).filterMap fun i => c.gOf ((args.drop (i * c.rep)).take c.rep)
        if gs.length != n then none else
        some ((decasteljau o dbg gs d.toNat k.toNat (cl != 0)).map fun l => l.flatMap c.gTo)
      | _ => none
  | _ => none

/-- `GeneratorEvaluator::run(i)` for the groups whose generators are switch tables; the tables
    are regenerated from /repo (Generated/Generators.lean).  A negative `int` index becomes a
    huge `unsigned` and falls in the `default:` case. -/
def genFromTable (tbl : List (List Int)) (err : Err) (i : Int) : Except Err (List K) :=
  if i < 0 then .error err else
  match tbl[i.toNat]? with
  | some row => .ok (row.map ofInt)
  | none => .error err

/-! ### per-group tables -/

def so2Ops : GroupOps K (SO2 K) (SO2T K) K where
  exp := SO2T.exp
  expJ := SO2T.expJ
  log := SO2.log
  logJ := SO2.logJ
  compose := SO2.compose
  composeJa := fun _ X Y => .ok (SO2.composeJa X Y)
  composeJb := SO2.composeJb
  inverse := SO2.inverse
  inverseJ := SO2.inverseJ
  adj := SO2.adj
  rjac := SO2T.rjac
  ljac := SO2T.ljac
  rjacinv := SO2T.rjacinv
  ljacinv := SO2T.ljacinv
  smallAdj := SO2T.smallAdj
  tneg := SO2T.neg
  jmul := fun a b => a * b
  jneg := fun a => -a
  jone := nat 1
  tzero := ⟨nat 0⟩
  tadd := fun a b => ⟨a.ang + b.ang⟩
  tsub := fun a b => ⟨a.ang - b.ang⟩
  tscale := fun a k => ⟨a.ang * k⟩
  tsqnorm := fun a => a.ang * a.ang
  tdot := fun a b => a.ang * b.ang
  jmulT := fun j t => ⟨j * t.ang⟩
  jtr := fun j => j

def so2Codec : Codec K (SO2 K) (SO2T K) K where
  rep := 2
  dof := 1
  gOf := fun l => match l with | [a, b] => some ⟨a, b⟩ | _ => none
  gTo := SO2.toList
  tOf := fun l => match l with | [a] => some ⟨a⟩ | _ => none
  tTo := SO2T.toList
  jTo := fun j => [j]
  genTable := [[0, -1, 1, 0]]      -- `skew(Scalar(1))`

def se2Ops : GroupOps K (SE2 K) (SE2T K) (M3 K) where
  exp := SE2T.exp
  expJ := SE2T.expJ
  log := SE2.log
  logJ := SE2.logJ
  compose := SE2.compose
  composeJa := SE2.composeJa
  composeJb := SE2.composeJb
  inverse := SE2.inverse
  inverseJ := SE2.inverseJ
  adj := SE2.adj
  rjac := SE2T.rjac
  ljac := SE2T.ljac
  rjacinv := SE2T.rjacinv
  ljacinv := SE2T.ljacinv
  smallAdj := SE2T.smallAdj
  tneg := SE2T.neg
  jmul := M3.mul
  jneg := M3.neg
  jone := M3.one
  tzero := ⟨nat 0, nat 0, nat 0⟩
  tadd := fun a b => ⟨a.x + b.x, a.y + b.y, a.ang + b.ang⟩
  tsub := fun a b => ⟨a.x - b.x, a.y - b.y, a.ang - b.ang⟩
  tscale := fun a k => ⟨a.x * k, a.y * k, a.ang * k⟩
  tsqnorm := fun a => sum3 (a.x * a.x) (a.y * a.y) (a.ang * a.ang)
  tdot := fun a b => sum3 (a.x * b.x) (a.y * b.y) (a.ang * b.ang)
  jmulT := fun j t => let v := j.mulVec ⟨t.x, t.y, t.ang⟩; ⟨v.x, v.y, v.z⟩
  jtr := M3.transpose

def se2Codec : Codec K (SE2 K) (SE2T K) (M3 K) where
  rep := 4
  dof := 3
  gOf := fun l => match l with | [a, b, c, d] => some ⟨a, b, c, d⟩ | _ => none
  gTo := SE2.toList
  tOf := fun l => match l with | [a, b, c] => some ⟨a, b, c⟩ | _ => none
  tTo := SE2T.toList
  jTo := M3.toList
  genTable := Generated.SE2GenTable

def so3Ops : GroupOps K (SO3 K) (SO3T K) (M3 K) where
  exp := SO3T.exp
  expJ := SO3T.expJ
  log := SO3.log
  logJ := SO3.logJ
  compose := SO3.compose
  composeJa := fun _ X Y => .ok (SO3.composeJa X Y)
  composeJb := SO3.composeJb
  inverse := SO3.inverse
  inverseJ := SO3.inverseJ
  adj := SO3.adj
  rjac := SO3T.rjac
  ljac := SO3T.ljac
  rjacinv := SO3T.rjacinv
  ljacinv := SO3T.ljacinv
  smallAdj := SO3T.smallAdj
  tneg := SO3T.neg
  jmul := M3.mul
  jneg := M3.neg
  jone := M3.one
  tzero := ⟨V3.zero⟩
  tadd := fun a b => ⟨a.v.add b.v⟩
  tsub := fun a b => ⟨a.v.sub b.v⟩
  tscale := fun a k => ⟨a.v.muls k⟩
  tsqnorm := fun a => a.v.sqNorm
  tdot := fun a b => a.v.dot b.v
  jmulT := fun j t => ⟨j.mulVec t.v⟩
  jtr := M3.transpose

def so3Codec : Codec K (SO3 K) (SO3T K) (M3 K) where
  rep := 4
  dof := 3
  gOf := fun l => match l with | [a, b, c, d] => some ⟨⟨a, b, c, d⟩⟩ | _ => none
  gTo := SO3.toList
  tOf := fun l => match l with | [a, b, c] => some ⟨⟨a, b, c⟩⟩ | _ => none
  tTo := SO3T.toList
  jTo := M3.toList
  genTable := Generated.SO3GenTable

def se3Ops : GroupOps K (SE3 K) (SE3T K) (M6 K) where
  exp := SE3T.exp
  expJ := SE3T.expJ
  log := SE3.log
  logJ := SE3.logJ
  compose := SE3.compose
  composeJa := SE3.composeJa
  composeJb := SE3.composeJb
  inverse := SE3.inverse
  inverseJ := SE3.inverseJ
  adj := SE3.adj
  rjac := SE3T.rjac
  ljac := SE3T.ljac
  rjacinv := SE3T.rjacinv
  ljacinv := SE3T.ljacinv
  smallAdj := SE3T.smallAdj
  tneg := SE3T.neg
  jmul := M6.mul
  jneg := M6.neg
  jone := M6.one
  tzero := ⟨V3.zero, V3.zero⟩
  tadd := fun a b => ⟨a.lin.add b.lin, a.ang.add b.ang⟩
  tsub := fun a b => ⟨a.lin.sub b.lin, a.ang.sub b.ang⟩
  tscale := fun a k => ⟨a.lin.muls k, a.ang.muls k⟩
  tsqnorm := fun a => a.lin.sqNorm + a.ang.sqNorm
  tdot := fun a b => a.lin.dot b.lin + a.ang.dot b.ang
  jmulT := fun j t => ⟨(j.tl.mulVec t.lin).add (j.tr.mulVec t.ang), (j.bl.mulVec t.lin).add (j.br.mulVec t.ang)⟩
  jtr := fun j => ⟨j.tl.transpose, j.bl.transpose, j.tr.transpose, j.br.transpose⟩

def se3Codec : Codec K (SE3 K) (SE3T K) (M6 K) where
  rep := 7
  dof := 6
  gOf := fun l => match l with
    | [a, b, c, x, y, z, w] => some ⟨⟨a, b, c⟩, ⟨x, y, z, w⟩⟩ | _ => none
  gTo := SE3.toList
  tOf := fun l => match l with
    | [a, b, c, d, e, f] => some ⟨⟨a, b, c⟩, ⟨d, e, f⟩⟩ | _ => none
  tTo := SE3T.toList
  jTo := M6.toList
  genTable := Generated.SE3GenTable

/-- group-specific operations (act, hat, transform, generators, …). -/
def runSO2 (dbg : Bool) (op : String) (mask : Nat) (args : List K) (ints : List Int) :
    Option (Except Err (List K)) :=
  let w0 := mask % 2 == 1
  let w1 := (mask / 2) % 2 == 1
  match op, args, ints with
  | "act", [a, b, x, y], _ =>
      let X : SO2 K := ⟨a, b⟩; let v : V2 K := ⟨x, y⟩
      some (.ok ((X.act v).toList ++ (if w0 then (X.actJm v).toList else []) ++
        (if w1 then (X.actJv v).toList else [])))
  | "hat", [a], _ => some (.ok (SO2T.hat ⟨a⟩).toList)
  | "vee", [a, b, c, d], _ => some (.ok (SO2T.vee ⟨a, b, c, d⟩).toList)
  | "transform", [a, b], _ => some (.ok (SO2.transform ⟨a, b⟩).toList)
  | "rotation", [a, b], _ => some (.ok (SO2.rotation ⟨a, b⟩).toList)
  | "generator", [], [i] => some ((SO2T.generator (K := K) i).map M2.toList)
  | "normalize", [a, b], _ => some (.ok (SO2.normalize ⟨a, b⟩).toList)
  | "make", [a, b], _ => some ((SO2.make dbg a b).map SO2.toList)
  | "ofAngle", [a], _ => some ((SO2.ofAngle dbg a).map SO2.toList)
  | "ctor_angle", [a], _ => some ((SO2.ofAngle dbg a).map SO2.toList)
  | "accessors", [a, b], _ => some (.ok [a, b, SO2.angle ⟨a, b⟩])
  | "angle", [a, b], _ => some (.ok [SO2.angle ⟨a, b⟩])
  | _, _, _ => runBase so2Ops so2Codec dbg op mask args ints

def runSE2 (dbg : Bool) (op : String) (mask : Nat) (args : List K) (ints : List Int) :
    Option (Except Err (List K)) :=
  let w0 := mask % 2 == 1
  let w1 := (mask / 2) % 2 == 1
  match op, args, ints with
  | "act", [a, b, c, d, x, y], _ =>
      let X : SE2 K := ⟨a, b, c, d⟩; let v : V2 K := ⟨x, y⟩
      some (.ok ((X.act v).toList ++ (if w0 then X.actJm v else []) ++
        (if w1 then (X.actJv v).toList else [])))
  | "hat", [a, b, c], _ => some (.ok (SE2T.hat ⟨a, b, c⟩).toList)
  | "vee", [a, b, c, d, e, f, g, h, i], _ => some (.ok (SE2T.vee ⟨a, b, c, d, e, f, g, h, i⟩).toList)
  | "transform", [a, b, c, d], _ => some (.ok (SE2.transform ⟨a, b, c, d⟩).toList)
  | "rotation", [a, b, c, d], _ => some (.ok (SE2.rotation ⟨a, b, c, d⟩).toList)
  | "generator", [], [i] => some (genFromTable Generated.SE2GenTable Generated.SE2GenErr i)
  | "innerWeights", [], _ => some (.ok (SE2T.innerWeights (K := K)).toList)
  | "normalize", [a, b, c, d], _ => some (.ok (SE2.normalize ⟨a, b, c, d⟩).toList)
  | "make", [a, b, c, d], _ => some ((SE2.make dbg a b c d).map SE2.toList)
  | "ofXYAngle", [a, b, c], _ => some ((SE2.ofXYAngle dbg a b c).map SE2.toList)
  | "ctor_xyt", [a, b, c], _ => some ((SE2.ofXYAngle dbg a b c).map SE2.toList)
  | "ctor_iso", _, _ => if args.length == 9 then some ((SE2.ofIsometry dbg args).map SE2.toList) else none
  | "accessors", [a, b, c, d], _ =>
      let X : SE2 K := ⟨a, b, c, d⟩
      some (.ok ([a, b, c, d, X.angle, a, b] ++ X.transform.toList))
  | "angle", [a, b, c, d], _ => some (.ok [SE2.angle ⟨a, b, c, d⟩])
  | _, _, _ => runBase se2Ops se2Codec dbg op mask args ints

def runSO3 (dbg : Bool) (op : String) (mask : Nat) (args : List K) (ints : List Int) :
    Option (Except Err (List K)) :=
  let w0 := mask % 2 == 1
  let w1 := (mask / 2) % 2 == 1
  match op, args, ints with
  | "act", [a, b, c, d, x, y, z], _ =>
      let X : SO3 K := ⟨⟨a, b, c, d⟩⟩; let v : V3 K := ⟨x, y, z⟩
      some (.ok ((X.act v).toList ++ (if w0 then (X.actJm v).toList else []) ++
        (if w1 then (X.actJv v).toList else [])))
  | "hat", [a, b, c], _ => some (.ok (SO3T.hat ⟨⟨a, b, c⟩⟩).toList)
  | "vee", [a, b, c, d, e, f, g, h, i], _ => some (.ok (SO3T.vee ⟨a, b, c, d, e, f, g, h, i⟩).toList)
  | "transform", [a, b, c, d], _ => some (.ok (SO3.transformRows ⟨⟨a, b, c, d⟩⟩))
  | "rotation", [a, b, c, d], _ => some (.ok (SO3.rotation ⟨⟨a, b, c, d⟩⟩).toList)
  | "generator", [], [i] => some (genFromTable Generated.SO3GenTable Generated.SO3GenErr i)
  | "normalize", [a, b, c, d], _ => some (.ok (SO3.normalize ⟨⟨a, b, c, d⟩⟩).toList)
  | "make", [a, b, c, d], _ => some ((SO3.make dbg ⟨a, b, c, d⟩).map SO3.toList)
  | "ctor_rpy", [a, b, c], _ => some ((SO3.ofRPY dbg a b c).map SO3.toList)
  | "ctor_aa", [a, x, y, z], _ => some ((SO3.ofAngleAxis dbg a ⟨x, y, z⟩).map SO3.toList)
  | "set_quat", [a, b, c, d, x, y, z, w], _ =>
      some ((SO3.setQuat dbg ⟨⟨a, b, c, d⟩⟩ ⟨x, y, z, w⟩).map SO3.toList)
  | "accessors", [a, b, c, d], _ => some (.ok [a, b, c, d, a, b, c, d])
  | _, _, _ => runBase so3Ops so3Codec dbg op mask args ints

def runSE3 (dbg : Bool) (op : String) (mask : Nat) (args : List K) (ints : List Int) :
    Option (Except Err (List K)) :=
  let w0 := mask % 2 == 1
  let w1 := (mask / 2) % 2 == 1
  match op, args, ints with
  | "act", [a, b, c, qx, qy, qz, qw, x, y, z], _ =>
      let X : SE3 K := ⟨⟨a, b, c⟩, ⟨qx, qy, qz, qw⟩⟩; let v : V3 K := ⟨x, y, z⟩
      some (.ok ((X.act v).toList ++ (if w0 then X.actJm v else []) ++
        (if w1 then (X.actJv v).toList else [])))
  | "hat", [a, b, c, d, e, f], _ => some (.ok (SE3T.hatRows ⟨⟨a, b, c⟩, ⟨d, e, f⟩⟩))
  | "transform", [a, b, c, qx, qy, qz, qw], _ =>
      some (.ok (SE3.transformRows ⟨⟨a, b, c⟩, ⟨qx, qy, qz, qw⟩⟩))
  | "rotation", [a, b, c, qx, qy, qz, qw], _ =>
      some (.ok (SE3.rotation ⟨⟨a, b, c⟩, ⟨qx, qy, qz, qw⟩⟩).toList)
  | "generator", [], [i] => some (genFromTable Generated.SE3GenTable Generated.SE3GenErr i)
  | "normalize", [a, b, c, qx, qy, qz, qw], _ =>
      some (.ok (SE3.normalize ⟨⟨a, b, c⟩, ⟨qx, qy, qz, qw⟩⟩).toList)
  | "make", [a, b, c, qx, qy, qz, qw], _ =>
      some ((SE3.make dbg ⟨a, b, c⟩ ⟨qx, qy, qz, qw⟩).map SE3.toList)
  | "vee", _, _ => if args.length == 16 then some (.ok (SE3T.vee args).toList) else none
  | "ctor_xyzrpy", [x, y, z, a, b, c], _ => some ((SE3.ofXYZRPY dbg x y z a b c).map SE3.toList)
  | "ctor_taa", [x, y, z, a, ax, ay, az], _ => some ((SE3.ofTAA dbg ⟨x, y, z⟩ a ⟨ax, ay, az⟩).map SE3.toList)
  | "ctor_tso3", [x, y, z, qx, qy, qz, qw], _ => some ((SE3.make dbg ⟨x, y, z⟩ ⟨qx, qy, qz, qw⟩).map SE3.toList)
  | "ctor_iso", _, _ => if args.length == 16 then some ((SE3.ofIsometry dbg args).map SE3.toList) else none
  | "set_quat", [a, b, c, qx, qy, qz, qw, x, y, z, w], _ =>
      some ((SE3.setQuat dbg ⟨⟨a, b, c⟩, ⟨qx, qy, qz, qw⟩⟩ ⟨x, y, z, w⟩).map SE3.toList)
  | "accessors", [a, b, c, qx, qy, qz, qw], _ =>
      let X : SE3 K := ⟨⟨a, b, c⟩, ⟨qx, qy, qz, qw⟩⟩
      some (.ok ([a, b, c, a, b, c, qx, qy, qz, qw] ++ X.transformRows ++ [qx, qy, qz, qw]))
  | "fillQ", [a, b, c, d, e, f], _ => some (.ok (SE3T.fillQ ⟨a, b, c⟩ ⟨d, e, f⟩).toList)
  | _, _, _ => runBase se3Ops se3Codec dbg op mask args ints

def se23Ops : GroupOps K (SE23 K) (SE23T K) (M9 K) where
  exp := SE23T.exp
  expJ := SE23T.expJ
  log := SE23.log
  logJ := SE23.logJ
  compose := SE23.compose
  composeJa := SE23.composeJa
  composeJb := SE23.composeJb
  inverse := SE23.inverse
  inverseJ := SE23.inverseJ
  adj := SE23.adj
  rjac := SE23T.rjac
  ljac := SE23T.ljac
  rjacinv := SE23T.rjacinv
  ljacinv := SE23T.ljacinv
  smallAdj := SE23T.smallAdj
  tneg := SE23T.neg
  jmul := M9.mul
  jneg := M9.neg
  jone := M9.one
  tzero := ⟨V3.zero, V3.zero, V3.zero⟩
  tadd := fun a b => ⟨a.lin.add b.lin, a.ang.add b.ang, a.lin2.add b.lin2⟩
  tsub := fun a b => ⟨a.lin.sub b.lin, a.ang.sub b.ang, a.lin2.sub b.lin2⟩
  tscale := fun a k => ⟨a.lin.muls k, a.ang.muls k, a.lin2.muls k⟩
  tsqnorm := fun a => treeSum 10 ((a.toList).map fun x => x * x)
  tdot := fun a b => dotTree a.toList b.toList
  jmulT := fun j t =>
    ⟨((j.b00.mulVec t.lin).add (j.b01.mulVec t.ang)).add (j.b02.mulVec t.lin2),
     ((j.b10.mulVec t.lin).add (j.b11.mulVec t.ang)).add (j.b12.mulVec t.lin2),
     ((j.b20.mulVec t.lin).add (j.b21.mulVec t.ang)).add (j.b22.mulVec t.lin2)⟩
  jtr := fun j => ⟨j.b00.transpose, j.b10.transpose, j.b20.transpose,
                   j.b01.transpose, j.b11.transpose, j.b21.transpose,
                   j.b02.transpose, j.b12.transpose, j.b22.transpose⟩

def se23Codec : Codec K (SE23 K) (SE23T K) (M9 K) where
  rep := 10
  dof := 9
  gOf := fun l => match l with
    | [a, b, c, x, y, z, w, d, e, f] => some ⟨⟨a, b, c⟩, ⟨x, y, z, w⟩, ⟨d, e, f⟩⟩ | _ => none
  gTo := SE23.toList
  tOf := fun l => match l with
    | [a, b, c, d, e, f, g, h, i] => some ⟨⟨a, b, c⟩, ⟨d, e, f⟩, ⟨g, h, i⟩⟩ | _ => none
  tTo := SE23T.toList
  jTo := M9.toList
  genTable := Generated.SE23GenTable

def runSE23 (dbg : Bool) (op : String) (mask : Nat) (args : List K) (ints : List Int) :
    Option (Except Err (List K)) :=
  let w0 := mask % 2 == 1
  let w1 := (mask / 2) % 2 == 1
  match op, ints with
  | "generator", [i] => if args.isEmpty then some (genFromTable Generated.SE23GenTable Generated.SE23GenErr i) else none
  | "vee", [] => if args.length == 25 then some (.ok (SE23T.vee args).toList) else none
  | "ctor_iso", [] => if args.length == 19 then some ((SE23.ofIsometry dbg args).map SE23.toList) else none
  | _, _ =>
  match se23Codec.gOf (args.take 10), se23Codec.tOf (args.take 9) with
  | some X, _ =>
    match op, args.drop 10 with
    | "act", [x, y, z] =>
        let v : V3 K := ⟨x, y, z⟩
        some (.ok ((X.act v).toList ++ (if w0 then X.actJm v else []) ++
          (if w1 then (X.actJv v).toList else [])))
    | "transform", [] => some (.ok X.transformRows)
    | "rotation", [] => some (.ok X.rotation.toList)
    | "normalize", [] => some (.ok X.normalize.toList)
    | "make", [] => some ((SE23.make dbg X.t X.q X.v).map SE23.toList)
    | _, _ => runBase se23Ops se23Codec dbg op mask args ints
  | none, some t =>
    match op, args.drop 9 with
    | "hat", [] => some (.ok t.hatRows)
    | _, _ => runBase se23Ops se23Codec dbg op mask args ints
  | none, none => runBase se23Ops se23Codec dbg op mask args ints

def sgal3Ops : GroupOps K (SGal3 K) (SGal3T K) (List (List K)) where
  exp := SGal3T.exp
  expJ := SGal3T.expJ
  log := SGal3.log
  logJ := SGal3.logJ
  compose := SGal3.compose
  composeJa := SGal3.composeJa
  composeJb := SGal3.composeJb
  inverse := SGal3.inverse
  inverseJ := SGal3.inverseJ
  adj := SGal3.adj
  rjac := SGal3T.rjac
  ljac := SGal3T.ljac
  rjacinv := SGal3T.rjacinv
  ljacinv := SGal3T.ljacinv
  smallAdj := SGal3T.smallAdj
  tneg := SGal3T.neg
  jmul := fun a b => a.map fun row => (List.range 10).map fun j => dotTree row (b.map fun r => r.getD j (nat 0))
  jneg := RowsMat.neg
  jone := Rn.identRows 10
  tzero := ⟨V3.zero, V3.zero, V3.zero, nat 0⟩
  tadd := fun a b => ⟨a.lin.add b.lin, a.lin2.add b.lin2, a.ang.add b.ang, a.t + b.t⟩
  tsub := fun a b => ⟨a.lin.sub b.lin, a.lin2.sub b.lin2, a.ang.sub b.ang, a.t - b.t⟩
  tscale := fun a k => ⟨a.lin.muls k, a.lin2.muls k, a.ang.muls k, a.t * k⟩
  tsqnorm := fun a => treeSum 11 ((a.toList).map fun x => x * x)
  tdot := fun a b => dotTree a.toList b.toList
  jmulT := fun j t =>
    match (j.map fun row => dotTree row t.toList) with
    | [a, b, c, d, e, f, g, h, i, k] => ⟨⟨a, b, c⟩, ⟨d, e, f⟩, ⟨g, h, i⟩, k⟩
    | _ => ⟨V3.zero, V3.zero, V3.zero, nat 0⟩
  jtr := RowsMat.transpose 10

def sgal3Codec : Codec K (SGal3 K) (SGal3T K) (List (List K)) where
  rep := 11
  dof := 10
  gOf := fun l => match l with
    | [a, b, c, x, y, z, w, d, e, f, t] => some ⟨⟨a, b, c⟩, ⟨x, y, z, w⟩, ⟨d, e, f⟩, t⟩ | _ => none
  gTo := SGal3.toList
  tOf := fun l => match l with
    | [a, b, c, d, e, f, g, h, i, t] => some ⟨⟨a, b, c⟩, ⟨d, e, f⟩, ⟨g, h, i⟩, t⟩ | _ => none
  tTo := SGal3T.toList
  jTo := List.flatten
  genTable := Generated.SGal3GenTable

def runSGal3 (dbg : Bool) (op : String) (mask : Nat) (args : List K) (ints : List Int) :
    Option (Except Err (List K)) :=
  let w0 := mask % 2 == 1
  let w1 := (mask / 2) % 2 == 1
  match op, ints with
  | "generator", [i] => if args.isEmpty then some (genFromTable Generated.SGal3GenTable Generated.SGal3GenErr i) else none
  | "vee", [] => if args.length == 25 then some (.ok (SGal3T.vee args).toList) else none
  | "ctor_iso", [] => if args.length == 20 then some ((SGal3.ofIsometry dbg args).map SGal3.toList) else none
  | _, _ =>
  match sgal3Codec.gOf (args.take 11), sgal3Codec.tOf (args.take 10) with
  | some X, _ =>
    match op, args.drop 11 with
    | "act", [x, y, z] =>
        let v : V3 K := ⟨x, y, z⟩
        some (.ok ((X.act v).toList ++ (if w0 then X.actJm v else []) ++
          (if w1 then (X.actJv v).toList else [])))
    | "transform", [] => some (.ok X.transformRows)
    | "rotation", [] => some (.ok X.rotation.toList)
    | "normalize", [] => some (.ok X.normalize.toList)
    | "make", [] => some ((SGal3.make dbg X.p X.q X.v X.t).map SGal3.toList)
    | _, _ => runBase sgal3Ops sgal3Codec dbg op mask args ints
  | none, some t =>
    match op, args.drop 10 with
    | "hat", [] => some (.ok t.hatRows)
    | _, _ => runBase sgal3Ops sgal3Codec dbg op mask args ints
  | none, none => runBase sgal3Ops sgal3Codec dbg op mask args ints

/-- Rn as a record of primitives (used by the algorithms). -/
def rnOps (n : Nat) : GroupOps K (List K) (List K) (List (List K)) where
  exp := fun _ t => .ok (Rn.exp t)
  expJ := fun _ => Rn.identRows n
  log := Rn.log
  logJ := fun _ => Rn.identRows n
  compose := fun _ a b => .ok (Rn.compose a b)
  composeJa := fun _ _ _ => .ok (Rn.identRows n)
  composeJb := fun _ _ => Rn.identRows n
  inverse := fun _ a => .ok (Rn.inverse a)
  inverseJ := fun _ => Rn.negIdentRows n
  adj := fun _ => Rn.identRows n
  rjac := fun _ => Rn.identRows n
  ljac := fun _ => Rn.identRows n
  rjacinv := fun _ => Rn.identRows n
  ljacinv := fun _ => Rn.identRows n
  smallAdj := fun _ => Rn.zeroRows n
  tneg := Rn.negL
  jmul := fun a b => a.map fun row => (List.range n).map fun j => dotTree row (b.map fun r => r.getD j (nat 0))
  jneg := fun a => a.map fun r => r.map fun x => -x
  jone := Rn.identRows n
  tzero := (List.range n).map fun _ => nat 0
  tadd := Rn.zipAdd
  tsub := fun a b => List.zipWith (· - ·) a b
  tscale := fun a k => a.map fun x => x * k
  tsqnorm := fun a => treeSum (n + 1) (a.map fun x => x * x)
  tdot := dotTree
  jmulT := fun j t => j.map fun row => dotTree row t
  jtr := fun a => (List.range n).map fun j => a.map fun r => r.getD j (nat 0)

def rnCodec (n : Nat) : Codec K (List K) (List K) (List (List K)) where
  rep := n
  dof := n
  gOf := fun l => if l.length == n then some l else none
  gTo := id
  tOf := fun l => if l.length == n then some l else none
  tTo := id
  jTo := List.flatten

/-- Rn for any n: everything is list arithmetic; Jacobians are constant. -/
def runRn (n : Nat) (_dbg : Bool) (op : String) (mask : Nat) (args : List K) (ints : List Int) :
    Option (Except Err (List K)) :=
  let w0 := mask % 2 == 1
  let w1 := (mask / 2) % 2 == 1
  let I : List K := (Rn.identRows n).flatten
  let Z : List K := (Rn.zeroRows n).flatten
  let nI : List K := (Rn.negIdentRows n).flatten
  let opt (b : Bool) (l : List K) : List K := if b then l else []
  let a := args.take n
  let b := args.drop n
  let one := args.length == n
  let two := args.length == 2 * n
  match op with
  | "exp" => if one then some (.ok (Rn.exp a ++ opt w0 I)) else none
  | "log" => if one then some (.ok (Rn.log a ++ opt w0 I)) else none
  | "inverse" => if one then some (.ok (Rn.inverse a ++ opt w0 nI)) else none
  | "compose" => if two then some (.ok (Rn.compose a b ++ opt w0 I ++ opt w1 I)) else none
  | "act" => if two then some (.ok (Rn.act a b ++ opt w0 I ++ opt w1 I)) else none
  | "rplus" => if two then some (.ok (Rn.compose a (Rn.exp b) ++ opt w0 I ++ opt w1 I)) else none
  | "lplus" => if two then some (.ok (Rn.compose (Rn.exp b) a ++ opt w0 I ++ opt w1 I)) else none
  | "between" => if two then some (.ok (Rn.compose (Rn.inverse a) b ++ opt w0 nI ++ opt w1 I)) else none
  | "rminus" => if two then some (.ok (Rn.log (Rn.compose (Rn.inverse b) a) ++ opt w0 I ++ opt w1 nI)) else none
  | "lminus" => if two then some (.ok (Rn.log (Rn.compose a (Rn.inverse b)) ++ opt w0 I ++ opt w1 nI)) else none
  | "adj" => if one then some (.ok I) else none
  | "rjac" | "ljac" | "rjacinv" | "ljacinv" => if one then some (.ok I) else none
  | "smallAdj" => if one then some (.ok Z) else none
  | "bracket" => if two then some (.ok (a.map fun _ => nat 0)) else none   -- `Tangent::Zero()`
  | "innerWeights" => if args.isEmpty then some (.ok I) else none
  | "inner" => if two then some (.ok [dotTree (vecMatFlat n a I) b]) else none
  | "sqwnorm" => if one then some (.ok [dotTree (vecMatFlat n a I) a]) else none
  | "wnorm" => if one then some (.ok [Scalar.sqrt (dotTree (vecMatFlat n a I) a)]) else none
  | "vee" => if args.length == (n + 1) * (n + 1) then
      some (.ok ((List.range n).map fun i => args.getD ((n + 1) * i + n) (nat 0))) else none
  | "transform" => if one then some (.ok (Rn.transformRows a)) else none
  | "hat" => if one then some (.ok (Rn.hatRows a)) else none
  | "make" => if one then some (.ok a) else none
  | "generator" => match ints with
      | [i] => if args.isEmpty then some (Rn.generator n i) else none
      | _ => none
  | "interp_slerp" | "interp_cubic" | "interp_smooth" | "avg_bi" | "avg_w" | "avg_fl" | "avg_fr"
  | "decasteljau" | "isApprox" | "t_isApprox" => runBase (rnOps n) (rnCodec n) _dbg op mask args ints
  | _ => none

def groupSizes (grp : String) : Nat × Nat :=
  match grp with
  | "SO2" => (2, 1) | "SE2" => (4, 3) | "SO3" => (4, 3) | "SE3" => (7, 6) | "SE_2_3" => (10, 9)
  | "SGal3" => (11, 10)
  | "R1" => (1, 1) | "R2" => (2, 2) | "R3" => (3, 3) | "R5" => (5, 5) | "R16" => (16, 16)
  | _ => (0, 0)

/-- dispatch on the group name (canonical operation names only). -/
def runCanonical (grp : String) (dbg : Bool) (op : String) (mask : Nat) (args : List K)
    (ints : List Int) : Option (Except Err (List K)) :=
  if op == "phi" then      -- `smoothing_phi(t, degree)`: group independent; `size_t degree`
    match args, ints with
    | [t], [m] => some (if m < 0 then .error .logic_error else (smoothingPhi t m.toNat).map fun x => [x])
    | _, _ => none
  else
  match grp with
  | "SO2" => runSO2 dbg op mask args ints
  | "SE2" => runSE2 dbg op mask args ints
  | "SO3" => runSO3 dbg op mask args ints
  | "SE3" => runSE3 dbg op mask args ints
  | "SE_2_3" => runSE23 dbg op mask args ints
  | "SGal3" => runSGal3 dbg op mask args ints
  | "R1" => runRn 1 dbg op mask args ints
  | "R2" => runRn 2 dbg op mask args ints
  | "R3" => runRn 3 dbg op mask args ints
  | "R5" => runRn 5 dbg op mask args ints
  | "R16" => runRn 16 dbg op mask args ints
  | _ => none

/-- aliases are resolved through `Api` (renames, and tangent-side forms with swapped optional
    outputs), then the canonical member `run` runs. -/
def withAliases (run : String → Nat → List K → List Int → Option (Except Err (List K))) (rep dof : Nat)
    (op : String) (mask : Nat) (args : List K) (ints : List Int) : Option (Except Err (List K)) :=
  let cop := Api.canonical op
  if Api.isSwapped op then
    (run cop (Api.swapMask mask) args ints).map fun r => r.map fun out =>
      -- canonical output: value ++ J_m? ++ J_t?   (mask' bit0 = J_m, bit1 = J_t)
      let wt := mask % 2 == 1      -- the alias' first optional output is J_t
      let wm := (mask / 2) % 2 == 1
      let v := out.take rep
      let rest := out.drop rep
      let jm := if wm then rest.take (dof * dof) else []
      let jt := if wt then (rest.drop (if wm then dof * dof else 0)).take (dof * dof) else []
      v ++ jt ++ jm
  else run cop mask args ints

def runGroup (grp : String) (dbg : Bool) (op : String) (mask : Nat) (args : List K)
    (ints : List Int) : Option (Except Err (List K)) :=
  withAliases (runCanonical grp dbg) (groupSizes grp).1 (groupSizes grp).2 op mask args ints

end Manif
