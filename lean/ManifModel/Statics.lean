/-
  Statics.lean — the protocol by which manif's lazily initialised constants are shared between
  threads (C14), as an executable state machine.

  Every piece of shared state in the library is a function-local `static const` object (the table
  is regenerated from /repo by tools/statics_scan.py + the guard trace of harness/conc.cpp, see
  Generated/Statics.lean).  C++11 [stmt.dcl]/4 gives such an object a guard with three states:

      uninit ──first arrival──▶ busy t ──initialiser returns──▶ done v
                                  ▲ other threads block here      (never written again)

  A *cell* is one such object.  Its initialiser may use other cells (`deps`), e.g.
  `Identity()::I` uses `setIdentity()::zero`, which uses `Zero()::t`; `InnerWeights::W` uses the
  generators `E0 … En`.  A thread executes a program: the list of cells its const API calls touch,
  in order.  `step s t` performs one atomic action of thread `t`; a schedule is any list of thread
  ids.  Operands of the calls are immutable and results are returned by value, so the cells are the
  only shared state — which is exactly what the scanner checks on the source.
-/
namespace Manif.Statics

abbrev Cell := Nat
abbrev Tid := Nat

inductive CState (V : Type) where
  | uninit
  | busy (t : Tid)
  | done (v : V)
  deriving Repr, DecidableEq

/-- what the code determines: which cells an initialiser uses and the value it computes from
    theirs.  `rank` witnesses that the "uses" relation is acyclic. -/
structure Spec (V : Type) where
  deps : Cell → List Cell
  rank : Cell → Nat
  rank_dec : ∀ c d, d ∈ deps c → rank d < rank c
  compute : Cell → List V → V

/-- an initialisation in progress: the cell, the dependencies still to be used, the values of
    those already used. -/
structure Frame (V : Type) where
  cell : Cell
  todo : List Cell
  env : List V
  deriving Repr

structure Thread (V : Type) where
  /-- the cells the remaining const API calls of this thread touch, in order -/
  prog : List Cell
  /-- initialisations in progress, innermost first -/
  stack : List (Frame V)
  /-- values this thread has read at top level (what its calls returned) -/
  log : List (Cell × V)
  /-- set when the thread re-enters an initialisation it is itself running (undefined behaviour) -/
  err : Bool
  deriving Repr

structure State (V : Type) where
  cells : Cell → CState V
  /-- thread table (threads beyond those started have an empty program and never act) -/
  thr : Tid → Thread V
  /-- how many times the storage of each cell has been written -/
  writes : Cell → Nat

def upd {α : Type} (f : Nat → α) (c : Nat) (a : α) : Nat → α := fun x => if x = c then a else f x

variable {V : Type}

def idle : Thread V := ⟨[], [], [], false⟩

def init (progs : List (List Cell)) : State V :=
  { cells := fun _ => .uninit,
    thr := fun t => match progs[t]? with | some p => ⟨p, [], [], false⟩ | none => idle,
    writes := fun _ => 0 }

/-- the cell the thread's next action is about, if any -/
def Thread.target (th : Thread V) : Option Cell :=
  match th.stack with
  | f :: _ => f.todo.head?
  | [] => th.prog.head?

def Thread.hasWork (th : Thread V) : Prop := th.stack ≠ [] ∨ th.prog ≠ []

/-- thread continues after having read value `v` of its target `c` -/
def Thread.afterRead (th : Thread V) (c : Cell) (v : V) : Thread V :=
  match th.stack with
  | f :: rest => { th with stack := { f with todo := f.todo.tail, env := f.env ++ [v] } :: rest }
  | [] => { th with prog := th.prog.tail, log := th.log ++ [(c, v)] }

/-- the thread uses cell `d` (a dependency of the initialisation it is running, or the next cell of
    its program): read it if constructed; become its initialiser if nobody has started; wait if
    another thread is constructing it. -/
def useCell (S : Spec V) (s : State V) (t : Tid) (d : Cell) : State V :=
  let th := s.thr t
  match s.cells d with
  | .done v => { s with thr := upd s.thr t (th.afterRead d v) }
  | .uninit => { s with cells := upd s.cells d (.busy t),
                        thr := upd s.thr t { th with stack := ⟨d, S.deps d, []⟩ :: th.stack } }
  | .busy t' => if t' = t then { s with thr := upd s.thr t { th with err := true } } else s

/-- one atomic action of thread `t` (no-op if it has nothing to do or is blocked). -/
def step (S : Spec V) (s : State V) (t : Tid) : State V :=
  let th := s.thr t
  match th.stack with
  | f :: rest =>
    match f.todo with
    | [] =>
      -- the initialiser returns: the object is constructed, the guard released
      { cells := upd s.cells f.cell (.done (S.compute f.cell f.env)),
        thr := upd s.thr t { th with stack := rest },
        writes := upd s.writes f.cell (s.writes f.cell + 1) }
    | d :: _ => useCell S s t d
  | [] =>
    match th.prog with
    | [] => s
    | c :: _ => useCell S s t c

/-- run a schedule -/
def run (S : Spec V) (s : State V) (sched : List Tid) : State V := sched.foldl (step S) s

/-- thread `t` can make a move that changes the state (it is neither finished nor blocked) -/
def enabled (s : State V) (t : Tid) : Prop :=
  match (s.thr t).stack with
  | f :: _ =>
    match f.todo with
    | [] => True
    | d :: _ => ∀ t', s.cells d = .busy t' → t' = t
  | [] =>
    match (s.thr t).prog with
    | [] => False
    | c :: _ => ∀ t', s.cells c = .busy t' → t' = t

end Manif.Statics
