/-
  Scalar.lean — the abstract scalar the whole model is written against.

  `Float` cannot be a lawful field, so the model takes its operations from this
  class instead of `[Field K]`.  Instances:
    * `Float`  (here)            — executable twin of manif's `double` instantiation (L1)
    * `Float32` (here)           — executable twin of the `float` instantiation (C12, C19)
    * `Dual K` (Dual.lean)       — forward-mode dual numbers over any scalar
    * `ℝ`      (ManifProofs)     — theorems
  No Mathlib import anywhere under ManifModel/.
-/
namespace Manif

class Scalar (K : Type) extends Add K, Sub K, Mul K, Div K, Neg K where
  ofNat : Nat → K
  sin   : K → K
  cos   : K → K
  sqrt  : K → K
  /-- `atan2 y x`, argument order of `std::atan2`. -/
  atan2 : K → K → K
  abs   : K → K
  /-- `a < b` as evaluated by the C++ comparison (false on NaN). -/
  lt    : K → K → Bool
  /-- `a <= b`. -/
  le    : K → K → Bool
  /-- `Constants<Scalar>::eps` = 100 * machine epsilon. -/
  eps   : K
  /-- `cos(x)` / `sin(x)` called *unqualified where no using-declaration is in scope* (the
      `SO2(theta)` and `SE2(x,y,theta)` constructors put `using std::cos;` in the constructor
      body, after the mem-initialiser that makes the call): for `float` these resolve to
      `::cos(double)`, i.e. the value is computed in double and rounded to `float`.  Every other
      instance uses its own `cos`/`sin`. -/
  cosUnq : K → K := cos
  sinUnq : K → K := sin
  /-- coefficient of `W²` in the Jacobian of `SO3::log`, as a function of `θ²` and `θ`:
      `1/θ² − cos(θ/2) / (2 θ sin(θ/2))`.  `SO3Base::log` calls `cos`/`sin` *unqualified and
      without a using-declaration*, so for `float` overload resolution picks `::cos(double)` /
      `::sin(double)` from `<math.h>` and the usual arithmetic conversions evaluate the rest of
      the expression in `double`, rounded to `float` once at the end.  Every other instance
      (double, reals, dual numbers — whose `cos` is found by argument-dependent lookup) uses the
      generic formula, which is the default. -/
  so3LogJCoeff : K → K → K := fun theta2 theta =>
    ofNat 1 / theta2 - cos (theta / ofNat 2) / (ofNat 2 * theta * sin (theta / ofNat 2))
  /-- `SGal3Tangent::fillE` (large-angle branch), from `θ²`: `θ = sqrt(θ²)`,
      `A = (θ − sin θ)/θ²/θ`, `B = (θ² + 2 cos θ − 2)/(2 θ² θ²)`.  `fillE` calls `sqrt`, `sin`, `cos`
      unqualified with no using-declaration: for `float` they resolve to the `double` overloads and
      the usual arithmetic conversions evaluate the numerators (and the quotients) in double. -/
  sgal3EAB : K → K × K := fun theta_sq =>
    let theta := sqrt theta_sq
    ((theta - sin theta) / theta_sq / theta,
     (theta_sq + ofNat 2 * cos theta - ofNat 2) / (ofNat 2 * theta_sq * theta_sq))

namespace Scalar
variable {K : Type} [Scalar K]

/-- `Scalar(n)` for a non-negative integer literal. -/
@[reducible] def nat (n : Nat) : K := Scalar.ofNat n
/-- `Scalar(n./d.)`: the literal quotient, rounded once (as the C++ constant is). -/
@[reducible] def rat (n d : Nat) : K := (Scalar.ofNat n : K) / Scalar.ofNat d
/-- `a > b`. -/
@[reducible] def gt (a b : K) : Bool := Scalar.lt b a
/-- `std::min` (returns `b < a ? b : a`). -/
def min (a b : K) : K := if Scalar.lt b a then b else a
/-- `std::max` (returns `a < b ? b : a`). -/
def max (a b : K) : K := if Scalar.lt a b then b else a
end Scalar

/-- machine epsilon of `double` times 100 = `Constants<double>::eps`. -/
def floatEps : Float := Float.scaleB 100.0 (-52)

instance : Scalar Float where
  ofNat := Float.ofNat
  sin := Float.sin
  cos := Float.cos
  sqrt := Float.sqrt
  atan2 := Float.atan2
  abs := Float.abs
  lt a b := a < b
  le a b := a ≤ b
  eps := floatEps

/-- machine epsilon of `float` times 100 = `Constants<float>::eps`. -/
def float32Eps : Float32 := Float32.scaleB 100.0 (-23)

/-- executable twin of manif's `float` instantiation (the same model code, single precision). -/
instance : Scalar Float32 where
  ofNat := Float32.ofNat
  sin := Float32.sin
  cos := Float32.cos
  sqrt := Float32.sqrt
  atan2 := Float32.atan2
  abs := Float32.abs
  lt a b := a < b
  le a b := a ≤ b
  eps := float32Eps
  sgal3EAB theta_sq :=
    let theta : Float32 := (Float.sqrt theta_sq.toFloat).toFloat32
    let td := theta.toFloat
    let sq := theta_sq.toFloat
    (((td - Float.sin td) / sq / td).toFloat32,
     ((sq + 2.0 * Float.cos td - 2.0) / (2 * theta_sq * theta_sq).toFloat).toFloat32)
  cosUnq x := (Float.cos x.toFloat).toFloat32
  sinUnq x := (Float.sin x.toFloat).toFloat32
  so3LogJCoeff theta2 theta :=
    ((1 / theta2).toFloat -
      Float.cos (theta / 2).toFloat / ((2 * theta).toFloat * Float.sin (theta / 2).toFloat)).toFloat32

/-- Exceptions raised by manif, as the model reports them. -/
inductive Err where
  | invalid_argument
  | runtime_error
  | logic_error
  | bad_op            -- protocol error (driver only), never produced by a modelled function
  deriving Repr, DecidableEq, Inhabited

def Err.name : Err → String
  | .invalid_argument => "invalid_argument"
  | .runtime_error => "runtime_error"
  | .logic_error => "logic_error"
  | .bad_op => "bad_op"

end Manif
