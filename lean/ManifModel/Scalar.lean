/-
  Scalar.lean — the abstract scalar the whole model is written against.

  `Float` cannot be a lawful field, so the model takes its operations from this
  class instead of `[Field K]`.  Instances:
    * `Float`  (here)            — executable twin of manif's `double` instantiation (L1)
    * `Dual K` (Dual.lean)       — forward-mode dual numbers over any scalar
    * `ℝ`      (ManifProofs)     — theorems
  No Mathlib import anywhere under ManifModel/.
-/
namespace Manif

class Scalar (K : Type) extends Add K, Sub K, Mul K, Div K, Neg K where
  ofNat : Nat → K
  sin   : K → K
  cos   : K → K
  sqrt  : K → K
  /-- `atan2 y x`, argument order of `std::atan2`. -/
  atan2 : K → K → K
  abs   : K → K
  /-- `a < b` as evaluated by the C++ comparison (false on NaN). -/
  lt    : K → K → Bool
  /-- `a <= b`. -/
  le    : K → K → Bool
  /-- `Constants<Scalar>::eps` = 100 * machine epsilon. -/
  eps   : K

namespace Scalar
variable {K : Type} [Scalar K]

/-- `Scalar(n)` for a non-negative integer literal. -/
@[reducible] def nat (n : Nat) : K := Scalar.ofNat n
/-- `Scalar(n./d.)`: the literal quotient, rounded once (as the C++ constant is). -/
@[reducible] def rat (n d : Nat) : K := (Scalar.ofNat n : K) / Scalar.ofNat d
/-- `a > b`. -/
@[reducible] def gt (a b : K) : Bool := Scalar.lt b a
/-- `std::min` (returns `b < a ? b : a`). -/
def min (a b : K) : K := if Scalar.lt b a then b else a
/-- `std::max` (returns `a < b ? b : a`). -/
def max (a b : K) : K := if Scalar.lt a b then b else a
end Scalar

/-- machine epsilon of `double` times 100 = `Constants<double>::eps`. -/
def floatEps : Float := Float.scaleB 100.0 (-52)

instance : Scalar Float where
  ofNat := Float.ofNat
  sin := Float.sin
  cos := Float.cos
  sqrt := Float.sqrt
  atan2 := Float.atan2
  abs := Float.abs
  lt a b := a < b
  le a b := a ≤ b
  eps := floatEps

/-- Exceptions raised by manif, as the model reports them. -/
inductive Err where
  | invalid_argument
  | runtime_error
  | logic_error
  | bad_op            -- protocol error (driver only), never produced by a modelled function
  deriving Repr, DecidableEq, Inhabited

def Err.name : Err → String
  | .invalid_argument => "invalid_argument"
  | .runtime_error => "runtime_error"
  | .logic_error => "logic_error"
  | .bad_op => "bad_op"

end Manif
