/-
  Dual.lean — first-order dual numbers `a + b ε`, `ε² = 0`, over any scalar, with the lifting
  rules forward-mode AD scalars (ceres::Jet, autodiff::dual) implement.  `Scalar (Dual K)` runs
  the *same* model code as `Float` and `ℝ`: branch predicates look at the real part only (as
  `operator<` of a Jet does).
-/
import ManifModel.Scalar
namespace Manif
open Scalar

structure Dual (K : Type) where
  re : K
  du : K
  deriving Repr, Inhabited

variable {K : Type} [Scalar K]

namespace Dual
def lift (a : K) : Dual K := ⟨a, nat 0⟩
end Dual

instance : Scalar (Dual K) where
  add a b := ⟨a.re + b.re, a.du + b.du⟩
  sub a b := ⟨a.re - b.re, a.du - b.du⟩
  mul a b := ⟨a.re * b.re, a.re * b.du + a.du * b.re⟩
  div a b := ⟨a.re / b.re, (a.du * b.re - a.re * b.du) / (b.re * b.re)⟩
  neg a := ⟨-a.re, -a.du⟩
  ofNat n := ⟨Scalar.ofNat n, Scalar.ofNat 0⟩
  sin a := ⟨Scalar.sin a.re, Scalar.cos a.re * a.du⟩
  cos a := ⟨Scalar.cos a.re, -(Scalar.sin a.re * a.du)⟩
  sqrt a := ⟨Scalar.sqrt a.re, a.du / (Scalar.ofNat 2 * Scalar.sqrt a.re)⟩
  atan2 y x := ⟨Scalar.atan2 y.re x.re, (x.re * y.du - y.re * x.du) / (x.re * x.re + y.re * y.re)⟩
  abs a := ⟨Scalar.abs a.re, if Scalar.lt a.re (Scalar.ofNat 0) then -a.du else a.du⟩
  lt a b := Scalar.lt a.re b.re
  le a b := Scalar.le a.re b.re
  eps := ⟨Scalar.eps, Scalar.ofNat 0⟩
  -- the value part of every operation is the base scalar's own operation on the value parts
  -- (so that `re (f x) = f (re x)` for every model function `f`, Properties/C12.lean)
  sgal3EAB theta_sq :=
    -- value parts from the base scalar's own rule; infinitesimal parts by the generic formulas
    let theta : Dual K := ⟨Scalar.sqrt theta_sq.re, theta_sq.du / (Scalar.ofNat 2 * Scalar.sqrt theta_sq.re)⟩
    let s : Dual K := ⟨Scalar.sin theta.re, Scalar.cos theta.re * theta.du⟩
    let c : Dual K := ⟨Scalar.cos theta.re, -(Scalar.sin theta.re * theta.du)⟩
    let dsub (a b : Dual K) : Dual K := ⟨a.re - b.re, a.du - b.du⟩
    let dadd (a b : Dual K) : Dual K := ⟨a.re + b.re, a.du + b.du⟩
    let dmul (a b : Dual K) : Dual K := ⟨a.re * b.re, a.re * b.du + a.du * b.re⟩
    let ddiv (a b : Dual K) : Dual K := ⟨a.re / b.re, (a.du * b.re - a.re * b.du) / (b.re * b.re)⟩
    let two : Dual K := ⟨Scalar.ofNat 2, Scalar.ofNat 0⟩
    let A := ddiv (ddiv (dsub theta s) theta_sq) theta
    let B := ddiv (dsub (dadd theta_sq (dmul two c)) two) (dmul (dmul two theta_sq) theta_sq)
    (⟨(Scalar.sgal3EAB theta_sq.re).1, A.du⟩, ⟨(Scalar.sgal3EAB theta_sq.re).2, B.du⟩)
  cosUnq a := ⟨Scalar.cosUnq a.re, -(Scalar.sinUnq a.re * a.du)⟩
  sinUnq a := ⟨Scalar.sinUnq a.re, Scalar.cosUnq a.re * a.du⟩
  so3LogJCoeff theta2 theta :=
    ⟨Scalar.so3LogJCoeff theta2.re theta.re,
     -- derivative of 1/θ² − cos(θ/2)/(2θ sin(θ/2)) by the quotient rules above
     let two : K := Scalar.ofNat 2
     let h := theta.re / two
     let hd := (theta.du * two) / (two * two)
     let c := Scalar.cos h
     let s := Scalar.sin h
     let cd := -(s * hd)
     let sd := c * hd
     let den := two * theta.re * s
     let dend := (two * theta.du) * s + (two * theta.re) * sd
     (-(theta2.du)) / (theta2.re * theta2.re) - (cd * den - c * dend) / (den * den)⟩

end Manif
