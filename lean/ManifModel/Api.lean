/-
  Api.lean — the documented aliases and the canonical member each must equal (README table,
  operators, tangent-side forms, free functions of functions.h).  The driver resolves an alias
  through this table before running the model, so "every alias returns the same result as the
  canonical member" is, on the model side, true by construction; the correspondence check
  compares the C++ alias with it bit for bit, and the C19 matrix is generated from this table.
-/
namespace Manif.Api

/-- plain renames: same arguments, same optional outputs in the same order. -/
def aliasTable : List (String × String) :=
  [ ("plus", "rplus"), ("op+", "rplus"), ("op+=", "rplus"),
    ("minus", "rminus"), ("op-", "rminus"),
    ("op*", "compose"), ("op*=", "compose"),
    ("t+X", "lplus"),
    ("lift", "log"), ("retract", "exp"),
    ("f_inverse", "inverse"), ("f_rplus", "rplus"), ("f_lplus", "lplus"), ("f_plus", "rplus"),
    ("f_rminus", "rminus"), ("f_lminus", "lminus"), ("f_minus", "rminus"),
    ("f_log", "log"), ("f_exp", "exp"), ("f_compose", "compose"), ("f_between", "between"),
    ("f_act", "act") ]

/-- tangent-side forms `t.f(X, J_mout_t, J_mout_m)`: the canonical member is `X.g(t, J_mout_m,
    J_mout_t)` — same value, optional outputs in swapped order. -/
def swappedTable : List (String × String) :=
  [ ("t.plus", "lplus"), ("t.lplus", "lplus"), ("t.rplus", "rplus") ]

def canonical (op : String) : String :=
  match aliasTable.lookup op with
  | some c => c
  | none => match swappedTable.lookup op with
    | some c => c
    | none => op

def isSwapped (op : String) : Bool := (swappedTable.lookup op).isSome

/-- swap the two low mask bits -/
def swapMask (m : Nat) : Nat := (m / 2) % 2 + 2 * (m % 2) + 4 * (m / 4)

end Manif.Api
