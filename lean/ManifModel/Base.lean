/-
  Base.lean — include/manif/impl/lie_group_base.h and tangent_base.h:
  the operations the two CRTP bases *derive* from the per-group primitives, written once over
  a record of primitives.  Optional Jacobian outputs are a request mask; the code path taken
  for each mask follows the source (e.g. `lminus` computes `J_t_mb` as `-(*J_t_ma)` when both
  are requested and by a separate product otherwise).
-/
import ManifModel.Scalar
namespace Manif
open Scalar

/-- The primitives a concrete group supplies (`derived().xxx` in the C++).  `dbg` = assertions
    enabled; group-valued primitives can raise `invalid_argument` from the constructor check. -/
structure GroupOps (K G T J : Type) where
  exp       : Bool → T → Except Err G
  expJ      : T → J
  log       : G → T
  logJ      : G → J
  compose   : Bool → G → G → Except Err G
  composeJa : Bool → G → G → Except Err J
  composeJb : G → G → J
  inverse   : Bool → G → Except Err G
  inverseJ  : G → J
  adj       : G → J
  rjac      : T → J
  ljac      : T → J
  rjacinv   : T → J
  ljacinv   : T → J
  smallAdj  : T → J
  tneg      : T → T
  jmul      : J → J → J
  jneg      : J → J
  jone      : J
  /-- tangent vector-space operations (`coeffs() += …`, `*= scalar`, `Zero()`, `squaredNorm()`) -/
  tzero     : T
  tadd      : T → T → T
  tsub      : T → T → T
  tscale    : T → K → T
  tsqnorm   : T → K
  tdot      : T → T → K
  /-- `Jacobian * tangent` -/
  jmulT     : J → T → T
  jtr       : J → J

/-- value plus the two optional Jacobians of a binary operation. -/
structure Out2 (A J : Type) where
  val : A
  j1  : Option J
  j2  : Option J

namespace GroupOps
variable {K G T J : Type} (o : GroupOps K G T J)

/-- `LieGroupBase::rplus(t, J_mout_m, J_mout_t)` -/
def rplus (dbg : Bool) (X : G) (t : T) (wm wt : Bool) : Except Err (Out2 G J) := do
  let jt := if wt then some (o.rjac t) else none
  let e ← o.exp dbg t
  let jm ← if wm then (o.composeJa dbg X e).map some else pure none
  let r ← o.compose dbg X e
  pure ⟨r, jm, jt⟩

/-- `LieGroupBase::lplus` -/
def lplus (dbg : Bool) (X : G) (t : T) (wm wt : Bool) : Except Err (Out2 G J) := do
  let jt ← if wt then do
      let xi ← o.inverse dbg X
      pure (some (o.jmul (o.adj xi) (o.rjac t)))
    else pure none
  let jm := if wm then some o.jone else none
  let e ← o.exp dbg t
  let r ← o.compose dbg e X
  pure ⟨r, jm, jt⟩

/-- `LieGroupBase::rminus(m, J_t_ma, J_t_mb)`: `t = m.inverse().compose(*this).log()` -/
def rminus (dbg : Bool) (X Y : G) (wa wb : Bool) : Except Err (Out2 T J) := do
  let yi ← o.inverse dbg Y
  let c ← o.compose dbg yi X
  let t := o.log c
  let ja := if wa then some (o.rjacinv t) else none
  let jb := if wb then some (o.jneg (o.rjacinv (o.tneg t))) else none
  pure ⟨t, ja, jb⟩

/-- `LieGroupBase::lminus`: `t = compose(m.inverse()).log()` -/
def lminus (dbg : Bool) (X Y : G) (wa wb : Bool) : Except Err (Out2 T J) := do
  let yi ← o.inverse dbg Y
  let c ← o.compose dbg X yi
  let t := o.log c
  if wa then
    let ja := o.jmul (o.rjacinv t) (o.adj Y)
    let jb := if wb then some (o.jneg ja) else none
    pure ⟨t, some ja, jb⟩
  else if wb then
    pure ⟨t, none, some (o.jneg (o.jmul (o.rjacinv t) (o.adj Y)))⟩
  else pure ⟨t, none, none⟩

/-- `LieGroupBase::between`: `mc = inverse().compose(m)`; `J_mc_ma = -(mc.inverse().adj())` -/
def between (dbg : Bool) (X Y : G) (wa wb : Bool) : Except Err (Out2 G J) := do
  let xi ← o.inverse dbg X
  let mc ← o.compose dbg xi Y
  let ja ← if wa then do
      let mi ← o.inverse dbg mc
      pure (some (o.jneg (o.adj mi)))
    else pure none
  let jb := if wb then some o.jone else none
  pure ⟨mc, ja, jb⟩

/-- `compose` with its mask, as the public member. -/
def composeM (dbg : Bool) (X Y : G) (wa wb : Bool) : Except Err (Out2 G J) := do
  let ja ← if wa then (o.composeJa dbg X Y).map some else pure none
  let jb := if wb then some (o.composeJb X Y) else none
  let r ← o.compose dbg X Y
  pure ⟨r, ja, jb⟩

end GroupOps
end Manif
