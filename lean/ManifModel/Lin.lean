/-
  Lin.lean — small fixed-size vectors / matrices and the Eigen 3.4 kernels manif calls.

  Every reduction follows the order Eigen's *non-vectorised, completely unrolled* redux uses
  (`redux_novec_unroller`: split the range in halves, left half first), which is what the
  correspondence harness is compiled for (`-DEIGEN_DONT_VECTORIZE`), so that the `Float`
  instance is a bit-level twin of the C++:
      2 terms: a+b        3 terms: a+(b+c)       4 terms: (a+b)+(c+d)
  These kernels are *modelled, not verified* (trusted base); the correspondence check
  validates them against the real Eigen on every run.
-/
import ManifModel.Scalar

namespace Manif
open Scalar

/-- Eigen's unrolled sum of three terms. -/
@[reducible] def sum3 {K} [Add K] (a b c : K) : K := a + (b + c)
/-- Eigen's unrolled sum of four terms. -/
@[reducible] def sum4 {K} [Add K] (a b c d : K) : K := (a + b) + (c + d)

structure V2 (K : Type) where
  x : K
  y : K
  deriving Repr, Inhabited

structure V3 (K : Type) where
  x : K
  y : K
  z : K
  deriving Repr, Inhabited

/-- Eigen quaternion, coefficient order `x y z w`. -/
structure Quat (K : Type) where
  x : K
  y : K
  z : K
  w : K
  deriving Repr, Inhabited

structure M2 (K : Type) where
  a00 : K
  a01 : K
  a10 : K
  a11 : K
  deriving Repr, Inhabited

structure M3 (K : Type) where
  a00 : K
  a01 : K
  a02 : K
  a10 : K
  a11 : K
  a12 : K
  a20 : K
  a21 : K
  a22 : K
  deriving Repr, Inhabited

variable {K : Type} [Scalar K]

/-! ### V2 -/
namespace V2
def add (a b : V2 K) : V2 K := ⟨a.x + b.x, a.y + b.y⟩
def sub (a b : V2 K) : V2 K := ⟨a.x - b.x, a.y - b.y⟩
def neg (a : V2 K) : V2 K := ⟨-a.x, -a.y⟩
def smul (s : K) (a : V2 K) : V2 K := ⟨s * a.x, s * a.y⟩
def sqNorm (a : V2 K) : K := a.x * a.x + a.y * a.y
def norm (a : V2 K) : K := Scalar.sqrt a.sqNorm
/-- `MatrixBase::normalize()` / `normalized()`. -/
def normalized (a : V2 K) : V2 K :=
  let z := a.sqNorm
  if Scalar.gt z (nat 0) then
    let n := Scalar.sqrt z
    ⟨a.x / n, a.y / n⟩
  else a
def toList (a : V2 K) : List K := [a.x, a.y]
end V2

/-! ### V3 -/
namespace V3
def zero : V3 K := ⟨nat 0, nat 0, nat 0⟩
def add (a b : V3 K) : V3 K := ⟨a.x + b.x, a.y + b.y, a.z + b.z⟩
def sub (a b : V3 K) : V3 K := ⟨a.x - b.x, a.y - b.y, a.z - b.z⟩
def neg (a : V3 K) : V3 K := ⟨-a.x, -a.y, -a.z⟩
/-- `v * s` / `s * v` (coefficient-wise; multiplication order irrelevant for values). -/
def smul (s : K) (a : V3 K) : V3 K := ⟨s * a.x, s * a.y, s * a.z⟩
/-- `v * s` with the scalar on the right, as `coeffs().head<3>() * log_coeff`. -/
def muls (a : V3 K) (s : K) : V3 K := ⟨a.x * s, a.y * s, a.z * s⟩
def divs (a : V3 K) (s : K) : V3 K := ⟨a.x / s, a.y / s, a.z / s⟩
def dot (a b : V3 K) : K := sum3 (a.x * b.x) (a.y * b.y) (a.z * b.z)
def sqNorm (a : V3 K) : K := sum3 (a.x * a.x) (a.y * a.y) (a.z * a.z)
def norm (a : V3 K) : K := Scalar.sqrt a.sqNorm
def normalized (a : V3 K) : V3 K :=
  let z := a.sqNorm
  if Scalar.gt z (nat 0) then a.divs (Scalar.sqrt z) else a
def toList (a : V3 K) : List K := [a.x, a.y, a.z]
end V3

/-! ### M2 -/
namespace M2
def one : M2 K := ⟨nat 1, nat 0, nat 0, nat 1⟩
def mulVec (m : M2 K) (v : V2 K) : V2 K :=
  ⟨m.a00 * v.x + m.a01 * v.y, m.a10 * v.x + m.a11 * v.y⟩
def mul (a b : M2 K) : M2 K :=
  ⟨a.a00 * b.a00 + a.a01 * b.a10, a.a00 * b.a01 + a.a01 * b.a11,
   a.a10 * b.a00 + a.a11 * b.a10, a.a10 * b.a01 + a.a11 * b.a11⟩
/-- `skew(Scalar v)` (2×2). -/
def skew (v : K) : M2 K := ⟨nat 0, -v, v, nat 0⟩
def toList (m : M2 K) : List K := [m.a00, m.a01, m.a10, m.a11]
end M2

/-! ### M3 -/
namespace M3
def zero : M3 K := ⟨nat 0, nat 0, nat 0, nat 0, nat 0, nat 0, nat 0, nat 0, nat 0⟩
def one : M3 K := ⟨nat 1, nat 0, nat 0, nat 0, nat 1, nat 0, nat 0, nat 0, nat 1⟩
def map (f : K → K) (m : M3 K) : M3 K :=
  ⟨f m.a00, f m.a01, f m.a02, f m.a10, f m.a11, f m.a12, f m.a20, f m.a21, f m.a22⟩
def zip (f : K → K → K) (a b : M3 K) : M3 K :=
  ⟨f a.a00 b.a00, f a.a01 b.a01, f a.a02 b.a02,
   f a.a10 b.a10, f a.a11 b.a11, f a.a12 b.a12,
   f a.a20 b.a20, f a.a21 b.a21, f a.a22 b.a22⟩
def add (a b : M3 K) : M3 K := zip (· + ·) a b
def sub (a b : M3 K) : M3 K := zip (· - ·) a b
def neg (a : M3 K) : M3 K := map (fun x => -x) a
/-- `s * M`. -/
def smul (s : K) (a : M3 K) : M3 K := map (fun x => s * x) a
def transpose (m : M3 K) : M3 K :=
  ⟨m.a00, m.a10, m.a20, m.a01, m.a11, m.a21, m.a02, m.a12, m.a22⟩
/-- fixed-size (coefficient-based, lazy) product: each entry is `row·col` reduced as `sum3`. -/
def mul (a b : M3 K) : M3 K :=
  ⟨sum3 (a.a00 * b.a00) (a.a01 * b.a10) (a.a02 * b.a20),
   sum3 (a.a00 * b.a01) (a.a01 * b.a11) (a.a02 * b.a21),
   sum3 (a.a00 * b.a02) (a.a01 * b.a12) (a.a02 * b.a22),
   sum3 (a.a10 * b.a00) (a.a11 * b.a10) (a.a12 * b.a20),
   sum3 (a.a10 * b.a01) (a.a11 * b.a11) (a.a12 * b.a21),
   sum3 (a.a10 * b.a02) (a.a11 * b.a12) (a.a12 * b.a22),
   sum3 (a.a20 * b.a00) (a.a21 * b.a10) (a.a22 * b.a20),
   sum3 (a.a20 * b.a01) (a.a21 * b.a11) (a.a22 * b.a21),
   sum3 (a.a20 * b.a02) (a.a21 * b.a12) (a.a22 * b.a22)⟩
def mulVec (m : M3 K) (v : V3 K) : V3 K :=
  ⟨sum3 (m.a00 * v.x) (m.a01 * v.y) (m.a02 * v.z),
   sum3 (m.a10 * v.x) (m.a11 * v.y) (m.a12 * v.z),
   sum3 (m.a20 * v.x) (m.a21 * v.y) (m.a22 * v.z)⟩
/-- `skew(v)` for a 3-vector, as written in `manif/impl/eigen.h`. -/
def skew (v : V3 K) : M3 K :=
  ⟨nat 0, -v.z, v.y,
   v.z, nat 0, -v.x,
   -v.y, v.x, nat 0⟩
def toList (m : M3 K) : List K :=
  [m.a00, m.a01, m.a02, m.a10, m.a11, m.a12, m.a20, m.a21, m.a22]
def row0 (m : M3 K) : List K := [m.a00, m.a01, m.a02]
def row1 (m : M3 K) : List K := [m.a10, m.a11, m.a12]
def row2 (m : M3 K) : List K := [m.a20, m.a21, m.a22]
def trace (m : M3 K) : K := sum3 m.a00 m.a11 m.a22
end M3

/-! ### Quaternion kernels (Eigen/src/Geometry/Quaternion.h, generic scalar path) -/
namespace Quat
def vec (q : Quat K) : V3 K := ⟨q.x, q.y, q.z⟩
def sqNorm (q : Quat K) : K := sum4 (q.x * q.x) (q.y * q.y) (q.z * q.z) (q.w * q.w)
def norm (q : Quat K) : K := Scalar.sqrt q.sqNorm
def conj (q : Quat K) : Quat K := ⟨-q.x, -q.y, -q.z, q.w⟩
/-- `quat_product<Arch,…>::run`, generic (non-SIMD) version. -/
def mul (a b : Quat K) : Quat K :=
  { w := a.w * b.w - a.x * b.x - a.y * b.y - a.z * b.z
    x := a.w * b.x + a.x * b.w + a.y * b.z - a.z * b.y
    y := a.w * b.y + a.y * b.w + a.z * b.x - a.x * b.z
    z := a.w * b.z + a.z * b.w + a.x * b.y - a.y * b.x }
def scale (q : Quat K) (s : K) : Quat K := ⟨q.x * s, q.y * s, q.z * s, q.w * s⟩
/-- `coeffs().normalized()` on the 4-vector. -/
def normalized (q : Quat K) : Quat K :=
  let z := q.sqNorm
  if Scalar.gt z (nat 0) then
    let n := Scalar.sqrt z
    ⟨q.x / n, q.y / n, q.z / n, q.w / n⟩
  else q
/-- `QuaternionBase::toRotationMatrix`. -/
def toRot (q : Quat K) : M3 K :=
  let tx := nat 2 * q.x
  let ty := nat 2 * q.y
  let tz := nat 2 * q.z
  let twx := tx * q.w
  let twy := ty * q.w
  let twz := tz * q.w
  let txx := tx * q.x
  let txy := ty * q.x
  let txz := tz * q.x
  let tyy := ty * q.y
  let tyz := tz * q.y
  let tzz := tz * q.z
  ⟨nat 1 - (tyy + tzz), txy - twz, txz + twy,
   txy + twz, nat 1 - (txx + tzz), tyz - twx,
   txz - twy, tyz + twx, nat 1 - (txx + tyy)⟩
/-- `Quaternion(AngleAxis(angle, axis))`. -/
def ofAngleAxis (angle : K) (axis : V3 K) : Quat K :=
  let ha := rat 1 2 * angle
  let s := Scalar.sin ha
  ⟨s * axis.x, s * axis.y, s * axis.z, Scalar.cos ha⟩
def toList (q : Quat K) : List K := [q.x, q.y, q.z, q.w]

/-- `Quaternion(rotation matrix)`: `quaternionbase_assign_impl<…,3,3>::run` (Eigen 3.4). -/
def ofRot (m : M3 K) : Quat K :=
  let t := m.trace
  if Scalar.gt t (nat 0) then
    let t := Scalar.sqrt (t + nat 1)
    let w := rat 1 2 * t
    let t := rat 1 2 / t
    ⟨(m.a21 - m.a12) * t, (m.a02 - m.a20) * t, (m.a10 - m.a01) * t, w⟩
  else
    -- i = argmax of the diagonal (first maximum wins as in the source)
    let i : Nat := if Scalar.gt m.a11 m.a00 then 1 else 0
    let dii : K := if i = 1 then m.a11 else m.a00
    let i : Nat := if Scalar.gt m.a22 dii then 2 else i
    let g (r c : Nat) : K :=
      match r, c with
      | 0, 0 => m.a00 | 0, 1 => m.a01 | 0, 2 => m.a02
      | 1, 0 => m.a10 | 1, 1 => m.a11 | 1, 2 => m.a12
      | 2, 0 => m.a20 | 2, 1 => m.a21 | _, _ => m.a22
    let j := (i + 1) % 3
    let k := (j + 1) % 3
    let t := Scalar.sqrt (g i i - g j j - g k k + nat 1)
    let ci := rat 1 2 * t
    let t := rat 1 2 / t
    let w := (g k j - g j k) * t
    let cj := (g j i + g i j) * t
    let ck := (g k i + g i k) * t
    let comp (n : Nat) : K := if n = i then ci else if n = j then cj else ck
    ⟨comp 0, comp 1, comp 2, w⟩
end Quat

end Manif
