/-
  Cast.lean — `X.cast<NewScalar>()` between two scalar instances (impl/cast.h and the per-group
  `CastEvaluatorImpl` specialisations).  `conv` is the scalar conversion (`(float)x` / `(double)x`).
  SO2/SE2 go through the angle; the quaternion groups convert the coefficients and re-normalise
  the quaternion in the *new* scalar before the validating constructor runs; Rn (and Bundle, which
  has no specialisation) convert coefficient by coefficient.
-/
import ManifModel.Bundle
namespace Manif
open Scalar
variable {K K' : Type} [Scalar K] [Scalar K']

def Quat.conv (conv : K → K') (q : Quat K) : Quat K' := ⟨conv q.x, conv q.y, conv q.z, conv q.w⟩
def V3.conv (conv : K → K') (v : V3 K) : V3 K' := ⟨conv v.x, conv v.y, conv v.z⟩

def runCast (conv : K → K') (grp : String) (dbg : Bool) (a : List K) : Option (Except Err (List K')) :=
  match grp, a with
  | "SO2", [re, im] =>
    some ((SO2.ofAngle dbg (conv (Scalar.atan2 im re))).map SO2.toList)
  | "SE2", [x, y, re, im] =>
    some ((SE2.ofXYAngle dbg (conv x) (conv y) (conv (Scalar.atan2 im re))).map SE2.toList)
  | "SO3", [x, y, z, w] =>
    some ((SO3.make dbg (Quat.conv conv ⟨x, y, z, w⟩).normalized).map SO3.toList)
  | "SE3", [tx, ty, tz, x, y, z, w] =>
    some ((SE3.make dbg (V3.conv conv ⟨tx, ty, tz⟩) (Quat.conv conv ⟨x, y, z, w⟩).normalized).map SE3.toList)
  | "SE_2_3", [tx, ty, tz, x, y, z, w, vx, vy, vz] =>
    some ((SE23.make dbg (V3.conv conv ⟨tx, ty, tz⟩) (Quat.conv conv ⟨x, y, z, w⟩).normalized
      (V3.conv conv ⟨vx, vy, vz⟩)).map SE23.toList)
  | "SGal3", [tx, ty, tz, x, y, z, w, vx, vy, vz, t] =>
    some ((SGal3.make dbg (V3.conv conv ⟨tx, ty, tz⟩) (Quat.conv conv ⟨x, y, z, w⟩).normalized
      (V3.conv conv ⟨vx, vy, vz⟩) (conv t)).map SGal3.toList)
  | g, a =>
    if g.startsWith "R" ∧ (g.drop 1).toString.toNat? = some a.length then some (.ok (a.map conv)) else none

end Manif
