/-
  Interp.lean — include/manif/algorithms/interpolation.h, written over a record of primitives.
  `MANIF_CHECK(cond, msg)` (two arguments) raises `manif::runtime_error`; `smoothing_phi` raises
  `std::logic_error` for an unsupported degree.
-/
import ManifModel.Base
namespace Manif
open Scalar
variable {K G T J : Type} [Scalar K]

/-- `smoothing_phi(t, degree)` -/
def smoothingPhi (t : K) (degree : Nat) : Except Err K :=
  let t2 := t * t
  let t3 := t2 * t
  let t4 := t3 * t
  let t5 := t4 * t
  let t6 := t5 * t
  let t7 := t6 * t
  let t8 := t7 * t
  let t9 := t8 * t
  if degree = 1 then .ok (nat 3 * t2 - nat 2 * t3)
  else if degree = 2 then .ok (nat 10 * t3 - nat 15 * t4 + nat 6 * t5)
  else if degree = 3 then .ok (nat 35 * t4 - nat 84 * t5 + nat 70 * t6 - nat 20 * t7)
  else if degree = 4 then .ok (nat 126 * t5 - nat 420 * t6 + nat 540 * t7 - nat 315 * t8 + nat 70 * t9)
  else .error .logic_error

/-- `t >= 0 && t <= 1` (false on NaN) -/
def inUnit (t : K) : Bool := Scalar.le (nat 0) t && Scalar.le t (nat 1)

namespace GroupOps
variable (o : GroupOps K G T J)

def rplusV (dbg : Bool) (X : G) (t : T) : Except Err G := (o.rplus dbg X t false false).map (·.val)
def lplusV (dbg : Bool) (X : G) (t : T) : Except Err G := (o.lplus dbg X t false false).map (·.val)
def rminusV (dbg : Bool) (X Y : G) : Except Err T := (o.rminus dbg X Y false false).map (·.val)
def lminusV (dbg : Bool) (X Y : G) : Except Err T := (o.lminus dbg X Y false false).map (·.val)

/-- `interpolate_slerp`: `ma.rplus( mb.rminus(ma) * t )` -/
def interpSlerp (dbg : Bool) (ma mb : G) (t : K) : Except Err G := do
  if !(inUnit t) then throw .runtime_error
  let d ← o.rminusV dbg mb ma
  o.rplusV dbg ma (o.tscale d t)

/-- `interpolate_cubic` (Hermite weights `h00 … h11`) -/
def interpCubic (dbg : Bool) (ma mb : G) (t : K) (ta tb : T) : Except Err G := do
  if !(inUnit t) then throw .runtime_error
  let t2 := t * t
  let t3 := t2 * t
  let tab ← o.rminusV dbg mb ma
  let h00 := nat 2 * t3 - nat 3 * t2 + nat 1
  let h01 := -(nat 2) * t3 + nat 3 * t2
  let h10 := t3 - nat 2 * t2 + t
  let h11 := t3 - t2
  let l0 ← o.rplusV dbg ma (o.tscale tab h01)
  let l ← o.rplusV dbg l0 (o.tscale ta h10)
  let r0 ← o.rplusV dbg mb (o.tscale tab (-h00))
  let r ← o.rplusV dbg r0 (o.tscale tb h11)
  let B ← o.rminusV dbg l r
  o.rplusV dbg r B

/-- `interpolate_smooth(ma, mb, t, m, ta, tb)` -/
def interpSmooth (dbg : Bool) (ma mb : G) (t : K) (m : Nat) (ta tb : T) : Except Err G := do
  if m < 1 then throw .runtime_error
  if !(inUnit t) then throw .runtime_error
  let phi ← smoothingPhi t m
  let r ← o.rplusV dbg mb (o.tscale tb (t - nat 1))
  let l ← o.rplusV dbg ma (o.tscale ta t)
  let B ← o.lminusV dbg r l
  o.lplusV dbg l (o.tscale B phi)

end GroupOps
end Manif
