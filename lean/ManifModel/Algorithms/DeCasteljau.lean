/-
  DeCasteljau.lean — include/manif/algorithms/decasteljau.h.
  The index arithmetic is modelled on `Nat` with the source's `unsigned` subtractions made
  explicit: a subtraction that would wrap is the outcome `.error .bad_op` ("unsigned wrap": the
  C++ would loop ~2³² times and read past the input) — `windows_no_wrap` (proofs) shows it is
  unreachable.
-/
import ManifModel.Algorithms.Interp
namespace Manif
open Scalar

/-- checked `a - b` on `unsigned` -/
def usub (a b : Nat) : Except Err Nat := if b ≤ a then .ok (a - b) else .error .bad_op

/-- the control-point index windows: `n_segments` windows of `d` consecutive indices starting
    `d-1` apart, plus the wrapping window when `closed`. -/
def dcWindows (N d : Nat) (closed : Bool) : Except Err (List (List Nat)) := do
  if !(N > 2) then throw .runtime_error
  if !(d ≤ N) then throw .runtime_error
  -- n_segments = floor(double(N - d) / double(d - 1) + 1)
  let nseg := (N - d) / (d - 1) + 1
  let segs := (List.range nseg).map fun t => (List.range d).map fun n => t * (d - 1) + n
  if closed && decide (nseg * (d - 1) ≤ N - 1) then
    let last := nseg * (d - 1)
    let left ← usub (N - 1) last
    let cnt ← usub d left
    let cnt ← usub cnt 1
    let w := (List.range (N - last)).map (· + last) ++ List.range cnt
    pure (segs ++ [w])
  else pure segs

/-- `segment_k_interp` -/
def dcSegK (d k : Nat) : Nat := if d = 2 then k else k * d

variable {K G T J : Type} [Scalar K]

/-- one reduction sweep: `Qs_tmp[q] = Qs[q].rplus(Qs[q+1].rminus(Qs[q]) * t_01)` -/
def dcSweep (o : GroupOps K G T J) (dbg : Bool) (t01 : K) : List G → Except Err (List G)
  | a :: b :: rest => do
      let d ← o.rminusV dbg b a
      let q ← o.rplusV dbg a (o.tscale d t01)
      let tl ← dcSweep o dbg t01 (b :: rest)
      pure (q :: tl)
  | _ => pure []

def dcReduce (o : GroupOps K G T J) (dbg : Bool) (t01 : K) : Nat → List G → Except Err (List G)
  | 0, qs => pure qs
  | n + 1, qs => do
      let qs' ← dcSweep o dbg t01 qs
      dcReduce o dbg t01 n qs'

/-- `decasteljau(trajectory, degree, k_interp, closed_curve)`; `ofNatK` converts the loop counters
    (`static_cast<double>(t)/(segment_k_interp)`). -/
def decasteljau (o : GroupOps K G T J) (dbg : Bool) (traj : List G) (d k : Nat) (closed : Bool) :
    Except Err (List G) := do
  let N := traj.length
  if !(N > 2) then throw .runtime_error
  if !(d ≤ N) then throw .runtime_error
  if !(k > 0) then throw .runtime_error
  let wins ← dcWindows N d closed
  let segK := dcSegK d k
  let mut curve : List G := []
  for w in wins do
    for t in List.range segK do
      let t01 : K := Scalar.ofNat (t + 1) / Scalar.ofNat segK
      let qs := w.filterMap fun i => traj[i]?
      if qs.length ≠ w.length then throw .bad_op       -- out-of-bounds read
      let r ← dcReduce o dbg t01 (d - 1) qs
      match r with
      | q :: _ => curve := curve ++ [q]
      | [] => throw .bad_op
  pure curve

end Manif
