/-
  Average.lean — include/manif/algorithms/average.h: the four averaging loops, with their
  different stopping rules, transcribed over a record of primitives.  The iteration cap is the
  fuel of the recursion (it *is* bounded in the source).
-/
import ManifModel.Algorithms.Interp
namespace Manif
open Scalar
variable {K G T J : Type} [Scalar K]

namespace GroupOps
variable (o : GroupOps K G T J)

/-- `average_biinvariant(points, eps, max_iterations)` -/
def averageBiinvariant (dbg : Bool) (pts : List G) (eps : K) (maxIt : Nat) : Except Err G :=
  match pts with
  | [] => .error .runtime_error
  | [p] => .ok p
  | p :: _ =>
    let w : K := nat 1 / Scalar.ofNat pts.length
    let rec loop : Nat → G → Except Err G
      | 0, avg => pure avg
      | n + 1, avg => do
        let mut ts := o.tzero
        for x in pts do
          let d ← o.rminusV dbg x avg
          ts := o.tadd ts d
        ts := o.tscale ts w
        if Scalar.lt (o.tsqnorm ts) eps then pure avg
        else
          let avg' ← o.rplusV dbg avg ts
          loop n avg'
    loop maxIt p

/-- `average(points, eps, max_iterations)` (weighted by `G = Jrᵀ Jr`) -/
def averageWeighted (dbg : Bool) (pts : List G) (maxIt : Nat) : Except Err G :=
  match pts with
  | [] => .error .runtime_error
  | [p] => .ok p
  | p :: _ =>
    let w : K := nat 1 / Scalar.ofNat pts.length
    let rec loop : Nat → G → Except Err G
      | 0, avg => pure avg
      | n + 1, avg => do
        let mut ts := o.tzero
        for x in pts do
          let b ← o.between dbg avg x false false
          let tmp := o.log b.val
          let Jr := o.rjac tmp
          let Gm := o.jmul (o.jtr Jr) Jr
          ts := o.tadd ts (o.jmulT Gm tmp)
        ts := o.tscale ts w
        let G2 := o.jmul (o.jtr (o.rjac ts)) (o.rjac ts)
        -- `(ts^T * G) * ts`: row vector times matrix first, then the inner product
        let nn := o.tdot (o.jmulT (o.jtr G2) ts) ts
        if Scalar.lt nn Scalar.eps then pure avg
        else
          let avg' ← o.rplusV dbg avg ts
          loop n avg'
    loop maxIt p

/-- `average_frechet_left` -/
def averageFrechetLeft (dbg : Bool) (pts : List G) (eps : K) (maxIt : Nat) : Except Err G :=
  match pts with
  | [] => .error .runtime_error
  | [p] => .ok p
  | p :: _ =>
    let w : K := nat 1 / Scalar.ofNat pts.length
    let rec loop : Nat → G → Except Err G
      | 0, avg => pure avg
      | n + 1, avg0 => do
        let mut ts := o.tzero
        let l0 := o.log avg0
        for x in pts do
          let tmp ← o.rminusV dbg x avg0
          let Jl := o.ljac l0
          ts := o.tadd ts (o.tscale (o.jmulT Jl tmp) w)
        let avg ← o.rplusV dbg avg0 (o.jmulT (o.ljacinv l0) ts)
        let d ← o.rminusV dbg avg avg0
        let tmp := o.jmulT (o.ljac l0) d
        if Scalar.lt (o.tsqnorm tmp) eps then pure avg
        else loop n avg
    loop maxIt p

/-- `average_frechet_right` -/
def averageFrechetRight (dbg : Bool) (pts : List G) (eps : K) (maxIt : Nat) : Except Err G :=
  match pts with
  | [] => .error .runtime_error
  | [p] => .ok p
  | p :: _ =>
    let w : K := nat 1 / Scalar.ofNat pts.length
    let rec loop : Nat → G → Except Err G
      | 0, avg => pure avg
      | n + 1, avg0 => do
        let mut ts := o.tzero
        let l0 := o.log avg0
        for x in pts do
          let tmp ← o.lminusV dbg x avg0
          let Jr := o.rjac l0
          ts := o.tadd ts (o.tscale (o.jmulT Jr tmp) w)
        let avg ← o.lplusV dbg avg0 (o.jmulT (o.rjacinv l0) ts)
        let d ← o.lminusV dbg avg avg0
        let tmp := o.jmulT (o.rjac l0) d
        if Scalar.lt (o.tsqnorm tmp) eps then pure avg
        else loop n avg
    loop maxIt p

end GroupOps
end Manif
