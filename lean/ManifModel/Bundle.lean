/-
  Bundle.lean — include/manif/impl/bundle/{Bundle_base.h, BundleTangent_base.h, Bundle.h}.
  A bundle is a list of element groups; its coefficient vector, tangent, point, homogeneous
  matrix and algebra matrix are sliced with the prefix-sum tables `compute_indices<...>()`
  (RepSizeIdx, DoFIdx, DimIdx, TraIdx, AlgIdx) and every member applies the element's member on
  its slice and places the result at the element's offset (Jacobians: diagonal blocks of an
  otherwise zero matrix).  Elements are run through their own flat models (`runCanonical`), so
  this file contains index arithmetic only.
-/
import ManifModel.Flat
namespace Manif
open Scalar

/-- `compute_indices_gen<N, i, j, Args...>::get()` (traits.h): the pack holds the sizes still to
    be consumed followed by the offsets produced so far; each step consumes the first size `j`,
    appends `i+j`; with one size left the result is `{0, Args...}`. -/
def computeIndicesGen : Nat → List Nat → List Nat → List Nat
  | _, [], outs => 0 :: outs
  | _, [_last], outs => 0 :: outs
  | i, j :: rest, outs => computeIndicesGen (i + j) rest (outs ++ [i + j])

/-- `compute_indices<Args...>()` -/
def computeIndices (sizes : List Nat) : List Nat :=
  match sizes with
  | [] => []
  | _ => computeIndicesGen 0 sizes []

/-- per element: RepSize, DoF, Dim, Transformation rows, LieAlg rows -/
structure ElemSizes where
  rep : Nat
  dof : Nat
  dim : Nat
  tra : Nat
  alg : Nat

def elemSizes (name : String) : ElemSizes :=
  match name with
  | "SO2" => ⟨2, 1, 2, 3, 2⟩
  | "SE2" => ⟨4, 3, 2, 3, 3⟩
  | "SO3" => ⟨4, 3, 3, 4, 3⟩
  | "SE3" => ⟨7, 6, 3, 4, 4⟩
  | "SE_2_3" => ⟨10, 9, 3, 5, 5⟩
  | "SGal3" => ⟨11, 10, 3, 5, 5⟩
  | "R1" => ⟨1, 1, 1, 2, 2⟩
  | "R2" => ⟨2, 2, 2, 3, 3⟩
  | "R3" => ⟨3, 3, 3, 4, 4⟩
  | "R5" => ⟨5, 5, 5, 6, 6⟩
  | _ => ⟨0, 0, 0, 0, 0⟩

variable {K : Type} [Scalar K]

/-- slice `l` into consecutive pieces of the given sizes (offsets = `computeIndices sizes`) -/
def slices (sizes : List Nat) (l : List K) : List (List K) :=
  List.zipWith (fun off sz => (l.drop off).take sz) (computeIndices sizes) sizes

/-- place square blocks (row-major, sizes `bs`) on the diagonal of an `n×n` zero matrix, row-major -/
def blockDiag (bs : List Nat) (blocks : List (List K)) : List (List K) :=
  let n := bs.foldl (· + ·) 0
  let offs := computeIndices bs
  (List.range n).map fun i => (List.range n).map fun j =>
    -- which block contains (i,j)?
    let hit := (List.zip (List.zip offs bs) blocks).find? fun ((o, b), _) =>
      decide (o ≤ i ∧ i < o + b ∧ o ≤ j ∧ j < o + b)
    match hit with
    | some ((o, b), blk) => blk.getD ((i - o) * b + (j - o)) (nat 0)
    | none => nat 0

/-- rectangular blocks `rows_k × cols_k` placed at (rowOff_k, colOff_k) in a zero `R × C` matrix -/
def blockPlace (rs cs : List Nat) (blocks : List (List K)) : List K :=
  let R := rs.foldl (· + ·) 0
  let C := cs.foldl (· + ·) 0
  let ro := computeIndices rs
  let co := computeIndices cs
  (List.range R).flatMap fun i => (List.range C).map fun j =>
    let hit := (List.zip (List.zip (List.zip ro rs) (List.zip co cs)) blocks).find? fun (((o, b), (p, c)), _) =>
      decide (o ≤ i ∧ i < o + b ∧ p ≤ j ∧ j < p + c)
    match hit with
    | some (((o, _), (p, c)), blk) => blk.getD ((i - o) * c + (j - p)) (nat 0)
    | none => nat 0

/-- run one element's flat operation -/
def elemRun (name : String) (dbg : Bool) (op : String) (mask : Nat) (args : List K) (ints : List Int := []) :
    Except Err (List K) :=
  match runCanonical name dbg op mask args ints with
  | some r => r
  | none => .error .bad_op

/-- all elements in order; stops at the first exception (left-to-right pack expansion) -/
def mapElems (names : List String) (f : String → Nat → Except Err (List K)) : Except Err (List (List K)) :=
  (List.zip names (List.range names.length)).mapM fun (nm, i) => f nm i

/-- the primitives of `Bundle<_, T...>` / `BundleTangent<_, T...>` as a record over flat lists. -/
def bundleOps (names : List String) : GroupOps K (List K) (List K) (List (List K)) :=
  let es := names.map elemSizes
  let reps := es.map (·.rep)
  let dofs := es.map (·.dof)
  let n := dofs.foldl (· + ·) 0
  let sl (sizes : List Nat) (l : List K) (i : Nat) : List K := (slices sizes l).getD i []
  let valJ (vs : Nat) (r : List K) : List K × List K := (r.take vs, r.drop vs)
  let unaryJ (op : String) (inSizes : List Nat) (outSize : ElemSizes → Nat) (x : List K) : List (List K) :=
    -- Jacobian of a unary member: diagonal blocks taken from the element's masked call
    let blocks := (List.zip names (List.range names.length)).map fun (nm, i) =>
      match elemRun (K := K) nm false op 1 (sl inSizes x i) with
      | .ok r => r.drop (outSize (elemSizes nm))
      | .error _ => []
    blockDiag dofs blocks
  let jacOnly (op : String) (x : List K) : List (List K) :=
    let blocks := (List.zip names (List.range names.length)).map fun (nm, i) =>
      match elemRun (K := K) nm false op 0 (sl dofs x i) with
      | .ok r => r
      | .error _ => []
    blockDiag dofs blocks
  { exp := fun dbg t => (mapElems names fun nm i => (elemRun nm dbg "exp" 0 (sl dofs t i))).map List.flatten
    expJ := fun t => unaryJ "exp" dofs (·.rep) t
    log := fun X => ((List.zip names (List.range names.length)).map fun (nm, i) =>
      match elemRun (K := K) nm false "log" 0 (sl reps X i) with
      | .ok r => r
      | .error _ => []).flatten
    logJ := fun X => unaryJ "log" reps (·.dof) X
    compose := fun dbg X Y => (mapElems names fun nm i =>
      elemRun nm dbg "compose" 0 (sl reps X i ++ sl reps Y i)).map List.flatten
    composeJa := fun dbg X Y => (mapElems names fun nm i =>
      (elemRun nm dbg "compose" 1 (sl reps X i ++ sl reps Y i)).map fun r => r.drop (elemSizes nm).rep).map
        fun blocks => blockDiag dofs blocks
    composeJb := fun X Y => blockDiag dofs ((List.zip names (List.range names.length)).map fun (nm, i) =>
      match elemRun (K := K) nm false "compose" 2 (sl reps X i ++ sl reps Y i) with
      | .ok r => r.drop (elemSizes nm).rep
      | .error _ => [])
    inverse := fun dbg X => (mapElems names fun nm i => elemRun nm dbg "inverse" 0 (sl reps X i)).map List.flatten
    inverseJ := fun X => unaryJ "inverse" reps (·.rep) X
    adj := fun X => blockDiag dofs ((List.zip names (List.range names.length)).map fun (nm, i) =>
      match elemRun (K := K) nm false "adj" 0 (sl reps X i) with
      | .ok r => r
      | .error _ => [])
    rjac := jacOnly "rjac"
    ljac := jacOnly "ljac"
    rjacinv := jacOnly "rjacinv"
    ljacinv := jacOnly "ljacinv"
    smallAdj := jacOnly "smallAdj"
    tneg := fun t => t.map fun x => -x
    jmul := fun a b => a.map fun row => (List.range n).map fun j => dotTree row (b.map fun r => r.getD j (nat 0))
    jneg := fun a => a.map fun r => r.map fun x => -x
    jone := Rn.identRows n
    tzero := (List.range n).map fun _ => nat 0
    tadd := Rn.zipAdd
    tsub := fun a b => List.zipWith (· - ·) a b
    tscale := fun a k => a.map fun x => x * k
    tsqnorm := fun a => treeSum (n + 1) (a.map fun x => x * x)
    tdot := dotTree
    jmulT := fun j t => j.map fun row => dotTree row t
    jtr := fun a => (List.range n).map fun j => a.map fun r => r.getD j (nat 0) }

def bundleCodec (names : List String) : Codec K (List K) (List K) (List (List K)) :=
  let es := names.map elemSizes
  let rep := (es.map (·.rep)).foldl (· + ·) 0
  let dof := (es.map (·.dof)).foldl (· + ·) 0
  { rep := rep, dof := dof
    gOf := fun l => if l.length == rep then some l else none
    gTo := id
    tOf := fun l => if l.length == dof then some l else none
    tTo := id
    jTo := List.flatten }

/-- bundle-specific members: act, transform, hat, vee, generators, inner weights, element views -/
def runBundle (names : List String) (dbg : Bool) (op : String) (mask : Nat) (args : List K) (ints : List Int) :
    Option (Except Err (List K)) :=
  let es := names.map elemSizes
  let reps := es.map (·.rep)
  let dofs := es.map (·.dof)
  let dims := es.map (·.dim)
  let tras := es.map (·.tra)
  let algs := es.map (·.alg)
  let rep := reps.foldl (· + ·) 0
  let dof := dofs.foldl (· + ·) 0
  let dim := dims.foldl (· + ·) 0
  let w0 := mask % 2 == 1
  let w1 := (mask / 2) % 2 == 1
  let idx := List.zip names (List.range names.length)
  let sl (sizes : List Nat) (l : List K) (i : Nat) : List K := (slices sizes l).getD i []
  match op with
  | "act" =>
    if args.length != rep + dim then none else
    let X := args.take rep
    let v := args.drop rep
    let rs := idx.map fun (nm, i) => elemRun (K := K) nm dbg "act" 3 (sl reps X i ++ sl dims v i)
    match rs.mapM id with
    | .error e => some (.error e)
    | .ok rs =>
      let parts := (List.zip es rs).map fun (e, r) =>
        (r.take e.dim, (r.drop e.dim).take (e.dim * e.dof), r.drop (e.dim + e.dim * e.dof))
      let val := (parts.map (·.1)).flatten
      let jm := blockPlace dims dofs (parts.map (·.2.1))
      let jv := blockPlace dims dims (parts.map (·.2.2))
      some (.ok (val ++ (if w0 then jm else []) ++ (if w1 then jv else [])))
  | "transform" =>
    if args.length != rep then none else
    let rs := idx.map fun (nm, i) => elemRun (K := K) nm dbg "transform" 0 (sl reps args i)
    match rs.mapM id with
    | .error e => some (.error e)
    | .ok rs => some (.ok (blockPlace tras tras rs))
  | "hat" =>
    if args.length != dof then none else
    let rs := idx.map fun (nm, i) => elemRun (K := K) nm dbg "hat" 0 (sl dofs args i)
    match rs.mapM id with
    | .error e => some (.error e)
    | .ok rs => some (.ok (blockPlace algs algs rs))
  | "vee" =>
    let A := algs.foldl (· + ·) 0
    if args.length != A * A then none else
    let ao := computeIndices algs
    let rs := (List.zip idx (List.zip ao algs)).map fun ((nm, _), (o, a)) =>
      let blk := (List.range a).flatMap fun r => (List.range a).map fun c => args.getD ((o + r) * A + (o + c)) (nat 0)
      elemRun (K := K) nm dbg "vee" 0 blk
    match rs.mapM id with
    | .error e => some (.error e)
    | .ok rs => some (.ok rs.flatten)
  | "generator" =>
    match ints with
    | [i] =>
      if !args.isEmpty then none else
      -- `MANIF_CHECK(i < DoF, …, invalid_argument)` on the `unsigned` index
      if i < 0 ∨ i ≥ dof then some (.error .invalid_argument) else
      let doo := computeIndices dofs
      let rs := (List.zip idx (List.zip doo es)).map fun ((nm, _), (o, e)) =>
        if (o : Int) ≤ i ∧ i < o + e.dof then elemRun (K := K) nm dbg "generator" 0 [] [i - o]
        else .ok ((List.range (e.alg * e.alg)).map fun _ => nat 0)
      match rs.mapM id with
      | .error e => some (.error e)
      | .ok rs => some (.ok (blockPlace algs algs rs))
    | _ => none
  | "innerWeights" =>
    if !args.isEmpty then none else
    -- generic `InnerWeightsEvaluator`: W(r,c) = trace(Generator(r) Generator(c)^T) of the bundle's
    -- generators = block diagonal of the elements' weights
    let rs := idx.map fun (nm, _) => elemRun (K := K) nm dbg "innerWeights" 0 []
    match rs.mapM id with
    | .error e => some (.error e)
    | .ok rs => some (.ok (blockDiag dofs rs).flatten)
  | "inner" | "sqwnorm" | "wnorm" =>
    -- `coeffs()^T * InnerWeights() * t.coeffs()` with the bundle's (block-diagonal) weights
    let rs := idx.map fun (nm, _) => elemRun (K := K) nm dbg "innerWeights" 0 []
    match rs.mapM id with
    | .error e => some (.error e)
    | .ok rs =>
      let W : List K := (blockDiag dofs rs).flatten
      let a := args.take dof
      let b := if op == "inner" then args.drop dof else a
      if (op == "inner" && args.length != 2 * dof) || (op != "inner" && args.length != dof) then none else
      let q := dotTree (vecMatFlat dof a W) b
      some (.ok [if op == "wnorm" then Scalar.sqrt q else q])
  | "element" =>
    match ints with
    | [i] => if args.length != rep ∨ i < 0 then none else some (.ok (sl reps args i.toNat))
    | _ => none
  | "make" => if args.length != rep then none else
      -- Bundle(const Eigen::MatrixBase&): AssignmentEvaluator of BundleBase is the default (no check)
      some (.ok args)
  | _ => runBase (bundleOps names) (bundleCodec names) dbg op mask args ints

/-- tangent arithmetic (`tangent_base.h` free operators), the same for every group: the vector
    space operations on the coefficients.  `t*a, a*t, t/a, -t, t+s, t-s, t+v, v+t, v-t`. -/
def tArith (dof : Nat) (args : List K) : Option (Except Err (List K)) :=
  if args.length != 2 * dof + 1 then none else
  let t := args.take dof
  let s := (args.drop dof).take dof
  let a := args.getD (2 * dof) (nat 0)
  some (.ok (t.map (· * a) ++ t.map (· * a) ++ t.map (· / a) ++ t.map (fun x => -x) ++
    List.zipWith (· + ·) t s ++ List.zipWith (· - ·) t s ++ List.zipWith (· + ·) t s ++
    List.zipWith (· + ·) s t ++ List.zipWith (· - ·) s t))

/-- top-level dispatch: `B:<elem>,<elem>,…` is `Bundle<double, elem…>`, anything else a plain group. -/
def runTop (grp : String) (dbg : Bool) (op : String) (mask : Nat) (args : List K) (ints : List Int) :
    Option (Except Err (List K)) :=
  if op == "phi" then runCanonical grp dbg op mask args ints      -- group independent
  else if op == "t_arith" then
    tArith (if grp.startsWith "B:" then (bundleCodec (K := K) ((grp.drop 2).toString.splitOn ",")).dof
            else (groupSizes grp).2) args
  else if grp.startsWith "B:" then
    let names := (grp.drop 2).toString.splitOn ","
    let c := bundleCodec (K := K) names
    withAliases (runBundle names dbg) c.rep c.dof op mask args ints
  else runGroup grp dbg op mask args ints

end Manif
