/-
  Utils.lean — manif/impl/utils.h
-/
import ManifModel.Scalar
namespace Manif
open Scalar
variable {K : Type} [Scalar K]

/-- `approxSqrtInv(x) = 15/8 - 5/4 x + 3/8 x x` (first-order Newton step towards 1/sqrt x at 1). -/
def approxSqrtInv (x : K) : K :=
  (nat 15 / nat 8) - (nat 5 / nat 4) * x + (nat 3 / nat 8) * x * x

end Manif

namespace Manif
open Scalar
variable {K : Type} [Scalar K]

/-- The `MANIF_ASSERT(abs(data.norm()-1) < eps, …, invalid_argument)` every group constructor
    taking raw coefficients runs (`AssignmentEvaluatorImpl`).  `dbg = false` is the `NDEBUG`
    build, where the assertion disappears. -/
def checkUnit (dbg : Bool) (norm : K) : Except Err Unit :=
  if dbg && !(Scalar.lt (Scalar.abs (norm - nat 1)) Scalar.eps) then .error .invalid_argument
  else .ok ()

end Manif
