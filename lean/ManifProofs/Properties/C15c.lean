/-
  C15 (continued) — SE2 SLERP end points as whole API calls, every ordered field with lawful sin/cos/atan2:
  `interpolate(A, B, 1) = B` and `interpolate(A, B, 0) = A`, exactly.
-/
import ManifProofs.Properties.C15b
set_option linter.all false
namespace Manif
variable {K : Type} [Field K] [LinearOrder K] [IsStrictOrderedRing K] [Transc K] [LawfulTransc K]
namespace SE2

theorem rminusV_ok (dbg : Bool) {X Y : SE2 K} (hX : Valid X) (hY : Valid Y) :
    se2Ops.rminusV dbg Y X = .ok (log (rel X Y)) := by
  have hXi : Valid (⟨-X.x * X.re - X.y * X.im, X.x * X.im - X.y * X.re, X.re, -X.im⟩ : SE2 K) := by
    unfold Valid at *; simpa using hX
  have hc1 := compose_ok dbg hXi hY
  simp only [GroupOps.rminusV, GroupOps.rminus, se2Ops, inverse_ok dbg hX, hc1, bind, Except.bind, pure, Except.pure,
    Except.map, rel]

/-- **SE2 slerp, `t = 1`**: `interpolate(A, B, 1) = B` exactly (non-degenerate `(A,B)` pair of the relative element). -/
theorem slerp_one (dbg : Bool) {A B : SE2 K} (hA : Valid A) (hB : Valid B)
    (hAB : (SE2T.coefAB (rel A B).angle (rel A B).re (rel A B).im).1 * (SE2T.coefAB (rel A B).angle (rel A B).re (rel A B).im).1 +
      (SE2T.coefAB (rel A B).angle (rel A B).re (rel A B).im).2 * (SE2T.coefAB (rel A B).angle (rel A B).re (rel A B).im).2 ≠ 0) :
    se2Ops.interpSlerp dbg A B 1 = .ok B := by
  have hu : inUnit (1 : K) = true := by simp [inUnit]
  have hZ : Valid (rel A B) := by
    unfold Valid rel at *
    simp only
    linear_combination (B.re * B.re + B.im * B.im) * hA + hB
  have hel := exp_log dbg hZ hAB
  have hc2 := compose_ok dbg hA hZ
  have hA' := hA
  unfold Valid at hA
  have hfin : (⟨A.re * (rel A B).x - A.im * (rel A B).y + A.x, A.im * (rel A B).x + A.re * (rel A B).y + A.y,
      A.re * (rel A B).re - A.im * (rel A B).im, A.re * (rel A B).im + A.im * (rel A B).re⟩ : SE2 K) = B := by
    cases B with
    | mk a b c d =>
      simp only [rel]
      congr 1
      · linear_combination (a - A.x) * hA
      · linear_combination (b - A.y) * hA
      · linear_combination c * hA
      · linear_combination d * hA
  unfold GroupOps.interpSlerp
  rw [rminusV_ok dbg hA' hB]
  simp only [hu, GroupOps.rplusV, GroupOps.rplus, se2Ops, mul_one,
    Bool.not_true, Bool.false_eq_true, if_false, bind, Except.bind, pure, Except.pure, Except.map]
  have hl : (⟨(log (rel A B)).x, (log (rel A B)).y, (log (rel A B)).ang⟩ : SE2T K) = log (rel A B) := rfl
  rw [hl, hel]
  simp only [hc2, hfin]

/-- **SE2 slerp, `t = 0`**: `interpolate(A, B, 0) = A` exactly. -/
theorem slerp_zero (dbg : Bool) {A B : SE2 K} (hA : Valid A) (hB : Valid B) :
    se2Ops.interpSlerp dbg A B 0 = .ok A := by
  have hu : inUnit (0 : K) = true := by simp [inUnit]
  have hI : Valid (⟨0, 0, 1, 0⟩ : SE2 K) := by simp [Valid]
  have hpos : (0 : K) < Transc.eps := LawfulTransc.eps_pos
  have he : SE2T.exp dbg (⟨0, 0, 0⟩ : SE2T K) = .ok ⟨0, 0, 1, 0⟩ := by
    have := make_ok dbg hI
    simpa [SE2T.exp, SE2T.expRaw, SE2T.coefAB, hpos, LawfulTransc.sin_zero, LawfulTransc.cos_zero] using this
  have hc2 := compose_ok dbg hA hI
  simp only at hc2
  have hfin : (⟨A.re * 0 - A.im * 0 + A.x, A.im * 0 + A.re * 0 + A.y, A.re * 1 - A.im * 0, A.re * 0 + A.im * 1⟩ : SE2 K) = A := by
    cases A; simp
  unfold GroupOps.interpSlerp
  rw [rminusV_ok dbg hA hB]
  simp only [hu, GroupOps.rplusV, GroupOps.rplus, se2Ops, mul_zero,
    Bool.not_true, Bool.false_eq_true, if_false, bind, Except.bind, pure, Except.pure, Except.map, he, hc2, hfin]
  all_goals (first | rfl | (cases A; simp))
end SE2
end Manif
