/-
  C04 (continued) — SO3 over ℝ: `(X ⊕ t) ⊖ X = t` as whole API calls, for every valid `X` and every tangent on the
  closed-form branches with `θ ≤ π` (the principal domain of `log`).
-/
import ManifProofs.Properties.C03e
import ManifProofs.Properties.C04g

set_option linter.all false
namespace Manif
namespace SO3

theorem expRaw_unit (t : SO3T ℝ) (h : realEps < t.v.x * t.v.x + (t.v.y * t.v.y + t.v.z * t.v.z)) :
    (SO3T.expRaw t).sqn = 1 := by
  obtain ⟨⟨x, y, z⟩⟩ := t
  simp only at h
  have hp : 0 < x * x + (y * y + z * z) := lt_trans realEps_pos h
  rw [SO3T.expRaw_generic ⟨⟨x, y, z⟩⟩ h]
  simp only
  set θ := Real.sqrt (x * x + (y * y + z * z)) with hθdef
  have hθpos : 0 < θ := Real.sqrt_pos.mpr hp
  have hθ2 : θ * θ = x * x + (y * y + z * z) := Real.mul_self_sqrt hp.le
  have hsc := Real.sin_sq_add_cos_sq (1 / 2 * θ)
  have hθ' : θ ≠ 0 := hθpos.ne'
  unfold Quat.sqn
  simp only
  have e : Real.sin (1 / 2 * θ) * (x / θ) * (Real.sin (1 / 2 * θ) * (x / θ)) + Real.sin (1 / 2 * θ) * (y / θ) * (Real.sin (1 / 2 * θ) * (y / θ)) +
      Real.sin (1 / 2 * θ) * (z / θ) * (Real.sin (1 / 2 * θ) * (z / θ)) = Real.sin (1 / 2 * θ) ^ 2 := by
    field_simp
    nlinarith [hθ2]
  rw [e]
  nlinarith [hsc]

/-- `q̄ (q e) = e` for a unit `q` -/
theorem conj_mul_mul (q e : Quat ℝ) (hq : q.sqn = 1) : q.conj.mul (q.mul e) = e := by
  unfold Quat.sqn at hq
  cases e with
  | mk a b c d =>
    simp only [Quat.mul, Quat.conj]
    congr 1
    · linear_combination a * hq
    · linear_combination b * hq
    · linear_combination c * hq
    · linear_combination d * hq

/-- **SO3: `(X ⊕ t) ⊖ X = t`** as whole API calls. -/
theorem rminus_rplus (dbg : Bool) {X : SO3 ℝ} (hX : Valid X) (t : SO3T ℝ)
    (h : realEps < t.v.x * t.v.x + (t.v.y * t.v.y + t.v.z * t.v.z))
    (hpi : Real.sqrt (t.v.x * t.v.x + (t.v.y * t.v.y + t.v.z * t.v.z)) ≤ Real.pi)
    (hsw : realEps < Real.sin (1 / 2 * Real.sqrt (t.v.x * t.v.x + (t.v.y * t.v.y + t.v.z * t.v.z))) ^ 2) :
    (do let r ← so3Ops.rplus dbg X t false false
        let d ← so3Ops.rminus dbg r.val X false false
        pure d.val) = (.ok t : Except Err (SO3T ℝ)) := by
  have hE : Valid (⟨SO3T.expRaw t⟩ : SO3 ℝ) := expRaw_unit t h
  have he : SO3T.exp dbg t = .ok ⟨SO3T.expRaw t⟩ := by unfold SO3T.exp; exact make_ok dbg hE
  have hc1 := compose_ok dbg hX hE
  simp only at hc1
  have hXE : Valid (⟨X.q.mul (SO3T.expRaw t)⟩ : SO3 ℝ) := by unfold Valid at *; rw [Quat.sqn_mul, hX, hE, one_mul]
  have hXi : Valid (⟨X.q.conj⟩ : SO3 ℝ) := by unfold Valid at *; rw [Quat.sqn_conj]; exact hX
  have hc2 := compose_ok dbg hXi hXE
  simp only at hc2
  rw [conj_mul_mul _ _ hX] at hc2
  have hl := log_exp t h hpi hsw
  simp only [GroupOps.rminus, GroupOps.rplus, so3Ops, he, hc1, inverse_ok dbg hX, hc2, hl, except_ok_bind,
    bind, Except.bind, pure, Except.pure, Bool.false_eq_true, if_false, ↓reduceIte]
end SO3
end Manif
