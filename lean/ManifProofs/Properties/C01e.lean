/-
  C01 (continued) — `X.compose(X.inverse()) = I` as whole API calls over ℝ for SE_2(3).
-/
import ManifProofs.Properties.C01d

set_option linter.all false
namespace Manif

/-- `R(q)(−R(q̄) u) + u = 0` for a unit quaternion -/
theorem SE3.rot_neg_rot_conj_add (q : Quat ℝ) (hq : q.sqn = 1) (u : V3 ℝ) :
    (q.toRot.mulVec (q.conj.toRot.mulVec u).neg).add u = ⟨0, 0, 0⟩ := by
  have hr := SE3.rot_rot_conj q hq u
  cases hu : u with
  | mk x0 x1 x2 =>
    rw [hu] at hr
    simp only [M3.mulVec, V3.add, V3.neg, sum3, V3.mk.injEq] at hr ⊢
    obtain ⟨b1, b2, b3⟩ := hr
    refine ⟨?_, ?_, ?_⟩
    · linear_combination -b1
    · linear_combination -b2
    · linear_combination -b3

theorem SE23.compose_inverse (dbg : Bool) {X : SE23 ℝ} (hX : SE23.Valid X) :
    (do let i ← SE23.inverse dbg X; SE23.compose dbg X i) = (.ok ⟨⟨0, 0, 0⟩, ⟨0, 0, 0, 1⟩, ⟨0, 0, 0⟩⟩ : Except Err (SE23 ℝ)) := by
  have hXi : SE23.Valid (⟨((SO3.mk X.q.conj).act X.t).neg, X.q.conj, ((SO3.mk X.q.conj).act X.v).neg⟩ : SE23 ℝ) := by
    unfold SE23.Valid at *; simp only; rw [Quat.sqn_conj]; exact hX
  have hc := SE23.compose_ok dbg hX hXi
  simp only at hc
  rw [SO3.mul_conj_self _ hX] at hc
  have ht : (X.rotation.mulVec ((SO3.mk X.q.conj).act X.t).neg).add X.t = ⟨0, 0, 0⟩ := by
    simp only [SE23.rotation, SO3.rotation, SE23.asSO3, SO3.act]
    exact SE3.rot_neg_rot_conj_add X.q hX X.t
  have hv : (X.rotation.mulVec ((SO3.mk X.q.conj).act X.v).neg).add X.v = ⟨0, 0, 0⟩ := by
    simp only [SE23.rotation, SO3.rotation, SE23.asSO3, SO3.act]
    exact SE3.rot_neg_rot_conj_add X.q hX X.v
  rw [ht, hv] at hc
  simp only [SE23.inverse_ok dbg hX, hc, except_ok_bind, bind, Except.bind]
end Manif
