/-
  Properties/C05b.lean — C05, the Jacobian of `exp` is the derivative (dual numbers, exact identities):
      exp(t + εd) = exp(t) ⊞ ε (Jr(t) d)          on the closed-form branch,
  where `Jr` is the model's `rjac` (transcribed from the code, small-angle switch and half-angle
  forms included) and the left-hand side is the model's own `exp` evaluated at `Dual K`.
    * SE2: every ordered field with lawful sin/cos (only sin²+cos² = 1 is used);
    * SO3: over ℝ (needs the double-angle formulas to relate `sin θ` in `Jr` to the half-angle
      quaternion); the three non-trivial components are polynomial identities modulo θ² = |t|² and
      sin²+cos² = 1, closed with cofactors computed offline (sympy `reduced`) and checked by `ring1`.
-/
import ManifProofs.Properties.C05
import ManifProofs.Properties.C02

namespace Manif
variable {K : Type} [Field K] [LinearOrder K] [IsStrictOrderedRing K] [Transc K] [LawfulTransc K]
namespace SE2

/-- **exp**: `exp(t + εd) = exp(t) ⊞ ε(Jr(t) d)` on the closed-form branch — the analytic right
    Jacobian of `exp` (= `rjac`) is the derivative. -/
theorem exp_J (t d : SE2T K) (h : ¬ t.ang * t.ang * (t.ang * t.ang) < Transc.eps) (hθ : t.ang ≠ 0) :
    SE2T.expRaw (⟨⟨t.x, d.x⟩, ⟨t.y, d.y⟩, ⟨t.ang, d.ang⟩⟩ : SE2T (Dual K)) =
      composeRaw (lift (SE2T.expRaw t))
        (let v := (SE2T.rjac t).mulVec ⟨d.x, d.y, d.ang⟩; pert ⟨v.x, v.y, v.z⟩) := by
  have hsc := LawfulTransc.sin_sq_add_cos_sq t.ang
  have hv : Valid (SE2T.expRaw t) := by
    unfold Valid
    have hre : (SE2T.expRaw t).re = Transc.cos t.ang := by
      unfold SE2T.expRaw; rcases SE2T.coefAB t.ang (Scalar.cos t.ang) (Scalar.sin t.ang) with ⟨A, B⟩; rfl
    have him : (SE2T.expRaw t).im = Transc.sin t.ang := by
      unfold SE2T.expRaw; rcases SE2T.coefAB t.ang (Scalar.cos t.ang) (Scalar.sin t.ang) with ⟨A, B⟩; rfl
    rw [hre, him]; linarith
  rw [composeRaw_dual _ _ (by
    unfold Valid at hv
    simp [lift, pert]; linear_combination hv)]
  apply ext' <;> apply Dual.ext' <;>
    simp [SE2T.expRaw, SE2T.coefAB, SE2T.rjac, SE2T.expJ, h, lift, pert, M3.mulVec, sum3] <;>
    field_simp <;>
    first
      | ring1
      | linear_combination (t.ang * d.y - d.ang * t.y) * hsc
      | linear_combination (d.ang * t.x - t.ang * d.x) * hsc
end SE2
end Manif

namespace Manif
namespace SO3

theorem dual_sqrt_re (a : Dual ℝ) : (Scalar.sqrt a).re = Real.sqrt a.re := rfl
theorem dual_sqrt_du (a : Dual ℝ) : (Scalar.sqrt a).du = a.du / (2 * Real.sqrt a.re) := by
  show a.du / (Scalar.ofNat 2 * Scalar.sqrt a.re) = _
  simp

/-- **SO3 exp**: `exp(t + εd) = exp(t) ⊞ ε(Jr(t) d)` on the closed-form branch — the analytic right
    Jacobian `rjac` of the model (half-angle form) is the derivative of `exp`. -/
theorem exp_J (t d : SO3T ℝ) (h : realEps < t.v.x * t.v.x + (t.v.y * t.v.y + t.v.z * t.v.z)) :
    SO3T.expRaw (⟨⟨⟨t.v.x, d.v.x⟩, ⟨t.v.y, d.v.y⟩, ⟨t.v.z, d.v.z⟩⟩⟩ : SO3T (Dual ℝ)) =
      (liftQ (SO3T.expRaw t)).mul (pertQ ((SO3T.rjac t).mulVec d.v)) := by
  obtain ⟨⟨x, y, z⟩⟩ := t
  obtain ⟨⟨a, b, c⟩⟩ := d
  simp only at h ⊢
  have hp : 0 < x * x + (y * y + z * z) := lt_trans realEps_pos h
  have hθpos : 0 < Real.sqrt (x * x + (y * y + z * z)) := Real.sqrt_pos.mpr hp
  have hθ2 : Real.sqrt (x * x + (y * y + z * z)) ^ 2 = x * x + (y * y + z * z) := Real.sq_sqrt hp.le
  have hnle : ¬ x * x + (y * y + z * z) ≤ realEps := not_le.mpr h
  have hsc := Real.sin_sq_add_cos_sq (1 / 2 * Real.sqrt (x * x + (y * y + z * z)))
  have e2 : Real.sqrt (x * x + (y * y + z * z)) = 2 * (1 / 2 * Real.sqrt (x * x + (y * y + z * z))) := by ring
  have hsin : Real.sin (Real.sqrt (x * x + (y * y + z * z))) =
      2 * Real.sin (1 / 2 * Real.sqrt (x * x + (y * y + z * z))) * Real.cos (1 / 2 * Real.sqrt (x * x + (y * y + z * z))) := by
    conv_lhs => rw [e2, Real.sin_two_mul]
  rw [SO3T.expRaw_generic ⟨⟨x, y, z⟩⟩ h]
  have hgt : realEps < x * x + (y * y + z * z) := h
  have hhalf : Real.sqrt (x * x + (y * y + z * z)) / 2 = 1 / 2 * Real.sqrt (x * x + (y * y + z * z)) := by ring
  have hinv : (2 : ℝ)⁻¹ * Real.sqrt (x * x + (y * y + z * z)) = 1 / 2 * Real.sqrt (x * x + (y * y + z * z)) := by ring
  apply qext <;> apply Dual.ext' <;>
    simp [SO3T.expRaw, V3.sqNorm, sum3, Quat.ofAngleAxis, V3.normalized, V3.divs, dual_sqrt_re, dual_sqrt_du, hgt, hp,
      Quat.mul, liftQ, pertQ, SO3T.rjac, SO3T.ljac, SO3T.hat, M3.skew, hnle, M3.transpose, M3.mulVec, M3.add, M3.zip,
      M3.smul, M3.map, M3.mul, M3.one, hsin, hhalf, hinv] <;>
    (generalize Real.sin (1 / 2 * Real.sqrt (x * x + (y * y + z * z))) = S at hsc ⊢) <;>
    (generalize Real.cos (1 / 2 * Real.sqrt (x * x + (y * y + z * z))) = C at hsc ⊢) <;>
    (generalize Real.sqrt (x * x + (y * y + z * z)) = θ at hθpos hθ2 ⊢) <;>
    (rw [← hθ2]) <;>
    (have hθ0 : θ ≠ 0 := hθpos.ne') <;>
    field_simp <;>
    first
      | ring1
      | linear_combination (2*(-2*C*S^2*b*z + 2*C*S^2*c*y - C*a*θ^2 + 2*S*a*θ + S*b*θ*z - S*c*θ*y)) * hθ2 + (4*S*θ*(-a*y^2 - a*z^2 + b*x*y + c*x*z)) * hsc
      | linear_combination (-2*(-2*C*S^2*a*z + 2*C*S^2*c*x + C*b*θ^2 + S*a*θ*z - 2*S*b*θ - S*c*θ*x)) * hθ2 + (-4*S*θ*(-a*x*y + b*x^2 + b*z^2 - c*y*z)) * hsc
      | linear_combination (2*(-2*C*S^2*a*y + 2*C*S^2*b*x - C*c*θ^2 + S*a*θ*y - S*b*θ*x + 2*S*c*θ)) * hθ2 + (-4*S*θ*(-a*x*z - b*y*z + c*x^2 + c*y^2)) * hsc
end SO3
end Manif
