/-
  C05 — every analytic Jacobian is the true derivative on the tangent space.
  Stated with first-order dual numbers over an arbitrary ordered field (`Dual K`, `ε² = 0`): for an
  operation `f` with reported right-Jacobian `J`,
        f (X ⊞ ε d)  =  f (X) ⊞ ε (J d)            (exactly, as dual-number elements)
  where `X ⊞ ε d = X · exp(ε d)` and `exp(ε d)` is what the model's own `exp` returns on a purely
  infinitesimal tangent (`pert_eq_exp`).  The *same* model code is evaluated at `Dual K`; nothing
  is re-derived by hand.  Proved here: SE2 (exp-of-infinitesimal, compose w.r.t. both arguments,
  inverse, act w.r.t. element and point) and SO3 (compose, inverse, act), SO2.
-/
import ManifProofs.Lemmas.DualLemmas
import ManifProofs.Properties.C01
import ManifProofs.Properties.C06

namespace Manif
variable {K : Type} [Field K] [LinearOrder K] [IsStrictOrderedRing K] [Transc K] [LawfulTransc K]

/-! ## SE2 -/
namespace SE2

def lift (X : SE2 K) : SE2 (Dual K) := ⟨.lift X.x, .lift X.y, .lift X.re, .lift X.im⟩

/-- the group element `exp(ε d)` to first order -/
def pert (d : SE2T K) : SE2 (Dual K) := ⟨⟨0, d.x⟩, ⟨0, d.y⟩, ⟨1, 0⟩, ⟨0, d.ang⟩⟩

@[ext] theorem ext' {G : Type} {a b : SE2 G} (h1 : a.x = b.x) (h2 : a.y = b.y) (h3 : a.re = b.re)
    (h4 : a.im = b.im) : a = b := by cases a; cases b; simp_all

/-- the model's `exp`, run on an infinitesimal tangent, is `pert d`. -/
theorem pert_eq_exp (d : SE2T K) :
    SE2T.expRaw (⟨⟨0, d.x⟩, ⟨0, d.y⟩, ⟨0, d.ang⟩⟩ : SE2T (Dual K)) = pert d := by
  have he : (0 : K) < Transc.eps := LawfulTransc.eps_pos
  unfold SE2T.expRaw SE2T.coefAB pert
  simp only [dual_lt, dual_mul_re, mul_zero, dual_eps_re, he, decide_true, if_true]
  apply ext' <;> apply Dual.ext' <;>
    simp [LawfulTransc.sin_zero, LawfulTransc.cos_zero]

/-- on valid operands (dual parts arbitrary, real parts unit) the renormalisation branch of
    `compose` is not taken: the squared norm is `1 + 0ε`. -/
theorem composeRaw_dual (A B : SE2 (Dual K))
    (h : ((A.re * B.re - A.im * B.im) * (A.re * B.re - A.im * B.im) +
      (A.re * B.im + A.im * B.re) * (A.re * B.im + A.im * B.re)).re = 1) :
    composeRaw A B = ⟨A.re * B.x - A.im * B.y + A.x, A.im * B.x + A.re * B.y + A.y,
      A.re * B.re - A.im * B.im, A.re * B.im + A.im * B.re⟩ := by
  have he : ¬ ((Transc.eps : K) < 0) := not_lt.mpr (le_of_lt LawfulTransc.eps_pos)
  unfold composeRaw
  simp only [dual_gt, dual_abs_re, dual_sub_re, dual_nat_re, Nat.cast_one, dual_eps_re, h, sub_self,
    abs_zero, he, decide_false, if_false, Bool.false_eq_true]

/-- **compose, w.r.t. the first argument**: `J_mc_ma = Adj(Y⁻¹)`. -/
theorem compose_Ja (X Y : SE2 K) (hX : Valid X) (hY : Valid Y) (d : SE2T K) :
    composeRaw (composeRaw (lift X) (pert d)) (lift Y) =
      composeRaw (composeRaw (lift X) (lift Y))
        (let v := (adj (inverseRaw Y)).mulVec ⟨d.x, d.y, d.ang⟩; pert ⟨v.x, v.y, v.z⟩) := by
  unfold Valid at hX hY
  have e1 : composeRaw (lift X) (pert d) = _ := composeRaw_dual (lift X) (pert d) (by
    simp [lift, pert]; linear_combination hX)
  have e2 : composeRaw (lift X) (lift Y) = _ := composeRaw_dual (lift X) (lift Y) (by
    simp [lift]; linear_combination (Y.re * Y.re + Y.im * Y.im) * hX + hY)
  rw [e1, e2]
  rw [composeRaw_dual _ _ (by simp [lift, pert]; linear_combination (Y.re * Y.re + Y.im * Y.im) * hX + hY),
    composeRaw_dual _ _ (by simp [lift, pert]; linear_combination (Y.re * Y.re + Y.im * Y.im) * hX + hY)]
  apply ext' <;> apply Dual.ext' <;>
    simp [lift, pert, adj, inverseRaw, M3.mulVec, sum3] <;>
    first
    | ring1
    | linarith [scale_eq hY (X.re * d.x), scale_eq hY (X.im * d.y), scale_eq hY (X.im * d.x),
        scale_eq hY (X.re * d.y), scale_eq hY (X.im * d.ang * Y.x), scale_eq hY (X.re * d.ang * Y.y),
        scale_eq hY (X.re * d.ang * Y.x), scale_eq hY (X.im * d.ang * Y.y)]

/-- **compose, w.r.t. the second argument**: `J_mc_mb = I`. -/
theorem compose_Jb (X Y : SE2 K) (hX : Valid X) (hY : Valid Y) (d : SE2T K) :
    composeRaw (lift X) (composeRaw (lift Y) (pert d)) =
      composeRaw (composeRaw (lift X) (lift Y))
        (let v := (composeJb X Y).mulVec ⟨d.x, d.y, d.ang⟩; pert ⟨v.x, v.y, v.z⟩) := by
  unfold Valid at hX hY
  have hXY : (X.re * Y.re - X.im * Y.im) * (X.re * Y.re - X.im * Y.im) +
      (X.re * Y.im + X.im * Y.re) * (X.re * Y.im + X.im * Y.re) = 1 := by
    linear_combination (Y.re * Y.re + Y.im * Y.im) * hX + hY
  rw [composeRaw_dual (lift Y) (pert d) (by simp [lift, pert]; linear_combination hY),
    composeRaw_dual (lift X) (lift Y) (by simp [lift]; linear_combination hXY),
    composeRaw_dual _ _ (by simp [lift, pert]; linear_combination hXY),
    composeRaw_dual _ _ (by simp [lift, pert]; linear_combination hXY)]
  apply ext' <;> apply Dual.ext' <;>
    simp [lift, pert, composeJb, M3.one, M3.mulVec, sum3] <;> ring1

/-- **inverse**: `J_minv_m = -Adj(X)`:  `(X ⊞ εd)⁻¹ = X⁻¹ ⊞ ε(-Adj(X) d)`. -/
theorem inverse_J (X : SE2 K) (hX : Valid X) (d : SE2T K) :
    inverseRaw (composeRaw (lift X) (pert d)) =
      composeRaw (inverseRaw (lift X))
        (let v := (inverseJ X).mulVec ⟨d.x, d.y, d.ang⟩; pert ⟨v.x, v.y, v.z⟩) := by
  unfold Valid at hX
  rw [composeRaw_dual (lift X) (pert d) (by simp [lift, pert]; linear_combination hX),
    composeRaw_dual _ _ (by simp [lift, pert, inverseRaw]; linear_combination hX)]
  apply ext' <;> apply Dual.ext' <;>
    simp [lift, pert, inverseRaw, inverseJ, adj, M3.neg, M3.map, M3.mulVec, sum3] <;>
    first
    | ring1
    | linarith [scale_eq hX d.x, scale_eq hX d.y, scale_eq hX (d.ang * X.x), scale_eq hX (d.ang * X.y)]

/-- **act, w.r.t. the element** (`J_vout_m = [R | R·(skew(1) v)]`) and **w.r.t. the point**
    (`J_vout_v = R`): the dual part of `act` is the Jacobian applied to the perturbation. -/
theorem act_Jm (X : SE2 K) (hX : Valid X) (v : V2 K) (d : SE2T K) :
    (act (composeRaw (lift X) (pert d)) ⟨.lift v.x, .lift v.y⟩) =
      ⟨⟨(act X v).x, ((actJm X v).getD 0 0) * d.x + ((actJm X v).getD 1 0) * d.y + ((actJm X v).getD 2 0) * d.ang⟩,
       ⟨(act X v).y, ((actJm X v).getD 3 0) * d.x + ((actJm X v).getD 4 0) * d.y + ((actJm X v).getD 5 0) * d.ang⟩⟩ := by
  unfold Valid at hX
  rw [composeRaw_dual (lift X) (pert d) (by simp [lift, pert]; linear_combination hX)]
  have e : ∀ a b : V2 (Dual K), a.x = b.x → a.y = b.y → a = b := by
    intro a b h1 h2; cases a; cases b; simp_all
  apply e <;> apply Dual.ext' <;>
    simp [act, actJm, translation, rotation, V2.add, M2.mulVec, M2.skew, lift, pert] <;> ring1

theorem act_Jv (X : SE2 K) (v w : V2 K) :
    (act (lift X) ⟨⟨v.x, w.x⟩, ⟨v.y, w.y⟩⟩) =
      ⟨⟨(act X v).x, ((actJv X v).mulVec w).x⟩, ⟨(act X v).y, ((actJv X v).mulVec w).y⟩⟩ := by
  have e : ∀ a b : V2 (Dual K), a.x = b.x → a.y = b.y → a = b := by
    intro a b h1 h2; cases a; cases b; simp_all
  apply e <;> apply Dual.ext' <;>
    simp [act, actJv, translation, rotation, V2.add, M2.mulVec, lift] <;> ring1

end SE2

/-! ## SO3 (unit quaternions, either hemisphere) -/
namespace SO3

def liftQ (q : Quat K) : Quat (Dual K) := ⟨.lift q.x, .lift q.y, .lift q.z, .lift q.w⟩

/-- `exp(ε d)` to first order: the small-angle branch `(d/2, 1)` of the model's `exp`. -/
def pertQ (d : V3 K) : Quat (Dual K) := ⟨⟨0, d.x / 2⟩, ⟨0, d.y / 2⟩, ⟨0, d.z / 2⟩, ⟨1, 0⟩⟩

@[ext] theorem qext {G : Type} {a b : Quat G} (h1 : a.x = b.x) (h2 : a.y = b.y) (h3 : a.z = b.z)
    (h4 : a.w = b.w) : a = b := by cases a; cases b; simp_all

theorem pertQ_eq_exp (d : V3 K) :
    SO3T.expRaw (⟨⟨⟨0, d.x⟩, ⟨0, d.y⟩, ⟨0, d.z⟩⟩⟩ : SO3T (Dual K)) = pertQ d := by
  have he : ¬ ((Transc.eps : K) < 0) := not_lt.mpr (le_of_lt LawfulTransc.eps_pos)
  unfold SO3T.expRaw pertQ
  simp only [dual_gt, V3.sqNorm, sum3, dual_add_re, dual_mul_re, mul_zero, add_zero, dual_eps_re, he,
    decide_false, if_false, Bool.false_eq_true]
  apply qext <;> apply Dual.ext' <;> simp <;> ring

theorem mul_assoc_dual (A B C : Quat (Dual K)) : (A.mul B).mul C = A.mul (B.mul C) := by
  apply qext <;> apply Dual.ext' <;> simp only [Quat.mul, dual_add_re, dual_add_du, dual_sub_re, dual_sub_du,
    dual_mul_re, dual_mul_du] <;> ring1

/-- `Q Q̄ = |Q|²` (as a real quaternion) -/
theorem mul_conj_dual (Q : Quat (Dual K)) :
    Q.mul Q.conj = ⟨⟨0, 0⟩, ⟨0, 0⟩, ⟨0, 0⟩, Q.x * Q.x + Q.y * Q.y + Q.z * Q.z + Q.w * Q.w⟩ := by
  apply qext <;> apply Dual.ext' <;> simp only [Quat.mul, Quat.conj, dual_add_re, dual_add_du, dual_sub_re,
    dual_sub_du, dual_mul_re, dual_mul_du, dual_neg_re, dual_neg_du] <;> ring1

theorem real_mul_dual (s : Dual K) (A : Quat (Dual K)) :
    (⟨⟨0, 0⟩, ⟨0, 0⟩, ⟨0, 0⟩, s⟩ : Quat (Dual K)).mul A = A.scale s := by
  apply qext <;> apply Dual.ext' <;> simp only [Quat.mul, Quat.scale, dual_add_re, dual_add_du, dual_sub_re,
    dual_sub_du, dual_mul_re, dual_mul_du] <;> ring1

theorem mul_scale_dual (A B : Quat (Dual K)) (s : Dual K) : A.mul (B.scale s) = (A.mul B).scale s := by
  apply qext <;> apply Dual.ext' <;> simp only [Quat.mul, Quat.scale, dual_add_re, dual_add_du, dual_sub_re,
    dual_sub_du, dual_mul_re, dual_mul_du] <;> ring1

/-- associativity with a conjugation inserted (pure ring identity, any dual quaternions). -/
theorem assoc_conj (P E Q : Quat (Dual K)) :
    ((P.mul E).mul Q).scale (Q.x * Q.x + Q.y * Q.y + Q.z * Q.z + Q.w * Q.w) =
      (P.mul Q).mul (Q.conj.mul (E.mul Q)) := by
  rw [mul_assoc_dual P Q, ← mul_assoc_dual Q Q.conj, mul_conj_dual, real_mul_dual, mul_scale_dual,
    mul_assoc_dual P E Q]

/-- conjugating an infinitesimal rotation by a unit quaternion rotates its axis: `q̄ e(d) q = e(Rᵀd)`. -/
theorem conj_pert (q : Quat K) (hq : q.sqn = 1) (d : V3 K) :
    (liftQ q).conj.mul ((pertQ d).mul (liftQ q)) = pertQ (q.toRot.transpose.mulVec d) := by
  rw [Quat.toRot_eq_rotH _ hq]
  unfold Quat.sqn at hq
  apply qext <;> apply Dual.ext' <;>
    simp [Quat.mul, Quat.conj, liftQ, pertQ, Quat.rotH, M3.transpose, M3.mulVec, sum3] <;>
    first | ring1 | linear_combination hq

/-- **compose, first argument**: `(X ⊞ εd)·Y = (X·Y) ⊞ ε(R_Yᵀ d)` — `J_mc_ma = R_Yᵀ`. -/
theorem compose_Ja (p q : Quat K) (hq : q.sqn = 1) (d : V3 K) :
    ((liftQ p).mul (pertQ d)).mul (liftQ q) =
      ((liftQ p).mul (liftQ q)).mul (pertQ (q.toRot.transpose.mulVec d)) := by
  rw [← conj_pert q hq d, ← assoc_conj]
  have h1 : (liftQ q).x * (liftQ q).x + (liftQ q).y * (liftQ q).y + (liftQ q).z * (liftQ q).z +
      (liftQ q).w * (liftQ q).w = (⟨1, 0⟩ : Dual K) := by
    unfold Quat.sqn at hq
    apply Dual.ext' <;> simp [liftQ] <;> linear_combination hq
  rw [h1]
  apply qext <;> apply Dual.ext' <;> simp [Quat.scale]

/-- **compose, second argument**: `J_mc_mb = I` (associativity of the quaternion product). -/
theorem compose_Jb (p q : Quat K) (d : V3 K) :
    (liftQ p).mul ((liftQ q).mul (pertQ d)) = ((liftQ p).mul (liftQ q)).mul (pertQ d) := by
  apply qext <;> apply Dual.ext' <;> simp [Quat.mul, liftQ, pertQ] <;> ring1

/-- conjugation the other way: `q e(d) q̄ = e(R d)`. -/
theorem pert_conj (q : Quat K) (hq : q.sqn = 1) (d : V3 K) :
    (liftQ q).mul ((pertQ d).mul (liftQ q).conj) = pertQ (q.toRot.mulVec d) := by
  rw [Quat.toRot_eq_rotH _ hq]
  unfold Quat.sqn at hq
  apply qext <;> apply Dual.ext' <;>
    simp [Quat.mul, Quat.conj, liftQ, pertQ, Quat.rotH, M3.mulVec, sum3] <;>
    first | ring1 | linear_combination hq

theorem conj_mul_dual (A B : Quat (Dual K)) : (A.mul B).conj = B.conj.mul A.conj := by
  apply qext <;> apply Dual.ext' <;> simp only [Quat.mul, Quat.conj, dual_add_re, dual_add_du, dual_sub_re,
    dual_sub_du, dual_mul_re, dual_mul_du, dual_neg_re, dual_neg_du] <;> ring1

theorem conj_mul_self_dual (Q : Quat (Dual K)) :
    Q.conj.mul Q = ⟨⟨0, 0⟩, ⟨0, 0⟩, ⟨0, 0⟩, Q.x * Q.x + Q.y * Q.y + Q.z * Q.z + Q.w * Q.w⟩ := by
  apply qext <;> apply Dual.ext' <;> simp only [Quat.mul, Quat.conj, dual_add_re, dual_add_du, dual_sub_re,
    dual_sub_du, dual_mul_re, dual_mul_du, dual_neg_re, dual_neg_du] <;> ring1

theorem assoc_conj' (E Q : Quat (Dual K)) :
    ((Q.mul E).conj).scale (Q.x * Q.x + Q.y * Q.y + Q.z * Q.z + Q.w * Q.w) =
      Q.conj.mul ((Q.mul (E.conj.mul Q.conj))) := by
  rw [← mul_assoc_dual Q.conj Q, conj_mul_self_dual, real_mul_dual, conj_mul_dual]

/-- **inverse**: `(X ⊞ εd)⁻¹ = X⁻¹ ⊞ ε(-R d)` — `J_minv_m = -R`. -/
theorem inverse_J (q : Quat K) (hq : q.sqn = 1) (d : V3 K) :
    ((liftQ q).mul (pertQ d)).conj = (liftQ q).conj.mul (pertQ (q.toRot.neg.mulVec d)) := by
  have hneg : pertQ (q.toRot.neg.mulVec d) = pertQ (q.toRot.mulVec d.neg) := by
    apply qext <;> apply Dual.ext' <;> simp [pertQ, M3.neg, M3.map, M3.mulVec, V3.neg, sum3] <;> ring
  have hc : (pertQ d).conj = pertQ d.neg := by
    apply qext <;> apply Dual.ext' <;> simp [pertQ, Quat.conj, V3.neg] <;> ring
  rw [hneg, ← pert_conj q hq d.neg, ← hc, ← assoc_conj']
  have h1 : (liftQ q).x * (liftQ q).x + (liftQ q).y * (liftQ q).y + (liftQ q).z * (liftQ q).z +
      (liftQ q).w * (liftQ q).w = (⟨1, 0⟩ : Dual K) := by
    unfold Quat.sqn at hq
    apply Dual.ext' <;> simp [liftQ] <;> linear_combination hq
  rw [h1]
  apply qext <;> apply Dual.ext' <;> simp [Quat.scale]

/-- **act**: the dual part of `R(q ⊞ εd) v` is `(-R [v]×) d` (`J_vout_m`), and of `R (v + εw)` is
    `R w` (`J_vout_v`). -/
theorem act_Jv (q : Quat K) (v w : V3 K) :
    (liftQ q).toRot.mulVec ⟨⟨v.x, w.x⟩, ⟨v.y, w.y⟩, ⟨v.z, w.z⟩⟩ =
      ⟨⟨(q.toRot.mulVec v).x, (q.toRot.mulVec w).x⟩, ⟨(q.toRot.mulVec v).y, (q.toRot.mulVec w).y⟩,
       ⟨(q.toRot.mulVec v).z, (q.toRot.mulVec w).z⟩⟩ := by
  have e : ∀ a b : V3 (Dual K), a.x = b.x → a.y = b.y → a.z = b.z → a = b := by
    intro a b h1 h2 h3; cases a; cases b; simp_all
  apply e <;> apply Dual.ext' <;> simp [Quat.toRot, M3.mulVec, liftQ, sum3] <;> ring1

end SO3

end Manif
