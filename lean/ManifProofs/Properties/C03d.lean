/-
  C03 (continued) — SE_2(3) and SGal(3) over ℝ: `exp(log X) = X` as a whole API call (validation included), up to
  the sign of the quaternion (`-q` is the same rotation), for every valid X whose rotation is above the
  switch-over.  Every translation-like part is `Jl(θ)·(Jl⁻¹(θ)·u) = u` at `θ = log R`; SGal(3)'s `E` matrix
  cancels because `log` and `exp` evaluate it at the same `θ`.
-/
import ManifProofs.Properties.C03c
import ManifProofs.Properties.C01b

set_option linter.all false
namespace Manif
open Matrix
namespace SO3

/-- `Jl(log R) · (Jl⁻¹(log R) · u) = u` -/
theorem ljac_ljacinv_log (X : SO3 ℝ) (hX : Valid X)
    (h : realEps < X.q.x * X.q.x + (X.q.y * X.q.y + X.q.z * X.q.z)) (u : V3 ℝ) :
    (SO3T.ljac (log X)).mulVec ((SO3T.ljacinv (log X)).mulVec u) = u := by
  obtain ⟨hbig, hsin⟩ := log_facts X hX h
  have hinv := SO3T.ljacinv_mul_ljac (log X) hbig hsin
  have hinv' : (SO3T.ljac (log X)).toMatrix * (SO3T.ljacinv (log X)).toMatrix = 1 := mul_eq_one_comm.mp hinv
  have : ((SO3T.ljac (log X)).mulVec ((SO3T.ljacinv (log X)).mulVec u)).toVec = u.toVec := by
    rw [M3.toVec_mulVec, M3.toVec_mulVec, Matrix.mulVec_mulVec, hinv', Matrix.one_mulVec]
  have e := fun i => congrFun this i
  have e0 := e 0; have e1 := e 1; have e2 := e 2
  simp only [V3.toVec, Matrix.cons_val_zero, Matrix.cons_val_one, Matrix.cons_val_two, Matrix.head_cons, Matrix.tail_cons] at e0 e1 e2
  cases hv : (SO3T.ljac (log X)).mulVec ((SO3T.ljacinv (log X)).mulVec u) with
  | mk a b c =>
    rw [hv] at e0 e1 e2
    cases hx : u with
    | mk p q r =>
      rw [hx] at e0 e1 e2
      simp only at e0 e1 e2
      rw [e0, e1, e2]

/-- the quaternion `exp(log ·)` returns: `q` or `-q` -/
noncomputable def canon (q : Quat ℝ) : Quat ℝ := if q.w < 0 then ⟨-q.x, -q.y, -q.z, -q.w⟩ else q

theorem canon_sqn (q : Quat ℝ) : (canon q).sqn = q.sqn := by
  unfold canon; split <;> simp [Quat.sqn]

theorem exp_log_api (dbg : Bool) (X : SO3 ℝ) (hX : Valid X)
    (h : realEps < X.q.x * X.q.x + (X.q.y * X.q.y + X.q.z * X.q.z)) :
    SO3T.exp dbg (log X) = .ok ⟨canon X.q⟩ := by
  unfold SO3T.exp
  rw [exp_log_generic X hX h]
  exact make_ok dbg (X := ⟨canon X.q⟩) (by unfold Valid; rw [canon_sqn]; exact hX)
end SO3

namespace SE23
/-- **SE_2(3): `exp(log X) = X`** (whole API call; quaternion up to sign). -/
theorem exp_log_generic (dbg : Bool) (X : SE23 ℝ) (hX : Valid X)
    (h : realEps < X.q.x * X.q.x + (X.q.y * X.q.y + X.q.z * X.q.z)) :
    SE23T.exp dbg (log X) = .ok ⟨X.t, SO3.canon X.q, X.v⟩ := by
  have hXs : SO3.Valid X.asSO3 := hX
  have hq := SO3.exp_log_api dbg X.asSO3 hXs h
  have h1 := SO3.ljac_ljacinv_log X.asSO3 hXs h X.t
  have h2 := SO3.ljac_ljacinv_log X.asSO3 hXs h X.v
  unfold SE23T.exp
  have hl : SE23T.asSO3 (log X) = SO3.log X.asSO3 := rfl
  have hlin : (log X).lin = (SO3T.ljacinv (SO3.log X.asSO3)).mulVec X.t := rfl
  have hlin2 : (log X).lin2 = (SO3T.ljacinv (SO3.log X.asSO3)).mulVec X.v := rfl
  simp only [hl, hlin, hlin2, hq, h1, h2, bind, Except.bind]
  exact make_ok' dbg _ _ (by rw [SO3.canon_sqn]; exact hX)
end SE23

namespace SGal3
/-- **SGal(3): `exp(log X) = X`** (whole API call; quaternion up to sign; time exactly). -/
theorem exp_log_generic (dbg : Bool) (X : SGal3 ℝ) (hX : Valid X)
    (h : realEps < X.q.x * X.q.x + (X.q.y * X.q.y + X.q.z * X.q.z)) :
    SGal3T.exp dbg (log X) = .ok ⟨X.p, SO3.canon X.q, X.v, X.t⟩ := by
  have hXs : SO3.Valid X.asSO3 := hX
  have hq := SO3.exp_log_api dbg X.asSO3 hXs h
  have h2 := SO3.ljac_ljacinv_log X.asSO3 hXs h X.v
  have h1 := SO3.ljac_ljacinv_log X.asSO3 hXs h
    (X.p.sub ((SGal3T.fillE (SO3.log X.asSO3)).mulVec (((SO3T.ljacinv (SO3.log X.asSO3)).mulVec X.v).smul X.t)))
  unfold SGal3T.exp
  have hl : SGal3T.asSO3 (log X) = SO3.log X.asSO3 := rfl
  have hlin : (log X).lin = (SO3T.ljacinv (SO3.log X.asSO3)).mulVec
      (X.p.sub ((SGal3T.fillE (SO3.log X.asSO3)).mulVec (((SO3T.ljacinv (SO3.log X.asSO3)).mulVec X.v).smul X.t))) := rfl
  have hlin2 : (log X).lin2 = (SO3T.ljacinv (SO3.log X.asSO3)).mulVec X.v := rfl
  have ht : (log X).t = X.t := rfl
  simp only [hl, hlin, hlin2, ht, hq, h1, h2, bind, Except.bind]
  have hp : (X.p.sub ((SGal3T.fillE (SO3.log X.asSO3)).mulVec (((SO3T.ljacinv (SO3.log X.asSO3)).mulVec X.v).smul X.t))).add
      ((SGal3T.fillE (SO3.log X.asSO3)).mulVec (((SO3T.ljacinv (SO3.log X.asSO3)).mulVec X.v).smul X.t)) = X.p := by
    cases X.p; simp [V3.sub, V3.add]
  rw [hp]
  exact make_ok' dbg _ _ _ (by rw [SO3.canon_sqn]; exact hX)
end SGal3
end Manif
