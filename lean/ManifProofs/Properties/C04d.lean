/-
  C04 (continued) — SO3 over ℝ: `X ⊕ (Y ⊖ X) = Y` as whole API calls (inverse, compose, log, exp, compose with
  their validation and renormalisation branches), up to the sign of the quaternion (`-q` is the same rotation),
  whenever the relative rotation is above log's switch-over.
-/
import ManifProofs.Properties.C03d
import ManifProofs.Properties.C04c

set_option linter.all false
namespace Manif
namespace SO3

theorem compose_ok (dbg : Bool) {X Y : SO3 ℝ} (hX : Valid X) (hY : Valid Y) :
    compose dbg X Y = .ok ⟨X.q.mul Y.q⟩ := by
  unfold compose
  rw [composeRaw_eq hX hY]
  exact make_ok dbg (X := ⟨X.q.mul Y.q⟩) (by unfold Valid at *; rw [Quat.sqn_mul, hX, hY, one_mul])

theorem inverse_ok (dbg : Bool) {X : SO3 ℝ} (hX : Valid X) : inverse dbg X = .ok ⟨X.q.conj⟩ := by
  unfold inverse
  exact make_ok dbg (X := ⟨X.q.conj⟩) (by unfold Valid at *; rw [Quat.sqn_conj]; exact hX)

/-- `q (q̄ y) = y` for a unit `q` -/
theorem mul_conj_mul (q y : Quat ℝ) (hq : q.sqn = 1) : q.mul (q.conj.mul y) = y := by
  unfold Quat.sqn at hq
  cases y with
  | mk a b c d =>
    simp only [Quat.mul, Quat.conj]
    congr 1
    · linear_combination a * hq
    · linear_combination b * hq
    · linear_combination c * hq
    · linear_combination d * hq

theorem mul_canon (q r : Quat ℝ) : q.mul (canon r) = if r.w < 0 then
    ⟨-(q.mul r).x, -(q.mul r).y, -(q.mul r).z, -(q.mul r).w⟩ else q.mul r := by
  unfold canon
  split
  · simp only [Quat.mul]; congr 1 <;> ring
  · rfl

/-- **SO3: `X ⊕ (Y ⊖ X) = ±Y`** (the same rotation), exactly, no exception raised. -/
theorem rplus_rminus (dbg : Bool) {X Y : SO3 ℝ} (hX : Valid X) (hY : Valid Y)
    (h : realEps < (X.q.conj.mul Y.q).x * (X.q.conj.mul Y.q).x +
      ((X.q.conj.mul Y.q).y * (X.q.conj.mul Y.q).y + (X.q.conj.mul Y.q).z * (X.q.conj.mul Y.q).z)) :
    (do let d ← so3Ops.rminus dbg Y X false false
        let r ← so3Ops.rplus dbg X d.val false false
        pure r.val) =
      (.ok ⟨if (X.q.conj.mul Y.q).w < 0 then ⟨-Y.q.x, -Y.q.y, -Y.q.z, -Y.q.w⟩ else Y.q⟩ : Except Err (SO3 ℝ)) := by
  have hXi : Valid (⟨X.q.conj⟩ : SO3 ℝ) := by unfold Valid at *; rw [Quat.sqn_conj]; exact hX
  have hc1 := compose_ok dbg hXi hY
  have hZ : Valid (⟨X.q.conj.mul Y.q⟩ : SO3 ℝ) := by unfold Valid at *; rw [Quat.sqn_mul, Quat.sqn_conj, hX, hY, one_mul]
  have hel := exp_log_api dbg ⟨X.q.conj.mul Y.q⟩ hZ h
  have hcv : Valid (⟨canon (X.q.conj.mul Y.q)⟩ : SO3 ℝ) := by unfold Valid; rw [canon_sqn]; exact hZ
  have hc2 := compose_ok dbg hX hcv
  have hfin : X.q.mul (canon (X.q.conj.mul Y.q)) =
      if (X.q.conj.mul Y.q).w < 0 then ⟨-Y.q.x, -Y.q.y, -Y.q.z, -Y.q.w⟩ else Y.q := by
    rw [mul_canon, mul_conj_mul _ _ hX]
  simp only at hc1 hc2 hel
  simp only [GroupOps.rminus, GroupOps.rplus, so3Ops, inverse_ok dbg hX, hc1, except_ok_bind, hel, hc2, hfin,
    bind, Except.bind, pure, Except.pure]
  rfl
end SO3
end Manif
