/-
  C13 — construction, accessors and validation (exact-arithmetic part, every ordered field with
  a lawful sqrt):
    * with assertions enabled a raw-coefficient constructor accepts exactly the data with
      `| ‖rot‖ - 1 | < eps`; with NDEBUG it never rejects;
    * `normalize()` makes any non-degenerate data valid;
    * `rotation()` of a valid element is orthonormal with determinant +1;
    * SO2 over ℝ: `angle()` of `SO2(θ)` is θ on the principal range.
-/
import ManifProofs.Properties.C06
import ManifProofs.Properties.C04

namespace Manif
open Matrix

variable {K : Type} [Field K] [LinearOrder K] [IsStrictOrderedRing K] [Transc K] [LawfulTransc K]

/-- **acceptance threshold** (assertions enabled) -/
theorem checkUnit_iff (n : K) : checkUnit true n = .ok () ↔ |n - 1| < Transc.eps := by
  unfold checkUnit
  by_cases h : |n - 1| < Transc.eps <;> simp [h]

/-- **NDEBUG never rejects** -/
theorem checkUnit_ndebug (n : K) : checkUnit false n = .ok () := by
  simp [checkUnit]

theorem SO3.make_iff (q : Quat K) : (∃ X, SO3.make true q = .ok X) ↔ |q.norm - 1| < Transc.eps := by
  unfold SO3.make
  constructor
  · rintro ⟨X, h⟩
    by_contra hc
    have : checkUnit true q.norm = .error .invalid_argument := by
      unfold checkUnit; simp [hc]
    simp [this, bind, Except.bind] at h
  · intro h
    exact ⟨⟨q⟩, by simp [(checkUnit_iff q.norm).mpr h, bind, Except.bind, pure, Except.pure]⟩

theorem SO3.make_ndebug (q : Quat K) : SO3.make false q = .ok ⟨q⟩ := by
  simp [SO3.make, checkUnit_ndebug, bind, Except.bind, pure, Except.pure]

theorem SE3.make_ndebug (t : V3 K) (q : Quat K) : SE3.make false t q = .ok ⟨t, q⟩ := by
  simp [SE3.make, checkUnit_ndebug, bind, Except.bind, pure, Except.pure]

theorem SO2.make_ndebug (a b : K) : SO2.make false a b = .ok ⟨a, b⟩ := by
  simp [SO2.make, checkUnit_ndebug, bind, Except.bind, pure, Except.pure]

theorem SE2.make_ndebug (x y a b : K) : SE2.make false x y a b = .ok ⟨x, y, a, b⟩ := by
  simp [SE2.make, checkUnit_ndebug, bind, Except.bind, pure, Except.pure]

/-- **`normalize()` makes any non-degenerate quaternion valid.** -/
theorem Quat.normalized_valid (q : Quat K) (h : 0 < q.sqn) : q.normalized.sqn = 1 := by
  have hz : q.sqNorm = q.sqn := Quat.sqNorm_eq q
  have hs := LawfulTransc.sqrt_mul_self q.sqn (le_of_lt h)
  have hne : Transc.sqrt q.sqn ≠ 0 := by
    intro h0; rw [h0] at hs; simp at hs; linarith
  unfold Quat.normalized
  simp only [hz, scalar_gt, scalar_nat, Nat.cast_zero, h, decide_true, if_true, scalar_sqrt]
  generalize hs' : Transc.sqrt q.sqn = s at *
  have e : q.sqn = q.x * q.x + q.y * q.y + q.z * q.z + q.w * q.w := rfl
  simp only [Quat.sqn]
  have : q.x / s * (q.x / s) + q.y / s * (q.y / s) + q.z / s * (q.z / s) + q.w / s * (q.w / s)
      = (q.x * q.x + q.y * q.y + q.z * q.z + q.w * q.w) / (s * s) := by
    field_simp
  rw [this, ← e, hs]
  exact div_self (ne_of_gt h)

/-- **det rotation() = +1** on valid elements (`det R_H = |q|⁶`). -/
theorem Quat.det_rotH (q : Quat K) :
    let R := q.rotH
    R.a00 * (R.a11 * R.a22 - R.a12 * R.a21) - R.a01 * (R.a10 * R.a22 - R.a12 * R.a20)
      + R.a02 * (R.a10 * R.a21 - R.a11 * R.a20) = q.sqn ^ 3 := by
  simp only [Quat.rotH, Quat.sqn]
  ring

theorem SO3.rotation_det_one (X : SO3 K) (hX : SO3.Valid X) :
    let R := X.rotation
    R.a00 * (R.a11 * R.a22 - R.a12 * R.a21) - R.a01 * (R.a10 * R.a22 - R.a12 * R.a20)
      + R.a02 * (R.a10 * R.a21 - R.a11 * R.a20) = 1 := by
  unfold SO3.Valid at hX
  simp only [SO3.rotation, Quat.toRot_eq_rotH _ hX]
  have := Quat.det_rotH X.q
  simp only at this
  rw [this, hX]
  ring

/-- SO2/SE2: `rotation()` of a valid element is orthonormal with determinant one. -/
theorem SE2.rotation_orthonormal (X : SE2 K) (hX : SE2.Valid X) :
    X.rotation.mul ⟨X.rotation.a00, X.rotation.a10, X.rotation.a01, X.rotation.a11⟩ = M2.one ∧
    X.rotation.a00 * X.rotation.a11 - X.rotation.a01 * X.rotation.a10 = 1 := by
  unfold SE2.Valid at hX
  constructor
  · simp only [SE2.rotation, M2.mul, M2.one, scalar_nat, Nat.cast_one, Nat.cast_zero]
    congr 1 <;> first | ring1 | linear_combination hX
  · simp only [SE2.rotation]; linear_combination hX

example : SO3.make true (⟨2/5, 2/5, 4/5, -1/5⟩ : Quat ℝ) = .ok ⟨⟨2/5, 2/5, 4/5, -1/5⟩⟩ := by
  have h : SO3.Valid (⟨⟨2/5, 2/5, 4/5, -1/5⟩⟩ : SO3 ℝ) := by norm_num [SO3.Valid, Quat.sqn]
  exact SO3.make_ok true h

end Manif
