/-
  C03 (continued) — SO3 over ℝ: `log(exp t) = t` for every tangent with `θ² > eps` and `θ ≤ π` whose `exp` lies
  above log's own switch-over (`sin²(θ/2) > eps`): the principal inverse on the closed-form branches.
-/
import ManifProofs.Properties.C03d
import ManifProofs.Properties.C04

set_option linter.all false
namespace Manif
namespace SO3

theorem arg_cos_sin (a : ℝ) (h1 : -Real.pi < a) (h2 : a ≤ Real.pi) :
    Complex.arg ⟨Real.cos a, Real.sin a⟩ = a := by
  have : (⟨Real.cos a, Real.sin a⟩ : ℂ) = Complex.cos a + Complex.sin a * Complex.I := by
    apply Complex.ext <;> simp [Complex.cos_ofReal_re, Complex.sin_ofReal_re]
  rw [this]
  exact Complex.arg_cos_add_sin_mul_I ⟨h1, h2⟩

/-- **SO3: `log(exp t) = t`** (`θ` = |t|): closed-form branches, `θ ≤ π`. -/
theorem log_exp (t : SO3T ℝ) (h : realEps < t.v.x * t.v.x + (t.v.y * t.v.y + t.v.z * t.v.z))
    (hpi : Real.sqrt (t.v.x * t.v.x + (t.v.y * t.v.y + t.v.z * t.v.z)) ≤ Real.pi)
    (hsw : realEps < Real.sin (1 / 2 * Real.sqrt (t.v.x * t.v.x + (t.v.y * t.v.y + t.v.z * t.v.z))) ^ 2) :
    log ⟨SO3T.expRaw t⟩ = t := by
  obtain ⟨⟨x, y, z⟩⟩ := t
  simp only at h hpi hsw ⊢
  have hp : 0 < x * x + (y * y + z * z) := lt_trans realEps_pos h
  set θ := Real.sqrt (x * x + (y * y + z * z)) with hθdef
  have hθpos : 0 < θ := Real.sqrt_pos.mpr hp
  have hθ2 : θ * θ = x * x + (y * y + z * z) := Real.mul_self_sqrt hp.le
  rw [SO3T.expRaw_generic ⟨⟨x, y, z⟩⟩ h]
  simp only [← hθdef]
  set s := Real.sin (1 / 2 * θ) with hsdef
  set c := Real.cos (1 / 2 * θ) with hcdef
  have hhalf1 : 0 < 1 / 2 * θ := by positivity
  have hhalf2 : 1 / 2 * θ ≤ Real.pi / 2 := by linarith
  have hspos : 0 < s := Real.sin_pos_of_pos_of_lt_pi hhalf1 (by linarith [Real.pi_pos])
  have hcnn : 0 ≤ c := Real.cos_nonneg_of_mem_Icc ⟨by linarith [Real.pi_pos], hhalf2⟩
  -- |vec|² = s²
  have hv : s * (x / θ) * (s * (x / θ)) + (s * (y / θ) * (s * (y / θ)) + s * (z / θ) * (s * (z / θ))) = s ^ 2 := by
    have hθ' : θ ≠ 0 := hθpos.ne'
    field_simp
    nlinarith [hθ2]
  have hsq : Real.sqrt (s ^ 2) = s := Real.sqrt_sq hspos.le
  have hnotneg : ¬ c < 0 := not_lt.mpr hcnn
  have harg : Complex.arg ⟨c, s⟩ = 1 / 2 * θ := arg_cos_sin (1 / 2 * θ) (by linarith [Real.pi_pos]) (by linarith [Real.pi_pos])
  have hgt : realEps < s ^ 2 := hsw
  simp only [log, Quat.vec, V3.sqNorm, sum3, hv, scalar_gt, scalar_eps, transc_eps_real, hgt, decide_true, if_true,
    scalar_sqrt, transc_sqrt_real, hsq, scalar_lt, scalar_nat, Nat.cast_zero, hnotneg, decide_false, Bool.false_eq_true,
    if_false, scalar_atan2, transc_atan2_real, harg, V3.muls, Nat.cast_ofNat]
  have hθ' : θ ≠ 0 := hθpos.ne'
  have hs' : s ≠ 0 := hspos.ne'
  congr 2 <;> field_simp
end SO3
end Manif
