/-
  Properties/C06b.lean — C06, SO3: the closed-form inverse left Jacobian is the inverse of the left
  Jacobian.  Over ℝ, generic branch (θ² > eps), away from the pole of the inverse (sin(θ/2) ≠ 0,
  i.e. θ ≠ 2π): `Jl⁻¹ · Jl = I`, hence (transposes) `Jr⁻¹ · Jr = I`.  Proved at the matrix level:
  both are quadratic polynomials in W = hat θ, W³ = −θ²W, and the two resulting scalar identities
  reduce to sin² + cos² = 1 of the half angle.
-/
import ManifProofs.Properties.C02
import Mathlib.Tactic.NoncommRing
import ManifProofs.Properties.C06
namespace Manif
open Matrix

/-- product of two quadratic polynomials in one matrix -/
theorem quad_mul_quad {n : Type} [Fintype n] [DecidableEq n] (W : Matrix n n ℝ) (p q a b : ℝ) :
    (1 + p • W + q • W ^ 2) * (1 + a • W + b • W ^ 2) =
      1 + (p + a) • W + (q + p * a + b) • W ^ 2 + (p * b + q * a) • W ^ 3 + (q * b) • W ^ 4 := by
  simp only [pow_succ, pow_zero, one_mul]
  noncomm_ring
  simp only [smul_add, smul_smul]
  module
end Manif
namespace Manif
open Matrix
namespace SO3T

/-- inverse left Jacobian in the generic branch, as a polynomial in `hat` -/
theorem ljacinv_generic (t : SO3T ℝ) (h : realEps < t.v.x * t.v.x + (t.v.y * t.v.y + t.v.z * t.v.z)) :
    (ljacinv t).toMatrix =
      1 + (-(1 / 2 : ℝ)) • (hat t).toMatrix +
        (1 / Real.sqrt (t.v.x * t.v.x + (t.v.y * t.v.y + t.v.z * t.v.z)) ^ 2 -
          Real.cos (Real.sqrt (t.v.x * t.v.x + (t.v.y * t.v.y + t.v.z * t.v.z)) / 2) /
            (2 * Real.sqrt (t.v.x * t.v.x + (t.v.y * t.v.y + t.v.z * t.v.z)) *
              Real.sin (Real.sqrt (t.v.x * t.v.x + (t.v.y * t.v.y + t.v.z * t.v.z)) / 2))) • (hat t).toMatrix ^ 2 := by
  have hp : 0 < t.v.x * t.v.x + (t.v.y * t.v.y + t.v.z * t.v.z) := lt_trans realEps_pos h
  have hθ2 : Real.sqrt (t.v.x * t.v.x + (t.v.y * t.v.y + t.v.z * t.v.z)) ^ 2 =
      t.v.x * t.v.x + (t.v.y * t.v.y + t.v.z * t.v.z) := Real.sq_sqrt hp.le
  have hnle : ¬ t.v.x * t.v.x + (t.v.y * t.v.y + t.v.z * t.v.z) ≤ realEps := not_le.mpr h
  unfold ljacinv
  simp only [V3.sqNorm, sum3, scalar_le, scalar_eps, transc_eps_real, hnle, decide_false, Bool.false_eq_true, if_false,
    M3.toMatrix_add, M3.toMatrix_sub, M3.toMatrix_one, M3.toMatrix_smul, M3.toMatrix_mul, scalar_sqrt, transc_sqrt_real,
    scalar_sin, transc_sin_real, scalar_cos, transc_cos_real, scalar_nat, scalar_rat, Nat.cast_ofNat, Nat.cast_one,
    smul_mul_assoc]
  rw [hθ2, pow_two ((hat t).toMatrix), sub_eq_add_neg, neg_smul]

/-- **SO3: `Jl⁻¹ · Jl = I`** on the generic branch (every `θ² > eps` with `sin(θ/2) ≠ 0`, i.e. away
    from the pole `θ = 2π` of the inverse). -/
theorem ljacinv_mul_ljac (t : SO3T ℝ) (h : realEps < t.v.x * t.v.x + (t.v.y * t.v.y + t.v.z * t.v.z))
    (hs : Real.sin (Real.sqrt (t.v.x * t.v.x + (t.v.y * t.v.y + t.v.z * t.v.z)) / 2) ≠ 0) :
    (ljacinv t).toMatrix * (ljac t).toMatrix = 1 := by
  have hp : 0 < t.v.x * t.v.x + (t.v.y * t.v.y + t.v.z * t.v.z) := lt_trans realEps_pos h
  have hθpos : 0 < Real.sqrt (t.v.x * t.v.x + (t.v.y * t.v.y + t.v.z * t.v.z)) := Real.sqrt_pos.mpr hp
  have hθ2 : Real.sqrt (t.v.x * t.v.x + (t.v.y * t.v.y + t.v.z * t.v.z)) ^ 2 =
      t.v.x * t.v.x + (t.v.y * t.v.y + t.v.z * t.v.z) := Real.sq_sqrt hp.le
  have hcube := hat_cube t
  rw [ljacinv_generic t h, ljac_generic t h, quad_mul_quad]
  have h4 : (hat t).toMatrix ^ 4 = (-(t.v.x * t.v.x + (t.v.y * t.v.y + t.v.z * t.v.z))) • (hat t).toMatrix ^ 2 := by
    rw [show (4 : ℕ) = 3 + 1 from rfl, pow_succ, hcube, smul_mul_assoc, pow_two]
  generalize Real.sqrt (t.v.x * t.v.x + (t.v.y * t.v.y + t.v.z * t.v.z)) = θ at hθpos hs hθ2 ⊢
  rw [hcube, h4, ← hθ2]
  have e : θ = 2 * (θ / 2) := by ring
  have hsin : Real.sin θ = 2 * Real.sin (θ / 2) * Real.cos (θ / 2) := by
    conv_lhs => rw [e, Real.sin_two_mul]
  have hcos : Real.cos θ = 1 - 2 * Real.sin (θ / 2) ^ 2 := by
    conv_lhs => rw [e, Real.cos_two_mul]
    nlinarith [Real.sin_sq_add_cos_sq (θ / 2)]
  have hsc := Real.sin_sq_add_cos_sq (θ / 2)
  rw [hsin, hcos]
  generalize Real.sin (θ / 2) = s at hs hsc ⊢
  generalize Real.cos (θ / 2) = c at hsc ⊢
  simp only [smul_smul]
  have c1 : (-(1 / 2 : ℝ) + (1 - (1 - 2 * s ^ 2)) / θ ^ 2) +
      ((-(1 / 2 : ℝ)) * ((θ - 2 * s * c) / θ ^ 3) + (1 / θ ^ 2 - c / (2 * θ * s)) * ((1 - (1 - 2 * s ^ 2)) / θ ^ 2)) * -θ ^ 2 = 0 := by
    field_simp
    ring1
  have c2 : ((1 / θ ^ 2 - c / (2 * θ * s)) + (-(1 / 2 : ℝ)) * ((1 - (1 - 2 * s ^ 2)) / θ ^ 2) + (θ - 2 * s * c) / θ ^ 3) +
      ((1 / θ ^ 2 - c / (2 * θ * s)) * ((θ - 2 * s * c) / θ ^ 3)) * -θ ^ 2 = 0 := by
    field_simp
    linear_combination (-2 * θ * s) * hsc
  have : ∀ (W : Matrix (Fin 3) (Fin 3) ℝ) (k1 k2 k3 k4 : ℝ), k1 + k3 = 0 → k2 + k4 = 0 →
      1 + k1 • W + k2 • W ^ 2 + k3 • W + k4 • W ^ 2 = 1 := by
    intro W k1 k2 k3 k4 h1 h2
    have : k1 • W + k3 • W = 0 := by rw [← add_smul, h1, zero_smul]
    have : k2 • W ^ 2 + k4 • W ^ 2 = 0 := by rw [← add_smul, h2, zero_smul]
    calc 1 + k1 • W + k2 • W ^ 2 + k3 • W + k4 • W ^ 2
        = 1 + (k1 • W + k3 • W) + (k2 • W ^ 2 + k4 • W ^ 2) := by abel
      _ = 1 := by simp [*]
  exact this _ _ _ _ _ c1 c2
end SO3T
end Manif

namespace Manif
open Matrix
namespace SO3T
/-- `Jr⁻¹ · Jr = I` (the right Jacobians are the transposes) -/
theorem rjac_mul_rjacinv (t : SO3T ℝ) (h : realEps < t.v.x * t.v.x + (t.v.y * t.v.y + t.v.z * t.v.z))
    (hs : Real.sin (Real.sqrt (t.v.x * t.v.x + (t.v.y * t.v.y + t.v.z * t.v.z)) / 2) ≠ 0) :
    (rjac t).toMatrix * (rjacinv t).toMatrix = 1 := by
  have := congrArg Matrix.transpose (ljacinv_mul_ljac t h hs)
  simpa [rjac, rjacinv, Matrix.transpose_mul] using this
end SO3T
end Manif

namespace Manif
variable {K : Type} [Field K] [LinearOrder K] [IsStrictOrderedRing K] [Transc K] [LawfulTransc K]
namespace SE2T

/-- **SE2: `Jr⁻¹ · Jr = I`** on the generic branch (θ⁸ > eps: not in any Taylor branch),
    over every ordered field with lawful sin/cos, provided `cos θ ≠ 1`. -/
theorem rjacinv_mul_rjac (t : SE2T K)
    (h1 : ¬ t.ang * t.ang * (t.ang * t.ang) < Transc.eps)
    (h2 : Transc.eps < t.ang * t.ang * (t.ang * t.ang))
    (h3 : Transc.eps < t.ang * t.ang * (t.ang * t.ang) * (t.ang * t.ang) * (t.ang * t.ang))
    (hθ : t.ang ≠ 0) (hc : Transc.cos t.ang ≠ 1) :
    (rjacinv t).mul (rjac t) = M3.one := by
  have hsc := LawfulTransc.sin_sq_add_cos_sq t.ang
  have hc' : 1 - Transc.cos t.ang ≠ 0 := fun e => hc (by linarith)
  have hc'' : 2 * Transc.cos t.ang - 2 ≠ 0 := fun e => hc (by linarith)
  apply M3.ext' <;>
    simp [rjacinv, rjac, expJ, coefAB, h1, h2, h3, M3.mul, M3.one, sum3] <;>
    field_simp <;>
    first
      | ring1
      | linear_combination (-1 : K) * hsc
      | linear_combination (t.x * (1 - Transc.cos t.ang)) * hsc
      | linear_combination (t.y * (1 - Transc.cos t.ang)) * hsc
      | linear_combination (-(t.x * (1 - Transc.cos t.ang))) * hsc
      | linear_combination (-(t.y * (1 - Transc.cos t.ang))) * hsc

/-- **SE2: `Jl⁻¹ · Jl = I`** on the generic branch (θ⁸ > eps: not in any Taylor branch),
    over every ordered field with lawful sin/cos, provided `cos θ ≠ 1`. -/
theorem ljacinv_mul_ljac (t : SE2T K)
    (h1 : ¬ t.ang * t.ang * (t.ang * t.ang) < Transc.eps)
    (h2 : Transc.eps < t.ang * t.ang * (t.ang * t.ang))
    (h3 : Transc.eps < t.ang * t.ang * (t.ang * t.ang) * (t.ang * t.ang) * (t.ang * t.ang))
    (hθ : t.ang ≠ 0) (hc : Transc.cos t.ang ≠ 1) :
    (ljacinv t).mul (ljac t) = M3.one := by
  have hsc := LawfulTransc.sin_sq_add_cos_sq t.ang
  have hc' : 1 - Transc.cos t.ang ≠ 0 := fun e => hc (by linarith)
  have hc'' : 2 * Transc.cos t.ang - 2 ≠ 0 := fun e => hc (by linarith)
  apply M3.ext' <;>
    simp [ljacinv, ljac, coefAB, h1, h2, h3, M3.mul, M3.one, sum3] <;>
    field_simp <;>
    first
      | ring1
      | linear_combination (-1 : K) * hsc
      | linear_combination (t.x * (1 - Transc.cos t.ang)) * hsc
      | linear_combination (t.y * (1 - Transc.cos t.ang)) * hsc
      | linear_combination (-(t.x * (1 - Transc.cos t.ang))) * hsc
      | linear_combination (-(t.y * (1 - Transc.cos t.ang))) * hsc
end SE2T
end Manif

namespace Manif
open Matrix

/-- block-triangular inverse: if `Ji · J = 1` then `[Ji, -Ji Q Ji; 0, Ji] · [J, Q; 0, J] = 1` — any `Q`. -/
theorem block_tri_inv (Ji J Q : Matrix (Fin 3) (Fin 3) ℝ) (h : Ji * J = 1) :
    Matrix.fromBlocks Ji (-Ji * Q * Ji) 0 Ji * Matrix.fromBlocks J Q 0 J = 1 := by
  rw [Matrix.fromBlocks_multiply]
  simp only [zero_mul, add_zero, mul_zero, zero_add, h]
  have : Ji * Q + -Ji * Q * Ji * J = 0 := by
    rw [Matrix.mul_assoc (-Ji * Q) Ji J, h, mul_one, neg_mul, add_neg_cancel]
  rw [this, Matrix.fromBlocks_one]

namespace SE3T
/-- **SE3: `Jl⁻¹ · Jl = I`** (6×6), from the SO3 identity — for every translation part. -/
theorem ljacinv_mul_ljac (t : SE3T ℝ) (h : realEps < t.ang.x * t.ang.x + (t.ang.y * t.ang.y + t.ang.z * t.ang.z))
    (hs : Real.sin (Real.sqrt (t.ang.x * t.ang.x + (t.ang.y * t.ang.y + t.ang.z * t.ang.z)) / 2) ≠ 0) :
    (ljacinv t).toMatrix * (ljac t).toMatrix = 1 := by
  have h3 := SO3T.ljacinv_mul_ljac t.asSO3 h hs
  simp only [ljacinv, ljac, M6.toMatrix, M3.toMatrix_mul, M3.toMatrix_neg, M3.toMatrix_zero]
  exact block_tri_inv _ _ _ h3
end SE3T
end Manif
