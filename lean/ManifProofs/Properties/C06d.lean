/-
  C06 (continued) — SE3 adjoint identities over every ordered field:
    * `adj_apply`: `hat(Adj_X s) · T(X) = T(X) · hat(s)` (i.e. `Adj_X s` is the vector of `X hat(s) X⁻¹`), 4×4;
    * `adj_compose`: `Adj(X·Y) = Adj(X)·Adj(Y)` (6×6, block form) through `[R s]× R = R [s]×`;
    * `ljac_eq_rjac_neg`: `Jl(t) = Jr(−t)` with the `Q` block.
-/
import ManifProofs.Properties.C06c
import ManifProofs.Properties.C01

set_option linter.all false
namespace Manif
variable {K : Type} [Field K] [LinearOrder K] [IsStrictOrderedRing K] [Transc K] [LawfulTransc K]
namespace SE3

/-- **`X.adj() s` is the vector of `X hat(s) X⁻¹`**, stated without the inverse:
    `hat(Adj s) · T(X) = T(X) · hat(s)` (4×4). -/
theorem adj_apply (X : SE3 K) (hX : Valid X) (s : SE3T K) :
    let A := adj X
    matOfRows 4 (SE3T.hatRows ⟨(A.tl.mulVec s.lin).add (A.tr.mulVec s.ang), (A.bl.mulVec s.lin).add (A.br.mulVec s.ang)⟩) * toMat X =
      toMat X * matOfRows 4 (SE3T.hatRows s) := by
  unfold Valid Quat.sqn at hX
  rw [toMat_eq]
  ext i j
  fin_cases i <;> fin_cases j <;>
    simp [matOfRows, SE3T.hatRows, adj, hom4, rotation, SO3.rotation, asSO3, Quat.toRot, M3.skew, M3.zero, M3.mul, M3.mulVec, V3.add,
      Matrix.mul_apply, Fin.sum_univ_four, sum3] <;>
    ring_nf <;>
    first
      | done
      | linear_combination (4*X.q.x*(X.q.y*s.ang.z - X.q.z*s.ang.y)) * hX
      | linear_combination (-4*X.q.x*(X.q.x*s.ang.z - X.q.z*s.ang.x)) * hX
      | linear_combination (4*X.q.x*(X.q.x*s.ang.y - X.q.y*s.ang.x)) * hX
      | linear_combination (4*X.q.y*(X.q.y*s.ang.z - X.q.z*s.ang.y)) * hX
      | linear_combination (-4*X.q.y*(X.q.x*s.ang.z - X.q.z*s.ang.x)) * hX
      | linear_combination (4*X.q.y*(X.q.x*s.ang.y - X.q.y*s.ang.x)) * hX
      | linear_combination (4*X.q.z*(X.q.y*s.ang.z - X.q.z*s.ang.y)) * hX
      | linear_combination (-4*X.q.z*(X.q.x*s.ang.z - X.q.z*s.ang.x)) * hX
      | linear_combination (4*X.q.z*(X.q.x*s.ang.y - X.q.y*s.ang.x)) * hX
end SE3
end Manif

namespace Manif
open Matrix
variable {K : Type} [Field K] [LinearOrder K] [IsStrictOrderedRing K] [Transc K] [LawfulTransc K]
namespace SO3

/-- `[R s]× R = R [s]×` for the rotation of a unit quaternion -/
theorem skew_rot (q : Quat K) (hq : q.sqn = 1) (s : V3 K) :
    (M3.skew (q.toRot.mulVec s)).mul q.toRot = q.toRot.mul (M3.skew s) := by
  have h1 := rotH_conj_skew q s
  rw [hq] at h1
  have hr : q.toRot = q.rotH := Quat.toRot_eq_rotH _ hq
  have ht := Quat.toRot_transpose_mul q hq
  rw [hr] at ht ⊢
  apply M3.toMatrix_injective
  have h1' := congrArg M3.toMatrix h1
  have ht' := congrArg M3.toMatrix ht
  simp only [M3.toMatrix_mul, M3.toMatrix_transpose, M3.toMatrix_smul, M3.toMatrix_one, one_smul] at h1' ht' ⊢
  rw [← h1', Matrix.mul_assoc, ht', Matrix.mul_one]

theorem skew_add (a b : V3 K) : M3.skew (a.add b) = (M3.skew a).add (M3.skew b) := by
  apply M3.ext' <;> simp [M3.skew, M3.add, M3.zip, V3.add] <;> ring
end SO3

namespace SE3
/-- **`Adj(X·Y) = Adj(X)·Adj(Y)`** on valid elements (6×6). -/
theorem adj_compose (X Y : SE3 K) (hX : Valid X) (hY : Valid Y) :
    (adj (⟨(X.rotation.mulVec Y.t).add X.t, X.q.mul Y.q⟩ : SE3 K)).toMatrix = (adj X).toMatrix * (adj Y).toMatrix := by
  unfold Valid at hX hY
  have hR : (X.q.mul Y.q).toRot = X.q.toRot.mul Y.q.toRot := Quat.toRot_mul _ _ hX hY
  have hs := SO3.skew_rot X.q hX Y.t
  simp only [adj, rotation, SO3.rotation, asSO3, M6.toMatrix, Matrix.fromBlocks_multiply, hR, SO3.skew_add,
    M3.toMatrix_mul, M3.toMatrix_add, M3.toMatrix_zero, mul_zero, zero_mul, add_zero, zero_add]
  congr 1
  have hs' := congrArg M3.toMatrix hs
  simp only [M3.toMatrix_mul] at hs'
  rw [add_mul, ← Matrix.mul_assoc, hs', Matrix.mul_assoc, Matrix.mul_assoc, add_comm]
end SE3
end Manif

namespace Manif
variable {K : Type} [Field K] [LinearOrder K] [IsStrictOrderedRing K] [Transc K] [LawfulTransc K]
namespace SE3T
def neg' (t : SE3T K) : SE3T K := ⟨t.lin.neg, t.ang.neg⟩
theorem v3_neg_neg (v : V3 K) : v.neg.neg = v := by cases v; simp [V3.neg]

/-- **`ljac t = rjac (−t)`** for SE3 (6×6, with the `Q` block). -/
theorem ljac_eq_rjac_neg (t : SE3T K) : ljac t = rjac ⟨t.lin.neg, t.ang.neg⟩ := by
  have h := SO3T.ljac_eq_rjac_neg t.asSO3
  unfold ljac rjac
  simp only [asSO3, v3_neg_neg] at h ⊢
  have e : SO3T.rjac (⟨t.ang.neg⟩ : SO3T K) = SO3T.ljac (⟨t.ang⟩ : SO3T K) := by
    rw [h]; rfl
  rw [e]
end SE3T
end Manif
