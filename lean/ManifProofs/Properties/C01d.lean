/-
  C01 (continued) — the inverse law on the other side as whole API calls over ℝ: `X.compose(X.inverse()) = I` for SO3 and SE3.
-/
import ManifProofs.Properties.C01c

set_option linter.all false
namespace Manif

/-- `q q̄ = 1` for a unit quaternion -/
theorem SO3.mul_conj_self (q : Quat ℝ) (hq : q.sqn = 1) : q.mul q.conj = ⟨0, 0, 0, 1⟩ := by
  unfold Quat.sqn at hq
  simp only [Quat.mul, Quat.conj]
  congr 1
  · ring
  · ring
  · ring
  · linear_combination hq

theorem SO3.compose_inverse (dbg : Bool) {X : SO3 ℝ} (hX : SO3.Valid X) :
    (do let i ← SO3.inverse dbg X; SO3.compose dbg X i) = (.ok ⟨⟨0, 0, 0, 1⟩⟩ : Except Err (SO3 ℝ)) := by
  have hXi : SO3.Valid (⟨X.q.conj⟩ : SO3 ℝ) := by unfold SO3.Valid at *; rw [Quat.sqn_conj]; exact hX
  have hc := SO3.compose_ok dbg hX hXi
  simp only at hc
  rw [SO3.mul_conj_self _ hX] at hc
  simp only [SO3.inverse_ok dbg hX, hc, except_ok_bind, bind, Except.bind]

theorem SE3.compose_inverse (dbg : Bool) {X : SE3 ℝ} (hX : SE3.Valid X) :
    (do let i ← SE3.inverse dbg X; SE3.compose dbg X i) = (.ok ⟨⟨0, 0, 0⟩, ⟨0, 0, 0, 1⟩⟩ : Except Err (SE3 ℝ)) := by
  have hXi : SE3.Valid (⟨((SO3.mk X.q.conj).act X.t).neg, X.q.conj⟩ : SE3 ℝ) := by unfold SE3.Valid at *; simp only; rw [Quat.sqn_conj]; exact hX
  have hc := SE3.compose_ok dbg hX hXi
  simp only at hc
  rw [SO3.mul_conj_self _ hX] at hc
  have ht : (X.rotation.mulVec ((SO3.mk X.q.conj).act X.t).neg).add X.t = ⟨0, 0, 0⟩ := by
    have hr := SE3.rot_rot_conj X.q hX X.t
    simp only [SE3.rotation, SO3.rotation, SE3.asSO3, SO3.act] at hr ⊢
    cases hX' : X.t with
    | mk x0 x1 x2 =>
      rw [hX'] at hr
      simp only [M3.mulVec, V3.add, V3.neg, sum3, V3.mk.injEq] at hr ⊢
      obtain ⟨b1, b2, b3⟩ := hr
      refine ⟨?_, ?_, ?_⟩
      · linear_combination -b1
      · linear_combination -b2
      · linear_combination -b3
  rw [ht] at hc
  simp only [SE3.inverse_ok dbg hX, hc, except_ok_bind, bind, Except.bind]
end Manif
