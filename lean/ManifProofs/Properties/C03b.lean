/-
  Properties/C03b.lean — C03, SO3 over ℝ: `exp(log X)` is `X` itself when w ≥ 0 and `−X` (the same
  rotation) when w < 0, exactly, for every unit quaternion whose vector part is above the
  switch-over of `log` (|v|² > eps).  `atan2` is `Complex.arg`; its range gives the sign of the
  half angle, `sin α ≤ α` keeps the tangent above `exp`'s own switch-over.
-/
import ManifProofs.Properties.C02
import ManifProofs.Properties.C03
import Mathlib.Analysis.SpecialFunctions.Trigonometric.Bounds
namespace Manif
open Matrix
namespace SO3

theorem sqrt_scaled (x y z k s α : ℝ) (hs : 0 < s) (hs2 : s * s = x * x + (y * y + z * z))
    (hk : k = 2 * α / s) :
    Real.sqrt (x * k * (x * k) + (y * k * (y * k) + z * k * (z * k))) = 2 * |α| := by
  have : x * k * (x * k) + (y * k * (y * k) + z * k * (z * k)) = (2 * α) ^ 2 := by
    rw [hk]
    have hs' : s ≠ 0 := hs.ne'
    field_simp
    nlinarith [hs2]
  rw [this, Real.sqrt_sq_eq_abs, abs_mul]
  simp

/-- **SO3: `exp(log X)` is `X` (w ≥ 0) or `−X` (w < 0)** — the same rotation — for every unit
    quaternion whose vector part is above the switch-over (`|v|² > eps`). -/
theorem exp_log_generic (X : SO3 ℝ) (hX : Valid X)
    (h : realEps < X.q.x * X.q.x + (X.q.y * X.q.y + X.q.z * X.q.z)) :
    SO3T.expRaw (log X) = if X.q.w < 0 then ⟨-X.q.x, -X.q.y, -X.q.z, -X.q.w⟩ else X.q := by
  obtain ⟨⟨x, y, z, w⟩⟩ := X
  simp only at h ⊢
  have hp : 0 < x * x + (y * y + z * z) := lt_trans realEps_pos h
  set s := Real.sqrt (x * x + (y * y + z * z)) with hsdef
  have hspos : 0 < s := Real.sqrt_pos.mpr hp
  have hss : s * s = x * x + (y * y + z * z) := Real.mul_self_sqrt hp.le
  have hunit : w * w + s * s = 1 := by
    have : x * x + y * y + z * z + w * w = 1 := by simpa [Valid, Quat.sqn] using hX
    nlinarith
  have hnle : ¬ x * x + (y * y + z * z) ≤ realEps := not_le.mpr h
  by_cases hw : w < 0
  · -- w < 0 : α = atan2(-s, -w) < 0
    simp only [hw, if_true]
    have hu' : (-w) * (-w) + (-s) * (-s) = 1 := by nlinarith
    set α := Complex.arg ⟨-w, -s⟩ with hα
    have hcos : Real.cos α = -w := cos_arg_of_unit hu'
    have hsin : Real.sin α = -s := sin_arg_of_unit hu'
    have hαneg : α < 0 := by
      rw [hα, Complex.arg_neg_iff]; simpa using hspos
    have hαle : s ≤ -α := by
      have := Real.sin_le (x := -α) (by linarith)
      rw [Real.sin_neg, hsin] at this; linarith
    have hlog : log (⟨⟨x, y, z, w⟩⟩ : SO3 ℝ) = ⟨⟨x * (2 * α / s), y * (2 * α / s), z * (2 * α / s)⟩⟩ := by
      simp [log, Quat.vec, V3.sqNorm, sum3, V3.muls, h, hw, hα, ← hsdef]
    rw [hlog]
    have hsq := sqrt_scaled x y z (2 * α / s) s α hspos hss rfl
    rw [abs_of_neg hαneg] at hsq
    have hbig : realEps < x * (2 * α / s) * (x * (2 * α / s)) + (y * (2 * α / s) * (y * (2 * α / s)) + z * (2 * α / s) * (z * (2 * α / s))) := by
      have e : x * (2 * α / s) * (x * (2 * α / s)) + (y * (2 * α / s) * (y * (2 * α / s)) + z * (2 * α / s) * (z * (2 * α / s))) = (2 * α) ^ 2 := by
        have hs' : s ≠ 0 := hspos.ne'
        field_simp
        nlinarith [hss]
      rw [e]
      nlinarith [hss, h, hαle, hspos]
    rw [SO3T.expRaw_generic _ hbig]
    simp only [hsq]
    have hα0 : α ≠ 0 := hαneg.ne
    have hs0 : s ≠ 0 := hspos.ne'
    have e1 : (1 : ℝ) / 2 * (2 * -α) = -α := by ring
    rw [e1, Real.sin_neg, Real.cos_neg, hsin, hcos]
    congr 1 <;> field_simp
  · -- w ≥ 0 : α = atan2(s, w) > 0
    simp only [hw, if_false]
    have hu' : w * w + s * s = 1 := hunit
    set α := Complex.arg ⟨w, s⟩ with hα
    have hcos : Real.cos α = w := cos_arg_of_unit hu'
    have hsin : Real.sin α = s := sin_arg_of_unit hu'
    have hαnn : 0 ≤ α := by
      rw [hα, Complex.arg_nonneg_iff]; exact hspos.le
    have hαle : s ≤ α := by
      have := Real.sin_le hαnn
      rw [hsin] at this; exact this
    have hαpos : 0 < α := lt_of_lt_of_le hspos hαle
    have hlog : log (⟨⟨x, y, z, w⟩⟩ : SO3 ℝ) = ⟨⟨x * (2 * α / s), y * (2 * α / s), z * (2 * α / s)⟩⟩ := by
      simp [log, Quat.vec, V3.sqNorm, sum3, V3.muls, h, hw, hα, ← hsdef]
    rw [hlog]
    have hsq := sqrt_scaled x y z (2 * α / s) s α hspos hss rfl
    rw [abs_of_pos hαpos] at hsq
    have hbig : realEps < x * (2 * α / s) * (x * (2 * α / s)) + (y * (2 * α / s) * (y * (2 * α / s)) + z * (2 * α / s) * (z * (2 * α / s))) := by
      have e : x * (2 * α / s) * (x * (2 * α / s)) + (y * (2 * α / s) * (y * (2 * α / s)) + z * (2 * α / s) * (z * (2 * α / s))) = (2 * α) ^ 2 := by
        have hs' : s ≠ 0 := hspos.ne'
        field_simp
        nlinarith [hss]
      rw [e]
      nlinarith [hss, h, hαle, hspos]
    rw [SO3T.expRaw_generic _ hbig]
    simp only [hsq]
    have hα0 : α ≠ 0 := hαpos.ne'
    have hs0 : s ≠ 0 := hspos.ne'
    have e1 : (1 : ℝ) / 2 * (2 * α) = α := by ring
    rw [e1, hsin, hcos]
    congr 1 <;> field_simp
end SO3
end Manif

namespace Manif
namespace SO3
/-- as rotations: `R(exp(log X)) = R(X)` -/
theorem rot_exp_log (X : SO3 ℝ) (hX : Valid X)
    (h : realEps < X.q.x * X.q.x + (X.q.y * X.q.y + X.q.z * X.q.z)) :
    Quat.toRot (SO3T.expRaw (log X)) = Quat.toRot X.q := by
  rw [exp_log_generic X hX h]
  split
  · apply M3.ext' <;> simp [Quat.toRot]
  · rfl
end SO3
end Manif
