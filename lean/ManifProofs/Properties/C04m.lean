/-
  C04 (continued) — whole API calls over ℝ, `−π < θ ≤ π`:
    * SO2: `(X ⊕ t) ⊖ X = t`  and the left forms `(t ⊕ X) ⊖ₗ X = t`;
    * SE2: `(t ⊕ X) ⊖ₗ X = t` (non-degenerate `(A, B)` pair).
-/
import ManifProofs.Properties.C04l
import ManifProofs.Properties.C04b

set_option linter.all false
namespace Manif
namespace SO2

theorem expRaw_valid (t : SO2T ℝ) : Valid (SO2T.expRaw t) := by
  unfold Valid
  have := Real.sin_sq_add_cos_sq t.ang
  simp only [SO2T.expRaw, scalar_cos, scalar_sin, transc_cos_real, transc_sin_real]
  nlinarith [this]

theorem exp_ok (dbg : Bool) (t : SO2T ℝ) : SO2T.exp dbg t = .ok (SO2T.expRaw t) := by
  have h := make_ok dbg (expRaw_valid t)
  simpa only [SO2T.exp, SO2T.expRaw] using h

/-- **SO2: `(X ⊕ t) ⊖ X = t`** as whole API calls. -/
theorem rminus_rplus (dbg : Bool) {X : SO2 ℝ} (hX : Valid X) (t : SO2T ℝ) (h1 : -Real.pi < t.ang) (h2 : t.ang ≤ Real.pi) :
    (do let r ← so2Ops.rplus dbg X t false false
        let d ← so2Ops.rminus dbg r.val X false false
        pure d.val) = (.ok t : Except Err (SO2T ℝ)) := by
  have hE := expRaw_valid t
  have he := exp_ok dbg t
  set E := SO2T.expRaw t with hEdef
  have hc1 := compose_ok dbg hX hE
  have hXE : Valid (⟨X.re * E.re - X.im * E.im, X.re * E.im + X.im * E.re⟩ : SO2 ℝ) := by
    unfold Valid at *; simp only; linear_combination (E.re * E.re + E.im * E.im) * hX + hE
  have hXi : Valid (⟨X.re, -X.im⟩ : SO2 ℝ) := by unfold Valid at *; simpa using hX
  have hc2 := compose_ok dbg hXi hXE
  simp only at hc2
  have hfin : (⟨X.re * (X.re * E.re - X.im * E.im) - -X.im * (X.re * E.im + X.im * E.re),
      X.re * (X.re * E.im + X.im * E.re) + -X.im * (X.re * E.re - X.im * E.im)⟩ : SO2 ℝ) = E := by
    unfold Valid at hX
    cases hE' : E with
    | mk c d =>
      congr 1
      · linear_combination c * hX
      · linear_combination d * hX
  rw [hfin] at hc2
  have hl := log_exp t h1 h2
  rw [← hEdef] at hl
  simp only [GroupOps.rminus, GroupOps.rplus, so2Ops, he, hc1, inverse_ok dbg hX, hc2, hl, except_ok_bind,
    bind, Except.bind, pure, Except.pure, Bool.false_eq_true, if_false, ↓reduceIte]

/-- **SO2: `(t ⊕ X) ⊖ₗ X = t`** (`lplus` then `lminus`) as whole API calls. -/
theorem lminus_lplus (dbg : Bool) {X : SO2 ℝ} (hX : Valid X) (t : SO2T ℝ) (h1 : -Real.pi < t.ang) (h2 : t.ang ≤ Real.pi) :
    (do let r ← so2Ops.lplus dbg X t false false
        let d ← so2Ops.lminus dbg r.val X false false
        pure d.val) = (.ok t : Except Err (SO2T ℝ)) := by
  have hE := expRaw_valid t
  have he := exp_ok dbg t
  set E := SO2T.expRaw t with hEdef
  have hc1 := compose_ok dbg hE hX
  have hEX : Valid (⟨E.re * X.re - E.im * X.im, E.re * X.im + E.im * X.re⟩ : SO2 ℝ) := by
    unfold Valid at *; simp only; linear_combination (E.re * E.re + E.im * E.im) * hX + hE
  have hXi : Valid (⟨X.re, -X.im⟩ : SO2 ℝ) := by unfold Valid at *; simpa using hX
  have hc2 := compose_ok dbg hEX hXi
  simp only at hc2
  have hfin : (⟨(E.re * X.re - E.im * X.im) * X.re - (E.re * X.im + E.im * X.re) * -X.im,
      (E.re * X.re - E.im * X.im) * -X.im + (E.re * X.im + E.im * X.re) * X.re⟩ : SO2 ℝ) = E := by
    unfold Valid at hX
    cases hE' : E with
    | mk c d =>
      congr 1
      · linear_combination c * hX
      · linear_combination d * hX
  rw [hfin] at hc2
  have hl := log_exp t h1 h2
  rw [← hEdef] at hl
  simp only [GroupOps.lminus, GroupOps.lplus, so2Ops, he, hc1, inverse_ok dbg hX, hc2, hl, except_ok_bind,
    bind, Except.bind, pure, Except.pure, Bool.false_eq_true, if_false, ↓reduceIte]
end SO2

namespace SE2
/-- **SE2: `(t ⊕ X) ⊖ₗ X = t`** (`lplus` then `lminus`) as whole API calls. -/
theorem lminus_lplus (dbg : Bool) {X : SE2 ℝ} (hX : Valid X) (t : SE2T ℝ) (h1 : -Real.pi < t.ang) (h2 : t.ang ≤ Real.pi)
    (hAB : (SE2T.coefAB t.ang (Real.cos t.ang) (Real.sin t.ang)).1 * (SE2T.coefAB t.ang (Real.cos t.ang) (Real.sin t.ang)).1 +
      (SE2T.coefAB t.ang (Real.cos t.ang) (Real.sin t.ang)).2 * (SE2T.coefAB t.ang (Real.cos t.ang) (Real.sin t.ang)).2 ≠ 0) :
    (do let r ← se2Ops.lplus dbg X t false false
        let d ← se2Ops.lminus dbg r.val X false false
        pure d.val) = (.ok t : Except Err (SE2T ℝ)) := by
  have hE := expRaw_valid t
  have he : SE2T.exp dbg t = .ok (SE2T.expRaw t) := by
    unfold SE2T.exp; exact make_ok dbg hE
  set E := SE2T.expRaw t with hEdef
  have hc1 := compose_ok dbg hE hX
  have hEX : Valid (⟨E.re * X.x - E.im * X.y + E.x, E.im * X.x + E.re * X.y + E.y, E.re * X.re - E.im * X.im, E.re * X.im + E.im * X.re⟩ : SE2 ℝ) := by
    unfold Valid at *; simp only; linear_combination (E.re * E.re + E.im * E.im) * hX + hE
  have hXi : Valid (⟨-X.x * X.re - X.y * X.im, X.x * X.im - X.y * X.re, X.re, -X.im⟩ : SE2 ℝ) := by
    unfold Valid at *; simpa using hX
  have hc2 := compose_ok dbg hEX hXi
  simp only at hc2
  have hfin : (⟨(E.re * X.re - E.im * X.im) * (-X.x * X.re - X.y * X.im) - (E.re * X.im + E.im * X.re) * (X.x * X.im - X.y * X.re) + (E.re * X.x - E.im * X.y + E.x),
      (E.re * X.im + E.im * X.re) * (-X.x * X.re - X.y * X.im) + (E.re * X.re - E.im * X.im) * (X.x * X.im - X.y * X.re) + (E.im * X.x + E.re * X.y + E.y),
      (E.re * X.re - E.im * X.im) * X.re - (E.re * X.im + E.im * X.re) * -X.im,
      (E.re * X.re - E.im * X.im) * -X.im + (E.re * X.im + E.im * X.re) * X.re⟩ : SE2 ℝ) = E := by
    unfold Valid at hX
    cases hE' : E with
    | mk a b c d =>
      congr 1
      · linear_combination (-(c * X.x - d * X.y)) * hX
      · linear_combination (-(c * X.y + d * X.x)) * hX
      · linear_combination c * hX
      · linear_combination d * hX
  rw [hfin] at hc2
  have hl := log_exp t h1 h2 hAB
  rw [← hEdef] at hl
  simp only [GroupOps.lminus, GroupOps.lplus, se2Ops, he, hc1, inverse_ok dbg hX, hc2, hl, except_ok_bind,
    bind, Except.bind, pure, Except.pure, Bool.false_eq_true, if_false, ↓reduceIte]
end SE2
end Manif
