/-
  C04 (continued): SE2 `X ⊕ (Y ⊖ X) = Y` as whole API calls (inverse, compose, log, exp, compose; validation
  and renormalisation branches included), every ordered field with lawful sin/cos/atan2.
-/
import ManifProofs.Properties.C04b
import ManifProofs.Properties.C03
set_option linter.all false
namespace Manif
variable {K : Type} [Field K] [LinearOrder K] [IsStrictOrderedRing K] [Transc K] [LawfulTransc K]
namespace SE2

theorem compose_ok (dbg : Bool) {X Y : SE2 K} (hX : Valid X) (hY : Valid Y) :
    compose dbg X Y = .ok ⟨X.re * Y.x - X.im * Y.y + X.x, X.im * Y.x + X.re * Y.y + X.y,
      X.re * Y.re - X.im * Y.im, X.re * Y.im + X.im * Y.re⟩ := by
  obtain ⟨hc, hv⟩ := valid_composeRaw hX hY
  have := make_ok dbg hv
  rw [hc] at this hv
  simpa [compose, hc] using this

theorem inverse_ok (dbg : Bool) {X : SE2 K} (hX : Valid X) :
    inverse dbg X = .ok ⟨-X.x * X.re - X.y * X.im, X.x * X.im - X.y * X.re, X.re, -X.im⟩ := by
  have hv : Valid (⟨-X.x * X.re - X.y * X.im, X.x * X.im - X.y * X.re, X.re, -X.im⟩ : SE2 K) := by
    unfold Valid at *; simpa using hX
  simpa [inverse, inverseRaw] using make_ok dbg hv

/-- `X⁻¹ · Y` on the coefficients -/
def rel (X Y : SE2 K) : SE2 K :=
  ⟨X.re * Y.x - -X.im * Y.y + (-X.x * X.re - X.y * X.im), -X.im * Y.x + X.re * Y.y + (X.x * X.im - X.y * X.re),
    X.re * Y.re - -X.im * Y.im, X.re * Y.im + -X.im * Y.re⟩

/-- **SE2: `X ⊕ (Y ⊖ X) = Y`** exactly as whole API calls (no exception raised), for valid operands whose
    relative element has a non-degenerate `(A, B)` pair (automatic in the Taylor branch; `cos θ ≠ 1` in the
    generic branch, i.e. always for a non-zero relative angle). -/
theorem rplus_rminus (dbg : Bool) {X Y : SE2 K} (hX : Valid X) (hY : Valid Y)
    (hAB : (SE2T.coefAB (rel X Y).angle (rel X Y).re (rel X Y).im).1 * (SE2T.coefAB (rel X Y).angle (rel X Y).re (rel X Y).im).1 +
      (SE2T.coefAB (rel X Y).angle (rel X Y).re (rel X Y).im).2 * (SE2T.coefAB (rel X Y).angle (rel X Y).re (rel X Y).im).2 ≠ 0) :
    (do let d ← se2Ops.rminus dbg Y X false false
        let r ← se2Ops.rplus dbg X d.val false false
        pure r.val) = (.ok Y : Except Err (SE2 K)) := by
  have hXi : Valid (⟨-X.x * X.re - X.y * X.im, X.x * X.im - X.y * X.re, X.re, -X.im⟩ : SE2 K) := by
    unfold Valid at *; simpa using hX
  have hc1 := compose_ok dbg hXi hY
  have hZ : Valid (rel X Y) := by
    unfold Valid rel at *
    simp only
    linear_combination (Y.re * Y.re + Y.im * Y.im) * hX + hY
  have hel := exp_log dbg hZ hAB
  have hc2 := compose_ok dbg hX hZ
  unfold Valid at hX
  have hfin : (⟨X.re * (rel X Y).x - X.im * (rel X Y).y + X.x, X.im * (rel X Y).x + X.re * (rel X Y).y + X.y,
      X.re * (rel X Y).re - X.im * (rel X Y).im, X.re * (rel X Y).im + X.im * (rel X Y).re⟩ : SE2 K) = Y := by
    cases Y with
    | mk a b c d =>
      simp only [rel]
      congr 1
      · linear_combination (a - X.x) * hX
      · linear_combination (b - X.y) * hX
      · linear_combination c * hX
      · linear_combination d * hX
  simp only [rel] at hel hc2 hfin
  simp only [GroupOps.rminus, GroupOps.rplus, se2Ops, inverse_ok dbg hX, hc1, except_ok_bind, hel, hc2, hfin,
    bind, Except.bind, pure, Except.pure]
  rfl
end SE2
end Manif
