/-
  Properties/C19.lean — "each instantiation forwards to the documented behaviour of the canonical
  member", the half of C19 that is a statement about behaviour (the compile/link half is the
  exhaustive enumeration by the compiler in tools/apimatrix.py, generated from the same table).

  All statements quantify over every scalar instance `K` (so they cover the `double`, `float`
  and dual-number instantiations at once), every group name, every argument list and every mask;
  the model has no notion of storage, so owning / Map / Map<const> operands are one case
  (C10 carries the view semantics).
-/
import ManifProofs.Properties.C04

namespace Manif
open Manif.Api

theorem lookup_mem {α β : Type} [BEq α] [LawfulBEq α] (l : List (α × β)) (a : α) (b : β)
    (h : l.lookup a = some b) : (a, b) ∈ l := by
  induction l with
  | nil => simp at h
  | cons p l ih =>
    obtain ⟨x, y⟩ := p
    by_cases hx : a == x
    · simp [List.lookup, hx] at h
      have : a = x := by simpa using hx
      subst this; subst h; simp
    · simp [List.lookup, hx] at h
      exact List.mem_cons_of_mem _ (ih h)

/-- a canonical member is never itself an alias: resolution stops after one step. -/
theorem canonical_targets_fixed :
    (∀ p ∈ aliasTable, canonical p.2 = p.2) ∧ (∀ p ∈ swappedTable, canonical p.2 = p.2) := by
  decide

/-- `canonical` is idempotent on *every* operation name (not only the listed ones). -/
theorem canonical_idem (op : String) : canonical (canonical op) = canonical op := by
  unfold canonical
  cases h1 : aliasTable.lookup op with
  | some c =>
    have := canonical_targets_fixed.1 _ (lookup_mem _ _ _ h1)
    simpa [canonical] using this
  | none =>
    cases h2 : swappedTable.lookup op with
    | some c =>
      have := canonical_targets_fixed.2 _ (lookup_mem _ _ _ h2)
      simpa [canonical] using this
    | none => simp [h1, h2]

/-- an operation that is not listed as an alias is its own canonical member. -/
theorem canonical_of_unlisted (op : String) (h1 : aliasTable.lookup op = none)
    (h2 : swappedTable.lookup op = none) : canonical op = op := by
  simp [canonical, h1, h2]

/-- no name is both a plain alias and a swapped (tangent-side) alias. -/
theorem tables_disjoint : ∀ p ∈ swappedTable, aliasTable.lookup p.1 = none := by
  decide

/-- every plain alias, on every group / scalar / mask / argument list, answers exactly what the
    canonical member answers (value *and* optional outputs, error or not). -/
theorem alias_forwards {K : Type} [Scalar K] (grp : String) (dbg : Bool) (mask : Nat)
    (args : List K) (ints : List Int) :
    ∀ p ∈ aliasTable, runGroup grp dbg p.1 mask args ints = runGroup grp dbg p.2 mask args ints := by
  intro p hp
  have h := alias_table p hp
  have hc := canonical_targets_fixed.1 p hp
  have hs : isSwapped p.2 = false := by
    have : ∀ q ∈ aliasTable, isSwapped q.2 = false := by decide
    exact this p hp
  rw [runGroup_alias grp dbg p.1 mask args ints h.2, runGroup_alias grp dbg p.2 mask args ints hs, h.1, hc]

/-- a tangent-side form `t.f(X, J_t, J_m)` returns the canonical `X.g(t, J_m, J_t)` evaluated
    with the two optional-output requests exchanged, its outputs re-ordered accordingly; in
    particular with no Jacobian requested the two calls are identical. -/
theorem swapped_forwards_value {K : Type} [Scalar K] (grp : String) (dbg : Bool)
    (args : List K) (ints : List Int) :
    ∀ p ∈ swappedTable, ∀ out, runGroup grp dbg p.2 0 args ints = some (.ok out) →
      out.length = (groupSizes grp).1 →
      runGroup grp dbg p.1 0 args ints = some (.ok out) := by
  intro p hp out hrun hlen
  have h := swapped_table p hp
  have hs : isSwapped p.2 = false := by
    have : ∀ q ∈ swappedTable, isSwapped q.2 = false := by decide
    exact this p hp
  have hc := canonical_targets_fixed.2 p hp
  rw [runGroup_alias grp dbg p.2 0 args ints hs, hc] at hrun
  simp [runGroup, withAliases, h.1, h.2, swapMask, hrun, Except.map, ← hlen]

/-- errors are forwarded unchanged, too. -/
theorem swapped_forwards_error {K : Type} [Scalar K] (grp : String) (dbg : Bool) (mask : Nat)
    (hm : mask < 4) (args : List K) (ints : List Int) :
    ∀ p ∈ swappedTable, ∀ e, runGroup grp dbg p.2 (swapMask mask) args ints = some (.error e) →
      runGroup grp dbg p.1 mask args ints = some (.error e) := by
  intro p hp e hrun
  have h := swapped_table p hp
  have hs : isSwapped p.2 = false := by
    have : ∀ q ∈ swappedTable, isSwapped q.2 = false := by decide
    exact this p hp
  have hc := canonical_targets_fixed.2 p hp
  rw [runGroup_alias grp dbg p.2 _ args ints hs, hc] at hrun
  simp [runGroup, withAliases, h.1, h.2, hrun, Except.map]

-- non-vacuity: the tables are inhabited and resolve as documented
example : ("op*", "compose") ∈ aliasTable ∧ ("t.plus", "lplus") ∈ swappedTable := by decide
example : canonical "f_between" = "between" ∧ canonical "not-an-op" = "not-an-op" := by decide

end Manif
