/-
  C01 — compose, inverse, identity and act realise the matrix group.

  For every valid X, Y (unit-norm rotation part; both quaternion hemispheres — the sign of `w`
  never enters), over EVERY linearly ordered field with lawful `sqrt`/`atan2` (ℝ by
  `Inst/Real.lean`; the purely algebraic groups need no transcendental law at all, so the
  statements also hold over ℚ = "exact when instantiated over an exact scalar"):
    * the homogeneous matrix of `compose X Y` is the product of the matrices,
    * the matrix of `inverse X` is the two-sided matrix inverse,
    * the matrix of the identity (obtained as `exp 0`, as in the source) is `1`,
    * `act X p` is the matrix applied to `p` in homogeneous coordinates,
    * with run-time assertions enabled none of these raises.
  Only property theorems and their non-vacuity examples live in this file.
-/
import ManifProofs.Lemmas.Quat
import Mathlib.Tactic.NormNum
import Mathlib.Tactic.Linarith
import Mathlib.Tactic.FieldSimp

namespace Manif
open Matrix

variable {K : Type} [Field K] [LinearOrder K] [IsStrictOrderedRing K] [Transc K] [LawfulTransc K]

/-- homogeneous matrix from a row-major list of `n*n` entries (the model's `transform()`). -/
def matOfRows (n : ℕ) (l : List K) : Matrix (Fin n) (Fin n) K :=
  fun i j => l.getD (n * i.val + j.val) 0

/-- homogeneous coordinates of a point. -/
def homog2 (p : V2 K) : Fin 3 → K := ![p.x, p.y, 1]
def homog3 (p : V3 K) : Fin 4 → K := ![p.x, p.y, p.z, 1]

@[simp] theorem except_ok_bind {ε α β : Type} (a : α) (f : α → Except ε β) :
    (Except.ok a >>= f) = f a := rfl

theorem scale_eq {a b : K} (h : a = b) (c : K) : c * a = c * b := by rw [h]

/-! ## the constructor check passes on unit-norm data -/

theorem checkUnit_ok (dbg : Bool) (n : K) (h : n = 1) : checkUnit dbg n = .ok () := by
  subst h
  have : (0 : K) < Transc.eps := LawfulTransc.eps_pos
  simp [checkUnit, this]

/-! ## SO2 -/
namespace SO2
def Valid (X : SO2 K) : Prop := X.re * X.re + X.im * X.im = 1
def toMat (X : SO2 K) : Matrix (Fin 3) (Fin 3) K := X.transform.toMatrix

theorem norm_of_valid {X : SO2 K} (h : Valid X) : (V2.mk X.re X.im).norm = 1 := by
  unfold Valid at h
  simp [V2.norm, V2.sqNorm, h, LawfulTransc.sqrt_one]

theorem make_ok (dbg : Bool) {X : SO2 K} (h : Valid X) : make dbg X.re X.im = .ok X := by
  simp [make, checkUnit_ok dbg _ (norm_of_valid h)]

/-- `rotation()` (which goes through `atan2`, `cos`, `sin`) is the plain rotation matrix. -/
theorem rotation_eq {X : SO2 K} (h : Valid X) : X.rotation = ⟨X.re, -X.im, X.im, X.re⟩ := by
  unfold Valid at h
  simp [rotation, angle, LawfulTransc.cos_atan2 _ _ h, LawfulTransc.sin_atan2 _ _ h]

theorem toMat_eq {X : SO2 K} (h : Valid X) :
    toMat X = !![X.re, -X.im, 0; X.im, X.re, 0; 0, 0, 1] := by
  simp [toMat, transform, rotation_eq h, M3.toMatrix]

theorem valid_composeRaw {X Y : SO2 K} (hX : Valid X) (hY : Valid Y) :
    composeRaw X Y = ⟨X.re * Y.re - X.im * Y.im, X.re * Y.im + X.im * Y.re⟩ ∧
    Valid (composeRaw X Y) := by
  unfold Valid at *
  have hn : (X.re * Y.re - X.im * Y.im) * (X.re * Y.re - X.im * Y.im) +
      (X.re * Y.im + X.im * Y.re) * (X.re * Y.im + X.im * Y.re) = 1 := by
    linear_combination (Y.re * Y.re + Y.im * Y.im) * hX + hY
  have he : ¬ ((Transc.eps : K) < 0) := not_lt.mpr (le_of_lt LawfulTransc.eps_pos)
  constructor
  · simp [composeRaw, hn, he]
  · simp [composeRaw, hn, he]

/-- **C01/SO2 compose**: no exception, valid result, matrix of the product = product of matrices. -/
theorem toMat_compose (dbg : Bool) {X Y : SO2 K} (hX : Valid X) (hY : Valid Y) :
    ∃ Z, compose dbg X Y = .ok Z ∧ Valid Z ∧ toMat Z = toMat X * toMat Y := by
  obtain ⟨hc, hv⟩ := valid_composeRaw hX hY
  refine ⟨composeRaw X Y, ?_, hv, ?_⟩
  · have := make_ok dbg hv
    simpa [compose] using this
  · rw [toMat_eq hv, toMat_eq hX, toMat_eq hY, hc]
    ext i j
    fin_cases i <;> fin_cases j <;>
      simp [Matrix.mul_apply, Fin.sum_univ_three] <;> ring

/-- **C01/SO2 inverse**: two-sided matrix inverse. -/
theorem toMat_inverse (dbg : Bool) {X : SO2 K} (hX : Valid X) :
    ∃ Z, inverse dbg X = .ok Z ∧ Valid Z ∧ toMat Z * toMat X = 1 ∧ toMat X * toMat Z = 1 := by
  have hv : Valid (⟨X.re, -X.im⟩ : SO2 K) := by unfold Valid at *; simpa using hX
  refine ⟨⟨X.re, -X.im⟩, ?_, hv, ?_, ?_⟩
  · simpa [inverse] using make_ok dbg hv
  all_goals
    rw [toMat_eq hv, toMat_eq hX]
    unfold Valid at hX
    ext i j
    fin_cases i <;> fin_cases j <;>
      simp [Matrix.mul_apply, Fin.sum_univ_three] <;>
      first | ring1 | linear_combination hX | linear_combination (-1 : K) * hX

/-- **C01/SO2 identity** (`exp 0`). -/
theorem toMat_identity (dbg : Bool) :
    ∃ Z : SO2 K, SO2T.exp dbg ⟨0⟩ = .ok Z ∧ Valid Z ∧ toMat Z = 1 := by
  have hv : Valid (⟨1, 0⟩ : SO2 K) := by simp [Valid]
  refine ⟨⟨1, 0⟩, ?_, hv, ?_⟩
  · have := make_ok dbg hv
    simpa [SO2T.exp, LawfulTransc.sin_zero, LawfulTransc.cos_zero] using this
  · rw [toMat_eq hv]
    ext i j
    fin_cases i <;> fin_cases j <;> simp

/-- **C01/SO2 act**: the matrix applied to the point in homogeneous coordinates. -/
theorem act_eq {X : SO2 K} (hX : Valid X) (p : V2 K) :
    homog2 (act X p) = (toMat X).mulVec (homog2 p) := by
  rw [toMat_eq hX]
  simp only [act, rotation_eq hX]
  ext i
  fin_cases i <;>
    simp [homog2, M2.mulVec, Matrix.mulVec, dotProduct, Fin.sum_univ_three]

example : Valid (⟨3/5, 4/5⟩ : SO2 ℚ) := by norm_num [Valid]
end SO2

/-! ## SE2 -/
namespace SE2
def Valid (X : SE2 K) : Prop := X.re * X.re + X.im * X.im = 1
def toMat (X : SE2 K) : Matrix (Fin 3) (Fin 3) K := X.transform.toMatrix

theorem make_ok (dbg : Bool) {X : SE2 K} (h : Valid X) : make dbg X.x X.y X.re X.im = .ok X := by
  unfold Valid at h
  have : (V2.mk X.re X.im).norm = 1 := by simp [V2.norm, V2.sqNorm, h, LawfulTransc.sqrt_one]
  simp [make, checkUnit_ok dbg _ this]

theorem valid_composeRaw {X Y : SE2 K} (hX : Valid X) (hY : Valid Y) :
    composeRaw X Y = ⟨X.re * Y.x - X.im * Y.y + X.x, X.im * Y.x + X.re * Y.y + X.y,
      X.re * Y.re - X.im * Y.im, X.re * Y.im + X.im * Y.re⟩ ∧ Valid (composeRaw X Y) := by
  unfold Valid at *
  have hn : (X.re * Y.re - X.im * Y.im) * (X.re * Y.re - X.im * Y.im) +
      (X.re * Y.im + X.im * Y.re) * (X.re * Y.im + X.im * Y.re) = 1 := by
    linear_combination (Y.re * Y.re + Y.im * Y.im) * hX + hY
  have he : ¬ ((Transc.eps : K) < 0) := not_lt.mpr (le_of_lt LawfulTransc.eps_pos)
  constructor
  · simp [composeRaw, hn, he]
  · simp [composeRaw, hn, he]

/-- **C01/SE2 compose**. -/
theorem toMat_compose (dbg : Bool) {X Y : SE2 K} (hX : Valid X) (hY : Valid Y) :
    ∃ Z, compose dbg X Y = .ok Z ∧ Valid Z ∧ toMat Z = toMat X * toMat Y := by
  obtain ⟨hc, hv⟩ := valid_composeRaw hX hY
  refine ⟨composeRaw X Y, ?_, hv, ?_⟩
  · simpa [compose] using make_ok dbg hv
  · rw [hc]
    ext i j
    fin_cases i <;> fin_cases j <;>
      simp [toMat, transform, M3.toMatrix, Matrix.mul_apply, Fin.sum_univ_three] <;> ring

/-- the arithmetic of `inverse` on a valid element. -/
theorem inverseRaw_eq {X : SE2 K} (_hX : Valid X) :
    inverseRaw X = ⟨-X.x * X.re - X.y * X.im, X.x * X.im - X.y * X.re, X.re, -X.im⟩ := rfl

/-- **C01/SE2 inverse**. -/
theorem toMat_inverse (dbg : Bool) {X : SE2 K} (hX : Valid X) :
    ∃ Z, inverse dbg X = .ok Z ∧ Valid Z ∧ toMat Z * toMat X = 1 ∧ toMat X * toMat Z = 1 := by
  have hv : Valid (inverseRaw X) := by rw [inverseRaw_eq hX]; unfold Valid at *; simpa using hX
  refine ⟨inverseRaw X, ?_, hv, ?_, ?_⟩
  · simpa [inverse] using make_ok dbg hv
  all_goals
    rw [inverseRaw_eq hX]
    unfold Valid at hX
    ext i j
    fin_cases i <;> fin_cases j <;>
      simp [toMat, transform, M3.toMatrix, Matrix.mul_apply, Fin.sum_univ_three] <;>
      (first | ring1 | linarith [hX, scale_eq hX X.x, scale_eq hX X.y])

/-- **C01/SE2 identity** (`exp 0`; note the small-angle branch is the one taken). -/
theorem toMat_identity (dbg : Bool) :
    ∃ Z : SE2 K, SE2T.exp dbg ⟨0, 0, 0⟩ = .ok Z ∧ Valid Z ∧ toMat Z = 1 := by
  have hv : Valid (⟨0, 0, 1, 0⟩ : SE2 K) := by simp [Valid]
  have he : (0 : K) < Transc.eps := LawfulTransc.eps_pos
  refine ⟨⟨0, 0, 1, 0⟩, ?_, hv, ?_⟩
  · have := make_ok dbg hv
    simpa [SE2T.exp, SE2T.expRaw, SE2T.coefAB, he, LawfulTransc.sin_zero, LawfulTransc.cos_zero]
      using this
  · ext i j
    fin_cases i <;> fin_cases j <;> simp [toMat, transform, M3.toMatrix]

/-- **C01/SE2 act**. -/
theorem act_eq (X : SE2 K) (p : V2 K) :
    homog2 (act X p) = (toMat X).mulVec (homog2 p) := by
  ext i
  fin_cases i <;>
    simp [act, translation, rotation, V2.add, toMat, transform, homog2, M2.mulVec, M3.toMatrix,
      Matrix.mulVec, dotProduct, Fin.sum_univ_three] <;> ring

example : Valid (⟨1000000, -3, 5/13, -12/13⟩ : SE2 ℚ) := by norm_num [Valid]
end SE2

/-! ## SO3 and SE3 (unit quaternions, either hemisphere) -/

/-- the 4×4 homogeneous matrix `[R t; 0 1]`. -/
def hom4 (R : M3 K) (t : V3 K) : Matrix (Fin 4) (Fin 4) K :=
  !![R.a00, R.a01, R.a02, t.x; R.a10, R.a11, R.a12, t.y; R.a20, R.a21, R.a22, t.z; 0, 0, 0, 1]

theorem hom4_mul (R S : M3 K) (t u : V3 K) :
    hom4 R t * hom4 S u = hom4 (R.mul S) ((R.mulVec u).add t) := by
  ext i j
  fin_cases i <;> fin_cases j <;>
    simp [hom4, Matrix.mul_apply, Fin.sum_univ_four, M3.mul, M3.mulVec, V3.add, sum3] <;> ring

theorem hom4_one : hom4 (M3.one : M3 K) ⟨0, 0, 0⟩ = 1 := by
  ext i j
  fin_cases i <;> fin_cases j <;> simp [hom4, M3.one]

theorem hom4_mulVec (R : M3 K) (t : V3 K) (p : V3 K) :
    (hom4 R t).mulVec (homog3 p) = homog3 (t.add (R.mulVec p)) := by
  ext i
  fin_cases i <;>
    simp [hom4, homog3, Matrix.mulVec, dotProduct, Fin.sum_univ_four, M3.mulVec, V3.add, sum3] <;> ring

theorem quat_norm_of_sqn {q : Quat K} (h : q.sqn = 1) : q.norm = 1 := by
  simp [Quat.norm, Quat.sqNorm_eq, h, LawfulTransc.sqrt_one]

namespace SO3
def Valid (X : SO3 K) : Prop := X.q.sqn = 1
def toMat (X : SO3 K) : Matrix (Fin 4) (Fin 4) K := matOfRows 4 X.transformRows

theorem toMat_eq (X : SO3 K) : toMat X = hom4 X.rotation ⟨0, 0, 0⟩ := by
  ext i j
  fin_cases i <;> fin_cases j <;> simp [toMat, matOfRows, transformRows, hom4]

theorem make_ok (dbg : Bool) {X : SO3 K} (h : Valid X) : make dbg X.q = .ok X := by
  simp [make, checkUnit_ok dbg _ (quat_norm_of_sqn h)]

theorem composeRaw_eq {X Y : SO3 K} (hX : Valid X) (hY : Valid Y) :
    composeRaw X Y = X.q.mul Y.q := by
  unfold Valid at *
  have hn : (X.q.mul Y.q).sqNorm = 1 := by rw [Quat.sqNorm_eq, Quat.sqn_mul, hX, hY, one_mul]
  have he : ¬ ((Transc.eps : K) < 0) := not_lt.mpr (le_of_lt LawfulTransc.eps_pos)
  simp [composeRaw, hn, he]

/-- **C01/SO3 compose** -/
theorem toMat_compose (dbg : Bool) {X Y : SO3 K} (hX : Valid X) (hY : Valid Y) :
    ∃ Z, compose dbg X Y = .ok Z ∧ Valid Z ∧ toMat Z = toMat X * toMat Y := by
  have hv : Valid (⟨X.q.mul Y.q⟩ : SO3 K) := by
    unfold Valid at *; rw [Quat.sqn_mul, hX, hY, one_mul]
  refine ⟨⟨X.q.mul Y.q⟩, ?_, hv, ?_⟩
  · rw [compose, composeRaw_eq hX hY]; exact make_ok dbg hv
  · rw [toMat_eq, toMat_eq, toMat_eq, hom4_mul]
    simp only [rotation, Quat.toRot_mul _ _ hX hY]
    congr 1
    simp [M3.mulVec, V3.add, sum3]

/-- **C01/SO3 inverse** -/
theorem toMat_inverse (dbg : Bool) {X : SO3 K} (hX : Valid X) :
    ∃ Z, inverse dbg X = .ok Z ∧ Valid Z ∧ toMat Z * toMat X = 1 ∧ toMat X * toMat Z = 1 := by
  have hv : Valid (⟨X.q.conj⟩ : SO3 K) := by unfold Valid at *; rw [Quat.sqn_conj, hX]
  refine ⟨⟨X.q.conj⟩, make_ok dbg hv, hv, ?_, ?_⟩
  · rw [toMat_eq, toMat_eq, hom4_mul]
    simp only [rotation, Quat.toRot_conj _ hX, Quat.toRot_transpose_mul _ hX]
    rw [← hom4_one]; congr 1; simp [M3.mulVec, V3.add, sum3]
  · rw [toMat_eq, toMat_eq, hom4_mul]
    simp only [rotation, Quat.toRot_conj _ hX, Quat.toRot_mul_transpose _ hX]
    rw [← hom4_one]; congr 1; simp [M3.mulVec, V3.add, sum3]

/-- **C01/SO3 identity** (`exp 0` takes the small-angle branch `(0/2,0/2,0/2,1)`). -/
theorem toMat_identity (dbg : Bool) :
    ∃ Z : SO3 K, SO3T.exp dbg ⟨⟨0, 0, 0⟩⟩ = .ok Z ∧ Valid Z ∧ toMat Z = 1 := by
  have hv : Valid (⟨⟨0, 0, 0, 1⟩⟩ : SO3 K) := by simp [Valid, Quat.sqn]
  have he : ¬ ((Transc.eps : K) < 0) := not_lt.mpr (le_of_lt LawfulTransc.eps_pos)
  refine ⟨⟨⟨0, 0, 0, 1⟩⟩, ?_, hv, ?_⟩
  · have := make_ok dbg hv
    simpa [SO3T.exp, SO3T.expRaw, V3.sqNorm, sum3, he] using this
  · rw [toMat_eq, ← hom4_one]; congr 1
    apply M3.ext' <;> simp [rotation, Quat.toRot, M3.one]

/-- **C01/SO3 act** -/
theorem act_eq (X : SO3 K) (p : V3 K) :
    homog3 (act X p) = (toMat X).mulVec (homog3 p) := by
  rw [toMat_eq, hom4_mulVec]; congr 1
  simp [act, V3.add]

/-- a rational unit quaternion in the `w < 0` hemisphere and its antipode in `w > 0`. -/
example : Valid (⟨⟨2/5, 2/5, 4/5, -1/5⟩⟩ : SO3 ℚ) ∧ Valid (⟨⟨-2/5, -2/5, -4/5, 1/5⟩⟩ : SO3 ℚ) := by
  constructor <;> norm_num [Valid, Quat.sqn]
end SO3

namespace SE3
def Valid (X : SE3 K) : Prop := X.q.sqn = 1
def toMat (X : SE3 K) : Matrix (Fin 4) (Fin 4) K := matOfRows 4 X.transformRows

theorem toMat_eq (X : SE3 K) : toMat X = hom4 X.rotation X.t := by
  ext i j
  fin_cases i <;> fin_cases j <;> simp [toMat, matOfRows, transformRows, hom4]

theorem make_ok (dbg : Bool) {X : SE3 K} (h : Valid X) : make dbg X.t X.q = .ok X := by
  simp [make, checkUnit_ok dbg _ (quat_norm_of_sqn h)]

theorem make_ok' (dbg : Bool) (t : V3 K) {q : Quat K} (h : q.sqn = 1) :
    make dbg t q = .ok ⟨t, q⟩ := by
  simp [make, checkUnit_ok dbg _ (quat_norm_of_sqn h)]

/-- **C01/SE3 compose** -/
theorem toMat_compose (dbg : Bool) {X Y : SE3 K} (hX : Valid X) (hY : Valid Y) :
    ∃ Z, compose dbg X Y = .ok Z ∧ Valid Z ∧ toMat Z = toMat X * toMat Y := by
  have hXs : SO3.Valid X.asSO3 := hX
  have hYs : SO3.Valid Y.asSO3 := hY
  have hq : (X.q.mul Y.q).sqn = 1 := by unfold Valid at *; rw [Quat.sqn_mul, hX, hY, one_mul]
  refine ⟨⟨(X.rotation.mulVec Y.t).add X.t, X.q.mul Y.q⟩, ?_, hq, ?_⟩
  · have h1 : SO3.compose dbg X.asSO3 Y.asSO3 = .ok ⟨X.q.mul Y.q⟩ := by
      rw [SO3.compose, SO3.composeRaw_eq hXs hYs]; exact SO3.make_ok dbg (X := ⟨X.q.mul Y.q⟩) hq
    simp only [compose, h1, except_ok_bind]
    exact make_ok' dbg _ hq
  · rw [toMat_eq, toMat_eq, toMat_eq, hom4_mul]
    simp only [rotation, SO3.rotation, asSO3, Quat.toRot_mul _ _ hX hY]

/-- **C01/SE3 inverse** -/
theorem toMat_inverse (dbg : Bool) {X : SE3 K} (hX : Valid X) :
    ∃ Z, inverse dbg X = .ok Z ∧ Valid Z ∧ toMat Z * toMat X = 1 ∧ toMat X * toMat Z = 1 := by
  have hXs : SO3.Valid X.asSO3 := hX
  have hc : X.q.conj.sqn = 1 := by unfold Valid at hX; rw [Quat.sqn_conj, hX]
  have h1 : SO3.inverse dbg X.asSO3 = .ok ⟨X.q.conj⟩ := SO3.make_ok dbg (X := ⟨X.q.conj⟩) hc
  refine ⟨⟨((SO3.mk X.q.conj).act X.t).neg, X.q.conj⟩, ?_, hc, ?_, ?_⟩
  · simp only [inverse, h1, except_ok_bind]; exact make_ok' dbg _ hc
  · rw [toMat_eq, toMat_eq, hom4_mul, ← hom4_one]
    simp only [rotation, SO3.rotation, asSO3, SO3.act, Quat.toRot_conj _ hX,
      Quat.toRot_transpose_mul _ hX]
    congr 1
    simp only [M3.mulVec, V3.add, V3.neg, sum3]
    congr 1 <;> ring
  · rw [toMat_eq, toMat_eq, hom4_mul, ← hom4_one]
    simp only [rotation, SO3.rotation, asSO3, SO3.act, Quat.toRot_conj _ hX,
      Quat.toRot_mul_transpose _ hX]
    congr 1
    have h := Quat.toRot_mul_transpose _ hX
    have e := fun f : M3 K → K => congrArg f h
    have e00 := e M3.a00; have e01 := e M3.a01; have e02 := e M3.a02
    have e10 := e M3.a10; have e11 := e M3.a11; have e12 := e M3.a12
    have e20 := e M3.a20; have e21 := e M3.a21; have e22 := e M3.a22
    simp only [M3.mul, M3.transpose, M3.one, sum3, scalar_nat, Nat.cast_one, Nat.cast_zero] at e00 e01 e02 e10 e11 e12 e20 e21 e22
    simp only [M3.mulVec, M3.transpose, V3.add, V3.neg, sum3]
    congr 1
    · linear_combination (-X.t.x) * e00 - X.t.y * e01 - X.t.z * e02
    · linear_combination (-X.t.x) * e10 - X.t.y * e11 - X.t.z * e12
    · linear_combination (-X.t.x) * e20 - X.t.y * e21 - X.t.z * e22

/-- **C01/SE3 identity** -/
theorem toMat_identity (dbg : Bool) :
    ∃ Z : SE3 K, SE3T.exp dbg ⟨⟨0, 0, 0⟩, ⟨0, 0, 0⟩⟩ = .ok Z ∧ Valid Z ∧ toMat Z = 1 := by
  have hv : Valid (⟨⟨0, 0, 0⟩, ⟨0, 0, 0, 1⟩⟩ : SE3 K) := by simp [Valid, Quat.sqn]
  have he : ¬ ((Transc.eps : K) < 0) := not_lt.mpr (le_of_lt LawfulTransc.eps_pos)
  have he' : (0 : K) ≤ Transc.eps := le_of_lt LawfulTransc.eps_pos
  refine ⟨⟨⟨0, 0, 0⟩, ⟨0, 0, 0, 1⟩⟩, ?_, hv, ?_⟩
  · have h1 : SO3T.exp dbg (SE3T.asSO3 (⟨⟨0, 0, 0⟩, ⟨0, 0, 0⟩⟩ : SE3T K)) = .ok ⟨⟨0, 0, 0, 1⟩⟩ := by
      have := SO3.make_ok dbg (X := (⟨⟨0, 0, 0, 1⟩⟩ : SO3 K)) (by simp [SO3.Valid, Quat.sqn])
      simpa [SO3T.exp, SO3T.expRaw, SE3T.asSO3, V3.sqNorm, sum3, he] using this
    simp only [SE3T.exp, h1, except_ok_bind]
    have := make_ok dbg hv
    simpa [SE3T.asSO3, SO3T.ljac, V3.sqNorm, sum3, he', M3.mulVec, M3.add, M3.zip, M3.smul, M3.map,
      M3.one, SO3T.hat, M3.skew] using this
  · rw [toMat_eq, ← hom4_one]; congr 1
    apply M3.ext' <;> simp [rotation, SO3.rotation, asSO3, Quat.toRot, M3.one]

/-- **C01/SE3 act** -/
theorem act_eq (X : SE3 K) (p : V3 K) :
    homog3 (act X p) = (toMat X).mulVec (homog3 p) := by
  rw [toMat_eq, hom4_mulVec]; rfl

example : Valid (⟨⟨1000000, -2, 1/1000⟩, ⟨2/5, 2/5, 4/5, -1/5⟩⟩ : SE3 ℚ) := by
  norm_num [Valid, Quat.sqn]
end SE3

end Manif
