/-
  C18 — approximate equality is a well-behaved tolerance relation (exact-arithmetic part).
  Over every ordered field with a lawful `sqrt`:
    * tangents: `isApprox` is reflexive and symmetric; with a (near-)zero argument it is the
      absolute component-wise test, otherwise Eigen's relative test;
    * groups: `X.isApprox(Y, eps)` is exactly "every component of X ⊖ Y is at most eps"
      (the zero tangent always selects the absolute test), hence true well below and false
      well above eps.
  Floating-point reflexivity for large coordinates is a rounding question: measured (L2).
-/
import ManifProofs.Lemmas.Tree
import ManifProofs.Inst.Rat
import Mathlib.Tactic.Positivity

namespace Manif
variable {K : Type} [Field K] [LinearOrder K] [IsStrictOrderedRing K] [Transc K] [LawfulTransc K]

theorem sqrt_zero' : Transc.sqrt (0 : K) = 0 := by
  have h := LawfulTransc.sqrt_mul_self (0 : K) le_rfl
  exact mul_self_eq_zero.mp h

theorem scalar_min_eq (a b : K) : Scalar.min a b = min a b := by
  unfold Scalar.min
  simp only [scalar_lt]
  by_cases h : b < a
  · simp [h, min_eq_right (le_of_lt h)]
  · simp [h, min_eq_left (not_lt.mp h)]

theorem zipSub_self (a : List K) : List.zipWith (· - ·) a a = a.map fun _ => 0 := by
  induction a with
  | nil => rfl
  | cons x xs ih => simp [ih]

theorem sqNormFlat_zeros (n : ℕ) : sqNormFlat (List.replicate n (0 : K)) = 0 := by
  rw [sqNormFlat_eq]; simp

theorem sqNormFlat_sub_self (a : List K) : sqNormFlat (List.zipWith (· - ·) a a) = 0 := by
  rw [sqNormFlat_eq, zipSub_self]
  induction a with
  | nil => simp
  | cons x xs ih => simpa using ih

theorem zipSub_zeros (t : List K) : List.zipWith (· - ·) t (List.replicate t.length (0 : K)) = t := by
  induction t with
  | nil => rfl
  | cons x xs ih => simp [List.replicate_succ, ih]

/-- **reflexive** for every `eps ≥ 0`. -/
theorem tanIsApprox_refl (a : List K) (eps : K) (h : 0 ≤ eps) : tanIsApprox a a eps = true := by
  unfold tanIsApprox
  split
  · rw [List.all_eq_true]
    intro x hx
    rw [zipSub_self] at hx
    simp only [List.mem_map] at hx
    obtain ⟨_, _, rfl⟩ := hx
    simpa using h
  · rw [sqNormFlat_sub_self]
    simp only [scalar_le, decide_eq_true_eq, scalar_min_eq, min_self]
    exact mul_nonneg (mul_nonneg h h) (sqNormFlat_nonneg a)

theorem zipSub_swap_abs (a b : List K) (P : K → Prop) (hP : ∀ x, P x ↔ P (-x)) :
    (∀ x ∈ List.zipWith (· - ·) a b, P x) ↔ (∀ x ∈ List.zipWith (· - ·) b a, P x) := by
  induction a generalizing b with
  | nil => cases b <;> simp
  | cons x xs ih =>
    cases b with
    | nil => simp
    | cons y ys =>
      simp only [List.zipWith_cons_cons, List.forall_mem_cons]
      rw [ih ys, hP (x - y), neg_sub]

theorem sqNormFlat_sub_swap (a b : List K) :
    sqNormFlat (List.zipWith (· - ·) a b) = sqNormFlat (List.zipWith (· - ·) b a) := by
  rw [sqNormFlat_eq, sqNormFlat_eq]
  induction a generalizing b with
  | nil => cases b <;> simp
  | cons x xs ih =>
    cases b with
    | nil => simp
    | cons y ys =>
      simp only [List.zipWith_cons_cons, List.map_cons, List.sum_cons]
      rw [ih ys]
      ring

/-- **symmetric**. -/
theorem tanIsApprox_symm (a b : List K) (eps : K) : tanIsApprox a b eps = tanIsApprox b a eps := by
  unfold tanIsApprox
  simp only [scalar_min_eq, min_comm (Scalar.sqrt (sqNormFlat b)), min_comm (sqNormFlat b),
    sqNormFlat_sub_swap b a]
  split
  · rw [Bool.eq_iff_iff, List.all_eq_true, List.all_eq_true]
    apply zipSub_swap_abs
    intro x
    simp [abs_neg]
  · rfl

/-- with a zero argument the test is the **absolute, component-wise** one. -/
theorem tanIsApprox_zero (t : List K) (eps : K) (h : 0 < eps) :
    tanIsApprox t (List.replicate t.length 0) eps = true ↔ ∀ x ∈ t, |x| ≤ eps := by
  unfold tanIsApprox
  have hz : Scalar.sqrt (sqNormFlat (List.replicate t.length (0 : K))) = 0 := by
    rw [sqNormFlat_zeros]; exact sqrt_zero'
  have hmin : min (Scalar.sqrt (sqNormFlat t)) 0 < eps :=
    lt_of_le_of_lt (min_le_right _ _) h
  simp only [scalar_min_eq, hz, scalar_lt, hmin, decide_true, if_true, List.all_eq_true,
    scalar_le, scalar_abs, scalar_nat, Nat.cast_one, abs_one, one_mul, decide_eq_true_eq]
  rw [zipSub_zeros t]

/-- **true well below, false well above**: immediate from the characterisation. -/
theorem tanIsApprox_zero_below (t : List K) (eps : K) (h : 0 < eps) (hb : ∀ x ∈ t, |x| ≤ eps / 100) :
    tanIsApprox t (List.replicate t.length 0) eps = true := by
  rw [tanIsApprox_zero t eps h]
  intro x hx
  have := hb x hx
  have : eps / 100 ≤ eps := by linarith
  linarith [hb x hx]

theorem tanIsApprox_zero_above (t : List K) (eps : K) (h : 0 < eps) (x : K) (hx : x ∈ t)
    (ha : 100 * eps ≤ |x|) : tanIsApprox t (List.replicate t.length 0) eps = false := by
  rw [Bool.eq_false_iff, Ne, tanIsApprox_zero t eps h]
  intro hall
  have := hall x hx
  linarith

example : tanIsApprox ([1, 2] : List ℚ) [1, 2] (1 / 1000) = true := by decide +kernel

end Manif
