/-
  C04 (continued) — `between` as whole API calls over ℝ:
    SE_2(3), SGal(3): `X.compose(X.between(Y)) = Y` exactly (SGal(3)'s time coupling included), no exception raised.
-/
import ManifProofs.Properties.C04g

set_option linter.all false
namespace Manif
namespace SE23

/-- **SE_2(3): `X * X.between(Y) = Y`** exactly, as whole API calls. -/
theorem compose_between (dbg : Bool) {X Y : SE23 ℝ} (hX : Valid X) (hY : Valid Y) :
    (do let b ← se23Ops.between dbg X Y false false
        se23Ops.compose dbg X b.val) = (.ok Y : Except Err (SE23 ℝ)) := by
  have hXi : Valid (⟨((SO3.mk X.q.conj).act X.t).neg, X.q.conj, ((SO3.mk X.q.conj).act X.v).neg⟩ : SE23 ℝ) := by
    unfold Valid at *; simp only; rw [Quat.sqn_conj]; exact hX
  have hc1 := compose_ok dbg hXi hY
  simp only at hc1
  set Z : SE23 ℝ := ⟨((⟨((SO3.mk X.q.conj).act X.t).neg, X.q.conj, ((SO3.mk X.q.conj).act X.v).neg⟩ : SE23 ℝ).rotation.mulVec Y.t).add
      ((SO3.mk X.q.conj).act X.t).neg, X.q.conj.mul Y.q,
    ((⟨((SO3.mk X.q.conj).act X.t).neg, X.q.conj, ((SO3.mk X.q.conj).act X.v).neg⟩ : SE23 ℝ).rotation.mulVec Y.v).add
      ((SO3.mk X.q.conj).act X.v).neg⟩ with hZdef
  have hZ : Valid Z := by unfold Valid at *; simp only [hZdef]; rw [Quat.sqn_mul, Quat.sqn_conj, hX, hY, one_mul]
  have hc2 := compose_ok dbg hX hZ
  have hq : X.q.mul Z.q = Y.q := by
    simp only [hZdef]; rw [SO3.mul_conj_mul _ _ hX]
  have ht : (X.rotation.mulVec Z.t).add X.t = Y.t := by
    simp only [hZdef, rotation, SO3.rotation, asSO3, SO3.act]
    exact back X.q hX X.t Y.t
  have hv : (X.rotation.mulVec Z.v).add X.v = Y.v := by
    simp only [hZdef, rotation, SO3.rotation, asSO3, SO3.act]
    exact back X.q hX X.v Y.v
  rw [hq, ht, hv] at hc2
  simp only [GroupOps.between, se23Ops, inverse_ok dbg hX, hc1, except_ok_bind, hc2,
    bind, Except.bind, pure, Except.pure, Bool.false_eq_true, if_false, ↓reduceIte]
end SE23

namespace SGal3
/-- **SGal(3): `X * X.between(Y) = Y`** exactly, as whole API calls. -/
theorem compose_between (dbg : Bool) {X Y : SGal3 ℝ} (hX : Valid X) (hY : Valid Y) :
    (do let b ← sgal3Ops.between dbg X Y false false
        sgal3Ops.compose dbg X b.val) = (.ok Y : Except Err (SGal3 ℝ)) := by
  have hXi : Valid (⟨((SO3.mk X.q.conj).act (X.p.sub (X.v.smul X.t))).neg, X.q.conj, ((SO3.mk X.q.conj).act X.v).neg, -X.t⟩ : SGal3 ℝ) := by unfold Valid at *; simp only; rw [Quat.sqn_conj]; exact hX
  have hc1 := compose_ok dbg hXi hY
  simp only at hc1
  set Z : SGal3 ℝ := ⟨(((⟨((SO3.mk X.q.conj).act (X.p.sub (X.v.smul X.t))).neg, X.q.conj, ((SO3.mk X.q.conj).act X.v).neg, -X.t⟩ : SGal3 ℝ).rotation.mulVec Y.p).add ((((SO3.mk X.q.conj).act X.v).neg).smul Y.t)).add
      ((SO3.mk X.q.conj).act (X.p.sub (X.v.smul X.t))).neg, X.q.conj.mul Y.q,
    ((⟨((SO3.mk X.q.conj).act (X.p.sub (X.v.smul X.t))).neg, X.q.conj, ((SO3.mk X.q.conj).act X.v).neg, -X.t⟩ : SGal3 ℝ).rotation.mulVec Y.v).add ((SO3.mk X.q.conj).act X.v).neg, -X.t + Y.t⟩ with hZdef
  have hZ : Valid Z := by unfold Valid at *; simp only [hZdef]; rw [Quat.sqn_mul, Quat.sqn_conj, hX, hY, one_mul]
  have hZq : Z.q = X.q.conj.mul Y.q := rfl
  have hc2 := compose_ok dbg hX hZ
  have hq : X.q.mul Z.q = Y.q := by
    rw [hZq, SO3.mul_conj_mul _ _ hX]
  have hp : ((X.rotation.mulVec Z.p).add (X.v.smul Z.t)).add X.p = Y.p := by
    simp only [hZdef, rotation, SO3.rotation, asSO3, SO3.act]
    exact back_pos X.q hX X.p X.v Y.p X.t Y.t
  have hv : (X.rotation.mulVec Z.v).add X.v = Y.v := by
    simp only [hZdef, rotation, SO3.rotation, asSO3, SO3.act]
    exact SE23.back X.q hX X.v Y.v
  have ht : X.t + Z.t = Y.t := by simp only [hZdef]; ring
  rw [hq, hp, hv, ht] at hc2
  simp only [GroupOps.between, sgal3Ops, inverse_ok dbg hX, hc1, except_ok_bind, hc2,
    bind, Except.bind, pure, Except.pure, Bool.false_eq_true, if_false, ↓reduceIte]
end SGal3
end Manif
