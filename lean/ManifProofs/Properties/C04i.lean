/-
  C04 (continued) — SE3 over ℝ: `(X ⊕ t) ⊖ X = t` as whole API calls on the principal domain (closed-form
  branches, `θ ≤ π`).
-/
import ManifProofs.Properties.C03f

set_option linter.all false
namespace Manif
namespace SE3

/-- `R(q̄) (R(q) u) = u` for a unit quaternion -/
theorem rot_conj_rot (q : Quat ℝ) (hq : q.sqn = 1) (u : V3 ℝ) : q.conj.toRot.mulVec (q.toRot.mulVec u) = u := by
  have hc : q.conj.sqn = 1 := by rw [Quat.sqn_conj]; exact hq
  have h := rot_rot_conj q.conj hc u
  have e : q.conj.conj = q := by cases q; simp [Quat.conj]
  rw [e] at h
  exact h

/-- `R̄ (R a + b) − R̄ b = a` -/
theorem back' (q : Quat ℝ) (hq : q.sqn = 1) (a b : V3 ℝ) :
    (q.conj.toRot.mulVec ((q.toRot.mulVec a).add b)).add (q.conj.toRot.mulVec b).neg = a := by
  have hr1 := rot_conj_rot q hq a
  cases ha : a with
  | mk a0 a1 a2 =>
    cases hb : b with
    | mk b0 b1 b2 =>
      rw [ha] at hr1
      simp only [M3.mulVec, V3.add, V3.neg, sum3, V3.mk.injEq] at hr1 ⊢
      obtain ⟨e1, e2, e3⟩ := hr1
      refine ⟨?_, ?_, ?_⟩
      · linear_combination e1
      · linear_combination e2
      · linear_combination e3

/-- **SE3: `(X ⊕ t) ⊖ X = t`** as whole API calls. -/
theorem rminus_rplus (dbg : Bool) {X : SE3 ℝ} (hX : Valid X) (t : SE3T ℝ)
    (h : realEps < t.ang.x * t.ang.x + (t.ang.y * t.ang.y + t.ang.z * t.ang.z))
    (hpi : Real.sqrt (t.ang.x * t.ang.x + (t.ang.y * t.ang.y + t.ang.z * t.ang.z)) ≤ Real.pi)
    (hsw : realEps < Real.sin (1 / 2 * Real.sqrt (t.ang.x * t.ang.x + (t.ang.y * t.ang.y + t.ang.z * t.ang.z))) ^ 2) :
    (do let r ← se3Ops.rplus dbg X t false false
        let d ← se3Ops.rminus dbg r.val X false false
        pure d.val) = (.ok t : Except Err (SE3T ℝ)) := by
  have hEq : (SE3T.expRaw t).2.sqn = 1 := SO3.expRaw_unit t.asSO3 h
  have hE : Valid (⟨(SE3T.expRaw t).1, (SE3T.expRaw t).2⟩ : SE3 ℝ) := hEq
  have hso : SO3T.exp dbg t.asSO3 = .ok ⟨SO3T.expRaw t.asSO3⟩ := by
    unfold SO3T.exp; exact SO3.make_ok dbg (X := ⟨SO3T.expRaw t.asSO3⟩) hEq
  have he : SE3T.exp dbg t = .ok ⟨(SE3T.expRaw t).1, (SE3T.expRaw t).2⟩ := by
    unfold SE3T.exp
    simp only [hso, bind, Except.bind]
    exact make_ok' dbg _ hEq
  have hc1 := compose_ok dbg hX hE
  simp only at hc1
  have hXE : Valid (⟨(X.rotation.mulVec (SE3T.expRaw t).1).add X.t, X.q.mul (SE3T.expRaw t).2⟩ : SE3 ℝ) := by
    unfold Valid at *; simp only; rw [Quat.sqn_mul, hX, hEq, one_mul]
  have hXi : Valid (⟨((SO3.mk X.q.conj).act X.t).neg, X.q.conj⟩ : SE3 ℝ) := by unfold Valid at *; simp only; rw [Quat.sqn_conj]; exact hX
  have hc2 := compose_ok dbg hXi hXE
  simp only at hc2
  have hq : X.q.conj.mul (X.q.mul (SE3T.expRaw t).2) = (SE3T.expRaw t).2 := SO3.conj_mul_mul _ _ hX
  have ht : ((⟨((SO3.mk X.q.conj).act X.t).neg, X.q.conj⟩ : SE3 ℝ).rotation.mulVec ((X.rotation.mulVec (SE3T.expRaw t).1).add X.t)).add
      ((SO3.mk X.q.conj).act X.t).neg = (SE3T.expRaw t).1 := by
    simp only [rotation, SO3.rotation, asSO3, SO3.act]
    exact back' X.q hX _ _
  rw [hq, ht] at hc2
  have hl := log_exp t h hpi hsw
  simp only [GroupOps.rminus, GroupOps.rplus, se3Ops, he, hc1, inverse_ok dbg hX, hc2, hl, except_ok_bind,
    bind, Except.bind, pure, Except.pure, Bool.false_eq_true, if_false, ↓reduceIte]
end SE3
end Manif
