/-
  C04 (continued) — SGal(3) over ℝ: `(X ⊕ t) ⊖ X = t` as whole API calls on the principal domain (the time coupling of
  compose and inverse cancels).
-/
import ManifProofs.Properties.C04j

set_option linter.all false
namespace Manif
namespace SGal3

theorem exp_ok (dbg : Bool) (t : SGal3T ℝ) (h : realEps < t.ang.x * t.ang.x + (t.ang.y * t.ang.y + t.ang.z * t.ang.z)) :
    SGal3T.exp dbg t = .ok ⟨((SO3T.ljac t.asSO3).mulVec t.lin).add ((SGal3T.fillE t.asSO3).mulVec (t.lin2.smul t.t)),
      SO3T.expRaw t.asSO3, (SO3T.ljac t.asSO3).mulVec t.lin2, t.t⟩ := by
  have hEq : (SO3T.expRaw t.asSO3).sqn = 1 := SO3.expRaw_unit t.asSO3 h
  have hexp : SO3T.exp dbg t.asSO3 = .ok ⟨SO3T.expRaw t.asSO3⟩ := by
    unfold SO3T.exp; exact SO3.make_ok dbg (X := ⟨SO3T.expRaw t.asSO3⟩) hEq
  unfold SGal3T.exp
  simp only [hexp, bind, Except.bind]
  exact make_ok' dbg _ _ _ hEq

/-- position of `X⁻¹ · (X · E)` -/
theorem back_pos' (q : Quat ℝ) (hq : q.sqn = 1) (px vx pe : V3 ℝ) (tx te : ℝ) :
    ((q.conj.toRot.mulVec (((q.toRot.mulVec pe).add (vx.smul te)).add px)).add (((q.conj.toRot.mulVec vx).neg).smul (tx + te))).add
      ((q.conj.toRot.mulVec (px.sub (vx.smul tx))).neg) = pe := by
  have hr1 := SE3.rot_conj_rot q hq pe
  cases hy : pe with
  | mk y0 y1 y2 =>
    cases hx : px with
    | mk x0 x1 x2 =>
      cases hv : vx with
      | mk v0 v1 v2 =>
        rw [hy] at hr1
        simp only [M3.mulVec, V3.add, V3.sub, V3.neg, V3.smul, sum3, V3.mk.injEq] at hr1 ⊢
        obtain ⟨a1, a2, a3⟩ := hr1
        refine ⟨?_, ?_, ?_⟩
        · linear_combination a1
        · linear_combination a2
        · linear_combination a3

/-- **SGal(3): `(X ⊕ t) ⊖ X = t`** as whole API calls. -/
theorem rminus_rplus (dbg : Bool) {X : SGal3 ℝ} (hX : Valid X) (t : SGal3T ℝ)
    (h : realEps < t.ang.x * t.ang.x + (t.ang.y * t.ang.y + t.ang.z * t.ang.z))
    (hpi : Real.sqrt (t.ang.x * t.ang.x + (t.ang.y * t.ang.y + t.ang.z * t.ang.z)) ≤ Real.pi)
    (hsw : realEps < Real.sin (1 / 2 * Real.sqrt (t.ang.x * t.ang.x + (t.ang.y * t.ang.y + t.ang.z * t.ang.z))) ^ 2) :
    (do let r ← sgal3Ops.rplus dbg X t false false
        let d ← sgal3Ops.rminus dbg r.val X false false
        pure d.val) = (.ok t : Except Err (SGal3T ℝ)) := by
  have hEq : (SO3T.expRaw t.asSO3).sqn = 1 := SO3.expRaw_unit t.asSO3 h
  have he := exp_ok dbg t h
  set E : SGal3 ℝ := ⟨((SO3T.ljac t.asSO3).mulVec t.lin).add ((SGal3T.fillE t.asSO3).mulVec (t.lin2.smul t.t)),
      SO3T.expRaw t.asSO3, (SO3T.ljac t.asSO3).mulVec t.lin2, t.t⟩ with hEdef
  have hE : Valid E := hEq
  have hc1 := compose_ok dbg hX hE
  have hXE : Valid (⟨((X.rotation.mulVec E.p).add (X.v.smul E.t)).add X.p, X.q.mul E.q, (X.rotation.mulVec E.v).add X.v, X.t + E.t⟩ : SGal3 ℝ) := by
    unfold Valid at *; simp only; rw [Quat.sqn_mul, hX, hE, one_mul]
  have hXi : Valid (⟨((SO3.mk X.q.conj).act (X.p.sub (X.v.smul X.t))).neg, X.q.conj, ((SO3.mk X.q.conj).act X.v).neg, -X.t⟩ : SGal3 ℝ) := by
    unfold Valid at *; simp only; rw [Quat.sqn_conj]; exact hX
  have hc2 := compose_ok dbg hXi hXE
  have hq : X.q.conj.mul (X.q.mul E.q) = E.q := SO3.conj_mul_mul _ _ hX
  have hp : (((⟨((SO3.mk X.q.conj).act (X.p.sub (X.v.smul X.t))).neg, X.q.conj, ((SO3.mk X.q.conj).act X.v).neg, -X.t⟩ : SGal3 ℝ).rotation.mulVec
      (((X.rotation.mulVec E.p).add (X.v.smul E.t)).add X.p)).add ((((SO3.mk X.q.conj).act X.v).neg).smul (X.t + E.t))).add
      ((SO3.mk X.q.conj).act (X.p.sub (X.v.smul X.t))).neg = E.p := by
    simp only [rotation, SO3.rotation, asSO3, SO3.act]; exact back_pos' X.q hX _ _ _ _ _
  have hv : ((⟨((SO3.mk X.q.conj).act (X.p.sub (X.v.smul X.t))).neg, X.q.conj, ((SO3.mk X.q.conj).act X.v).neg, -X.t⟩ : SGal3 ℝ).rotation.mulVec
      ((X.rotation.mulVec E.v).add X.v)).add ((SO3.mk X.q.conj).act X.v).neg = E.v := by
    simp only [rotation, SO3.rotation, asSO3, SO3.act]; exact SE3.back' X.q hX _ _
  have ht : -X.t + (X.t + E.t) = E.t := by ring
  simp only at hc2
  rw [hq, hp, hv, ht] at hc2
  have hl := log_exp dbg t h hpi hsw
  rw [he] at hl
  simp only [Except.map, Except.ok.injEq] at hl
  simp only [GroupOps.rminus, GroupOps.rplus, sgal3Ops, he, hc1, inverse_ok dbg hX, hc2, hl, except_ok_bind,
    bind, Except.bind, pure, Except.pure, Bool.false_eq_true, if_false, ↓reduceIte]
end SGal3
end Manif
