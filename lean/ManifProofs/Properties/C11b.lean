/-
  C11 (continued) — "exact zeros elsewhere": an entry of a block-diagonal Jacobian built by the bundle model whose
  row and column do not fall into one common diagonal block is the scalar zero, whatever the blocks contain
  (every scalar instance, NaN entries included).
-/
import ManifProofs.Properties.C11
set_option linter.all false
namespace Manif
variable {K : Type} [Scalar K]

/-- **exact zeros outside the diagonal blocks**: an entry `(i, j)` of `blockDiag` whose row and column do not
    fall into one common block is the scalar zero `nat 0` — whatever the blocks contain (NaN included). -/
theorem blockDiag_off (bs : List Nat) (blocks : List (List K)) (i j : Nat)
    (hi : i < bs.foldl (· + ·) 0) (hj : j < bs.foldl (· + ·) 0)
    (h : ∀ x ∈ List.zip (List.zip (computeIndices bs) bs) blocks,
      ¬ (x.1.1 ≤ i ∧ i < x.1.1 + x.1.2 ∧ x.1.1 ≤ j ∧ j < x.1.1 + x.1.2)) :
    ((blockDiag bs blocks).getD i []).getD j (Scalar.nat 1) = (Scalar.nat 0 : K) := by
  unfold blockDiag
  simp only
  have hf : (List.zip (List.zip (computeIndices bs) bs) blocks).find? (fun x =>
      decide (x.1.1 ≤ i ∧ i < x.1.1 + x.1.2 ∧ x.1.1 ≤ j ∧ j < x.1.1 + x.1.2)) = none := by
    rw [List.find?_eq_none]
    intro x hx
    simpa using h x hx
  simp only [List.getD_eq_getElem?_getD, List.getElem?_map, List.getElem?_range hi, Option.map_some, Option.getD_some,
    List.getElem?_range hj, hf]
end Manif
