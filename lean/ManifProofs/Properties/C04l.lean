/-
  C04 (continued) — SE2 over ℝ: `(X ⊕ t) ⊖ X = t` as whole API calls for `−π < θ ≤ π` (non-degenerate `(A, B)` pair).
-/
import ManifProofs.Properties.C03h

set_option linter.all false
namespace Manif
namespace SE2

theorem expRaw_valid (t : SE2T ℝ) : Valid (SE2T.expRaw t) := by
  unfold Valid
  have := Real.sin_sq_add_cos_sq t.ang
  simp only [SE2T.expRaw, scalar_cos, scalar_sin, transc_cos_real, transc_sin_real]
  nlinarith [this]

/-- **SE2: `(X ⊕ t) ⊖ X = t`** as whole API calls. -/
theorem rminus_rplus (dbg : Bool) {X : SE2 ℝ} (hX : Valid X) (t : SE2T ℝ) (h1 : -Real.pi < t.ang) (h2 : t.ang ≤ Real.pi)
    (hAB : (SE2T.coefAB t.ang (Real.cos t.ang) (Real.sin t.ang)).1 * (SE2T.coefAB t.ang (Real.cos t.ang) (Real.sin t.ang)).1 +
      (SE2T.coefAB t.ang (Real.cos t.ang) (Real.sin t.ang)).2 * (SE2T.coefAB t.ang (Real.cos t.ang) (Real.sin t.ang)).2 ≠ 0) :
    (do let r ← se2Ops.rplus dbg X t false false
        let d ← se2Ops.rminus dbg r.val X false false
        pure d.val) = (.ok t : Except Err (SE2T ℝ)) := by
  have hE := expRaw_valid t
  have he : SE2T.exp dbg t = .ok (SE2T.expRaw t) := by
    unfold SE2T.exp; exact make_ok dbg hE
  set E := SE2T.expRaw t with hEdef
  have hc1 := compose_ok dbg hX hE
  have hXE : Valid (⟨X.re * E.x - X.im * E.y + X.x, X.im * E.x + X.re * E.y + X.y, X.re * E.re - X.im * E.im, X.re * E.im + X.im * E.re⟩ : SE2 ℝ) := by
    unfold Valid at *; simp only; linear_combination (E.re * E.re + E.im * E.im) * hX + hE
  have hXi : Valid (⟨-X.x * X.re - X.y * X.im, X.x * X.im - X.y * X.re, X.re, -X.im⟩ : SE2 ℝ) := by
    unfold Valid at *; simpa using hX
  have hc2 := compose_ok dbg hXi hXE
  simp only at hc2
  have hfin : (⟨X.re * (X.re * E.x - X.im * E.y + X.x) - -X.im * (X.im * E.x + X.re * E.y + X.y) + (-X.x * X.re - X.y * X.im),
      -X.im * (X.re * E.x - X.im * E.y + X.x) + X.re * (X.im * E.x + X.re * E.y + X.y) + (X.x * X.im - X.y * X.re),
      X.re * (X.re * E.re - X.im * E.im) - -X.im * (X.re * E.im + X.im * E.re),
      X.re * (X.re * E.im + X.im * E.re) + -X.im * (X.re * E.re - X.im * E.im)⟩ : SE2 ℝ) = E := by
    unfold Valid at hX
    cases hE' : E with
    | mk a b c d =>
      congr 1
      · linear_combination a * hX
      · linear_combination b * hX
      · linear_combination c * hX
      · linear_combination d * hX
  rw [hfin] at hc2
  have hl := log_exp t h1 h2 hAB
  rw [← hEdef] at hl
  simp only [GroupOps.rminus, GroupOps.rplus, se2Ops, he, hc1, inverse_ok dbg hX, hc2, hl, except_ok_bind,
    bind, Except.bind, pure, Except.pure, Bool.false_eq_true, if_false, ↓reduceIte]
end SE2
end Manif
