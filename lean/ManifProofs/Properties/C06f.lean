/-
  C06 (continued) — SE_2(3): `Jl⁻¹ · Jl = I` as 9×9 block matrices in the model's own block product, from the SO3
  identity; both `Q` blocks cancel as in SE3.
-/
import ManifProofs.Properties.C06e
set_option linter.all false
namespace Manif
open Matrix

theorem M9.ext' {K : Type} {a b : M9 K} (h0 : a.b00 = b.b00) (h1 : a.b01 = b.b01) (h2 : a.b02 = b.b02)
    (h3 : a.b10 = b.b10) (h4 : a.b11 = b.b11) (h5 : a.b12 = b.b12) (h6 : a.b20 = b.b20) (h7 : a.b21 = b.b21)
    (h8 : a.b22 = b.b22) : a = b := by
  cases a; cases b; simp_all

namespace SE23T
/-- **SE_2(3): `Jl⁻¹ · Jl = I`** (9×9, the model's block product), closed-form branch, away from the pole of the
    inverse: both `Q` blocks cancel as in SE3. -/
theorem ljacinv_mul_ljac (t : SE23T ℝ) (h : realEps < t.ang.x * t.ang.x + (t.ang.y * t.ang.y + t.ang.z * t.ang.z))
    (hs : Real.sin (Real.sqrt (t.ang.x * t.ang.x + (t.ang.y * t.ang.y + t.ang.z * t.ang.z)) / 2) ≠ 0) :
    (ljacinv t).mul (ljac t) = M9.one := by
  have h3 := SO3T.ljacinv_mul_ljac t.asSO3 h hs
  set Ji := SO3T.ljacinv t.asSO3 with hJi
  set J := SO3T.ljac t.asSO3 with hJ
  unfold ljacinv ljac M9.mul M9.one
  simp only [← hJi, ← hJ]
  apply M9.ext' <;> apply M3.toMatrix_injective <;>
    simp only [M3.toMatrix_add, M3.toMatrix_mul, M3.toMatrix_neg, M3.toMatrix_zero, M3.toMatrix_one, mul_zero, zero_mul, add_zero, zero_add, h3] <;>
    first
      | rfl
      | (rw [Matrix.mul_assoc (-Ji.toMatrix * _), h3, mul_one, neg_mul]; first | exact add_neg_cancel _ | exact neg_add_cancel _)
end SE23T
end Manif
