/-
  C04 (continued) — `between` as whole API calls, every ordered field with lawful trig:
    SO2, SE2: `X.compose(X.between(Y)) = Y` exactly, no exception raised.
-/
import ManifProofs.Properties.C04c

set_option linter.all false
namespace Manif
variable {K : Type} [Field K] [LinearOrder K] [IsStrictOrderedRing K] [Transc K] [LawfulTransc K]
namespace SO2

/-- **SO2: `X * X.between(Y) = Y`** exactly, as whole API calls. -/
theorem compose_between (dbg : Bool) {X Y : SO2 K} (hX : Valid X) (hY : Valid Y) :
    (do let b ← so2Ops.between dbg X Y false false
        so2Ops.compose dbg X b.val) = (.ok Y : Except Err (SO2 K)) := by
  have hXi : Valid (⟨X.re, -X.im⟩ : SO2 K) := by unfold Valid at *; simpa using hX
  have hc1 := compose_ok dbg hXi hY
  have hZ : Valid (⟨X.re * Y.re - -X.im * Y.im, X.re * Y.im + -X.im * Y.re⟩ : SO2 K) := by
    unfold Valid at *
    linear_combination (Y.re * Y.re + Y.im * Y.im) * hX + hY
  have hc2 := compose_ok dbg hX hZ
  unfold Valid at hX
  have hfin : (⟨X.re * (X.re * Y.re - -X.im * Y.im) - X.im * (X.re * Y.im + -X.im * Y.re),
      X.re * (X.re * Y.im + -X.im * Y.re) + X.im * (X.re * Y.re - -X.im * Y.im)⟩ : SO2 K) = Y := by
    cases Y with
    | mk c d =>
      congr 1
      · linear_combination c * hX
      · linear_combination d * hX
  simp only at hc2
  rw [hfin] at hc2
  simp only [GroupOps.between, so2Ops, inverse_ok dbg hX, hc1, except_ok_bind, hc2,
    bind, Except.bind, pure, Except.pure, Bool.false_eq_true, if_false, ↓reduceIte]
end SO2

namespace SE2
/-- **SE2: `X * X.between(Y) = Y`** exactly, as whole API calls. -/
theorem compose_between (dbg : Bool) {X Y : SE2 K} (hX : Valid X) (hY : Valid Y) :
    (do let b ← se2Ops.between dbg X Y false false
        se2Ops.compose dbg X b.val) = (.ok Y : Except Err (SE2 K)) := by
  have hXi : Valid (⟨-X.x * X.re - X.y * X.im, X.x * X.im - X.y * X.re, X.re, -X.im⟩ : SE2 K) := by
    unfold Valid at *; simpa using hX
  have hc1 := compose_ok dbg hXi hY
  simp only at hc1
  have hZ : Valid (⟨X.re * Y.x - -X.im * Y.y + (-X.x * X.re - X.y * X.im), -X.im * Y.x + X.re * Y.y + (X.x * X.im - X.y * X.re),
      X.re * Y.re - -X.im * Y.im, X.re * Y.im + -X.im * Y.re⟩ : SE2 K) := by
    unfold Valid at *; simp only
    linear_combination (Y.re * Y.re + Y.im * Y.im) * hX + hY
  have hc2 := compose_ok dbg hX hZ
  simp only at hc2
  unfold Valid at hX
  have hfin : (⟨X.re * (X.re * Y.x - -X.im * Y.y + (-X.x * X.re - X.y * X.im)) - X.im * (-X.im * Y.x + X.re * Y.y + (X.x * X.im - X.y * X.re)) + X.x,
      X.im * (X.re * Y.x - -X.im * Y.y + (-X.x * X.re - X.y * X.im)) + X.re * (-X.im * Y.x + X.re * Y.y + (X.x * X.im - X.y * X.re)) + X.y,
      X.re * (X.re * Y.re - -X.im * Y.im) - X.im * (X.re * Y.im + -X.im * Y.re),
      X.re * (X.re * Y.im + -X.im * Y.re) + X.im * (X.re * Y.re - -X.im * Y.im)⟩ : SE2 K) = Y := by
    cases Y with
    | mk a b c d =>
      congr 1
      · linear_combination (a - X.x) * hX
      · linear_combination (b - X.y) * hX
      · linear_combination c * hX
      · linear_combination d * hX
  rw [hfin] at hc2
  simp only [GroupOps.between, se2Ops, inverse_ok dbg hX, hc1, except_ok_bind, hc2,
    bind, Except.bind, pure, Except.pure, Bool.false_eq_true, if_false, ↓reduceIte]
end SE2
end Manif
