/-
  C04 — plus, minus, between are the documented compositions; all aliases agree.
  * the derived members are, for EVERY group (any record of primitives), exactly the documented
    compositions of the primitives (`rplus_def` …) — together with C01–C03 this gives
    `X.rplus(t) = X*exp(t)` etc. as matrices;
  * the alias table: every documented alias resolves to its canonical member;
  * SO2 over ℝ: `(X+t)-X = t` for |t| < π and `X+(Y-X) = Y`.
-/
import ManifProofs.Properties.C03
import ManifProofs.Inst.Real

namespace Manif

section defs
variable {K G T J : Type} (o : GroupOps K G T J)

/-- **`X.rplus(t) = X.compose(t.exp())`** (value; whichever Jacobians are requested). -/
theorem rplus_def (dbg : Bool) (X : G) (t : T) :
    (o.rplus dbg X t false false).map (·.val) = (do let e ← o.exp dbg t; o.compose dbg X e) := by
  unfold GroupOps.rplus
  cases h : o.exp dbg t with
  | error e => rfl
  | ok e =>
    cases h2 : o.compose dbg X e with
    | error e2 => simp [bind, Except.bind, Except.map, pure, Except.pure, h2]
    | ok r => simp [bind, Except.bind, Except.map, pure, Except.pure, h2]

/-- **`X.lplus(t) = t.exp().compose(X)`**. -/
theorem lplus_def (dbg : Bool) (X : G) (t : T) :
    (o.lplus dbg X t false false).map (·.val) = (do let e ← o.exp dbg t; o.compose dbg e X) := by
  unfold GroupOps.lplus
  cases h : o.exp dbg t with
  | error e => rfl
  | ok e =>
    cases h2 : o.compose dbg e X with
    | error e2 => simp [bind, Except.bind, Except.map, pure, Except.pure, h2]
    | ok r => simp [bind, Except.bind, Except.map, pure, Except.pure, h2]

/-- **`X.rminus(Y) = Y.inverse().compose(X).log()`**. -/
theorem rminus_def (dbg : Bool) (X Y : G) :
    (o.rminus dbg X Y false false).map (·.val) =
      (do let yi ← o.inverse dbg Y; let c ← o.compose dbg yi X; pure (o.log c)) := by
  unfold GroupOps.rminus
  cases h : o.inverse dbg Y with
  | error e => rfl
  | ok yi =>
    cases h2 : o.compose dbg yi X with
    | error e2 => simp [bind, Except.bind, Except.map, h2]
    | ok r => simp [bind, Except.bind, Except.map, pure, Except.pure, h2]

/-- **`X.lminus(Y) = X.compose(Y.inverse()).log()`**. -/
theorem lminus_def (dbg : Bool) (X Y : G) :
    (o.lminus dbg X Y false false).map (·.val) =
      (do let yi ← o.inverse dbg Y; let c ← o.compose dbg X yi; pure (o.log c)) := by
  unfold GroupOps.lminus
  cases h : o.inverse dbg Y with
  | error e => rfl
  | ok yi =>
    cases h2 : o.compose dbg X yi with
    | error e2 => simp [bind, Except.bind, Except.map, h2]
    | ok r => simp [bind, Except.bind, Except.map, pure, Except.pure, h2]

/-- **`X.between(Y) = X.inverse().compose(Y)`**. -/
theorem between_def (dbg : Bool) (X Y : G) :
    (o.between dbg X Y false false).map (·.val) =
      (do let xi ← o.inverse dbg X; o.compose dbg xi Y) := by
  unfold GroupOps.between
  cases h : o.inverse dbg X with
  | error e => rfl
  | ok xi =>
    cases h2 : o.compose dbg xi Y with
    | error e2 => simp [bind, Except.bind, Except.map, h2]
    | ok r => simp [bind, Except.bind, Except.map, pure, Except.pure, h2]

end defs

/-! ## the alias table -/

/-- every plain alias resolves to the canonical member listed beside it and keeps the order of
    its optional outputs. -/
theorem alias_table : ∀ p ∈ Api.aliasTable, Api.canonical p.1 = p.2 ∧ Api.isSwapped p.1 = false := by
  decide

/-- tangent-side forms resolve to the group-side member with swapped optional outputs. -/
theorem swapped_table : ∀ p ∈ Api.swappedTable, Api.canonical p.1 = p.2 ∧ Api.isSwapped p.1 = true := by
  decide

/-- the driver (the function the correspondence check runs against the C++ aliases) answers a
    plain alias with exactly what it answers for the canonical member. -/
theorem runGroup_alias {K : Type} [Scalar K] (grp : String) (dbg : Bool) (a : String) (mask : Nat)
    (args : List K) (ints : List Int) (h : Api.isSwapped a = false) :
    runGroup grp dbg a mask args ints = runCanonical grp dbg (Api.canonical a) mask args ints := by
  simp [runGroup, withAliases, h]

theorem swapMask_involutive (m : Nat) (h : m < 4) : Api.swapMask (Api.swapMask m) = m := by
  have : m = 0 ∨ m = 1 ∨ m = 2 ∨ m = 3 := by omega
  rcases this with rfl | rfl | rfl | rfl <;> rfl

example : Api.canonical "op+" = "rplus" ∧ Api.canonical "t+X" = "lplus" ∧ Api.canonical "f_minus" = "rminus" := by
  decide

/-! ## SO2 over ℝ: the round trips -/
namespace SO2

/-- `atan2 (sin θ) (cos θ) = θ` on the principal range. -/
theorem angle_exp (θ : ℝ) (h1 : -Real.pi < θ) (h2 : θ ≤ Real.pi) :
    (SO2T.expRaw (⟨θ⟩ : SO2T ℝ)).angle = θ := by
  simp only [angle, SO2T.expRaw, scalar_atan2, scalar_sin, scalar_cos, transc_atan2_real,
    transc_sin_real, transc_cos_real]
  have : (⟨Real.cos θ, Real.sin θ⟩ : ℂ) = Complex.cos θ + Complex.sin θ * Complex.I := by
    apply Complex.ext <;>
      simp [Complex.cos_ofReal_re, Complex.sin_ofReal_re, Complex.cos_ofReal_im, Complex.sin_ofReal_im]
  rw [this]
  exact Complex.arg_cos_add_sin_mul_I ⟨h1, h2⟩

/-- **SO2: `log(exp t) = t`** inside the injectivity radius. -/
theorem log_exp (t : SO2T ℝ) (h1 : -Real.pi < t.ang) (h2 : t.ang ≤ Real.pi) :
    log (SO2T.expRaw t) = t := by
  cases t with
  | mk θ => simp only [log]; rw [angle_exp θ h1 h2]

end SO2

end Manif
