/-
  C11 — a Bundle is the direct product of its element groups (index arithmetic, every layout).
  For EVERY list of element sizes (no bound on the number or sizes of the elements):
    * `compute_indices` (transcribed from the template recursion of traits.h) is the exclusive
      prefix sum of the sizes;
    * the slices it induces tile the flat vector: consecutive, disjoint, in order, covering it —
      so `element<i>()` views alias exactly the i-th element's coefficients.
  Every bundle member of the model is *defined* as "slice, run the element's own model, place at
  the element's offset" (Bundle.lean), so bundle-op = blockwise-op holds there by construction;
  the correspondence check ties that model, and the standalone C++ groups, to the C++ bundle.
-/
import ManifModel
import Mathlib.Tactic.Ring
import Mathlib.Tactic.Linarith
import Mathlib.Algebra.BigOperators.Group.List.Basic

namespace Manif

theorem computeIndicesGen_spec : ∀ (sizes : List Nat) (i : Nat) (outs : List Nat), sizes ≠ [] →
    computeIndicesGen i sizes outs =
      0 :: (outs ++ (List.range (sizes.length - 1)).map fun k => i + (sizes.take (k + 1)).sum)
  | [], _, _, h => absurd rfl h
  | [_], i, outs, _ => by simp [computeIndicesGen]
  | j :: r :: rest, i, outs, _ => by
    have e : computeIndicesGen i (j :: r :: rest) outs =
        computeIndicesGen (i + j) (r :: rest) (outs ++ [i + j]) := by simp [computeIndicesGen]
    rw [e, computeIndicesGen_spec (r :: rest) (i + j) (outs ++ [i + j]) (by simp)]
    simp only [List.length_cons, Nat.add_sub_cancel, List.append_assoc, List.singleton_append]
    congr 2
    rw [List.range_succ_eq_map, List.map_cons, List.map_map]
    simp only [List.take_succ_cons, List.take_zero, List.sum_cons, List.sum_nil, Nat.add_zero,
      List.cons.injEq, true_and]
    apply List.map_congr_left
    intro k _
    simp only [Function.comp, List.take_succ_cons, List.sum_cons]
    omega

/-- **`compute_indices` is the exclusive prefix sum**: entry `k` is the sum of the first `k` sizes. -/
theorem computeIndices_eq (sizes : List Nat) :
    computeIndices sizes = (List.range sizes.length).map fun k => (sizes.take k).sum := by
  cases sizes with
  | nil => rfl
  | cons s rest =>
    unfold computeIndices
    rw [computeIndicesGen_spec (s :: rest) 0 [] (by simp)]
    simp only [List.length_cons, Nat.add_sub_cancel, List.nil_append, Nat.zero_add]
    rw [List.range_succ_eq_map, List.map_cons, List.map_map]
    simp [Function.comp]

theorem computeIndices_length (sizes : List Nat) : (computeIndices sizes).length = sizes.length := by
  rw [computeIndices_eq]; simp

/-- offsets are increasing by exactly the element sizes: element `k+1` starts where `k` ends. -/
theorem computeIndices_succ (sizes : List Nat) (k : Nat) (h : k + 1 < sizes.length) :
    (computeIndices sizes)[k + 1]'(by rw [computeIndices_length]; exact h) =
      (computeIndices sizes)[k]'(by rw [computeIndices_length]; omega) + sizes[k]'(by omega) := by
  simp only [computeIndices_eq, List.getElem_map, List.getElem_range]
  rw [List.take_add_one, List.sum_append]
  simp [List.getElem?_eq_getElem (by omega : k < sizes.length)]

/-- the slices of the model, as a recursion -/
def slicesRec {K : Type} : List Nat → List K → List (List K)
  | [], _ => []
  | s :: rest, l => l.take s :: slicesRec rest (l.drop s)

theorem slicesRec_flatten {K : Type} (sizes : List Nat) (l : List K) :
    (slicesRec sizes l).flatten = l.take sizes.sum := by
  induction sizes generalizing l with
  | nil => simp [slicesRec]
  | cons s rest ih =>
    simp only [slicesRec, List.flatten_cons, ih, List.sum_cons]
    rw [List.take_add]

theorem zipWith_offsets {K : Type} (sizes : List Nat) (l : List K) (a : Nat) :
    List.zipWith (fun off sz => (l.drop off).take sz)
      ((List.range sizes.length).map fun k => a + (sizes.take k).sum) sizes =
      slicesRec sizes (l.drop a) := by
  induction sizes generalizing a with
  | nil => rfl
  | cons s rest ih =>
    rw [List.length_cons, List.range_succ_eq_map, List.map_cons, List.map_map]
    simp only [List.take_zero, List.sum_nil, Nat.add_zero, List.zipWith_cons_cons, slicesRec,
      List.cons.injEq, true_and]
    have := ih (a + s)
    rw [List.drop_drop]
    rw [← this]
    congr 1
    apply List.map_congr_left
    intro k _
    simp only [Function.comp, List.take_succ_cons, List.sum_cons]
    omega

theorem slices_eq_rec {K : Type} (sizes : List Nat) (l : List K) : slices sizes l = slicesRec sizes l := by
  unfold slices
  rw [computeIndices_eq]
  have := zipWith_offsets sizes l 0
  simpa using this

/-- **the slices tile the vector**: concatenated in order they give the vector back — they are
    consecutive, pairwise disjoint and cover it; `element<i>()` is the i-th of them. -/
theorem slices_tile {K : Type} (sizes : List Nat) (l : List K) (h : l.length = sizes.sum) :
    (slices sizes l).flatten = l := by
  rw [slices_eq_rec, slicesRec_flatten, ← h, List.take_length]

theorem slices_lengths {K : Type} (sizes : List Nat) (l : List K) (h : l.length = sizes.sum) :
    (slices sizes l).map List.length = sizes := by
  rw [slices_eq_rec]
  induction sizes generalizing l with
  | nil => rfl
  | cons s rest ih =>
    simp only [slicesRec, List.map_cons, List.length_take, List.cons.injEq]
    simp only [List.sum_cons] at h
    refine ⟨by omega, ih (l.drop s) (by simp; omega)⟩

example : computeIndices [7, 4, 2, 10] = [0, 7, 11, 13] := by decide
example : slices [2, 3] [1, 2, 3, 4, 5] = [[1, 2], [3, 4, 5]] := by decide

end Manif
