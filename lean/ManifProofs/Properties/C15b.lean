/-
  C15 (continued) — SO3 SLERP end points as whole API calls over ℝ:
  `interpolate(A, B, 1) = ±B` (the same rotation; relative rotation above log's switch-over) and
  `interpolate(A, B, 0) = A` exactly.
-/
import ManifProofs.Properties.C04d
import ManifProofs.Properties.C15

set_option linter.all false
namespace Manif
namespace SO3

theorem rminusV_ok (dbg : Bool) {X Y : SO3 ℝ} (hX : Valid X) (hY : Valid Y) :
    so3Ops.rminusV dbg Y X = .ok (log ⟨X.q.conj.mul Y.q⟩) := by
  have hXi : Valid (⟨X.q.conj⟩ : SO3 ℝ) := by unfold Valid at *; rw [Quat.sqn_conj]; exact hX
  have hc1 := compose_ok dbg hXi hY
  simp only at hc1
  simp only [GroupOps.rminusV, GroupOps.rminus, so3Ops, inverse_ok dbg hX, hc1, bind, Except.bind, pure, Except.pure,
    Except.map]

theorem muls_one (v : V3 ℝ) : v.muls 1 = v := by cases v; simp [V3.muls]

/-- **SO3 slerp, `t = 1`**: `interpolate(A, B, 1) = ±B`. -/
theorem slerp_one (dbg : Bool) {A B : SO3 ℝ} (hA : Valid A) (hB : Valid B)
    (h : realEps < (A.q.conj.mul B.q).x * (A.q.conj.mul B.q).x +
      ((A.q.conj.mul B.q).y * (A.q.conj.mul B.q).y + (A.q.conj.mul B.q).z * (A.q.conj.mul B.q).z)) :
    so3Ops.interpSlerp dbg A B 1 =
      .ok ⟨if (A.q.conj.mul B.q).w < 0 then ⟨-B.q.x, -B.q.y, -B.q.z, -B.q.w⟩ else B.q⟩ := by
  have hu : inUnit (1 : ℝ) = true := by simp [inUnit]
  have hZ : Valid (⟨A.q.conj.mul B.q⟩ : SO3 ℝ) := by unfold Valid at *; rw [Quat.sqn_mul, Quat.sqn_conj, hA, hB, one_mul]
  have hel := exp_log_api dbg ⟨A.q.conj.mul B.q⟩ hZ h
  have hcv : Valid (⟨canon (A.q.conj.mul B.q)⟩ : SO3 ℝ) := by unfold Valid; rw [canon_sqn]; exact hZ
  have hc2 := compose_ok dbg hA hcv
  have hfin : A.q.mul (canon (A.q.conj.mul B.q)) =
      if (A.q.conj.mul B.q).w < 0 then ⟨-B.q.x, -B.q.y, -B.q.z, -B.q.w⟩ else B.q := by
    rw [mul_canon, mul_conj_mul _ _ hA]
  simp only at hc2 hel
  unfold GroupOps.interpSlerp
  rw [rminusV_ok dbg hA hB]
  simp only [hu, GroupOps.rplusV, GroupOps.rplus, so3Ops, muls_one,
    Bool.not_true, Bool.false_eq_true, if_false, bind, Except.bind, pure, Except.pure, Except.map]
  have hl : (⟨(log (⟨A.q.conj.mul B.q⟩ : SO3 ℝ)).v⟩ : SO3T ℝ) = log ⟨A.q.conj.mul B.q⟩ := rfl
  rw [hl, hel]
  simp only [hc2, hfin]

theorem muls_zero (v : V3 ℝ) : v.muls 0 = ⟨0, 0, 0⟩ := by cases v; simp [V3.muls]

/-- **SO3 slerp, `t = 0`**: `interpolate(A, B, 0) = A` exactly. -/
theorem slerp_zero (dbg : Bool) {A B : SO3 ℝ} (hA : Valid A) (hB : Valid B) :
    so3Ops.interpSlerp dbg A B 0 = .ok A := by
  have hu : inUnit (0 : ℝ) = true := by simp [inUnit]
  have hI : Valid (⟨⟨0, 0, 0, 1⟩⟩ : SO3 ℝ) := by simp [Valid, Quat.sqn]
  have he : SO3T.exp dbg (⟨⟨0, 0, 0⟩⟩ : SO3T ℝ) = .ok ⟨⟨0, 0, 0, 1⟩⟩ := by
    have := make_ok dbg hI
    have hn : ¬ (realEps < 0) := not_lt.mpr realEps_pos.le
    simpa [SO3T.exp, SO3T.expRaw, V3.sqNorm, sum3, hn] using this
  have hc2 := compose_ok dbg hA hI
  have hfin : A.q.mul ⟨0, 0, 0, 1⟩ = A.q := by
    cases A with | mk q => cases q; simp [Quat.mul]
  simp only at hc2
  unfold GroupOps.interpSlerp
  rw [rminusV_ok dbg hA hB]
  simp only [hu, GroupOps.rplusV, GroupOps.rplus, so3Ops, muls_zero,
    Bool.not_true, Bool.false_eq_true, if_false, bind, Except.bind, pure, Except.pure, Except.map, he, hc2, hfin]
end SO3
end Manif
