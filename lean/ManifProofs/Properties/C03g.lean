/-
  C03 (continued) — SE_2(3) and SGal(3) over ℝ: `log(exp t) = t` on the closed-form branches with `θ ≤ π`:
  rotation part by `SO3.log_exp`, every translation-like part by `Jl⁻¹(θ)·(Jl(θ)·u) = u`; SGal(3)'s `E` matrix cancels
  because `exp` and `log` evaluate it at the same `θ`.
-/
import ManifProofs.Properties.C04i

set_option linter.all false
namespace Manif
open Matrix
namespace SO3

/-- `Jl⁻¹(θ) · (Jl(θ) · u) = u` -/
theorem ljacinv_ljac_apply (t : SO3T ℝ) (h : realEps < t.v.x * t.v.x + (t.v.y * t.v.y + t.v.z * t.v.z))
    (hs : Real.sin (Real.sqrt (t.v.x * t.v.x + (t.v.y * t.v.y + t.v.z * t.v.z)) / 2) ≠ 0) (u : V3 ℝ) :
    (SO3T.ljacinv t).mulVec ((SO3T.ljac t).mulVec u) = u := by
  have hinv := SO3T.ljacinv_mul_ljac t h hs
  have hv : ((SO3T.ljacinv t).mulVec ((SO3T.ljac t).mulVec u)).toVec = u.toVec := by
    rw [M3.toVec_mulVec, M3.toVec_mulVec, Matrix.mulVec_mulVec, hinv, Matrix.one_mulVec]
  have e := fun i => congrFun hv i
  have e0 := e 0; have e1 := e 1; have e2 := e 2
  simp only [V3.toVec, Matrix.cons_val_zero, Matrix.cons_val_one, Matrix.cons_val_two, Matrix.head_cons, Matrix.tail_cons] at e0 e1 e2
  cases hx : (SO3T.ljacinv t).mulVec ((SO3T.ljac t).mulVec u) with
  | mk a b c =>
    rw [hx] at e0 e1 e2
    cases hl : u with
    | mk p q r =>
      rw [hl] at e0 e1 e2
      simp only at e0 e1 e2
      rw [e0, e1, e2]

theorem sin_half_ne (θ : ℝ) (hsw : realEps < Real.sin (1 / 2 * θ) ^ 2) : Real.sin (θ / 2) ≠ 0 := by
  intro h0
  have e : θ / 2 = 1 / 2 * θ := by ring
  rw [e] at h0
  rw [h0] at hsw
  have := realEps_pos
  norm_num at hsw
  linarith
end SO3

namespace SE23
theorem log_exp (dbg : Bool) (t : SE23T ℝ) (h : realEps < t.ang.x * t.ang.x + (t.ang.y * t.ang.y + t.ang.z * t.ang.z))
    (hpi : Real.sqrt (t.ang.x * t.ang.x + (t.ang.y * t.ang.y + t.ang.z * t.ang.z)) ≤ Real.pi)
    (hsw : realEps < Real.sin (1 / 2 * Real.sqrt (t.ang.x * t.ang.x + (t.ang.y * t.ang.y + t.ang.z * t.ang.z))) ^ 2) :
    (SE23T.exp dbg t).map log = .ok t := by
  have hso := SO3.log_exp t.asSO3 h hpi hsw
  have hs := SO3.sin_half_ne _ hsw
  have h1 := SO3.ljacinv_ljac_apply t.asSO3 h hs t.lin
  have h2 := SO3.ljacinv_ljac_apply t.asSO3 h hs t.lin2
  have hEq : (SO3T.expRaw t.asSO3).sqn = 1 := SO3.expRaw_unit t.asSO3 h
  have hexp : SO3T.exp dbg t.asSO3 = .ok ⟨SO3T.expRaw t.asSO3⟩ := by
    unfold SO3T.exp; exact SO3.make_ok dbg (X := ⟨SO3T.expRaw t.asSO3⟩) hEq
  unfold SE23T.exp
  simp only [hexp, bind, Except.bind]
  rw [make_ok' dbg _ _ hEq]
  simp only [Except.map, log, asSO3]
  have hso' : SO3.log ⟨SO3T.expRaw t.asSO3⟩ = t.asSO3 := hso
  rw [hso', h1, h2]
  cases t
  rfl
end SE23

namespace SGal3
theorem log_exp (dbg : Bool) (t : SGal3T ℝ) (h : realEps < t.ang.x * t.ang.x + (t.ang.y * t.ang.y + t.ang.z * t.ang.z))
    (hpi : Real.sqrt (t.ang.x * t.ang.x + (t.ang.y * t.ang.y + t.ang.z * t.ang.z)) ≤ Real.pi)
    (hsw : realEps < Real.sin (1 / 2 * Real.sqrt (t.ang.x * t.ang.x + (t.ang.y * t.ang.y + t.ang.z * t.ang.z))) ^ 2) :
    (SGal3T.exp dbg t).map log = .ok t := by
  have hso := SO3.log_exp t.asSO3 h hpi hsw
  have hs := SO3.sin_half_ne _ hsw
  have h1 := SO3.ljacinv_ljac_apply t.asSO3 h hs t.lin
  have h2 := SO3.ljacinv_ljac_apply t.asSO3 h hs t.lin2
  have hEq : (SO3T.expRaw t.asSO3).sqn = 1 := SO3.expRaw_unit t.asSO3 h
  have hexp : SO3T.exp dbg t.asSO3 = .ok ⟨SO3T.expRaw t.asSO3⟩ := by
    unfold SO3T.exp; exact SO3.make_ok dbg (X := ⟨SO3T.expRaw t.asSO3⟩) hEq
  unfold SGal3T.exp
  simp only [hexp, bind, Except.bind]
  rw [make_ok' dbg _ _ _ hEq]
  simp only [Except.map, log, asSO3]
  have hso' : SO3.log ⟨SO3T.expRaw t.asSO3⟩ = t.asSO3 := hso
  rw [hso', h2]
  have hp : (((SO3T.ljac t.asSO3).mulVec t.lin).add ((SGal3T.fillE t.asSO3).mulVec (t.lin2.smul t.t))).sub
      ((SGal3T.fillE t.asSO3).mulVec (t.lin2.smul t.t)) = (SO3T.ljac t.asSO3).mulVec t.lin := by
    cases (SO3T.ljac t.asSO3).mulVec t.lin; cases (SGal3T.fillE t.asSO3).mulVec (t.lin2.smul t.t); simp [V3.add, V3.sub]
  rw [hp, h1]
  cases t
  rfl
end SGal3
end Manif
