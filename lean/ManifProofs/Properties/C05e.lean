/-
  C05 (continued) — SGal(3) composition Jacobian w.r.t. the first argument (`J_mc_ma = Adj(Y⁻¹)`), dual numbers:
  position part with the time coupling (`ρ` row `[R, −t R, [p − v t]× R, v]` of the model's `adj`), velocity part
  (instance of the SE3 lemma); the time part is additive and the rotation part is the SO3 theorem.
-/
import ManifProofs.Properties.C05d
set_option linter.all false
set_option maxRecDepth 8000
namespace Manif
variable {K : Type} [Field K] [LinearOrder K] [IsStrictOrderedRing K] [Transc K] [LawfulTransc K]
namespace SGal3

/-- `R_Y · ρ'` for the `ρ`-row of `Adj(Y⁻¹)`: `ρ + t_Y ν − ι v_Y + θ × p_Y` -/
theorem adj_inv_rho (q : Quat K) (hq : q.sqn = 1) (p v rho nu th : V3 K) (t iota : K) :
    q.toRot.mulVec ((((q.conj.toRot.mulVec rho).add ((M3.smul (-(-t)) q.conj.toRot).mulVec nu)).add
        (((M3.skew (((q.conj.toRot.mulVec (p.sub (v.smul t))).neg).sub (((q.conj.toRot.mulVec v).neg).smul (-t)))).mul q.conj.toRot).mulVec th)).add
        (((q.conj.toRot.mulVec v).neg).smul iota)) =
      ((rho.add (nu.smul t)).add ((M3.skew th).mulVec p)).sub (v.smul iota) := by
  unfold Quat.sqn at hq
  apply SE3.v3ext <;>
    simp [Quat.toRot, Quat.conj, M3.mulVec, M3.mul, M3.skew, M3.smul, M3.map, V3.add, V3.sub, V3.neg, V3.smul, sum3] <;>
    ring_nf <;>
    first
      | done
      | linear_combination (4*(iota*q.x*q.y*v.y + iota*q.x*q.z*v.z - iota*q.y^2*v.x - iota*q.z^2*v.x + nu.x*q.y^2*t + nu.x*q.z^2*t - nu.y*q.x*q.y*t - nu.z*q.x*q.z*t - p.y*q.x^2*th.z - p.y*q.y^2*th.z - p.y*q.z^2*th.z + p.z*q.x^2*th.y + p.z*q.y^2*th.y + p.z*q.z^2*th.y - q.x*q.y*rho.y - q.x*q.z*rho.z + q.y^2*rho.x + q.z^2*rho.x)) * hq
      | linear_combination (-4*(iota*q.x^2*v.y - iota*q.x*q.y*v.x - iota*q.y*q.z*v.z + iota*q.z^2*v.y + nu.x*q.x*q.y*t - nu.y*q.x^2*t - nu.y*q.z^2*t + nu.z*q.y*q.z*t - p.x*q.x^2*th.z - p.x*q.y^2*th.z - p.x*q.z^2*th.z + p.z*q.x^2*th.x + p.z*q.y^2*th.x + p.z*q.z^2*th.x - q.x^2*rho.y + q.x*q.y*rho.x + q.y*q.z*rho.z - q.z^2*rho.y)) * hq
      | linear_combination (-4*(iota*q.x^2*v.z - iota*q.x*q.z*v.x + iota*q.y^2*v.z - iota*q.y*q.z*v.y + nu.x*q.x*q.z*t + nu.y*q.y*q.z*t - nu.z*q.x^2*t - nu.z*q.y^2*t + p.x*q.x^2*th.y + p.x*q.y^2*th.y + p.x*q.z^2*th.y - p.y*q.x^2*th.x - p.y*q.y^2*th.x - p.y*q.z^2*th.x - q.x^2*rho.z + q.x*q.z*rho.x - q.y^2*rho.z + q.y*q.z*rho.y)) * hq

theorem pos_linear (R : M3 (Dual K)) (py vx px vy rho nu w u : V3 K) (ty iota : K)
    (hu : u = ((rho.add (nu.smul ty)).add w).sub (vy.smul iota)) :
    (((R.mulVec ((SE3.liftV py).add (SE3.epsV w))).add (((R.mulVec (SE3.epsV nu)).add (SE3.liftV vx)).smul (Dual.lift ty))).add
        (((R.mulVec (SE3.epsV rho)).add ((SE3.liftV vx).smul (⟨0, iota⟩ : Dual K))).add (SE3.liftV px))) =
      (((R.mulVec (SE3.epsV u)).add (((R.mulVec (SE3.liftV vy)).add (SE3.liftV vx)).smul (⟨0, iota⟩ : Dual K))).add
        (((R.mulVec (SE3.liftV py)).add ((SE3.liftV vx).smul (Dual.lift ty))).add (SE3.liftV px))) := by
  subst hu
  apply SE3.v3ext <;> apply Dual.ext' <;>
    simp [SE3.liftV, SE3.epsV, M3.mulVec, V3.add, V3.sub, V3.smul, sum3] <;> ring1

/-- **SGal(3) compose, first argument, position part** (`J_mc_ma = Adj(Y⁻¹)`, `ρ` row incl. the time coupling):
    the position of `(X ⊞ εd)·Y` is that of `(X·Y) ⊞ ε(Adj(Y⁻¹) d)`. -/
theorem compose_Ja_pos (qx qy : Quat K) (px py vx vy rho nu th : V3 K) (ty iota : K) (hx : qx.sqn = 1) (hy : qy.sqn = 1) :
    (((((SO3.liftQ qx).mul (SO3.pertQ th)).toRot.mulVec (SE3.liftV py)).add
        ((((SO3.liftQ qx).toRot.mulVec (SE3.epsV nu)).add (SE3.liftV vx)).smul (Dual.lift ty))).add
        ((((SO3.liftQ qx).toRot.mulVec (SE3.epsV rho)).add ((SE3.liftV vx).smul (⟨0, iota⟩ : Dual K))).add (SE3.liftV px))) =
      (((((SO3.liftQ qx).mul (SO3.liftQ qy)).toRot.mulVec (SE3.epsV
          ((((qy.conj.toRot.mulVec rho).add ((M3.smul (-(-ty)) qy.conj.toRot).mulVec nu)).add
            (((M3.skew (((qy.conj.toRot.mulVec (py.sub (vy.smul ty))).neg).sub (((qy.conj.toRot.mulVec vy).neg).smul (-ty)))).mul qy.conj.toRot).mulVec th)).add
            (((qy.conj.toRot.mulVec vy).neg).smul iota)))).add
          ((((SO3.liftQ qx).toRot.mulVec (SE3.liftV vy)).add (SE3.liftV vx)).smul (⟨0, iota⟩ : Dual K))).add
        ((((SO3.liftQ qx).toRot.mulVec (SE3.liftV py)).add ((SE3.liftV vx).smul (Dual.lift ty))).add (SE3.liftV px))) := by
  rw [SE3.rot_mul_pert qx hx, SE3.rot_mul_eps qx qy hx hy, adj_inv_rho qy hy]
  exact pos_linear _ _ _ _ _ _ _ _ _ _ _ rfl

/-- velocity part: the SE3 lemma with `(t, dl) ↦ (v, ν)` — the `ν` row of `Adj(Y⁻¹)` is `[0, R, [v]×R, 0]`. -/
theorem compose_Ja_vel (qx qy : Quat K) (vx vy nu th : V3 K) (hx : qx.sqn = 1) (hy : qy.sqn = 1) :
    ((((SO3.liftQ qx).mul (SO3.pertQ th)).toRot.mulVec (SE3.liftV vy)).add
        (((SO3.liftQ qx).toRot.mulVec (SE3.epsV nu)).add (SE3.liftV vx))) =
      ((((SO3.liftQ qx).mul (SO3.liftQ qy)).toRot.mulVec
          (SE3.epsV ((qy.conj.toRot.mulVec nu).add
            (((M3.skew ((qy.conj.toRot.mulVec vy).neg)).mul qy.conj.toRot).mulVec th)))).add
        (((SO3.liftQ qx).toRot.mulVec (SE3.liftV vy)).add (SE3.liftV vx))) :=
  SE3.compose_Ja_trans qx qy vx vy nu th hx hy

theorem rot_lift_eps (q : Quat K) (u : V3 K) :
    (SO3.liftQ q).toRot.mulVec (SE3.epsV u) = SE3.epsV (q.toRot.mulVec u) := by
  apply SE3.v3ext <;> apply Dual.ext' <;>
    simp [Quat.toRot, SO3.liftQ, SE3.epsV, M3.mulVec, sum3]

/-- **SGal(3) compose, second argument, position part** (`J_mc_mb = I`): the position of `X·(Y ⊞ εd)` is that of
    `(X·Y) ⊞ εd` — `p_XY + R_XY ερ + v_XY ει`. -/
theorem compose_Jb_pos (qx qy : Quat K) (px py vx vy rho : V3 K) (ty iota : K) (hx : qx.sqn = 1) (hy : qy.sqn = 1) :
    ((((SO3.liftQ qx).toRot.mulVec ((((SO3.liftQ qy).toRot.mulVec (SE3.epsV rho)).add ((SE3.liftV vy).smul (⟨0, iota⟩ : Dual K))).add
          (SE3.liftV py))).add ((SE3.liftV vx).smul (Dual.lift ty + (⟨0, iota⟩ : Dual K)))).add (SE3.liftV px)) =
      (((((SO3.liftQ qx).mul (SO3.liftQ qy)).toRot.mulVec (SE3.epsV rho)).add
          ((((SO3.liftQ qx).toRot.mulVec (SE3.liftV vy)).add (SE3.liftV vx)).smul (⟨0, iota⟩ : Dual K))).add
        ((((SO3.liftQ qx).toRot.mulVec (SE3.liftV py)).add ((SE3.liftV vx).smul (Dual.lift ty))).add (SE3.liftV px))) := by
  rw [SE3.rot_mul_eps qx qy hx hy, rot_lift_eps]
  generalize (SO3.liftQ qx).toRot = R
  generalize qy.toRot.mulVec rho = w
  apply SE3.v3ext <;> apply Dual.ext' <;>
    simp [SE3.liftV, SE3.epsV, M3.mulVec, V3.add, V3.smul, sum3] <;> ring1

/-- the rows of `adj (Y⁻¹)` used above (`Y⁻¹ = (−R̄(p − v t), q̄, −R̄ v, −t)` on a valid `Y`) -/
theorem adj_inverse_rows (q : Quat K) (p v : V3 K) (t : K) :
    adj (⟨(q.conj.toRot.mulVec (p.sub (v.smul t))).neg, q.conj, (q.conj.toRot.mulVec v).neg, -t⟩ : SGal3 K) =
      rows10 ⟨q.conj.toRot, M3.smul (-(-t)) q.conj.toRot,
          (M3.skew (((q.conj.toRot.mulVec (p.sub (v.smul t))).neg).sub (((q.conj.toRot.mulVec v).neg).smul (-t)))).mul q.conj.toRot,
          M3.zero, q.conj.toRot, (M3.skew ((q.conj.toRot.mulVec v).neg)).mul q.conj.toRot,
          M3.zero, M3.zero, q.conj.toRot⟩ ((q.conj.toRot.mulVec v).neg) V3.zero V3.zero (Scalar.nat 1) := rfl
/-- **SGal(3) act, w.r.t. the element** (`J_pout_m = [R | 0 | −R[x]× | v]`, the model's `actJm`):
    `(X ⊞ εd)·x = X·x + ε (R ρ − R [x]× θ + v ι)`. -/
theorem act_Jm (q : Quat K) (px vx x rho th : V3 K) (iota : K) (hq : q.sqn = 1) :
    (((((SO3.liftQ q).toRot.mulVec (SE3.epsV rho)).add ((SE3.liftV vx).smul (⟨0, iota⟩ : Dual K))).add (SE3.liftV px)).add
        (((SO3.liftQ q).mul (SO3.pertQ th)).toRot.mulVec (SE3.liftV x))) =
      ((SE3.liftV (px.add (q.toRot.mulVec x))).add
        (SE3.epsV (((q.toRot.mulVec rho).add ((q.toRot.neg.mul (M3.skew x)).mulVec th)).add (vx.smul iota)))) := by
  rw [SE3.rot_mul_pert q hq]
  have hn : q.toRot.neg = ⟨-q.toRot.a00, -q.toRot.a01, -q.toRot.a02, -q.toRot.a10, -q.toRot.a11, -q.toRot.a12,
      -q.toRot.a20, -q.toRot.a21, -q.toRot.a22⟩ := rfl
  rw [hn]
  apply SE3.v3ext <;> apply Dual.ext' <;>
    simp [Quat.toRot, SO3.liftQ, SE3.liftV, SE3.epsV, M3.mulVec, M3.mul, M3.skew, V3.add, V3.smul, sum3] <;> ring1

/-- **SGal(3) inverse, velocity part** (`J_minv_m = −Adj_X`, `ν` row `[0, R, [v]× R, 0]`): instance of the SE3 lemma. -/
theorem inverse_J_vel (q : Quat K) (v nu th : V3 K) (hq : q.sqn = 1) :
    ((((SO3.liftQ q).mul (SO3.pertQ th)).conj.toRot.mulVec
        (((SO3.liftQ q).toRot.mulVec (SE3.epsV nu)).add (SE3.liftV v))).neg) =
      (SE3.liftV ((q.conj.toRot.mulVec v).neg)).add
        ((SO3.liftQ q.conj).toRot.mulVec (SE3.epsV (((q.toRot.mulVec nu).add (((M3.skew v).mul q.toRot).mulVec th)).neg))) :=
  SE3.inverse_J_trans q v nu th hq
end SGal3
end Manif
