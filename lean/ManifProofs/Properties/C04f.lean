/-
  C04 (continued) — SE_2(3) over ℝ: `X ⊕ (Y ⊖ X) = Y` as whole API calls: position and velocity exactly, quaternion
  up to sign, whenever the relative rotation is above log's switch-over.
-/
import ManifProofs.Properties.C04e

set_option linter.all false
namespace Manif
namespace SE23

theorem compose_ok (dbg : Bool) {X Y : SE23 ℝ} (hX : Valid X) (hY : Valid Y) :
    compose dbg X Y = .ok ⟨(X.rotation.mulVec Y.t).add X.t, X.q.mul Y.q, (X.rotation.mulVec Y.v).add X.v⟩ := by
  have hXs : SO3.Valid X.asSO3 := hX
  have hYs : SO3.Valid Y.asSO3 := hY
  have hq : (X.q.mul Y.q).sqn = 1 := by unfold Valid at *; rw [Quat.sqn_mul, hX, hY, one_mul]
  have h1 : SO3.compose dbg X.asSO3 Y.asSO3 = .ok ⟨X.q.mul Y.q⟩ := SO3.compose_ok dbg hXs hYs
  simp only [compose, h1, except_ok_bind]
  exact make_ok' dbg _ _ hq

theorem inverse_ok (dbg : Bool) {X : SE23 ℝ} (hX : Valid X) :
    inverse dbg X = .ok ⟨((SO3.mk X.q.conj).act X.t).neg, X.q.conj, ((SO3.mk X.q.conj).act X.v).neg⟩ := by
  have hc : X.q.conj.sqn = 1 := by unfold Valid at hX; rw [Quat.sqn_conj, hX]
  have h1 : SO3.inverse dbg X.asSO3 = .ok ⟨X.q.conj⟩ := SO3.make_ok dbg (X := ⟨X.q.conj⟩) hc
  simp only [inverse, h1, except_ok_bind]
  exact make_ok' dbg _ _ hc

/-- `R(q)(R(q̄) y − R(q̄) x) + x = y` -/
theorem back (q : Quat ℝ) (hq : q.sqn = 1) (x y : V3 ℝ) :
    (q.toRot.mulVec ((q.conj.toRot.mulVec y).add (q.conj.toRot.mulVec x).neg)).add x = y := by
  have hr1 := SE3.rot_rot_conj q hq y
  have hr2 := SE3.rot_rot_conj q hq x
  cases hy : y with
  | mk y0 y1 y2 =>
    cases hx : x with
    | mk x0 x1 x2 =>
      rw [hy] at hr1; rw [hx] at hr2
      simp only [M3.mulVec, V3.add, V3.neg, sum3, V3.mk.injEq] at hr1 hr2 ⊢
      obtain ⟨a1, a2, a3⟩ := hr1
      obtain ⟨b1, b2, b3⟩ := hr2
      refine ⟨?_, ?_, ?_⟩
      · linear_combination a1 - b1
      · linear_combination a2 - b2
      · linear_combination a3 - b3

/-- **SE_2(3): `X ⊕ (Y ⊖ X) = Y`** as whole API calls: position and velocity exactly, quaternion up to sign. -/
theorem rplus_rminus (dbg : Bool) {X Y : SE23 ℝ} (hX : Valid X) (hY : Valid Y)
    (h : realEps < (X.q.conj.mul Y.q).x * (X.q.conj.mul Y.q).x +
      ((X.q.conj.mul Y.q).y * (X.q.conj.mul Y.q).y + (X.q.conj.mul Y.q).z * (X.q.conj.mul Y.q).z)) :
    (do let d ← se23Ops.rminus dbg Y X false false
        let r ← se23Ops.rplus dbg X d.val false false
        pure r.val) =
      (.ok ⟨Y.t, if (X.q.conj.mul Y.q).w < 0 then ⟨-Y.q.x, -Y.q.y, -Y.q.z, -Y.q.w⟩ else Y.q, Y.v⟩ : Except Err (SE23 ℝ)) := by
  have hXi : Valid (⟨((SO3.mk X.q.conj).act X.t).neg, X.q.conj, ((SO3.mk X.q.conj).act X.v).neg⟩ : SE23 ℝ) := by
    unfold Valid at *; simp only; rw [Quat.sqn_conj]; exact hX
  have hc1 := compose_ok dbg hXi hY
  simp only at hc1
  set Z : SE23 ℝ := ⟨((⟨((SO3.mk X.q.conj).act X.t).neg, X.q.conj, ((SO3.mk X.q.conj).act X.v).neg⟩ : SE23 ℝ).rotation.mulVec Y.t).add
      ((SO3.mk X.q.conj).act X.t).neg, X.q.conj.mul Y.q,
    ((⟨((SO3.mk X.q.conj).act X.t).neg, X.q.conj, ((SO3.mk X.q.conj).act X.v).neg⟩ : SE23 ℝ).rotation.mulVec Y.v).add
      ((SO3.mk X.q.conj).act X.v).neg⟩ with hZdef
  have hZ : Valid Z := by unfold Valid at *; simp only [hZdef]; rw [Quat.sqn_mul, Quat.sqn_conj, hX, hY, one_mul]
  have hel := exp_log_generic dbg Z hZ h
  have hcv : Valid (⟨Z.t, SO3.canon Z.q, Z.v⟩ : SE23 ℝ) := by unfold Valid; simp only; rw [SO3.canon_sqn]; exact hZ
  have hc2 := compose_ok dbg hX hcv
  simp only at hc2
  have hq : X.q.mul (SO3.canon Z.q) =
      if (X.q.conj.mul Y.q).w < 0 then ⟨-Y.q.x, -Y.q.y, -Y.q.z, -Y.q.w⟩ else Y.q := by
    simp only [hZdef]; rw [SO3.mul_canon, SO3.mul_conj_mul _ _ hX]
  have ht : (X.rotation.mulVec Z.t).add X.t = Y.t := by
    simp only [hZdef, rotation, SO3.rotation, asSO3, SO3.act]
    exact back X.q hX X.t Y.t
  have hv : (X.rotation.mulVec Z.v).add X.v = Y.v := by
    simp only [hZdef, rotation, SO3.rotation, asSO3, SO3.act]
    exact back X.q hX X.v Y.v
  simp only [GroupOps.rminus, GroupOps.rplus, se23Ops, inverse_ok dbg hX, hc1, except_ok_bind, hel, hc2, hq, ht, hv,
    bind, Except.bind, pure, Except.pure]
  rfl
end SE23
end Manif
