/-
  C07 — Lie-algebra structure: hat, vee, generators, bracket, inner product.
  Exact identities over every ordered field (hence exact-rational and real scalars).
  The generator tables are *regenerated from /repo* (ManifModel/Generated/Generators.lean), so
  `generator_table` is re-checked against what the code says now.
-/
import ManifProofs.Lemmas.Mat
import ManifProofs.Inst.Rat
import Mathlib.LinearAlgebra.Matrix.Trace
import Mathlib.Tactic.NormNum
import Mathlib.Tactic.Linarith

namespace Manif
open Matrix

variable {K : Type} [Field K] [LinearOrder K] [IsStrictOrderedRing K] [Transc K]

/-- `e_i` of a 3-dof tangent as coefficients. -/
def basis3 (i : Fin 3) : K × K × K :=
  match i with
  | 0 => (1, 0, 0)
  | 1 => (0, 1, 0)
  | 2 => (0, 0, 1)

@[simp] theorem ofInt_zero : (ofInt 0 : K) = 0 := by simp [ofInt]
@[simp] theorem ofInt_one : (ofInt 1 : K) = 1 := by simp [ofInt]
@[simp] theorem ofInt_neg_one : (ofInt (-1) : K) = -1 := by simp [ofInt]

theorem matVecFlat3 (m : M3 K) (v : V3 K) :
    matVecFlat 3 m.toList v.toList = (m.mulVec v).toList := by
  simp [matVecFlat, dotTree, treeSum, M3.toList, V3.toList, M3.mulVec, List.range, List.range.loop, sum3]

/-! ## SE2 -/
namespace SE2T

/-- **generators**: for `0 ≤ i < 3` the table entry is `hat(e_i)`; any other index (negative
    ones included: they wrap to a huge `unsigned`) raises `invalid_argument`. -/
theorem generator_table (i : Fin 3) :
    genFromTable (K := K) Generated.SE2GenTable Generated.SE2GenErr (i : ℕ) =
      .ok (hat ⟨(basis3 i).1, (basis3 i).2.1, (basis3 i).2.2⟩).toList := by
  fin_cases i <;>
    simp [genFromTable, Generated.SE2GenTable, basis3, hat, M3.toList]

theorem generator_out_of_range (i : Int) (h : i < 0 ∨ 3 ≤ i) :
    genFromTable (K := K) Generated.SE2GenTable Generated.SE2GenErr i = .error .invalid_argument := by
  unfold genFromTable
  rcases h with h | h
  · simp [h, Generated.SE2GenErr]
  · have h0 : ¬ i < 0 := by omega
    have : 3 ≤ i.toNat := by omega
    simp only [h0, if_false]
    have hlen : Generated.SE2GenTable.length = 3 := rfl
    rw [List.getElem?_eq_none (by omega)]
    rfl

/-- **hat is linear** (entrywise) -/
theorem hat_add (a b : SE2T K) :
    (hat ⟨a.x + b.x, a.y + b.y, a.ang + b.ang⟩).toMatrix = (hat a).toMatrix + (hat b).toMatrix := by
  ext i j; fin_cases i <;> fin_cases j <;> simp [hat, M3.toMatrix] <;> ring

theorem hat_smul (c : K) (a : SE2T K) :
    (hat ⟨c * a.x, c * a.y, c * a.ang⟩).toMatrix = c • (hat a).toMatrix := by
  ext i j; fin_cases i <;> fin_cases j <;> simp [hat, M3.toMatrix]

/-- `t.hat() = Σ t_i Generator(i)` -/
theorem hat_eq_sum_generators (t : SE2T K) :
    (hat t).toMatrix = t.x • (hat (⟨1, 0, 0⟩ : SE2T K)).toMatrix + t.y • (hat (⟨0, 1, 0⟩ : SE2T K)).toMatrix
      + t.ang • (hat (⟨0, 0, 1⟩ : SE2T K)).toMatrix := by
  ext i j; fin_cases i <;> fin_cases j <;> simp [hat, M3.toMatrix]

theorem vee_hat (t : SE2T K) : vee (hat t) = t := by
  cases t; simp [vee, hat]

/-- `Bracket(a,b) = a.smallAdj() * b` and its hat is the commutator. -/
theorem bracket_hat (a b : SE2T K) :
    let c := (smallAdj a).mulVec ⟨b.x, b.y, b.ang⟩
    (hat ⟨c.x, c.y, c.z⟩).toMatrix =
      (hat a).toMatrix * (hat b).toMatrix - (hat b).toMatrix * (hat a).toMatrix := by
  ext i j
  fin_cases i <;> fin_cases j <;>
    simp [hat, smallAdj, M3.mulVec, M3.toMatrix, Matrix.mul_apply, Fin.sum_univ_three, sum3] <;> ring

/-- `a.inner(b) = aᵀ W b` with `W = diag(1,1,2)` is the Frobenius product of the hats. -/
theorem inner_eq_frobenius (a b : SE2T K) :
    a.x * b.x + a.y * b.y + 2 * (a.ang * b.ang) =
      ((hat a).toMatrix * ((hat b).toMatrix)ᵀ).trace := by
  simp [hat, M3.toMatrix, Matrix.trace, Matrix.mul_apply, Matrix.vecMul, dotProduct, Fin.sum_univ_three]; ring

/-- the inner weights computed from the (regenerated) generator table are `diag(1,1,2)`:
    symmetric and positive definite. -/
theorem innerWeights_table :
    innerWeightsOfTable (K := K) Generated.SE2GenTable = [1, 0, 0, 0, 1, 0, 0, 0, 2] := by
  simp [innerWeightsOfTable, Generated.SE2GenTable, ofInt]

theorem innerWeights_posdef (a : SE2T K) (h : a.x ≠ 0 ∨ a.y ≠ 0 ∨ a.ang ≠ 0) :
    0 < a.x * a.x + a.y * a.y + 2 * (a.ang * a.ang) := by
  rcases h with h | h | h
  · have := mul_self_pos.mpr h; nlinarith [mul_self_nonneg a.y, mul_self_nonneg a.ang]
  · have := mul_self_pos.mpr h; nlinarith [mul_self_nonneg a.x, mul_self_nonneg a.ang]
  · have := mul_self_pos.mpr h; nlinarith [mul_self_nonneg a.x, mul_self_nonneg a.y]

example : vee (hat (⟨3, -7, 1/2⟩ : SE2T ℚ)) = ⟨3, -7, 1/2⟩ := vee_hat _
end SE2T

/-! ## SO3 -/
namespace SO3T

theorem generator_table (i : Fin 3) :
    genFromTable (K := K) Generated.SO3GenTable Generated.SO3GenErr (i : ℕ) =
      .ok (hat ⟨⟨(basis3 i).1, (basis3 i).2.1, (basis3 i).2.2⟩⟩).toList := by
  fin_cases i <;>
    simp [genFromTable, Generated.SO3GenTable, basis3, hat, M3.skew, M3.toList]

theorem generator_out_of_range (i : Int) (h : i < 0 ∨ 3 ≤ i) :
    genFromTable (K := K) Generated.SO3GenTable Generated.SO3GenErr i = .error .invalid_argument := by
  unfold genFromTable
  rcases h with h | h
  · simp [h, Generated.SO3GenErr]
  · have h0 : ¬ i < 0 := by omega
    have : 3 ≤ i.toNat := by omega
    simp only [h0, if_false]
    have hlen : Generated.SO3GenTable.length = 3 := rfl
    rw [List.getElem?_eq_none (by omega)]
    rfl

theorem hat_add (a b : SO3T K) :
    (hat ⟨a.v.add b.v⟩).toMatrix = (hat a).toMatrix + (hat b).toMatrix := by
  ext i j; fin_cases i <;> fin_cases j <;> simp [hat, M3.skew, V3.add, M3.toMatrix] <;> ring

theorem hat_smul (c : K) (a : SO3T K) :
    (hat ⟨V3.smul c a.v⟩).toMatrix = c • (hat a).toMatrix := by
  ext i j; fin_cases i <;> fin_cases j <;> simp [hat, M3.skew, V3.smul, M3.toMatrix]

theorem vee_hat (t : SO3T K) : vee (hat t) = t := by
  rcases t with ⟨⟨x, y, z⟩⟩; simp [vee, hat, M3.skew]

/-- `smallAdj = hat`, and `hat(hat(a) b) = [hat a, hat b]` (the cross product is the bracket). -/
theorem bracket_hat (a b : SO3T K) :
    (hat ⟨(smallAdj a).mulVec b.v⟩).toMatrix =
      (hat a).toMatrix * (hat b).toMatrix - (hat b).toMatrix * (hat a).toMatrix := by
  ext i j
  fin_cases i <;> fin_cases j <;>
    simp [hat, smallAdj, M3.skew, M3.mulVec, M3.toMatrix, Matrix.mul_apply, Fin.sum_univ_three, sum3] <;> ring

theorem bracket_antisymm (a b : SO3T K) :
    (smallAdj a).mulVec b.v = ((smallAdj b).mulVec a.v).neg := by
  simp [smallAdj, hat, M3.skew, M3.mulVec, V3.neg, sum3]
  refine ⟨?_, ?_, ?_⟩ <;> ring

theorem jacobi (a b c : SO3T K) :
    let br (u v : V3 K) : V3 K := (M3.skew u).mulVec v
    ((br a.v (br b.v c.v)).add (br b.v (br c.v a.v))).add (br c.v (br a.v b.v)) = ⟨0, 0, 0⟩ := by
  simp [M3.skew, M3.mulVec, V3.add, sum3]
  refine ⟨?_, ?_, ?_⟩ <;> ring

theorem inner_eq_frobenius (a b : SO3T K) :
    2 * (a.v.x * b.v.x + a.v.y * b.v.y + a.v.z * b.v.z) =
      ((hat a).toMatrix * ((hat b).toMatrix)ᵀ).trace := by
  simp [hat, M3.skew, M3.toMatrix, Matrix.trace, Matrix.mul_apply, Matrix.vecMul, dotProduct, Fin.sum_univ_three]; ring

theorem innerWeights_table :
    innerWeightsOfTable (K := K) Generated.SO3GenTable = [2, 0, 0, 0, 2, 0, 0, 0, 2] := by
  simp [innerWeightsOfTable, Generated.SO3GenTable, ofInt]
end SO3T

end Manif
