/-
  C06 (continued):
    * SE2 `Adj(exp t) = Jl(t)·Jr(t)⁻¹` on the closed-form branch, every ordered field;
    * SE3 `Jr⁻¹(t) = Jl⁻¹(−t)`, `Jr(t) = Jl(−t)` (every ordered field) and `Jr⁻¹·Jr = I` (6×6, over ℝ).
-/
import ManifProofs.Properties.C06d
set_option linter.all false
namespace Manif
variable {K : Type} [Field K] [LinearOrder K] [IsStrictOrderedRing K] [Transc K] [LawfulTransc K]
namespace SE2T

/-- **SE2: `Adj(exp t) = Jl(t) · Jr(t)⁻¹`** on the closed-form branch (`θ⁸ > eps`, `cos θ ≠ 1`), every ordered field. -/
theorem adj_exp (t : SE2T K)
    (h1 : ¬ t.ang * t.ang * (t.ang * t.ang) < Transc.eps)
    (h3 : Transc.eps < t.ang * t.ang * (t.ang * t.ang) * (t.ang * t.ang) * (t.ang * t.ang))
    (hθ : t.ang ≠ 0) (hc : Transc.cos t.ang ≠ 1) :
    SE2.adj (expRaw t) = (ljac t).mul (rjacinv t) := by
  have hsc := LawfulTransc.sin_sq_add_cos_sq t.ang
  have hc' : 1 - Transc.cos t.ang ≠ 0 := fun e => hc (by linarith)
  have hc'' : 2 * Transc.cos t.ang - 2 ≠ 0 := fun e => hc (by linarith)
  apply M3.ext' <;>
    simp [SE2.adj, expRaw, rjacinv, ljac, coefAB, h1, h3, M3.mul, sum3] <;>
    field_simp <;>
    ring_nf <;>
    first
      | done
      | linear_combination hsc
      | linear_combination (t.ang * t.x) * hsc
      | linear_combination (t.ang * t.y) * hsc
end SE2T
end Manif

namespace Manif
open Matrix
namespace SE3T

/-- **`Jr⁻¹(t) = Jl⁻¹(−t)`** for SE3 (with the `Q` block), every ordered field -/
theorem rjacinv_eq_ljacinv_neg {K : Type} [Field K] [LinearOrder K] [IsStrictOrderedRing K] [Transc K] [LawfulTransc K]
    (t : SE3T K) : rjacinv t = ljacinv ⟨t.lin.neg, t.ang.neg⟩ := by
  have h := SO3T.rjacinv_eq_ljacinv_neg t.asSO3
  unfold rjacinv ljacinv
  simp only [asSO3, SO3T.neg] at h ⊢
  rw [h]

theorem rjac_eq_ljac_neg {K : Type} [Field K] [LinearOrder K] [IsStrictOrderedRing K] [Transc K] [LawfulTransc K]
    (t : SE3T K) : rjac t = ljac ⟨t.lin.neg, t.ang.neg⟩ := by
  have h := ljac_eq_rjac_neg (⟨t.lin.neg, t.ang.neg⟩ : SE3T K)
  simp only [v3_neg_neg] at h
  rw [h]

/-- **SE3: `Jr⁻¹ · Jr = I`** (6×6), closed-form branch, away from the pole of the inverse. -/
theorem rjacinv_mul_rjac (t : SE3T ℝ) (h : realEps < t.ang.x * t.ang.x + (t.ang.y * t.ang.y + t.ang.z * t.ang.z))
    (hs : Real.sin (Real.sqrt (t.ang.x * t.ang.x + (t.ang.y * t.ang.y + t.ang.z * t.ang.z)) / 2) ≠ 0) :
    (rjacinv t).toMatrix * (rjac t).toMatrix = 1 := by
  rw [rjacinv_eq_ljacinv_neg, rjac_eq_ljac_neg]
  have e : (t.ang.neg.x * t.ang.neg.x + (t.ang.neg.y * t.ang.neg.y + t.ang.neg.z * t.ang.neg.z)) =
      t.ang.x * t.ang.x + (t.ang.y * t.ang.y + t.ang.z * t.ang.z) := by simp [V3.neg]
  exact ljacinv_mul_ljac ⟨t.lin.neg, t.ang.neg⟩ (by simp only; rw [e]; exact h) (by simp only; rw [e]; exact hs)
end SE3T
end Manif
