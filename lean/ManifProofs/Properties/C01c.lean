/-
  C01 (continued) — the inverse law as whole API calls (validation included, no exception raised):
    `X.inverse().compose(X) = I = X.compose(X.inverse())`
  SO2, SE2 over every ordered field with lawful trig; SO3, SE3, SE_2(3), SGal(3) over ℝ.
-/
import ManifProofs.Properties.C04g

set_option linter.all false
namespace Manif
section
variable {K : Type} [Field K] [LinearOrder K] [IsStrictOrderedRing K] [Transc K] [LawfulTransc K]

theorem SO2.inverse_compose (dbg : Bool) {X : SO2 K} (hX : SO2.Valid X) :
    (do let i ← SO2.inverse dbg X; SO2.compose dbg i X) = (.ok ⟨1, 0⟩ : Except Err (SO2 K)) := by
  have hXi : SO2.Valid (⟨X.re, -X.im⟩ : SO2 K) := by unfold SO2.Valid at *; simpa using hX
  have hc := SO2.compose_ok dbg hXi hX
  unfold SO2.Valid at hX
  have hfin : (⟨X.re * X.re - -X.im * X.im, X.re * X.im + -X.im * X.re⟩ : SO2 K) = ⟨1, 0⟩ := by
    congr 1
    · linear_combination hX
    · ring
  simp only at hc
  rw [hfin] at hc
  simp only [SO2.inverse_ok dbg hX, hc, except_ok_bind, bind, Except.bind]

theorem SO2.compose_inverse (dbg : Bool) {X : SO2 K} (hX : SO2.Valid X) :
    (do let i ← SO2.inverse dbg X; SO2.compose dbg X i) = (.ok ⟨1, 0⟩ : Except Err (SO2 K)) := by
  have hXi : SO2.Valid (⟨X.re, -X.im⟩ : SO2 K) := by unfold SO2.Valid at *; simpa using hX
  have hc := SO2.compose_ok dbg hX hXi
  unfold SO2.Valid at hX
  have hfin : (⟨X.re * X.re - X.im * -X.im, X.re * -X.im + X.im * X.re⟩ : SO2 K) = ⟨1, 0⟩ := by
    congr 1
    · linear_combination hX
    · ring
  simp only at hc
  rw [hfin] at hc
  simp only [SO2.inverse_ok dbg hX, hc, except_ok_bind, bind, Except.bind]

theorem SE2.inverse_compose (dbg : Bool) {X : SE2 K} (hX : SE2.Valid X) :
    (do let i ← SE2.inverse dbg X; SE2.compose dbg i X) = (.ok ⟨0, 0, 1, 0⟩ : Except Err (SE2 K)) := by
  have hXi : SE2.Valid (⟨-X.x * X.re - X.y * X.im, X.x * X.im - X.y * X.re, X.re, -X.im⟩ : SE2 K) := by
    unfold SE2.Valid at *; simpa using hX
  have hc := SE2.compose_ok dbg hXi hX
  unfold SE2.Valid at hX
  simp only at hc
  have hfin : (⟨X.re * X.x - -X.im * X.y + (-X.x * X.re - X.y * X.im), -X.im * X.x + X.re * X.y + (X.x * X.im - X.y * X.re),
      X.re * X.re - -X.im * X.im, X.re * X.im + -X.im * X.re⟩ : SE2 K) = ⟨0, 0, 1, 0⟩ := by
    congr 1
    · ring
    · ring
    · linear_combination hX
    · ring
  rw [hfin] at hc
  simp only [SE2.inverse_ok dbg hX, hc, except_ok_bind, bind, Except.bind]

theorem SE2.compose_inverse (dbg : Bool) {X : SE2 K} (hX : SE2.Valid X) :
    (do let i ← SE2.inverse dbg X; SE2.compose dbg X i) = (.ok ⟨0, 0, 1, 0⟩ : Except Err (SE2 K)) := by
  have hXi : SE2.Valid (⟨-X.x * X.re - X.y * X.im, X.x * X.im - X.y * X.re, X.re, -X.im⟩ : SE2 K) := by
    unfold SE2.Valid at *; simpa using hX
  have hc := SE2.compose_ok dbg hX hXi
  unfold SE2.Valid at hX
  simp only at hc
  have hfin : (⟨X.re * (-X.x * X.re - X.y * X.im) - X.im * (X.x * X.im - X.y * X.re) + X.x,
      X.im * (-X.x * X.re - X.y * X.im) + X.re * (X.x * X.im - X.y * X.re) + X.y,
      X.re * X.re - X.im * -X.im, X.re * -X.im + X.im * X.re⟩ : SE2 K) = ⟨0, 0, 1, 0⟩ := by
    congr 1
    · linear_combination (-X.x) * hX
    · linear_combination (-X.y) * hX
    · linear_combination hX
    · ring
  rw [hfin] at hc
  simp only [SE2.inverse_ok dbg hX, hc, except_ok_bind, bind, Except.bind]
end

/-- `q̄ q = 1` for a unit quaternion -/
theorem SO3.conj_mul_self_real (q : Quat ℝ) (hq : q.sqn = 1) : q.conj.mul q = ⟨0, 0, 0, 1⟩ := by
  unfold Quat.sqn at hq
  simp only [Quat.mul, Quat.conj]
  congr 1
  · ring
  · ring
  · ring
  · linear_combination hq

theorem SO3.inverse_compose (dbg : Bool) {X : SO3 ℝ} (hX : SO3.Valid X) :
    (do let i ← SO3.inverse dbg X; SO3.compose dbg i X) = (.ok ⟨⟨0, 0, 0, 1⟩⟩ : Except Err (SO3 ℝ)) := by
  have hXi : SO3.Valid (⟨X.q.conj⟩ : SO3 ℝ) := by unfold SO3.Valid at *; rw [Quat.sqn_conj]; exact hX
  have hc := SO3.compose_ok dbg hXi hX
  simp only at hc
  rw [SO3.conj_mul_self_real _ hX] at hc
  simp only [SO3.inverse_ok dbg hX, hc, except_ok_bind, bind, Except.bind]

theorem SE3.inverse_compose (dbg : Bool) {X : SE3 ℝ} (hX : SE3.Valid X) :
    (do let i ← SE3.inverse dbg X; SE3.compose dbg i X) = (.ok ⟨⟨0, 0, 0⟩, ⟨0, 0, 0, 1⟩⟩ : Except Err (SE3 ℝ)) := by
  have hXi : SE3.Valid (⟨((SO3.mk X.q.conj).act X.t).neg, X.q.conj⟩ : SE3 ℝ) := by unfold SE3.Valid at *; simp only; rw [Quat.sqn_conj]; exact hX
  have hc := SE3.compose_ok dbg hXi hX
  simp only at hc
  rw [SO3.conj_mul_self_real _ hX] at hc
  have ht : ((⟨((SO3.mk X.q.conj).act X.t).neg, X.q.conj⟩ : SE3 ℝ).rotation.mulVec X.t).add ((SO3.mk X.q.conj).act X.t).neg = ⟨0, 0, 0⟩ := by
    simp only [SE3.rotation, SO3.rotation, SE3.asSO3, SO3.act, M3.mulVec, V3.add, V3.neg, sum3, V3.mk.injEq]
    refine ⟨?_, ?_, ?_⟩ <;> ring
  rw [ht] at hc
  simp only [SE3.inverse_ok dbg hX, hc, except_ok_bind, bind, Except.bind]

theorem SE23.inverse_compose (dbg : Bool) {X : SE23 ℝ} (hX : SE23.Valid X) :
    (do let i ← SE23.inverse dbg X; SE23.compose dbg i X) = (.ok ⟨⟨0, 0, 0⟩, ⟨0, 0, 0, 1⟩, ⟨0, 0, 0⟩⟩ : Except Err (SE23 ℝ)) := by
  have hXi : SE23.Valid (⟨((SO3.mk X.q.conj).act X.t).neg, X.q.conj, ((SO3.mk X.q.conj).act X.v).neg⟩ : SE23 ℝ) := by
    unfold SE23.Valid at *; simp only; rw [Quat.sqn_conj]; exact hX
  have hc := SE23.compose_ok dbg hXi hX
  simp only at hc
  rw [SO3.conj_mul_self_real _ hX] at hc
  have ht : ((⟨((SO3.mk X.q.conj).act X.t).neg, X.q.conj, ((SO3.mk X.q.conj).act X.v).neg⟩ : SE23 ℝ).rotation.mulVec X.t).add ((SO3.mk X.q.conj).act X.t).neg = ⟨0, 0, 0⟩ := by
    simp only [SE23.rotation, SO3.rotation, SE23.asSO3, SO3.act, M3.mulVec, V3.add, V3.neg, sum3, V3.mk.injEq]
    refine ⟨?_, ?_, ?_⟩ <;> ring
  have hv : ((⟨((SO3.mk X.q.conj).act X.t).neg, X.q.conj, ((SO3.mk X.q.conj).act X.v).neg⟩ : SE23 ℝ).rotation.mulVec X.v).add ((SO3.mk X.q.conj).act X.v).neg = ⟨0, 0, 0⟩ := by
    simp only [SE23.rotation, SO3.rotation, SE23.asSO3, SO3.act, M3.mulVec, V3.add, V3.neg, sum3, V3.mk.injEq]
    refine ⟨?_, ?_, ?_⟩ <;> ring
  rw [ht, hv] at hc
  simp only [SE23.inverse_ok dbg hX, hc, except_ok_bind, bind, Except.bind]

theorem SGal3.inverse_compose (dbg : Bool) {X : SGal3 ℝ} (hX : SGal3.Valid X) :
    (do let i ← SGal3.inverse dbg X; SGal3.compose dbg i X) = (.ok ⟨⟨0, 0, 0⟩, ⟨0, 0, 0, 1⟩, ⟨0, 0, 0⟩, 0⟩ : Except Err (SGal3 ℝ)) := by
  have hXi : SGal3.Valid (⟨((SO3.mk X.q.conj).act (X.p.sub (X.v.smul X.t))).neg, X.q.conj, ((SO3.mk X.q.conj).act X.v).neg, -X.t⟩ : SGal3 ℝ) := by
    unfold SGal3.Valid at *; simp only; rw [Quat.sqn_conj]; exact hX
  have hc := SGal3.compose_ok dbg hXi hX
  simp only at hc
  rw [SO3.conj_mul_self_real _ hX] at hc
  have hp : (((⟨((SO3.mk X.q.conj).act (X.p.sub (X.v.smul X.t))).neg, X.q.conj, ((SO3.mk X.q.conj).act X.v).neg, -X.t⟩ : SGal3 ℝ).rotation.mulVec X.p).add
      ((((SO3.mk X.q.conj).act X.v).neg).smul X.t)).add ((SO3.mk X.q.conj).act (X.p.sub (X.v.smul X.t))).neg = ⟨0, 0, 0⟩ := by
    simp only [SGal3.rotation, SO3.rotation, SGal3.asSO3, SO3.act, M3.mulVec, V3.add, V3.neg, V3.sub, V3.smul, sum3, V3.mk.injEq]
    refine ⟨?_, ?_, ?_⟩ <;> ring
  have hv : ((⟨((SO3.mk X.q.conj).act (X.p.sub (X.v.smul X.t))).neg, X.q.conj, ((SO3.mk X.q.conj).act X.v).neg, -X.t⟩ : SGal3 ℝ).rotation.mulVec X.v).add ((SO3.mk X.q.conj).act X.v).neg = ⟨0, 0, 0⟩ := by
    simp only [SGal3.rotation, SO3.rotation, SGal3.asSO3, SO3.act, M3.mulVec, V3.add, V3.neg, sum3, V3.mk.injEq]
    refine ⟨?_, ?_, ?_⟩ <;> ring
  have htt : -X.t + X.t = 0 := by ring
  rw [hp, hv, htt] at hc
  simp only [SGal3.inverse_ok dbg hX, hc, except_ok_bind, bind, Except.bind]
end Manif
