/-
  Properties/C14Table.lean — the protocol theorems of C14.lean instantiated at the table of lazily
  initialised statics that tools/conc.py regenerates from the current /repo on every check
  (ManifModel/Generated/Statics.lean).  What has to hold of the *code* for the theorems to apply is
  exactly what is re-checked here by the kernel on the regenerated table:

    * `table_acyclic`      the observed "initialiser of c uses d" relation strictly decreases the
                           translator's rank — no initialisation cycle (so no re-entry, no deadlock);
    * `inventory_clean`    the scanner found no static-duration object that is not const /
                           initialised at its declaration, no `mutable`, no `thread_local`.
-/
import ManifProofs.Properties.C14
import ManifModel.Generated.Statics

namespace Manif.Statics
open Generated

def tableDeps (c : Cell) : List Cell := (depsTable.lookup c).getD []
def tableRank (c : Cell) : Nat := rankTable.getD c 0

theorem table_acyclic : ∀ p ∈ depsTable, ∀ d ∈ p.2, tableRank d < tableRank p.1 := by
  decide

theorem inventory_clean : inventoryProblems = 0 := by decide

theorem ranks_cover : rankTable.length = cellNames.length := by decide

theorem lookup_mem' {β : Type} (l : List (Nat × β)) (a : Nat) (b : β) (h : l.lookup a = some b) :
    (a, b) ∈ l := by
  induction l with
  | nil => simp at h
  | cons p l ih =>
    obtain ⟨x, y⟩ := p
    by_cases hx : a == x
    · simp [List.lookup, hx] at h
      have : a = x := by simpa using hx
      subst this; subst h; simp
    · simp [List.lookup, hx] at h
      exact List.mem_cons_of_mem _ (ih h)

/-- the code's statics as a `Spec` (values abstract: any deterministic initialisers). -/
def codeSpec {V : Type} (compute : Cell → List V → V) : Spec V where
  deps := tableDeps
  rank := tableRank
  rank_dec := by
    intro c d hd
    unfold tableDeps at hd
    cases hl : depsTable.lookup c with
    | none => simp [hl] at hd
    | some ds =>
      simp [hl] at hd
      exact table_acyclic (c, ds) (lookup_mem' _ _ _ hl) d hd
  compute := compute

/-- C14 for the statics of the current source tree: for every number of threads, every program
    of const API calls and every schedule — each read returns the single-thread value, each
    static is written at most once, nobody re-enters an initialiser, and there is no deadlock. -/
theorem code_statics_safe {V : Type} (compute : Cell → List V → V) (progs : List (List Cell))
    (sched : List Tid) :
    (∀ t p, p ∈ ((run (codeSpec compute) (init progs) sched).thr t).log → p.2 = (codeSpec compute).val p.1) ∧
    (∀ c, (run (codeSpec compute) (init progs) sched).writes c ≤ 1) ∧
    (∀ t, ((run (codeSpec compute) (init progs) sched).thr t).err = false) ∧
    (∀ t, ((run (codeSpec compute) (init progs) sched).thr t).hasWork →
      ∃ t', enabled (run (codeSpec compute) (init progs) sched) t') :=
  ⟨reads_are_val _ progs sched, writes_le_one _ progs sched, no_reentry _ progs sched,
   no_deadlock _ progs sched⟩

end Manif.Statics
