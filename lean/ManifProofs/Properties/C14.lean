/-
  Properties/C14.lean — the const API under concurrency: what a theorem can carry.

  For EVERY schedule (any list of thread ids, any number of threads, any programs) of the protocol
  state machine of ManifModel/Statics.lean:

    * `done_is_val`      a constructed static holds the value a single-threaded run computes;
    * `reads_are_val`    every value a thread's call reads is that value — so every thread gets the
                         results it would get alone ("same values as in a single thread");
    * `writes_once`      the storage of a static is written at most once, and exactly when it
                         becomes constructed; it is never written afterwards;
    * `no_reentry`       no thread re-enters an initialisation it is running (the undefined
                         behaviour case of [stmt.dcl]/4) — because the "uses" relation is acyclic;
    * `busy_has_owner`   a guard held by thread t means t is running that initialiser (nobody else
                         touches the storage: accesses are ordered by the guard);
    * `progress`         in every reachable state in which some thread has work left, some thread is
                         enabled: no deadlock.

  What ties this to the code, on every run: tools/statics_scan.py regenerates the inventory of
  static-duration objects from /repo (all `const`, initialised at their declaration, no `mutable`,
  no `thread_local`, no namespace-scope mutable object), harness/conc.cpp's guard trace
  regenerates the dependency edges, Generated/Statics.lean is rewritten from both and its
  acyclicity is re-proved by `decide`; the TSan runs look for races the model cannot express (the
  C++ memory model, the compiler's guard implementation, Eigen internals are runtime behaviour).
-/
import ManifModel.Statics
import Mathlib.Tactic.SplitIfs
import Mathlib.Tactic.Linarith

namespace Manif.Statics
variable {V : Type}

/-! ## the value a cell gets in a single thread -/
def Spec.val (S : Spec V) (c : Cell) : V :=
  S.compute c ((S.deps c).attach.map fun d => S.val d.1)
termination_by S.rank c
decreasing_by exact S.rank_dec c d.1 d.2

theorem Spec.val_eq (S : Spec V) (c : Cell) : S.val c = S.compute c ((S.deps c).map S.val) := by
  rw [Spec.val]
  congr 1
  exact List.attach_map_val (l := S.deps c) (f := S.val)

/-! ## invariant -/
def FrameOk (S : Spec V) (f : Frame V) : Prop :=
  ∃ pre, pre ++ f.todo = S.deps f.cell ∧ f.env = pre.map S.val

/-- innermost first: each frame is the initialisation of the dependency its caller is waiting for -/
def Chain : List (Frame V) → Prop
  | [] => True
  | [_] => True
  | f :: g :: rest => g.todo.head? = some f.cell ∧ Chain (g :: rest)

def isDone : CState V → Bool
  | .done _ => true
  | _ => false

structure Inv (S : Spec V) (s : State V) : Prop where
  done_val : ∀ c v, s.cells c = .done v → v = S.val c
  frame_busy : ∀ t f, f ∈ (s.thr t).stack → s.cells f.cell = .busy t
  frame_ok : ∀ t f, f ∈ (s.thr t).stack → FrameOk S f
  chain : ∀ t, Chain (s.thr t).stack
  no_err : ∀ t, (s.thr t).err = false
  log_val : ∀ t p, p ∈ (s.thr t).log → p.2 = S.val p.1
  owner : ∀ c t, s.cells c = .busy t → ∃ f ∈ (s.thr t).stack, f.cell = c
  writes_done : ∀ c v, s.cells c = .done v → s.writes c = 1
  writes_not : ∀ c, (∀ v, s.cells c ≠ .done v) → s.writes c = 0

theorem init_thr (progs : List (List Cell)) (t : Tid) :
    ((init progs : State V).thr t).stack = [] ∧ ((init progs : State V).thr t).log = [] ∧
      ((init progs : State V).thr t).err = false := by
  simp only [init]
  split <;> simp [idle]

theorem inv_init (S : Spec V) (progs : List (List Cell)) : Inv S (init progs) := by
  refine ⟨?_, ?_, ?_, ?_, ?_, ?_, ?_, ?_, ?_⟩
  · intro c v h; simp [init] at h
  · intro t f hf; rw [(init_thr progs t).1] at hf; cases hf
  · intro t f hf; rw [(init_thr progs t).1] at hf; cases hf
  · intro t; rw [(init_thr progs t).1]; trivial
  · intro t; exact (init_thr progs t).2.2
  · intro t p hp; rw [(init_thr progs t).2.1] at hp; cases hp
  · intro c t h; simp [init] at h
  · intro c v h; simp [init] at h
  · intro c _; simp [init]

/-! ### ranks along a stack -/
theorem chain_rank (S : Spec V) : ∀ (st : List (Frame V)), Chain st → (∀ f ∈ st, FrameOk S f) →
    ∀ f g rest, st = f :: rest → g ∈ rest → S.rank f.cell < S.rank g.cell := by
  intro st
  induction st with
  | nil => intro _ _ f g rest h; cases h
  | cons a tl ih =>
    intro hc hok f g rest h hg
    injection h with h1 h2
    subst h1; subst h2
    cases tl with
    | nil => cases hg
    | cons b tl' =>
      obtain ⟨hhead, hc'⟩ := hc
      have hb : S.rank a.cell < S.rank b.cell := by
        obtain ⟨pre, hpre, _⟩ := hok b (by simp)
        have : a.cell ∈ b.todo := by
          cases hbt : b.todo with
          | nil => simp [hbt] at hhead
          | cons x xs => simp [hbt] at hhead; simp [hhead]
        have : a.cell ∈ S.deps b.cell := by rw [← hpre]; exact List.mem_append_right _ this
        exact S.rank_dec _ _ this
      rcases List.mem_cons.mp hg with rfl | hg'
      · exact hb
      · have := ih hc' (fun f hf => hok f (List.mem_cons_of_mem _ hf)) b g tl' rfl hg'
        omega

/-- the target of the innermost frame is not one of the thread's own initialisations -/
theorem target_not_own (S : Spec V) (st : List (Frame V)) (hc : Chain st) (hok : ∀ f ∈ st, FrameOk S f)
    (f : Frame V) (rest : List (Frame V)) (h : st = f :: rest) (d : Cell) (hd : d ∈ f.todo) :
    ∀ g ∈ st, g.cell ≠ d := by
  intro g hg heq
  obtain ⟨pre, hpre, _⟩ := hok f (by simp [h])
  have hdr : S.rank d < S.rank f.cell :=
    S.rank_dec _ _ (by rw [← hpre]; exact List.mem_append_right _ hd)
  subst h
  rcases List.mem_cons.mp hg with rfl | hg'
  · rw [heq] at hdr; omega
  · have := chain_rank S _ hc hok f g rest rfl hg'
    rw [heq] at this; omega

theorem chain_tail {f : Frame V} {rest : List (Frame V)} (h : Chain (f :: rest)) : Chain rest := by
  cases rest with
  | nil => trivial
  | cons g r => exact h.2

/-! ### one step preserves the invariant -/
theorem upd_same {α} (f : Nat → α) (c : Nat) (a : α) : upd f c a c = a := by simp [upd]
theorem upd_ne {α} (f : Nat → α) (c x : Nat) (a : α) (h : x ≠ c) : upd f c a x = f x := by simp [upd, h]

theorem inv_write (S : Spec V) (s : State V) (h : Inv S s) (t : Tid) (f : Frame V) (rest : List (Frame V))
    (hst : (s.thr t).stack = f :: rest) (htodo : f.todo = []) :
    Inv S { cells := upd s.cells f.cell (.done (S.compute f.cell f.env)),
            thr := upd s.thr t { s.thr t with stack := rest },
            writes := upd s.writes f.cell (s.writes f.cell + 1) } := by
  have hfmem : f ∈ (s.thr t).stack := by simp [hst]
  have hbusy := h.frame_busy t f hfmem
  have hval : S.compute f.cell f.env = S.val f.cell := by
    obtain ⟨pre, hpre, henv⟩ := h.frame_ok t f hfmem
    rw [htodo, List.append_nil] at hpre
    rw [S.val_eq, henv, hpre]
  -- frames other than `f` live on cells other than `f.cell`
  have hother : ∀ t' g, g ∈ (s.thr t').stack → (t' = t → g ∈ rest) → g.cell ≠ f.cell := by
    intro t' g hg hin heq
    have hb := h.frame_busy t' g hg
    rw [heq, hbusy] at hb
    have htt : t' = t := by injection hb with e; exact e.symm
    have hgr := hin htt
    subst htt
    have := chain_rank S _ (h.chain t') (h.frame_ok t') f g rest hst hgr
    rw [heq] at this; omega
  refine ⟨?_, ?_, ?_, ?_, ?_, ?_, ?_, ?_, ?_⟩ <;> dsimp only
  · intro c v hc
    by_cases hcf : c = f.cell
    · subst hcf; simp [upd_same] at hc; rw [← hc, hval]
    · rw [upd_ne _ _ _ _ hcf] at hc; exact h.done_val c v hc
  · intro t' g hg
    by_cases htt : t' = t
    · subst htt
      simp only [upd_same] at hg
      have hgs : g ∈ (s.thr t').stack := by rw [hst]; exact List.mem_cons_of_mem _ hg
      rw [upd_ne _ _ _ _ (hother t' g hgs (fun _ => hg))]
      exact h.frame_busy t' g hgs
    · rw [upd_ne _ _ _ _ htt] at hg
      rw [upd_ne _ _ _ _ (hother t' g hg (fun e => absurd e htt))]
      exact h.frame_busy t' g hg
  · intro t' g hg
    by_cases htt : t' = t
    · subst htt
      simp only [upd_same] at hg
      exact h.frame_ok t' g (by rw [hst]; exact List.mem_cons_of_mem _ hg)
    · rw [upd_ne _ _ _ _ htt] at hg; exact h.frame_ok t' g hg
  · intro t'
    by_cases htt : t' = t
    · subst htt
      simp only [upd_same]
      have := h.chain t'
      rw [hst] at this
      exact chain_tail this
    · rw [upd_ne _ _ _ _ htt]; exact h.chain t'
  · intro t'
    by_cases htt : t' = t
    · subst htt; simp only [upd_same]; exact h.no_err t'
    · rw [upd_ne _ _ _ _ htt]; exact h.no_err t'
  · intro t' p hp
    by_cases htt : t' = t
    · subst htt; simp only [upd_same] at hp; exact h.log_val t' p hp
    · rw [upd_ne _ _ _ _ htt] at hp; exact h.log_val t' p hp
  · intro c t' hc
    by_cases hcf : c = f.cell
    · subst hcf; simp [upd_same] at hc
    · rw [upd_ne _ _ _ _ hcf] at hc
      obtain ⟨g, hg, hgc⟩ := h.owner c t' hc
      by_cases htt : t' = t
      · subst htt
        refine ⟨g, ?_, hgc⟩
        simp only [upd_same]
        rw [hst] at hg
        rcases List.mem_cons.mp hg with rfl | hg'
        · exact absurd hgc.symm hcf
        · exact hg'
      · exact ⟨g, by rw [upd_ne _ _ _ _ htt]; exact hg, hgc⟩
  · intro c v hc
    by_cases hcf : c = f.cell
    · subst hcf
      rw [upd_same]
      have := h.writes_not f.cell (by intro v hv; rw [hbusy] at hv; cases hv)
      omega
    · rw [upd_ne _ _ _ _ hcf] at hc; rw [upd_ne _ _ _ _ hcf]; exact h.writes_done c v hc
  · intro c hc
    by_cases hcf : c = f.cell
    · subst hcf; exact absurd (upd_same _ _ _) (hc _)
    · rw [upd_ne _ _ _ _ hcf]
      exact h.writes_not c (by intro v hv; exact hc v (by rw [upd_ne _ _ _ _ hcf]; exact hv))

theorem frameOk_afterRead (S : Spec V) (f : Frame V) (d : Cell) (ds : List Cell) (hf : FrameOk S f)
    (htodo : f.todo = d :: ds) :
    FrameOk S { f with todo := f.todo.tail, env := f.env ++ [S.val d] } := by
  obtain ⟨pre, hpre, henv⟩ := hf
  refine ⟨pre ++ [d], ?_, ?_⟩
  · simp only [htodo, List.tail_cons] at hpre ⊢
    rw [← hpre]; simp
  · simp [henv]

theorem inv_use (S : Spec V) (s : State V) (h : Inv S s) (t : Tid) (d : Cell)
    (htarget : (s.thr t).target = some d) : Inv S (useCell S s t d) := by
  unfold useCell
  -- shape of the thread: either an innermost frame waiting for `d`, or top level
  cases hcell : s.cells d with
  | done v =>
    have hv : v = S.val d := h.done_val d v hcell
    simp only
    cases hst : (s.thr t).stack with
    | nil =>
      have hprog : (s.thr t).prog.head? = some d := by simpa [Thread.target, hst] using htarget
      refine ⟨h.done_val, ?_, ?_, ?_, ?_, ?_, ?_, h.writes_done, h.writes_not⟩ <;> dsimp only
      · intro t' g hg
        by_cases htt : t' = t
        · subst htt; simp [upd_same, Thread.afterRead, hst] at hg
        · rw [upd_ne _ _ _ _ htt] at hg; exact h.frame_busy t' g hg
      · intro t' g hg
        by_cases htt : t' = t
        · subst htt; simp [upd_same, Thread.afterRead, hst] at hg
        · rw [upd_ne _ _ _ _ htt] at hg; exact h.frame_ok t' g hg
      · intro t'
        by_cases htt : t' = t
        · subst htt; simp [upd_same, Thread.afterRead, hst, Chain]
        · rw [upd_ne _ _ _ _ htt]; exact h.chain t'
      · intro t'
        by_cases htt : t' = t
        · subst htt; simp [upd_same, Thread.afterRead, hst]; exact h.no_err t'
        · rw [upd_ne _ _ _ _ htt]; exact h.no_err t'
      · intro t' p hp
        by_cases htt : t' = t
        · subst htt
          simp [upd_same, Thread.afterRead, hst] at hp
          rcases hp with hp | hp
          · exact h.log_val t' p hp
          · subst hp; exact hv
        · rw [upd_ne _ _ _ _ htt] at hp; exact h.log_val t' p hp
      · intro c t' hc
        obtain ⟨g, hg, hgc⟩ := h.owner c t' hc
        by_cases htt : t' = t
        · subst htt; rw [hst] at hg; cases hg
        · exact ⟨g, by rw [upd_ne _ _ _ _ htt]; exact hg, hgc⟩
    | cons f rest =>
      have htodo : f.todo.head? = some d := by simpa [Thread.target, hst] using htarget
      obtain ⟨ds, hds⟩ : ∃ ds, f.todo = d :: ds := by
        cases hft : f.todo with
        | nil => simp [hft] at htodo
        | cons x xs => simp [hft] at htodo; exact ⟨xs, by rw [htodo]⟩
      have hfmem : f ∈ (s.thr t).stack := by simp [hst]
      subst hv
      refine ⟨h.done_val, ?_, ?_, ?_, ?_, ?_, ?_, h.writes_done, h.writes_not⟩ <;> dsimp only
      · intro t' g hg
        by_cases htt : t' = t
        · subst htt
          simp [upd_same, Thread.afterRead, hst] at hg
          rcases hg with rfl | hg
          · exact h.frame_busy t' f hfmem
          · exact h.frame_busy t' g (by rw [hst]; exact List.mem_cons_of_mem _ hg)
        · rw [upd_ne _ _ _ _ htt] at hg; exact h.frame_busy t' g hg
      · intro t' g hg
        by_cases htt : t' = t
        · subst htt
          simp [upd_same, Thread.afterRead, hst] at hg
          rcases hg with rfl | hg
          · exact frameOk_afterRead S f d ds (h.frame_ok t' f hfmem) hds
          · exact h.frame_ok t' g (by rw [hst]; exact List.mem_cons_of_mem _ hg)
        · rw [upd_ne _ _ _ _ htt] at hg; exact h.frame_ok t' g hg
      · intro t'
        by_cases htt : t' = t
        · subst htt
          simp only [upd_same, Thread.afterRead, hst]
          have hc := h.chain t'
          rw [hst] at hc
          cases rest with
          | nil => trivial
          | cons g r => exact ⟨hc.1, hc.2⟩
        · rw [upd_ne _ _ _ _ htt]; exact h.chain t'
      · intro t'
        by_cases htt : t' = t
        · subst htt; simp [upd_same, Thread.afterRead, hst]; exact h.no_err t'
        · rw [upd_ne _ _ _ _ htt]; exact h.no_err t'
      · intro t' p hp
        by_cases htt : t' = t
        · subst htt; simp [upd_same, Thread.afterRead, hst] at hp; exact h.log_val t' p hp
        · rw [upd_ne _ _ _ _ htt] at hp; exact h.log_val t' p hp
      · intro c t' hc
        obtain ⟨g, hg, hgc⟩ := h.owner c t' hc
        by_cases htt : t' = t
        · subst htt
          rw [hst] at hg
          rcases List.mem_cons.mp hg with rfl | hg'
          · exact ⟨{ g with todo := g.todo.tail, env := g.env ++ [S.val d] }, by simp [upd_same, Thread.afterRead, hst], hgc⟩
          · exact ⟨g, by simp [upd_same, Thread.afterRead, hst]; exact Or.inr hg', hgc⟩
        · exact ⟨g, by rw [upd_ne _ _ _ _ htt]; exact hg, hgc⟩
  | uninit =>
    simp only
    -- `d` is not the cell of any existing frame (those are busy)
    have hfresh : ∀ t' g, g ∈ (s.thr t').stack → g.cell ≠ d := by
      intro t' g hg heq
      have := h.frame_busy t' g hg
      rw [heq, hcell] at this; cases this
    have hchain_new : Chain (⟨d, S.deps d, []⟩ :: (s.thr t).stack) := by
      cases hst : (s.thr t).stack with
      | nil => trivial
      | cons f rest =>
        have : f.todo.head? = some d := by simpa [Thread.target, hst] using htarget
        have hc := h.chain t
        rw [hst] at hc
        exact ⟨this, hc⟩
    refine ⟨?_, ?_, ?_, ?_, ?_, ?_, ?_, ?_, ?_⟩ <;> dsimp only
    · intro c v hc
      by_cases hcd : c = d
      · subst hcd; simp [upd_same] at hc
      · rw [upd_ne _ _ _ _ hcd] at hc; exact h.done_val c v hc
    · intro t' g hg
      by_cases htt : t' = t
      · subst htt
        simp only [upd_same] at hg
        rcases List.mem_cons.mp hg with rfl | hg'
        · simp [upd_same]
        · rw [upd_ne _ _ _ _ (hfresh t' g hg')]; exact h.frame_busy t' g hg'
      · rw [upd_ne _ _ _ _ htt] at hg
        rw [upd_ne _ _ _ _ (hfresh t' g hg)]; exact h.frame_busy t' g hg
    · intro t' g hg
      by_cases htt : t' = t
      · subst htt
        simp only [upd_same] at hg
        rcases List.mem_cons.mp hg with rfl | hg'
        · exact ⟨[], by simp, by simp⟩
        · exact h.frame_ok t' g hg'
      · rw [upd_ne _ _ _ _ htt] at hg; exact h.frame_ok t' g hg
    · intro t'
      by_cases htt : t' = t
      · subst htt; simp only [upd_same]; exact hchain_new
      · rw [upd_ne _ _ _ _ htt]; exact h.chain t'
    · intro t'
      by_cases htt : t' = t
      · subst htt; simp only [upd_same]; exact h.no_err t'
      · rw [upd_ne _ _ _ _ htt]; exact h.no_err t'
    · intro t' p hp
      by_cases htt : t' = t
      · subst htt; simp only [upd_same] at hp; exact h.log_val t' p hp
      · rw [upd_ne _ _ _ _ htt] at hp; exact h.log_val t' p hp
    · intro c t' hc
      by_cases hcd : c = d
      · subst hcd
        simp [upd_same] at hc
        subst hc
        exact ⟨⟨c, S.deps c, []⟩, by simp [upd_same], rfl⟩
      · rw [upd_ne _ _ _ _ hcd] at hc
        obtain ⟨g, hg, hgc⟩ := h.owner c t' hc
        by_cases htt : t' = t
        · subst htt; exact ⟨g, by simp only [upd_same]; exact List.mem_cons_of_mem _ hg, hgc⟩
        · exact ⟨g, by rw [upd_ne _ _ _ _ htt]; exact hg, hgc⟩
    · intro c v hc
      by_cases hcd : c = d
      · subst hcd; simp [upd_same] at hc
      · rw [upd_ne _ _ _ _ hcd] at hc; exact h.writes_done c v hc
    · intro c hcn
      by_cases hcd : c = d
      · subst hcd; exact h.writes_not c (by intro v hv; rw [hcell] at hv; cases hv)
      · exact h.writes_not c (by intro v hv; exact hcn v (by rw [upd_ne _ _ _ _ hcd]; exact hv))
  | busy t' =>
    simp only
    by_cases htt : t' = t
    · -- impossible: the cell would be one of `t`'s own initialisations, of lower rank than itself
      exfalso
      subst htt
      obtain ⟨g, hg, hgc⟩ := h.owner d t' hcell
      cases hst : (s.thr t').stack with
      | nil => rw [hst] at hg; cases hg
      | cons f rest =>
        have htodo : f.todo.head? = some d := by simpa [Thread.target, hst] using htarget
        have hd : d ∈ f.todo := by
          cases hft : f.todo with
          | nil => simp [hft] at htodo
          | cons x xs => simp [hft] at htodo; simp [htodo]
        exact target_not_own S _ (h.chain t') (h.frame_ok t') f rest hst d hd g hg hgc
    · simp [htt]; exact h

theorem step_idle (S : Spec V) (s : State V) (t : Tid) (h1 : (s.thr t).stack = [])
    (h2 : (s.thr t).prog = []) : step S s t = s := by
  unfold step; simp only [h1, h2]
theorem step_top (S : Spec V) (s : State V) (t : Tid) (c : Cell) (cs : List Cell)
    (h1 : (s.thr t).stack = []) (h2 : (s.thr t).prog = c :: cs) : step S s t = useCell S s t c := by
  unfold step; simp only [h1, h2]
theorem step_write (S : Spec V) (s : State V) (t : Tid) (f : Frame V) (rest : List (Frame V))
    (h1 : (s.thr t).stack = f :: rest) (h2 : f.todo = []) :
    step S s t = { cells := upd s.cells f.cell (.done (S.compute f.cell f.env)),
                   thr := upd s.thr t { s.thr t with stack := rest },
                   writes := upd s.writes f.cell (s.writes f.cell + 1) } := by
  unfold step; simp only [h1, h2]
theorem step_dep (S : Spec V) (s : State V) (t : Tid) (f : Frame V) (rest : List (Frame V)) (d : Cell)
    (ds : List Cell) (h1 : (s.thr t).stack = f :: rest) (h2 : f.todo = d :: ds) :
    step S s t = useCell S s t d := by
  unfold step; simp only [h1, h2]

theorem inv_step (S : Spec V) (s : State V) (h : Inv S s) (t : Tid) : Inv S (step S s t) := by
  cases hst : (s.thr t).stack with
  | nil =>
    cases hp : (s.thr t).prog with
    | nil => rw [step_idle S s t hst hp]; exact h
    | cons c cs =>
      rw [step_top S s t c cs hst hp]
      exact inv_use S s h t c (by simp [Thread.target, hst, hp])
  | cons f rest =>
    cases hft : f.todo with
    | nil => rw [step_write S s t f rest hst hft]; exact inv_write S s h t f rest hst hft
    | cons d ds =>
      rw [step_dep S s t f rest d ds hst hft]
      exact inv_use S s h t d (by simp [Thread.target, hst, hft])

/-- **every reachable state satisfies the invariant — for every schedule.** -/
theorem inv_run (S : Spec V) (s : State V) (h : Inv S s) (sched : List Tid) : Inv S (run S s sched) := by
  induction sched generalizing s with
  | nil => exact h
  | cons t ts ih => exact ih _ (inv_step S s h t)

/-! ## the property-level statements -/
section
variable (S : Spec V) (progs : List (List Cell)) (sched : List Tid)

/-- a constructed static holds the single-thread value -/
theorem done_is_val (c : Cell) (v : V) (h : (run S (init progs) sched).cells c = .done v) : v = S.val c :=
  (inv_run S _ (inv_init S progs) sched).done_val c v h

/-- every value any thread's call reads is the single-thread value -/
theorem reads_are_val (t : Tid) (p : Cell × V) (h : p ∈ ((run S (init progs) sched).thr t).log) :
    p.2 = S.val p.1 :=
  (inv_run S _ (inv_init S progs) sched).log_val t p h

/-- the storage of a static is written exactly once when it becomes constructed, and not before -/
theorem writes_once (c : Cell) :
    (∀ v, (run S (init progs) sched).cells c = .done v → (run S (init progs) sched).writes c = 1) ∧
    ((∀ v, (run S (init progs) sched).cells c ≠ .done v) → (run S (init progs) sched).writes c = 0) :=
  ⟨(inv_run S _ (inv_init S progs) sched).writes_done c, (inv_run S _ (inv_init S progs) sched).writes_not c⟩

theorem writes_le_one (c : Cell) : (run S (init progs) sched).writes c ≤ 1 := by
  have h := writes_once S progs sched c
  cases hc : (run S (init progs) sched).cells c with
  | done v => rw [h.1 v hc]
  | uninit => rw [h.2 (by intro v hv; rw [hc] at hv; cases hv)]; omega
  | busy t => rw [h.2 (by intro v hv; rw [hc] at hv; cases hv)]; omega

/-- no thread ever re-enters an initialisation it is running -/
theorem no_reentry (t : Tid) : ((run S (init progs) sched).thr t).err = false :=
  (inv_run S _ (inv_init S progs) sched).no_err t

/-- a held guard has exactly one owner, who is running that initialiser -/
theorem busy_has_owner (c : Cell) (t : Tid) (h : (run S (init progs) sched).cells c = .busy t) :
    ∃ f ∈ ((run S (init progs) sched).thr t).stack, f.cell = c :=
  (inv_run S _ (inv_init S progs) sched).owner c t h
end

theorem useCell_done (S : Spec V) (s : State V) (t : Tid) (d c : Cell) (v : V) (hc : s.cells c = .done v) :
    (useCell S s t d).cells c = .done v := by
  unfold useCell
  cases hd : s.cells d with
  | done w => exact hc
  | uninit =>
    have : c ≠ d := by intro e; rw [e, hd] at hc; cases hc
    simp only; rw [upd_ne _ _ _ _ this]; exact hc
  | busy t' => simp only; split <;> exact hc

/-- once constructed, a cell is never modified again, whatever is scheduled afterwards -/
theorem done_stable (S : Spec V) (s : State V) (h : Inv S s) (c : Cell) (v : V) (hc : s.cells c = .done v)
    (sched : List Tid) : (run S s sched).cells c = .done v := by
  induction sched generalizing s with
  | nil => exact hc
  | cons t ts ih =>
    refine ih (step S s t) (inv_step S s h t) ?_
    cases hst : (s.thr t).stack with
    | nil =>
      cases hp : (s.thr t).prog with
      | nil => rw [step_idle S s t hst hp]; exact hc
      | cons d ds => rw [step_top S s t d ds hst hp]; exact useCell_done S s t d c v hc
    | cons f rest =>
      cases hft : f.todo with
      | nil =>
        rw [step_write S s t f rest hst hft]
        have hb := h.frame_busy t f (by simp [hst])
        have : c ≠ f.cell := by intro e; rw [e, hb] at hc; cases hc
        simp only; rw [upd_ne _ _ _ _ this]; exact hc
      | cons d ds => rw [step_dep S s t f rest d ds hst hft]; exact useCell_done S s t d c v hc

/-! ## no deadlock -/
/-- a thread with work that is not enabled is waiting for a cell held by another thread -/
theorem blocked_waits (s : State V) (t : Tid) (hw : (s.thr t).hasWork) (hne : ¬ enabled s t) :
    ∃ d t', (s.thr t).target = some d ∧ s.cells d = .busy t' ∧ t' ≠ t := by
  unfold enabled at hne
  cases hst : (s.thr t).stack with
  | nil =>
    cases hp : (s.thr t).prog with
    | nil => exfalso; rcases hw with hw | hw <;> simp_all
    | cons c cs =>
      simp only [hst, hp, not_forall] at hne
      obtain ⟨t', hb, hn⟩ := hne
      exact ⟨c, t', by simp [Thread.target, hst, hp], hb, hn⟩
  | cons f rest =>
    cases hft : f.todo with
    | nil => simp only [hst, hft, not_true_eq_false] at hne
    | cons d ds =>
      simp only [hst, hft, not_forall] at hne
      obtain ⟨t', hb, hn⟩ := hne
      exact ⟨d, t', by simp [Thread.target, hst, hft], hb, hn⟩

/-- **progress**: in a state satisfying the invariant, if some thread has work then some thread is
    enabled.  (Descent on the rank of the awaited cell: its owner waits, if at all, for a cell of
    strictly smaller rank.) -/
theorem progress (S : Spec V) (s : State V) (h : Inv S s) (t : Tid) (hw : (s.thr t).hasWork) :
    ∃ t', enabled s t' := by
  by_cases he : enabled s t
  · exact ⟨t, he⟩
  obtain ⟨d, t1, _, hb, _⟩ := blocked_waits s t hw he
  -- generalise: any busy cell has an enabled thread "below" it
  suffices H : ∀ n d t1, S.rank d = n → s.cells d = .busy t1 → ∃ t', enabled s t' from H _ d t1 rfl hb
  intro n
  induction n using Nat.strong_induction_on with
  | _ n ih =>
    intro d t1 hn hb
    by_cases he1 : enabled s t1
    · exact ⟨t1, he1⟩
    obtain ⟨g, hg, hgc⟩ := h.owner d t1 hb
    have hw1 : (s.thr t1).hasWork := Or.inl (by intro e; rw [e] at hg; cases hg)
    obtain ⟨d2, t2, htar, hb2, _⟩ := blocked_waits s t1 hw1 he1
    -- d2 is awaited by the innermost frame of t1, whose rank is at most that of d's frame
    cases hst : (s.thr t1).stack with
    | nil => rw [hst] at hg; cases hg
    | cons f rest =>
      have htodo : f.todo.head? = some d2 := by simpa [Thread.target, hst] using htar
      have hd2 : d2 ∈ f.todo := by
        cases hft : f.todo with
        | nil => simp [hft] at htodo
        | cons x xs => simp [hft] at htodo; simp [htodo]
      obtain ⟨pre, hpre, _⟩ := h.frame_ok t1 f (by simp [hst])
      have hr2 : S.rank d2 < S.rank f.cell :=
        S.rank_dec _ _ (by rw [← hpre]; exact List.mem_append_right _ hd2)
      have hfg : S.rank f.cell ≤ S.rank g.cell := by
        rw [hst] at hg
        rcases List.mem_cons.mp hg with rfl | hg'
        · exact le_refl _
        · exact le_of_lt (chain_rank S _ (h.chain t1) (h.frame_ok t1) f g rest hst hg')
      exact ih (S.rank d2) (by rw [← hn, ← hgc]; omega) d2 t2 rfl hb2

/-- no deadlock, for every schedule -/
theorem no_deadlock (S : Spec V) (progs : List (List Cell)) (sched : List Tid) (t : Tid)
    (hw : ((run S (init progs) sched).thr t).hasWork) : ∃ t', enabled (run S (init progs) sched) t' :=
  progress S _ (inv_run S _ (inv_init S progs) sched) t hw

/-! ## non-vacuity: a concrete race on first use
  cell 1 (`Identity()::I`, say) uses cell 0 (`Zero()::t`); thread 0 asks for 1, thread 1 for 1 then 0.
  Under an interleaving where thread 0 starts the initialisation of 1 and thread 1 arrives while it
  is in progress (and is blocked), both end with the single-thread values, each cell written once. -/
def demoSpec : Spec Nat where
  deps c := if c = 1 then [0] else []
  rank c := c
  rank_dec c d h := by
    by_cases hc : c = 1
    · subst hc; simp at h; subst h; decide
    · simp [hc] at h
  compute c env := 10 * c + 7 + env.sum

example : demoSpec.val 0 = 7 ∧ demoSpec.val 1 = 24 := by
  constructor <;> simp [Spec.val_eq, demoSpec]

example :
    let s := run demoSpec (init [[1], [1, 0]]) [0, 1, 1, 0, 1, 0, 0, 1, 0, 1, 1, 1, 0, 0]
    (s.thr 0).log = [(1, 24)] ∧ (s.thr 1).log = [(1, 24), (0, 7)] ∧ s.writes 0 = 1 ∧ s.writes 1 = 1 := by
  decide

/-- and a schedule prefix in which thread 1 really is blocked (its steps are no-ops) while thread 0
    holds the guard of cell 1 -/
example :
    let s := run demoSpec (init [[1], [1, 0]]) [0, 1, 1, 1]
    s.cells 1 = .busy 0 ∧ (s.thr 1).log = [] ∧ ¬ enabled s 1 ∧ enabled s 0 := by
  refine ⟨by decide, by decide, ?_, ?_⟩
  · intro h
    have h0 : (0 : Tid) = 1 := h 0 (by decide)
    exact absurd h0 (by decide)
  · intro t' h
    have hc : (run demoSpec (init [[1], [1, 0]]) [0, 1, 1, 1]).cells 0 = CState.uninit := by decide
    rw [hc] at h; cases h

end Manif.Statics
