/-
  C03 / C04 (continued) — SE3 over ℝ as whole API calls:
    * `exp(log X) = X` (translation exactly, quaternion up to sign), validation included;
    * `X ⊕ (Y ⊖ X) = Y` (translation exactly, quaternion up to sign) whenever the relative rotation is above
      log's switch-over.
-/
import ManifProofs.Properties.C04d

set_option linter.all false
namespace Manif
namespace SE3

theorem exp_log_api (dbg : Bool) (X : SE3 ℝ) (hX : Valid X)
    (h : realEps < X.q.x * X.q.x + (X.q.y * X.q.y + X.q.z * X.q.z)) :
    SE3T.exp dbg (log X) = .ok ⟨X.t, SO3.canon X.q⟩ := by
  have hXs : SO3.Valid X.asSO3 := hX
  have hq := SO3.exp_log_api dbg X.asSO3 hXs h
  have h1 := SO3.ljac_ljacinv_log X.asSO3 hXs h X.t
  unfold SE3T.exp
  have hl : SE3T.asSO3 (log X) = SO3.log X.asSO3 := rfl
  have hlin : (log X).lin = (SO3T.ljacinv (SO3.log X.asSO3)).mulVec X.t := rfl
  simp only [hl, hlin, hq, h1, bind, Except.bind]
  exact make_ok' dbg _ (by rw [SO3.canon_sqn]; exact hX)

theorem compose_ok (dbg : Bool) {X Y : SE3 ℝ} (hX : Valid X) (hY : Valid Y) :
    compose dbg X Y = .ok ⟨(X.rotation.mulVec Y.t).add X.t, X.q.mul Y.q⟩ := by
  have hXs : SO3.Valid X.asSO3 := hX
  have hYs : SO3.Valid Y.asSO3 := hY
  have hq : (X.q.mul Y.q).sqn = 1 := by unfold Valid at *; rw [Quat.sqn_mul, hX, hY, one_mul]
  have h1 : SO3.compose dbg X.asSO3 Y.asSO3 = .ok ⟨X.q.mul Y.q⟩ := SO3.compose_ok dbg hXs hYs
  simp only [compose, h1, except_ok_bind]
  exact make_ok' dbg _ hq

theorem inverse_ok (dbg : Bool) {X : SE3 ℝ} (hX : Valid X) :
    inverse dbg X = .ok ⟨((SO3.mk X.q.conj).act X.t).neg, X.q.conj⟩ := by
  have hc : X.q.conj.sqn = 1 := by unfold Valid at hX; rw [Quat.sqn_conj, hX]
  have h1 : SO3.inverse dbg X.asSO3 = .ok ⟨X.q.conj⟩ := SO3.make_ok dbg (X := ⟨X.q.conj⟩) hc
  simp only [inverse, h1, except_ok_bind]
  exact make_ok' dbg _ hc

/-- `R(q) (R(q̄) u) = u` for a unit quaternion -/
theorem rot_rot_conj (q : Quat ℝ) (hq : q.sqn = 1) (u : V3 ℝ) : q.toRot.mulVec (q.conj.toRot.mulVec u) = u := by
  unfold Quat.sqn at hq
  cases u with
  | mk a b c =>
    simp only [Quat.toRot, Quat.conj, M3.mulVec, sum3, scalar_nat, Nat.cast_ofNat, Nat.cast_one]
    congr 1
    · ring_nf; linear_combination (4*(a*q.y^2 + a*q.z^2 - b*q.x*q.y - c*q.x*q.z)) * hq
    · ring_nf; linear_combination (-4*(a*q.x*q.y - b*q.x^2 - b*q.z^2 + c*q.y*q.z)) * hq
    · ring_nf; linear_combination (-4*(a*q.x*q.z + b*q.y*q.z - c*q.x^2 - c*q.y^2)) * hq

/-- **SE3: `X ⊕ (Y ⊖ X) = Y`** as whole API calls: translation exactly, quaternion up to sign. -/
theorem rplus_rminus (dbg : Bool) {X Y : SE3 ℝ} (hX : Valid X) (hY : Valid Y)
    (h : realEps < (X.q.conj.mul Y.q).x * (X.q.conj.mul Y.q).x +
      ((X.q.conj.mul Y.q).y * (X.q.conj.mul Y.q).y + (X.q.conj.mul Y.q).z * (X.q.conj.mul Y.q).z)) :
    (do let d ← se3Ops.rminus dbg Y X false false
        let r ← se3Ops.rplus dbg X d.val false false
        pure r.val) =
      (.ok ⟨Y.t, if (X.q.conj.mul Y.q).w < 0 then ⟨-Y.q.x, -Y.q.y, -Y.q.z, -Y.q.w⟩ else Y.q⟩ : Except Err (SE3 ℝ)) := by
  have hXi : Valid (⟨((SO3.mk X.q.conj).act X.t).neg, X.q.conj⟩ : SE3 ℝ) := by unfold Valid at *; simp only; rw [Quat.sqn_conj]; exact hX
  have hc1 := compose_ok dbg hXi hY
  simp only at hc1
  -- the relative element Z = X⁻¹ Y
  set Z : SE3 ℝ := ⟨((⟨((SO3.mk X.q.conj).act X.t).neg, X.q.conj⟩ : SE3 ℝ).rotation.mulVec Y.t).add ((SO3.mk X.q.conj).act X.t).neg,
    X.q.conj.mul Y.q⟩ with hZdef
  have hZ : Valid Z := by unfold Valid at *; simp only [hZdef]; rw [Quat.sqn_mul, Quat.sqn_conj, hX, hY, one_mul]
  have hel := exp_log_api dbg Z hZ h
  have hcv : Valid (⟨Z.t, SO3.canon Z.q⟩ : SE3 ℝ) := by unfold Valid; simp only; rw [SO3.canon_sqn]; exact hZ
  have hc2 := compose_ok dbg hX hcv
  simp only at hc2
  have hq : X.q.mul (SO3.canon Z.q) =
      if (X.q.conj.mul Y.q).w < 0 then ⟨-Y.q.x, -Y.q.y, -Y.q.z, -Y.q.w⟩ else Y.q := by
    simp only [hZdef]; rw [SO3.mul_canon, SO3.mul_conj_mul _ _ hX]
  have ht : (X.rotation.mulVec Z.t).add X.t = Y.t := by
    have hr1 := rot_rot_conj X.q hX Y.t
    have hr2 := rot_rot_conj X.q hX X.t
    simp only [hZdef, rotation, SO3.rotation, asSO3, SO3.act]
    cases hY' : Y.t with
    | mk y0 y1 y2 =>
      cases hX' : X.t with
      | mk x0 x1 x2 =>
        rw [hY'] at hr1; rw [hX'] at hr2
        simp only [M3.mulVec, V3.add, V3.neg, sum3, V3.mk.injEq] at hr1 hr2 ⊢
        obtain ⟨a1, a2, a3⟩ := hr1
        obtain ⟨b1, b2, b3⟩ := hr2
        refine ⟨?_, ?_, ?_⟩
        · linear_combination a1 - b1
        · linear_combination a2 - b2
        · linear_combination a3 - b3
  simp only [GroupOps.rminus, GroupOps.rplus, se3Ops, inverse_ok dbg hX, hc1, except_ok_bind, hel, hc2, hq, ht,
    bind, Except.bind, pure, Except.pure]
  rfl
end SE3
end Manif
