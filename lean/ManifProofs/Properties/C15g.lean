/-
  C15 (continued) — `interpolate(A, B, 0) = A` exactly, as whole API calls, for SE_2(3) and SGal(3) over ℝ, from a
  generic reduction (`interpSlerp_zero_of`): at `t = 0` SLERP composes `A` with `exp` of the zero tangent.
-/
import ManifProofs.Properties.C15f

set_option linter.all false
namespace Manif

theorem interpSlerp_zero_of {K G T J : Type} [Scalar K] (o : GroupOps K G T J) (dbg : Bool) (A B I : G) (zero : K) (d : T)
    (hu : inUnit zero = true) (hd : o.rminusV dbg B A = .ok d)
    (he : o.exp dbg (o.tscale d zero) = .ok I) (hc : o.compose dbg A I = .ok A) :
    o.interpSlerp dbg A B zero = .ok A := by
  unfold GroupOps.interpSlerp
  rw [hd]
  simp only [hu, GroupOps.rplusV, GroupOps.rplus, Bool.not_true, Bool.false_eq_true, if_false, bind, Except.bind, pure,
    Except.pure, Except.map, he, hc]

theorem so3_exp_zero (dbg : Bool) : SO3T.exp dbg (⟨⟨0, 0, 0⟩⟩ : SO3T ℝ) = .ok ⟨⟨0, 0, 0, 1⟩⟩ := by
  have hn : ¬ (realEps < 0) := not_lt.mpr realEps_pos.le
  have hI : SO3.Valid (⟨⟨0, 0, 0, 1⟩⟩ : SO3 ℝ) := by simp [SO3.Valid, Quat.sqn]
  have := SO3.make_ok dbg hI
  simpa [SO3T.exp, SO3T.expRaw, V3.sqNorm, sum3, hn] using this

theorem ljac_zero_mulVec : (SO3T.ljac (⟨⟨0, 0, 0⟩⟩ : SO3T ℝ)).mulVec (⟨0, 0, 0⟩ : V3 ℝ) = ⟨0, 0, 0⟩ := by
  simp [M3.mulVec, sum3]

namespace SE23
theorem slerp_zero (dbg : Bool) {A B : SE23 ℝ} (hA : Valid A) (hB : Valid B) :
    se23Ops.interpSlerp dbg A B 0 = .ok A := by
  have hu : inUnit (0 : ℝ) = true := by simp [inUnit]
  have hAi : Valid (⟨((SO3.mk A.q.conj).act A.t).neg, A.q.conj, ((SO3.mk A.q.conj).act A.v).neg⟩ : SE23 ℝ) := by
    unfold Valid at *; simp only; rw [Quat.sqn_conj]; exact hA
  have hc1 := compose_ok dbg hAi hB
  simp only at hc1
  have hd : se23Ops.rminusV dbg B A = .ok (log ⟨(((⟨((SO3.mk A.q.conj).act A.t).neg, A.q.conj, ((SO3.mk A.q.conj).act A.v).neg⟩ : SE23 ℝ).rotation.mulVec B.t).add
      ((SO3.mk A.q.conj).act A.t).neg), A.q.conj.mul B.q,
      (((⟨((SO3.mk A.q.conj).act A.t).neg, A.q.conj, ((SO3.mk A.q.conj).act A.v).neg⟩ : SE23 ℝ).rotation.mulVec B.v).add ((SO3.mk A.q.conj).act A.v).neg)⟩) := by
    simp only [GroupOps.rminusV, GroupOps.rminus, se23Ops, inverse_ok dbg hA, hc1, bind, Except.bind, pure, Except.pure, Except.map]
  have hI : Valid (⟨⟨0, 0, 0⟩, ⟨0, 0, 0, 1⟩, ⟨0, 0, 0⟩⟩ : SE23 ℝ) := by simp [Valid, Quat.sqn]
  have hq1 : (⟨0, 0, 0, 1⟩ : Quat ℝ).sqn = 1 := by simp [Quat.sqn]
  refine interpSlerp_zero_of se23Ops dbg A B ⟨⟨0, 0, 0⟩, ⟨0, 0, 0, 1⟩, ⟨0, 0, 0⟩⟩ 0 _ hu hd ?_ ?_
  · have hz : ∀ d : SE23T ℝ, (se23Ops (K := ℝ)).tscale d 0 = ⟨⟨0, 0, 0⟩, ⟨0, 0, 0⟩, ⟨0, 0, 0⟩⟩ := by
      intro d; cases d with | mk l a m => cases l; cases a; cases m; simp [se23Ops, V3.muls]
    rw [hz]
    show SE23T.exp dbg _ = _
    unfold SE23T.exp
    simp only [SE23T.asSO3, so3_exp_zero, bind, Except.bind, ljac_zero_mulVec]
    exact make_ok' dbg _ _ hq1
  · have hc2 := compose_ok dbg hA hI
    simp only at hc2
    show compose dbg A _ = _
    rw [hc2]
    cases A with
    | mk t q v => cases t; cases q; cases v; simp [rotation, SO3.rotation, asSO3, M3.mulVec, V3.add, sum3, Quat.mul]
end SE23

namespace SGal3
theorem slerp_zero (dbg : Bool) {A B : SGal3 ℝ} (hA : Valid A) (hB : Valid B) :
    sgal3Ops.interpSlerp dbg A B 0 = .ok A := by
  have hu : inUnit (0 : ℝ) = true := by simp [inUnit]
  have hAi : Valid (⟨((SO3.mk A.q.conj).act (A.p.sub (A.v.smul A.t))).neg, A.q.conj, ((SO3.mk A.q.conj).act A.v).neg, -A.t⟩ : SGal3 ℝ) := by
    unfold Valid at *; simp only; rw [Quat.sqn_conj]; exact hA
  have hc1 := compose_ok dbg hAi hB
  simp only at hc1
  have hd : ∃ d, sgal3Ops.rminusV dbg B A = .ok d := by
    simp only [GroupOps.rminusV, GroupOps.rminus, sgal3Ops, inverse_ok dbg hA, hc1, bind, Except.bind, pure, Except.pure, Except.map]
    exact ⟨_, rfl⟩
  obtain ⟨d, hd⟩ := hd
  have hI : Valid (⟨⟨0, 0, 0⟩, ⟨0, 0, 0, 1⟩, ⟨0, 0, 0⟩, 0⟩ : SGal3 ℝ) := by simp [Valid, Quat.sqn]
  have hq1 : (⟨0, 0, 0, 1⟩ : Quat ℝ).sqn = 1 := by simp [Quat.sqn]
  refine interpSlerp_zero_of sgal3Ops dbg A B ⟨⟨0, 0, 0⟩, ⟨0, 0, 0, 1⟩, ⟨0, 0, 0⟩, 0⟩ 0 d hu hd ?_ ?_
  · have hz : ∀ d : SGal3T ℝ, (sgal3Ops (K := ℝ)).tscale d 0 = ⟨⟨0, 0, 0⟩, ⟨0, 0, 0⟩, ⟨0, 0, 0⟩, 0⟩ := by
      intro d; cases d with | mk l m a s => cases l; cases a; cases m; simp [sgal3Ops, V3.muls]
    rw [hz]
    show SGal3T.exp dbg _ = _
    unfold SGal3T.exp
    simp only [SGal3T.asSO3, so3_exp_zero, bind, Except.bind, ljac_zero_mulVec]
    have hp : ((⟨0, 0, 0⟩ : V3 ℝ)).add ((SGal3T.fillE (⟨⟨0, 0, 0⟩⟩ : SO3T ℝ)).mulVec ((⟨0, 0, 0⟩ : V3 ℝ).smul 0)) = ⟨0, 0, 0⟩ := by
      simp [M3.mulVec, V3.add, V3.smul, sum3]
    rw [hp]
    exact make_ok' dbg _ _ _ hq1
  · have hc2 := compose_ok dbg hA hI
    simp only at hc2
    show compose dbg A _ = _
    rw [hc2]
    cases A with
    | mk p q v t => cases p; cases q; cases v; simp [rotation, SO3.rotation, asSO3, M3.mulVec, V3.add, V3.smul, sum3, Quat.mul]
end SGal3
end Manif
