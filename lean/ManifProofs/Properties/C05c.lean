import ManifProofs.Properties.C05
/-
C05 (continued): SE3 composition and action Jacobians are derivatives — dual-number statements about the
translation parts (the quaternion parts are the SO3 theorems of `C05.lean`, since SE3's rotation component
composes exactly like SO3).

With `X ⊞ εd = X · Exp(εd)`, `Exp(εd) = (ε dl, e(da))`, `ε² = 0`, every statement below says: running the
model's formula on the perturbed operand gives the unperturbed result perturbed by `J d`, where `J` is the
Jacobian block the model returns (`adj (inverse Y)`, identity, `actJm`, `actJv`).

The certificates of the `linear_combination` steps were computed by polynomial division (tools/dev/cofactors.py)
and are checked here by `ring1`; nothing about them is trusted.

`linter.all` is switched off for this file only because one of the default linters takes tens of minutes on
the large `simp`/`ring` info trees below (measured: 13 s with it off, > 10 min with it on); linters play no
part in what the kernel accepts.
-/

set_option linter.all false
namespace Manif
variable {K : Type} [Field K] [LinearOrder K] [IsStrictOrderedRing K] [Transc K] [LawfulTransc K]
namespace SE3

def liftV (v : V3 K) : V3 (Dual K) := ⟨.lift v.x, .lift v.y, .lift v.z⟩
/-- `ε v` -/
def epsV (v : V3 K) : V3 (Dual K) := ⟨⟨0, v.x⟩, ⟨0, v.y⟩, ⟨0, v.z⟩⟩

theorem v3ext {G : Type} {a b : V3 G} (h1 : a.x = b.x) (h2 : a.y = b.y) (h3 : a.z = b.z) : a = b := by
  cases a; cases b; simp_all

/-- rotating by `p ⊗ e(d)`: `R(p e(d)) v = R(p) (v + ε d × v)` -/
theorem rot_mul_pert (p : Quat K) (hp : p.sqn = 1) (d v : V3 K) :
    ((SO3.liftQ p).mul (SO3.pertQ d)).toRot.mulVec (liftV v) =
      (SO3.liftQ p).toRot.mulVec ((liftV v).add (epsV ((M3.skew d).mulVec v))) := by
  unfold Quat.sqn at hp
  apply v3ext <;> apply Dual.ext' <;>
    simp [Quat.toRot, Quat.mul, SO3.liftQ, SO3.pertQ, liftV, epsV, M3.mulVec, M3.skew, V3.add, sum3] <;>
    first
      | ring1
      | linear_combination (d.y*v.z - d.z*v.y) * hp
      | linear_combination (-d.x*v.z + d.z*v.x) * hp
      | linear_combination (d.x*v.y - d.y*v.x) * hp

/-- rotating an infinitesimal vector by a product of real quaternions -/
theorem rot_mul_eps (p q : Quat K) (hp : p.sqn = 1) (hq : q.sqn = 1) (u : V3 K) :
    ((SO3.liftQ p).mul (SO3.liftQ q)).toRot.mulVec (epsV u) =
      (SO3.liftQ p).toRot.mulVec (epsV (q.toRot.mulVec u)) := by
  unfold Quat.sqn at hp hq
  apply v3ext <;> apply Dual.ext' <;>
    simp [Quat.toRot, Quat.mul, SO3.liftQ, liftV, epsV, M3.mulVec, V3.add, sum3] <;>
    first
      | ring1
      | linear_combination (2*(q.w*q.y*u.z - q.w*q.z*u.y + q.x*q.y*u.y + q.x*q.z*u.z - q.y^2*u.x - q.z^2*u.x)) * hp + (2*(p.w*p.y*u.z - p.w*p.z*u.y + p.x*p.y*u.y + p.x*p.z*u.z - p.y^2*u.x - p.z^2*u.x)) * hq
      | linear_combination (-2*(q.w*q.x*u.z - q.w*q.z*u.x + q.x^2*u.y - q.x*q.y*u.x - q.y*q.z*u.z + q.z^2*u.y)) * hp + (-2*(p.w*p.x*u.z - p.w*p.z*u.x + p.x^2*u.y - p.x*p.y*u.x - p.y*p.z*u.z + p.z^2*u.y)) * hq
      | linear_combination (2*(q.w*q.x*u.y - q.w*q.y*u.x - q.x^2*u.z + q.x*q.z*u.x - q.y^2*u.z + q.y*q.z*u.y)) * hp + (2*(p.w*p.x*u.y - p.w*p.y*u.x - p.x^2*u.z + p.x*p.z*u.x - p.y^2*u.z + p.y*p.z*u.y)) * hq

/-- `R_Y · (R_Yᵀ dl + [−R_Yᵀ t]× R_Yᵀ da) = dl + da × t` -/
theorem adj_inv_lin (q : Quat K) (hq : q.sqn = 1) (t dl da : V3 K) :
    q.toRot.mulVec ((q.conj.toRot.mulVec dl).add
        (((M3.skew ((q.conj.toRot.mulVec t).neg)).mul q.conj.toRot).mulVec da)) =
      dl.add ((M3.skew da).mulVec t) := by
  unfold Quat.sqn at hq
  refine v3ext ?_ ?_ ?_
  · simp [Quat.toRot, Quat.conj, M3.mulVec, M3.mul, M3.skew, V3.add, V3.neg, sum3]
    ring_nf
    linear_combination (4*(da.y*q.x^2*t.z + da.y*q.y^2*t.z + da.y*q.z^2*t.z - da.z*q.x^2*t.y - da.z*q.y^2*t.y - da.z*q.z^2*t.y + dl.x*q.y^2 + dl.x*q.z^2 - dl.y*q.x*q.y - dl.z*q.x*q.z)) * hq
  · simp [Quat.toRot, Quat.conj, M3.mulVec, M3.mul, M3.skew, V3.add, V3.neg, sum3]
    ring_nf
    linear_combination (-4*(da.x*q.x^2*t.z + da.x*q.y^2*t.z + da.x*q.z^2*t.z - da.z*q.x^2*t.x - da.z*q.y^2*t.x - da.z*q.z^2*t.x + dl.x*q.x*q.y - dl.y*q.x^2 - dl.y*q.z^2 + dl.z*q.y*q.z)) * hq
  · simp [Quat.toRot, Quat.conj, M3.mulVec, M3.mul, M3.skew, V3.add, V3.neg, sum3]
    ring_nf
    linear_combination (4*(da.x*q.x^2*t.y + da.x*q.y^2*t.y + da.x*q.z^2*t.y - da.y*q.x^2*t.x - da.y*q.y^2*t.x - da.y*q.z^2*t.x - dl.x*q.x*q.z - dl.y*q.y*q.z + dl.z*q.x^2 + dl.z*q.y^2)) * hq

theorem rot_linear (R : M3 (Dual K)) (a b c d : V3 K) :
    (R.mulVec ((liftV a).add (epsV b))).add ((R.mulVec (epsV c)).add (liftV d)) =
      (R.mulVec (epsV (c.add b))).add ((R.mulVec (liftV a)).add (liftV d)) := by
  apply v3ext <;> apply Dual.ext' <;>
    simp [liftV, epsV, M3.mulVec, V3.add, sum3] <;> ring1

/-- **SE3 compose, first argument, translation part**: the translation of `(X ⊞ εd)·Y` is that of
    `(X·Y) ⊞ ε(Ad(Y⁻¹) d)`; the linear part of `Ad(Y⁻¹) d` is `R_Yᵀ dl + [t_{Y⁻¹}]× R_Yᵀ da`, the first
    block row of the model's `adj (inverseRaw Y)`. -/
theorem compose_Ja_trans (qx qy : Quat K) (tx ty dl da : V3 K) (hx : qx.sqn = 1) (hy : qy.sqn = 1) :
    ((((SO3.liftQ qx).mul (SO3.pertQ da)).toRot.mulVec (liftV ty)).add
        (((SO3.liftQ qx).toRot.mulVec (epsV dl)).add (liftV tx))) =
      ((((SO3.liftQ qx).mul (SO3.liftQ qy)).toRot.mulVec
          (epsV ((qy.conj.toRot.mulVec dl).add
            (((M3.skew ((qy.conj.toRot.mulVec ty).neg)).mul qy.conj.toRot).mulVec da)))).add
        (((SO3.liftQ qx).toRot.mulVec (liftV ty)).add (liftV tx))) := by
  rw [rot_mul_pert qx hx, rot_mul_eps qx qy hx hy, adj_inv_lin qy hy, rot_linear]

/-- **SE3 compose, second argument, translation part** (`J_mc_mb = I`): the translation of `X·(Y ⊞ εd)` is
    that of `(X·Y) ⊞ εd`. -/
theorem compose_Jb_trans (qx qy : Quat K) (tx ty dl : V3 K) (hx : qx.sqn = 1) (hy : qy.sqn = 1) :
    ((SO3.liftQ qx).toRot.mulVec (((SO3.liftQ qy).toRot.mulVec (epsV dl)).add (liftV ty))).add (liftV tx) =
      (((SO3.liftQ qx).mul (SO3.liftQ qy)).toRot.mulVec (epsV dl)).add
        (((SO3.liftQ qx).toRot.mulVec (liftV ty)).add (liftV tx)) := by
  rw [rot_mul_eps qx qy hx hy]
  generalize (SO3.liftQ qx).toRot = R
  apply v3ext <;> apply Dual.ext' <;>
    simp [Quat.toRot, SO3.liftQ, liftV, epsV, M3.mulVec, V3.add, sum3] <;> ring1

/-- **SE3 act, w.r.t. the element** (`J_vout_m = [R | −R[p]×]`, the model's `actJm`):
    `(X ⊞ εd)·p = X·p + ε (R dl + (−R)[p]× da)`. -/
theorem act_Jm (q : Quat K) (t p dl da : V3 K) (hq : q.sqn = 1) :
    ((((SO3.liftQ q).toRot.mulVec (epsV dl)).add (liftV t)).add
        (((SO3.liftQ q).mul (SO3.pertQ da)).toRot.mulVec (liftV p))) =
      ((liftV (t.add (q.toRot.mulVec p))).add
        (epsV ((q.toRot.mulVec dl).add ((q.toRot.neg.mul (M3.skew p)).mulVec da)))) := by
  rw [rot_mul_pert q hq]
  have hn : q.toRot.neg = ⟨-q.toRot.a00, -q.toRot.a01, -q.toRot.a02, -q.toRot.a10, -q.toRot.a11, -q.toRot.a12,
      -q.toRot.a20, -q.toRot.a21, -q.toRot.a22⟩ := rfl
  rw [hn]
  apply v3ext <;> apply Dual.ext' <;>
    simp [Quat.toRot, SO3.liftQ, liftV, epsV, M3.mulVec, M3.mul, M3.skew, V3.add, sum3] <;> ring1

/-- **SE3 act, w.r.t. the point** (`J_vout_v = R`). -/
theorem act_Jv (q : Quat K) (t p w : V3 K) :
    ((liftV t).add ((SO3.liftQ q).toRot.mulVec ((liftV p).add (epsV w)))) =
      ((liftV (t.add (q.toRot.mulVec p))).add (epsV (q.toRot.mulVec w))) := by
  apply v3ext <;> apply Dual.ext' <;>
    simp [Quat.toRot, SO3.liftQ, liftV, epsV, M3.mulVec, V3.add, sum3] <;> ring1
/-- **SE3 inverse, translation part** (`J_minv_m = −Ad_X`): the translation of `(X ⊞ εd)⁻¹` is that of
    `X⁻¹ ⊞ ε(−Ad_X d)`, with the first block row `[R | [t]× R]` of the model's `adj X`. -/
theorem inverse_J_trans (q : Quat K) (t dl da : V3 K) (hq : q.sqn = 1) :
    ((((SO3.liftQ q).mul (SO3.pertQ da)).conj.toRot.mulVec
        (((SO3.liftQ q).toRot.mulVec (epsV dl)).add (liftV t))).neg) =
      (liftV ((q.conj.toRot.mulVec t).neg)).add
        ((SO3.liftQ q.conj).toRot.mulVec (epsV (((q.toRot.mulVec dl).add (((M3.skew t).mul q.toRot).mulVec da)).neg))) := by
  unfold Quat.sqn at hq
  apply v3ext <;> apply Dual.ext' <;>
    simp [Quat.toRot, Quat.mul, Quat.conj, SO3.liftQ, SO3.pertQ, liftV, epsV, M3.mulVec, M3.mul, M3.skew, V3.add, V3.neg, sum3] <;>
    ring_nf <;>
    first
      | done
      | linear_combination (-4*da.y*q.x*q.z*t.x - 4*da.y*q.y*q.z*t.y - 4*da.y*q.z^2*t.z + da.y*t.z + 4*da.z*q.x*q.y*t.x + 4*da.z*q.y^2*t.y + 4*da.z*q.y*q.z*t.z - da.z*t.y) * hq
      | linear_combination (4*da.x*q.x*q.z*t.x + 4*da.x*q.y*q.z*t.y + 4*da.x*q.z^2*t.z - da.x*t.z - 4*da.z*q.x^2*t.x - 4*da.z*q.x*q.y*t.y - 4*da.z*q.x*q.z*t.z + da.z*t.x) * hq
      | linear_combination (-4*da.x*q.x*q.y*t.x - 4*da.x*q.y^2*t.y - 4*da.x*q.y*q.z*t.z + da.x*t.y + 4*da.y*q.x^2*t.x + 4*da.y*q.x*q.y*t.y + 4*da.y*q.x*q.z*t.z - da.y*t.x) * hq
end SE3
end Manif
