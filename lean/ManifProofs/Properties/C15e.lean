/-
  C15 (continued) — SLERP end point `interpolate(A, B, 1) = ±B` (the same transformation; translation-like parts and
  time exactly) for SE_2(3) and SGal(3) over ℝ, from `interpSlerp_one_eq` and the round-trip theorems of C04.
-/
import ManifProofs.Properties.C15d
import ManifProofs.Properties.C04g

set_option linter.all false
namespace Manif
namespace SE23
theorem tscale_one (d : SE23T ℝ) : (se23Ops (K := ℝ)).tscale d 1 = d := by
  cases d with | mk l a m => cases l; cases a; cases m; simp [se23Ops, V3.muls]

theorem slerp_one (dbg : Bool) {A B : SE23 ℝ} (hA : Valid A) (hB : Valid B)
    (h : realEps < (A.q.conj.mul B.q).x * (A.q.conj.mul B.q).x +
      ((A.q.conj.mul B.q).y * (A.q.conj.mul B.q).y + (A.q.conj.mul B.q).z * (A.q.conj.mul B.q).z)) :
    se23Ops.interpSlerp dbg A B 1 =
      .ok ⟨B.t, if (A.q.conj.mul B.q).w < 0 then ⟨-B.q.x, -B.q.y, -B.q.z, -B.q.w⟩ else B.q, B.v⟩ := by
  have hu : inUnit (1 : ℝ) = true := by simp [inUnit]
  rw [interpSlerp_one_eq se23Ops dbg A B 1 tscale_one hu]
  exact rplus_rminus dbg hA hB h
end SE23

namespace SGal3
theorem tscale_one (d : SGal3T ℝ) : (sgal3Ops (K := ℝ)).tscale d 1 = d := by
  cases d with | mk l m a s => cases l; cases a; cases m; simp [sgal3Ops, V3.muls]

theorem slerp_one (dbg : Bool) {A B : SGal3 ℝ} (hA : Valid A) (hB : Valid B)
    (h : realEps < (A.q.conj.mul B.q).x * (A.q.conj.mul B.q).x +
      ((A.q.conj.mul B.q).y * (A.q.conj.mul B.q).y + (A.q.conj.mul B.q).z * (A.q.conj.mul B.q).z)) :
    sgal3Ops.interpSlerp dbg A B 1 =
      .ok ⟨B.p, if (A.q.conj.mul B.q).w < 0 then ⟨-B.q.x, -B.q.y, -B.q.z, -B.q.w⟩ else B.q, B.v, B.t⟩ := by
  have hu : inUnit (1 : ℝ) = true := by simp [inUnit]
  rw [interpSlerp_one_eq sgal3Ops dbg A B 1 tscale_one hu]
  exact rplus_rminus dbg hA hB h
end SGal3
end Manif
