/-
  C06 (continued) — SE_2(3), every ordered field: `Jl(t) = Jr(−t)`, `Jr⁻¹(t) = Jl⁻¹(−t)` (both `Q` blocks),
  `Adj(X·Y) = Adj(X)·Adj(Y)` (9×9, the model's block product); over ℝ `Jr⁻¹·Jr = I`.
-/
import ManifProofs.Properties.C06f
import ManifProofs.Properties.C01b
set_option linter.all false
namespace Manif
open Matrix
namespace SE23T

/-- **`Jl(t) = Jr(−t)`** for SE_2(3), with both `Q` blocks, every ordered field -/
theorem ljac_eq_rjac_neg {K : Type} [Field K] [LinearOrder K] [IsStrictOrderedRing K] [Transc K] [LawfulTransc K]
    (t : SE23T K) : ljac t = rjac (neg t) := by
  have h := SO3T.ljac_eq_rjac_neg t.asSO3
  unfold ljac rjac neg
  simp only [asSO3, SE3T.v3_neg_neg] at h ⊢
  have e : SO3T.rjac (⟨t.ang.neg⟩ : SO3T K) = SO3T.ljac (⟨t.ang⟩ : SO3T K) := by
    rw [h]; rfl
  rw [e]

theorem rjacinv_eq_ljacinv_neg {K : Type} [Field K] [LinearOrder K] [IsStrictOrderedRing K] [Transc K] [LawfulTransc K]
    (t : SE23T K) : rjacinv t = ljacinv (neg t) := by
  have h := SO3T.rjacinv_eq_ljacinv_neg t.asSO3
  unfold rjacinv ljacinv neg
  simp only [asSO3, SO3T.neg] at h ⊢
  rw [h]

theorem rjac_eq_ljac_neg {K : Type} [Field K] [LinearOrder K] [IsStrictOrderedRing K] [Transc K] [LawfulTransc K]
    (t : SE23T K) : rjac t = ljac (neg t) := by
  have h := ljac_eq_rjac_neg (neg t)
  have e : neg (neg t) = t := by cases t; simp [neg, SE3T.v3_neg_neg]
  rw [e] at h
  exact h.symm

/-- **SE_2(3): `Jr⁻¹ · Jr = I`** (9×9). -/
theorem rjacinv_mul_rjac (t : SE23T ℝ) (h : realEps < t.ang.x * t.ang.x + (t.ang.y * t.ang.y + t.ang.z * t.ang.z))
    (hs : Real.sin (Real.sqrt (t.ang.x * t.ang.x + (t.ang.y * t.ang.y + t.ang.z * t.ang.z)) / 2) ≠ 0) :
    (rjacinv t).mul (rjac t) = M9.one := by
  rw [rjacinv_eq_ljacinv_neg, rjac_eq_ljac_neg]
  have e : ((neg t).ang.x * (neg t).ang.x + ((neg t).ang.y * (neg t).ang.y + (neg t).ang.z * (neg t).ang.z)) =
      t.ang.x * t.ang.x + (t.ang.y * t.ang.y + t.ang.z * t.ang.z) := by simp [neg, V3.neg]
  exact ljacinv_mul_ljac (neg t) (by rw [e]; exact h) (by rw [e]; exact hs)
end SE23T
end Manif

namespace Manif
open Matrix
variable {K : Type} [Field K] [LinearOrder K] [IsStrictOrderedRing K] [Transc K] [LawfulTransc K]
namespace SE23
/-- **`Adj(X·Y) = Adj(X)·Adj(Y)`** for SE_2(3) (9×9, the model's block product) on valid elements. -/
theorem adj_compose (X Y : SE23 K) (hX : Valid X) (hY : Valid Y) :
    adj (⟨(X.rotation.mulVec Y.t).add X.t, X.q.mul Y.q, (X.rotation.mulVec Y.v).add X.v⟩ : SE23 K) = (adj X).mul (adj Y) := by
  unfold Valid at hX hY
  have hR : (X.q.mul Y.q).toRot = X.q.toRot.mul Y.q.toRot := Quat.toRot_mul _ _ hX hY
  have hs1 := congrArg M3.toMatrix (SO3.skew_rot X.q hX Y.t)
  have hs2 := congrArg M3.toMatrix (SO3.skew_rot X.q hX Y.v)
  simp only [M3.toMatrix_mul] at hs1 hs2
  unfold adj M9.mul
  simp only [rotation, SO3.rotation, asSO3, hR, SO3.skew_add]
  apply M9.ext' <;> apply M3.toMatrix_injective <;>
    simp only [M3.toMatrix_mul, M3.toMatrix_add, M3.toMatrix_zero, mul_zero, zero_mul, add_zero, zero_add] <;>
    first
      | rfl
      | (rw [add_mul, ← Matrix.mul_assoc, hs1, Matrix.mul_assoc, Matrix.mul_assoc, add_comm])
      | (rw [add_mul, ← Matrix.mul_assoc, hs2, Matrix.mul_assoc, Matrix.mul_assoc, add_comm])
end SE23
end Manif
