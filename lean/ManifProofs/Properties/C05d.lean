/-
  C05 (continued) — SE_2(3) composition / inverse Jacobians are derivatives (dual numbers).  Position and velocity
  both transform as `R·x + x₀`, so each statement is two instances of the SE3 lemma on the translation part; the
  rows used are those of the model's `SE23.adj` (checked by `adj_inverse_rows`, `adj_rows`).  Rotation part: the SO3
  theorems of `C05.lean`.
-/
import ManifProofs.Properties.C05c

set_option linter.all false
namespace Manif
variable {K : Type} [Field K] [LinearOrder K] [IsStrictOrderedRing K] [Transc K] [LawfulTransc K]
namespace SE23

/-- the rows of `adj (Y⁻¹)` the statements below use (`Y⁻¹ = (−R̄t, q̄, −R̄v)` on a valid `Y`) -/
theorem adj_inverse_rows (q : Quat K) (t v : V3 K) :
    adj (⟨(q.conj.toRot.mulVec t).neg, q.conj, (q.conj.toRot.mulVec v).neg⟩ : SE23 K) =
      ⟨q.conj.toRot, (M3.skew ((q.conj.toRot.mulVec t).neg)).mul q.conj.toRot, M3.zero,
       M3.zero, q.conj.toRot, M3.zero,
       M3.zero, (M3.skew ((q.conj.toRot.mulVec v).neg)).mul q.conj.toRot, q.conj.toRot⟩ := rfl

theorem adj_rows (X : SE23 K) :
    adj X = ⟨X.q.toRot, (M3.skew X.t).mul X.q.toRot, M3.zero, M3.zero, X.q.toRot, M3.zero,
      M3.zero, (M3.skew X.v).mul X.q.toRot, X.q.toRot⟩ := rfl

/-- **compose, first argument** (`J_mc_ma = Adj(Y⁻¹)`): position and velocity of `(X ⊞ εd)·Y` are those of
    `(X·Y) ⊞ ε(Adj(Y⁻¹) d)`. -/
theorem compose_Ja_parts (qx qy : Quat K) (tx ty vx vy dl da dv : V3 K) (hx : qx.sqn = 1) (hy : qy.sqn = 1) :
    ((((SO3.liftQ qx).mul (SO3.pertQ da)).toRot.mulVec (SE3.liftV ty)).add
        (((SO3.liftQ qx).toRot.mulVec (SE3.epsV dl)).add (SE3.liftV tx))) =
      ((((SO3.liftQ qx).mul (SO3.liftQ qy)).toRot.mulVec
          (SE3.epsV ((qy.conj.toRot.mulVec dl).add
            (((M3.skew ((qy.conj.toRot.mulVec ty).neg)).mul qy.conj.toRot).mulVec da)))).add
        (((SO3.liftQ qx).toRot.mulVec (SE3.liftV ty)).add (SE3.liftV tx))) ∧
    ((((SO3.liftQ qx).mul (SO3.pertQ da)).toRot.mulVec (SE3.liftV vy)).add
        (((SO3.liftQ qx).toRot.mulVec (SE3.epsV dv)).add (SE3.liftV vx))) =
      ((((SO3.liftQ qx).mul (SO3.liftQ qy)).toRot.mulVec
          (SE3.epsV ((qy.conj.toRot.mulVec dv).add
            (((M3.skew ((qy.conj.toRot.mulVec vy).neg)).mul qy.conj.toRot).mulVec da)))).add
        (((SO3.liftQ qx).toRot.mulVec (SE3.liftV vy)).add (SE3.liftV vx))) :=
  ⟨SE3.compose_Ja_trans qx qy tx ty dl da hx hy, SE3.compose_Ja_trans qx qy vx vy dv da hx hy⟩

/-- **compose, second argument** (`J_mc_mb = I`). -/
theorem compose_Jb_parts (qx qy : Quat K) (tx ty vx vy dl dv : V3 K) (hx : qx.sqn = 1) (hy : qy.sqn = 1) :
    (((SO3.liftQ qx).toRot.mulVec (((SO3.liftQ qy).toRot.mulVec (SE3.epsV dl)).add (SE3.liftV ty))).add (SE3.liftV tx) =
      (((SO3.liftQ qx).mul (SO3.liftQ qy)).toRot.mulVec (SE3.epsV dl)).add
        (((SO3.liftQ qx).toRot.mulVec (SE3.liftV ty)).add (SE3.liftV tx))) ∧
    (((SO3.liftQ qx).toRot.mulVec (((SO3.liftQ qy).toRot.mulVec (SE3.epsV dv)).add (SE3.liftV vy))).add (SE3.liftV vx) =
      (((SO3.liftQ qx).mul (SO3.liftQ qy)).toRot.mulVec (SE3.epsV dv)).add
        (((SO3.liftQ qx).toRot.mulVec (SE3.liftV vy)).add (SE3.liftV vx))) :=
  ⟨SE3.compose_Jb_trans qx qy tx ty dl hx hy, SE3.compose_Jb_trans qx qy vx vy dv hx hy⟩

/-- **inverse** (`J_minv_m = −Adj(X)`), position and velocity parts. -/
theorem inverse_J_parts (q : Quat K) (t v dl da dv : V3 K) (hq : q.sqn = 1) :
    ((((SO3.liftQ q).mul (SO3.pertQ da)).conj.toRot.mulVec
        (((SO3.liftQ q).toRot.mulVec (SE3.epsV dl)).add (SE3.liftV t))).neg) =
      (SE3.liftV ((q.conj.toRot.mulVec t).neg)).add
        ((SO3.liftQ q.conj).toRot.mulVec (SE3.epsV (((q.toRot.mulVec dl).add (((M3.skew t).mul q.toRot).mulVec da)).neg))) ∧
    ((((SO3.liftQ q).mul (SO3.pertQ da)).conj.toRot.mulVec
        (((SO3.liftQ q).toRot.mulVec (SE3.epsV dv)).add (SE3.liftV v))).neg) =
      (SE3.liftV ((q.conj.toRot.mulVec v).neg)).add
        ((SO3.liftQ q.conj).toRot.mulVec (SE3.epsV (((q.toRot.mulVec dv).add (((M3.skew v).mul q.toRot).mulVec da)).neg))) :=
  ⟨SE3.inverse_J_trans q t dl da hq, SE3.inverse_J_trans q v dv da hq⟩
end SE23
end Manif
