/-
  C08 — elements stay valid under arbitrarily long operation histories.
  Exact-arithmetic part, every ordered field with a lawful sqrt, NO bound on the length:
    * the first-order Newton step `approxSqrtInv` is a cubic contraction of the squared-norm
      deviation: `(1+δ)·s(1+δ)² − 1 = δ³(9δ²−15δ+40)/64`, so `≤ |δ|³` for `|δ| ≤ 1/2`;
    * `compose` multiplies squared norms and renormalises iff the deviation exceeds `eps`;
      hence `|‖·‖²−1| ≤ eps` is an INVARIANT of every history of compose / inverse steps
      (induction over the operation list), and under that invariant the constructor check
      `|‖·‖−1| < eps` never fires: no exception with assertions enabled, deviation bounded
      independently of the history length.
  Floating-point drift is the same recurrence with an additive rounding perturbation
  (`drift_step_bound`); that each operation contributes at most a few ulp is measured by the
  lock-step histories (hist.py), not proved.
-/
import ManifProofs.Properties.C01
import Mathlib.Tactic.Positivity

namespace Manif
variable {K : Type} [Field K] [LinearOrder K] [IsStrictOrderedRing K] [Transc K] [LawfulTransc K]

/-- the residual of one `approxSqrtInv` step -/
theorem approxSqrtInv_residual (δ : K) :
    (1 + δ) * (approxSqrtInv (1 + δ) * approxSqrtInv (1 + δ)) - 1 =
      δ ^ 3 * (9 * δ ^ 2 - 15 * δ + 40) / 64 := by
  simp only [approxSqrtInv, scalar_nat]
  push_cast
  ring

/-- **cubic contraction** -/
theorem approxSqrtInv_cubic (δ : K) (h : |δ| ≤ 1 / 2) :
    |(1 + δ) * (approxSqrtInv (1 + δ) * approxSqrtInv (1 + δ)) - 1| ≤ |δ| ^ 3 := by
  rw [approxSqrtInv_residual, abs_div, abs_mul, abs_pow]
  have h1 := abs_le.mp h
  have hq : |9 * δ ^ 2 - 15 * δ + 40| ≤ 64 := by
    rw [abs_le]; constructor <;> nlinarith [sq_nonneg δ]
  have h64 : |(64 : K)| = 64 := abs_of_pos (by norm_num)
  rw [h64, div_le_iff₀ (by norm_num : (0 : K) < 64)]
  exact mul_le_mul_of_nonneg_left hq (by positivity)

/-- the squared-norm deviation after `compose`'s renormalisation logic, as a function of the
    deviation `d` of the raw product -/
noncomputable def renormDev (d : K) : K :=
  if Transc.eps < |d| then (1 + d) * (approxSqrtInv (1 + d) * approxSqrtInv (1 + d)) - 1 else d

/-- **one step keeps the invariant**: if both operands are within `eps` (and eps ≤ 1/10) the result
    is within `eps` again — whichever branch is taken. -/
theorem renormDev_invariant (a b : K) (he : (Transc.eps : K) ≤ 1 / 10)
    (ha : |a| ≤ Transc.eps) (hb : |b| ≤ Transc.eps) :
    |renormDev (a + b + a * b)| ≤ Transc.eps := by
  have hpos : (0 : K) < Transc.eps := LawfulTransc.eps_pos
  unfold renormDev
  split
  · rename_i hgt
    have hd : |a + b + a * b| ≤ 3 * Transc.eps := by
      have h1 := abs_le.mp ha
      have h2 := abs_le.mp hb
      rw [abs_le]
      constructor <;> nlinarith [mul_nonneg hpos.le hpos.le]
    have hhalf : |a + b + a * b| ≤ 1 / 2 := by linarith
    have := approxSqrtInv_cubic _ hhalf
    calc _ ≤ |a + b + a * b| ^ 3 := this
      _ ≤ (3 * Transc.eps) ^ 3 := pow_le_pow_left₀ (abs_nonneg _) hd 3
      _ ≤ Transc.eps := by nlinarith [mul_pos hpos hpos, mul_pos (mul_pos hpos hpos) hpos]
  · rename_i hle
    exact not_lt.mp hle

/-- rounding model: a perturbation of size `e` per operation moves the bound by `e`, never more. -/
theorem drift_step_bound (a b e : K) (he : (Transc.eps : K) ≤ 1 / 10)
    (ha : |a| ≤ Transc.eps) (hb : |b| ≤ Transc.eps) :
    |renormDev (a + b + a * b) + e| ≤ Transc.eps + |e| :=
  (abs_add_le _ _).trans (add_le_add (renormDev_invariant a b he ha hb) le_rfl)

/-! ## SO2: the invariant along every history -/
namespace SO2

/-- squared-norm deviation -/
def dev (X : SO2 K) : K := X.re * X.re + X.im * X.im - 1

def Near (X : SO2 K) : Prop := |dev X| ≤ Transc.eps

theorem dev_composeRaw (X Y : SO2 K) :
    dev (composeRaw X Y) = renormDev (dev X + dev Y + dev X * dev Y) := by
  have hn : (X.re * Y.re - X.im * Y.im) * (X.re * Y.re - X.im * Y.im) +
      (X.re * Y.im + X.im * Y.re) * (X.re * Y.im + X.im * Y.re) - 1
      = dev X + dev Y + dev X * dev Y := by unfold dev; ring
  unfold composeRaw renormDev
  simp only [scalar_gt, scalar_abs, scalar_eps, scalar_nat, Nat.cast_one]
  rw [hn]
  by_cases h : Transc.eps < |dev X + dev Y + dev X * dev Y|
  · simp only [h, decide_true, if_true]
    have e : (X.re * Y.re - X.im * Y.im) * (X.re * Y.re - X.im * Y.im) +
      (X.re * Y.im + X.im * Y.re) * (X.re * Y.im + X.im * Y.re)
      = 1 + (dev X + dev Y + dev X * dev Y) := by rw [← hn]; ring
    simp only [dev, e]
    ring
  · simp only [h, decide_false, if_false, Bool.false_eq_true]
    rw [← hn]
    rfl

theorem near_composeRaw (he : (Transc.eps : K) ≤ 1 / 10) {X Y : SO2 K} (hX : Near X) (hY : Near Y) :
    Near (composeRaw X Y) := by
  unfold Near
  rw [dev_composeRaw]
  exact renormDev_invariant _ _ he hX hY

theorem near_inverseRaw {X : SO2 K} (hX : Near X) : Near (inverseRaw X) := by
  unfold Near dev inverseRaw at *
  simpa using hX

/-- under the invariant the constructor check never fires (assertions enabled). -/
theorem make_ok_of_near (dbg : Bool) {X : SO2 K} (hX : Near X) : make dbg X.re X.im = .ok X := by
  have hpos : (0 : K) < Transc.eps := LawfulTransc.eps_pos
  have hlt : (Transc.eps : K) < 1 := LawfulTransc.eps_lt_one
  set s := X.re * X.re + X.im * X.im with hs
  have hd : |s - 1| ≤ Transc.eps := hX
  have hspos : 0 < s := by have := abs_le.mp hd; linarith
  have hr := LawfulTransc.sqrt_mul_self s hspos.le
  have hr0 := LawfulTransc.sqrt_nonneg s
  have hrpos : 0 < Transc.sqrt s := by
    rcases hr0.lt_or_eq with h | h
    · exact h
    · rw [← h] at hr; simp at hr; linarith
  have key : |Transc.sqrt s - 1| < Transc.eps := by
    have e : (Transc.sqrt s - 1) * (Transc.sqrt s + 1) = s - 1 := by linear_combination hr
    have hp : 1 < Transc.sqrt s + 1 := by linarith
    have : |Transc.sqrt s - 1| * (Transc.sqrt s + 1) = |s - 1| := by
      rw [← e, abs_mul, abs_of_pos (by linarith : 0 < Transc.sqrt s + 1)]
    by_cases hz : Transc.sqrt s - 1 = 0
    · rw [hz]; simpa using hpos
    · have hapos : 0 < |Transc.sqrt s - 1| := abs_pos.mpr hz
      nlinarith
  have hn : (V2.mk X.re X.im).norm = Transc.sqrt s := by simp [V2.norm, V2.sqNorm, hs]
  unfold make checkUnit
  simp [hn, key]

/-- a history: each step composes or inverts elements of the pool and stores the result -/
inductive Step where
  | compose (i j dst : ℕ)
  | inverse (i dst : ℕ)

def step (dbg : Bool) (pool : List (SO2 K)) : Step → Except Err (List (SO2 K))
  | .compose i j dst =>
    match pool[i]?, pool[j]? with
    | some X, some Y => (compose dbg X Y).map fun Z => pool.set dst Z
    | _, _ => .ok pool
  | .inverse i dst =>
    match pool[i]? with
    | some X => (inverse dbg X).map fun Z => pool.set dst Z
    | none => .ok pool

def run (dbg : Bool) : List Step → List (SO2 K) → Except Err (List (SO2 K))
  | [], pool => .ok pool
  | s :: rest, pool => (step dbg pool s) >>= run dbg rest

theorem step_near (he : (Transc.eps : K) ≤ 1 / 10) (dbg : Bool) (pool : List (SO2 K))
    (h : ∀ X ∈ pool, Near X) (s : Step) :
    ∃ pool', step dbg pool s = .ok pool' ∧ ∀ X ∈ pool', Near X := by
  cases s with
  | compose i j dst =>
    rcases hi : pool[i]? with _ | X
    · exact ⟨pool, by simp [step, hi], h⟩
    rcases hj : pool[j]? with _ | Y
    · exact ⟨pool, by simp [step, hi, hj], h⟩
    · have hX := h X (List.mem_of_getElem? hi)
      have hY := h Y (List.mem_of_getElem? hj)
      have hZ := near_composeRaw he hX hY
      have hok : compose dbg X Y = .ok (composeRaw X Y) := by
        unfold compose; exact make_ok_of_near dbg hZ
      refine ⟨pool.set dst (composeRaw X Y), by simp [step, hi, hj, hok, Except.map], ?_⟩
      intro W hW
      rcases List.mem_or_eq_of_mem_set hW with hW | hW
      · exact h W hW
      · rw [hW]; exact hZ
  | inverse i dst =>
    rcases hi : pool[i]? with _ | X
    · exact ⟨pool, by simp [step, hi], h⟩
    · have hX := h X (List.mem_of_getElem? hi)
      have hZ := near_inverseRaw hX
      have hok : inverse dbg X = .ok (inverseRaw X) := by
        unfold inverse; exact make_ok_of_near dbg (X := inverseRaw X) hZ
      refine ⟨pool.set dst (inverseRaw X), by simp [step, hi, hok, Except.map], ?_⟩
      intro W hW
      rcases List.mem_or_eq_of_mem_set hW with hW | hW
      · exact h W hW
      · rw [hW]; exact hZ

/-- **every history, of any length**: no exception (assertions enabled or not), and every element
    of the pool stays within `eps` of unit squared norm. -/
theorem run_near (he : (Transc.eps : K) ≤ 1 / 10) (dbg : Bool) (ops : List Step) :
    ∀ pool : List (SO2 K), (∀ X ∈ pool, Near X) →
      ∃ pool', run dbg ops pool = .ok pool' ∧ ∀ X ∈ pool', Near X := by
  induction ops with
  | nil => intro pool h; exact ⟨pool, rfl, h⟩
  | cons s rest ih =>
    intro pool h
    obtain ⟨p1, h1, hn1⟩ := step_near he dbg pool h s
    obtain ⟨p2, h2, hn2⟩ := ih p1 hn1
    exact ⟨p2, by simp [run, h1, h2, bind, Except.bind], hn2⟩

end SO2

end Manif
