/-
  C04 (continued) — SGal(3) over ℝ: `X ⊕ (Y ⊖ X) = Y` as whole API calls: position, velocity and time exactly (the
  time coupling of compose and inverse cancels), quaternion up to sign, whenever the relative rotation is above log's
  switch-over.
-/
import ManifProofs.Properties.C04f

set_option linter.all false
namespace Manif
namespace SGal3

theorem compose_ok (dbg : Bool) {X Y : SGal3 ℝ} (hX : Valid X) (hY : Valid Y) :
    compose dbg X Y = .ok ⟨((X.rotation.mulVec Y.p).add (X.v.smul Y.t)).add X.p, X.q.mul Y.q,
      (X.rotation.mulVec Y.v).add X.v, X.t + Y.t⟩ := by
  have hXs : SO3.Valid X.asSO3 := hX
  have hYs : SO3.Valid Y.asSO3 := hY
  have hq : (X.q.mul Y.q).sqn = 1 := by unfold Valid at *; rw [Quat.sqn_mul, hX, hY, one_mul]
  have h1 : SO3.compose dbg X.asSO3 Y.asSO3 = .ok ⟨X.q.mul Y.q⟩ := SO3.compose_ok dbg hXs hYs
  simp only [compose, h1, except_ok_bind]
  exact make_ok' dbg _ _ _ hq

theorem inverse_ok (dbg : Bool) {X : SGal3 ℝ} (hX : Valid X) :
    inverse dbg X = .ok ⟨((SO3.mk X.q.conj).act (X.p.sub (X.v.smul X.t))).neg, X.q.conj,
      ((SO3.mk X.q.conj).act X.v).neg, -X.t⟩ := by
  have hc : X.q.conj.sqn = 1 := by unfold Valid at hX; rw [Quat.sqn_conj, hX]
  have h1 : SO3.inverse dbg X.asSO3 = .ok ⟨X.q.conj⟩ := SO3.make_ok dbg (X := ⟨X.q.conj⟩) hc
  simp only [inverse, h1, except_ok_bind]
  exact make_ok' dbg _ _ _ hc

/-- the position of `X · (X⁻¹ · Y)` is the position of `Y` -/
theorem back_pos (q : Quat ℝ) (hq : q.sqn = 1) (px vx py : V3 ℝ) (tx ty : ℝ) :
    ((q.toRot.mulVec (((q.conj.toRot.mulVec py).add (((q.conj.toRot.mulVec vx).neg).smul ty)).add
        ((q.conj.toRot.mulVec (px.sub (vx.smul tx))).neg))).add (vx.smul (-tx + ty))).add px = py := by
  have hr1 := SE3.rot_rot_conj q hq py
  have hr2 := SE3.rot_rot_conj q hq vx
  have hr3 := SE3.rot_rot_conj q hq px
  cases hy : py with
  | mk y0 y1 y2 =>
    cases hx : px with
    | mk x0 x1 x2 =>
      cases hv : vx with
      | mk v0 v1 v2 =>
        rw [hy] at hr1; rw [hv] at hr2; rw [hx] at hr3
        simp only [M3.mulVec, V3.add, V3.sub, V3.neg, V3.smul, sum3, V3.mk.injEq] at hr1 hr2 hr3 ⊢
        obtain ⟨a1, a2, a3⟩ := hr1
        obtain ⟨b1, b2, b3⟩ := hr2
        obtain ⟨c1, c2, c3⟩ := hr3
        refine ⟨?_, ?_, ?_⟩
        · linear_combination a1 - (ty - tx) * b1 - c1
        · linear_combination a2 - (ty - tx) * b2 - c2
        · linear_combination a3 - (ty - tx) * b3 - c3

/-- **SGal(3): `X ⊕ (Y ⊖ X) = Y`** as whole API calls. -/
theorem rplus_rminus (dbg : Bool) {X Y : SGal3 ℝ} (hX : Valid X) (hY : Valid Y)
    (h : realEps < (X.q.conj.mul Y.q).x * (X.q.conj.mul Y.q).x +
      ((X.q.conj.mul Y.q).y * (X.q.conj.mul Y.q).y + (X.q.conj.mul Y.q).z * (X.q.conj.mul Y.q).z)) :
    (do let d ← sgal3Ops.rminus dbg Y X false false
        let r ← sgal3Ops.rplus dbg X d.val false false
        pure r.val) =
      (.ok ⟨Y.p, if (X.q.conj.mul Y.q).w < 0 then ⟨-Y.q.x, -Y.q.y, -Y.q.z, -Y.q.w⟩ else Y.q, Y.v, Y.t⟩ : Except Err (SGal3 ℝ)) := by
  have hXi : Valid (⟨((SO3.mk X.q.conj).act (X.p.sub (X.v.smul X.t))).neg, X.q.conj, ((SO3.mk X.q.conj).act X.v).neg, -X.t⟩ : SGal3 ℝ) := by unfold Valid at *; simp only; rw [Quat.sqn_conj]; exact hX
  have hc1 := compose_ok dbg hXi hY
  simp only at hc1
  set Z : SGal3 ℝ := ⟨(((⟨((SO3.mk X.q.conj).act (X.p.sub (X.v.smul X.t))).neg, X.q.conj, ((SO3.mk X.q.conj).act X.v).neg, -X.t⟩ : SGal3 ℝ).rotation.mulVec Y.p).add ((((SO3.mk X.q.conj).act X.v).neg).smul Y.t)).add
      ((SO3.mk X.q.conj).act (X.p.sub (X.v.smul X.t))).neg, X.q.conj.mul Y.q,
    ((⟨((SO3.mk X.q.conj).act (X.p.sub (X.v.smul X.t))).neg, X.q.conj, ((SO3.mk X.q.conj).act X.v).neg, -X.t⟩ : SGal3 ℝ).rotation.mulVec Y.v).add ((SO3.mk X.q.conj).act X.v).neg, -X.t + Y.t⟩ with hZdef
  have hZ : Valid Z := by unfold Valid at *; simp only [hZdef]; rw [Quat.sqn_mul, Quat.sqn_conj, hX, hY, one_mul]
  have hZq : Z.q = X.q.conj.mul Y.q := rfl
  have hel := exp_log_generic dbg Z hZ (by rw [hZq]; exact h)
  have hcv : Valid (⟨Z.p, SO3.canon Z.q, Z.v, Z.t⟩ : SGal3 ℝ) := by unfold Valid; simp only; rw [SO3.canon_sqn]; exact hZ
  have hc2 := compose_ok dbg hX hcv
  simp only at hc2
  have hq : X.q.mul (SO3.canon Z.q) =
      if (X.q.conj.mul Y.q).w < 0 then ⟨-Y.q.x, -Y.q.y, -Y.q.z, -Y.q.w⟩ else Y.q := by
    rw [hZq, SO3.mul_canon, SO3.mul_conj_mul _ _ hX]
  have hp : ((X.rotation.mulVec Z.p).add (X.v.smul Z.t)).add X.p = Y.p := by
    simp only [hZdef, rotation, SO3.rotation, asSO3, SO3.act]
    exact back_pos X.q hX X.p X.v Y.p X.t Y.t
  have hv : (X.rotation.mulVec Z.v).add X.v = Y.v := by
    simp only [hZdef, rotation, SO3.rotation, asSO3, SO3.act]
    exact SE23.back X.q hX X.v Y.v
  have ht : X.t + Z.t = Y.t := by simp only [hZdef]; ring
  simp only [GroupOps.rminus, GroupOps.rplus, sgal3Ops, inverse_ok dbg hX, hc1, except_ok_bind, hel, hc2, hq, hp, hv, ht,
    bind, Except.bind, pure, Except.pure]
  rfl
end SGal3
end Manif
