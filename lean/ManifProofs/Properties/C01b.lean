/-
  Properties/C01b.lean — C01 for the two 5×5 groups, over every ordered field with lawful
  sin/cos/sqrt (ℚ included): for SE_2(3) and SGal(3) the matrix of `X·Y` is the product of the
  matrices, `inverse` is a two-sided inverse, construction of the results never raises on valid
  operands (either quaternion hemisphere), and `act` is the matrix action.
  `hom5 R a b τ = [R a b; 0 1 τ; 0 0 1]`.
-/
import ManifProofs.Properties.C01
namespace Manif
open Matrix
variable {K : Type} [Field K] [LinearOrder K] [IsStrictOrderedRing K] [Transc K] [LawfulTransc K]

/-- the 5×5 matrix `[R a b; 0 1 τ; 0 0 1]` (SE_2(3): a = t, b = v, τ = 0; SGal(3): a = v, b = p, τ = t). -/
def hom5 (R : M3 K) (a b : V3 K) (τ : K) : Matrix (Fin 5) (Fin 5) K :=
  !![R.a00, R.a01, R.a02, a.x, b.x; R.a10, R.a11, R.a12, a.y, b.y; R.a20, R.a21, R.a22, a.z, b.z;
     0, 0, 0, 1, τ; 0, 0, 0, 0, 1]

theorem hom5_mul (R S : M3 K) (a b c d : V3 K) (τ σ : K) :
    hom5 R a b τ * hom5 S c d σ =
      hom5 (R.mul S) ((R.mulVec c).add a) (((R.mulVec d).add (a.smul σ)).add b) (τ + σ) := by
  ext i j
  fin_cases i <;> fin_cases j <;>
    simp [hom5, Matrix.mul_apply, Fin.sum_univ_five, M3.mul, M3.mulVec, V3.add, V3.smul, sum3] <;> ring

theorem hom5_one : hom5 (M3.one : M3 K) ⟨0, 0, 0⟩ ⟨0, 0, 0⟩ 0 = 1 := by
  ext i j
  fin_cases i <;> fin_cases j <;> simp [hom5, M3.one]

namespace SGal3
def Valid (X : SGal3 K) : Prop := X.q.sqn = 1
def toMat (X : SGal3 K) : Matrix (Fin 5) (Fin 5) K := matOfRows 5 X.transformRows

theorem toMat_eq (X : SGal3 K) : toMat X = hom5 X.rotation X.v X.p X.t := by
  ext i j
  fin_cases i <;> fin_cases j <;> simp [toMat, matOfRows, transformRows, hom5]

theorem make_ok' (dbg : Bool) (p v : V3 K) (t : K) {q : Quat K} (h : q.sqn = 1) :
    make dbg p q v t = .ok ⟨p, q, v, t⟩ := by
  simp [make, checkUnit_ok dbg _ (quat_norm_of_sqn h)]

/-- **C01/SGal3 compose**: the matrix of `X·Y` is the product of the matrices. -/
theorem toMat_compose (dbg : Bool) {X Y : SGal3 K} (hX : Valid X) (hY : Valid Y) :
    ∃ Z, compose dbg X Y = .ok Z ∧ Valid Z ∧ toMat Z = toMat X * toMat Y := by
  have hXs : SO3.Valid X.asSO3 := hX
  have hYs : SO3.Valid Y.asSO3 := hY
  have hq : (X.q.mul Y.q).sqn = 1 := by unfold Valid at *; rw [Quat.sqn_mul, hX, hY, one_mul]
  refine ⟨⟨((X.rotation.mulVec Y.p).add (X.v.smul Y.t)).add X.p, X.q.mul Y.q,
      (X.rotation.mulVec Y.v).add X.v, X.t + Y.t⟩, ?_, hq, ?_⟩
  · have h1 : SO3.compose dbg X.asSO3 Y.asSO3 = .ok ⟨X.q.mul Y.q⟩ := by
      rw [SO3.compose, SO3.composeRaw_eq hXs hYs]; exact SO3.make_ok dbg (X := ⟨X.q.mul Y.q⟩) hq
    simp only [compose, h1, except_ok_bind]
    exact make_ok' dbg _ _ _ hq
  · rw [toMat_eq, toMat_eq, toMat_eq, hom5_mul]
    simp only [rotation, SO3.rotation, asSO3, Quat.toRot_mul _ _ hX hY]

/-- **C01/SGal3 inverse**: two-sided inverse. -/
theorem toMat_inverse (dbg : Bool) {X : SGal3 K} (hX : Valid X) :
    ∃ Z, inverse dbg X = .ok Z ∧ Valid Z ∧ toMat Z * toMat X = 1 ∧ toMat X * toMat Z = 1 := by
  have hXs : SO3.Valid X.asSO3 := hX
  have hc : X.q.conj.sqn = 1 := by unfold Valid at hX; rw [Quat.sqn_conj, hX]
  have h1 : SO3.inverse dbg X.asSO3 = .ok ⟨X.q.conj⟩ := SO3.make_ok dbg (X := ⟨X.q.conj⟩) hc
  refine ⟨⟨((SO3.mk X.q.conj).act (X.p.sub (X.v.smul X.t))).neg, X.q.conj,
      ((SO3.mk X.q.conj).act X.v).neg, -X.t⟩, ?_, hc, ?_, ?_⟩
  · simp only [inverse, h1, except_ok_bind]; exact make_ok' dbg _ _ _ hc
  · rw [toMat_eq, toMat_eq, hom5_mul, ← hom5_one]
    simp only [rotation, SO3.rotation, asSO3, SO3.act, Quat.toRot_conj _ hX,
      Quat.toRot_transpose_mul _ hX]
    congr 1
    · simp only [M3.mulVec, V3.add, V3.neg, sum3]
      congr 1 <;> ring
    · simp only [M3.mulVec, V3.add, V3.neg, V3.sub, V3.smul, sum3]
      congr 1 <;> ring
    · ring
  · rw [toMat_eq, toMat_eq, hom5_mul, ← hom5_one]
    simp only [rotation, SO3.rotation, asSO3, SO3.act, Quat.toRot_conj _ hX,
      Quat.toRot_mul_transpose _ hX]
    have h := Quat.toRot_mul_transpose _ hX
    have e := fun f : M3 K → K => congrArg f h
    have e00 := e M3.a00; have e01 := e M3.a01; have e02 := e M3.a02
    have e10 := e M3.a10; have e11 := e M3.a11; have e12 := e M3.a12
    have e20 := e M3.a20; have e21 := e M3.a21; have e22 := e M3.a22
    simp only [M3.mul, M3.transpose, M3.one, sum3, scalar_nat, Nat.cast_one, Nat.cast_zero] at e00 e01 e02 e10 e11 e12 e20 e21 e22
    congr 1
    · simp only [M3.mulVec, M3.transpose, V3.add, V3.neg, sum3]
      congr 1
      · linear_combination (-X.v.x) * e00 - X.v.y * e01 - X.v.z * e02
      · linear_combination (-X.v.x) * e10 - X.v.y * e11 - X.v.z * e12
      · linear_combination (-X.v.x) * e20 - X.v.y * e21 - X.v.z * e22
    · simp only [M3.mulVec, M3.transpose, V3.add, V3.neg, V3.sub, V3.smul, sum3]
      congr 1
      · linear_combination (-(X.p.x - X.t * X.v.x)) * e00 - (X.p.y - X.t * X.v.y) * e01 - (X.p.z - X.t * X.v.z) * e02
      · linear_combination (-(X.p.x - X.t * X.v.x)) * e10 - (X.p.y - X.t * X.v.y) * e11 - (X.p.z - X.t * X.v.z) * e12
      · linear_combination (-(X.p.x - X.t * X.v.x)) * e20 - (X.p.y - X.t * X.v.y) * e21 - (X.p.z - X.t * X.v.z) * e22
    · ring

/-- **C01/SGal3 act**: `X.act(p)` is the spatial part of the matrix acting on the event `(p, 0, 1)`
    (a point at time 0), whose time becomes `X.t`. -/
theorem act_eq (X : SGal3 K) (p : V3 K) :
    ![(act X p).x, (act X p).y, (act X p).z, X.t, 1] = (toMat X).mulVec ![p.x, p.y, p.z, 0, 1] := by
  rw [toMat_eq]
  ext i
  fin_cases i <;>
    simp [hom5, Matrix.mulVec, dotProduct, Fin.sum_univ_five, act, M3.mulVec, V3.add, sum3] <;> ring

example : Valid (⟨⟨1000000, -2, 1/1000⟩, ⟨2/5, 2/5, 4/5, -1/5⟩, ⟨3, 4, 5⟩, 7⟩ : SGal3 ℚ) := by
  norm_num [Valid, Quat.sqn]
end SGal3

namespace SE23
def Valid (X : SE23 K) : Prop := X.q.sqn = 1
def toMat (X : SE23 K) : Matrix (Fin 5) (Fin 5) K := matOfRows 5 X.transformRows

theorem toMat_eq (X : SE23 K) : toMat X = hom5 X.rotation X.t X.v 0 := by
  ext i j
  fin_cases i <;> fin_cases j <;> simp [toMat, matOfRows, transformRows, hom5]

theorem make_ok' (dbg : Bool) (t v : V3 K) {q : Quat K} (h : q.sqn = 1) :
    make dbg t q v = .ok ⟨t, q, v⟩ := by
  simp [make, checkUnit_ok dbg _ (quat_norm_of_sqn h)]

/-- **C01/SE23 compose**: the matrix of `X·Y` is the product of the matrices. -/
theorem toMat_compose (dbg : Bool) {X Y : SE23 K} (hX : Valid X) (hY : Valid Y) :
    ∃ Z, compose dbg X Y = .ok Z ∧ Valid Z ∧ toMat Z = toMat X * toMat Y := by
  have hXs : SO3.Valid X.asSO3 := hX
  have hYs : SO3.Valid Y.asSO3 := hY
  have hq : (X.q.mul Y.q).sqn = 1 := by unfold Valid at *; rw [Quat.sqn_mul, hX, hY, one_mul]
  refine ⟨⟨(X.rotation.mulVec Y.t).add X.t, X.q.mul Y.q, (X.rotation.mulVec Y.v).add X.v⟩, ?_, hq, ?_⟩
  · have h1 : SO3.compose dbg X.asSO3 Y.asSO3 = .ok ⟨X.q.mul Y.q⟩ := by
      rw [SO3.compose, SO3.composeRaw_eq hXs hYs]; exact SO3.make_ok dbg (X := ⟨X.q.mul Y.q⟩) hq
    simp only [compose, h1, except_ok_bind]
    exact make_ok' dbg _ _ hq
  · rw [toMat_eq, toMat_eq, toMat_eq, hom5_mul]
    simp only [rotation, SO3.rotation, asSO3, Quat.toRot_mul _ _ hX hY]
    congr 1
    · simp only [V3.add, V3.smul, M3.mulVec, sum3]
      congr 1 <;> ring
    · ring

/-- **C01/SE23 inverse**: two-sided inverse. -/
theorem toMat_inverse (dbg : Bool) {X : SE23 K} (hX : Valid X) :
    ∃ Z, inverse dbg X = .ok Z ∧ Valid Z ∧ toMat Z * toMat X = 1 ∧ toMat X * toMat Z = 1 := by
  have hXs : SO3.Valid X.asSO3 := hX
  have hc : X.q.conj.sqn = 1 := by unfold Valid at hX; rw [Quat.sqn_conj, hX]
  have h1 : SO3.inverse dbg X.asSO3 = .ok ⟨X.q.conj⟩ := SO3.make_ok dbg (X := ⟨X.q.conj⟩) hc
  refine ⟨⟨((SO3.mk X.q.conj).act X.t).neg, X.q.conj, ((SO3.mk X.q.conj).act X.v).neg⟩, ?_, hc, ?_, ?_⟩
  · simp only [inverse, h1, except_ok_bind]; exact make_ok' dbg _ _ hc
  · rw [toMat_eq, toMat_eq, hom5_mul, ← hom5_one]
    simp only [rotation, SO3.rotation, asSO3, SO3.act, Quat.toRot_conj _ hX,
      Quat.toRot_transpose_mul _ hX]
    congr 1
    · simp only [M3.mulVec, V3.add, V3.neg, sum3]
      congr 1 <;> ring
    · simp only [M3.mulVec, V3.add, V3.neg, V3.smul, sum3]
      congr 1 <;> ring
    · ring
  · rw [toMat_eq, toMat_eq, hom5_mul, ← hom5_one]
    simp only [rotation, SO3.rotation, asSO3, SO3.act, Quat.toRot_conj _ hX,
      Quat.toRot_mul_transpose _ hX]
    have h := Quat.toRot_mul_transpose _ hX
    have e := fun f : M3 K → K => congrArg f h
    have e00 := e M3.a00; have e01 := e M3.a01; have e02 := e M3.a02
    have e10 := e M3.a10; have e11 := e M3.a11; have e12 := e M3.a12
    have e20 := e M3.a20; have e21 := e M3.a21; have e22 := e M3.a22
    simp only [M3.mul, M3.transpose, M3.one, sum3, scalar_nat, Nat.cast_one, Nat.cast_zero] at e00 e01 e02 e10 e11 e12 e20 e21 e22
    congr 1
    · simp only [M3.mulVec, M3.transpose, V3.add, V3.neg, sum3]
      congr 1
      · linear_combination (-X.t.x) * e00 - X.t.y * e01 - X.t.z * e02
      · linear_combination (-X.t.x) * e10 - X.t.y * e11 - X.t.z * e12
      · linear_combination (-X.t.x) * e20 - X.t.y * e21 - X.t.z * e22
    · simp only [M3.mulVec, M3.transpose, V3.add, V3.neg, V3.smul, sum3]
      congr 1
      · linear_combination (-X.v.x) * e00 - X.v.y * e01 - X.v.z * e02
      · linear_combination (-X.v.x) * e10 - X.v.y * e11 - X.v.z * e12
      · linear_combination (-X.v.x) * e20 - X.v.y * e21 - X.v.z * e22
    · ring

/-- **C01/SE23 act**: `X.act(p)` is the matrix acting on the point `(p, 1, 0)`. -/
theorem act_eq (X : SE23 K) (p : V3 K) :
    ![(act X p).x, (act X p).y, (act X p).z, 1, 0] = (toMat X).mulVec ![p.x, p.y, p.z, 1, 0] := by
  rw [toMat_eq]
  ext i
  fin_cases i <;>
    simp [hom5, Matrix.mulVec, dotProduct, Fin.sum_univ_five, act, M3.mulVec, V3.add, sum3] <;> ring

example : Valid (⟨⟨1000000, -2, 1/1000⟩, ⟨2/5, 2/5, 4/5, -1/5⟩, ⟨3, 4, 5⟩⟩ : SE23 ℚ) := by
  norm_num [Valid, Quat.sqn]
end SE23
end Manif
