/-
  C03 (continued) — SE3 over ℝ: `log(exp t) = t` on the closed-form branches with `θ ≤ π` (and `sin(θ/2) ≠ 0`):
  rotation part by `SO3.log_exp`, translation part by `Jl⁻¹(θ)·(Jl(θ)·ρ) = ρ`.
-/
import ManifProofs.Properties.C04h

set_option linter.all false
namespace Manif
open Matrix
namespace SE3

theorem log_exp (t : SE3T ℝ) (h : realEps < t.ang.x * t.ang.x + (t.ang.y * t.ang.y + t.ang.z * t.ang.z))
    (hpi : Real.sqrt (t.ang.x * t.ang.x + (t.ang.y * t.ang.y + t.ang.z * t.ang.z)) ≤ Real.pi)
    (hsw : realEps < Real.sin (1 / 2 * Real.sqrt (t.ang.x * t.ang.x + (t.ang.y * t.ang.y + t.ang.z * t.ang.z))) ^ 2) :
    log ⟨(SE3T.expRaw t).1, (SE3T.expRaw t).2⟩ = t := by
  have hso := SO3.log_exp t.asSO3 h hpi hsw
  have hs : Real.sin (Real.sqrt (t.ang.x * t.ang.x + (t.ang.y * t.ang.y + t.ang.z * t.ang.z)) / 2) ≠ 0 := by
    intro h0
    have e : Real.sqrt (t.ang.x * t.ang.x + (t.ang.y * t.ang.y + t.ang.z * t.ang.z)) / 2 =
        1 / 2 * Real.sqrt (t.ang.x * t.ang.x + (t.ang.y * t.ang.y + t.ang.z * t.ang.z)) := by ring
    rw [e] at h0
    rw [h0] at hsw
    have := realEps_pos
    norm_num at hsw
    linarith
  have hinv := SO3T.ljacinv_mul_ljac t.asSO3 h hs
  have hv : ((SO3T.ljacinv t.asSO3).mulVec ((SO3T.ljac t.asSO3).mulVec t.lin)).toVec = t.lin.toVec := by
    rw [M3.toVec_mulVec, M3.toVec_mulVec, Matrix.mulVec_mulVec, hinv, Matrix.one_mulVec]
  have hv' : (SO3T.ljacinv t.asSO3).mulVec ((SO3T.ljac t.asSO3).mulVec t.lin) = t.lin := by
    have e := fun i => congrFun hv i
    have e0 := e 0; have e1 := e 1; have e2 := e 2
    simp only [V3.toVec, Matrix.cons_val_zero, Matrix.cons_val_one, Matrix.cons_val_two, Matrix.head_cons, Matrix.tail_cons] at e0 e1 e2
    cases hx : (SO3T.ljacinv t.asSO3).mulVec ((SO3T.ljac t.asSO3).mulVec t.lin) with
    | mk a b c =>
      rw [hx] at e0 e1 e2
      cases hl : t.lin with
      | mk p q r =>
        rw [hl] at e0 e1 e2
        simp only at e0 e1 e2
        rw [e0, e1, e2]
  unfold log SE3T.expRaw
  simp only [asSO3]
  have hso' : SO3.log ⟨SO3T.expRaw t.asSO3⟩ = t.asSO3 := hso
  rw [hso', hv']
  cases t
  rfl
end SE3
end Manif
