/-
  C02 — exp is the matrix exponential of hat.
  Over ℝ, with the power series  Σ (hat t)ⁿ/n!  (= Mathlib's `NormedSpace.exp`, see
  `HasExpSum.exp_eq`):
    * generic branch (rotation magnitude above the switch-over): equality, every t;
    * rotation magnitude exactly zero: equality (nilpotent case);
    * `exp t` is always a valid element (unit rotation part), hence no exception.
  The Taylor branch `0 < θ⁴ < eps` differs from the series by O(θ²)·(1+‖lin‖) (branch
  agreement; measured by the oracle, bound theorem in progress).
-/
import ManifProofs.Properties.C01
import ManifProofs.Inst.Real
import ManifProofs.Lemmas.Series
import Mathlib.Topology.Instances.Matrix
import Mathlib.Analysis.SpecialFunctions.Trigonometric.Basic

namespace Manif
open Matrix

/-! ## SE2 -/
namespace SE2T

theorem hat_cube (t : SE2T ℝ) :
    (hat t).toMatrix ^ 3 = (-(t.ang ^ 2)) • (hat t).toMatrix := by
  ext i j
  fin_cases i <;> fin_cases j <;>
    simp [hat, M3.toMatrix, pow_succ, Matrix.mul_apply, Fin.sum_univ_three] <;> ring

theorem generic_of_not_small {θ : ℝ} (h : ¬ θ * θ * (θ * θ) < realEps) : θ ≠ 0 := by
  intro h0
  apply h
  rw [h0]
  simpa using realEps_pos

/-- **generic branch**: the matrix of `exp t` is the exponential series of `hat t`. -/
theorem exp_generic (t : SE2T ℝ) (h : ¬ t.ang * t.ang * (t.ang * t.ang) < realEps) :
    HasExpSum (hat t).toMatrix (SE2.toMat (expRaw t)) := by
  have hθ := generic_of_not_small h
  have key := hasExpSum_of_cube (hat t).toMatrix t.ang hθ (hat_cube t)
  convert key using 1
  ext i j
  fin_cases i <;> fin_cases j <;>
    simp [SE2.toMat, SE2.transform, expRaw, coefAB, h, hat, M3.toMatrix, pow_succ, Matrix.mul_apply,
      Fin.sum_univ_three] <;>
    field_simp <;> ring

/-- **rotation magnitude exactly zero** (Taylor branch; `hat t` is nilpotent). -/
theorem exp_zero_angle (x y : ℝ) :
    HasExpSum (hat ⟨x, y, 0⟩).toMatrix (SE2.toMat (expRaw ⟨x, y, 0⟩)) := by
  have hsq : (hat (⟨x, y, 0⟩ : SE2T ℝ)).toMatrix ^ 2 = 0 := by
    ext i j
    fin_cases i <;> fin_cases j <;>
      simp [hat, M3.toMatrix, pow_succ, Matrix.mul_apply, Fin.sum_univ_three]
  have key := hasExpSum_of_sq_zero _ hsq
  convert key using 1
  ext i j
  fin_cases i <;> fin_cases j <;>
    simp [SE2.toMat, SE2.transform, expRaw, coefAB, realEps_pos, hat, M3.toMatrix]

/-- **`exp t` is valid for every t** and construction never raises. -/
theorem exp_valid (dbg : Bool) (t : SE2T ℝ) :
    SE2T.exp dbg t = .ok (expRaw t) ∧ SE2.Valid (expRaw t) := by
  have hv : SE2.Valid (expRaw t) := by
    have := Real.sin_sq_add_cos_sq t.ang
    have hre : (expRaw t).re = Real.cos t.ang := by
      unfold expRaw; rcases coefAB t.ang (Scalar.cos t.ang) (Scalar.sin t.ang) with ⟨A, B⟩; rfl
    have him : (expRaw t).im = Real.sin t.ang := by
      unfold expRaw; rcases coefAB t.ang (Scalar.cos t.ang) (Scalar.sin t.ang) with ⟨A, B⟩; rfl
    unfold SE2.Valid
    rw [hre, him]
    nlinarith
  exact ⟨by simpa [SE2T.exp] using SE2.make_ok dbg hv, hv⟩

example : ¬ (1 : ℝ) * 1 * (1 * 1) < realEps := by unfold realEps; norm_num
end SE2T

/-! ## SO2 -/
namespace SO2T

theorem exp_valid (dbg : Bool) (t : SO2T ℝ) :
    SO2T.exp dbg t = .ok (expRaw t) ∧ SO2.Valid (expRaw t) := by
  have hv : SO2.Valid (expRaw t) := by
    have := Real.sin_sq_add_cos_sq t.ang
    simp only [SO2.Valid, expRaw, scalar_cos, scalar_sin, transc_cos_real, transc_sin_real]
    nlinarith
  exact ⟨by simpa [SO2T.exp, expRaw] using SO2.make_ok dbg hv, hv⟩

/-- 3×3 embedding of `hat` used by `transform()`. -/
def hat3 (t : SO2T ℝ) : Matrix (Fin 3) (Fin 3) ℝ := !![0, -t.ang, 0; t.ang, 0, 0; 0, 0, 0]

theorem hat3_cube (t : SO2T ℝ) : hat3 t ^ 3 = (-(t.ang ^ 2)) • hat3 t := by
  ext i j
  fin_cases i <;> fin_cases j <;>
    simp [hat3, pow_succ, Matrix.mul_apply, Fin.sum_univ_three] <;> ring

/-- **SO2**: for every `θ ≠ 0` the matrix of `exp` is the exponential series of `hat`. -/
theorem exp_series (t : SO2T ℝ) (hθ : t.ang ≠ 0) :
    HasExpSum (hat3 t) (SO2.toMat (expRaw t)) := by
  have hv := (exp_valid true t).2
  have key := hasExpSum_of_cube (hat3 t) t.ang hθ (hat3_cube t)
  convert key using 1
  rw [SO2.toMat_eq hv]
  ext i j
  fin_cases i <;> fin_cases j <;>
    simp [expRaw, hat3, pow_succ, Matrix.mul_apply, Fin.sum_univ_three] <;>
    field_simp <;> ring

theorem exp_series_zero :
    HasExpSum (hat3 ⟨0⟩) (SO2.toMat (expRaw (⟨0⟩ : SO2T ℝ))) := by
  have hv := (exp_valid true (⟨0⟩ : SO2T ℝ)).2
  have hsq : hat3 ⟨0⟩ ^ 2 = 0 := by
    ext i j
    fin_cases i <;> fin_cases j <;> simp [hat3, pow_succ, Matrix.mul_apply, Fin.sum_univ_three]
  have key := hasExpSum_of_sq_zero _ hsq
  convert key using 1
  rw [SO2.toMat_eq hv]
  ext i j
  fin_cases i <;> fin_cases j <;> simp [expRaw, hat3]
end SO2T

end Manif
