/-
  C02 — exp is the matrix exponential of hat.
  Over ℝ, with the power series  Σ (hat t)ⁿ/n!  (= Mathlib's `NormedSpace.exp`, see
  `HasExpSum.exp_eq`):
    * generic branch (rotation magnitude above the switch-over): equality, every t;
    * rotation magnitude exactly zero: equality (nilpotent case);
    * `exp t` is always a valid element (unit rotation part), hence no exception.
  The Taylor branch `0 < θ⁴ < eps` differs from the series by O(θ²)·(1+‖lin‖) (branch
  agreement; measured by the oracle, bound theorem in progress).
-/
import ManifProofs.Properties.C01
import ManifProofs.Inst.Real
import ManifProofs.Lemmas.Series
import Mathlib.Topology.Instances.Matrix
import Mathlib.Analysis.SpecialFunctions.Trigonometric.Basic

namespace Manif
open Matrix

/-! ## SE2 -/
namespace SE2T

theorem hat_cube (t : SE2T ℝ) :
    (hat t).toMatrix ^ 3 = (-(t.ang ^ 2)) • (hat t).toMatrix := by
  ext i j
  fin_cases i <;> fin_cases j <;>
    simp [hat, M3.toMatrix, pow_succ, Matrix.mul_apply, Fin.sum_univ_three] <;> ring

theorem generic_of_not_small {θ : ℝ} (h : ¬ θ * θ * (θ * θ) < realEps) : θ ≠ 0 := by
  intro h0
  apply h
  rw [h0]
  simpa using realEps_pos

/-- **generic branch**: the matrix of `exp t` is the exponential series of `hat t`. -/
theorem exp_generic (t : SE2T ℝ) (h : ¬ t.ang * t.ang * (t.ang * t.ang) < realEps) :
    HasExpSum (hat t).toMatrix (SE2.toMat (expRaw t)) := by
  have hθ := generic_of_not_small h
  have key := hasExpSum_of_cube (hat t).toMatrix t.ang hθ (hat_cube t)
  convert key using 1
  ext i j
  fin_cases i <;> fin_cases j <;>
    simp [SE2.toMat, SE2.transform, expRaw, coefAB, h, hat, M3.toMatrix, pow_succ, Matrix.mul_apply,
      Fin.sum_univ_three] <;>
    field_simp <;> ring

/-- **rotation magnitude exactly zero** (Taylor branch; `hat t` is nilpotent). -/
theorem exp_zero_angle (x y : ℝ) :
    HasExpSum (hat ⟨x, y, 0⟩).toMatrix (SE2.toMat (expRaw ⟨x, y, 0⟩)) := by
  have hsq : (hat (⟨x, y, 0⟩ : SE2T ℝ)).toMatrix ^ 2 = 0 := by
    ext i j
    fin_cases i <;> fin_cases j <;>
      simp [hat, M3.toMatrix, pow_succ, Matrix.mul_apply, Fin.sum_univ_three]
  have key := hasExpSum_of_sq_zero _ hsq
  convert key using 1
  ext i j
  fin_cases i <;> fin_cases j <;>
    simp [SE2.toMat, SE2.transform, expRaw, coefAB, realEps_pos, hat, M3.toMatrix]

/-- **`exp t` is valid for every t** and construction never raises. -/
theorem exp_valid (dbg : Bool) (t : SE2T ℝ) :
    SE2T.exp dbg t = .ok (expRaw t) ∧ SE2.Valid (expRaw t) := by
  have hv : SE2.Valid (expRaw t) := by
    have := Real.sin_sq_add_cos_sq t.ang
    have hre : (expRaw t).re = Real.cos t.ang := by
      unfold expRaw; rcases coefAB t.ang (Scalar.cos t.ang) (Scalar.sin t.ang) with ⟨A, B⟩; rfl
    have him : (expRaw t).im = Real.sin t.ang := by
      unfold expRaw; rcases coefAB t.ang (Scalar.cos t.ang) (Scalar.sin t.ang) with ⟨A, B⟩; rfl
    unfold SE2.Valid
    rw [hre, him]
    nlinarith
  exact ⟨by simpa [SE2T.exp] using SE2.make_ok dbg hv, hv⟩

example : ¬ (1 : ℝ) * 1 * (1 * 1) < realEps := by unfold realEps; norm_num
end SE2T

/-! ## SO2 -/
namespace SO2T

theorem exp_valid (dbg : Bool) (t : SO2T ℝ) :
    SO2T.exp dbg t = .ok (expRaw t) ∧ SO2.Valid (expRaw t) := by
  have hv : SO2.Valid (expRaw t) := by
    have := Real.sin_sq_add_cos_sq t.ang
    simp only [SO2.Valid, expRaw, scalar_cos, scalar_sin, transc_cos_real, transc_sin_real]
    nlinarith
  exact ⟨by simpa [SO2T.exp, expRaw] using SO2.make_ok dbg hv, hv⟩

/-- 3×3 embedding of `hat` used by `transform()`. -/
def hat3 (t : SO2T ℝ) : Matrix (Fin 3) (Fin 3) ℝ := !![0, -t.ang, 0; t.ang, 0, 0; 0, 0, 0]

theorem hat3_cube (t : SO2T ℝ) : hat3 t ^ 3 = (-(t.ang ^ 2)) • hat3 t := by
  ext i j
  fin_cases i <;> fin_cases j <;>
    simp [hat3, pow_succ, Matrix.mul_apply, Fin.sum_univ_three] <;> ring

/-- **SO2**: for every `θ ≠ 0` the matrix of `exp` is the exponential series of `hat`. -/
theorem exp_series (t : SO2T ℝ) (hθ : t.ang ≠ 0) :
    HasExpSum (hat3 t) (SO2.toMat (expRaw t)) := by
  have hv := (exp_valid true t).2
  have key := hasExpSum_of_cube (hat3 t) t.ang hθ (hat3_cube t)
  convert key using 1
  rw [SO2.toMat_eq hv]
  ext i j
  fin_cases i <;> fin_cases j <;>
    simp [expRaw, hat3, pow_succ, Matrix.mul_apply, Fin.sum_univ_three] <;>
    field_simp <;> ring

theorem exp_series_zero :
    HasExpSum (hat3 ⟨0⟩) (SO2.toMat (expRaw (⟨0⟩ : SO2T ℝ))) := by
  have hv := (exp_valid true (⟨0⟩ : SO2T ℝ)).2
  have hsq : hat3 ⟨0⟩ ^ 2 = 0 := by
    ext i j
    fin_cases i <;> fin_cases j <;> simp [hat3, pow_succ, Matrix.mul_apply, Fin.sum_univ_three]
  have key := hasExpSum_of_sq_zero _ hsq
  convert key using 1
  rw [SO2.toMat_eq hv]
  ext i j
  fin_cases i <;> fin_cases j <;> simp [expRaw, hat3]
end SO2T


/-! ## SO3 -/
namespace SO3T

/-- the quaternion returned by the generic branch, written out -/
theorem expRaw_generic (t : SO3T ℝ) (h : realEps < t.v.x * t.v.x + (t.v.y * t.v.y + t.v.z * t.v.z)) :
    expRaw t = ⟨Real.sin (1 / 2 * Real.sqrt (t.v.x * t.v.x + (t.v.y * t.v.y + t.v.z * t.v.z))) * (t.v.x / Real.sqrt (t.v.x * t.v.x + (t.v.y * t.v.y + t.v.z * t.v.z))),
                Real.sin (1 / 2 * Real.sqrt (t.v.x * t.v.x + (t.v.y * t.v.y + t.v.z * t.v.z))) * (t.v.y / Real.sqrt (t.v.x * t.v.x + (t.v.y * t.v.y + t.v.z * t.v.z))),
                Real.sin (1 / 2 * Real.sqrt (t.v.x * t.v.x + (t.v.y * t.v.y + t.v.z * t.v.z))) * (t.v.z / Real.sqrt (t.v.x * t.v.x + (t.v.y * t.v.y + t.v.z * t.v.z))),
                Real.cos (1 / 2 * Real.sqrt (t.v.x * t.v.x + (t.v.y * t.v.y + t.v.z * t.v.z)))⟩ := by
  have hp : 0 < t.v.x * t.v.x + (t.v.y * t.v.y + t.v.z * t.v.z) := lt_trans realEps_pos h
  simp [expRaw, V3.sqNorm, sum3, h, Quat.ofAngleAxis, V3.normalized, hp, V3.divs]

theorem hat_cube (t : SO3T ℝ) :
    (hat t).toMatrix ^ 3 = (-(t.v.x * t.v.x + (t.v.y * t.v.y + t.v.z * t.v.z))) • (hat t).toMatrix := by
  ext i j
  fin_cases i <;> fin_cases j <;>
    simp [hat, M3.skew, M3.toMatrix, pow_succ, Matrix.mul_apply, Fin.sum_univ_three] <;> ring

/-- Eigen's quaternion → rotation-matrix conversion applied to `(s·a/θ, c)` is Rodrigues' matrix
    with `sin θ = 2sc`, `1 − cos θ = 2s²` (pure algebra, any `s c`). -/
theorem toRot_axis_angle (x y z θ s c : ℝ) (hθ : θ ≠ 0) :
    (Quat.toRot (⟨s * (x / θ), s * (y / θ), s * (z / θ), c⟩ : Quat ℝ)).toMatrix =
      1 + (2 * s * c / θ) • (hat ⟨⟨x, y, z⟩⟩).toMatrix +
        ((1 - (1 - 2 * s ^ 2)) / θ ^ 2) • (hat ⟨⟨x, y, z⟩⟩).toMatrix ^ 2 := by
  ext i j
  fin_cases i <;> fin_cases j <;>
    simp [Quat.toRot, hat, M3.skew, M3.toMatrix, pow_succ] <;>
    field_simp <;> ring

/-- **SO3, generic branch** (`θ² > eps`, every such tangent, `θ` beyond π included): the rotation
    matrix of `exp t` is the exponential series of `hat t` — Rodrigues' formula reached through the
    half-angle quaternion and Eigen's `toRotationMatrix`. -/
theorem exp_series (t : SO3T ℝ) (h : realEps < t.v.x * t.v.x + (t.v.y * t.v.y + t.v.z * t.v.z)) :
    HasExpSum (hat t).toMatrix (Quat.toRot (expRaw t)).toMatrix := by
  have hp : 0 < t.v.x * t.v.x + (t.v.y * t.v.y + t.v.z * t.v.z) := lt_trans realEps_pos h
  have hθpos : 0 < Real.sqrt (t.v.x * t.v.x + (t.v.y * t.v.y + t.v.z * t.v.z)) := Real.sqrt_pos.mpr hp
  have hθ2 : Real.sqrt (t.v.x * t.v.x + (t.v.y * t.v.y + t.v.z * t.v.z)) ^ 2 =
      t.v.x * t.v.x + (t.v.y * t.v.y + t.v.z * t.v.z) := Real.sq_sqrt hp.le
  have hcube : (hat t).toMatrix ^ 3 =
      (-(Real.sqrt (t.v.x * t.v.x + (t.v.y * t.v.y + t.v.z * t.v.z)) ^ 2)) • (hat t).toMatrix := by
    rw [hθ2]; exact hat_cube t
  have key := hasExpSum_of_cube (hat t).toMatrix _ hθpos.ne' hcube
  convert key using 1
  rw [expRaw_generic t h, toRot_axis_angle _ _ _ _ _ _ hθpos.ne']
  have e : Real.sqrt (t.v.x * t.v.x + (t.v.y * t.v.y + t.v.z * t.v.z)) =
      2 * (1 / 2 * Real.sqrt (t.v.x * t.v.x + (t.v.y * t.v.y + t.v.z * t.v.z))) := by ring
  have hs : Real.sin (Real.sqrt (t.v.x * t.v.x + (t.v.y * t.v.y + t.v.z * t.v.z))) =
      2 * Real.sin (1 / 2 * Real.sqrt (t.v.x * t.v.x + (t.v.y * t.v.y + t.v.z * t.v.z))) *
        Real.cos (1 / 2 * Real.sqrt (t.v.x * t.v.x + (t.v.y * t.v.y + t.v.z * t.v.z))) := by
    conv_lhs => rw [e, Real.sin_two_mul]
  have hc : Real.cos (Real.sqrt (t.v.x * t.v.x + (t.v.y * t.v.y + t.v.z * t.v.z))) =
      1 - 2 * Real.sin (1 / 2 * Real.sqrt (t.v.x * t.v.x + (t.v.y * t.v.y + t.v.z * t.v.z))) ^ 2 := by
    conv_lhs => rw [e, Real.cos_two_mul]
    nlinarith [Real.sin_sq_add_cos_sq (1 / 2 * Real.sqrt (t.v.x * t.v.x + (t.v.y * t.v.y + t.v.z * t.v.z)))]
  rw [hs, hc]

/-- the matrix exponential itself (Mathlib's `NormedSpace.exp`) -/
theorem exp_eq_matrix_exp (t : SO3T ℝ) (h : realEps < t.v.x * t.v.x + (t.v.y * t.v.y + t.v.z * t.v.z)) :
    NormedSpace.exp (hat t).toMatrix = (Quat.toRot (expRaw t)).toMatrix :=
  (exp_series t h).exp_eq

/-- rotation magnitude exactly zero: `exp 0 = identity`, the series of the zero matrix. -/
theorem exp_series_zero :
    HasExpSum (hat (⟨⟨0, 0, 0⟩⟩ : SO3T ℝ)).toMatrix (Quat.toRot (expRaw (⟨⟨0, 0, 0⟩⟩ : SO3T ℝ))).toMatrix := by
  have hsq : (hat (⟨⟨0, 0, 0⟩⟩ : SO3T ℝ)).toMatrix ^ 2 = 0 := by
    ext i j
    fin_cases i <;> fin_cases j <;> simp [hat, M3.skew, M3.toMatrix, pow_succ, Matrix.mul_apply, Fin.sum_univ_three]
  have key := hasExpSum_of_sq_zero _ hsq
  convert key using 1
  ext i j
  fin_cases i <;> fin_cases j <;>
    simp [expRaw, V3.sqNorm, sum3, realEps_pos, Quat.toRot, hat, M3.skew, M3.toMatrix, not_lt.mpr realEps_pos.le]

theorem rot_expRaw (t : SO3T ℝ) (h : realEps < t.v.x * t.v.x + (t.v.y * t.v.y + t.v.z * t.v.z)) :
    (Quat.toRot (expRaw t)).toMatrix =
      1 + (Real.sin (Real.sqrt (t.v.x * t.v.x + (t.v.y * t.v.y + t.v.z * t.v.z))) /
            Real.sqrt (t.v.x * t.v.x + (t.v.y * t.v.y + t.v.z * t.v.z))) • (hat t).toMatrix +
        ((1 - Real.cos (Real.sqrt (t.v.x * t.v.x + (t.v.y * t.v.y + t.v.z * t.v.z)))) /
            Real.sqrt (t.v.x * t.v.x + (t.v.y * t.v.y + t.v.z * t.v.z)) ^ 2) • (hat t).toMatrix ^ 2 := by
  have hp : 0 < t.v.x * t.v.x + (t.v.y * t.v.y + t.v.z * t.v.z) := lt_trans realEps_pos h
  have hθpos : 0 < Real.sqrt (t.v.x * t.v.x + (t.v.y * t.v.y + t.v.z * t.v.z)) := Real.sqrt_pos.mpr hp
  rw [expRaw_generic t h, toRot_axis_angle _ _ _ _ _ _ hθpos.ne']
  have e : Real.sqrt (t.v.x * t.v.x + (t.v.y * t.v.y + t.v.z * t.v.z)) =
      2 * (1 / 2 * Real.sqrt (t.v.x * t.v.x + (t.v.y * t.v.y + t.v.z * t.v.z))) := by ring
  have hs : Real.sin (Real.sqrt (t.v.x * t.v.x + (t.v.y * t.v.y + t.v.z * t.v.z))) =
      2 * Real.sin (1 / 2 * Real.sqrt (t.v.x * t.v.x + (t.v.y * t.v.y + t.v.z * t.v.z))) *
        Real.cos (1 / 2 * Real.sqrt (t.v.x * t.v.x + (t.v.y * t.v.y + t.v.z * t.v.z))) := by
    conv_lhs => rw [e, Real.sin_two_mul]
  have hc : Real.cos (Real.sqrt (t.v.x * t.v.x + (t.v.y * t.v.y + t.v.z * t.v.z))) =
      1 - 2 * Real.sin (1 / 2 * Real.sqrt (t.v.x * t.v.x + (t.v.y * t.v.y + t.v.z * t.v.z))) ^ 2 := by
    conv_lhs => rw [e, Real.cos_two_mul]
    nlinarith [Real.sin_sq_add_cos_sq (1 / 2 * Real.sqrt (t.v.x * t.v.x + (t.v.y * t.v.y + t.v.z * t.v.z)))]
  rw [hs, hc]

/-- left Jacobian of SO3 in the generic branch, as a polynomial in `hat` -/
theorem ljac_generic (t : SO3T ℝ) (h : realEps < t.v.x * t.v.x + (t.v.y * t.v.y + t.v.z * t.v.z)) :
    (ljac t).toMatrix =
      1 + ((1 - Real.cos (Real.sqrt (t.v.x * t.v.x + (t.v.y * t.v.y + t.v.z * t.v.z)))) /
            Real.sqrt (t.v.x * t.v.x + (t.v.y * t.v.y + t.v.z * t.v.z)) ^ 2) • (hat t).toMatrix +
        ((Real.sqrt (t.v.x * t.v.x + (t.v.y * t.v.y + t.v.z * t.v.z)) -
            Real.sin (Real.sqrt (t.v.x * t.v.x + (t.v.y * t.v.y + t.v.z * t.v.z)))) /
            Real.sqrt (t.v.x * t.v.x + (t.v.y * t.v.y + t.v.z * t.v.z)) ^ 3) • (hat t).toMatrix ^ 2 := by
  have hp : 0 < t.v.x * t.v.x + (t.v.y * t.v.y + t.v.z * t.v.z) := lt_trans realEps_pos h
  have hθpos : 0 < Real.sqrt (t.v.x * t.v.x + (t.v.y * t.v.y + t.v.z * t.v.z)) := Real.sqrt_pos.mpr hp
  have hθ2 : Real.sqrt (t.v.x * t.v.x + (t.v.y * t.v.y + t.v.z * t.v.z)) ^ 2 =
      t.v.x * t.v.x + (t.v.y * t.v.y + t.v.z * t.v.z) := Real.sq_sqrt hp.le
  have e : Real.sqrt (t.v.x * t.v.x + (t.v.y * t.v.y + t.v.z * t.v.z)) =
      2 * (Real.sqrt (t.v.x * t.v.x + (t.v.y * t.v.y + t.v.z * t.v.z)) / 2) := by ring
  have hc : Real.cos (Real.sqrt (t.v.x * t.v.x + (t.v.y * t.v.y + t.v.z * t.v.z))) =
      1 - 2 * Real.sin (Real.sqrt (t.v.x * t.v.x + (t.v.y * t.v.y + t.v.z * t.v.z)) / 2) ^ 2 := by
    conv_lhs => rw [e, Real.cos_two_mul]
    nlinarith [Real.sin_sq_add_cos_sq (Real.sqrt (t.v.x * t.v.x + (t.v.y * t.v.y + t.v.z * t.v.z)) / 2)]
  have hnle : ¬ t.v.x * t.v.x + (t.v.y * t.v.y + t.v.z * t.v.z) ≤ realEps := not_le.mpr h
  unfold ljac
  simp only [V3.sqNorm, sum3, scalar_le, scalar_eps, transc_eps_real, hnle, decide_false, Bool.false_eq_true, if_false,
    M3.toMatrix_add, M3.toMatrix_one, M3.toMatrix_smul, M3.toMatrix_mul, scalar_sqrt, transc_sqrt_real, scalar_sin,
    transc_sin_real, scalar_nat, Nat.cast_ofNat, smul_mul_assoc]
  rw [hc]
  generalize Real.sqrt (t.v.x * t.v.x + (t.v.y * t.v.y + t.v.z * t.v.z)) = θ at hθpos hθ2 ⊢
  rw [← hθ2, ← pow_two]
  congr 2
  · congr 1
    field_simp
    ring

example : realEps < (1 : ℝ) * 1 + (0 * 0 + 0 * 0) := by unfold realEps; norm_num
end SO3T

/-! ## SE3 -/
/-- `[R p; 0 1]` from a Mathlib matrix and vector -/
def hom4M (R : Matrix (Fin 3) (Fin 3) ℝ) (p : Fin 3 → ℝ) : Matrix (Fin 4) (Fin 4) ℝ :=
  !![R 0 0, R 0 1, R 0 2, p 0; R 1 0, R 1 1, R 1 2, p 1; R 2 0, R 2 1, R 2 2, p 2; 0, 0, 0, 1]

theorem hom4_eq_hom4M (R : M3 ℝ) (t : V3 ℝ) : hom4 R t = hom4M R.toMatrix t.toVec := by
  ext i j
  fin_cases i <;> fin_cases j <;> simp [hom4, hom4M, M3.toMatrix, V3.toVec]

namespace SE3T

/-- `hat` as a Mathlib matrix -/
def hat4 (t : SE3T ℝ) : Matrix (Fin 4) (Fin 4) ℝ :=
  !![0, -t.ang.z, t.ang.y, t.lin.x; t.ang.z, 0, -t.ang.x, t.lin.y; -t.ang.y, t.ang.x, 0, t.lin.z; 0, 0, 0, 0]

theorem hat4_quartic (t : SE3T ℝ) :
    hat4 t ^ 4 = (-(t.ang.x * t.ang.x + (t.ang.y * t.ang.y + t.ang.z * t.ang.z))) • hat4 t ^ 2 := by
  ext i j
  fin_cases i <;> fin_cases j <;>
    simp [hat4, pow_succ, Matrix.mul_apply, Fin.sum_univ_four] <;> ring

/-- the cubic polynomial in `hat4` is the homogeneous matrix of the cubic polynomials in the
    rotation block (pure algebra, any coefficients) -/
theorem poly_blocks (t : SE3T ℝ) (a b : ℝ) :
    1 + hat4 t + a • hat4 t ^ 2 + b • hat4 t ^ 3 =
      hom4M (1 + (SO3T.hat t.asSO3).toMatrix + a • (SO3T.hat t.asSO3).toMatrix ^ 2 + b • (SO3T.hat t.asSO3).toMatrix ^ 3)
        ((1 + a • (SO3T.hat t.asSO3).toMatrix + b • (SO3T.hat t.asSO3).toMatrix ^ 2).mulVec t.lin.toVec) := by
  ext i j
  fin_cases i <;> fin_cases j <;>
    simp [hat4, hom4M, asSO3, SO3T.hat, M3.skew, M3.toMatrix, V3.toVec, pow_succ, Matrix.mul_apply,
      Matrix.mulVec, dotProduct, Fin.sum_univ_four, Fin.sum_univ_three, Matrix.one_apply] <;> ring


/-- **SE3, generic branch**: the homogeneous matrix of `exp t` is the exponential series of `hat t`. -/
theorem exp_series (t : SE3T ℝ) (h : realEps < t.ang.x * t.ang.x + (t.ang.y * t.ang.y + t.ang.z * t.ang.z)) :
    HasExpSum (hat4 t) (hom4 (Quat.toRot (expRaw t).2) (expRaw t).1) := by
  have hp : 0 < t.ang.x * t.ang.x + (t.ang.y * t.ang.y + t.ang.z * t.ang.z) := lt_trans realEps_pos h
  have hθpos : 0 < Real.sqrt (t.ang.x * t.ang.x + (t.ang.y * t.ang.y + t.ang.z * t.ang.z)) := Real.sqrt_pos.mpr hp
  have hθ2 : Real.sqrt (t.ang.x * t.ang.x + (t.ang.y * t.ang.y + t.ang.z * t.ang.z)) ^ 2 =
      t.ang.x * t.ang.x + (t.ang.y * t.ang.y + t.ang.z * t.ang.z) := Real.sq_sqrt hp.le
  have hq : hat4 t ^ 4 =
      (-(Real.sqrt (t.ang.x * t.ang.x + (t.ang.y * t.ang.y + t.ang.z * t.ang.z)) ^ 2)) • hat4 t ^ 2 := by
    rw [hθ2]; exact hat4_quartic t
  have key := hasExpSum_of_quartic (hat4 t) _ hθpos.ne' hq
  convert key using 1
  have hcube := SO3T.hat_cube t.asSO3
  have hrot := SO3T.rot_expRaw t.asSO3 h
  have hjac := SO3T.ljac_generic t.asSO3 h
  simp only [asSO3] at hcube hrot hjac
  rw [hom4_eq_hom4M, expRaw, M3.toVec_mulVec]
  simp only [asSO3]
  rw [hrot, hjac, poly_blocks]
  simp only [asSO3]
  congr 1
  -- rotation block: 1 + W + aW² + bW³ with W³ = -θ²W
  generalize Real.sqrt (t.ang.x * t.ang.x + (t.ang.y * t.ang.y + t.ang.z * t.ang.z)) = θ at hθpos hθ2 ⊢
  rw [hcube, ← hθ2, smul_smul]
  have : (θ - Real.sin θ) / θ ^ 3 * -θ ^ 2 = Real.sin θ / θ - 1 := by field_simp; ring
  rw [this, sub_smul, one_smul]
  abel

/-- the matrix exponential itself (Mathlib's `NormedSpace.exp`) -/
theorem exp_eq_matrix_exp (t : SE3T ℝ) (h : realEps < t.ang.x * t.ang.x + (t.ang.y * t.ang.y + t.ang.z * t.ang.z)) :
    NormedSpace.exp (hat4 t) = hom4 (Quat.toRot (expRaw t).2) (expRaw t).1 :=
  (exp_series t h).exp_eq

/-- `hat4` is the model's `hat()` (row-major 4×4) -/
theorem hat4_eq_hatRows (t : SE3T ℝ) : hat4 t = matOfRows 4 t.hatRows := by
  ext i j
  fin_cases i <;> fin_cases j <;> simp [hat4, hatRows, matOfRows]

example : realEps < (0 : ℝ) * 0 + (1 * 1 + 0 * 0) := by unfold realEps; norm_num
end SE3T

end Manif
