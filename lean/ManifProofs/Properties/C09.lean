/-
  C09 — optional outputs are transparent; operations are pure and deterministic (model part).
  For EVERY group (any record of primitives) and every input:
    * requesting any subset of the optional Jacobians never changes the returned value of
      rplus / lplus / rminus / lminus / between / compose (whenever the call succeeds at all);
    * a Jacobian is the same whichever other Jacobian is requested with it — including `lminus`,
      whose source computes `J_t_mb` as `-(*J_t_ma)` when both are requested and by a separate
      product otherwise;
    * the model's operations are functions: no state, no history (determinism is definitional;
      the implementation's is observed by re-issuing every call, purity.py).
-/
import ManifModel
import Mathlib.Tactic.Ring

namespace Manif
variable {K G T J : Type} (o : GroupOps K G T J)

/-- reading the value off a successful call -/
def okVal {A : Type} (r : Except Err (Out2 A J)) : Option A :=
  match r with
  | .ok x => some x.val
  | .error _ => none

theorem rminus_value_indep (dbg : Bool) (X Y : G) (a b : Bool) :
    okVal (o.rminus dbg X Y a b) = okVal (o.rminus dbg X Y false false) := by
  unfold GroupOps.rminus okVal
  cases h1 : o.inverse dbg Y with
  | error e => simp [bind, Except.bind]
  | ok yi =>
    cases h2 : o.compose dbg yi X with
    | error e => simp [bind, Except.bind, h2]
    | ok c => simp [bind, Except.bind, h2, pure, Except.pure]

theorem lminus_value_indep (dbg : Bool) (X Y : G) (a b : Bool) :
    okVal (o.lminus dbg X Y a b) = okVal (o.lminus dbg X Y false false) := by
  unfold GroupOps.lminus okVal
  cases h1 : o.inverse dbg Y with
  | error e => simp [bind, Except.bind]
  | ok yi =>
    cases h2 : o.compose dbg X yi with
    | error e => simp [bind, Except.bind, h2]
    | ok c => cases a <;> cases b <;> simp [bind, Except.bind, h2, pure, Except.pure]

/-- `lminus`: the second Jacobian is the same whether or not the first is requested
    (two different code paths in the source). -/
theorem lminus_jb_indep (dbg : Bool) (X Y : G) :
    (o.lminus dbg X Y true true).map (·.j2) = (o.lminus dbg X Y false true).map (·.j2) := by
  unfold GroupOps.lminus
  cases h1 : o.inverse dbg Y with
  | error e => simp [bind, Except.bind, Except.map]
  | ok yi =>
    cases h2 : o.compose dbg X yi with
    | error e => simp [bind, Except.bind, h2, Except.map]
    | ok c => simp [bind, Except.bind, h2, pure, Except.pure, Except.map]

theorem lminus_ja_indep (dbg : Bool) (X Y : G) :
    (o.lminus dbg X Y true true).map (·.j1) = (o.lminus dbg X Y true false).map (·.j1) := by
  unfold GroupOps.lminus
  cases h1 : o.inverse dbg Y with
  | error e => simp [bind, Except.bind, Except.map]
  | ok yi =>
    cases h2 : o.compose dbg X yi with
    | error e => simp [bind, Except.bind, h2, Except.map]
    | ok c => simp [bind, Except.bind, h2, pure, Except.pure, Except.map]

theorem rminus_j_indep (dbg : Bool) (X Y : G) :
    (o.rminus dbg X Y true true).map (·.j1) = (o.rminus dbg X Y true false).map (·.j1) ∧
    (o.rminus dbg X Y true true).map (·.j2) = (o.rminus dbg X Y false true).map (·.j2) := by
  unfold GroupOps.rminus
  cases h1 : o.inverse dbg Y with
  | error e => simp [bind, Except.bind, Except.map]
  | ok yi =>
    cases h2 : o.compose dbg yi X with
    | error e => simp [bind, Except.bind, h2, Except.map]
    | ok c => simp [bind, Except.bind, h2, pure, Except.pure, Except.map]

/-- `rplus`: when the call with Jacobians succeeds, the plain call returns the same value. -/
theorem rplus_value_indep (dbg : Bool) (X : G) (t : T) (a b : Bool) (r : Out2 G J)
    (h : o.rplus dbg X t a b = .ok r) :
    okVal (o.rplus dbg X t false false) = some r.val := by
  unfold GroupOps.rplus at h ⊢
  cases he : o.exp dbg t with
  | error e => simp [he, bind, Except.bind] at h
  | ok e =>
    simp only [he, bind, Except.bind] at h ⊢
    cases a with
    | false =>
      cases hc : o.compose dbg X e with
      | error e2 => simp [hc, pure, Except.pure] at h
      | ok z =>
        simp only [hc, pure, Except.pure, Bool.false_eq_true, if_false] at h ⊢
        cases h; rfl
    | true =>
      cases hj : o.composeJa dbg X e with
      | error e2 => simp [hj, Except.map] at h
      | ok ja =>
        cases hc : o.compose dbg X e with
        | error e2 => simp [hj, hc, Except.map, pure, Except.pure] at h
        | ok z =>
          simp only [hj, hc, Except.map, pure, Except.pure, if_true, Bool.false_eq_true, if_false] at h ⊢
          cases h; rfl

/-- `between`: the same. -/
theorem between_value_indep (dbg : Bool) (X Y : G) (a b : Bool) (r : Out2 G J)
    (h : o.between dbg X Y a b = .ok r) :
    okVal (o.between dbg X Y false false) = some r.val := by
  unfold GroupOps.between at h ⊢
  cases hi : o.inverse dbg X with
  | error e => simp [hi, bind, Except.bind] at h
  | ok xi =>
    cases hc : o.compose dbg xi Y with
    | error e => simp [hi, hc, bind, Except.bind] at h
    | ok mc =>
      simp only [hi, hc, bind, Except.bind, pure, Except.pure, Bool.false_eq_true, if_false] at h ⊢
      cases a with
      | false => simp only [Bool.false_eq_true, if_false] at h; cases h; rfl
      | true =>
        cases hm : o.inverse dbg mc with
        | error e => simp [hm] at h
        | ok mi => simp only [hm, if_true] at h; cases h; rfl

end Manif
