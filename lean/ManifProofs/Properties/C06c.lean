/-
  C06 (continued): `Adj(exp t) = Jl(t) · Jr(t)⁻¹` for SO3 — the clause "exp(ad_t) = ljac * rjacinv" —
  through `R(exp t) · Jr(t) = Jl(t)` (polynomials in `hat t` with `hat³ = −θ² hat`).
-/
import ManifProofs.Properties.C06b
set_option linter.all false
namespace Manif
open Matrix
namespace SO3T

theorem hat_transpose (t : SO3T ℝ) : (hat t).toMatrixᵀ = -(hat t).toMatrix := by
  ext i j; fin_cases i <;> fin_cases j <;> simp [hat, M3.skew, M3.toMatrix]

/-- `R(exp t) · Jr(t) = Jl(t)` on the closed-form branch (any angle). -/
theorem rot_mul_rjac (t : SO3T ℝ) (h : realEps < t.v.x * t.v.x + (t.v.y * t.v.y + t.v.z * t.v.z)) :
    (Quat.toRot (expRaw t)).toMatrix * (rjac t).toMatrix = (ljac t).toMatrix := by
  have hp : 0 < t.v.x * t.v.x + (t.v.y * t.v.y + t.v.z * t.v.z) := lt_trans realEps_pos h
  have hθpos : 0 < Real.sqrt (t.v.x * t.v.x + (t.v.y * t.v.y + t.v.z * t.v.z)) := Real.sqrt_pos.mpr hp
  have hθ2 : Real.sqrt (t.v.x * t.v.x + (t.v.y * t.v.y + t.v.z * t.v.z)) ^ 2 =
      t.v.x * t.v.x + (t.v.y * t.v.y + t.v.z * t.v.z) := Real.sq_sqrt hp.le
  have hcube := hat_cube t
  have hT := hat_transpose t
  have hr : (rjac t).toMatrix = ((ljac t).toMatrix)ᵀ := by
    simp [rjac]
  rw [hr, rot_expRaw t h, ljac_generic t h]
  simp only [Matrix.transpose_add, Matrix.transpose_one, Matrix.transpose_smul, Matrix.transpose_pow, hT, neg_sq, smul_neg]
  have h4 : (hat t).toMatrix ^ 4 = (-(t.v.x * t.v.x + (t.v.y * t.v.y + t.v.z * t.v.z))) • (hat t).toMatrix ^ 2 := by
    rw [show (4 : ℕ) = 3 + 1 from rfl, pow_succ, hcube, smul_mul_assoc, pow_two]
  rw [show ∀ (k : ℝ) (W : Matrix (Fin 3) (Fin 3) ℝ), -(k • W) = (-k) • W from fun k W => (neg_smul k W).symm, quad_mul_quad]
  generalize Real.sqrt (t.v.x * t.v.x + (t.v.y * t.v.y + t.v.z * t.v.z)) = θ at hθpos hθ2 ⊢
  rw [hcube, h4, ← hθ2]
  have hsc := Real.sin_sq_add_cos_sq θ
  generalize Real.sin θ = s at hsc ⊢
  generalize Real.cos θ = c at hsc ⊢
  simp only [smul_smul]
  have hθ : θ ≠ 0 := hθpos.ne'
  have c1 : (s / θ + -((1 - c) / θ ^ 2)) + (s / θ * ((θ - s) / θ ^ 3) + (1 - c) / θ ^ 2 * -((1 - c) / θ ^ 2)) * -θ ^ 2 = (1 - c) / θ ^ 2 := by
    field_simp
    linear_combination hsc
  have c2 : ((1 - c) / θ ^ 2 + s / θ * -((1 - c) / θ ^ 2) + (θ - s) / θ ^ 3) + ((1 - c) / θ ^ 2 * ((θ - s) / θ ^ 3)) * -θ ^ 2 = (θ - s) / θ ^ 3 := by
    field_simp
    ring1
  have : ∀ (W : Matrix (Fin 3) (Fin 3) ℝ) (k1 k2 k3 k4 a b : ℝ), k1 + k3 = a → k2 + k4 = b →
      1 + k1 • W + k2 • W ^ 2 + k3 • W + k4 • W ^ 2 = 1 + a • W + b • W ^ 2 := by
    intro W k1 k2 k3 k4 a b h1 h2
    rw [← h1, ← h2, add_smul, add_smul]; abel
  exact this _ _ _ _ _ _ _ c1 c2

/-- **`Adj(exp t) = Jl(t) · Jr(t)⁻¹`** for SO3 (`Adj` of a rotation is its matrix), closed-form branch,
    away from the poles of `Jr⁻¹` (`sin(θ/2) ≠ 0`). -/
theorem adj_exp (t : SO3T ℝ) (h : realEps < t.v.x * t.v.x + (t.v.y * t.v.y + t.v.z * t.v.z))
    (hs : Real.sin (Real.sqrt (t.v.x * t.v.x + (t.v.y * t.v.y + t.v.z * t.v.z)) / 2) ≠ 0) :
    (Quat.toRot (expRaw t)).toMatrix = (ljac t).toMatrix * (rjacinv t).toMatrix := by
  rw [← rot_mul_rjac t h, Matrix.mul_assoc, rjac_mul_rjacinv t h hs, mul_one]
end SO3T
end Manif
