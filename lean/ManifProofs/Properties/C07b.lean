/-
  C07 (continued) — the Lie-algebra structure of the larger groups SE3, SE_2(3), SGal(3):
  generator tables (regenerated from /repo), rejection of every other index, vee ∘ hat = id,
  hat = Σ tᵢ Generator(i) (linearity), and Bracket(a,b) = smallAdj(a)·b realises the matrix commutator
  of the hats.  Exact identities over every ordered field.
-/
import ManifProofs.Properties.C07
import ManifProofs.Properties.C01
import ManifProofs.Lemmas.Tree

set_option linter.all false
namespace Manif
open Matrix

variable {K : Type} [Field K] [LinearOrder K] [IsStrictOrderedRing K] [Transc K]

theorem dotTree_eq_sum (a b : List K) : dotTree a b = (List.zipWith (· * ·) a b).sum := by
  unfold dotTree
  apply treeSum_eq_sum
  simp only [List.length_zipWith]
  omega


/-! ## SE3 -/
namespace SE3T

def ofFn6 (c : Fin 6 → K) : SE3T K := ⟨⟨c 0, c 1, c 2⟩, ⟨c 3, c 4, c 5⟩⟩

theorem generator_table (i : Fin 6) :
    genFromTable (K := K) Generated.SE3GenTable Generated.SE3GenErr (i : ℕ) =
      .ok (hatRows (ofFn6 fun j => if j = i then 1 else 0)) := by
  fin_cases i <;>
    simp [genFromTable, Generated.SE3GenTable, hatRows, ofFn6, Fin.ext_iff]

theorem generator_out_of_range (i : Int) (h : i < 0 ∨ 6 ≤ i) :
    genFromTable (K := K) Generated.SE3GenTable Generated.SE3GenErr i = .error .invalid_argument := by
  unfold genFromTable
  rcases h with h | h
  · simp [h, Generated.SE3GenErr]
  · have h0 : ¬ i < 0 := by omega
    have : 6 ≤ i.toNat := by omega
    simp only [h0, if_false]
    have hlen : Generated.SE3GenTable.length = 6 := rfl
    rw [List.getElem?_eq_none (by omega)]
    rfl

theorem vee_hat (t : SE3T K) : vee (hatRows t) = t := by
  rcases t with ⟨⟨a, b, c⟩, ⟨d, e, f⟩⟩; simp [vee, hatRows]

/-- `hat` is linear: `hat(c•a + b) = c•hat a + hat b` (hence `hat t = Σ tᵢ Generator(i)`). -/
theorem hat_linear (c : K) (a b : SE3T K) :
    matOfRows 4 (hatRows ⟨(a.lin.smul c).add b.lin, (a.ang.smul c).add b.ang⟩) =
      c • matOfRows 4 (hatRows a) + matOfRows 4 (hatRows b) := by
  ext i j; fin_cases i <;> fin_cases j <;> simp [matOfRows, hatRows, V3.add, V3.smul] <;> ring

/-- `Bracket(a,b) = a.smallAdj() * b`, and its hat is the commutator of the hats. -/
theorem bracket_hat (a b : SE3T K) :
    let A := smallAdj a
    matOfRows 4 (hatRows ⟨(A.tl.mulVec b.lin).add (A.tr.mulVec b.ang), (A.bl.mulVec b.lin).add (A.br.mulVec b.ang)⟩) =
      matOfRows 4 (hatRows a) * matOfRows 4 (hatRows b) - matOfRows 4 (hatRows b) * matOfRows 4 (hatRows a) := by
  ext i j
  fin_cases i <;> fin_cases j <;>
    simp [matOfRows, hatRows, smallAdj, M3.skew, M3.zero, M3.mulVec, V3.add, Matrix.mul_apply, Fin.sum_univ_four, sum3] <;> ring

/-- the model's `Bracket` call (`matVecFlat 6 (smallAdj a) b`, Eigen's reduction tree) is the block expression of `bracket_hat` -/
theorem bracket_model (a b : SE3T K) :
    let A := smallAdj a
    matVecFlat 6 A.toList b.toList =
      (⟨(A.tl.mulVec b.lin).add (A.tr.mulVec b.ang), (A.bl.mulVec b.lin).add (A.br.mulVec b.ang)⟩ : SE3T K).toList := by
  simp [matVecFlat, dotTree, treeSum, M6.toList, toList, smallAdj, V3.toList, M3.row0, M3.row1, M3.row2, M3.skew, M3.zero, M3.mulVec, V3.add,
    List.range, List.range.loop, sum3]

end SE3T

/-! ## SE_2(3) -/
namespace SE23T

def ofFn9 (c : Fin 9 → K) : SE23T K := ⟨⟨c 0, c 1, c 2⟩, ⟨c 3, c 4, c 5⟩, ⟨c 6, c 7, c 8⟩⟩

theorem generator_table (i : Fin 9) :
    genFromTable (K := K) Generated.SE23GenTable Generated.SE23GenErr (i : ℕ) =
      .ok (hatRows (ofFn9 fun j => if j = i then 1 else 0)) := by
  fin_cases i <;>
    simp [genFromTable, Generated.SE23GenTable, hatRows, ofFn9, Fin.ext_iff]

theorem generator_out_of_range (i : Int) (h : i < 0 ∨ 9 ≤ i) :
    genFromTable (K := K) Generated.SE23GenTable Generated.SE23GenErr i = .error .invalid_argument := by
  unfold genFromTable
  rcases h with h | h
  · simp [h, Generated.SE23GenErr]
  · have h0 : ¬ i < 0 := by omega
    have : 9 ≤ i.toNat := by omega
    simp only [h0, if_false]
    have hlen : Generated.SE23GenTable.length = 9 := rfl
    rw [List.getElem?_eq_none (by omega)]
    rfl

theorem vee_hat (t : SE23T K) : vee (hatRows t) = t := by
  rcases t with ⟨⟨a, b, c⟩, ⟨d, e, f⟩, ⟨g, h, k⟩⟩; simp [vee, hatRows]


theorem hat_linear (c : K) (a b : SE23T K) :
    matOfRows 5 (hatRows ⟨(a.lin.smul c).add b.lin, (a.ang.smul c).add b.ang, (a.lin2.smul c).add b.lin2⟩) =
      c • matOfRows 5 (hatRows a) + matOfRows 5 (hatRows b) := by
  ext i j; fin_cases i <;> fin_cases j <;> simp [matOfRows, hatRows, V3.add, V3.smul] <;> ring

set_option maxHeartbeats 4000000 in
theorem bracket_hat (a b : SE23T K) :
    let A := smallAdj a
    matOfRows 5 (hatRows
      ⟨((A.b00.mulVec b.lin).add (A.b01.mulVec b.ang)).add (A.b02.mulVec b.lin2),
       ((A.b10.mulVec b.lin).add (A.b11.mulVec b.ang)).add (A.b12.mulVec b.lin2),
       ((A.b20.mulVec b.lin).add (A.b21.mulVec b.ang)).add (A.b22.mulVec b.lin2)⟩) =
      matOfRows 5 (hatRows a) * matOfRows 5 (hatRows b) - matOfRows 5 (hatRows b) * matOfRows 5 (hatRows a) := by
  ext i j
  fin_cases i <;> fin_cases j <;>
    simp [matOfRows, hatRows, smallAdj, M3.skew, M3.zero, M3.mulVec, V3.add, Matrix.mul_apply, Fin.sum_univ_five, sum3] <;> ring

end SE23T

/-! ## SGal(3) -/
namespace SGal3T

def ofFn10 (c : Fin 10 → K) : SGal3T K := ⟨⟨c 0, c 1, c 2⟩, ⟨c 3, c 4, c 5⟩, ⟨c 6, c 7, c 8⟩, c 9⟩

theorem generator_table (i : Fin 10) :
    genFromTable (K := K) Generated.SGal3GenTable Generated.SGal3GenErr (i : ℕ) =
      .ok (hatRows (ofFn10 fun j => if j = i then 1 else 0)) := by
  fin_cases i <;>
    simp [genFromTable, Generated.SGal3GenTable, hatRows, ofFn10, Fin.ext_iff]

theorem generator_out_of_range (i : Int) (h : i < 0 ∨ 10 ≤ i) :
    genFromTable (K := K) Generated.SGal3GenTable Generated.SGal3GenErr i = .error .invalid_argument := by
  unfold genFromTable
  rcases h with h | h
  · simp [h, Generated.SGal3GenErr]
  · have h0 : ¬ i < 0 := by omega
    have : 10 ≤ i.toNat := by omega
    simp only [h0, if_false]
    have hlen : Generated.SGal3GenTable.length = 10 := rfl
    rw [List.getElem?_eq_none (by omega)]
    rfl

theorem vee_hat (t : SGal3T K) : vee (hatRows t) = t := by
  rcases t with ⟨⟨a, b, c⟩, ⟨d, e, f⟩, ⟨g, h, k⟩, s⟩; simp [vee, hatRows]


theorem hat_linear (c : K) (a b : SGal3T K) :
    matOfRows 5 (hatRows ⟨(a.lin.smul c).add b.lin, (a.lin2.smul c).add b.lin2, (a.ang.smul c).add b.ang, c * a.t + b.t⟩) =
      c • matOfRows 5 (hatRows a) + matOfRows 5 (hatRows b) := by
  ext i j; fin_cases i <;> fin_cases j <;> simp [matOfRows, hatRows, V3.add, V3.smul] <;> ring

/-- the rows of `smallAdj a` applied to `b` (order `ρ, ν, θ, ι`), with plain sums -/
def bracket (a b : SGal3T K) : SGal3T K :=
  let r := (smallAdj a).map fun row => (List.zipWith (· * ·) row [b.lin.x, b.lin.y, b.lin.z, b.lin2.x, b.lin2.y, b.lin2.z,
    b.ang.x, b.ang.y, b.ang.z, b.t]).sum
  ofFn10 fun i => r.getD i 0

set_option maxHeartbeats 4000000 in
theorem bracket_hat (a b : SGal3T K) :
    matOfRows 5 (hatRows (bracket a b)) =
      matOfRows 5 (hatRows a) * matOfRows 5 (hatRows b) - matOfRows 5 (hatRows b) * matOfRows 5 (hatRows a) := by
  ext i j
  fin_cases i <;> fin_cases j <;>
    simp [matOfRows, hatRows, bracket, ofFn10, smallAdj, rows10, M3.skew, M3.zero, M3.one, M3.smul, M3.map, M3.row0, M3.row1, M3.row2,
      V3.zero, Matrix.mul_apply, Fin.sum_univ_five] <;> ring

set_option maxHeartbeats 4000000 in
theorem bracket_model (a b : SGal3T K) :
    matVecFlat 10 (smallAdj a).flatten b.toList = (bracket a b).toList := by
  simp [matVecFlat, dotTree, treeSum, bracket, ofFn10, toList, smallAdj, rows10, V3.toList, M3.row0, M3.row1, M3.row2, M3.skew, M3.zero,
    M3.one, M3.smul, M3.map, V3.zero, List.range, List.range.loop]
  try ((repeat' apply And.intro) <;> ring)

end SGal3T

example : SE3T.vee (SE3T.hatRows (⟨⟨1, 2, 3⟩, ⟨-1, 1/2, 7⟩⟩ : SE3T ℚ)) = ⟨⟨1, 2, 3⟩, ⟨-1, 1/2, 7⟩⟩ := SE3T.vee_hat _
end Manif
