/-
  C15 — interpolation: the smoothing polynomials and the rejection of parameters outside [0,1].
    * `phi(0) = 0`, `phi(1) = 1`, `phi` monotone on [0,1] for every supported degree 1..4
      (`phi_d' = c_d t^d (1-t)^d ≥ 0`), unsupported degrees raise `logic_error`;
    * every interpolation method raises for `t ∉ [0,1]`, for every group (any record of primitives);
    * SLERP at `t` is `ma.rplus(mb.rminus(ma) * t)` by definition (with C04: the geodesic).
-/
import ManifProofs.Inst.Real
import ManifProofs.Properties.C04
import Mathlib.Analysis.Calculus.Deriv.MeanValue
import Mathlib.Analysis.Calculus.Deriv.Pow
import Mathlib.Analysis.Calculus.Deriv.Add
import Mathlib.Analysis.Calculus.Deriv.Mul
import Mathlib.Tactic.Positivity

namespace Manif

/-! ## the smoothing polynomials over ℝ -/

theorem phi_zero (m : ℕ) (hm : m = 1 ∨ m = 2 ∨ m = 3 ∨ m = 4) :
    smoothingPhi (0 : ℝ) m = .ok 0 := by
  rcases hm with rfl | rfl | rfl | rfl <;> simp [smoothingPhi]

theorem phi_one (m : ℕ) (hm : m = 1 ∨ m = 2 ∨ m = 3 ∨ m = 4) :
    smoothingPhi (1 : ℝ) m = .ok 1 := by
  rcases hm with rfl | rfl | rfl | rfl <;> simp [smoothingPhi] <;> norm_num

theorem phi_unsupported (t : ℝ) (m : ℕ) (hm : m = 0 ∨ 5 ≤ m) :
    smoothingPhi t m = .error .logic_error := by
  have h1 : m ≠ 1 := by omega
  have h2 : m ≠ 2 := by omega
  have h3 : m ≠ 3 := by omega
  have h4 : m ≠ 4 := by omega
  simp [smoothingPhi, h1, h2, h3, h4]

/-- the four polynomials, as real functions -/
def phiPoly : ℕ → ℝ → ℝ
  | 1, t => 3 * t ^ 2 - 2 * t ^ 3
  | 2, t => 10 * t ^ 3 - 15 * t ^ 4 + 6 * t ^ 5
  | 3, t => 35 * t ^ 4 - 84 * t ^ 5 + 70 * t ^ 6 - 20 * t ^ 7
  | 4, t => 126 * t ^ 5 - 420 * t ^ 6 + 540 * t ^ 7 - 315 * t ^ 8 + 70 * t ^ 9
  | _, _ => 0

theorem smoothingPhi_eq (t : ℝ) (m : ℕ) (hm : m = 1 ∨ m = 2 ∨ m = 3 ∨ m = 4) :
    smoothingPhi t m = .ok (phiPoly m t) := by
  rcases hm with rfl | rfl | rfl | rfl <;> simp [smoothingPhi, phiPoly] <;> ring

/-- the derivative: `c_d t^d (1-t)^d` -/
def phiDeriv : ℕ → ℝ → ℝ
  | 1, t => 6 * t * (1 - t)
  | 2, t => 30 * t ^ 2 * (1 - t) ^ 2
  | 3, t => 140 * t ^ 3 * (1 - t) ^ 3
  | 4, t => 630 * t ^ 4 * (1 - t) ^ 4
  | _, _ => 0

theorem phiPoly_hasDerivAt (m : ℕ) (hm : m = 1 ∨ m = 2 ∨ m = 3 ∨ m = 4) (x : ℝ) :
    HasDerivAt (phiPoly m) (phiDeriv m x) x := by
  have hp : ∀ n : ℕ, HasDerivAt (fun t : ℝ => t ^ n) ((n : ℝ) * x ^ (n - 1)) x := fun n => hasDerivAt_pow n x
  rcases hm with rfl | rfl | rfl | rfl
  · have h := ((hp 2).const_mul 3).sub ((hp 3).const_mul 2)
    have e : phiPoly 1 = fun t : ℝ => 3 * t ^ 2 - 2 * t ^ 3 := by funext t; rfl
    rw [e]
    exact h.congr_deriv (by simp only [phiDeriv]; norm_num; ring)
  · have h := (((hp 3).const_mul 10).sub ((hp 4).const_mul 15)).add ((hp 5).const_mul 6)
    have e : phiPoly 2 = fun t : ℝ => 10 * t ^ 3 - 15 * t ^ 4 + 6 * t ^ 5 := by funext t; rfl
    rw [e]
    exact h.congr_deriv (by simp only [phiDeriv]; norm_num; ring)
  · have h := ((((hp 4).const_mul 35).sub ((hp 5).const_mul 84)).add ((hp 6).const_mul 70)).sub ((hp 7).const_mul 20)
    have e : phiPoly 3 = fun t : ℝ => 35 * t ^ 4 - 84 * t ^ 5 + 70 * t ^ 6 - 20 * t ^ 7 := by funext t; rfl
    rw [e]
    exact h.congr_deriv (by simp only [phiDeriv]; norm_num; ring)
  · have h := (((((hp 5).const_mul 126).sub ((hp 6).const_mul 420)).add ((hp 7).const_mul 540)).sub
      ((hp 8).const_mul 315)).add ((hp 9).const_mul 70)
    have e : phiPoly 4 = fun t : ℝ => 126 * t ^ 5 - 420 * t ^ 6 + 540 * t ^ 7 - 315 * t ^ 8 + 70 * t ^ 9 := by
      funext t; rfl
    rw [e]
    exact h.congr_deriv (by simp only [phiDeriv]; norm_num; ring)

theorem phiDeriv_nonneg (m : ℕ) (x : ℝ) (h0 : 0 ≤ x) (h1 : x ≤ 1) : 0 ≤ phiDeriv m x := by
  have : 0 ≤ 1 - x := by linarith
  match m with
  | 0 => simp [phiDeriv]
  | 1 => simp only [phiDeriv]; positivity
  | 2 => simp only [phiDeriv]; positivity
  | 3 => simp only [phiDeriv]; positivity
  | 4 => simp only [phiDeriv]; positivity
  | n + 5 => simp [phiDeriv]

/-- **phi is monotone on [0,1]** for every supported degree. -/
theorem phi_monotoneOn (m : ℕ) (hm : m = 1 ∨ m = 2 ∨ m = 3 ∨ m = 4) :
    MonotoneOn (phiPoly m) (Set.Icc 0 1) := by
  apply monotoneOn_of_hasDerivWithinAt_nonneg (convex_Icc 0 1) (f' := phiDeriv m)
  · exact fun x _ => (phiPoly_hasDerivAt m hm x).continuousAt.continuousWithinAt
  · intro x _
    exact (phiPoly_hasDerivAt m hm x).hasDerivWithinAt
  · intro x hx
    rw [interior_Icc] at hx
    exact phiDeriv_nonneg m x (le_of_lt hx.1) (le_of_lt hx.2)

example : phiPoly 3 (1 / 2) = 1 / 2 := by norm_num [phiPoly]

/-! ## rejection outside [0,1] — every group -/
section rejects
variable {K G T J : Type} [Scalar K] (o : GroupOps K G T J)

theorem interpSlerp_rejects (dbg : Bool) (A B : G) (t : K) (h : inUnit t = false) :
    o.interpSlerp dbg A B t = .error .runtime_error := by
  simp [GroupOps.interpSlerp, h, throw, throwThe, MonadExceptOf.throw, bind, Except.bind]

theorem interpCubic_rejects (dbg : Bool) (A B : G) (t : K) (ta tb : T) (h : inUnit t = false) :
    o.interpCubic dbg A B t ta tb = .error .runtime_error := by
  simp [GroupOps.interpCubic, h, throw, throwThe, MonadExceptOf.throw, bind, Except.bind]

theorem interpSmooth_rejects (dbg : Bool) (A B : G) (t : K) (m : ℕ) (ta tb : T) (h : inUnit t = false) :
    o.interpSmooth dbg A B t m ta tb = .error .runtime_error := by
  unfold GroupOps.interpSmooth
  by_cases hm : m < 1 <;>
    simp [hm, h, throw, throwThe, MonadExceptOf.throw, bind, Except.bind, pure, Except.pure]

/-- SLERP is, by definition, `ma.rplus(mb.rminus(ma) * t)` on `[0,1]`. -/
theorem interpSlerp_def (dbg : Bool) (A B : G) (t : K) (h : inUnit t = true) :
    o.interpSlerp dbg A B t = (do let d ← o.rminusV dbg B A; o.rplusV dbg A (o.tscale d t)) := by
  simp [GroupOps.interpSlerp, h, bind, Except.bind, pure, Except.pure]
end rejects

/-- over ℝ, `inUnit t = false` is exactly `t < 0 ∨ 1 < t`. -/
theorem inUnit_real (t : ℝ) : inUnit t = false ↔ (t < 0 ∨ 1 < t) := by
  simp only [inUnit, scalar_le, scalar_nat, Nat.cast_zero, Nat.cast_one, Bool.and_eq_false_iff,
    decide_eq_false_iff_not, not_le]

end Manif
