/-
  C18 (continued) — group-level `isApprox` / `==` in exact arithmetic: for a valid SO3 element,
  `X.isApprox(X, eps)` is true for every `eps ≥ 0` (so is `X == X`): `X⁻¹·X` is exactly the identity quaternion,
  its `log` is exactly zero, and the tangent test is reflexive.  Every ordered field with a lawful sqrt.
  (In floating point `X⁻¹·X` is the identity only up to rounding — KF-C18-1 is about that, for SGal(3).)
-/
import ManifProofs.Properties.C18
import ManifProofs.Properties.C01

set_option linter.all false
namespace Manif
variable {K : Type} [Field K] [LinearOrder K] [IsStrictOrderedRing K] [Transc K] [LawfulTransc K]
namespace SO3

theorem compose_okK (dbg : Bool) {X Y : SO3 K} (hX : Valid X) (hY : Valid Y) :
    compose dbg X Y = .ok ⟨X.q.mul Y.q⟩ := by
  unfold compose
  rw [composeRaw_eq hX hY]
  exact make_ok dbg (X := ⟨X.q.mul Y.q⟩) (by unfold Valid at *; rw [Quat.sqn_mul, hX, hY, one_mul])

theorem inverse_okK (dbg : Bool) {X : SO3 K} (hX : Valid X) : inverse dbg X = .ok ⟨X.q.conj⟩ := by
  unfold inverse
  exact make_ok dbg (X := ⟨X.q.conj⟩) (by unfold Valid at *; rw [Quat.sqn_conj]; exact hX)

theorem conj_mul_self (q : Quat K) (hq : q.sqn = 1) : q.conj.mul q = ⟨0, 0, 0, 1⟩ := by
  unfold Quat.sqn at hq
  simp only [Quat.mul, Quat.conj]
  congr 1
  · ring
  · ring
  · ring
  · linear_combination hq

theorem log_one : log (⟨⟨0, 0, 0, 1⟩⟩ : SO3 K) = ⟨⟨0, 0, 0⟩⟩ := by
  have he : ¬ ((Transc.eps : K) < 0) := not_lt.mpr (le_of_lt LawfulTransc.eps_pos)
  simp [log, Quat.vec, V3.sqNorm, sum3, V3.muls, he]

/-- **SO3: `X.isApprox(X, eps)` (and `X == X`) is true**, exactly, for every valid `X` and `eps ≥ 0`. -/
theorem isApprox_refl (dbg : Bool) {X : SO3 K} (hX : Valid X) (eps : K) (h : 0 ≤ eps) :
    (so3Ops.rminus dbg X X false false).map
        (fun d => tanIsApprox (so3Codec.tTo d.val) (so3Codec.tTo (so3Ops (K := K)).tzero) eps) = .ok true := by
  have hXi : Valid (⟨X.q.conj⟩ : SO3 K) := by unfold Valid at *; rw [Quat.sqn_conj]; exact hX
  have hc := compose_okK dbg hXi hX
  simp only at hc
  rw [conj_mul_self _ hX] at hc
  simp only [GroupOps.rminus, so3Ops, inverse_okK dbg hX, hc, log_one, bind, Except.bind, pure, Except.pure, Except.map]
  have e : so3Codec.tTo (⟨V3.zero⟩ : SO3T K) = so3Codec.tTo (⟨⟨0, 0, 0⟩⟩ : SO3T K) := by
    simp [so3Codec, SO3T.toList, V3.toList, V3.zero]
  rw [e]
  have := tanIsApprox_refl (so3Codec.tTo (⟨⟨0, 0, 0⟩⟩ : SO3T K)) eps h
  simpa using this
end SO3
end Manif
