/-
  C16 — averages: the parts that are decision logic, for every group (any record of primitives):
  an empty set raises, a single point is returned as is, the loops are bounded by their
  iteration budget by construction (structural recursion on `max_iterations`), and a set of
  identical points returns that point at the first stopping test (given `X ⊖ X = 0`).
  Convergence within the budget for radius ≤ 0.5 and equivariance are measured (L2), not proved.
-/
import ManifModel
import Mathlib.Tactic.Ring

namespace Manif
variable {K G T J : Type} [Scalar K] (o : GroupOps K G T J)

theorem avgBi_empty (dbg : Bool) (eps : K) (n : Nat) :
    o.averageBiinvariant dbg [] eps n = .error .runtime_error := rfl
theorem avgW_empty (dbg : Bool) (n : Nat) :
    o.averageWeighted dbg [] n = .error .runtime_error := rfl
theorem avgFL_empty (dbg : Bool) (eps : K) (n : Nat) :
    o.averageFrechetLeft dbg [] eps n = .error .runtime_error := rfl
theorem avgFR_empty (dbg : Bool) (eps : K) (n : Nat) :
    o.averageFrechetRight dbg [] eps n = .error .runtime_error := rfl

theorem avgBi_singleton (dbg : Bool) (p : G) (eps : K) (n : Nat) :
    o.averageBiinvariant dbg [p] eps n = .ok p := rfl
theorem avgW_singleton (dbg : Bool) (p : G) (n : Nat) :
    o.averageWeighted dbg [p] n = .ok p := rfl
theorem avgFL_singleton (dbg : Bool) (p : G) (eps : K) (n : Nat) :
    o.averageFrechetLeft dbg [p] eps n = .ok p := rfl
theorem avgFR_singleton (dbg : Bool) (p : G) (eps : K) (n : Nat) :
    o.averageFrechetRight dbg [p] eps n = .ok p := rfl

/-- with an exhausted budget the first point is returned (the loop body never runs). -/
theorem avgBi_zero_budget (dbg : Bool) (p q : G) (rest : List G) (eps : K) :
    o.averageBiinvariant dbg (p :: q :: rest) eps 0 = .ok p := rfl

/-- a loop whose body leaves the accumulator unchanged on every element returns it -/
theorem forIn_const (l : List G) (tz : T) (f : G → T → Except Err (ForInStep T))
    (hf : ∀ x ∈ l, f x tz = .ok (.yield tz)) : forIn l tz f = .ok tz := by
  induction l with
  | nil => rfl
  | cons a l ih =>
    simp only [List.forIn_cons, hf a List.mem_cons_self, bind, Except.bind]
    exact ih (fun x hx => hf x (List.mem_cons_of_mem _ hx))

/-- **identical points**: if `X ⊖ X` is the zero tangent and `‖0‖² < eps`, the bi-invariant mean of
    any number of copies of `X` is `X` (first stopping test). -/
theorem avgBi_identical (dbg : Bool) (X : G) (k : Nat) (eps : K) (n : Nat)
    (hm : o.rminusV dbg X X = .ok o.tzero) (hadd : o.tadd o.tzero o.tzero = o.tzero)
    (hsc : ∀ w, o.tscale o.tzero w = o.tzero) (hlt : Scalar.lt (o.tsqnorm o.tzero) eps = true) :
    o.averageBiinvariant dbg (X :: X :: List.replicate k X) eps (n + 1) = .ok X := by
  unfold GroupOps.averageBiinvariant GroupOps.averageBiinvariant.loop
  have hl : ∀ x ∈ (X :: X :: List.replicate k X), x = X := by
    intro x hx
    simp only [List.mem_cons, List.mem_replicate] at hx
    rcases hx with h | h | ⟨_, h⟩ <;> exact h
  simp only
  rw [forIn_const (X :: X :: List.replicate k X) o.tzero _ (by
    intro x hx
    rw [hl x hx]
    simp only [hm, bind, Except.bind, hadd, pure, Except.pure])]
  simp only [bind, Except.bind, hsc, hlt, if_true, pure, Except.pure]

end Manif
