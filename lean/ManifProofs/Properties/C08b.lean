/-
  C08 (continued) — SO3 and SE3: unit-norm validity is an invariant of EVERY history of compose / inverse
  steps, of any length (induction over the operation list), and under it the constructor check never fires.
  Same recurrence as SO2 (`renormDev_invariant`): the quaternion product multiplies squared norms.
-/
import ManifProofs.Properties.C08
import ManifProofs.Lemmas.Quat
import ManifProofs.Inst.Real

set_option linter.all false
namespace Manif
variable {K : Type} [Field K] [LinearOrder K] [IsStrictOrderedRing K] [Transc K] [LawfulTransc K]

namespace SO3
/-- squared-norm deviation of the quaternion -/
def dev (q : Quat K) : K := q.sqn - 1
def Near (X : SO3 K) : Prop := |dev X.q| ≤ Transc.eps

theorem sqn_scale (q : Quat K) (s : K) : (q.scale s).sqn = q.sqn * (s * s) := by
  simp [Quat.scale, Quat.sqn]; ring

theorem dev_composeRaw (X Y : SO3 K) :
    dev (composeRaw X Y) = renormDev (dev X.q + dev Y.q + dev X.q * dev Y.q) := by
  have hn : (X.q.mul Y.q).sqn - 1 = dev X.q + dev Y.q + dev X.q * dev Y.q := by
    rw [Quat.sqn_mul]; unfold dev; ring
  unfold composeRaw renormDev
  simp only [scalar_gt, scalar_abs, scalar_eps, scalar_nat, Nat.cast_one, Quat.sqNorm_eq]
  rw [hn]
  by_cases h : Transc.eps < |dev X.q + dev Y.q + dev X.q * dev Y.q|
  · simp only [h, decide_true, if_true]
    have e : (X.q.mul Y.q).sqn = 1 + (dev X.q + dev Y.q + dev X.q * dev Y.q) := by rw [← hn]; ring
    unfold dev
    rw [sqn_scale, e]
    simp only [dev]
  · simp only [h, decide_false, if_false, Bool.false_eq_true]
    rw [← hn]
    rfl

theorem near_composeRaw (he : (Transc.eps : K) ≤ 1 / 10) {X Y : SO3 K} (hX : Near X) (hY : Near Y) :
    Near ⟨composeRaw X Y⟩ := by
  unfold Near
  rw [dev_composeRaw]
  exact renormDev_invariant _ _ he hX hY

theorem near_inverse {X : SO3 K} (hX : Near X) : Near ⟨X.q.conj⟩ := by
  unfold Near dev at *
  rw [Quat.sqn_conj]; exact hX

/-- under the invariant the constructor check never fires (assertions enabled). -/
theorem make_ok_of_near (dbg : Bool) {X : SO3 K} (hX : Near X) : make dbg X.q = .ok X := by
  have hpos : (0 : K) < Transc.eps := LawfulTransc.eps_pos
  have hlt : (Transc.eps : K) < 1 := LawfulTransc.eps_lt_one
  set s := X.q.sqn with hs
  have hd : |s - 1| ≤ Transc.eps := hX
  have hspos : 0 < s := by have := abs_le.mp hd; linarith
  have hr := LawfulTransc.sqrt_mul_self s hspos.le
  have hr0 := LawfulTransc.sqrt_nonneg s
  have hrpos : 0 < Transc.sqrt s := by
    rcases hr0.lt_or_eq with h | h
    · exact h
    · rw [← h] at hr; simp at hr; linarith
  have key : |Transc.sqrt s - 1| < Transc.eps := by
    have e : (Transc.sqrt s - 1) * (Transc.sqrt s + 1) = s - 1 := by linear_combination hr
    have hp : 1 < Transc.sqrt s + 1 := by linarith
    have : |Transc.sqrt s - 1| * (Transc.sqrt s + 1) = |s - 1| := by
      rw [← e, abs_mul, abs_of_pos (by linarith : 0 < Transc.sqrt s + 1)]
    by_cases hz : Transc.sqrt s - 1 = 0
    · rw [hz]; simpa using hpos
    · have hapos : 0 < |Transc.sqrt s - 1| := abs_pos.mpr hz
      nlinarith
  have hn : X.q.norm = Transc.sqrt s := by simp [Quat.norm, Quat.sqNorm_eq, hs]
  unfold make checkUnit
  simp [hn, key]

/-- a history: each step composes or inverts elements of the pool and stores the result -/
inductive Step where
  | compose (i j dst : ℕ)
  | inverse (i dst : ℕ)

def step (dbg : Bool) (pool : List (SO3 K)) : Step → Except Err (List (SO3 K))
  | .compose i j dst =>
    match pool[i]?, pool[j]? with
    | some X, some Y => (compose dbg X Y).map fun Z => pool.set dst Z
    | _, _ => .ok pool
  | .inverse i dst =>
    match pool[i]? with
    | some X => (inverse dbg X).map fun Z => pool.set dst Z
    | none => .ok pool

def run (dbg : Bool) : List Step → List (SO3 K) → Except Err (List (SO3 K))
  | [], pool => .ok pool
  | s :: rest, pool => (step dbg pool s) >>= run dbg rest

theorem step_near (he : (Transc.eps : K) ≤ 1 / 10) (dbg : Bool) (pool : List (SO3 K))
    (h : ∀ X ∈ pool, Near X) (s : Step) :
    ∃ pool', step dbg pool s = .ok pool' ∧ ∀ X ∈ pool', Near X := by
  cases s with
  | compose i j dst =>
    rcases hi : pool[i]? with _ | X
    · exact ⟨pool, by simp [step, hi], h⟩
    rcases hj : pool[j]? with _ | Y
    · exact ⟨pool, by simp [step, hi, hj], h⟩
    · have hX := h X (List.mem_of_getElem? hi)
      have hY := h Y (List.mem_of_getElem? hj)
      have hZ := near_composeRaw he hX hY
      have hok : compose dbg X Y = .ok ⟨composeRaw X Y⟩ := by
        unfold compose; exact make_ok_of_near dbg (X := ⟨composeRaw X Y⟩) hZ
      refine ⟨pool.set dst ⟨composeRaw X Y⟩, by simp [step, hi, hj, hok, Except.map], ?_⟩
      intro W hW
      rcases List.mem_or_eq_of_mem_set hW with hW | hW
      · exact h W hW
      · rw [hW]; exact hZ
  | inverse i dst =>
    rcases hi : pool[i]? with _ | X
    · exact ⟨pool, by simp [step, hi], h⟩
    · have hX := h X (List.mem_of_getElem? hi)
      have hZ := near_inverse hX
      have hok : inverse dbg X = .ok ⟨X.q.conj⟩ := by
        unfold inverse; exact make_ok_of_near dbg (X := ⟨X.q.conj⟩) hZ
      refine ⟨pool.set dst ⟨X.q.conj⟩, by simp [step, hi, hok, Except.map], ?_⟩
      intro W hW
      rcases List.mem_or_eq_of_mem_set hW with hW | hW
      · exact h W hW
      · rw [hW]; exact hZ

/-- **every history, of any length**: no exception (assertions enabled or not), and every element
    of the pool stays within `eps` of unit squared norm. -/
theorem run_near (he : (Transc.eps : K) ≤ 1 / 10) (dbg : Bool) (ops : List Step) :
    ∀ pool : List (SO3 K), (∀ X ∈ pool, Near X) →
      ∃ pool', run dbg ops pool = .ok pool' ∧ ∀ X ∈ pool', Near X := by
  induction ops with
  | nil => intro pool h; exact ⟨pool, rfl, h⟩
  | cons s rest ih =>
    intro pool h
    obtain ⟨p1, h1, hn1⟩ := step_near he dbg pool h s
    obtain ⟨p2, h2, hn2⟩ := ih p1 hn1
    exact ⟨p2, by simp [run, h1, h2, bind, Except.bind], hn2⟩

/-- non-vacuity: a rational unit quaternion satisfies the invariant (over ℝ) -/
example : Near (⟨⟨3/5, 0, 4/5, 0⟩⟩ : SO3 ℝ) := by
  unfold Near dev Quat.sqn
  norm_num
  exact le_of_lt LawfulTransc.eps_pos
end SO3

namespace SE3
def Near (X : SE3 K) : Prop := SO3.Near X.asSO3

theorem make_ok_of_near (dbg : Bool) (t : V3 K) {q : Quat K} (h : SO3.Near ⟨q⟩) : make dbg t q = .ok ⟨t, q⟩ := by
  have := SO3.make_ok_of_near dbg (X := ⟨q⟩) h
  unfold SO3.make at this
  unfold make
  cases hc : checkUnit dbg q.norm with
  | error e => simp [hc, bind, Except.bind] at this
  | ok u => simp [bind, Except.bind, pure, Except.pure]

theorem compose_near (he : (Transc.eps : K) ≤ 1 / 10) (dbg : Bool) {X Y : SE3 K} (hX : Near X) (hY : Near Y) :
    ∃ Z, compose dbg X Y = .ok Z ∧ Near Z := by
  have hZ := SO3.near_composeRaw he hX hY
  have hok : SO3.compose dbg X.asSO3 Y.asSO3 = .ok ⟨SO3.composeRaw X.asSO3 Y.asSO3⟩ := by
    unfold SO3.compose; exact SO3.make_ok_of_near dbg (X := ⟨SO3.composeRaw X.asSO3 Y.asSO3⟩) hZ
  refine ⟨⟨(X.rotation.mulVec Y.t).add X.t, SO3.composeRaw X.asSO3 Y.asSO3⟩, ?_, hZ⟩
  unfold compose
  simp only [hok, bind, Except.bind]
  exact make_ok_of_near dbg _ hZ

theorem inverse_near (dbg : Bool) {X : SE3 K} (hX : Near X) :
    ∃ Z, inverse dbg X = .ok Z ∧ Near Z := by
  have hZ := SO3.near_inverse hX
  have hok : SO3.inverse dbg X.asSO3 = .ok ⟨X.asSO3.q.conj⟩ := by
    unfold SO3.inverse; exact SO3.make_ok_of_near dbg (X := ⟨X.asSO3.q.conj⟩) hZ
  refine ⟨⟨((SO3.mk X.asSO3.q.conj).act X.t).neg, X.asSO3.q.conj⟩, ?_, hZ⟩
  unfold inverse
  simp only [hok, bind, Except.bind]
  exact make_ok_of_near dbg _ hZ

inductive Step where
  | compose (i j dst : ℕ)
  | inverse (i dst : ℕ)

def step (dbg : Bool) (pool : List (SE3 K)) : Step → Except Err (List (SE3 K))
  | .compose i j dst =>
    match pool[i]?, pool[j]? with
    | some X, some Y => (compose dbg X Y).map fun Z => pool.set dst Z
    | _, _ => .ok pool
  | .inverse i dst =>
    match pool[i]? with
    | some X => (inverse dbg X).map fun Z => pool.set dst Z
    | none => .ok pool

def run (dbg : Bool) : List Step → List (SE3 K) → Except Err (List (SE3 K))
  | [], pool => .ok pool
  | s :: rest, pool => (step dbg pool s) >>= run dbg rest

theorem step_near (he : (Transc.eps : K) ≤ 1 / 10) (dbg : Bool) (pool : List (SE3 K))
    (h : ∀ X ∈ pool, Near X) (s : Step) :
    ∃ pool', step dbg pool s = .ok pool' ∧ ∀ X ∈ pool', Near X := by
  cases s with
  | compose i j dst =>
    rcases hi : pool[i]? with _ | X
    · exact ⟨pool, by simp [step, hi], h⟩
    rcases hj : pool[j]? with _ | Y
    · exact ⟨pool, by simp [step, hi, hj], h⟩
    · obtain ⟨Z, hok, hZ⟩ := compose_near he dbg (h X (List.mem_of_getElem? hi)) (h Y (List.mem_of_getElem? hj))
      refine ⟨pool.set dst Z, by simp [step, hi, hj, hok, Except.map], ?_⟩
      intro W hW
      rcases List.mem_or_eq_of_mem_set hW with hW | hW
      · exact h W hW
      · rw [hW]; exact hZ
  | inverse i dst =>
    rcases hi : pool[i]? with _ | X
    · exact ⟨pool, by simp [step, hi], h⟩
    · obtain ⟨Z, hok, hZ⟩ := inverse_near dbg (h X (List.mem_of_getElem? hi))
      refine ⟨pool.set dst Z, by simp [step, hi, hok, Except.map], ?_⟩
      intro W hW
      rcases List.mem_or_eq_of_mem_set hW with hW | hW
      · exact h W hW
      · rw [hW]; exact hZ

/-- **SE3, every history of any length**: no exception, rotation part stays within `eps` of unit norm
    (whatever the translations are). -/
theorem run_near (he : (Transc.eps : K) ≤ 1 / 10) (dbg : Bool) (ops : List Step) :
    ∀ pool : List (SE3 K), (∀ X ∈ pool, Near X) →
      ∃ pool', run dbg ops pool = .ok pool' ∧ ∀ X ∈ pool', Near X := by
  induction ops with
  | nil => intro pool h; exact ⟨pool, rfl, h⟩
  | cons s rest ih =>
    intro pool h
    obtain ⟨p1, h1, hn1⟩ := step_near he dbg pool h s
    obtain ⟨p2, h2, hn2⟩ := ih p1 hn1
    exact ⟨p2, by simp [run, h1, h2, bind, Except.bind], hn2⟩
end SE3

namespace SE23
def Near (X : SE23 K) : Prop := SO3.Near X.asSO3

theorem make_ok_of_near (dbg : Bool) (t v : V3 K) {q : Quat K} (h : SO3.Near ⟨q⟩) :
    make dbg t q v = .ok ⟨t, q, v⟩ := by
  have := SO3.make_ok_of_near dbg (X := ⟨q⟩) h
  unfold SO3.make at this
  unfold make
  cases hc : checkUnit dbg q.norm with
  | error e => simp [hc, bind, Except.bind] at this
  | ok u => simp [bind, Except.bind, pure, Except.pure]

theorem compose_near (he : (Transc.eps : K) ≤ 1 / 10) (dbg : Bool) {X Y : SE23 K} (hX : Near X) (hY : Near Y) :
    ∃ Z, compose dbg X Y = .ok Z ∧ Near Z := by
  have hZ := SO3.near_composeRaw he hX hY
  have hok : SO3.compose dbg X.asSO3 Y.asSO3 = .ok ⟨SO3.composeRaw X.asSO3 Y.asSO3⟩ := by
    unfold SO3.compose; exact SO3.make_ok_of_near dbg (X := ⟨SO3.composeRaw X.asSO3 Y.asSO3⟩) hZ
  unfold compose
  simp only [hok, bind, Except.bind]
  exact ⟨_, make_ok_of_near dbg _ _ hZ, hZ⟩

theorem inverse_near (dbg : Bool) {X : SE23 K} (hX : Near X) :
    ∃ Z, inverse dbg X = .ok Z ∧ Near Z := by
  have hZ := SO3.near_inverse hX
  have hok : SO3.inverse dbg X.asSO3 = .ok ⟨X.asSO3.q.conj⟩ := by
    unfold SO3.inverse; exact SO3.make_ok_of_near dbg (X := ⟨X.asSO3.q.conj⟩) hZ
  unfold inverse
  simp only [hok, bind, Except.bind]
  exact ⟨_, make_ok_of_near dbg _ _ hZ, hZ⟩

inductive Step where
  | compose (i j dst : ℕ)
  | inverse (i dst : ℕ)

def step (dbg : Bool) (pool : List (SE23 K)) : Step → Except Err (List (SE23 K))
  | .compose i j dst =>
    match pool[i]?, pool[j]? with
    | some X, some Y => (compose dbg X Y).map fun Z => pool.set dst Z
    | _, _ => .ok pool
  | .inverse i dst =>
    match pool[i]? with
    | some X => (inverse dbg X).map fun Z => pool.set dst Z
    | none => .ok pool

def run (dbg : Bool) : List Step → List (SE23 K) → Except Err (List (SE23 K))
  | [], pool => .ok pool
  | s :: rest, pool => (step dbg pool s) >>= run dbg rest

theorem step_near (he : (Transc.eps : K) ≤ 1 / 10) (dbg : Bool) (pool : List (SE23 K))
    (h : ∀ X ∈ pool, Near X) (s : Step) :
    ∃ pool', step dbg pool s = .ok pool' ∧ ∀ X ∈ pool', Near X := by
  cases s with
  | compose i j dst =>
    rcases hi : pool[i]? with _ | X
    · exact ⟨pool, by simp [step, hi], h⟩
    rcases hj : pool[j]? with _ | Y
    · exact ⟨pool, by simp [step, hi, hj], h⟩
    · obtain ⟨Z, hok, hZ⟩ := compose_near he dbg (h X (List.mem_of_getElem? hi)) (h Y (List.mem_of_getElem? hj))
      refine ⟨pool.set dst Z, by simp [step, hi, hj, hok, Except.map], ?_⟩
      intro W hW
      rcases List.mem_or_eq_of_mem_set hW with hW | hW
      · exact h W hW
      · rw [hW]; exact hZ
  | inverse i dst =>
    rcases hi : pool[i]? with _ | X
    · exact ⟨pool, by simp [step, hi], h⟩
    · obtain ⟨Z, hok, hZ⟩ := inverse_near dbg (h X (List.mem_of_getElem? hi))
      refine ⟨pool.set dst Z, by simp [step, hi, hok, Except.map], ?_⟩
      intro W hW
      rcases List.mem_or_eq_of_mem_set hW with hW | hW
      · exact h W hW
      · rw [hW]; exact hZ

/-- **every history of any length**: no exception, rotation part stays within `eps` of unit norm. -/
theorem run_near (he : (Transc.eps : K) ≤ 1 / 10) (dbg : Bool) (ops : List Step) :
    ∀ pool : List (SE23 K), (∀ X ∈ pool, Near X) →
      ∃ pool', run dbg ops pool = .ok pool' ∧ ∀ X ∈ pool', Near X := by
  induction ops with
  | nil => intro pool h; exact ⟨pool, rfl, h⟩
  | cons s rest ih =>
    intro pool h
    obtain ⟨p1, h1, hn1⟩ := step_near he dbg pool h s
    obtain ⟨p2, h2, hn2⟩ := ih p1 hn1
    exact ⟨p2, by simp [run, h1, h2, bind, Except.bind], hn2⟩
end SE23

namespace SGal3
def Near (X : SGal3 K) : Prop := SO3.Near X.asSO3

theorem make_ok_of_near (dbg : Bool) (p v : V3 K) (s : K) {q : Quat K} (h : SO3.Near ⟨q⟩) :
    make dbg p q v s = .ok ⟨p, q, v, s⟩ := by
  have := SO3.make_ok_of_near dbg (X := ⟨q⟩) h
  unfold SO3.make at this
  unfold make
  cases hc : checkUnit dbg q.norm with
  | error e => simp [hc, bind, Except.bind] at this
  | ok u => simp [bind, Except.bind, pure, Except.pure]

theorem compose_near (he : (Transc.eps : K) ≤ 1 / 10) (dbg : Bool) {X Y : SGal3 K} (hX : Near X) (hY : Near Y) :
    ∃ Z, compose dbg X Y = .ok Z ∧ Near Z := by
  have hZ := SO3.near_composeRaw he hX hY
  have hok : SO3.compose dbg X.asSO3 Y.asSO3 = .ok ⟨SO3.composeRaw X.asSO3 Y.asSO3⟩ := by
    unfold SO3.compose; exact SO3.make_ok_of_near dbg (X := ⟨SO3.composeRaw X.asSO3 Y.asSO3⟩) hZ
  unfold compose
  simp only [hok, bind, Except.bind]
  exact ⟨_, make_ok_of_near dbg _ _ _ hZ, hZ⟩

theorem inverse_near (dbg : Bool) {X : SGal3 K} (hX : Near X) :
    ∃ Z, inverse dbg X = .ok Z ∧ Near Z := by
  have hZ := SO3.near_inverse hX
  have hok : SO3.inverse dbg X.asSO3 = .ok ⟨X.asSO3.q.conj⟩ := by
    unfold SO3.inverse; exact SO3.make_ok_of_near dbg (X := ⟨X.asSO3.q.conj⟩) hZ
  unfold inverse
  simp only [hok, bind, Except.bind]
  exact ⟨_, make_ok_of_near dbg _ _ _ hZ, hZ⟩

inductive Step where
  | compose (i j dst : ℕ)
  | inverse (i dst : ℕ)

def step (dbg : Bool) (pool : List (SGal3 K)) : Step → Except Err (List (SGal3 K))
  | .compose i j dst =>
    match pool[i]?, pool[j]? with
    | some X, some Y => (compose dbg X Y).map fun Z => pool.set dst Z
    | _, _ => .ok pool
  | .inverse i dst =>
    match pool[i]? with
    | some X => (inverse dbg X).map fun Z => pool.set dst Z
    | none => .ok pool

def run (dbg : Bool) : List Step → List (SGal3 K) → Except Err (List (SGal3 K))
  | [], pool => .ok pool
  | s :: rest, pool => (step dbg pool s) >>= run dbg rest

theorem step_near (he : (Transc.eps : K) ≤ 1 / 10) (dbg : Bool) (pool : List (SGal3 K))
    (h : ∀ X ∈ pool, Near X) (s : Step) :
    ∃ pool', step dbg pool s = .ok pool' ∧ ∀ X ∈ pool', Near X := by
  cases s with
  | compose i j dst =>
    rcases hi : pool[i]? with _ | X
    · exact ⟨pool, by simp [step, hi], h⟩
    rcases hj : pool[j]? with _ | Y
    · exact ⟨pool, by simp [step, hi, hj], h⟩
    · obtain ⟨Z, hok, hZ⟩ := compose_near he dbg (h X (List.mem_of_getElem? hi)) (h Y (List.mem_of_getElem? hj))
      refine ⟨pool.set dst Z, by simp [step, hi, hj, hok, Except.map], ?_⟩
      intro W hW
      rcases List.mem_or_eq_of_mem_set hW with hW | hW
      · exact h W hW
      · rw [hW]; exact hZ
  | inverse i dst =>
    rcases hi : pool[i]? with _ | X
    · exact ⟨pool, by simp [step, hi], h⟩
    · obtain ⟨Z, hok, hZ⟩ := inverse_near dbg (h X (List.mem_of_getElem? hi))
      refine ⟨pool.set dst Z, by simp [step, hi, hok, Except.map], ?_⟩
      intro W hW
      rcases List.mem_or_eq_of_mem_set hW with hW | hW
      · exact h W hW
      · rw [hW]; exact hZ

/-- **every history of any length**: no exception, rotation part stays within `eps` of unit norm. -/
theorem run_near (he : (Transc.eps : K) ≤ 1 / 10) (dbg : Bool) (ops : List Step) :
    ∀ pool : List (SGal3 K), (∀ X ∈ pool, Near X) →
      ∃ pool', run dbg ops pool = .ok pool' ∧ ∀ X ∈ pool', Near X := by
  induction ops with
  | nil => intro pool h; exact ⟨pool, rfl, h⟩
  | cons s rest ih =>
    intro pool h
    obtain ⟨p1, h1, hn1⟩ := step_near he dbg pool h s
    obtain ⟨p2, h2, hn2⟩ := ih p1 hn1
    exact ⟨p2, by simp [run, h1, h2, bind, Except.bind], hn2⟩
end SGal3

/-! ## SE2 (complex part = SO2) -/
namespace SE2
def dev (X : SE2 K) : K := X.re * X.re + X.im * X.im - 1
def Near (X : SE2 K) : Prop := |dev X| ≤ Transc.eps
def rotPart (X : SE2 K) : SO2 K := ⟨X.re, X.im⟩

theorem dev_eq (X : SE2 K) : dev X = SO2.dev (rotPart X) := rfl

/-- the complex part of `SE2.composeRaw` is `SO2.composeRaw` of the complex parts -/
theorem rotPart_composeRaw (X Y : SE2 K) : rotPart (composeRaw X Y) = SO2.composeRaw (rotPart X) (rotPart Y) := by
  unfold composeRaw SO2.composeRaw rotPart
  simp only
  split <;> rfl

theorem near_composeRaw (he : (Transc.eps : K) ≤ 1 / 10) {X Y : SE2 K} (hX : Near X) (hY : Near Y) :
    Near (composeRaw X Y) := by
  unfold Near at *
  rw [dev_eq, rotPart_composeRaw]
  exact SO2.near_composeRaw he (X := rotPart X) (Y := rotPart Y) hX hY

theorem near_inverseRaw {X : SE2 K} (hX : Near X) : Near (inverseRaw X) := by
  unfold Near dev inverseRaw at *
  simpa using hX

theorem make_ok_of_near (dbg : Bool) {X : SE2 K} (hX : Near X) : make dbg X.x X.y X.re X.im = .ok X := by
  have := SO2.make_ok_of_near dbg (X := rotPart X) hX
  unfold SO2.make at this
  unfold make
  cases hc : checkUnit dbg (V2.mk X.re X.im).norm with
  | error e => simp [rotPart, hc, bind, Except.bind] at this
  | ok u => simp [bind, Except.bind, pure, Except.pure]

inductive Step where
  | compose (i j dst : ℕ)
  | inverse (i dst : ℕ)

def step (dbg : Bool) (pool : List (SE2 K)) : Step → Except Err (List (SE2 K))
  | .compose i j dst =>
    match pool[i]?, pool[j]? with
    | some X, some Y => (compose dbg X Y).map fun Z => pool.set dst Z
    | _, _ => .ok pool
  | .inverse i dst =>
    match pool[i]? with
    | some X => (inverse dbg X).map fun Z => pool.set dst Z
    | none => .ok pool

def run (dbg : Bool) : List Step → List (SE2 K) → Except Err (List (SE2 K))
  | [], pool => .ok pool
  | s :: rest, pool => (step dbg pool s) >>= run dbg rest

theorem step_near (he : (Transc.eps : K) ≤ 1 / 10) (dbg : Bool) (pool : List (SE2 K))
    (h : ∀ X ∈ pool, Near X) (s : Step) :
    ∃ pool', step dbg pool s = .ok pool' ∧ ∀ X ∈ pool', Near X := by
  cases s with
  | compose i j dst =>
    rcases hi : pool[i]? with _ | X
    · exact ⟨pool, by simp [step, hi], h⟩
    rcases hj : pool[j]? with _ | Y
    · exact ⟨pool, by simp [step, hi, hj], h⟩
    · have hZ := near_composeRaw he (h X (List.mem_of_getElem? hi)) (h Y (List.mem_of_getElem? hj))
      have hok : compose dbg X Y = .ok (composeRaw X Y) := by
        unfold compose; exact make_ok_of_near dbg hZ
      refine ⟨pool.set dst (composeRaw X Y), by simp [step, hi, hj, hok, Except.map], ?_⟩
      intro W hW
      rcases List.mem_or_eq_of_mem_set hW with hW | hW
      · exact h W hW
      · rw [hW]; exact hZ
  | inverse i dst =>
    rcases hi : pool[i]? with _ | X
    · exact ⟨pool, by simp [step, hi], h⟩
    · have hZ := near_inverseRaw (h X (List.mem_of_getElem? hi))
      have hok : inverse dbg X = .ok (inverseRaw X) := by
        unfold inverse; exact make_ok_of_near dbg (X := inverseRaw X) hZ
      refine ⟨pool.set dst (inverseRaw X), by simp [step, hi, hok, Except.map], ?_⟩
      intro W hW
      rcases List.mem_or_eq_of_mem_set hW with hW | hW
      · exact h W hW
      · rw [hW]; exact hZ

/-- **SE2, every history of any length**: no exception, complex part within `eps` of unit squared norm. -/
theorem run_near (he : (Transc.eps : K) ≤ 1 / 10) (dbg : Bool) (ops : List Step) :
    ∀ pool : List (SE2 K), (∀ X ∈ pool, Near X) →
      ∃ pool', run dbg ops pool = .ok pool' ∧ ∀ X ∈ pool', Near X := by
  induction ops with
  | nil => intro pool h; exact ⟨pool, rfl, h⟩
  | cons s rest ih =>
    intro pool h
    obtain ⟨p1, h1, hn1⟩ := step_near he dbg pool h s
    obtain ⟨p2, h2, hn2⟩ := ih p1 hn1
    exact ⟨p2, by simp [run, h1, h2, bind, Except.bind], hn2⟩
end SE2
end Manif
