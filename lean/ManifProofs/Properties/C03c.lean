/-
  Properties/C03c.lean — C03, SE3 over ℝ: `exp(log X)` has exactly the translation of `X` and the
  quaternion `±X.q` (the same rigid motion) for every valid X whose rotation is above the switch-over.
  The translation part is `Jl(θ)·(Jl⁻¹(θ)·t) = t`, i.e. the C06 identity `Jl⁻¹ Jl = I` applied at
  `θ = log R`, whose hypotheses (`θ² > eps`, `sin(θ/2) ≠ 0`) are derived here from `|v|² > eps`.
-/
import ManifProofs.Properties.C03b
import ManifProofs.Properties.C06b
import Mathlib.LinearAlgebra.Matrix.NonsingularInverse
namespace Manif
open Matrix
namespace SO3

/-- facts about `log X` needed to run `exp` and the Jacobian identities on it -/
theorem log_facts (X : SO3 ℝ) (hX : Valid X)
    (h : realEps < X.q.x * X.q.x + (X.q.y * X.q.y + X.q.z * X.q.z)) :
    realEps < (log X).v.x * (log X).v.x + ((log X).v.y * (log X).v.y + (log X).v.z * (log X).v.z) ∧
    Real.sin (Real.sqrt ((log X).v.x * (log X).v.x + ((log X).v.y * (log X).v.y + (log X).v.z * (log X).v.z)) / 2) ≠ 0 := by
  obtain ⟨⟨x, y, z, w⟩⟩ := X
  simp only at h
  have hp : 0 < x * x + (y * y + z * z) := lt_trans realEps_pos h
  set s := Real.sqrt (x * x + (y * y + z * z)) with hsdef
  have hspos : 0 < s := Real.sqrt_pos.mpr hp
  have hss : s * s = x * x + (y * y + z * z) := Real.mul_self_sqrt hp.le
  have hunit : w * w + s * s = 1 := by
    have : x * x + y * y + z * z + w * w = 1 := by simpa [Valid, Quat.sqn] using hX
    nlinarith
  -- both hemispheres: log X = vec * (2α/s) with sin α = ± s
  have key : ∃ α : ℝ, (Real.sin α = s ∨ Real.sin α = -s) ∧ s ≤ |α| ∧
      log (⟨⟨x, y, z, w⟩⟩ : SO3 ℝ) = ⟨⟨x * (2 * α / s), y * (2 * α / s), z * (2 * α / s)⟩⟩ := by
    by_cases hw : w < 0
    · have hu' : (-w) * (-w) + (-s) * (-s) = 1 := by nlinarith
      refine ⟨Complex.arg ⟨-w, -s⟩, Or.inr (sin_arg_of_unit hu'), ?_, ?_⟩
      · have hαneg : Complex.arg ⟨-w, -s⟩ < 0 := by rw [Complex.arg_neg_iff]; simpa using hspos
        have := Real.sin_le (x := -Complex.arg ⟨-w, -s⟩) (by linarith)
        rw [Real.sin_neg, sin_arg_of_unit hu'] at this
        rw [abs_of_neg hαneg]; linarith
      · simp [log, Quat.vec, V3.sqNorm, sum3, V3.muls, h, hw, ← hsdef]
    · refine ⟨Complex.arg ⟨w, s⟩, Or.inl (sin_arg_of_unit hunit), ?_, ?_⟩
      · have hαnn : 0 ≤ Complex.arg ⟨w, s⟩ := by rw [Complex.arg_nonneg_iff]; exact hspos.le
        have := Real.sin_le hαnn
        rw [sin_arg_of_unit hunit] at this
        rw [abs_of_nonneg hαnn]; exact this
      · simp [log, Quat.vec, V3.sqNorm, sum3, V3.muls, h, hw, ← hsdef]
  obtain ⟨α, hsin, hαle, hlog⟩ := key
  rw [hlog]
  simp only
  have hsq := sqrt_scaled x y z (2 * α / s) s α hspos hss rfl
  have e : x * (2 * α / s) * (x * (2 * α / s)) + (y * (2 * α / s) * (y * (2 * α / s)) + z * (2 * α / s) * (z * (2 * α / s))) = (2 * α) ^ 2 := by
    have hs' : s ≠ 0 := hspos.ne'
    field_simp
    nlinarith [hss]
  refine ⟨?_, ?_⟩
  · rw [e]
    have : s ^ 2 ≤ α ^ 2 := by
      have := abs_nonneg α
      nlinarith [sq_abs α]
    nlinarith [hss, h]
  · rw [hsq]
    have e2 : 2 * |α| / 2 = |α| := by ring
    rw [e2]
    rcases abs_cases α with ⟨ha, _⟩ | ⟨ha, _⟩
    · rw [ha]; rcases hsin with hs | hs <;> rw [hs] <;> [exact hspos.ne'; exact (neg_ne_zero.mpr hspos.ne')]
    · rw [ha, Real.sin_neg]; rcases hsin with hs | hs <;> rw [hs] <;> [exact (neg_ne_zero.mpr hspos.ne'); simpa using hspos.ne']
end SO3

namespace SE3
/-- **SE3: `exp(log X)`** has the translation of `X` exactly and the quaternion `±X.q` (same
    rotation), for every valid X whose rotation is above the switch-over. -/
theorem exp_log_generic (X : SE3 ℝ) (hX : Valid X)
    (h : realEps < X.q.x * X.q.x + (X.q.y * X.q.y + X.q.z * X.q.z)) :
    (SE3T.expRaw (log X)).1 = X.t ∧
    (SE3T.expRaw (log X)).2 = if X.q.w < 0 then ⟨-X.q.x, -X.q.y, -X.q.z, -X.q.w⟩ else X.q := by
  have hXs : SO3.Valid X.asSO3 := hX
  have hq := SO3.exp_log_generic X.asSO3 hXs h
  obtain ⟨hbig, hsin⟩ := SO3.log_facts X.asSO3 hXs h
  refine ⟨?_, hq⟩
  -- translation: Jl(θ) (Jl⁻¹(θ) t) = t
  have hinv := SO3T.ljacinv_mul_ljac (SO3.log X.asSO3) hbig hsin
  have hinv' : (SO3T.ljac (SO3.log X.asSO3)).toMatrix * (SO3T.ljacinv (SO3.log X.asSO3)).toMatrix = 1 :=
    mul_eq_one_comm.mp hinv
  have : ((SO3T.ljac (SO3.log X.asSO3)).mulVec ((SO3T.ljacinv (SO3.log X.asSO3)).mulVec X.t)).toVec = X.t.toVec := by
    rw [M3.toVec_mulVec, M3.toVec_mulVec, Matrix.mulVec_mulVec, hinv', Matrix.one_mulVec]
  have e := fun i => congrFun this i
  have e0 := e 0; have e1 := e 1; have e2 := e 2
  simp only [V3.toVec, Matrix.cons_val_zero, Matrix.cons_val_one, Matrix.cons_val_two, Matrix.head_cons, Matrix.tail_cons] at e0 e1 e2
  show (SO3T.ljac (SE3T.asSO3 (log X))).mulVec (log X).lin = X.t
  have hl : SE3T.asSO3 (log X) = SO3.log X.asSO3 := rfl
  have hlin : (log X).lin = (SO3T.ljacinv (SO3.log X.asSO3)).mulVec X.t := rfl
  rw [hl, hlin]
  cases hv : (SO3T.ljac (SO3.log X.asSO3)).mulVec ((SO3T.ljacinv (SO3.log X.asSO3)).mulVec X.t) with
  | mk a b c =>
    rw [hv] at e0 e1 e2
    cases hx : X.t with
    | mk p q r =>
      rw [hx] at e0 e1 e2
      simp only at e0 e1 e2
      rw [e0, e1, e2]
end SE3
end Manif
