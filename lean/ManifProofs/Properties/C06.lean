/-
  C06 — rjac/ljac, their inverses, Adj and adj satisfy their defining identities
  (algebraic part, exact over every ordered field with lawful sin/cos).
-/
import ManifProofs.Properties.C01
import ManifProofs.Properties.C07

namespace Manif
open Matrix

variable {K : Type} [Field K] [LinearOrder K] [IsStrictOrderedRing K] [Transc K] [LawfulTransc K]

/-! ## SE2 -/
namespace SE2T

/-- **`ljac = (-t).rjac`** in both branches (the branch predicate `θ⁴ < eps` is even). -/
theorem ljac_eq_rjac_neg (t : SE2T K) : ljac t = rjac (neg t) := by
  have hs := LawfulTransc.sin_neg (K := K) t.ang
  have hc := LawfulTransc.cos_neg (K := K) t.ang
  have hsq : -t.ang * -t.ang = t.ang * t.ang := by ring
  unfold ljac rjac expJ neg coefAB
  simp only [scalar_sin, scalar_cos, scalar_lt, scalar_eps, scalar_nat, scalar_rat, hs, hc, hsq]
  by_cases h : t.ang * t.ang * (t.ang * t.ang) < Transc.eps
  · simp only [h, decide_true, if_true]
    apply M3.ext' <;> simp <;> ring
  · simp only [h, decide_false, if_false, Bool.false_eq_true]
    apply M3.ext' <;> simp <;> ring

/-- **`smallAdj`** is the matrix of `ad_t`: `hat(smallAdj t · s) = [hat t, hat s]` (C07). -/
theorem smallAdj_apply (a b : SE2T K) :
    let c := (smallAdj a).mulVec ⟨b.x, b.y, b.ang⟩
    (hat ⟨c.x, c.y, c.z⟩).toMatrix =
      (hat a).toMatrix * (hat b).toMatrix - (hat b).toMatrix * (hat a).toMatrix :=
  bracket_hat a b

end SE2T

namespace SE2

/-- **`X.adj() s` is the vector of `X hat(s) X⁻¹`**, stated without the inverse:
    `hat(Adj s) · T(X) = T(X) · hat(s)`. -/
theorem adj_apply (X : SE2 K) (hX : Valid X) (s : SE2T K) :
    let c := (adj X).mulVec ⟨s.x, s.y, s.ang⟩
    (SE2T.hat ⟨c.x, c.y, c.z⟩).toMatrix * toMat X = toMat X * (SE2T.hat s).toMatrix := by
  unfold Valid at hX
  ext i j
  fin_cases i <;> fin_cases j <;>
    simp [adj, SE2T.hat, toMat, transform, M3.mulVec, M3.toMatrix, Matrix.mul_apply,
      Fin.sum_univ_three, sum3] <;>
    (first | ring1 | linarith [hX, scale_eq hX s.x, scale_eq hX s.y, scale_eq hX s.ang, scale_eq hX (s.ang * X.x), scale_eq hX (s.ang * X.y)])

/-- **`Adj(X·Y) = Adj(X)·Adj(Y)`** on valid elements. -/
theorem adj_compose {X Y : SE2 K} (hX : Valid X) (hY : Valid Y) :
    adj (composeRaw X Y) = (adj X).mul (adj Y) := by
  rw [(valid_composeRaw hX hY).1]
  apply M3.ext' <;> simp [adj, M3.mul, sum3] <;> ring

end SE2

/-! ## SO3 -/
namespace SO3T

/-- `rjac = ljacᵀ` is how the source defines it; `ljac(-t) = ljacᵀ` because `hat` is skew and
    the coefficients depend on `θ²` only.  Together: **`ljac t = rjac (-t)`**. -/
theorem ljac_eq_rjac_neg (t : SO3T K) : ljac t = rjac (neg t) := by
  have hsq : (neg t).v.sqNorm = t.v.sqNorm := by
    simp [neg, V3.neg, V3.sqNorm, sum3]
  unfold rjac
  unfold ljac
  rw [hsq]
  by_cases h : t.v.sqNorm ≤ Transc.eps
  · simp only [scalar_le, scalar_eps, h, decide_true, if_true]
    apply M3.ext' <;>
      simp [hat, neg, V3.neg, M3.skew, M3.transpose, M3.add, M3.zip, M3.smul, M3.map, M3.one]
  · simp only [scalar_le, scalar_eps, h, decide_false, if_false, Bool.false_eq_true]
    apply M3.ext' <;>
      simp [hat, neg, V3.neg, M3.skew, M3.transpose, M3.add, M3.zip, M3.smul, M3.map, M3.one,
        M3.mul, sum3] <;> ring

theorem rjacinv_eq_ljacinv_neg (t : SO3T K) : rjacinv t = ljacinv (neg t) := by
  have hsq : (neg t).v.sqNorm = t.v.sqNorm := by
    simp [neg, V3.neg, V3.sqNorm, sum3]
  unfold rjacinv
  unfold ljacinv
  rw [hsq]
  by_cases h : t.v.sqNorm ≤ Transc.eps
  · simp only [scalar_le, scalar_eps, h, decide_true, if_true]
    apply M3.ext' <;>
      simp [hat, neg, V3.neg, M3.skew, M3.transpose, M3.sub, M3.zip, M3.smul, M3.map, M3.one]
  · simp only [scalar_le, scalar_eps, h, decide_false, if_false, Bool.false_eq_true]
    apply M3.ext' <;>
      simp [hat, neg, V3.neg, M3.skew, M3.transpose, M3.add, M3.sub, M3.zip, M3.smul, M3.map, M3.one,
        M3.mul, sum3] <;> ring

end SO3T

namespace SO3

/-- the homogeneous rotation conjugates `skew`: `R_H [s]× R_Hᵀ = |q|² [R_H s]×`. -/
theorem rotH_conj_skew (q : Quat K) (s : V3 K) :
    (q.rotH.mul (M3.skew s)).mul q.rotH.transpose = M3.smul q.sqn (M3.skew (q.rotH.mulVec s)) := by
  apply M3.ext' <;>
    simp [Quat.rotH, M3.mul, M3.skew, M3.transpose, M3.smul, M3.map, M3.mulVec, Quat.sqn, sum3] <;> ring

/-- **`X.adj() s` is the vector of `X hat(s) X⁻¹`** (`X⁻¹ = Xᵀ` on the rotation block). -/
theorem adj_apply (X : SO3 K) (hX : Valid X) (s : SO3T K) :
    SO3T.hat ⟨(adj X).mulVec s.v⟩ = (X.rotation.mul (SO3T.hat s)).mul X.rotation.transpose := by
  unfold Valid at hX
  simp only [adj, rotation, SO3T.hat, Quat.toRot_eq_rotH _ hX, rotH_conj_skew, hX]
  apply M3.ext' <;> simp [M3.smul, M3.map]

/-- **`Adj(X·Y) = Adj(X)·Adj(Y)`**. -/
theorem adj_compose {X Y : SO3 K} (hX : Valid X) (hY : Valid Y) :
    adj (⟨composeRaw X Y⟩ : SO3 K) = (adj X).mul (adj Y) := by
  rw [composeRaw_eq hX hY]
  exact Quat.toRot_mul _ _ hX hY

/-- **`rotation()` is orthonormal** on valid elements. -/
theorem rotation_orthonormal (X : SO3 K) (hX : Valid X) :
    X.rotation.mul X.rotation.transpose = M3.one ∧ X.rotation.transpose.mul X.rotation = M3.one :=
  ⟨Quat.toRot_mul_transpose _ hX, Quat.toRot_transpose_mul _ hX⟩

end SO3

end Manif
