/-
  C17 — De Casteljau: the window structure, for ALL N, d, closed (no bound).
  `dcWindows` is the index arithmetic of decasteljau.h with its `unsigned` subtractions checked.
  Proved: the rejecting inputs raise; otherwise no subtraction wraps, every window has exactly
  `d` in-bounds indices, consecutive windows overlap by one point, the number of windows is
  maximal (`(N-1)/(d-1)`, fewer than `d-1` trailing points unused), and the closed curve adds one
  window that wraps to the start.
-/
import ManifModel
import Mathlib.Tactic.Ring
import Mathlib.Tactic.Linarith
import Mathlib.Algebra.Order.Ring.Nat

namespace Manif

/-- the open windows: window `t` is `[t(d-1), …, t(d-1)+d-1]` -/
def dcSegs (N d : Nat) : List (List Nat) :=
  (List.range ((N - d) / (d - 1) + 1)).map fun t => (List.range d).map fun n => t * (d - 1) + n

/-- the closing window: the left-over tail followed by the first points -/
def dcWrap (N d : Nat) : List Nat :=
  let last := ((N - d) / (d - 1) + 1) * (d - 1)
  (List.range (N - last)).map (· + last) ++ List.range (d - (N - 1 - last) - 1)

theorem nseg_eq (N d : Nat) (hd2 : 2 ≤ d) (hdN : d ≤ N) :
    (N - d) / (d - 1) + 1 = (N - 1) / (d - 1) := by
  have hm : 0 < d - 1 := by omega
  have : N - 1 = (N - d) + (d - 1) := by omega
  rw [this, Nat.add_div_right _ hm]

/-- `nseg (d-1) ≤ N-1` and the left-over is `< d-1`: the number of windows is maximal. -/
theorem nseg_bounds (N d : Nat) (hd2 : 2 ≤ d) (hdN : d ≤ N) :
    ((N - d) / (d - 1) + 1) * (d - 1) ≤ N - 1 ∧
    N - 1 - ((N - d) / (d - 1) + 1) * (d - 1) < d - 1 := by
  have hm : 0 < d - 1 := by omega
  have h1 : (N - d) / (d - 1) * (d - 1) ≤ N - d := Nat.div_mul_le_self _ _
  have h2 : N - d < (d - 1) * ((N - d) / (d - 1) + 1) := Nat.lt_mul_div_succ _ hm
  have e : ((N - d) / (d - 1) + 1) * (d - 1) = (N - d) / (d - 1) * (d - 1) + (d - 1) := by ring
  have e2 : (d - 1) * ((N - d) / (d - 1) + 1) = (N - d) / (d - 1) * (d - 1) + (d - 1) := by ring
  rw [e]
  rw [e2] at h2
  constructor <;> omega

/-- **rejection**: fewer than three points or a degree above N raise. -/
theorem dcWindows_rejects (N d : Nat) (cl : Bool) (h : N ≤ 2 ∨ N < d) :
    dcWindows N d cl = .error .runtime_error := by
  unfold dcWindows
  rcases h with h | h
  · have : ¬ N > 2 := by omega
    simp [this, throw, throwThe, MonadExceptOf.throw, bind, Except.bind]
  · by_cases h2 : N > 2
    · have : ¬ d ≤ N := by omega
      simp [h2, this, throw, throwThe, MonadExceptOf.throw, bind, Except.bind, pure, Except.pure]
    · simp [h2, throw, throwThe, MonadExceptOf.throw, bind, Except.bind]

/-- **open curve**: exactly the windows `dcSegs`. -/
theorem dcWindows_open (N d : Nat) (hN : 2 < N) (hdN : d ≤ N) :
    dcWindows N d false = .ok (dcSegs N d) := by
  unfold dcWindows dcSegs
  simp [hN, hdN, bind, Except.bind, pure, Except.pure]

/-- **closed curve**: the same windows plus the wrapping one; **no unsigned subtraction wraps**. -/
theorem dcWindows_closed (N d : Nat) (hN : 2 < N) (hd2 : 2 ≤ d) (hdN : d ≤ N) :
    dcWindows N d true = .ok (dcSegs N d ++ [dcWrap N d]) := by
  obtain ⟨b1, b2⟩ := nseg_bounds N d hd2 hdN
  unfold dcWindows dcSegs dcWrap usub
  have c1 : ((N - d) / (d - 1) + 1) * (d - 1) ≤ N - 1 := b1
  have c2 : N - 1 - ((N - d) / (d - 1) + 1) * (d - 1) ≤ d := by omega
  have c3 : 1 ≤ d - (N - 1 - ((N - d) / (d - 1) + 1) * (d - 1)) := by omega
  simp [hN, hdN, c1, c2, c3, bind, Except.bind, pure, Except.pure]

/-- every open window has exactly `d` indices, all in bounds. -/
theorem dcSegs_windows (N d : Nat) (hd2 : 2 ≤ d) (hdN : d ≤ N) :
    ∀ w ∈ dcSegs N d, w.length = d ∧ ∀ i ∈ w, i < N := by
  obtain ⟨b1, _⟩ := nseg_bounds N d hd2 hdN
  intro w hw
  simp only [dcSegs, List.mem_map, List.mem_range] at hw
  obtain ⟨t, ht, rfl⟩ := hw
  refine ⟨by simp, ?_⟩
  intro i hi
  simp only [List.mem_map, List.mem_range] at hi
  obtain ⟨n, hn, rfl⟩ := hi
  have : t * (d - 1) ≤ ((N - d) / (d - 1)) * (d - 1) := Nat.mul_le_mul_right _ (by omega)
  have e : ((N - d) / (d - 1) + 1) * (d - 1) = (N - d) / (d - 1) * (d - 1) + (d - 1) := by ring
  omega

/-- the number of open windows is the maximal one, `(N-1)/(d-1)`. -/
theorem dcSegs_length (N d : Nat) (hd2 : 2 ≤ d) (hdN : d ≤ N) :
    (dcSegs N d).length = (N - 1) / (d - 1) := by
  simp [dcSegs, nseg_eq N d hd2 hdN]

/-- fewer than `d-1` trailing points are left unused by the open windows. -/
theorem dcSegs_leftover (N d : Nat) (hd2 : 2 ≤ d) (hdN : d ≤ N) :
    N - 1 - (dcSegs N d).length * (d - 1) < d - 1 := by
  have := (nseg_bounds N d hd2 hdN).2
  simpa [dcSegs] using this

/-- consecutive windows overlap by exactly one point: window `t+1` starts where window `t` ends. -/
theorem dcSegs_overlap (d t : Nat) (hd2 : 2 ≤ d) :
    ((List.range d).map fun n => t * (d - 1) + n).getLast? = some ((t + 1) * (d - 1)) ∧
    ((List.range d).map fun n => (t + 1) * (d - 1) + n).head? = some ((t + 1) * (d - 1)) := by
  obtain ⟨m, rfl⟩ : ∃ m, d = m + 2 := ⟨d - 2, by omega⟩
  constructor
  · rw [List.range_succ]
    simp
    ring
  · simp [List.range_succ_eq_map]

/-- the closing window has `d` in-bounds indices: it starts with the unused tail and wraps to 0. -/
theorem dcWrap_window (N d : Nat) (hd2 : 2 ≤ d) (hdN : d ≤ N) :
    (dcWrap N d).length = d ∧ ∀ i ∈ dcWrap N d, i < N := by
  obtain ⟨b1, b2⟩ := nseg_bounds N d hd2 hdN
  unfold dcWrap
  constructor
  · simp
    omega
  · intro i hi
    simp only [List.mem_append, List.mem_map, List.mem_range] at hi
    rcases hi with ⟨a, ha, rfl⟩ | hi <;> omega

/-- `segment_k_interp`: the same number of curve points for every window. -/
theorem dcSegK_pos (d k : Nat) (hd : 2 ≤ d) (hk : 0 < k) : 0 < dcSegK d k := by
  unfold dcSegK
  split
  · exact hk
  · exact Nat.mul_pos hk (by omega)

/-- non-vacuity, and the witnesses of the defect that was repaired (`floor((N-d)/d)` windows):
    N = 10, d = 2 gives 9 windows; N = 10, d = 3 closed gives 4 + 1 windows, none wrapping. -/
example : (dcSegs 10 2).length = 9 := by decide
example : dcWindows 10 3 true = .ok [[0, 1, 2], [2, 3, 4], [4, 5, 6], [6, 7, 8], [8, 9, 0]] := by decide

end Manif
