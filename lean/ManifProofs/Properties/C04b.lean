/-
  Properties/C04b.lean — C04 / C15 at the level of whole API calls (exceptions included), SO2, every
  ordered field with lawful sin/cos/atan2:
    * `X ⊕ (Y ⊖ X) = Y` exactly, no exception raised (both operands valid, either sign of the real part);
    * hence the SLERP end points: `interpolate(A, B, 1) = B`, `interpolate(A, B, 0) = A`.
-/
import ManifProofs.Properties.C04
namespace Manif
variable {K : Type} [Field K] [LinearOrder K] [IsStrictOrderedRing K] [Transc K] [LawfulTransc K]
namespace SO2

theorem compose_ok (dbg : Bool) {X Y : SO2 K} (hX : Valid X) (hY : Valid Y) :
    compose dbg X Y = .ok ⟨X.re * Y.re - X.im * Y.im, X.re * Y.im + X.im * Y.re⟩ := by
  obtain ⟨hc, hv⟩ := valid_composeRaw hX hY
  have := make_ok dbg hv
  rw [hc] at this hv
  simpa [compose, hc] using this

theorem inverse_ok (dbg : Bool) {X : SO2 K} (hX : Valid X) : inverse dbg X = .ok ⟨X.re, -X.im⟩ := by
  have hv : Valid (⟨X.re, -X.im⟩ : SO2 K) := by unfold Valid at *; simpa using hX
  simpa [inverse] using make_ok dbg hv

/-- **SO2: `X ⊕ (Y ⊖ X) = Y`** exactly (every ordered field with lawful trig), no exception raised. -/
theorem rplus_rminus (dbg : Bool) {X Y : SO2 K} (hX : Valid X) (hY : Valid Y) :
    (do let d ← so2Ops.rminus dbg Y X false false
        let r ← so2Ops.rplus dbg X d.val false false
        pure r.val) = (.ok Y : Except Err (SO2 K)) := by
  have hXi : Valid (⟨X.re, -X.im⟩ : SO2 K) := by unfold Valid at *; simpa using hX
  have hc1 := compose_ok dbg hXi hY
  have hZ : Valid (⟨X.re * Y.re - -X.im * Y.im, X.re * Y.im + -X.im * Y.re⟩ : SO2 K) := by
    unfold Valid at *
    linear_combination (Y.re * Y.re + Y.im * Y.im) * hX + hY
  have hel := exp_log dbg hZ
  have hc2 := compose_ok dbg hX hZ
  unfold Valid at hX
  have hfin : (⟨X.re * (X.re * Y.re - -X.im * Y.im) - X.im * (X.re * Y.im + -X.im * Y.re),
      X.re * (X.re * Y.im + -X.im * Y.re) + X.im * (X.re * Y.re - -X.im * Y.im)⟩ : SO2 K) = Y := by
    cases Y with
    | mk c d =>
      congr 1
      · linear_combination c * hX
      · linear_combination d * hX
  simp only [GroupOps.rminus, GroupOps.rplus, so2Ops, inverse_ok dbg hX, hc1, except_ok_bind, hel, hc2, hfin,
    bind, Except.bind, pure, Except.pure]
  rfl

/-- the pieces of `rminus` / `rplus` on valid SO2 operands -/
theorem rminusV_ok (dbg : Bool) {X Y : SO2 K} (hX : Valid X) (hY : Valid Y) :
    so2Ops.rminusV dbg Y X = .ok (log ⟨X.re * Y.re - -X.im * Y.im, X.re * Y.im + -X.im * Y.re⟩) := by
  have hXi : Valid (⟨X.re, -X.im⟩ : SO2 K) := by unfold Valid at *; simpa using hX
  have hc1 := compose_ok dbg hXi hY
  simp only [GroupOps.rminusV, GroupOps.rminus, so2Ops, inverse_ok dbg hX, hc1, bind, Except.bind, pure, Except.pure,
    Except.map]

/-- **SO2 slerp end points**: `interpolate(A, B, 1) = B` and `interpolate(A, B, 0) = A`, exactly. -/
theorem slerp_one (dbg : Bool) {A B : SO2 K} (hA : Valid A) (hB : Valid B) :
    so2Ops.interpSlerp dbg A B 1 = .ok B := by
  have hu : inUnit (1 : K) = true := by simp [inUnit]
  have hZ : Valid (⟨A.re * B.re - -A.im * B.im, A.re * B.im + -A.im * B.re⟩ : SO2 K) := by
    unfold Valid at *
    linear_combination (B.re * B.re + B.im * B.im) * hA + hB
  have hel := exp_log dbg hZ
  have hc2 := compose_ok dbg hA hZ
  unfold Valid at hA
  have hfin : (⟨A.re * (A.re * B.re - -A.im * B.im) - A.im * (A.re * B.im + -A.im * B.re),
      A.re * (A.re * B.im + -A.im * B.re) + A.im * (A.re * B.re - -A.im * B.im)⟩ : SO2 K) = B := by
    cases B with
    | mk c d =>
      congr 1
      · linear_combination c * hA
      · linear_combination d * hA
  have hA' : Valid A := hA
  unfold GroupOps.interpSlerp
  rw [rminusV_ok dbg hA' hB]
  simp only [hu, GroupOps.rplusV, GroupOps.rplus, so2Ops, mul_one,
    Bool.not_true, Bool.false_eq_true, if_false, bind, Except.bind, pure, Except.pure, Except.map]
  have hl : (⟨(log (⟨A.re * B.re - -A.im * B.im, A.re * B.im + -A.im * B.re⟩ : SO2 K)).ang⟩ : SO2T K) =
      log ⟨A.re * B.re - -A.im * B.im, A.re * B.im + -A.im * B.re⟩ := rfl
  rw [hl, hel]
  simp only [hc2, hfin]

theorem slerp_zero (dbg : Bool) {A B : SO2 K} (hA : Valid A) (hB : Valid B) :
    so2Ops.interpSlerp dbg A B 0 = .ok A := by
  have hu : inUnit (0 : K) = true := by simp [inUnit]
  have hI : Valid (⟨1, 0⟩ : SO2 K) := by simp [Valid]
  have he : SO2T.exp dbg (⟨0⟩ : SO2T K) = .ok ⟨1, 0⟩ := by
    have := make_ok dbg hI
    simpa [SO2T.exp, SO2T.expRaw, LawfulTransc.sin_zero, LawfulTransc.cos_zero] using this
  have hc2 := compose_ok dbg hA hI
  have hfin : (⟨A.re * 1 - A.im * 0, A.re * 0 + A.im * 1⟩ : SO2 K) = A := by
    cases A; simp
  unfold GroupOps.interpSlerp
  rw [rminusV_ok dbg hA hB]
  simp only [hu, GroupOps.rplusV, GroupOps.rplus, so2Ops, mul_zero,
    Bool.not_true, Bool.false_eq_true, if_false, bind, Except.bind, pure, Except.pure, Except.map, he, hc2]
  cases A; simp
end SO2
end Manif
