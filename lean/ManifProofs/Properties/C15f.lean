/-
  C15 (continued) — `interpolate(A, B, 0) = A` exactly, as a whole API call, for SE3 over ℝ (and the generic reduction:
  at `t = 0` SLERP is `A ⊕ 0`).
-/
import ManifProofs.Properties.C15e

set_option linter.all false
namespace Manif
namespace SE3

theorem rminusV_ok (dbg : Bool) {X Y : SE3 ℝ} (hX : Valid X) (hY : Valid Y) :
    ∃ d, se3Ops.rminusV dbg Y X = .ok d := by
  have hXi : Valid (⟨((SO3.mk X.q.conj).act X.t).neg, X.q.conj⟩ : SE3 ℝ) := by unfold Valid at *; simp only; rw [Quat.sqn_conj]; exact hX
  have hc1 := compose_ok dbg hXi hY
  simp only at hc1
  refine ⟨log ⟨(((⟨((SO3.mk X.q.conj).act X.t).neg, X.q.conj⟩ : SE3 ℝ).rotation.mulVec Y.t).add ((SO3.mk X.q.conj).act X.t).neg), X.q.conj.mul Y.q⟩, ?_⟩
  simp only [GroupOps.rminusV, GroupOps.rminus, se3Ops, inverse_ok dbg hX, hc1, bind, Except.bind, pure, Except.pure, Except.map]

theorem exp_zero (dbg : Bool) : SE3T.exp dbg (⟨⟨0, 0, 0⟩, ⟨0, 0, 0⟩⟩ : SE3T ℝ) = .ok ⟨⟨0, 0, 0⟩, ⟨0, 0, 0, 1⟩⟩ := by
  have hn : ¬ (realEps < 0) := not_lt.mpr realEps_pos.le
  have hI : SO3.Valid (⟨⟨0, 0, 0, 1⟩⟩ : SO3 ℝ) := by simp [SO3.Valid, Quat.sqn]
  have h1 : SO3T.exp dbg (⟨⟨0, 0, 0⟩⟩ : SO3T ℝ) = .ok ⟨⟨0, 0, 0, 1⟩⟩ := by
    have := SO3.make_ok dbg hI
    simpa [SO3T.exp, SO3T.expRaw, V3.sqNorm, sum3, hn] using this
  have hq : (⟨0, 0, 0, 1⟩ : Quat ℝ).sqn = 1 := by simp [Quat.sqn]
  have hm := make_ok' dbg (⟨0, 0, 0⟩ : V3 ℝ) hq
  unfold SE3T.exp
  simp only [SE3T.asSO3, h1, bind, Except.bind]
  have hl : (SO3T.ljac (⟨⟨0, 0, 0⟩⟩ : SO3T ℝ)).mulVec (⟨0, 0, 0⟩ : V3 ℝ) = ⟨0, 0, 0⟩ := by
    simp [M3.mulVec, sum3]
  rw [hl]
  exact hm

/-- **SE3 slerp, `t = 0`**: `interpolate(A, B, 0) = A` exactly. -/
theorem slerp_zero (dbg : Bool) {A B : SE3 ℝ} (hA : Valid A) (hB : Valid B) :
    se3Ops.interpSlerp dbg A B 0 = .ok A := by
  have hu : inUnit (0 : ℝ) = true := by simp [inUnit]
  obtain ⟨d, hd⟩ := rminusV_ok dbg hA hB
  have hI : Valid (⟨⟨0, 0, 0⟩, ⟨0, 0, 0, 1⟩⟩ : SE3 ℝ) := by simp [Valid, Quat.sqn]
  have hc2 := compose_ok dbg hA hI
  simp only at hc2
  have hq : A.q.mul ⟨0, 0, 0, 1⟩ = A.q := by cases A with | mk t q => cases q; simp [Quat.mul]
  have ht : (A.rotation.mulVec (⟨0, 0, 0⟩ : V3 ℝ)).add A.t = A.t := by
    cases A with | mk t q => cases t; simp [M3.mulVec, V3.add, sum3]
  have hz : (se3Ops (K := ℝ)).tscale d 0 = ⟨⟨0, 0, 0⟩, ⟨0, 0, 0⟩⟩ := by
    cases d with | mk l a => cases l; cases a; simp [se3Ops, V3.muls]
  unfold GroupOps.interpSlerp
  rw [hd]
  simp only [hu, GroupOps.rplusV, GroupOps.rplus, se3Ops, Bool.not_true, Bool.false_eq_true, if_false, bind, Except.bind, pure,
    Except.pure, Except.map] at hz ⊢
  rw [hz, exp_zero]
  simp only [hc2, hq, ht]
end SE3
end Manif
