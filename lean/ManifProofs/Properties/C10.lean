/-
  C10 — views over external memory behave exactly like owning objects (model part).
  For every buffer, offset and length (no bound):
    * a write through a view changes exactly the viewed window (`write_frame`), keeps the buffer
      length, and reading the window back returns what was written (`read_write`);
    * a mutating member applied through a view equals the member applied to an owning copy of the
      window, placed back in the window (`viewApply_read`), and leaves everything else untouched
      (`viewApply_frame`);
    * copy / cross-kind assignment through a view preserves coefficients exactly (`assign_exact`).
  The byte-level behaviour of Eigen::Map (alignment, vectorised loads) is runtime: the harness
  places every view at an odd offset between guard zones and the checks compare owning / Map /
  Map<const> answers bit for bit (purity.py).
-/
import ManifModel.Mem
import Mathlib.Tactic.Ring
import Mathlib.Data.List.Basic

namespace Manif.Mem
variable {K : Type}

theorem writeView_length (b : List K) (off : Nat) (v : List K) (h : off + v.length ≤ b.length) :
    (writeView b off v).length = b.length := by
  simp [writeView]
  omega

/-- **frame**: indices outside the window keep their value. -/
theorem write_frame (b : List K) (off : Nat) (v : List K) (h : off + v.length ≤ b.length) (i : Nat)
    (hi : i < off ∨ off + v.length ≤ i) : (writeView b off v)[i]? = b[i]? := by
  unfold writeView
  rcases hi with hi | hi
  · rw [List.append_assoc, List.getElem?_append_left (by simp; omega)]
    simp [List.getElem?_take, hi]
  · have h1 : (List.take off b ++ v).length = off + v.length := by simp; omega
    rw [List.getElem?_append_right (by omega), h1, List.getElem?_drop]
    congr 1
    omega

/-- **read after write** returns exactly what was written (copy / move / cross-kind assignment
    preserve coefficients exactly). -/
theorem read_write (b : List K) (off : Nat) (v : List K) (h : off + v.length ≤ b.length) :
    readView (writeView b off v) off v.length = v := by
  unfold readView writeView
  have h1 : (List.take off b).length = off := by simp; omega
  rw [List.append_assoc, List.drop_append_of_le_length (by omega), List.drop_eq_nil_of_le (by omega)]
  simp

theorem assign_exact (b : List K) (off : Nat) (src : List K) (h : off + src.length ≤ b.length) :
    readView (writeView b off src) off src.length = src := read_write b off src h

/-- a member applied through a view = the member applied to the owned copy of the window. -/
theorem viewApply_read (f : List K → List K) (b : List K) (off len : Nat)
    (hf : ∀ l, (f l).length = l.length) (h : off + len ≤ b.length) :
    readView (viewApply f b off len) off len = f (readView b off len) := by
  have hl : (readView b off len).length = len := by simp [readView]; omega
  have := read_write b off (f (readView b off len)) (by rw [hf, hl]; exact h)
  rw [hf, hl] at this
  exact this

/-- … and nothing outside the window changes. -/
theorem viewApply_frame (f : List K → List K) (b : List K) (off len : Nat)
    (hf : ∀ l, (f l).length = l.length) (h : off + len ≤ b.length) (i : Nat)
    (hi : i < off ∨ off + len ≤ i) : (viewApply f b off len)[i]? = b[i]? := by
  have hl : (readView b off len).length = len := by simp [readView]; omega
  apply write_frame
  · rw [hf, hl]; exact h
  · rw [hf, hl]; exact hi

example : viewApply (fun l => l.map (· + 1)) [9, 9, 9, 1, 2, 9, 9] 3 2 = [9, 9, 9, 2, 3, 9, 9] := by decide

end Manif.Mem
