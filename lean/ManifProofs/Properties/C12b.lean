/-
  C12 (continued) — value transparency for the 5×5 groups SE_2(3) and SGal(3), at the level of whole API calls
  (exceptions included): running the model over dual numbers and keeping the value parts equals running it on
  the value parts, for every scalar instance (no field law is used), whatever the infinitesimal parts are.
-/
import ManifProofs.Properties.C12

set_option linter.all false
namespace Manif
variable {K : Type} [Scalar K]

def SE23.vre (X : SE23 (Dual K)) : SE23 K := ⟨X.t.re, X.q.re, X.v.re⟩
def SE23T.vre (t : SE23T (Dual K)) : SE23T K := ⟨t.lin.re, t.ang.re, t.lin2.re⟩
def SGal3.vre (X : SGal3 (Dual K)) : SGal3 K := ⟨X.p.re, X.q.re, X.v.re, X.t.re⟩
def SGal3T.vre (t : SGal3T (Dual K)) : SGal3T K := ⟨t.lin.re, t.lin2.re, t.ang.re, t.t.re⟩

namespace SO3T
theorem exp_re (dbg : Bool) (t : SO3T (Dual K)) : exRe SO3.vre (exp dbg t) = exp dbg t.vre := by
  unfold exp
  rw [SO3.make_re, expRaw_re]
end SO3T

namespace SO3
theorem compose_re (dbg : Bool) (X Y : SO3 (Dual K)) : exRe vre (compose dbg X Y) = compose dbg X.vre Y.vre := by
  unfold compose
  rw [make_re, composeRaw_re]
theorem inverse_re (dbg : Bool) (X : SO3 (Dual K)) : exRe vre (inverse dbg X) = inverse dbg X.vre := by
  unfold inverse
  rw [make_re]
  rfl
end SO3

namespace SE23
theorem make_re (dbg : Bool) (t : V3 (Dual K)) (q : Quat (Dual K)) (v : V3 (Dual K)) :
    exRe vre (make dbg t q v) = make dbg t.re q.re v.re := by
  unfold make
  simp only [bind, Except.bind]
  have := checkUnit_re dbg q.norm
  have hn : (Quat.norm q).re = Quat.norm q.re := rfl
  rw [this, hn]
  cases checkUnit dbg (Quat.norm q.re) <;> rfl

theorem compose_re (dbg : Bool) (X Y : SE23 (Dual K)) : exRe vre (compose dbg X Y) = compose dbg X.vre Y.vre := by
  unfold compose
  have h := SO3.compose_re dbg X.asSO3 Y.asSO3
  have e1 : X.asSO3.vre = X.vre.asSO3 := rfl
  have e2 : Y.asSO3.vre = Y.vre.asSO3 := rfl
  rw [e1, e2] at h
  rw [← h]
  cases hc : SO3.compose dbg X.asSO3 Y.asSO3 with
  | error e => rfl
  | ok r =>
    show exRe vre (make dbg _ r.q _) = _
    rw [make_re]
    rfl

theorem inverse_re (dbg : Bool) (X : SE23 (Dual K)) : exRe vre (inverse dbg X) = inverse dbg X.vre := by
  unfold inverse
  have h := SO3.inverse_re dbg X.asSO3
  have e1 : X.asSO3.vre = X.vre.asSO3 := rfl
  rw [e1] at h
  rw [← h]
  cases hc : SO3.inverse dbg X.asSO3 with
  | error e => rfl
  | ok r =>
    show exRe vre (make dbg _ r.q _) = _
    rw [make_re]
    rfl

theorem act_re (X : SE23 (Dual K)) (p : V3 (Dual K)) : (act X p).re = act X.vre p.re := rfl

theorem log_re (X : SE23 (Dual K)) : (log X).vre = log X.vre := by
  unfold log
  have h1 := SO3.log_re X.asSO3
  have e1 : X.asSO3.vre = X.vre.asSO3 := rfl
  rw [e1] at h1
  have h2 := SO3T.ljacinv_re X.asSO3.log
  rw [h1] at h2
  unfold SE23T.vre
  congr 1
  · rw [← h2]; rfl
  · rw [← h1]; rfl
  · rw [← h2]; rfl
end SE23

namespace SE23T
theorem exp_re (dbg : Bool) (t : SE23T (Dual K)) : exRe SE23.vre (exp dbg t) = exp dbg t.vre := by
  unfold exp
  have h := SO3T.exp_re dbg t.asSO3
  have hj := SO3T.ljac_re t.asSO3
  have e1 : t.asSO3.vre = t.vre.asSO3 := rfl
  rw [e1] at h hj
  rw [← h]
  cases hc : SO3T.exp dbg t.asSO3 with
  | error e => rfl
  | ok r =>
    show exRe SE23.vre (SE23.make dbg _ r.q _) = _
    rw [SE23.make_re, ← hj]
    rfl
end SE23T

namespace SGal3T
theorem fillE_re (t : SO3T (Dual K)) : (fillE t).re = fillE t.vre := by
  have hc : Scalar.lt (t.v.sqNorm * t.v.sqNorm * t.v.sqNorm * t.v.sqNorm) (Scalar.eps : Dual K) =
      Scalar.lt (t.vre.v.sqNorm * t.vre.v.sqNorm * t.vre.v.sqNorm * t.vre.v.sqNorm) (Scalar.eps : K) := rfl
  unfold fillE
  simp only [hc]
  cases Scalar.lt (t.vre.v.sqNorm * t.vre.v.sqNorm * t.vre.v.sqNorm * t.vre.v.sqNorm) (Scalar.eps : K) <;> rfl
end SGal3T

namespace SGal3
theorem make_re (dbg : Bool) (p : V3 (Dual K)) (q : Quat (Dual K)) (v : V3 (Dual K)) (s : Dual K) :
    exRe vre (make dbg p q v s) = make dbg p.re q.re v.re s.re := by
  unfold make
  simp only [bind, Except.bind]
  have := checkUnit_re dbg q.norm
  have hn : (Quat.norm q).re = Quat.norm q.re := rfl
  rw [this, hn]
  cases checkUnit dbg (Quat.norm q.re) <;> rfl

theorem compose_re (dbg : Bool) (X Y : SGal3 (Dual K)) : exRe vre (compose dbg X Y) = compose dbg X.vre Y.vre := by
  unfold compose
  have h := SO3.compose_re dbg X.asSO3 Y.asSO3
  have e1 : X.asSO3.vre = X.vre.asSO3 := rfl
  have e2 : Y.asSO3.vre = Y.vre.asSO3 := rfl
  rw [e1, e2] at h
  rw [← h]
  cases hc : SO3.compose dbg X.asSO3 Y.asSO3 with
  | error e => rfl
  | ok r =>
    show exRe vre (make dbg _ r.q _ _) = _
    rw [make_re]
    rfl

theorem inverse_re (dbg : Bool) (X : SGal3 (Dual K)) : exRe vre (inverse dbg X) = inverse dbg X.vre := by
  unfold inverse
  have h := SO3.inverse_re dbg X.asSO3
  have e1 : X.asSO3.vre = X.vre.asSO3 := rfl
  rw [e1] at h
  rw [← h]
  cases hc : SO3.inverse dbg X.asSO3 with
  | error e => rfl
  | ok r =>
    show exRe vre (make dbg _ r.q _ _) = _
    rw [make_re]
    rfl

theorem act_re (X : SGal3 (Dual K)) (p : V3 (Dual K)) : (act X p).re = act X.vre p.re := rfl

theorem log_re (X : SGal3 (Dual K)) : (log X).vre = log X.vre := by
  unfold log
  have h1 := SO3.log_re X.asSO3
  have e1 : X.asSO3.vre = X.vre.asSO3 := rfl
  rw [e1] at h1
  have h2 := SO3T.ljacinv_re X.asSO3.log
  have h3 := SGal3T.fillE_re X.asSO3.log
  rw [h1] at h2 h3
  unfold SGal3T.vre
  simp only
  congr 1
  · rw [← h2, ← h3]; rfl
  · rw [← h2]; rfl
  · rw [← h1]; rfl
end SGal3

namespace SGal3T
theorem exp_re (dbg : Bool) (t : SGal3T (Dual K)) : exRe SGal3.vre (exp dbg t) = exp dbg t.vre := by
  unfold exp
  have h := SO3T.exp_re dbg t.asSO3
  have hj := SO3T.ljac_re t.asSO3
  have hE := fillE_re t.asSO3
  have e1 : t.asSO3.vre = t.vre.asSO3 := rfl
  rw [e1] at h hj hE
  simp only
  rw [← h]
  cases hc : SO3T.exp dbg t.asSO3 with
  | error e => rfl
  | ok r =>
    show exRe SGal3.vre (SGal3.make dbg _ r.q _ _) = _
    rw [SGal3.make_re, ← hj, ← hE]
    rfl
end SGal3T
end Manif
