/-
  C04 (continued) — SE_2(3) and SGal(3) over ℝ: `(X ⊕ t) ⊖ X = t` as whole API calls on the principal domain.
-/
import ManifProofs.Properties.C03g

set_option linter.all false
namespace Manif
namespace SE23

theorem exp_ok (dbg : Bool) (t : SE23T ℝ) (h : realEps < t.ang.x * t.ang.x + (t.ang.y * t.ang.y + t.ang.z * t.ang.z)) :
    SE23T.exp dbg t = .ok ⟨(SO3T.ljac t.asSO3).mulVec t.lin, SO3T.expRaw t.asSO3, (SO3T.ljac t.asSO3).mulVec t.lin2⟩ := by
  have hEq : (SO3T.expRaw t.asSO3).sqn = 1 := SO3.expRaw_unit t.asSO3 h
  have hexp : SO3T.exp dbg t.asSO3 = .ok ⟨SO3T.expRaw t.asSO3⟩ := by
    unfold SO3T.exp; exact SO3.make_ok dbg (X := ⟨SO3T.expRaw t.asSO3⟩) hEq
  unfold SE23T.exp
  simp only [hexp, bind, Except.bind]
  exact make_ok' dbg _ _ hEq

/-- **SE_2(3): `(X ⊕ t) ⊖ X = t`** as whole API calls. -/
theorem rminus_rplus (dbg : Bool) {X : SE23 ℝ} (hX : Valid X) (t : SE23T ℝ)
    (h : realEps < t.ang.x * t.ang.x + (t.ang.y * t.ang.y + t.ang.z * t.ang.z))
    (hpi : Real.sqrt (t.ang.x * t.ang.x + (t.ang.y * t.ang.y + t.ang.z * t.ang.z)) ≤ Real.pi)
    (hsw : realEps < Real.sin (1 / 2 * Real.sqrt (t.ang.x * t.ang.x + (t.ang.y * t.ang.y + t.ang.z * t.ang.z))) ^ 2) :
    (do let r ← se23Ops.rplus dbg X t false false
        let d ← se23Ops.rminus dbg r.val X false false
        pure d.val) = (.ok t : Except Err (SE23T ℝ)) := by
  have hEq : (SO3T.expRaw t.asSO3).sqn = 1 := SO3.expRaw_unit t.asSO3 h
  have he := exp_ok dbg t h
  set E : SE23 ℝ := ⟨(SO3T.ljac t.asSO3).mulVec t.lin, SO3T.expRaw t.asSO3, (SO3T.ljac t.asSO3).mulVec t.lin2⟩ with hEdef
  have hE : Valid E := hEq
  have hc1 := compose_ok dbg hX hE
  have hXE : Valid (⟨(X.rotation.mulVec E.t).add X.t, X.q.mul E.q, (X.rotation.mulVec E.v).add X.v⟩ : SE23 ℝ) := by
    unfold Valid at *; simp only; rw [Quat.sqn_mul, hX, hE, one_mul]
  have hXi : Valid (⟨((SO3.mk X.q.conj).act X.t).neg, X.q.conj, ((SO3.mk X.q.conj).act X.v).neg⟩ : SE23 ℝ) := by
    unfold Valid at *; simp only; rw [Quat.sqn_conj]; exact hX
  have hc2 := compose_ok dbg hXi hXE
  have hq : X.q.conj.mul (X.q.mul E.q) = E.q := SO3.conj_mul_mul _ _ hX
  have ht : ((⟨((SO3.mk X.q.conj).act X.t).neg, X.q.conj, ((SO3.mk X.q.conj).act X.v).neg⟩ : SE23 ℝ).rotation.mulVec ((X.rotation.mulVec E.t).add X.t)).add
      ((SO3.mk X.q.conj).act X.t).neg = E.t := by
    simp only [rotation, SO3.rotation, asSO3, SO3.act]; exact SE3.back' X.q hX _ _
  have hv : ((⟨((SO3.mk X.q.conj).act X.t).neg, X.q.conj, ((SO3.mk X.q.conj).act X.v).neg⟩ : SE23 ℝ).rotation.mulVec ((X.rotation.mulVec E.v).add X.v)).add
      ((SO3.mk X.q.conj).act X.v).neg = E.v := by
    simp only [rotation, SO3.rotation, asSO3, SO3.act]; exact SE3.back' X.q hX _ _
  rw [hq, ht, hv] at hc2
  have hl := log_exp dbg t h hpi hsw
  rw [he] at hl
  simp only [Except.map, Except.ok.injEq] at hl
  simp only [GroupOps.rminus, GroupOps.rplus, se23Ops, he, hc1, inverse_ok dbg hX, hc2, hl, except_ok_bind,
    bind, Except.bind, pure, Except.pure, Bool.false_eq_true, if_false, ↓reduceIte]
end SE23
end Manif
