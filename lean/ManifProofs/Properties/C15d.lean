/-
  C15 (continued) — `interpolate(A, B, 1)` is `A ⊕ (B ⊖ A)` for every record of primitives whose tangent scaling by
  one is the identity; hence, over ℝ, SE3's `interpolate(A, B, 1)` has exactly the translation of `B` and `±B.q`.
-/
import ManifProofs.Properties.C15c
import ManifProofs.Properties.C04e
set_option linter.all false
namespace Manif

/-- `interpolate(A, B, 1)` is `A ⊕ (B ⊖ A)` whenever scaling a tangent by one leaves it unchanged -/
theorem interpSlerp_one_eq {K G T J : Type} [Scalar K] (o : GroupOps K G T J) (dbg : Bool) (A B : G) (one : K)
    (h1 : ∀ d : T, o.tscale d one = d) (hu : inUnit one = true) :
    o.interpSlerp dbg A B one =
      (do let d ← o.rminus dbg B A false false
          let r ← o.rplus dbg A d.val false false
          pure r.val) := by
  unfold GroupOps.interpSlerp GroupOps.rminusV GroupOps.rplusV
  simp only [hu, Bool.not_true, Bool.false_eq_true, if_false]
  cases o.rminus dbg B A false false with
  | error e => rfl
  | ok d =>
    simp only [bind, Except.bind, Except.map, h1, pure, Except.pure]
    try (cases o.rplus dbg A d.val false false <;> rfl)

namespace SE3
theorem tscale_one (d : SE3T ℝ) : (se3Ops (K := ℝ)).tscale d 1 = d := by
  cases d with | mk l a => cases l; cases a; simp [se3Ops, V3.muls]

/-- **SE3 slerp, `t = 1`**: `interpolate(A, B, 1)` has exactly the translation of `B` and the quaternion `±B.q`. -/
theorem slerp_one (dbg : Bool) {A B : SE3 ℝ} (hA : Valid A) (hB : Valid B)
    (h : realEps < (A.q.conj.mul B.q).x * (A.q.conj.mul B.q).x +
      ((A.q.conj.mul B.q).y * (A.q.conj.mul B.q).y + (A.q.conj.mul B.q).z * (A.q.conj.mul B.q).z)) :
    se3Ops.interpSlerp dbg A B 1 =
      .ok ⟨B.t, if (A.q.conj.mul B.q).w < 0 then ⟨-B.q.x, -B.q.y, -B.q.z, -B.q.w⟩ else B.q⟩ := by
  have hu : inUnit (1 : ℝ) = true := by simp [inUnit]
  rw [interpSlerp_one_eq se3Ops dbg A B 1 tscale_one hu]
  exact rplus_rminus dbg hA hB h
end SE3
end Manif
