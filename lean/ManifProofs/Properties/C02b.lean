/-
  Properties/C02b.lean — C02 for the 5×5 groups over ℝ: on the closed-form branches the matrix of
  `exp t` is the exponential series of `hat t` (= Mathlib's `NormedSpace.exp`).
    * SE_2(3): `hat t` satisfies A⁴ = −θ²A² (as SE3), rotation R(exp θ), columns Jl ρ and Jl ν;
    * SGal(3): `hat t` satisfies A⁵ = −θ²A³; rotation R(exp θ), velocity Jl ν, position
      Jl ρ + E(ι ν) with the repaired `E = ½I + ((θ−sin θ)/θ³) W + ((θ²+2cos θ−2)/(2θ⁴)) W²`, time ι.
-/
import ManifProofs.Properties.C02
import ManifProofs.Properties.C01
import ManifProofs.Lemmas.Series2

namespace Manif
open Matrix

def hom5M (R : Matrix (Fin 3) (Fin 3) ℝ) (a b : Fin 3 → ℝ) (τ : ℝ) : Matrix (Fin 5) (Fin 5) ℝ :=
  !![R 0 0, R 0 1, R 0 2, a 0, b 0; R 1 0, R 1 1, R 1 2, a 1, b 1; R 2 0, R 2 1, R 2 2, a 2, b 2;
     0, 0, 0, 1, τ; 0, 0, 0, 0, 1]

namespace SE23T

/-- `hat` of SE_2(3) as a Mathlib matrix -/
def hat5 (t : SE23T ℝ) : Matrix (Fin 5) (Fin 5) ℝ :=
  !![0, -t.ang.z, t.ang.y, t.lin.x, t.lin2.x; t.ang.z, 0, -t.ang.x, t.lin.y, t.lin2.y;
     -t.ang.y, t.ang.x, 0, t.lin.z, t.lin2.z; 0, 0, 0, 0, 0; 0, 0, 0, 0, 0]

theorem hat5_eq_hatRows (t : SE23T ℝ) : hat5 t = matOfRows 5 t.hatRows := by
  ext i j
  fin_cases i <;> fin_cases j <;> simp [hat5, hatRows, matOfRows]

theorem hat5_quartic (t : SE23T ℝ) :
    hat5 t ^ 4 = (-(t.ang.x * t.ang.x + (t.ang.y * t.ang.y + t.ang.z * t.ang.z))) • hat5 t ^ 2 := by
  ext i j
  fin_cases i <;> fin_cases j <;>
    simp [hat5, pow_succ, Matrix.mul_apply, Fin.sum_univ_five] <;> ring

/-- 5×5 matrix with a 3×3 block, two columns, and zero last two rows -/
def blk5 (M : Matrix (Fin 3) (Fin 3) ℝ) (a b : Fin 3 → ℝ) : Matrix (Fin 5) (Fin 5) ℝ :=
  !![M 0 0, M 0 1, M 0 2, a 0, b 0; M 1 0, M 1 1, M 1 2, a 1, b 1; M 2 0, M 2 1, M 2 2, a 2, b 2;
     0, 0, 0, 0, 0; 0, 0, 0, 0, 0]

theorem blk5_mul (M N : Matrix (Fin 3) (Fin 3) ℝ) (a b c d : Fin 3 → ℝ) :
    blk5 M a b * blk5 N c d = blk5 (M * N) (M.mulVec c) (M.mulVec d) := by
  ext i j
  fin_cases i <;> fin_cases j <;>
    simp [blk5, Matrix.mul_apply, Matrix.mulVec, dotProduct, Fin.sum_univ_five, Fin.sum_univ_three]

theorem hat5_eq_blk (t : SE23T ℝ) :
    hat5 t = blk5 (SO3T.hat t.asSO3).toMatrix t.lin.toVec t.lin2.toVec := by
  ext i j
  fin_cases i <;> fin_cases j <;> simp [hat5, blk5, asSO3, SO3T.hat, M3.skew, M3.toMatrix, V3.toVec]

theorem poly_blocks (t : SE23T ℝ) (a b : ℝ) :
    1 + hat5 t + a • hat5 t ^ 2 + b • hat5 t ^ 3 =
      hom5M (1 + (SO3T.hat t.asSO3).toMatrix + a • (SO3T.hat t.asSO3).toMatrix ^ 2 + b • (SO3T.hat t.asSO3).toMatrix ^ 3)
        ((1 + a • (SO3T.hat t.asSO3).toMatrix + b • (SO3T.hat t.asSO3).toMatrix ^ 2).mulVec t.lin.toVec)
        ((1 + a • (SO3T.hat t.asSO3).toMatrix + b • (SO3T.hat t.asSO3).toMatrix ^ 2).mulVec t.lin2.toVec) 0 := by
  have h2 : hat5 t ^ 2 = blk5 ((SO3T.hat t.asSO3).toMatrix ^ 2)
      ((SO3T.hat t.asSO3).toMatrix.mulVec t.lin.toVec) ((SO3T.hat t.asSO3).toMatrix.mulVec t.lin2.toVec) := by
    rw [pow_two, pow_two, hat5_eq_blk, blk5_mul]
  have h3 : hat5 t ^ 3 = blk5 ((SO3T.hat t.asSO3).toMatrix ^ 3)
      (((SO3T.hat t.asSO3).toMatrix ^ 2).mulVec t.lin.toVec) (((SO3T.hat t.asSO3).toMatrix ^ 2).mulVec t.lin2.toVec) := by
    rw [pow_succ, h2, hat5_eq_blk, blk5_mul, ← pow_succ]
  rw [h2, h3, hat5_eq_blk]
  generalize (SO3T.hat t.asSO3).toMatrix = W
  generalize t.lin.toVec = r
  generalize t.lin2.toVec = n
  ext i j
  fin_cases i <;> fin_cases j <;>
    simp [blk5, hom5M, Matrix.add_mulVec, Matrix.smul_mulVec, Matrix.one_mulVec, Pi.add_apply, Pi.smul_apply, smul_eq_mul, Matrix.one_apply] <;> ring

/-- **SE_2(3), generic branch**: the 5×5 matrix of `exp t` — rotation `R(exp θ)`, translation
    `Jl(θ)·ρ`, velocity `Jl(θ)·ν` — is the exponential series of `hat t`. -/
theorem exp_series (t : SE23T ℝ) (h : realEps < t.ang.x * t.ang.x + (t.ang.y * t.ang.y + t.ang.z * t.ang.z)) :
    HasExpSum (hat5 t)
      (hom5M (Quat.toRot (SO3T.expRaw t.asSO3)).toMatrix (t.asSO3.ljac.mulVec t.lin).toVec
        (t.asSO3.ljac.mulVec t.lin2).toVec 0) := by
  have hp : 0 < t.ang.x * t.ang.x + (t.ang.y * t.ang.y + t.ang.z * t.ang.z) := lt_trans realEps_pos h
  have hθpos : 0 < Real.sqrt (t.ang.x * t.ang.x + (t.ang.y * t.ang.y + t.ang.z * t.ang.z)) := Real.sqrt_pos.mpr hp
  have hθ2 : Real.sqrt (t.ang.x * t.ang.x + (t.ang.y * t.ang.y + t.ang.z * t.ang.z)) ^ 2 =
      t.ang.x * t.ang.x + (t.ang.y * t.ang.y + t.ang.z * t.ang.z) := Real.sq_sqrt hp.le
  have hq : hat5 t ^ 4 =
      (-(Real.sqrt (t.ang.x * t.ang.x + (t.ang.y * t.ang.y + t.ang.z * t.ang.z)) ^ 2)) • hat5 t ^ 2 := by
    rw [hθ2]; exact hat5_quartic t
  have key := hasExpSum_of_quartic (hat5 t) _ hθpos.ne' hq
  convert key using 1
  have hcube := SO3T.hat_cube t.asSO3
  have hrot := SO3T.rot_expRaw t.asSO3 h
  have hjac := SO3T.ljac_generic t.asSO3 h
  simp only [asSO3] at hcube hrot hjac
  rw [M3.toVec_mulVec, M3.toVec_mulVec]
  simp only [asSO3]
  rw [hrot, hjac, poly_blocks]
  simp only [asSO3]
  congr 1
  generalize Real.sqrt (t.ang.x * t.ang.x + (t.ang.y * t.ang.y + t.ang.z * t.ang.z)) = θ at hθpos hθ2 ⊢
  rw [hcube, ← hθ2, smul_smul]
  have : (θ - Real.sin θ) / θ ^ 3 * -θ ^ 2 = Real.sin θ / θ - 1 := by field_simp; ring
  rw [this, sub_smul, one_smul]
  abel
end SE23T


/-- `[[M, a, b], [0, 0, τ], [0, 0, 0]]` -/
def gal5 (M : Matrix (Fin 3) (Fin 3) ℝ) (a b : Fin 3 → ℝ) (τ : ℝ) : Matrix (Fin 5) (Fin 5) ℝ :=
  !![M 0 0, M 0 1, M 0 2, a 0, b 0; M 1 0, M 1 1, M 1 2, a 1, b 1; M 2 0, M 2 1, M 2 2, a 2, b 2;
     0, 0, 0, 0, τ; 0, 0, 0, 0, 0]

theorem gal5_mul (M N : Matrix (Fin 3) (Fin 3) ℝ) (a b c d : Fin 3 → ℝ) (τ σ : ℝ) :
    gal5 M a b τ * gal5 N c d σ = gal5 (M * N) (M.mulVec c) (M.mulVec d + σ • a) 0 := by
  ext i j
  fin_cases i <;> fin_cases j <;>
    simp [gal5, Matrix.mul_apply, Matrix.mulVec, dotProduct, Fin.sum_univ_five, Fin.sum_univ_three] <;> ring

theorem gal5_smul (k : ℝ) (M : Matrix (Fin 3) (Fin 3) ℝ) (a b : Fin 3 → ℝ) :
    k • gal5 M a b 0 = gal5 (k • M) (k • a) (k • b) 0 := by
  ext i j
  fin_cases i <;> fin_cases j <;> simp [gal5]

/-- powers of a Galilean algebra element -/
theorem gal5_sq (W : Matrix (Fin 3) (Fin 3) ℝ) (n r : Fin 3 → ℝ) (ι : ℝ) :
    gal5 W n r ι ^ 2 = gal5 (W ^ 2) (W.mulVec n) (W.mulVec r + ι • n) 0 := by
  rw [pow_two, gal5_mul, ← pow_two]

theorem gal5_pow_succ (W : Matrix (Fin 3) (Fin 3) ℝ) (n r : Fin 3 → ℝ) (ι : ℝ) (k : ℕ)
    (M : Matrix (Fin 3) (Fin 3) ℝ) (a b : Fin 3 → ℝ) (h : gal5 W n r ι ^ k = gal5 M a b 0) :
    gal5 W n r ι ^ (k + 1) = gal5 (M * W) (M.mulVec n) (M.mulVec r + ι • a) 0 := by
  rw [pow_succ, h, gal5_mul]

theorem gal5_cube (W : Matrix (Fin 3) (Fin 3) ℝ) (n r : Fin 3 → ℝ) (ι : ℝ) :
    gal5 W n r ι ^ 3 = gal5 (W ^ 3) ((W ^ 2).mulVec n) ((W ^ 2).mulVec r + ι • W.mulVec n) 0 := by
  rw [gal5_pow_succ W n r ι 2 _ _ _ (gal5_sq W n r ι), ← pow_succ]

theorem gal5_fourth (W : Matrix (Fin 3) (Fin 3) ℝ) (n r : Fin 3 → ℝ) (ι : ℝ) :
    gal5 W n r ι ^ 4 = gal5 (W ^ 4) ((W ^ 3).mulVec n) ((W ^ 3).mulVec r + ι • (W ^ 2).mulVec n) 0 := by
  rw [gal5_pow_succ W n r ι 3 _ _ _ (gal5_cube W n r ι), ← pow_succ]

theorem gal5_fifth (W : Matrix (Fin 3) (Fin 3) ℝ) (n r : Fin 3 → ℝ) (ι : ℝ) :
    gal5 W n r ι ^ 5 = gal5 (W ^ 5) ((W ^ 4).mulVec n) ((W ^ 4).mulVec r + ι • (W ^ 3).mulVec n) 0 := by
  rw [gal5_pow_succ W n r ι 4 _ _ _ (gal5_fourth W n r ι), ← pow_succ]

/-- the quintic relation from the cubic one of the rotation block -/
theorem gal5_quintic (W : Matrix (Fin 3) (Fin 3) ℝ) (n r : Fin 3 → ℝ) (ι θ2 : ℝ) (hW : W ^ 3 = (-θ2) • W) :
    gal5 W n r ι ^ 5 = (-θ2) • gal5 W n r ι ^ 3 := by
  have h4 : W ^ 4 = (-θ2) • W ^ 2 := by rw [show (4 : ℕ) = 3 + 1 from rfl, pow_succ, hW, smul_mul_assoc, pow_two]
  have h5 : W ^ 5 = (-θ2) • W ^ 3 := by
    rw [show (5 : ℕ) = 4 + 1 from rfl, pow_succ, h4, smul_mul_assoc, ← pow_succ]
  rw [gal5_fifth, gal5_cube, gal5_smul, h5, h4]
  congr 1
  · rw [Matrix.smul_mulVec]
  · rw [hW, Matrix.smul_mulVec, Matrix.smul_mulVec, smul_add, smul_comm]

theorem one_add_gal5 (M0 M1 M2 M3 M4 : Matrix (Fin 3) (Fin 3) ℝ) (a1 a2 a3 a4 b1 b2 b3 b4 : Fin 3 → ℝ)
    (ι k2 k3 k4 : ℝ) (hM0 : M0 = 1) :
    1 + gal5 M1 a1 b1 ι + k2 • gal5 M2 a2 b2 0 + k3 • gal5 M3 a3 b3 0 + k4 • gal5 M4 a4 b4 0 =
      hom5M (M0 + M1 + k2 • M2 + k3 • M3 + k4 • M4) (a1 + k2 • a2 + k3 • a3 + k4 • a4)
        (b1 + k2 • b2 + k3 • b3 + k4 • b4) ι := by
  subst hM0
  ext i j
  fin_cases i <;> fin_cases j <;> simp [gal5, hom5M, Matrix.one_apply]

namespace SGal3T

noncomputable def hat5 (t : SGal3T ℝ) : Matrix (Fin 5) (Fin 5) ℝ :=
  gal5 (SO3T.hat t.asSO3).toMatrix t.lin2.toVec t.lin.toVec t.t

theorem hat5_eq_hatRows (t : SGal3T ℝ) : hat5 t = matOfRows 5 t.hatRows := by
  ext i j
  fin_cases i <;> fin_cases j <;>
    simp [hat5, gal5, hatRows, matOfRows, asSO3, SO3T.hat, M3.skew, M3.toMatrix, V3.toVec]

/-- `fillE` in its closed-form branch, as a polynomial in `hat θ` -/
theorem fillE_generic (so3 : SO3T ℝ)
    (hE : ¬ (so3.v.x * so3.v.x + (so3.v.y * so3.v.y + so3.v.z * so3.v.z)) *
        (so3.v.x * so3.v.x + (so3.v.y * so3.v.y + so3.v.z * so3.v.z)) *
        (so3.v.x * so3.v.x + (so3.v.y * so3.v.y + so3.v.z * so3.v.z)) *
        (so3.v.x * so3.v.x + (so3.v.y * so3.v.y + so3.v.z * so3.v.z)) < realEps) :
    (fillE so3).toMatrix =
      (1 / 2 : ℝ) • 1 +
        ((Real.sqrt (so3.v.x * so3.v.x + (so3.v.y * so3.v.y + so3.v.z * so3.v.z)) -
            Real.sin (Real.sqrt (so3.v.x * so3.v.x + (so3.v.y * so3.v.y + so3.v.z * so3.v.z)))) /
          (so3.v.x * so3.v.x + (so3.v.y * so3.v.y + so3.v.z * so3.v.z)) /
            Real.sqrt (so3.v.x * so3.v.x + (so3.v.y * so3.v.y + so3.v.z * so3.v.z))) • (SO3T.hat so3).toMatrix +
        (((so3.v.x * so3.v.x + (so3.v.y * so3.v.y + so3.v.z * so3.v.z)) +
            2 * Real.cos (Real.sqrt (so3.v.x * so3.v.x + (so3.v.y * so3.v.y + so3.v.z * so3.v.z))) - 2) /
          (2 * (so3.v.x * so3.v.x + (so3.v.y * so3.v.y + so3.v.z * so3.v.z)) *
            (so3.v.x * so3.v.x + (so3.v.y * so3.v.y + so3.v.z * so3.v.z)))) • (SO3T.hat so3).toMatrix ^ 2 := by
  unfold fillE
  simp only [V3.sqNorm, sum3, scalar_lt, scalar_eps, transc_eps_real, hE, decide_false, Bool.false_eq_true, if_false,
    Scalar.sgal3EAB, M3.toMatrix_add, M3.toMatrix_smul, M3.toMatrix_mul, scalar_sqrt, transc_sqrt_real, scalar_sin,
    transc_sin_real, scalar_cos, transc_cos_real, scalar_ofNat, scalar_nat, scalar_rat, Nat.cast_ofNat, Nat.cast_one,
    smul_mul_assoc, pow_two]
  congr 2
  ext i j
  fin_cases i <;> fin_cases j <;> simp [M3.toMatrix, Matrix.one_apply]


/-- **SGal(3), closed-form branches** (`θ² > eps` and `θ⁸ ≥ eps`): the 5×5 matrix of `exp t` —
    rotation `R(exp θ)`, velocity `Jl ν`, position `Jl ρ + E (ι ν)`, time `ι` — is the exponential
    series of `hat t`. -/
theorem exp_series (t : SGal3T ℝ) (h : realEps < t.ang.x * t.ang.x + (t.ang.y * t.ang.y + t.ang.z * t.ang.z))
    (hE : ¬ (t.ang.x * t.ang.x + (t.ang.y * t.ang.y + t.ang.z * t.ang.z)) *
        (t.ang.x * t.ang.x + (t.ang.y * t.ang.y + t.ang.z * t.ang.z)) *
        (t.ang.x * t.ang.x + (t.ang.y * t.ang.y + t.ang.z * t.ang.z)) *
        (t.ang.x * t.ang.x + (t.ang.y * t.ang.y + t.ang.z * t.ang.z)) < realEps) :
    HasExpSum (hat5 t)
      (hom5M (Quat.toRot (SO3T.expRaw t.asSO3)).toMatrix (t.asSO3.ljac.mulVec t.lin2).toVec
        ((t.asSO3.ljac.mulVec t.lin).add ((fillE t.asSO3).mulVec (t.lin2.smul t.t))).toVec t.t) := by
  have hp : 0 < t.ang.x * t.ang.x + (t.ang.y * t.ang.y + t.ang.z * t.ang.z) := lt_trans realEps_pos h
  have hθpos : 0 < Real.sqrt (t.ang.x * t.ang.x + (t.ang.y * t.ang.y + t.ang.z * t.ang.z)) := Real.sqrt_pos.mpr hp
  have hθ2 : Real.sqrt (t.ang.x * t.ang.x + (t.ang.y * t.ang.y + t.ang.z * t.ang.z)) ^ 2 =
      t.ang.x * t.ang.x + (t.ang.y * t.ang.y + t.ang.z * t.ang.z) := Real.sq_sqrt hp.le
  have hcube := SO3T.hat_cube t.asSO3
  have hrot := SO3T.rot_expRaw t.asSO3 h
  have hjac := SO3T.ljac_generic t.asSO3 h
  have hfE := fillE_generic t.asSO3 hE
  simp only [asSO3] at hcube hrot hjac hfE
  have hq : hat5 t ^ 5 =
      (-(Real.sqrt (t.ang.x * t.ang.x + (t.ang.y * t.ang.y + t.ang.z * t.ang.z)) ^ 2)) • hat5 t ^ 3 := by
    rw [hθ2]; exact gal5_quintic _ _ _ _ _ hcube
  have key := hasExpSum_of_quintic (hat5 t) _ hθpos.ne' hq
  convert key using 1
  -- the right-hand side, block by block
  unfold hat5
  rw [gal5_sq, gal5_cube, gal5_fourth, one_add_gal5 1 _ _ _ _ _ _ _ _ _ _ _ _ _ _ _ _ rfl]
  simp only [asSO3]
  rw [V3.toVec_add, M3.toVec_mulVec, M3.toVec_mulVec, M3.toVec_mulVec, hrot, hjac, hfE]
  have hW4 : (SO3T.hat (⟨t.ang⟩ : SO3T ℝ)).toMatrix ^ 4 =
      (-(t.ang.x * t.ang.x + (t.ang.y * t.ang.y + t.ang.z * t.ang.z))) • (SO3T.hat (⟨t.ang⟩ : SO3T ℝ)).toMatrix ^ 2 := by
    rw [show (4 : ℕ) = 3 + 1 from rfl, pow_succ, hcube, smul_mul_assoc, pow_two]
  have hsmul : (t.lin2.smul t.t).toVec = t.t • t.lin2.toVec := by
    ext i; fin_cases i <;> simp [V3.smul, V3.toVec]
  rw [hsmul, hcube, hW4]
  generalize (SO3T.hat (⟨t.ang⟩ : SO3T ℝ)).toMatrix = W at *
  generalize t.lin2.toVec = n
  generalize t.lin.toVec = r
  generalize Real.sqrt (t.ang.x * t.ang.x + (t.ang.y * t.ang.y + t.ang.z * t.ang.z)) = θ at hθpos hθ2 ⊢
  rw [← hθ2]
  have hθ0 : θ ≠ 0 := hθpos.ne'
  have k1 : (1 : ℝ) - (θ - Real.sin θ) / θ ^ 3 * θ ^ 2 = Real.sin θ / θ := by field_simp; ring
  have k2 : (1 / 2 : ℝ) - (Real.cos θ - 1 + θ ^ 2 / 2) / θ ^ 4 * θ ^ 2 = (1 - Real.cos θ) / θ ^ 2 := by
    field_simp; ring
  have k3 : (θ - Real.sin θ) / θ ^ 2 / θ = (θ - Real.sin θ) / θ ^ 3 := by field_simp
  have k4 : (θ ^ 2 + 2 * Real.cos θ - 2) / (2 * θ ^ 2 * θ ^ 2) = (Real.cos θ - 1 + θ ^ 2 / 2) / θ ^ 4 := by
    field_simp; ring
  rw [k3, k4]
  congr 1
  · -- rotation block
    simp only [smul_smul]
    rw [← k1, ← k2]
    module
  · -- velocity column
    simp only [Matrix.add_mulVec, Matrix.smul_mulVec, Matrix.one_mulVec, smul_smul]
    rw [← k2]
    module
  · -- position column
    simp only [Matrix.add_mulVec, Matrix.smul_mulVec, Matrix.one_mulVec, smul_smul, Matrix.mulVec_smul, smul_add]
    rw [← k2]
    module
end SGal3T

/-- the matrix exponentials themselves -/
theorem SE23T.exp_eq_matrix_exp (t : SE23T ℝ) (h : realEps < t.ang.x * t.ang.x + (t.ang.y * t.ang.y + t.ang.z * t.ang.z)) :
    NormedSpace.exp (SE23T.hat5 t) =
      hom5M (Quat.toRot (SO3T.expRaw t.asSO3)).toMatrix (t.asSO3.ljac.mulVec t.lin).toVec
        (t.asSO3.ljac.mulVec t.lin2).toVec 0 :=
  (SE23T.exp_series t h).exp_eq

theorem SGal3T.exp_eq_matrix_exp (t : SGal3T ℝ) (h : realEps < t.ang.x * t.ang.x + (t.ang.y * t.ang.y + t.ang.z * t.ang.z))
    (hE : ¬ (t.ang.x * t.ang.x + (t.ang.y * t.ang.y + t.ang.z * t.ang.z)) *
        (t.ang.x * t.ang.x + (t.ang.y * t.ang.y + t.ang.z * t.ang.z)) *
        (t.ang.x * t.ang.x + (t.ang.y * t.ang.y + t.ang.z * t.ang.z)) *
        (t.ang.x * t.ang.x + (t.ang.y * t.ang.y + t.ang.z * t.ang.z)) < realEps) :
    NormedSpace.exp (SGal3T.hat5 t) =
      hom5M (Quat.toRot (SO3T.expRaw t.asSO3)).toMatrix (t.asSO3.ljac.mulVec t.lin2).toVec
        ((t.asSO3.ljac.mulVec t.lin).add ((SGal3T.fillE t.asSO3).mulVec (t.lin2.smul t.t))).toVec t.t :=
  (SGal3T.exp_series t h hE).exp_eq

end Manif
