/-
  Properties/C12.lean — generic in the scalar: the dual-number instantiation is *value
  transparent*.

  For every scalar instance `K` (no field laws are used: the statements hold verbatim for the
  executable `Float` and `Float32` instances as well as for ℝ and ℚ) and every modelled
  operation `f`, running the same model code over `Dual K` and keeping the value parts gives
  exactly what `f` gives on the value parts:

        re (f x) = f (re x)              — for ALL dual inputs, whatever their infinitesimal parts.

  In particular every branch (small-angle switch, quaternion hemisphere, renormalisation,
  validity check and hence the raised exception) is decided identically.  Together with the
  dual-part theorems of Properties/C05.lean (`f (X ⊞ εd) = f X ⊞ ε(J d)`) this is the model-side
  content of C12; the implementation side (manif over a Jet scalar, the ceres functors through
  raw pointers, the float instantiation vs the `Float32` model) is tied by tools/jets.py.
-/
import ManifModel
import Mathlib.Tactic.SplitIfs

namespace Manif
open Scalar
variable {K : Type} [Scalar K]

/-! ### the value-part projection commutes with every scalar operation, by `rfl` -/
namespace Dual
@[simp] theorem re_add (a b : Dual K) : (a + b).re = a.re + b.re := rfl
@[simp] theorem re_sub (a b : Dual K) : (a - b).re = a.re - b.re := rfl
@[simp] theorem re_mul (a b : Dual K) : (a * b).re = a.re * b.re := rfl
@[simp] theorem re_div (a b : Dual K) : (a / b).re = a.re / b.re := rfl
@[simp] theorem re_neg (a : Dual K) : (-a).re = -a.re := rfl
@[simp] theorem re_ofNat (n : Nat) : (Scalar.ofNat n : Dual K).re = Scalar.ofNat n := rfl
@[simp] theorem re_nat (n : Nat) : (nat n : Dual K).re = nat n := rfl
@[simp] theorem re_rat (n d : Nat) : (rat n d : Dual K).re = rat n d := rfl
@[simp] theorem re_sin (a : Dual K) : (Scalar.sin a).re = Scalar.sin a.re := rfl
@[simp] theorem re_cos (a : Dual K) : (Scalar.cos a).re = Scalar.cos a.re := rfl
@[simp] theorem re_sinUnq (a : Dual K) : (Scalar.sinUnq a).re = Scalar.sinUnq a.re := rfl
@[simp] theorem re_cosUnq (a : Dual K) : (Scalar.cosUnq a).re = Scalar.cosUnq a.re := rfl
@[simp] theorem re_sqrt (a : Dual K) : (Scalar.sqrt a).re = Scalar.sqrt a.re := rfl
@[simp] theorem re_atan2 (a b : Dual K) : (Scalar.atan2 a b).re = Scalar.atan2 a.re b.re := rfl
@[simp] theorem re_abs (a : Dual K) : (Scalar.abs a).re = Scalar.abs a.re := rfl
@[simp] theorem re_eps : (Scalar.eps : Dual K).re = Scalar.eps := rfl
@[simp] theorem re_so3LogJCoeff (a b : Dual K) :
    (Scalar.so3LogJCoeff a b).re = Scalar.so3LogJCoeff a.re b.re := rfl
@[simp] theorem lt_re (a b : Dual K) : Scalar.lt a b = Scalar.lt a.re b.re := rfl
@[simp] theorem le_re (a b : Dual K) : Scalar.le a b = Scalar.le a.re b.re := rfl
@[simp] theorem gt_re (a b : Dual K) : Scalar.gt a b = Scalar.gt a.re b.re := rfl
@[simp] theorem re_min (a b : Dual K) : (Scalar.min a b).re = Scalar.min a.re b.re := by
  unfold Scalar.min; simp only [lt_re]; split <;> rfl
@[simp] theorem re_max (a b : Dual K) : (Scalar.max a b).re = Scalar.max a.re b.re := by
  unfold Scalar.max; simp only [lt_re]; split <;> rfl
@[simp] theorem re_ite (c : Prop) [Decidable c] (a b : Dual K) :
    (if c then a else b).re = if c then a.re else b.re := by split <;> rfl
@[simp] theorem re_lift (a : K) : (Dual.lift a).re = a := rfl
end Dual

/-! ### value parts of the containers -/
def V2.re (v : V2 (Dual K)) : V2 K := ⟨v.x.re, v.y.re⟩
def V3.re (v : V3 (Dual K)) : V3 K := ⟨v.x.re, v.y.re, v.z.re⟩
def Quat.re (q : Quat (Dual K)) : Quat K := ⟨q.x.re, q.y.re, q.z.re, q.w.re⟩
def M2.re (m : M2 (Dual K)) : M2 K := ⟨m.a00.re, m.a01.re, m.a10.re, m.a11.re⟩
def M3.re (m : M3 (Dual K)) : M3 K :=
  ⟨m.a00.re, m.a01.re, m.a02.re, m.a10.re, m.a11.re, m.a12.re, m.a20.re, m.a21.re, m.a22.re⟩
def SO2.vre (X : SO2 (Dual K)) : SO2 K := ⟨X.re.re, X.im.re⟩
def SO2T.vre (t : SO2T (Dual K)) : SO2T K := ⟨t.ang.re⟩
def SE2.vre (X : SE2 (Dual K)) : SE2 K := ⟨X.x.re, X.y.re, X.re.re, X.im.re⟩
def SE2T.vre (t : SE2T (Dual K)) : SE2T K := ⟨t.x.re, t.y.re, t.ang.re⟩
def SO3.vre (X : SO3 (Dual K)) : SO3 K := ⟨X.q.re⟩
def SO3T.vre (t : SO3T (Dual K)) : SO3T K := ⟨t.v.re⟩

/-- value part of a possibly-raising result: the exception is kept. -/
def exRe {A B : Type} (f : A → B) : Except Err A → Except Err B
  | .ok a => .ok (f a)
  | .error e => .error e

/-! ### the unit-norm check decides on value parts -/
theorem checkUnit_re (dbg : Bool) (n : Dual K) : checkUnit dbg n = checkUnit dbg n.re := by
  unfold checkUnit
  simp only [Dual.lt_re, Dual.re_abs, Dual.re_sub, Dual.re_nat, Dual.re_eps]

theorem approxSqrtInv_re (a : Dual K) : (approxSqrtInv a).re = approxSqrtInv a.re := by
  unfold approxSqrtInv
  simp only [Dual.re_mul, Dual.re_sub, Dual.re_add, Dual.re_nat, Dual.re_rat, Dual.re_div]

/-! ## SO2 -/
namespace SO2
theorem make_re (dbg : Bool) (a b : Dual K) : exRe vre (make dbg a b) = make dbg a.re b.re := by
  unfold make
  simp only [V2.norm, V2.sqNorm, bind, Except.bind]
  have := checkUnit_re dbg (Scalar.sqrt (a * a + b * b))
  simp only [Dual.re_sqrt, Dual.re_add, Dual.re_mul] at this
  rw [this]
  cases checkUnit dbg (Scalar.sqrt (a.re * a.re + b.re * b.re)) <;> rfl

theorem composeRaw_re (X Y : SO2 (Dual K)) : (composeRaw X Y).vre = composeRaw X.vre Y.vre := by
  unfold composeRaw vre
  simp only [Dual.gt_re, Dual.re_abs, Dual.re_sub, Dual.re_add, Dual.re_mul, Dual.re_nat, Dual.re_eps]
  split <;> simp [approxSqrtInv_re]

theorem inverseRaw_re (X : SO2 (Dual K)) : (inverseRaw X).vre = inverseRaw X.vre := rfl
theorem log_re (X : SO2 (Dual K)) : (log X).vre = log X.vre := rfl
theorem act_re (X : SO2 (Dual K)) (v : V2 (Dual K)) : (act X v).re = act X.vre v.re := rfl
theorem rotation_re (X : SO2 (Dual K)) : (rotation X).re = rotation X.vre := rfl
end SO2
theorem SO2T.expRaw_re (t : SO2T (Dual K)) : (SO2T.expRaw t).vre = SO2T.expRaw t.vre := rfl

/-! ## SE2 -/
namespace SE2
theorem composeRaw_re (X Y : SE2 (Dual K)) : (composeRaw X Y).vre = composeRaw X.vre Y.vre := by
  unfold composeRaw vre
  simp only [Dual.gt_re, Dual.re_abs, Dual.re_sub, Dual.re_add, Dual.re_mul, Dual.re_nat, Dual.re_eps]
  split <;> simp [approxSqrtInv_re]

theorem inverseRaw_re (X : SE2 (Dual K)) : (inverseRaw X).vre = inverseRaw X.vre := rfl
theorem act_re (X : SE2 (Dual K)) (v : V2 (Dual K)) : (act X v).re = act X.vre v.re := rfl
theorem adj_re (X : SE2 (Dual K)) : (adj X).re = adj X.vre := rfl
end SE2

namespace SE2T
theorem coefAB_re (a b c : Dual K) :
    ((coefAB a b c).1.re, (coefAB a b c).2.re) = coefAB a.re b.re c.re := by
  unfold coefAB
  simp only [Dual.lt_re, Dual.re_mul, Dual.re_eps]
  split <;> rfl

theorem expRaw_re (t : SE2T (Dual K)) : (expRaw t).vre = expRaw t.vre := by
  have h := coefAB_re t.ang (Scalar.cos t.ang) (Scalar.sin t.ang)
  simp only [Dual.re_cos, Dual.re_sin, Prod.ext_iff] at h
  unfold expRaw SE2.vre SE2T.vre
  simp only [Dual.re_sub, Dual.re_add, Dual.re_mul, Dual.re_cos, Dual.re_sin, h.1, h.2]
end SE2T

theorem SE2.log_re (X : SE2 (Dual K)) : (SE2.log X).vre = SE2.log X.vre := by
  have h := SE2T.coefAB_re (SE2.angle X) X.re X.im
  simp only [Prod.ext_iff] at h
  unfold SE2.log SE2T.vre SE2.vre
  simp only [SE2.angle] at h ⊢
  simp only [Dual.re_sub, Dual.re_add, Dual.re_mul, Dual.re_div, Dual.re_atan2, Dual.re_neg, Dual.re_nat,
    Dual.re_ofNat, h.1, h.2]

/-! ## SO3 -/
theorem V3.sqNorm_re (v : V3 (Dual K)) : (V3.sqNorm v).re = V3.sqNorm v.re := rfl
theorem Quat.sqNorm_re (q : Quat (Dual K)) : (Quat.sqNorm q).re = Quat.sqNorm q.re := rfl
theorem Quat.mul_re (p q : Quat (Dual K)) : (Quat.mul p q).re = Quat.mul p.re q.re := rfl

theorem V3.normalized_re (v : V3 (Dual K)) : (V3.normalized v).re = V3.normalized v.re := by
  have hc : Scalar.gt v.sqNorm (nat 0 : Dual K) = Scalar.gt v.re.sqNorm (nat 0 : K) := rfl
  unfold V3.normalized
  simp only [hc]
  cases Scalar.gt v.re.sqNorm (nat 0 : K) <;> rfl

theorem Quat.normalized_re (q : Quat (Dual K)) : (Quat.normalized q).re = Quat.normalized q.re := by
  have hc : Scalar.gt q.sqNorm (nat 0 : Dual K) = Scalar.gt q.re.sqNorm (nat 0 : K) := rfl
  unfold Quat.normalized
  simp only [hc]
  cases Scalar.gt q.re.sqNorm (nat 0 : K) <;> rfl

theorem Quat.ofAngleAxis_re (a : Dual K) (v : V3 (Dual K)) :
    (Quat.ofAngleAxis a v).re = Quat.ofAngleAxis a.re v.re := rfl

namespace SO3T
theorem expRaw_re (t : SO3T (Dual K)) : (expRaw t).re = expRaw t.vre := by
  have hc : Scalar.gt t.v.sqNorm (Scalar.eps : Dual K) = Scalar.gt t.vre.v.sqNorm (Scalar.eps : K) := rfl
  unfold expRaw
  simp only [hc]
  cases Scalar.gt t.vre.v.sqNorm (Scalar.eps : K)
  · rfl
  · simp only [if_true, Quat.ofAngleAxis_re, V3.normalized_re]
    rfl
end SO3T

namespace SO3
theorem composeRaw_re (X Y : SO3 (Dual K)) : (composeRaw X Y).re = composeRaw X.vre Y.vre := by
  have hc : Scalar.gt (Scalar.abs ((X.q.mul Y.q).sqNorm - nat 1)) (Scalar.eps : Dual K) =
      Scalar.gt (Scalar.abs ((X.vre.q.mul Y.vre.q).sqNorm - nat 1)) (Scalar.eps : K) := rfl
  unfold composeRaw
  simp only [hc]
  cases Scalar.gt (Scalar.abs ((X.vre.q.mul Y.vre.q).sqNorm - nat 1)) (Scalar.eps : K)
  · rfl
  · show (Quat.scale _ _).re = Quat.scale _ _
    simp only [Quat.scale, Quat.re, Dual.re_mul, approxSqrtInv_re]
    rfl

theorem inverseRaw_re (X : SO3 (Dual K)) : (inverseRaw X).re = inverseRaw X.vre := rfl
theorem rotation_re (X : SO3 (Dual K)) : (rotation X).re = rotation X.vre := rfl
theorem act_re (X : SO3 (Dual K)) (v : V3 (Dual K)) : (act X v).re = act X.vre v.re := rfl

theorem log_re (X : SO3 (Dual K)) : (log X).vre = log X.vre := by
  have hc : Scalar.gt X.q.vec.sqNorm (Scalar.eps : Dual K) = Scalar.gt X.vre.q.vec.sqNorm (Scalar.eps : K) := rfl
  have hw : Scalar.lt X.q.w (nat 0 : Dual K) = Scalar.lt X.vre.q.w (nat 0 : K) := rfl
  unfold log
  simp only [hc, hw]
  cases Scalar.gt X.vre.q.vec.sqNorm (Scalar.eps : K) <;> cases Scalar.lt X.vre.q.w (nat 0 : K) <;> rfl

/-- the unit-norm validation (hence the raised exception) is decided on value parts. -/
theorem make_re (dbg : Bool) (q : Quat (Dual K)) : exRe vre (make dbg q) = make dbg q.re := by
  unfold make
  simp only [bind, Except.bind]
  have := checkUnit_re dbg q.norm
  have hn : (Quat.norm q).re = Quat.norm q.re := rfl
  rw [this, hn]
  cases checkUnit dbg (Quat.norm q.re) <;> rfl
end SO3

/-! ## SE3 (through the SO3 lemmas) -/
def SE3.vre (X : SE3 (Dual K)) : SE3 K := ⟨X.t.re, X.q.re⟩
def SE3T.vre (t : SE3T (Dual K)) : SE3T K := ⟨t.lin.re, t.ang.re⟩

namespace SO3T
theorem ljac_re (t : SO3T (Dual K)) : (ljac t).re = ljac t.vre := by
  have hc : Scalar.le t.v.sqNorm (Scalar.eps : Dual K) = Scalar.le t.vre.v.sqNorm (Scalar.eps : K) := rfl
  unfold ljac
  simp only [hc]
  cases Scalar.le t.vre.v.sqNorm (Scalar.eps : K) <;> rfl

theorem ljacinv_re (t : SO3T (Dual K)) : (ljacinv t).re = ljacinv t.vre := by
  have hc : Scalar.le t.v.sqNorm (Scalar.eps : Dual K) = Scalar.le t.vre.v.sqNorm (Scalar.eps : K) := rfl
  unfold ljacinv
  simp only [hc]
  cases Scalar.le t.vre.v.sqNorm (Scalar.eps : K) <;> rfl
end SO3T

namespace SE3T
theorem expRaw_re (t : SE3T (Dual K)) :
    ((expRaw t).1.re, (expRaw t).2.re) = expRaw t.vre := by
  unfold expRaw
  have h1 := SO3T.ljac_re t.asSO3
  have h2 := SO3T.expRaw_re t.asSO3
  have e : t.asSO3.vre = t.vre.asSO3 := rfl
  rw [e] at h1 h2
  rw [← h1, ← h2]
  rfl
end SE3T

namespace SE3
theorem composeRaw_re (X Y : SE3 (Dual K)) :
    ((composeRaw X Y).1.re, (composeRaw X Y).2.re) = composeRaw X.vre Y.vre := by
  unfold composeRaw
  have h := SO3.composeRaw_re X.asSO3 Y.asSO3
  have e1 : X.asSO3.vre = X.vre.asSO3 := rfl
  have e2 : Y.asSO3.vre = Y.vre.asSO3 := rfl
  rw [e1, e2] at h
  rw [← h]
  rfl
theorem inverseRaw_re (X : SE3 (Dual K)) :
    ((inverseRaw X).1.re, (inverseRaw X).2.re) = inverseRaw X.vre := rfl
theorem act_re (X : SE3 (Dual K)) (v : V3 (Dual K)) : (act X v).re = act X.vre v.re := rfl
theorem log_re (X : SE3 (Dual K)) : (log X).vre = log X.vre := by
  unfold log
  have h1 := SO3.log_re X.asSO3
  have e1 : X.asSO3.vre = X.vre.asSO3 := rfl
  rw [e1] at h1
  have h2 := SO3T.ljacinv_re X.asSO3.log
  rw [h1] at h2
  unfold SE3T.vre
  congr 1
  · rw [← h2]; rfl
  · rw [← h1]; rfl
end SE3

end Manif
