/-
  C03 (continued) — SE2 over ℝ: `log(exp t) = t` for `−π < θ ≤ π` (both branches of the small-angle switch), provided
  the `(A, B)` pair of `exp` is non-degenerate (always in the Taylor branch; `cos θ ≠ 1` otherwise).
-/
import ManifProofs.Properties.C04k

set_option linter.all false
namespace Manif
namespace SE2

theorem log_exp (t : SE2T ℝ) (h1 : -Real.pi < t.ang) (h2 : t.ang ≤ Real.pi)
    (hAB : (SE2T.coefAB t.ang (Real.cos t.ang) (Real.sin t.ang)).1 * (SE2T.coefAB t.ang (Real.cos t.ang) (Real.sin t.ang)).1 +
      (SE2T.coefAB t.ang (Real.cos t.ang) (Real.sin t.ang)).2 * (SE2T.coefAB t.ang (Real.cos t.ang) (Real.sin t.ang)).2 ≠ 0) :
    log (SE2T.expRaw t) = t := by
  obtain ⟨x, y, θ⟩ := t
  simp only at h1 h2 hAB
  have hang : (SE2T.expRaw (⟨x, y, θ⟩ : SE2T ℝ)).angle = θ := by
    have := SO2.angle_exp θ h1 h2
    simpa [angle, SE2T.expRaw, SO2.angle, SO2T.expRaw] using this
  rcases hp : SE2T.coefAB θ (Real.cos θ) (Real.sin θ) with ⟨A, B⟩
  rw [hp] at hAB
  simp only at hAB
  have hre : (SE2T.expRaw (⟨x, y, θ⟩ : SE2T ℝ)).re = Real.cos θ := by simp [SE2T.expRaw]
  have him : (SE2T.expRaw (⟨x, y, θ⟩ : SE2T ℝ)).im = Real.sin θ := by simp [SE2T.expRaw]
  have hx : (SE2T.expRaw (⟨x, y, θ⟩ : SE2T ℝ)).x = A * x - B * y := by simp [SE2T.expRaw, hp]
  have hy : (SE2T.expRaw (⟨x, y, θ⟩ : SE2T ℝ)).y = B * x + A * y := by simp [SE2T.expRaw, hp]
  unfold log
  simp only [hang, hre, him, hp, hx, hy, scalar_nat, Nat.cast_one]
  have hD : A * A + B * B ≠ 0 := hAB
  have hD' : A ^ 2 + B ^ 2 ≠ 0 := by rw [pow_two, pow_two]; exact hD
  congr 1
  · field_simp; ring
  · field_simp; ring
end SE2
end Manif
