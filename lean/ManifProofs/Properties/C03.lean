/-
  C03 — log is the principal inverse of exp on every valid element.
  Algebraic part (every ordered field with lawful sin/cos/atan2): `exp (log X) = X` on the
  coefficients for SO2 and SE2 (both branches of the small-angle switch).
-/
import ManifProofs.Properties.C01

namespace Manif
open Matrix

variable {K : Type} [Field K] [LinearOrder K] [IsStrictOrderedRing K] [Transc K] [LawfulTransc K]

namespace SO2
/-- **SO2: `exp(log X) = X`** exactly, for every valid X (either sign of the real part). -/
theorem exp_log (dbg : Bool) {X : SO2 K} (hX : Valid X) : SO2T.exp dbg (log X) = .ok X := by
  have h := hX
  unfold Valid at h
  have := make_ok dbg hX
  simpa [SO2T.exp, log, angle, LawfulTransc.cos_atan2 _ _ h, LawfulTransc.sin_atan2 _ _ h] using this
end SO2

namespace SE2

/-- the `(A, B)` pair never degenerates: in the Taylor branch `A ≥ 5/6`. -/
theorem coefAB_small_pos {θ c s : K} (h : θ * θ * (θ * θ) < Transc.eps) :
    0 < (SE2T.coefAB θ c s).1 * (SE2T.coefAB θ c s).1 + (SE2T.coefAB θ c s).2 * (SE2T.coefAB θ c s).2 := by
  have he : (Transc.eps : K) < 1 := LawfulTransc.eps_lt_one
  have h1 : θ * θ < 1 := by
    by_contra hh
    push_neg at hh
    have : 1 ≤ θ * θ * (θ * θ) := by nlinarith
    linarith
  have hA : (SE2T.coefAB θ c s).1 = 1 - 1 / 6 * (θ * θ) := by simp [SE2T.coefAB, h]
  have hApos : 0 < (SE2T.coefAB θ c s).1 := by rw [hA]; nlinarith [mul_self_nonneg θ]
  have := mul_pos hApos hApos
  nlinarith [mul_self_nonneg (SE2T.coefAB θ c s).2]

theorem rot_inv (A B x y : K) (hD : A * A + B * B ≠ 0) :
    A * (A * (1 / (A * A + B * B)) * x + B * (1 / (A * A + B * B)) * y)
        - B * (-(B * (1 / (A * A + B * B))) * x + A * (1 / (A * A + B * B)) * y) = x ∧
    B * (A * (1 / (A * A + B * B)) * x + B * (1 / (A * A + B * B)) * y)
        + A * (-(B * (1 / (A * A + B * B))) * x + A * (1 / (A * A + B * B)) * y) = y := by
  have hD' : A ^ 2 + B ^ 2 ≠ 0 := by simpa [sq] using hD
  have hD'' : B ^ 2 + A ^ 2 ≠ 0 := by rwa [add_comm]
  constructor <;> field_simp <;> ring

/-- **SE2: `exp(log X) = X`** on the coefficients, provided the `(A,B)` pair is non-degenerate
    (`A² + B² ≠ 0`: automatic in the Taylor branch by `coefAB_small_pos`; in the generic branch
    it says `cos θ ≠ 1` for `θ ≠ 0`). -/
theorem exp_log (dbg : Bool) {X : SE2 K} (hX : Valid X)
    (hAB : (SE2T.coefAB X.angle X.re X.im).1 * (SE2T.coefAB X.angle X.re X.im).1 +
      (SE2T.coefAB X.angle X.re X.im).2 * (SE2T.coefAB X.angle X.re X.im).2 ≠ 0) :
    SE2T.exp dbg (log X) = .ok X := by
  have h := hX
  unfold Valid at h
  have hc : Transc.cos X.angle = X.re := by simp [angle, LawfulTransc.cos_atan2 _ _ h]
  have hs : Transc.sin X.angle = X.im := by simp [angle, LawfulTransc.sin_atan2 _ _ h]
  have hm := make_ok dbg hX
  rcases hp : SE2T.coefAB X.angle X.re X.im with ⟨A, B⟩
  rw [hp] at hAB
  simp only at hAB
  obtain ⟨e1, e2⟩ := rot_inv A B X.x X.y hAB
  simp only [SE2T.exp, SE2T.expRaw, log, scalar_sin, scalar_cos, scalar_nat, hc, hs, hp, Nat.cast_one]
  rw [e1, e2]
  exact hm

/-- in the Taylor branch the hypothesis of `exp_log` holds automatically. -/
theorem exp_log_small (dbg : Bool) {X : SE2 K} (hX : Valid X)
    (hb : X.angle * X.angle * (X.angle * X.angle) < Transc.eps) :
    SE2T.exp dbg (log X) = .ok X :=
  exp_log dbg hX (ne_of_gt (coefAB_small_pos hb))

end SE2

end Manif
