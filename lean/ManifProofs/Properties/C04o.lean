/-
  C04 (continued) — `between` as whole API calls over ℝ:
    SO3, SE3: `X.compose(X.between(Y)) = Y` exactly (no log involved, hence no sign ambiguity), no exception raised.
-/
import ManifProofs.Properties.C04e

set_option linter.all false
namespace Manif
namespace SO3

/-- **SO3: `X * X.between(Y) = Y`** exactly, as whole API calls. -/
theorem compose_between (dbg : Bool) {X Y : SO3 ℝ} (hX : Valid X) (hY : Valid Y) :
    (do let b ← so3Ops.between dbg X Y false false
        so3Ops.compose dbg X b.val) = (.ok Y : Except Err (SO3 ℝ)) := by
  have hXi : Valid (⟨X.q.conj⟩ : SO3 ℝ) := by unfold Valid at *; rw [Quat.sqn_conj]; exact hX
  have hc1 := compose_ok dbg hXi hY
  have hZ : Valid (⟨X.q.conj.mul Y.q⟩ : SO3 ℝ) := by unfold Valid at *; rw [Quat.sqn_mul, Quat.sqn_conj, hX, hY, one_mul]
  have hc2 := compose_ok dbg hX hZ
  simp only at hc1 hc2
  rw [mul_conj_mul _ _ hX] at hc2
  simp only [GroupOps.between, so3Ops, inverse_ok dbg hX, hc1, except_ok_bind, hc2,
    bind, Except.bind, pure, Except.pure, Bool.false_eq_true, if_false, ↓reduceIte]
end SO3

namespace SE3
/-- **SE3: `X * X.between(Y) = Y`** exactly, as whole API calls. -/
theorem compose_between (dbg : Bool) {X Y : SE3 ℝ} (hX : Valid X) (hY : Valid Y) :
    (do let b ← se3Ops.between dbg X Y false false
        se3Ops.compose dbg X b.val) = (.ok Y : Except Err (SE3 ℝ)) := by
  have hXi : Valid (⟨((SO3.mk X.q.conj).act X.t).neg, X.q.conj⟩ : SE3 ℝ) := by unfold Valid at *; simp only; rw [Quat.sqn_conj]; exact hX
  have hc1 := compose_ok dbg hXi hY
  simp only at hc1
  set Z : SE3 ℝ := ⟨((⟨((SO3.mk X.q.conj).act X.t).neg, X.q.conj⟩ : SE3 ℝ).rotation.mulVec Y.t).add ((SO3.mk X.q.conj).act X.t).neg,
    X.q.conj.mul Y.q⟩ with hZdef
  have hZ : Valid Z := by unfold Valid at *; simp only [hZdef]; rw [Quat.sqn_mul, Quat.sqn_conj, hX, hY, one_mul]
  have hc2 := compose_ok dbg hX hZ
  have hq : X.q.mul Z.q = Y.q := by
    simp only [hZdef]; rw [SO3.mul_conj_mul _ _ hX]
  have ht : (X.rotation.mulVec Z.t).add X.t = Y.t := by
    have hr1 := rot_rot_conj X.q hX Y.t
    have hr2 := rot_rot_conj X.q hX X.t
    simp only [hZdef, rotation, SO3.rotation, asSO3, SO3.act]
    cases hY' : Y.t with
    | mk y0 y1 y2 =>
      cases hX' : X.t with
      | mk x0 x1 x2 =>
        rw [hY'] at hr1; rw [hX'] at hr2
        simp only [M3.mulVec, V3.add, V3.neg, sum3, V3.mk.injEq] at hr1 hr2 ⊢
        obtain ⟨a1, a2, a3⟩ := hr1
        obtain ⟨b1, b2, b3⟩ := hr2
        refine ⟨?_, ?_, ?_⟩
        · linear_combination a1 - b1
        · linear_combination a2 - b2
        · linear_combination a3 - b3
  rw [hq, ht] at hc2
  simp only [GroupOps.between, se3Ops, inverse_ok dbg hX, hc1, except_ok_bind, hc2,
    bind, Except.bind, pure, Except.pure, Bool.false_eq_true, if_false, ↓reduceIte]
end SE3
end Manif
