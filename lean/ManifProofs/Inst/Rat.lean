/-
  Inst/Rat.lean — the model instantiated at the exact scalar ℚ.  The transcendental slots are
  filled with placeholders (ℚ has no sqrt/sin); every theorem that is stated for an arbitrary
  ordered field *without* `LawfulTransc` applies to this instance verbatim — that is the
  "exact when instantiated over an exact scalar" clause.  Used for non-vacuity examples.
-/
import ManifProofs.Inst.Field
import Mathlib.Data.Rat.Defs
import Mathlib.Algebra.Order.Field.Rat

namespace Manif
instance : Transc ℚ where
  sin := fun _ => 0
  cos := fun _ => 1
  sqrt := fun x => x
  atan2 := fun _ _ => 0
  eps := 1 / 1000000
end Manif
