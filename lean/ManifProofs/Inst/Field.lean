/-
  Inst/Field.lean — the model's `Scalar` class instantiated at an arbitrary linearly ordered
  field `K` whose transcendental operations (`sin cos sqrt atan2`) and threshold `eps` are
  supplied by a `Transc K` structure.  Algebraic theorems are proved for *every* such `K`
  (ℚ included: they never unfold `sin`…), which is the "exact when instantiated over an exact
  scalar" clause of the properties; analytic theorems use the `Transc ℝ` instance of
  `Inst/Real.lean`.
-/
import ManifModel
import Mathlib.Algebra.Order.Field.Basic
import Mathlib.Algebra.Order.AbsoluteValue.Basic

namespace Manif

/-- transcendental operations + threshold, as data. -/
class Transc (K : Type) where
  sin : K → K
  cos : K → K
  sqrt : K → K
  atan2 : K → K → K
  eps : K

instance instScalarOfField {K : Type} [Field K] [LinearOrder K] [Transc K] : Scalar K where
  ofNat n := (n : K)
  sin := Transc.sin
  cos := Transc.cos
  sqrt := Transc.sqrt
  atan2 := Transc.atan2
  abs x := |x|
  lt a b := decide (a < b)
  le a b := decide (a ≤ b)
  eps := Transc.eps

section bridge
variable {K : Type} [Field K] [LinearOrder K] [Transc K]

@[simp] theorem scalar_ofNat (n : ℕ) : (Scalar.ofNat n : K) = (n : K) := rfl
@[simp] theorem scalar_nat (n : ℕ) : (Scalar.nat n : K) = (n : K) := rfl
@[simp] theorem scalar_rat (n d : ℕ) : (Scalar.rat n d : K) = (n : K) / (d : K) := rfl
@[simp] theorem scalar_sin (a : K) : Scalar.sin a = Transc.sin a := rfl
@[simp] theorem scalar_cos (a : K) : Scalar.cos a = Transc.cos a := rfl
@[simp] theorem scalar_sqrt (a : K) : Scalar.sqrt a = Transc.sqrt a := rfl
@[simp] theorem scalar_atan2 (a b : K) : Scalar.atan2 a b = Transc.atan2 a b := rfl
@[simp] theorem scalar_abs (a : K) : Scalar.abs a = |a| := rfl
@[simp] theorem scalar_lt (a b : K) : Scalar.lt a b = decide (a < b) := rfl
@[simp] theorem scalar_le (a b : K) : Scalar.le a b = decide (a ≤ b) := rfl
@[simp] theorem scalar_gt (a b : K) : Scalar.gt a b = decide (b < a) := rfl
@[simp] theorem scalar_eps : (Scalar.eps : K) = Transc.eps := rfl
end bridge

end Manif
