/-
  Inst/Real.lean — `Transc ℝ` with Mathlib's functions; `atan2 y x := Complex.arg (x + y i)`.
-/
import ManifProofs.Inst.Laws
import Mathlib.Analysis.SpecialFunctions.Complex.Arg
import Mathlib.Analysis.SpecialFunctions.Sqrt

namespace Manif

/-- `Constants<double>::eps = 100 · 2⁻⁵²` as a real number. -/
noncomputable def realEps : ℝ := 100 / 2 ^ 52

noncomputable instance : Transc ℝ where
  sin := Real.sin
  cos := Real.cos
  sqrt := Real.sqrt
  atan2 y x := Complex.arg ⟨x, y⟩
  eps := realEps

@[simp] theorem transc_sin_real (a : ℝ) : Transc.sin a = Real.sin a := rfl
@[simp] theorem transc_cos_real (a : ℝ) : Transc.cos a = Real.cos a := rfl
@[simp] theorem transc_sqrt_real (a : ℝ) : Transc.sqrt a = Real.sqrt a := rfl
@[simp] theorem transc_atan2_real (y x : ℝ) : Transc.atan2 y x = Complex.arg ⟨x, y⟩ := rfl
@[simp] theorem transc_eps_real : (Transc.eps : ℝ) = realEps := rfl

theorem realEps_pos : 0 < realEps := by unfold realEps; positivity
theorem realEps_lt_one : realEps < 1 := by unfold realEps; norm_num

theorem norm_mk_of_unit {x y : ℝ} (h : x * x + y * y = 1) : ‖(⟨x, y⟩ : ℂ)‖ = 1 := by
  have : ‖(⟨x, y⟩ : ℂ)‖ ^ 2 = 1 := by
    rw [← Complex.normSq_eq_norm_sq]; simp [Complex.normSq_apply, h]
  have h0 : 0 ≤ ‖(⟨x, y⟩ : ℂ)‖ := norm_nonneg _
  nlinarith [sq_nonneg (‖(⟨x, y⟩ : ℂ)‖ - 1), sq_nonneg (‖(⟨x, y⟩ : ℂ)‖ + 1)]

theorem cos_arg_of_unit {x y : ℝ} (h : x * x + y * y = 1) : Real.cos (Complex.arg ⟨x, y⟩) = x := by
  have hn := norm_mk_of_unit h
  have hne : (⟨x, y⟩ : ℂ) ≠ 0 := by
    intro h0; rw [h0] at hn; simp at hn
  rw [Complex.cos_arg hne, hn]; simp

theorem sin_arg_of_unit {x y : ℝ} (h : x * x + y * y = 1) : Real.sin (Complex.arg ⟨x, y⟩) = y := by
  have hn := norm_mk_of_unit h
  rw [Complex.sin_arg, hn]; simp

instance : LawfulTransc ℝ where
  eps_pos := realEps_pos
  eps_lt_one := realEps_lt_one
  sqrt_one := Real.sqrt_one
  sqrt_nonneg := Real.sqrt_nonneg
  sqrt_mul_self := fun a h => Real.mul_self_sqrt h
  sin_sq_add_cos_sq := fun a => by
    have := Real.sin_sq_add_cos_sq a; simp only [transc_sin_real, transc_cos_real]; nlinarith
  sin_zero := Real.sin_zero
  cos_zero := Real.cos_zero
  sin_neg := Real.sin_neg
  cos_neg := Real.cos_neg
  cos_atan2 := fun x y h => cos_arg_of_unit h
  sin_atan2 := fun x y h => sin_arg_of_unit h

end Manif
