/-
  Inst/Laws.lean — what the algebraic proofs consume about the transcendental operations,
  as a `Prop` class over an arbitrary ordered field (hypotheses, not axioms: `Inst/Real.lean`
  proves the instance for ℝ with Mathlib's `Real.sin`, `Real.cos`, `Real.sqrt`, `Complex.arg`).
-/
import ManifProofs.Inst.Field

namespace Manif

class LawfulTransc (K : Type) [Field K] [LinearOrder K] [IsStrictOrderedRing K] [Transc K] : Prop where
  eps_pos : (0 : K) < Transc.eps
  eps_lt_one : (Transc.eps : K) < 1
  sqrt_one : Transc.sqrt (1 : K) = 1
  sqrt_nonneg : ∀ a : K, 0 ≤ Transc.sqrt a
  sqrt_mul_self : ∀ a : K, 0 ≤ a → Transc.sqrt a * Transc.sqrt a = a
  sin_sq_add_cos_sq : ∀ a : K, Transc.sin a * Transc.sin a + Transc.cos a * Transc.cos a = 1
  sin_zero : Transc.sin (0 : K) = 0
  cos_zero : Transc.cos (0 : K) = 1
  sin_neg : ∀ a : K, Transc.sin (-a) = -Transc.sin a
  cos_neg : ∀ a : K, Transc.cos (-a) = Transc.cos a
  /-- `atan2` returns the argument of a unit complex number -/
  cos_atan2 : ∀ x y : K, x * x + y * y = 1 → Transc.cos (Transc.atan2 y x) = x
  sin_atan2 : ∀ x y : K, x * x + y * y = 1 → Transc.sin (Transc.atan2 y x) = y

end Manif
