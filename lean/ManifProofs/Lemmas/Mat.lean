/-
  Lemmas/Mat.lean — the model's fixed-size structures as Mathlib matrices, and the fact that
  the modelled Eigen kernels (with their particular summation order) are the ring operations.
-/
import ManifProofs.Inst.Laws
import Mathlib.LinearAlgebra.Matrix.Notation
import Mathlib.Data.Matrix.Block
import Mathlib.Tactic.Ring
import Mathlib.Tactic.FinCases
import Mathlib.Tactic.LinearCombination

namespace Manif
open Matrix

/-- unfold model definitions and turn the model's numerals into field numerals, nothing else
    (plain `simp` would also rewrite equations, e.g. cancel common factors). -/
macro "msimp" "[" ds:Lean.Parser.Tactic.simpLemma,* "]" : tactic =>
  `(tactic| simp only [$ds,*, scalar_nat, scalar_rat, scalar_ofNat, Nat.cast_ofNat, Nat.cast_one,
      Nat.cast_zero, sum3, sum4])

variable {K : Type} [Field K] [LinearOrder K] [Transc K]

def V2.toVec (v : V2 K) : Fin 2 → K := ![v.x, v.y]
def V3.toVec (v : V3 K) : Fin 3 → K := ![v.x, v.y, v.z]
def M2.toMatrix (m : M2 K) : Matrix (Fin 2) (Fin 2) K := !![m.a00, m.a01; m.a10, m.a11]
def M3.toMatrix (m : M3 K) : Matrix (Fin 3) (Fin 3) K :=
  !![m.a00, m.a01, m.a02; m.a10, m.a11, m.a12; m.a20, m.a21, m.a22]

@[ext] theorem M3.ext' {a b : M3 K} (h00 : a.a00 = b.a00) (h01 : a.a01 = b.a01) (h02 : a.a02 = b.a02)
    (h10 : a.a10 = b.a10) (h11 : a.a11 = b.a11) (h12 : a.a12 = b.a12)
    (h20 : a.a20 = b.a20) (h21 : a.a21 = b.a21) (h22 : a.a22 = b.a22) : a = b := by
  cases a; cases b; simp_all

theorem M3.toMatrix_injective : Function.Injective (M3.toMatrix (K := K)) := by
  intro a b h
  have e := fun i j => congrFun (congrFun h i) j
  apply M3.ext'
  · exact e 0 0
  · exact e 0 1
  · exact e 0 2
  · exact e 1 0
  · exact e 1 1
  · exact e 1 2
  · exact e 2 0
  · exact e 2 1
  · exact e 2 2

@[simp] theorem M3.toMatrix_mul (a b : M3 K) : (a.mul b).toMatrix = a.toMatrix * b.toMatrix := by
  ext i j
  fin_cases i <;> fin_cases j <;>
    simp [M3.mul, M3.toMatrix, Matrix.mul_apply, Fin.sum_univ_three, sum3] <;> ring

@[simp] theorem M3.toMatrix_one : (M3.one : M3 K).toMatrix = 1 := by
  ext i j
  fin_cases i <;> fin_cases j <;> simp [M3.one, M3.toMatrix]

@[simp] theorem M3.toMatrix_zero : (M3.zero : M3 K).toMatrix = 0 := by
  ext i j
  fin_cases i <;> fin_cases j <;> simp [M3.zero, M3.toMatrix]

@[simp] theorem M3.toMatrix_add (a b : M3 K) : (a.add b).toMatrix = a.toMatrix + b.toMatrix := by
  ext i j
  fin_cases i <;> fin_cases j <;> simp [M3.add, M3.zip, M3.toMatrix]

@[simp] theorem M3.toMatrix_sub (a b : M3 K) : (a.sub b).toMatrix = a.toMatrix - b.toMatrix := by
  ext i j
  fin_cases i <;> fin_cases j <;> simp [M3.sub, M3.zip, M3.toMatrix]

@[simp] theorem M3.toMatrix_neg (a : M3 K) : a.neg.toMatrix = -a.toMatrix := by
  ext i j
  fin_cases i <;> fin_cases j <;> simp [M3.neg, M3.map, M3.toMatrix]

@[simp] theorem M3.toMatrix_smul (s : K) (a : M3 K) : (M3.smul s a).toMatrix = s • a.toMatrix := by
  ext i j
  fin_cases i <;> fin_cases j <;> simp [M3.smul, M3.map, M3.toMatrix]

@[simp] theorem M3.toMatrix_transpose (a : M3 K) : a.transpose.toMatrix = a.toMatrixᵀ := by
  ext i j
  fin_cases i <;> fin_cases j <;> simp [M3.transpose, M3.toMatrix]

@[simp] theorem M3.toVec_mulVec (a : M3 K) (v : V3 K) :
    (a.mulVec v).toVec = a.toMatrix.mulVec v.toVec := by
  ext i
  fin_cases i <;>
    simp [M3.mulVec, M3.toMatrix, V3.toVec, Matrix.mulVec, dotProduct, Fin.sum_univ_three, sum3] <;> ring

@[simp] theorem V3.toVec_add (a b : V3 K) : (a.add b).toVec = a.toVec + b.toVec := by
  ext i; fin_cases i <;> simp [V3.add, V3.toVec]
@[simp] theorem V3.toVec_neg (a : V3 K) : a.neg.toVec = -a.toVec := by
  ext i; fin_cases i <;> simp [V3.neg, V3.toVec]

@[simp] theorem M2.toMatrix_mul (a b : M2 K) : (a.mul b).toMatrix = a.toMatrix * b.toMatrix := by
  ext i j
  fin_cases i <;> fin_cases j <;>
    simp [M2.mul, M2.toMatrix, Matrix.mul_apply, Fin.sum_univ_two]

@[simp] theorem M2.toVec_mulVec (a : M2 K) (v : V2 K) :
    (a.mulVec v).toVec = a.toMatrix.mulVec v.toVec := by
  ext i
  fin_cases i <;>
    simp [M2.mulVec, M2.toMatrix, V2.toVec, Matrix.mulVec, dotProduct, Fin.sum_univ_two]

/-- 6×6 block matrix as a Mathlib block matrix. -/
def M6.toMatrix (m : M6 K) : Matrix (Fin 3 ⊕ Fin 3) (Fin 3 ⊕ Fin 3) K :=
  Matrix.fromBlocks m.tl.toMatrix m.tr.toMatrix m.bl.toMatrix m.br.toMatrix

@[simp] theorem M6.toMatrix_mul (a b : M6 K) : (a.mul b).toMatrix = a.toMatrix * b.toMatrix := by
  simp [M6.mul, M6.toMatrix, Matrix.fromBlocks_multiply]

@[simp] theorem M6.toMatrix_one : (M6.one : M6 K).toMatrix = 1 := by
  simp [M6.one, M6.toMatrix]

@[simp] theorem M6.toMatrix_neg (a : M6 K) : a.neg.toMatrix = -a.toMatrix := by
  simp [M6.neg, M6.toMatrix, Matrix.fromBlocks_neg]

end Manif
