/-
  Lemmas/Series2.lean — the exponential series of an element with `A⁵ = -θ² A³` (Galilean motions:
  `[[W, ν, ρ], [0, 0, ι], [0, 0, 0]]` with `W` skew):
      Σ Aⁿ/n! = 1 + A + ½A² + ((θ - sin θ)/θ³) A³ + ((cos θ - 1 + θ²/2)/θ⁴) A⁴.
-/
import ManifProofs.Lemmas.Series
namespace Manif
open scoped Nat
variable {𝔸 : Type*} [Ring 𝔸] [Algebra ℝ 𝔸] [TopologicalSpace 𝔸] [IsTopologicalRing 𝔸]
  [ContinuousSMul ℝ 𝔸] [T2Space 𝔸]

/-! ### the case `A⁵ = -θ² A³` (Galilean motions) -/
theorem pow_odd_of_quintic {A : 𝔸} {θ : ℝ} (h : A ^ 5 = (-(θ ^ 2)) • A ^ 3) (k : ℕ) :
    A ^ (2 * (k + 1) + 1) = ((-(θ ^ 2)) ^ k) • A ^ 3 := by
  induction k with
  | zero => simp
  | succ k ih =>
    have e : 2 * (k + 1 + 1) + 1 = (2 * (k + 1) + 1) + 2 := by ring
    rw [e, pow_add, ih, smul_mul_assoc, ← pow_add]
    have e2 : 3 + 2 = 5 := rfl
    rw [e2, h, smul_smul, ← pow_succ]

theorem pow_even_of_quintic {A : 𝔸} {θ : ℝ} (h : A ^ 5 = (-(θ ^ 2)) • A ^ 3) (k : ℕ) :
    A ^ (2 * (k + 2)) = ((-(θ ^ 2)) ^ k) • A ^ 4 := by
  have e : 2 * (k + 2) = (2 * (k + 1) + 1) + 1 := by ring
  rw [e, pow_succ, pow_odd_of_quintic h, smul_mul_assoc, ← pow_succ]

theorem hasSum_cos_tail2 (θ : ℝ) (hθ : θ ≠ 0) :
    HasSum (fun k : ℕ => (-(θ ^ 2)) ^ k / ((2 * (k + 2))! : ℝ)) ((Real.cos θ - 1 + θ ^ 2 / 2) / θ ^ 4) := by
  have hc := Real.hasSum_cos θ
  have h1 := (hasSum_nat_add_iff' (f := fun n : ℕ => (-1) ^ n * θ ^ (2 * n) / ((2 * n)! : ℝ)) 2).mpr hc
  simp only [Finset.sum_range_succ, Finset.range_one, Finset.sum_singleton, pow_zero, mul_zero, Nat.factorial_zero,
    Nat.cast_one, mul_one, div_one, pow_one, Nat.factorial_two, Nat.cast_ofNat, Finset.range_zero,
    Finset.sum_empty, zero_add] at h1
  have h2 := (h1.mul_left (1 / θ ^ 4))
  have hf : (fun k : ℕ => (-(θ ^ 2)) ^ k / ((2 * (k + 2))! : ℝ)) =
      fun i : ℕ => 1 / θ ^ 4 * ((-1) ^ (i + 2) * θ ^ (2 * (i + 2)) / ((2 * (i + 2))! : ℝ)) := by
    funext k
    field_simp
    ring
  have hv : (Real.cos θ - 1 + θ ^ 2 / 2) / θ ^ 4 = 1 / θ ^ 4 * (Real.cos θ - (1 + -1 * θ ^ 2 / 2)) := by
    field_simp
    ring
  rw [hf, hv]
  convert h2 using 2


/-- `A⁵ = -θ²A³`, `θ ≠ 0`  ⟹
    `Σ Aⁿ/n! = 1 + A + ½A² + ((θ - sin θ)/θ³) A³ + ((cos θ - 1 + θ²/2)/θ⁴) A⁴`. -/
theorem hasExpSum_of_quintic (A : 𝔸) (θ : ℝ) (hθ : θ ≠ 0) (h : A ^ 5 = (-(θ ^ 2)) • A ^ 3) :
    HasExpSum A (1 + A + (1 / 2 : ℝ) • A ^ 2 + ((θ - Real.sin θ) / θ ^ 3) • A ^ 3 +
      ((Real.cos θ - 1 + θ ^ 2 / 2) / θ ^ 4) • A ^ 4) := by
  unfold HasExpSum
  have hodd1 : HasSum (fun k : ℕ => (((2 * (k + 1) + 1)! : ℝ)⁻¹) • A ^ (2 * (k + 1) + 1))
      (((θ - Real.sin θ) / θ ^ 3) • A ^ 3) := by
    have := (hasSum_sub_sin_div θ hθ).smul_const (A ^ 3)
    have hf : (fun k : ℕ => (((2 * (k + 1) + 1)! : ℝ)⁻¹) • A ^ (2 * (k + 1) + 1)) =
        fun k : ℕ => ((-(θ ^ 2)) ^ k / ((2 * (k + 1) + 1)! : ℝ)) • A ^ 3 := by
      funext k
      rw [pow_odd_of_quintic h, smul_smul]
      congr 1
      field_simp
    rw [hf]
    exact this
  have hodd : HasSum (fun k : ℕ => (((2 * k + 1)! : ℝ)⁻¹) • A ^ (2 * k + 1))
      (A + ((θ - Real.sin θ) / θ ^ 3) • A ^ 3) := by
    have := HasSum.zero_add (f := fun k : ℕ => (((2 * k + 1)! : ℝ)⁻¹) • A ^ (2 * k + 1)) hodd1
    simpa using this
  have heven2 : HasSum (fun k : ℕ => (((2 * (k + 2))! : ℝ)⁻¹) • A ^ (2 * (k + 2)))
      (((Real.cos θ - 1 + θ ^ 2 / 2) / θ ^ 4) • A ^ 4) := by
    have := (hasSum_cos_tail2 θ hθ).smul_const (A ^ 4)
    have hf : (fun k : ℕ => (((2 * (k + 2))! : ℝ)⁻¹) • A ^ (2 * (k + 2))) =
        fun k : ℕ => ((-(θ ^ 2)) ^ k / ((2 * (k + 2))! : ℝ)) • A ^ 4 := by
      funext k
      rw [pow_even_of_quintic h, smul_smul]
      congr 1
      field_simp
    rw [hf]
    exact this
  have heven : HasSum (fun k : ℕ => (((2 * k)! : ℝ)⁻¹) • A ^ (2 * k))
      (1 + (1 / 2 : ℝ) • A ^ 2 + ((Real.cos θ - 1 + θ ^ 2 / 2) / θ ^ 4) • A ^ 4) := by
    have h1 := (hasSum_nat_add_iff' (f := fun k : ℕ => (((2 * k)! : ℝ)⁻¹) • A ^ (2 * k)) 2).mp
      (by
        have e : (fun k : ℕ => (((2 * (k + 2))! : ℝ)⁻¹) • A ^ (2 * (k + 2))) =
            fun k : ℕ => (fun k : ℕ => (((2 * k)! : ℝ)⁻¹) • A ^ (2 * k)) (k + 2) := rfl
        rw [← e]
        have : ((Real.cos θ - 1 + θ ^ 2 / 2) / θ ^ 4) • A ^ 4 =
            (1 + (1 / 2 : ℝ) • A ^ 2 + ((Real.cos θ - 1 + θ ^ 2 / 2) / θ ^ 4) • A ^ 4) -
              ∑ i ∈ Finset.range 2, (fun k : ℕ => (((2 * k)! : ℝ)⁻¹) • A ^ (2 * k)) i := by
          simp [Finset.sum_range_succ]
        rw [← this]
        exact heven2)
    exact h1
  have := HasSum.even_add_odd (f := fun n : ℕ => ((n ! : ℝ)⁻¹) • A ^ n) heven hodd
  have e : 1 + A + (1 / 2 : ℝ) • A ^ 2 + ((θ - Real.sin θ) / θ ^ 3) • A ^ 3 +
      ((Real.cos θ - 1 + θ ^ 2 / 2) / θ ^ 4) • A ^ 4 =
      1 + (1 / 2 : ℝ) • A ^ 2 + ((Real.cos θ - 1 + θ ^ 2 / 2) / θ ^ 4) • A ^ 4 +
        (A + ((θ - Real.sin θ) / θ ^ 3) • A ^ 3) := by abel
  rw [e]
  exact this

end Manif
