/-
  Lemmas/Quat.lean — unit-quaternion algebra behind SO3/SE3/SE_2(3)/SGal3:
  Eigen's `toRotationMatrix` is multiplicative on unit quaternions, `conj` inverts, the
  product preserves the norm, `q` and `-q` give the same rotation.
-/
import ManifProofs.Lemmas.Mat

namespace Manif
open Matrix

variable {K : Type} [Field K] [LinearOrder K] [Transc K]

set_option linter.unusedSectionVars false

/-- squared norm, plain form -/
def Quat.sqn (q : Quat K) : K := q.x * q.x + q.y * q.y + q.z * q.z + q.w * q.w

theorem Quat.sqNorm_eq (q : Quat K) : q.sqNorm = q.sqn := by
  simp [Quat.sqNorm, Quat.sqn, sum4]; ring

/-- the homogeneous (degree-2) rotation matrix `v ↦ q v q̄`; multiplicative for *all* q. -/
def Quat.rotH (q : Quat K) : M3 K :=
  ⟨q.w*q.w + q.x*q.x - q.y*q.y - q.z*q.z, 2*(q.x*q.y - q.w*q.z), 2*(q.x*q.z + q.w*q.y),
   2*(q.x*q.y + q.w*q.z), q.w*q.w - q.x*q.x + q.y*q.y - q.z*q.z, 2*(q.y*q.z - q.w*q.x),
   2*(q.x*q.z - q.w*q.y), 2*(q.y*q.z + q.w*q.x), q.w*q.w - q.x*q.x - q.y*q.y + q.z*q.z⟩

theorem Quat.toRot_eq_rotH (q : Quat K) (h : q.sqn = 1) : q.toRot = q.rotH := by
  unfold Quat.sqn at h
  apply M3.ext' <;> msimp [Quat.toRot, Quat.rotH] <;> first | ring1 | linear_combination (-1 : K) * h

theorem Quat.sqn_mul (p q : Quat K) : (p.mul q).sqn = p.sqn * q.sqn := by
  simp [Quat.mul, Quat.sqn]; ring

theorem Quat.rotH_mul (p q : Quat K) : (p.mul q).rotH = p.rotH.mul q.rotH := by
  apply M3.ext' <;> msimp [Quat.mul, Quat.rotH, M3.mul] <;> ring

theorem Quat.sqn_conj (q : Quat K) : q.conj.sqn = q.sqn := by
  simp [Quat.conj, Quat.sqn]

theorem Quat.rotH_conj (q : Quat K) : q.conj.rotH = q.rotH.transpose := by
  apply M3.ext' <;> msimp [Quat.conj, Quat.rotH, M3.transpose] <;> ring

theorem Quat.rotH_neg (q : Quat K) : (Quat.mk (-q.x) (-q.y) (-q.z) (-q.w)).rotH = q.rotH := by
  apply M3.ext' <;> msimp [Quat.rotH] <;> ring

/-- `R Rᵀ = |q|⁴ I` — orthogonality of the homogeneous form. -/
theorem Quat.rotH_mul_transpose (q : Quat K) :
    q.rotH.mul q.rotH.transpose = M3.smul (q.sqn * q.sqn) M3.one := by
  apply M3.ext' <;> msimp [Quat.rotH, M3.mul, M3.transpose, M3.smul, M3.map, M3.one, Quat.sqn] <;> ring

theorem Quat.rotH_transpose_mul (q : Quat K) :
    q.rotH.transpose.mul q.rotH = M3.smul (q.sqn * q.sqn) M3.one := by
  apply M3.ext' <;> msimp [Quat.rotH, M3.mul, M3.transpose, M3.smul, M3.map, M3.one, Quat.sqn] <;> ring

theorem Quat.toRot_mul (p q : Quat K) (hp : p.sqn = 1) (hq : q.sqn = 1) :
    (p.mul q).toRot = p.toRot.mul q.toRot := by
  rw [Quat.toRot_eq_rotH _ hp, Quat.toRot_eq_rotH _ hq,
    Quat.toRot_eq_rotH _ (by rw [Quat.sqn_mul, hp, hq, one_mul]), Quat.rotH_mul]

theorem Quat.toRot_conj (q : Quat K) (h : q.sqn = 1) : q.conj.toRot = q.toRot.transpose := by
  rw [Quat.toRot_eq_rotH _ h, Quat.toRot_eq_rotH _ (by rw [Quat.sqn_conj, h]), Quat.rotH_conj]

theorem Quat.toRot_mul_transpose (q : Quat K) (h : q.sqn = 1) :
    q.toRot.mul q.toRot.transpose = M3.one := by
  rw [Quat.toRot_eq_rotH _ h, Quat.rotH_mul_transpose, h]
  apply M3.ext' <;> msimp [M3.smul, M3.map, M3.one] <;> ring

theorem Quat.toRot_transpose_mul (q : Quat K) (h : q.sqn = 1) :
    q.toRot.transpose.mul q.toRot = M3.one := by
  rw [Quat.toRot_eq_rotH _ h, Quat.rotH_transpose_mul, h]
  apply M3.ext' <;> msimp [M3.smul, M3.map, M3.one] <;> ring

end Manif
