/-
  Lemmas/Series.lean — the exponential power series of an element whose powers fold back:
  if `A³ = -θ² A` (θ ≠ 0) then  Σ Aⁿ/n!  =  1 + (sin θ/θ) A + ((1 - cos θ)/θ²) A²
  in any Hausdorff topological ℝ-algebra (matrices with the product topology qualify).
  This is the Rodrigues formula; it covers SO3 (3×3 skew) and SE2 (3×3 twist) at once.
-/
import Mathlib.Analysis.SpecialFunctions.Trigonometric.Series
import Mathlib.Analysis.Normed.Algebra.Exponential
import Mathlib.Topology.Algebra.InfiniteSum.Module

namespace Manif
open scoped Nat

variable {𝔸 : Type*} [Ring 𝔸] [Algebra ℝ 𝔸] [TopologicalSpace 𝔸] [IsTopologicalRing 𝔸]
  [ContinuousSMul ℝ 𝔸] [T2Space 𝔸]

/-- the power series `Σ Aⁿ/n!` has sum `M`. -/
def HasExpSum (A M : 𝔸) : Prop := HasSum (fun n : ℕ => ((n ! : ℝ)⁻¹) • A ^ n) M

theorem pow_odd_of_cube {A : 𝔸} {θ : ℝ} (h : A ^ 3 = (-(θ ^ 2)) • A) (k : ℕ) :
    A ^ (2 * k + 1) = ((-(θ ^ 2)) ^ k) • A := by
  induction k with
  | zero => simp
  | succ k ih =>
    have e : 2 * (k + 1) + 1 = (2 * k + 1) + 2 := by ring
    have : A ^ (2 * (k + 1) + 1) = A ^ (2 * k + 1) * A ^ 2 := by rw [e, pow_add]
    rw [this, ih, smul_mul_assoc, ← pow_succ', h, smul_smul, ← pow_succ]

theorem pow_even_of_cube {A : 𝔸} {θ : ℝ} (h : A ^ 3 = (-(θ ^ 2)) • A) (k : ℕ) :
    A ^ (2 * (k + 1)) = ((-(θ ^ 2)) ^ k) • A ^ 2 := by
  have e : 2 * (k + 1) = (2 * k + 1) + 1 := by ring
  have : A ^ (2 * (k + 1)) = A ^ (2 * k + 1) * A := by rw [e, pow_succ]
  rw [this, pow_odd_of_cube h, smul_mul_assoc, ← sq]

theorem hasSum_sin_div (θ : ℝ) (hθ : θ ≠ 0) :
    HasSum (fun k : ℕ => (-(θ ^ 2)) ^ k / ((2 * k + 1)! : ℝ)) (Real.sin θ / θ) := by
  have h := (Real.hasSum_sin θ).div_const θ
  have hf : (fun k : ℕ => (-(θ ^ 2)) ^ k / ((2 * k + 1)! : ℝ)) =
      fun i : ℕ => (-1) ^ i * θ ^ (2 * i + 1) / ((2 * i + 1)! : ℝ) / θ := by
    funext k
    field_simp
    ring
  rw [hf]
  exact h

theorem hasSum_one_sub_cos_div (θ : ℝ) (hθ : θ ≠ 0) :
    HasSum (fun k : ℕ => (-(θ ^ 2)) ^ k / ((2 * (k + 1))! : ℝ)) ((1 - Real.cos θ) / θ ^ 2) := by
  have hc := Real.hasSum_cos θ
  have h1 := (hasSum_nat_add_iff' (f := fun n : ℕ => (-1) ^ n * θ ^ (2 * n) / ((2 * n)! : ℝ)) 1).mpr hc
  simp only [Finset.range_one, Finset.sum_singleton, pow_zero, mul_zero, Nat.factorial_zero,
    Nat.cast_one, mul_one, div_one] at h1
  have h2 := (h1.mul_left (-1 / θ ^ 2))
  have hf : (fun k : ℕ => (-(θ ^ 2)) ^ k / ((2 * (k + 1))! : ℝ)) =
      fun i : ℕ => -1 / θ ^ 2 * ((-1) ^ (i + 1) * θ ^ (2 * (i + 1)) / ((2 * (i + 1))! : ℝ)) := by
    funext k
    field_simp
    ring
  have hv : (1 - Real.cos θ) / θ ^ 2 = -1 / θ ^ 2 * (Real.cos θ - 1) := by
    field_simp
    ring
  rw [hf, hv]
  exact h2

/-- **Rodrigues**: `A³ = -θ²A`, `θ ≠ 0`  ⟹  `Σ Aⁿ/n! = 1 + (sin θ/θ) A + ((1-cos θ)/θ²) A²`. -/
theorem hasExpSum_of_cube (A : 𝔸) (θ : ℝ) (hθ : θ ≠ 0) (h : A ^ 3 = (-(θ ^ 2)) • A) :
    HasExpSum A (1 + (Real.sin θ / θ) • A + ((1 - Real.cos θ) / θ ^ 2) • A ^ 2) := by
  unfold HasExpSum
  -- odd part
  have hodd : HasSum (fun k : ℕ => (((2 * k + 1)! : ℝ)⁻¹) • A ^ (2 * k + 1)) ((Real.sin θ / θ) • A) := by
    have := (hasSum_sin_div θ hθ).smul_const A
    have hf : (fun k : ℕ => (((2 * k + 1)! : ℝ)⁻¹) • A ^ (2 * k + 1)) =
        fun k : ℕ => ((-(θ ^ 2)) ^ k / ((2 * k + 1)! : ℝ)) • A := by
      funext k
      rw [pow_odd_of_cube h, smul_smul]
      congr 1
      field_simp
    rw [hf]
    exact this
  -- even part, from index 1
  have heven1 : HasSum (fun k : ℕ => (((2 * (k + 1))! : ℝ)⁻¹) • A ^ (2 * (k + 1)))
      (((1 - Real.cos θ) / θ ^ 2) • A ^ 2) := by
    have := (hasSum_one_sub_cos_div θ hθ).smul_const (A ^ 2)
    have hf : (fun k : ℕ => (((2 * (k + 1))! : ℝ)⁻¹) • A ^ (2 * (k + 1))) =
        fun k : ℕ => ((-(θ ^ 2)) ^ k / ((2 * (k + 1))! : ℝ)) • A ^ 2 := by
      funext k
      rw [pow_even_of_cube h, smul_smul]
      congr 1
      field_simp
    rw [hf]
    exact this
  have heven : HasSum (fun k : ℕ => (((2 * k)! : ℝ)⁻¹) • A ^ (2 * k))
      (1 + ((1 - Real.cos θ) / θ ^ 2) • A ^ 2) := by
    have := HasSum.zero_add (f := fun k : ℕ => (((2 * k)! : ℝ)⁻¹) • A ^ (2 * k)) heven1
    simpa using this
  have := HasSum.even_add_odd (f := fun n : ℕ => ((n ! : ℝ)⁻¹) • A ^ n) heven hodd
  have e : 1 + (Real.sin θ / θ) • A + ((1 - Real.cos θ) / θ ^ 2) • A ^ 2 =
      1 + ((1 - Real.cos θ) / θ ^ 2) • A ^ 2 + (Real.sin θ / θ) • A := by abel
  rw [e]
  exact this

/-- the nilpotent case (`θ = 0` for SE2/SE3-type twists with zero rotation): `A² = 0`. -/
theorem hasExpSum_of_sq_zero (A : 𝔸) (h : A ^ 2 = 0) : HasExpSum A (1 + A) := by
  unfold HasExpSum
  have hz : ∀ n : ℕ, n ∉ Finset.range 2 → ((n ! : ℝ)⁻¹) • A ^ n = 0 := by
    intro n hn
    have : 2 ≤ n := by
      have := Finset.mem_range.not.mp hn
      omega
    obtain ⟨m, rfl⟩ := Nat.exists_eq_add_of_le this
    rw [pow_add, h, zero_mul, smul_zero]
  have : HasSum (fun n : ℕ => ((n ! : ℝ)⁻¹) • A ^ n)
      (∑ b ∈ Finset.range 2, ((b ! : ℝ)⁻¹) • A ^ b) := hasSum_sum_of_ne_finset_zero hz
  have e : (1 : 𝔸) + A = ∑ b ∈ Finset.range 2, ((b ! : ℝ)⁻¹) • A ^ b := by
    simp [Finset.sum_range_succ]
  rw [e]
  exact this

/-- and the power series *is* Mathlib's exponential. -/
theorem HasExpSum.exp_eq {A M : 𝔸} (h : HasExpSum A M) : NormedSpace.exp A = M := by
  rw [NormedSpace.exp_eq_tsum ℝ]
  exact h.tsum_eq


/-! ### the case `A⁴ = -θ² A²` (rigid motions: `[[W, ρ], [0, 0]]` with `W` skew) -/

theorem pow_even_of_quartic {A : 𝔸} {θ : ℝ} (h : A ^ 4 = (-(θ ^ 2)) • A ^ 2) (k : ℕ) :
    A ^ (2 * (k + 1)) = ((-(θ ^ 2)) ^ k) • A ^ 2 := by
  induction k with
  | zero => simp
  | succ k ih =>
    have e : 2 * (k + 1 + 1) = 2 * (k + 1) + 2 := by ring
    rw [e, pow_add, ih, smul_mul_assoc, ← pow_add]
    have e2 : 2 + 2 = 4 := rfl
    rw [e2, h, smul_smul, ← pow_succ]

theorem pow_odd_of_quartic {A : 𝔸} {θ : ℝ} (h : A ^ 4 = (-(θ ^ 2)) • A ^ 2) (k : ℕ) :
    A ^ (2 * (k + 1) + 1) = ((-(θ ^ 2)) ^ k) • A ^ 3 := by
  rw [pow_succ, pow_even_of_quartic h, smul_mul_assoc, ← pow_succ]

theorem hasSum_sub_sin_div (θ : ℝ) (hθ : θ ≠ 0) :
    HasSum (fun k : ℕ => (-(θ ^ 2)) ^ k / ((2 * (k + 1) + 1)! : ℝ)) ((θ - Real.sin θ) / θ ^ 3) := by
  have hsin := Real.hasSum_sin θ
  have h1 := (hasSum_nat_add_iff' (f := fun n : ℕ => (-1) ^ n * θ ^ (2 * n + 1) / ((2 * n + 1)! : ℝ)) 1).mpr hsin
  simp only [Finset.range_one, Finset.sum_singleton, pow_zero, mul_zero, zero_add, Nat.factorial_one,
    Nat.cast_one, pow_one, one_mul, div_one] at h1
  have h2 := h1.mul_left (-1 / θ ^ 3)
  have hf : (fun k : ℕ => (-(θ ^ 2)) ^ k / ((2 * (k + 1) + 1)! : ℝ)) =
      fun i : ℕ => -1 / θ ^ 3 * ((-1) ^ (i + 1) * θ ^ (2 * (i + 1) + 1) / ((2 * (i + 1) + 1)! : ℝ)) := by
    funext k
    field_simp
    ring
  have hv : (θ - Real.sin θ) / θ ^ 3 = -1 / θ ^ 3 * (Real.sin θ - θ) := by
    field_simp
    ring
  rw [hf, hv]
  exact h2

/-- `A⁴ = -θ²A²`, `θ ≠ 0`  ⟹
    `Σ Aⁿ/n! = 1 + A + ((1-cos θ)/θ²) A² + ((θ - sin θ)/θ³) A³`. -/
theorem hasExpSum_of_quartic (A : 𝔸) (θ : ℝ) (hθ : θ ≠ 0) (h : A ^ 4 = (-(θ ^ 2)) • A ^ 2) :
    HasExpSum A (1 + A + ((1 - Real.cos θ) / θ ^ 2) • A ^ 2 + ((θ - Real.sin θ) / θ ^ 3) • A ^ 3) := by
  unfold HasExpSum
  -- odd part, from index 1
  have hodd1 : HasSum (fun k : ℕ => (((2 * (k + 1) + 1)! : ℝ)⁻¹) • A ^ (2 * (k + 1) + 1))
      (((θ - Real.sin θ) / θ ^ 3) • A ^ 3) := by
    have := (hasSum_sub_sin_div θ hθ).smul_const (A ^ 3)
    have hf : (fun k : ℕ => (((2 * (k + 1) + 1)! : ℝ)⁻¹) • A ^ (2 * (k + 1) + 1)) =
        fun k : ℕ => ((-(θ ^ 2)) ^ k / ((2 * (k + 1) + 1)! : ℝ)) • A ^ 3 := by
      funext k
      rw [pow_odd_of_quartic h, smul_smul]
      congr 1
      field_simp
    rw [hf]
    exact this
  have hodd : HasSum (fun k : ℕ => (((2 * k + 1)! : ℝ)⁻¹) • A ^ (2 * k + 1))
      (A + ((θ - Real.sin θ) / θ ^ 3) • A ^ 3) := by
    have := HasSum.zero_add (f := fun k : ℕ => (((2 * k + 1)! : ℝ)⁻¹) • A ^ (2 * k + 1)) hodd1
    simpa using this
  -- even part, from index 1
  have heven1 : HasSum (fun k : ℕ => (((2 * (k + 1))! : ℝ)⁻¹) • A ^ (2 * (k + 1)))
      (((1 - Real.cos θ) / θ ^ 2) • A ^ 2) := by
    have := (hasSum_one_sub_cos_div θ hθ).smul_const (A ^ 2)
    have hf : (fun k : ℕ => (((2 * (k + 1))! : ℝ)⁻¹) • A ^ (2 * (k + 1))) =
        fun k : ℕ => ((-(θ ^ 2)) ^ k / ((2 * (k + 1))! : ℝ)) • A ^ 2 := by
      funext k
      rw [pow_even_of_quartic h, smul_smul]
      congr 1
      field_simp
    rw [hf]
    exact this
  have heven : HasSum (fun k : ℕ => (((2 * k)! : ℝ)⁻¹) • A ^ (2 * k))
      (1 + ((1 - Real.cos θ) / θ ^ 2) • A ^ 2) := by
    have := HasSum.zero_add (f := fun k : ℕ => (((2 * k)! : ℝ)⁻¹) • A ^ (2 * k)) heven1
    simpa using this
  have := HasSum.even_add_odd (f := fun n : ℕ => ((n ! : ℝ)⁻¹) • A ^ n) heven hodd
  have e : 1 + A + ((1 - Real.cos θ) / θ ^ 2) • A ^ 2 + ((θ - Real.sin θ) / θ ^ 3) • A ^ 3 =
      1 + ((1 - Real.cos θ) / θ ^ 2) • A ^ 2 + (A + ((θ - Real.sin θ) / θ ^ 3) • A ^ 3) := by abel
  rw [e]
  exact this

end Manif
