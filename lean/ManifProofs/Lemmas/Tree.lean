/-
  Lemmas/Tree.lean — Eigen's unrolled halving reduction (`treeSum`) is the plain sum, in any
  field; consequences for the flat dot products / squared norms the driver computes.
-/
import ManifProofs.Inst.Laws
import Mathlib.Algebra.BigOperators.Group.List.Basic
import Mathlib.Algebra.Order.BigOperators.Group.List
import Mathlib.Tactic.Ring
import Mathlib.Tactic.Linarith

namespace Manif
variable {K : Type} [Field K] [LinearOrder K] [Transc K]

theorem treeSum_eq_sum : ∀ (fuel : ℕ) (l : List K), l.length ≤ fuel → treeSum fuel l = l.sum
  | 0, l, h => by
    have : l = [] := List.eq_nil_of_length_eq_zero (by omega)
    subst this
    simp [treeSum]
  | fuel + 1, l, h => by
    match l, h with
    | [], _ => simp [treeSum]
    | [a], _ => simp [treeSum]
    | a :: b :: rest, h =>
      have hlen : (a :: b :: rest).length = rest.length + 2 := by simp
      have h1 : ((a :: b :: rest).take ((a :: b :: rest).length / 2)).length ≤ fuel := by
        rw [List.length_take]; omega
      have h2 : ((a :: b :: rest).drop ((a :: b :: rest).length / 2)).length ≤ fuel := by
        rw [List.length_drop]; omega
      rw [treeSum, treeSum_eq_sum fuel _ h1, treeSum_eq_sum fuel _ h2, List.sum_take_add_sum_drop]
      all_goals simp

theorem sqNormFlat_eq (a : List K) : sqNormFlat a = (a.map fun x => x * x).sum := by
  unfold sqNormFlat
  exact treeSum_eq_sum _ _ (by simp)

theorem sqNormFlat_nonneg [IsStrictOrderedRing K] (a : List K) : 0 ≤ sqNormFlat a := by
  rw [sqNormFlat_eq]
  apply List.sum_nonneg
  intro x hx
  simp only [List.mem_map] at hx
  obtain ⟨y, _, rfl⟩ := hx
  exact mul_self_nonneg y

theorem dotTree_eq (a b : List K) : dotTree a b = (List.zipWith (· * ·) a b).sum := by
  unfold dotTree
  exact treeSum_eq_sum _ _ (by simp)

end Manif
