/-
  Lemmas/DualLemmas.lean — projections of the dual-number operations (all by `rfl`), so that an
  identity between dual-number expressions becomes two identities in the base field: the real
  part (the primal computation) and the dual part (the derivative).
-/
import ManifProofs.Inst.Laws
import Mathlib.Tactic.Ring

namespace Manif
variable {K : Type} [Field K] [LinearOrder K] [Transc K]

@[ext] theorem Dual.ext' {a b : Dual K} (h1 : a.re = b.re) (h2 : a.du = b.du) : a = b := by
  cases a; cases b; simp_all

@[simp] theorem dual_add_re (a b : Dual K) : (a + b).re = a.re + b.re := rfl
@[simp] theorem dual_add_du (a b : Dual K) : (a + b).du = a.du + b.du := rfl
@[simp] theorem dual_sub_re (a b : Dual K) : (a - b).re = a.re - b.re := rfl
@[simp] theorem dual_sub_du (a b : Dual K) : (a - b).du = a.du - b.du := rfl
@[simp] theorem dual_mul_re (a b : Dual K) : (a * b).re = a.re * b.re := rfl
@[simp] theorem dual_mul_du (a b : Dual K) : (a * b).du = a.re * b.du + a.du * b.re := rfl
@[simp] theorem dual_div_re (a b : Dual K) : (a / b).re = a.re / b.re := rfl
@[simp] theorem dual_div_du (a b : Dual K) :
    (a / b).du = (a.du * b.re - a.re * b.du) / (b.re * b.re) := rfl
@[simp] theorem dual_neg_re (a : Dual K) : (-a).re = -a.re := rfl
@[simp] theorem dual_neg_du (a : Dual K) : (-a).du = -a.du := rfl
@[simp] theorem dual_nat_re (n : ℕ) : (Scalar.nat n : Dual K).re = (n : K) := rfl
@[simp] theorem dual_nat_du (n : ℕ) : (Scalar.nat n : Dual K).du = 0 := by
  show (Scalar.ofNat 0 : K) = 0
  simp
@[simp] theorem dual_ofNat_re (n : ℕ) : (Scalar.ofNat n : Dual K).re = (n : K) := rfl
@[simp] theorem dual_ofNat_du (n : ℕ) : (Scalar.ofNat n : Dual K).du = 0 := dual_nat_du n
@[simp] theorem dual_sin_re (a : Dual K) : (Scalar.sin a).re = Transc.sin a.re := rfl
@[simp] theorem dual_sin_du (a : Dual K) : (Scalar.sin a).du = Transc.cos a.re * a.du := rfl
@[simp] theorem dual_cos_re (a : Dual K) : (Scalar.cos a).re = Transc.cos a.re := rfl
@[simp] theorem dual_cos_du (a : Dual K) : (Scalar.cos a).du = -(Transc.sin a.re * a.du) := rfl
@[simp] theorem dual_lt (a b : Dual K) : Scalar.lt a b = decide (a.re < b.re) := rfl
@[simp] theorem dual_le (a b : Dual K) : Scalar.le a b = decide (a.re ≤ b.re) := rfl
@[simp] theorem dual_gt (a b : Dual K) : Scalar.gt a b = decide (b.re < a.re) := rfl
@[simp] theorem dual_eps_re : (Scalar.eps : Dual K).re = Transc.eps := rfl
@[simp] theorem dual_eps_du : (Scalar.eps : Dual K).du = 0 := dual_nat_du 0
@[simp] theorem dual_abs_re [IsStrictOrderedRing K] (a : Dual K) : (Scalar.abs a).re = |a.re| := rfl
@[simp] theorem dual_lift_re (a : K) : (Dual.lift a).re = a := rfl
@[simp] theorem dual_lift_du (a : K) : (Dual.lift a).du = 0 := by
  show (Scalar.nat 0 : K) = 0
  simp

end Manif
