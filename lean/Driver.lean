/-
  Driver.lean — line protocol of the correspondence check (model side).

    request :  <dbg:0|1> <storage:o|m|c> <group> <op> <mask> <token>…
               token = 16 hex digits (IEEE-754 bits of a double) or `#<int>` (integer argument);
               <storage> (owning / Map / Map<const>) is ignored by the model: views must behave
               exactly like owning objects (C10)
    response:  ok <hex>…   |   err <exception name>   |   bad-op

  The C++ harness (`/verif/harness`) answers the same requests by calling the real manif.
-/
import ManifModel.Cast
import ManifModel.JetRun
open Manif

def hexDigit (c : Char) : Option Nat :=
  if '0' ≤ c ∧ c ≤ '9' then some (c.toNat - '0'.toNat)
  else if 'a' ≤ c ∧ c ≤ 'f' then some (c.toNat - 'a'.toNat + 10)
  else if 'A' ≤ c ∧ c ≤ 'F' then some (c.toNat - 'A'.toNat + 10)
  else none

def parseHex64 (s : String) : Option UInt64 :=
  if s.length != 16 then none else
  s.foldl (fun acc c => do
    let a ← acc
    let d ← hexDigit c
    pure (a * 16 + d.toUInt64)) (some 0)

def hexOf (x : UInt64) : String :=
  let digits := "0123456789abcdef".toList.toArray
  let rec go (n : Nat) (v : UInt64) (acc : List Char) : List Char :=
    match n with
    | 0 => acc
    | n + 1 => go n (v >>> 4) (digits[(v &&& 15).toNat]! :: acc)
  String.ofList (go 16 x [])

/-- canonical output: all NaNs print as one pattern. -/
def floatHex (f : Float) : String :=
  if f.isNaN then "7ff8000000000000" else hexOf f.toBits

def respond (f32 : Bool) (line : String) : String :=
  match line.trimAscii.toString.splitOn " " with
  | dbgS :: _storage :: grp :: op :: maskS :: toks =>
    match maskS.toNat? with
    | none => "bad-op"
    | some mask =>
      let dbg := dbgS == "1"
      let rec parse (ts : List String) (fs : List Float) (is : List Int) :
          Option (List Float × List Int) :=
        match ts with
        | [] => some (fs.reverse, is.reverse)
        | t :: rest =>
          if t.startsWith "#" then
            match (t.drop 1).toString.toInt? with
            | some i => parse rest fs (i :: is)
            | none => none
          else match parseHex64 t with
            | some b => parse rest (Float.ofBits b :: fs) is
            | none => none
      match parse toks [] [] with
      | none => "bad-op"
      | some (fs, is) =>
        if op.startsWith "jet_" then
          -- the model over dual numbers (Dual Float), one run per direction: see JetRun.lean
          match runJet (K := Float) grp dbg (op.drop 4).toString mask fs with
          | none => "bad-op"
          | some (.error e) => "err " ++ e.name
          | some (.ok out) => " ".intercalate ("ok" :: out.map floatHex)
        else if op == "cast" then
          -- `cast<>()` to the other floating-point type: float -> double in `f32` mode, else double -> float
          if f32 then
            match runCast (K := Float32) (K' := Float) Float32.toFloat grp dbg (fs.map Float.toFloat32) with
            | none => "bad-op"
            | some (.error e) => "err " ++ e.name
            | some (.ok out) => " ".intercalate ("ok" :: out.map floatHex)
          else
            match runCast (K := Float) (K' := Float32) Float.toFloat32 grp dbg fs with
            | none => "bad-op"
            | some (.error e) => "err " ++ e.name
            | some (.ok out) => " ".intercalate ("ok" :: out.map fun x => floatHex x.toFloat)
        else if f32 then
          -- single precision: arguments are rounded to `float` exactly as the harness's
          -- `(float)` conversion does, results are widened exactly
          match runTop (K := Float32) grp dbg op mask (fs.map Float.toFloat32) is with
          | none => "bad-op"
          | some (.error e) => "err " ++ e.name
          | some (.ok out) => " ".intercalate ("ok" :: out.map fun x => floatHex x.toFloat)
        else
        match runTop (K := Float) grp dbg op mask fs is with
        | none => "bad-op"
        | some (.error e) => "err " ++ e.name
        | some (.ok out) => " ".intercalate ("ok" :: out.map floatHex)
  | _ => "bad-op"

partial def loop (f32 : Bool) (hin : IO.FS.Stream) (hout : IO.FS.Stream) : IO Unit := do
  let line ← hin.getLine
  if line.isEmpty then return ()
  hout.putStrLn (respond f32 line)
  hout.flush
  loop f32 hin hout

/-- `manif_model` answers for the `double` instantiation, `manif_model f32` for `float`. -/
def main (args : List String) : IO Unit := do
  let hin ← IO.getStdin
  let hout ← IO.getStdout
  loop (args.contains "f32") hin hout
  hout.flush
