"""purity.py — C09 (optional outputs transparent; operations pure and deterministic) and
C10 (views behave exactly like owning objects), observed on the implementation.

Everything here compares the implementation WITH ITSELF bit for bit (no tolerance):
  * one input, every subset of the optional outputs: value and each Jacobian identical;
  * operands echoed back after the call (mask bit 128) identical to the inputs;
  * every request re-issued after arbitrary other activity in the same process: identical answer;
  * aliased forms (X = X*X, X = X.inverse(), X = X + t, X *= X) equal the unaliased computation;
  * Jacobians bound to a block of a NaN-filled larger matrix: exactly that block is written;
  * owning / Map / Map<const> operands give identical answers; guard zones around view buffers
    survive every call (the harness answers `err guard_zone_overwritten` otherwise).
The same request lines are also answered by the Lean model (L1), which is a pure function whose
value does not depend on the mask by construction (theorems in Properties/C09.lean).
"""
import math
import random

import gen
import l1
import vlib

MASKED = {"exp": ("T", 1), "log": ("G", 1), "inverse": ("G", 1), "compose": ("GG", 2), "between": ("GG", 2),
          "rplus": ("GT", 2), "lplus": ("GT", 2), "rminus": ("GG", 2), "lminus": ("GG", 2), "act": ("GP", 2)}


def make_args(r, group, sig):
    a = []
    for ch in sig:
        if ch == "G":
            a += gen.element(r, group, norm="valid")[0]
        elif ch == "T":
            a += gen.tangent(r, group)[0]
        elif ch == "S":
            a.append(r.choice([2.0, -0.5, 3.7, 1e-3, 1e6]))
        else:
            a += gen.point(r, group)[0]
    return a


def sizes(group, sig):
    G = gen.GROUPS[group]
    return [G["repsize"] if ch == "G" else G["dof"] if ch == "T" else G["dim"] for ch in sig]


def out_layout(group, op):
    """(value size, [jacobian sizes])"""
    G = gen.GROUPS[group]
    R, D, Dm = G["repsize"], G["dof"], G["dim"]
    if op in ("exp", "inverse", "compose", "between", "rplus", "lplus"):
        return R, [D * D, D * D][:MASKED[op][1]]
    if op in ("log", "rminus", "lminus"):
        return D, [D * D, D * D][:MASKED[op][1]]
    return Dm, [Dm * D, Dm * Dm]


def V(prop, group, op, output, tags, line, what):
    return dict(property=prop, group=group, op=op, output=output, tags=tags, request=line, what=what,
                err=float("inf"), tol=0.0)


def run_c09(exe, groups, r, n, dbg=True):
    """-> (violations, l1_bad, n_requests, cells)"""
    H = vlib.Server(exe)
    viol, reqs_all, cells = [], [], set()
    history = []          # (line, response) for the determinism re-issue
    try:
        for group in groups:
            G = gen.GROUPS[group]
            D = G["dof"]
            for op, (sig, nj) in MASKED.items():
                for _ in range(n):
                    a = make_args(r, group, sig)
                    st = r.choice("omc")
                    vs, js = out_layout(group, op)
                    res = {}
                    for mask in range(1 << nj):
                        line = gen.req(dbg, st, group, op, mask | 128, a)
                        resp = H.ask(line)
                        history.append((line, resp))
                        cells.add((group, op, mask, st))
                        t = resp.split()
                        if t[0] != "ok":
                            res[mask] = None
                            continue
                        vals = t[1:]
                        # split: value, requested jacobians, echoed operands (reverse order of construction)
                        k = vs
                        parts = {"v": vals[:vs]}
                        for b in range(nj):
                            if mask & (1 << b):
                                parts["j%d" % b] = vals[k:k + js[b]]
                                k += js[b]
                        echo = vals[k:]
                        exp_echo = []
                        off = 0
                        chunks = []
                        for sz in sizes(group, sig):
                            chunks.append([gen.hex_of(x) for x in a[off:off + sz]])
                            off += sz
                        if op == "act":
                            chunks = chunks[:1]        # the point is a plain Eigen vector, not an operand object
                        for c in reversed(chunks):
                            exp_echo += c
                        if [x for x in echo] != exp_echo and not all(l1.same(x, y) for x, y in zip(echo, exp_echo)):
                            viol.append(V("C09", group, op, "operand-modified", ["mask%d" % mask, st], line,
                                          "an operand's coefficients changed during the call"))
                        res[mask] = parts
                    ok = [m for m in res if res[m] is not None]
                    if len(ok) != len(res) and ok:
                        viol.append(V("C09", group, op, "status", ["masks", st], gen.req(dbg, st, group, op, 0, a),
                                      "requesting optional outputs changes whether the call raises"))
                    for m in ok[1:]:
                        if res[m]["v"] != res[ok[0]]["v"]:
                            viol.append(V("C09", group, op, "value", ["mask%d" % m, st], gen.req(dbg, st, group, op, m, a),
                                          "returned value depends on the requested optional outputs"))
                    for b in range(nj):
                        got = [res[m]["j%d" % b] for m in ok if "j%d" % b in res[m]]
                        if any(g != got[0] for g in got[1:]):
                            viol.append(V("C09", group, op, "jacobian%d" % b, ["masks", st], gen.req(dbg, st, group, op, 3, a),
                                          "a Jacobian depends on which other Jacobians are requested"))
                    # block binding
                    if st != "c" and ok:
                        full = (1 << nj) - 1
                        line = gen.req(dbg, st, group, "blk_" + op, full, a)
                        resp = H.ask(line)
                        history.append((line, resp))
                        t = resp.split()
                        if t[0] == "ok" and res.get(full):
                            vals = t[1:]
                            if vals[:vs] != res[full]["v"]:
                                viol.append(V("C09", group, op, "block-value", [st], line, "value differs when Jacobians are bound to blocks"))
                            k = vs
                            Dm = G["dim"]
                            for b in range(nj):
                                rows_j, cols_j = (D, D) if op != "act" else ((Dm, D) if b == 0 else (Dm, Dm))
                                R_, C_ = rows_j + 3, cols_j + 4
                                big = vals[k:k + R_ * C_]
                                k += R_ * C_
                                r0, c0 = (1, 2) if b == 0 else (2, 1)
                                want = res[full]["j%d" % b]
                                for i in range(R_):
                                    for j in range(C_):
                                        x = big[i * C_ + j]
                                        inside = r0 <= i < r0 + rows_j and c0 <= j < c0 + cols_j
                                        if inside:
                                            if x != want[(i - r0) * cols_j + (j - c0)]:
                                                viol.append(V("C09", group, op, "block%d" % b, [st], line, "block-bound Jacobian differs from the plain one"))
                                                break
                                        elif x != "7ff8000000000000":
                                            viol.append(V("C09", group, op, "block%d-frame" % b, [st], line, "a Jacobian bound to a block wrote outside the block (%d,%d)" % (i, j)))
                                            break
                        elif t[0] != "ok":
                            viol.append(V("C09", group, op, "block-status", [st], line, "block-bound call failed: " + resp[:50]))
            # aliased assignments
            for _ in range(n):
                X = gen.element(r, group, norm="valid")[0]
                Y = gen.element(r, group, norm="valid")[0]
                t_ = gen.tangent(r, group)[0]
                st = r.choice("om")
                pairs = [("self_compose", X, gen.req(dbg, "o", group, "compose", 0, X + X)),
                         ("self_compose2", X, gen.req(dbg, "o", group, "compose", 0, X + X)),
                         ("self_timeseq", X, gen.req(dbg, "o", group, "compose", 0, X + X)),
                         ("self_timeseq_cv", X, gen.req(dbg, "o", group, "compose", 0, X + X)),
                         ("self_timeseq_vx", X, gen.req(dbg, "o", group, "compose", 0, X + X)),
                         ("self_compose_cv", X, gen.req(dbg, "o", group, "compose", 0, X + X)),
                         ("self_compose_vx", X, gen.req(dbg, "o", group, "compose", 0, X + X)),
                         ("self_inverse_cv", X, gen.req(dbg, "o", group, "inverse", 0, X)),
                         ("self_rplus_cv", X + t_, gen.req(dbg, "o", group, "rplus", 0, X + t_)),
                         ("self_inverse", X, gen.req(dbg, "o", group, "inverse", 0, X)),
                         ("self_between", X + Y, gen.req(dbg, "o", group, "between", 0, X + Y)),
                         ("self_rplus", X + t_, gen.req(dbg, "o", group, "rplus", 0, X + t_)),
                         ("self_lplus", X + t_, gen.req(dbg, "o", group, "lplus", 0, X + t_))]
                for op, args, plain in pairs:
                    l_al = gen.req(dbg, st, group, op, 0, args)
                    ra, rp = H.ask(l_al), H.ask(plain)
                    history += [(l_al, ra), (plain, rp)]
                    cells.add((group, op, st))
                    if ra != rp:
                        viol.append(V("C09", group, op, "aliasing", [st], l_al, "aliased assignment differs from the unaliased computation: %s vs %s" % (ra[:40], rp[:40])))
        # determinism: re-issue everything, in a different order, after all that activity
        order = list(range(len(history)))
        r.shuffle(order)
        for i in order:
            line, resp = history[i]
            again = H.ask(line)
            if again != resp:
                t = line.split()
                viol.append(V("C09", t[2], t[3], "determinism", ["reissue"], line, "same call, different answer after other activity"))
        reqs_all = [l for l, _ in history]
    finally:
        H.close()
    return viol, reqs_all, cells


class Guarded:
    """a protocol server that is restarted when the process dies (a crash is an observation)"""

    def __init__(self, exe):
        self.exe = exe
        self.H = vlib.Server(exe)
        self.crashes = []

    def ask(self, line):
        try:
            return self.H.ask(line)
        except (RuntimeError, BrokenPipeError, OSError):
            rc = self.H.p.poll()
            self.crashes.append((line, rc))
            try:
                self.H.close()
            except Exception:
                pass
            self.H = vlib.Server(self.exe)
            return "err process_died(%s)" % rc

    def close(self):
        self.H.close()


ASSIGN_G = ["assign_copy", "assign_move", "assign_owning", "assign_owning_move", "assign_coeffs"]
ASSIGN_T = ["assign_tcopy", "assign_tmove", "assign_towning", "assign_tcoeffs"]


def run_c10(exe, groups, r, n, dbg=True):
    """same request with owning / Map / Map<const> operands: identical answers, guards intact"""
    H = Guarded(exe)
    viol, lines, cells = [], [], set()
    ops = list(MASKED.items()) + [(o, ("T", 0)) for o in ("rjac", "ljac", "rjacinv", "ljacinv", "smallAdj", "hat")] + \
          [(o, ("G", 0)) for o in ("adj", "transform")] + [("bracket", ("TT", 0)), ("inner", ("TT", 0)), ("t_arith", ("TTS", 0))]
    try:
        for group in groups:
            for op, (sig, nj) in ops:
                for _ in range(n):
                    a = make_args(r, group, sig)
                    mask = r.randrange(1 << nj) if nj else 0
                    got = {}
                    for st in "omc":
                        line = gen.req(dbg, st, group, op, mask | 128, a)      # operands echoed after the call: none may change
                        lines.append(line)
                        got[st] = H.ask(line)
                        cells.add((group, op, st))
                        if "guard_zone_overwritten" in got[st]:
                            viol.append(V("C10", group, op, "guard", [st], line, "memory adjacent to the viewed buffer was written"))
                    if not (got["o"] == got["m"] == got["c"]):
                        viol.append(V("C10", group, op, "storage", ["o/m/c"], gen.req(dbg, "m", group, op, mask, a),
                                      "view operands give a different result than owning ones: o=%s m=%s c=%s" % (got["o"][:30], got["m"][:30], got["c"][:30])))
            # writes through a mutable view: result lands in the viewed buffer, guards intact
            for _ in range(n):
                X = gen.element(r, group, norm="valid")[0]
                Y = gen.element(r, group, norm="valid")[0]
                t_ = gen.tangent(r, group)[0]
                for op, args in (("op+=", X + t_), ("op*=", X + Y), ("self_inverse", X), ("self_rplus", X + t_), ("self_compose", X)):
                    lo, lm = gen.req(dbg, "o", group, op, 0, args), gen.req(dbg, "m", group, op, 0, args)
                    ro, rm = H.ask(lo), H.ask(lm)
                    lines += [lo, lm]
                    cells.add((group, op, "write"))
                    if "guard_zone_overwritten" in rm:
                        viol.append(V("C10", group, op, "guard", ["m"], lm, "a write through a mutable view changed memory outside the viewed coefficients"))
                    elif ro != rm:
                        viol.append(V("C10", group, op, "write", ["m"], lm, "mutation through a view differs from mutation of an owning object"))
                # the assignment family: a view copies into its own buffer and keeps viewing it
                for op in ASSIGN_G + ASSIGN_T:
                    args = (X + Y) if op in ASSIGN_G else (t_ + gen.tangent(r, group)[0])
                    lo, lm = gen.req(dbg, "o", group, op, 0, args), gen.req(dbg, "m", group, op, 0, args)
                    ro, rm = H.ask(lo), H.ask(lm)
                    lines += [lo, lm]
                    cells.add((group, op, "assign"))
                    k = len(args) // 2
                    want = "ok " + " ".join(gen.hex_of(x) for x in args[k:])      # destination == source right after
                    if "guard_zone_overwritten" in rm:
                        viol.append(V("C10", group, op, "guard", ["m"], lm, "assignment to a view wrote outside the viewed coefficients"))
                    elif ro != rm:
                        viol.append(V("C10", group, op, "assign", ["m"], lm, "assignment between views behaves differently from assignment between owning objects (destination buffer not written, or the view re-seated): owning %s… view %s…" % (ro[:60], rm[:60])))
                    elif not ro.startswith(want):
                        viol.append(V("C10", group, op, "assign-value", ["o"], lo, "assignment did not copy the source coefficients"))
                # a view assigned from an expression that reads its own buffer behaves like an owning tangent
                for op in ("exprt_selfprod", "exprt_selfprod_cv", "exprt_selfsum", "exprt_selfscale"):
                    lo, lm = gen.req(dbg, "o", group, op, 0, t_), gen.req(dbg, "m", group, op, 0, t_)
                    ro, rm = H.ask(lo), H.ask(lm)
                    lines += [lo, lm]
                    cells.add((group, op, "assign-expr"))
                    if "guard_zone_overwritten" in rm:
                        viol.append(V("C10", group, op, "guard", ["m"], lm, "assignment of an expression to a view wrote outside the viewed coefficients"))
                    elif ro != rm:
                        viol.append(V("C10", group, op, "assign-expr", ["m"], lm, "a tangent view assigned from an expression over its own coefficients differs from the owning tangent: owning %s… view %s…" % (ro[:60], rm[:60])))
        for line, rc in H.crashes:
            t = line.split()
            viol.append(V("C10", t[2], t[3], "crash", [t[1], "rc=%s" % rc], line, "the process died on this request (signal/abort %s): view operands must work on any buffer of scalars" % rc))
    finally:
        H.close()
    return viol, lines, cells
