import random, collections, sys
import vlib, l1, gen
ok,exe=vlib.harness_build(True)
r=random.Random(int(sys.argv[1]) if len(sys.argv)>1 else 5)
g="SGal3"
ops=sys.argv[2].split(",") if len(sys.argv)>2 else None
reqs=l1.requests_for(r,g,150,True,storages=("o",),ops=ops)
impl,model=l1.run(reqs,exe)
bad=collections.Counter(); ex={}; tot=collections.Counter()
for (line,tags),a,b in zip(reqs,impl,model):
    op=line.split()[3]; tot[op]+=1
    eq,why=l1.compare(a,b,None)
    if not eq:
        bad[op]+=1; ex.setdefault(op,(tags,why))
print({k:(bad[k],tot[k]) for k in tot if bad[k]})
for op,(tags,why) in ex.items(): print(op,tags,why[:160])
