"""l1.py — the correspondence check (L1): the Lean model (native driver, `Float` instance) and
the real manif (C++ harness built from the current /repo) answer the same request lines; the two
response streams are compared value by value, bit for bit (±0 identified, all NaNs identified).
"""
import collections
import math
import random
import sys

import gen
import vlib

UNARY_T = ["exp", "rjac", "ljac", "rjacinv", "ljacinv", "smallAdj", "hat", "sqwnorm", "wnorm"]
BINARY_TT = ["bracket", "inner"]
UNARY_G = ["log", "inverse", "adj", "transform", "rotation"]
BINARY_GG = ["compose", "between", "rminus", "lminus"]
BINARY_GT = ["rplus", "lplus"]
ALIAS_GT = ["plus", "op+", "op+=", "t+X", "t.plus", "t.lplus", "t.rplus", "f_rplus", "f_lplus", "f_plus"]
ALIAS_GG = ["minus", "op-", "op*", "op*=", "f_rminus", "f_lminus", "f_minus", "f_compose", "f_between"]
ALIAS_G = ["f_inverse", "f_log"]
ALIAS_T = ["f_exp"]
ALIASES = ALIAS_GT + ALIAS_GG + ALIAS_G + ALIAS_T + ["f_act"]
MUTATING = ("op+=", "op*=")
MASKS = {"plus": 4, "t.plus": 4, "t.lplus": 4, "t.rplus": 4, "f_rplus": 4, "f_lplus": 4, "f_plus": 4,
         "minus": 4, "f_rminus": 4, "f_lminus": 4, "f_minus": 4, "f_compose": 4, "f_between": 4,
         "f_inverse": 2, "f_log": 2, "f_exp": 2, "f_act": 4,"exp": 2, "log": 2, "inverse": 2, "compose": 4, "between": 4, "rminus": 4, "lminus": 4,
         "rplus": 4, "lplus": 4, "act": 4}
class _NoRot:
    def __contains__(self, g):
        return g in ("R1", "R2", "R3", "R5", "R16") or g.startswith("B:")


NO_ROTATION = _NoRot()


ALG = {"SO2": 2, "SE2": 3, "SO3": 3, "SE3": 4, "SE_2_3": 5, "SGal3": 5, "R1": 2, "R2": 3, "R3": 4, "R5": 6, "R16": 17}


def alg_size(group):
    if group.startswith("B:"):
        return sum(ALG[e] for e in group[2:].split(","))
    return ALG[group]


def requests_for(r, group, n, dbg, storages=("o",), norm="valid", ops=None):
    """n random requests per op for one group -> list of (line, tags)"""
    out = []
    allops = UNARY_T + UNARY_G + BINARY_GG + BINARY_GT + BINARY_TT + ["act"]
    for op in (ops or allops):
        if op in ("rotation", "normalize") and group in NO_ROTATION:
            continue
        moff = r.randrange(MASKS.get(op, 1))
        for k in range(n):
            st = r.choice(storages)
            mask = (moff + k) % MASKS.get(op, 1)      # every output combination as soon as n allows
            if op == "generator":
                i = r.randint(-3, gen.GROUPS[group]["dof"] + 3)
                if k % 3 == 2:      # far out-of-range indices that alias an in-range one modulo a power of two / the DoF
                    dof = gen.GROUPS[group]["dof"]
                    i = i % dof + (16, 32, -16, 256, 65536, dof, 2 * dof, -dof, 48, -256)[(k // 3 + moff) % 10]
                out.append((gen.req(dbg, st, group, op, 0, [], [i]), [op, "mask0", st, "idx:%d" % i]))
                continue
            if op == "element":
                if not group.startswith("B:"):
                    continue
                a, tags = gen.element(r, group, norm="valid")
                i = r.randrange(len(group[2:].split(",")))
                out.append((gen.req(dbg, "o", group, op, 0, a, [i]), [op, "mask0", "o", "idx:%d" % i]))
                continue
            if op == "innerWeights":
                out.append((gen.req(dbg, st, group, op, 0, []), [op, "mask0", st]))
                continue
            if op == "vee":
                m = alg_size(group)
                a = [r.choice([0.0, 1.0, -2.5, r.uniform(-10, 10)]) for _ in range(m * m)]
                out.append((gen.req(dbg, st, group, op, 0, a), [op, "mask0", st, "alg:generic"]))
                continue
            if op in MUTATING and st == "c":
                st = "m"
            if op in UNARY_T or op in ALIAS_T:
                a, tags = gen.tangent(r, group)
            elif op in UNARY_G or op in ALIAS_G:
                a, tags = gen.element(r, group, norm=norm)
            elif op in BINARY_GG or op in ALIAS_GG:
                a1, t1 = gen.element(r, group, norm=norm)
                a2, t2 = gen.element(r, group, norm=norm)
                u = r.random()
                if u < 0.1:              # identical operands
                    a2, t2 = a1, ["same"]
                elif u < 0.35:           # true neighbours: small relative transform, any absolute position
                    a2, t2 = gen.nudge(r, group, a1)
                a, tags = a1 + a2, t1 + t2
            elif op in BINARY_TT:
                a1, t1 = gen.tangent(r, group)
                a2, t2 = gen.tangent(r, group)
                a, tags = a1 + a2, t1 + t2
            elif op in BINARY_GT or op in ALIAS_GT:
                a1, t1 = gen.element(r, group, norm=norm)
                a2, t2 = gen.tangent(r, group)
                a, tags = a1 + a2, t1 + t2
            else:
                a1, t1 = gen.element(r, group, norm=norm)
                a2, t2 = gen.point(r, group)
                a, tags = a1 + a2, t1 + t2
            out.append((gen.req(dbg, st, group, op, mask, a), [op, "mask%d" % mask, st] + tags))
    return out


T_VALUES = [0.0, 1.0, 0.5, 0.25, 1e-9, 1 - 1e-9, -0.1, 1.5, -1e-300, 1.0000000000000002, float("nan")]


def small_tangent(r, group, radius, zero_ang=False):
    g = gen.GROUPS[group]
    out = []
    for kind, n in g["tan"]:
        m = radius * r.random()
        if zero_ang and kind in ("ang1", "ang3"):
            m = 0.0        # same orientation for the whole cloud: relative rotations exactly zero
        d, _ = gen.direction(r, n if kind != "ang1" else 1)
        out += [m * x for x in d]
    return out


def make_points(exe, r, group, count, radius, dbg=True, lin_only=("zero", "unit", "large"), same_orientation=None):
    """a cloud of `count` valid elements within geodesic radius `radius` of a random centre,
    produced by the implementation itself (X.rplus(delta)); -> (centre, points, tags)"""
    X, tags = gen.element(r, group, norm="exact", lin_only=list(lin_only))
    zero_ang = (r.random() < 0.25) if same_orientation is None else same_orientation
    if zero_ang:
        tags = tags + ["cloud:same-orientation"]
    lines = [gen.req(dbg, "o", group, "rplus", 0, X + small_tangent(r, group, radius, zero_ang)) for _ in range(count)]
    rc, out, err = vlib.run_lines(exe, lines)
    pts = []
    for o in out:
        t = o.split()
        if t[0] != "ok":
            raise RuntimeError("pre-stage rplus failed: " + o)
        pts.append([gen.of_hex(x) for x in t[1:]])
    return X, pts, tags


def _angle(r):
    k = r.choice(["strata", "periods", "euler"])
    if k == "strata":
        return gen.pick(r, gen.ANGLE_STRATA)[1] * r.choice([-1.0, 1.0])
    if k == "periods":
        return r.uniform(-1000.0, 1000.0)
    return r.choice([0.0, math.pi / 2, -math.pi / 2, math.pi, -math.pi, math.pi / 2 - 1e-9, 1.5707963267948966, 3.0, -3.0])


def _rotmat(r):
    """a 3x3 rotation matrix (row-major) from a random unit quaternion; trace <= 0 cases included"""
    q, tags = gen.element(r, "SO3", norm="exact")
    x, y, z, w = q
    return [1 - 2 * (y * y + z * z), 2 * (x * y - w * z), 2 * (x * z + w * y),
            2 * (x * y + w * z), 1 - 2 * (x * x + z * z), 2 * (y * z - w * x),
            2 * (x * z - w * y), 2 * (y * z + w * x), 1 - 2 * (x * x + y * y)], tags


def ctor_requests(r, group, n, dbg):
    """constructors, setters, accessors, normalize; norms on both sides of the acceptance threshold"""
    out = []
    G = gen.GROUPS[group]
    for _ in range(n):
        X, tags = gen.element(r, group, norm="any")
        out.append((gen.req(dbg, "o", group, "make", 0, X), ["make"] + tags))
        if group not in NO_ROTATION:
            out.append((gen.req(dbg, "o", group, "normalize", 0, X), ["normalize"] + tags))
        if group in ("SO2", "SE2", "SO3", "SE3"):
            Xv, tv = gen.element(r, group, norm="valid")
            out.append((gen.req(dbg, "o", group, "accessors", 0, Xv), ["accessors"] + tv))
        lin = lambda k: [gen.pick(r, gen.LIN_STRATA)[1] * r.choice([-1, 1]) for _ in range(k)]
        if group == "SO2":
            a = _angle(r)
            out.append((gen.req(dbg, "o", group, "ctor_angle", 0, [a]), ["ctor_angle", "a:%.3g" % a]))
        elif group == "SE2":
            a = _angle(r)
            out.append((gen.req(dbg, "o", group, "ctor_xyt", 0, lin(2) + [a]), ["ctor_xyt", "a:%.3g" % a]))
            c, s_ = math.cos(a), math.sin(a)
            k = r.choice([1.0, 1.0, 1 + 1e-15, 1 + 1e-9])
            t = lin(2)
            out.append((gen.req(dbg, "o", group, "ctor_iso", 0, [c * k, -s_, t[0], s_, c * k, t[1], 0.0, 0.0, 1.0]), ["ctor_iso", "a:%.3g" % a, "k:%g" % k]))
        elif group == "SO3":
            rpy = [_angle(r), _angle(r), _angle(r)]
            out.append((gen.req(dbg, "o", group, "ctor_rpy", 0, rpy), ["ctor_rpy"] + ["%.3g" % x for x in rpy]))
            ax, dk = gen.direction(r, 3)
            kk = r.choice([1.0, 1.0, 1.0, 1 + 1e-15, 1 + 5e-14, 2.0])
            out.append((gen.req(dbg, "o", group, "ctor_aa", 0, [_angle(r)] + [x * kk for x in ax]), ["ctor_aa", dk, "axisnorm:%g" % kk]))
            q, tq = gen.element(r, group, norm="any")
            Xv, tv = gen.element(r, group, norm="valid")
            out.append((gen.req(dbg, "o", group, "set_quat", 0, Xv + q), ["set_quat"] + tq))
        elif group == "SE3":
            rpy = [_angle(r), _angle(r), _angle(r)]
            out.append((gen.req(dbg, "o", group, "ctor_xyzrpy", 0, lin(3) + rpy), ["ctor_xyzrpy"] + ["%.3g" % x for x in rpy]))
            ax, dk = gen.direction(r, 3)
            out.append((gen.req(dbg, "o", group, "ctor_taa", 0, lin(3) + [_angle(r)] + ax), ["ctor_taa", dk]))
            q, tq = gen.element(r, "SO3", norm="any")
            out.append((gen.req(dbg, "o", group, "ctor_tso3", 0, lin(3) + q), ["ctor_tso3"] + tq))
            Rm, tr = _rotmat(r)
            t = lin(3)
            out.append((gen.req(dbg, "o", group, "ctor_iso", 0, Rm[0:3] + [t[0]] + Rm[3:6] + [t[1]] + Rm[6:9] + [t[2]] + [0.0, 0.0, 0.0, 1.0]), ["ctor_iso"] + tr))
            Xv, tv = gen.element(r, group, norm="valid")
            out.append((gen.req(dbg, "o", group, "set_quat", 0, Xv + q), ["set_quat"] + tq))
        elif group in ("SE_2_3", "SGal3"):
            Rm, tr = _rotmat(r)
            t = lin(3)
            extra = lin(3) + ([lin(1)[0]] if group == "SGal3" else [])
            out.append((gen.req(dbg, "o", group, "ctor_iso", 0, Rm[0:3] + [t[0]] + Rm[3:6] + [t[1]] + Rm[6:9] + [t[2]] + [0.0, 0.0, 0.0, 1.0] + extra), ["ctor_iso"] + tr))
    return out


def approx_requests(exe, r, group, n, dbg):
    """isApprox / == on pairs at controlled tangent distance, and on tangents"""
    out = []
    G = gen.GROUPS[group]
    for _ in range(n):
        eps = r.choice([None, gen.EPS, 1e-8, 1e-3])
        e = gen.EPS if eps is None else eps
        scale = r.choice([0.0, 0.01, 0.5, 0.999, 1.001, 2.0, 100.0])
        X, tags = gen.element(r, group, norm="exact")
        delta = []
        for kind, k in G["tan"]:
            d, _ = gen.direction(r, k if kind != "ang1" else 1)
            delta += [scale * e * x for x in d]
        rc, o, err = vlib.run_lines(exe, [gen.req(dbg, "o", group, "rplus", 0, X + delta)])
        if not o or not o[0].startswith("ok"):
            continue
        Y = [gen.of_hex(x) for x in o[0].split()[1:]]
        tg = ["isApprox", "eps:%r" % eps, "dist:%g" % scale] + tags
        for A, B in ((X, Y), (Y, X), (X, X)):
            out.append((gen.req(dbg, "o", group, "isApprox", 0, A + B + ([] if eps is None else [eps])), tg))
        Xn = None
        i = 0
        for kind, k in G["rep"]:
            if kind == "quat":
                Xn = X[:i] + [-c for c in X[i:i + 4]] + X[i + 4:]
            i += k
        if Xn:
            out.append((gen.req(dbg, "o", group, "isApprox", 0, X + Xn + ([] if eps is None else [eps])), tg + ["q/-q"]))
        # tangents
        a, ta = gen.tangent(r, group, angle_only=["zero", "small", "low", "generic"], lin_only=["zero", "tiny", "unit", "large"])
        mode = r.choice(["abs", "rel", "same"])
        if mode == "abs":
            a = [x * e * r.choice([0.1, 0.5, 2.0]) for x in a]
            b = [x + scale * e * r.uniform(-1, 1) for x in a]
        elif mode == "rel":
            b = [x * (1 + scale * e * r.uniform(-1, 1)) for x in a]
        else:
            b = list(a)
        tg = ["t_isApprox", "eps:%r" % eps, "dist:%g" % scale, mode] + ta
        for A, B in ((a, b), (b, a), (a, a)):
            out.append((gen.req(dbg, "o", group, "t_isApprox", 0, A + B + ([] if eps is None else [eps])), tg))
    return out


def algo_requests(exe, r, group, n, dbg, ops=("interp_slerp", "interp_cubic", "interp_smooth", "phi", "avg_bi", "avg_w", "avg_fl", "avg_fr", "decasteljau")):
    out = []
    G = gen.GROUPS[group]
    for op in ops:
        for _ in range(n):
            if op == "phi":
                t = r.choice(T_VALUES + [r.random() for _ in range(6)])
                m = r.choice([1, 2, 3, 4, 0, 5, -1, 9])
                out.append((gen.req(dbg, "o", group, op, 0, [t], [m]), [op, "m%d" % m, "t:%r" % (t if t in T_VALUES else "rand")]))
            elif op.startswith("interp"):
                A, ta_ = gen.element(r, group, norm="exact", lin_only=["zero", "unit", "large"])
                B, tb_ = gen.element(r, group, norm="exact", lin_only=["zero", "unit", "large"])
                t = r.choice(T_VALUES + [r.random() for _ in range(8)])
                tag_t = "t:%r" % (t if t in T_VALUES else "rand")
                if op == "interp_slerp":
                    out.append((gen.req(dbg, "o", group, op, 0, A + B + [t]), [op, tag_t] + ta_ + tb_))
                else:
                    va = small_tangent(r, group, r.choice([0.0, 0.3, 2.0]))
                    vb = small_tangent(r, group, r.choice([0.0, 0.3, 2.0]))
                    ints = [r.choice([1, 2, 3, 4, 3, 3, 0, 5, -1])] if op == "interp_smooth" else []
                    out.append((gen.req(dbg, "o", group, op, 0, A + B + [t] + va + vb, ints), [op, tag_t] + (["m%d" % ints[0]] if ints else []) + ta_ + tb_))
            elif op.startswith("avg"):
                cnt = r.choice([0, 1, 2, 3, 5, 8])
                X, pts, tags = make_points(exe, r, group, cnt, r.choice([0.0, 1e-9, 0.1, 0.5]), dbg) if cnt else (None, [], [])
                eps = r.choice([gen.EPS, gen.EPS, 1e-10, 1e-20])
                mi = r.choice([20, 20, 1, 0, 3])
                out.append((gen.req(dbg, "o", group, op, 0, [eps] + [c for p in pts for c in p], [mi]), [op, "n%d" % cnt, "it%d" % mi] + tags))
            elif op == "decasteljau":
                N = r.choice([0, 1, 2, 3, 4, 5, 6, 7, 9])
                d = r.choice([2, 2, 3, 3, 4, N, N + 1, max(2, N - 1)])
                k = r.choice([1, 2, 3, 0])
                cl = r.choice([0, 1])
                if d < 2:
                    d = 2
                X, pts, tags = make_points(exe, r, group, N, 0.8, dbg) if N else (None, [], [])
                if N >= 2 and r.random() < 0.3:      # duplicated end points / a repeated control point
                    if r.random() < 0.7:
                        pts[-1] = list(pts[0])
                    else:
                        j = r.randrange(1, N)
                        pts[j] = list(pts[j - 1])
                    tags = tags + ["dup"]
                out.append((gen.req(dbg, "o", group, op, 0, [c for p in pts for c in p], [d, k, cl]), [op, "N%d" % N, "d%d" % d, "k%d" % k, "cl%d" % cl] + tags))
    return out


def same(a, b):
    """bit equality with ±0 and NaN identified"""
    if a == b:
        return True
    z = ("0000000000000000", "8000000000000000")
    return a in z and b in z


# Outputs that go through Eigen's GEMM kernel (products of 9x9 / 10x10 / dynamic Jacobians), whose
# blocked summation order the model does not reproduce: compared under a rounding tolerance
# relative to the largest entry of the output instead of bit for bit.  Everything else is exact.
TOL_CELLS = {("SE_2_3", "lplus"), ("SE_2_3", "lminus"), ("SGal3", "lplus"), ("SGal3", "lminus"),
             ("SE_2_3", "bracket"), ("SE_2_3", "inner"), ("SE_2_3", "sqwnorm"), ("SE_2_3", "wnorm"),
             ("SE_2_3", "avg_w"), ("SE_2_3", "avg_fl"), ("SE_2_3", "avg_fr"),
             ("SGal3", "avg_w"), ("SGal3", "avg_fl"), ("SGal3", "avg_fr"),
             ("SGal3", "bracket"), ("SGal3", "inner"), ("SGal3", "sqwnorm"), ("SGal3", "wnorm")}
# SGal3's rjacinv / ljacinv are `rjac().inverse()` / `ljac().inverse()`: Eigen's general LU inverse of a 10x10
# matrix.  The model eliminates in the same order (unblocked partial pivoting) but solves the triangular
# systems plainly, so these outputs (and log / rminus / lminus Jacobians built on them) agree to rounding:
# |impl - model| <= max(1e-12 s, 1e-13 s^2), s = largest entry (the s^2 term covers the pole of J^-1 at 2 pi).
LU_CELLS = {("SGal3", "rjacinv"), ("SGal3", "ljacinv"), ("SGal3", "log"), ("SGal3", "rminus"), ("SGal3", "lminus")}
GEMM_OPS = {"lplus", "lminus", "bracket", "inner", "sqwnorm", "wnorm", "avg_w", "avg_fl", "avg_fr"}
TOL_REL = 1e-12


CANON = {"plus": "rplus", "op+": "rplus", "op+=": "rplus", "minus": "rminus", "op-": "rminus", "op*": "compose",
         "op*=": "compose", "t+X": "lplus", "t.plus": "lplus", "t.lplus": "lplus", "t.rplus": "rplus",
         "f_rplus": "rplus", "f_lplus": "lplus", "f_plus": "rplus", "f_rminus": "rminus", "f_lminus": "lminus",
         "f_minus": "rminus", "f_compose": "compose", "f_between": "between", "f_inverse": "inverse",
         "f_log": "log", "f_exp": "exp", "f_act": "act"}


def compare(impl, model, cell=None, tol_rel=None):
    """-> (equal?, description)"""
    tol_rel = TOL_REL if tol_rel is None else tol_rel
    if impl == model:
        return True, ""
    if cell is not None:
        cell = (cell[0], CANON.get(cell[1], cell[1]))
        if cell[0].startswith("B:") and "SGal3" in cell[0] and ("SGal3", cell[1]) in LU_CELLS:
            cell = ("SGal3", cell[1])         # the element's LU-based inverse Jacobians
        elif cell[0].startswith("B:") and gen.GROUPS[cell[0]]["dof"] >= 8 and cell[1] in GEMM_OPS:
            cell = ("SE_2_3", "lplus")        # same treatment: rounding tolerance
    if cell in TOL_CELLS and cell[1] in ("avg_w", "avg_fl", "avg_fr"):
        # iterative GEMM cells (see the tolerance below): on an ill-conditioned cloud the iteration can leave the
        # validity band on one side only (the summation order of the 10x10 products differs) - an element that fails
        # validation on one side and a value on the other are not comparable
        ti, tm = impl.split(), model.split()
        if {ti[0], tm[0]} == {"ok", "err"} and "invalid_argument" in (ti[1:2] + tm[1:2]):
            return True, "iter-status"
    if cell in TOL_CELLS or cell in LU_CELLS:
        ti, tm = impl.split(), model.split()
        if ti[:1] == tm[:1] == ["ok"] and len(ti) == len(tm):
            a = [gen.of_hex(x) for x in ti[1:]]
            b = [gen.of_hex(x) for x in tm[1:]]
            fin_a = [x for x in a if x == x and abs(x) != float("inf")]
            scale = max([1.0] + [abs(x) for x in fin_a])
            tol = tol_rel * scale
            if cell[1] in ("avg_w", "avg_fl", "avg_fr"):
                # iterative algorithms: up to `max_iterations` steps, each through a GEMM-evaluated Jacobian
                # product; on ill-conditioned clouds (near the cut locus, large coordinates) the rounding
                # difference of one step is amplified by the following ones (observed: 2e-12 relative)
                tol = max(tol, min(1e4 * tol_rel, 1e-3) * scale)
            if cell in LU_CELLS:
                tol = max(tol, 0.1 * tol_rel * scale * scale)
            nonfin = lambda z: z != z or abs(z) == float("inf")
            # LU cells only: at the pole of J^-1 (|theta| = 2 pi, singular matrix) the general inverse overflows;
            # whether an entry ends up inf or NaN depends on the order of the triangular solves, which the model
            # knowingly does not reproduce (and a NaN then spreads through 0 * inf into rows Eigen keeps exact): when BOTH
            # sides overflowed, only the entries that are finite on both sides are compared
            lu = cell in LU_CELLS and any(nonfin(x) for x in a) and any(nonfin(y) for y in b)     # both overflowed
            ok = all((x == y) or (x != x and y != y) or (lu and (nonfin(x) or nonfin(y))) or abs(x - y) <= tol for x, y in zip(a, b))
            if ok:
                return True, "tol"
    ti, tm = impl.split(), model.split()
    if ti[:1] != tm[:1] or (ti and ti[0] != "ok"):
        return False, "status impl=%r model=%r" % (" ".join(ti[:2]), " ".join(tm[:2]))
    if len(ti) != len(tm):
        return False, "arity impl=%d model=%d" % (len(ti) - 1, len(tm) - 1)
    bad = [i for i in range(1, len(ti)) if not same(ti[i], tm[i])]
    if not bad:
        return True, ""
    i = bad[0]
    return False, "value[%d] impl=%s(%r) model=%s(%r) (%d of %d differ)" % (
        i - 1, ti[i], gen.of_hex(ti[i]), tm[i], gen.of_hex(tm[i]), len(bad), len(ti) - 1)


def run(reqs, harness_exe, jobs=8, driver=None):
    lines = [l for l, _ in reqs]
    if not lines:
        return [], []
    rc1, impl, err1 = vlib.run_lines_parallel(harness_exe, lines, jobs)
    rc2, model, err2 = vlib.run_lines_parallel(driver or vlib.DRIVER, lines, jobs)
    if len(impl) != len(lines) or len(model) != len(lines):
        raise RuntimeError("protocol desync: %d requests, %d impl, %d model responses (rc %d/%d)\n%s\n%s"
                           % (len(lines), len(impl), len(model), rc1, rc2, err1[-2000:], err2[-2000:]))
    return impl, model


if __name__ == "__main__":
    seed = int(sys.argv[1]) if len(sys.argv) > 1 else 1
    n = int(sys.argv[2]) if len(sys.argv) > 2 else 200
    groups = sys.argv[3].split(",") if len(sys.argv) > 3 else ["SO2", "SE2", "SO3", "SE3"]
    dbg = True
    ok, exe = vlib.harness_build(dbg)
    if not ok:
        print(exe)
        sys.exit(2)
    okl, out = vlib.lean_build()
    if not okl:
        print(out)
        sys.exit(2)
    r = random.Random(seed)
    reqs = []
    for g in groups:
        reqs += requests_for(r, g, n, dbg, storages=("o", "m", "c"))
    impl, model = run(reqs, exe)
    stats = collections.Counter()
    shown = collections.Counter()
    for (line, tags), a, b in zip(reqs, impl, model):
        toks = line.split()
        key = (toks[2], toks[3])
        eq, why = compare(a, b, key)
        stats[(key, eq)] += 1
        if not eq and shown[key] < 3:
            shown[key] += 1
            print("DIFF", key, tags, why)
            print("   ", line)
    keys = sorted(set(k for k, _ in stats))
    for k in keys:
        print("%-8s %-10s equal=%5d differ=%5d" % (k[0], k[1], stats[(k, True)], stats[(k, False)]))
