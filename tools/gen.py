"""gen.py — structured input generators for the correspondence check (L1) and the oracle (L2).

Every random choice derives from one `random.Random(seed)`; a run replays exactly from
VERIF_SEED.  Inputs are built from the strata the properties name (rotation magnitude from 0
through the small-angle switch-over to beyond pi, both quaternion hemispheres, linear parts over
many orders of magnitude, controlled normalisation error), not from a uniform box.
"""
import math
import random
import struct

EPS = 100 * 2.0 ** -52          # Constants<double>::eps
SQRT_EPS = math.sqrt(EPS)       # |theta| at which theta^2 crosses eps  (~1.49e-7)
EPS_D, EPS_F = EPS, 100 * 2.0 ** -23
F32 = False                     # True inside `with float32():` — strata follow Constants<float>


def f32(x):
    """round to the nearest float (what `(float)x` does in the harness and `Float.toFloat32` in the model)"""
    try:
        return struct.unpack("<f", struct.pack("<f", float(x)))[0]
    except OverflowError:
        return math.copysign(float("inf"), x)


class float32:
    """`with gen.float32():` — single-precision mode: thresholds are Constants<float>'s and every
    number put on a request line is exactly representable in float."""

    def __enter__(self):
        global EPS, SQRT_EPS, F32
        self.saved = (EPS, SQRT_EPS, F32)
        EPS, SQRT_EPS, F32 = EPS_F, math.sqrt(EPS_F), True
        return self

    def __exit__(self, *a):
        global EPS, SQRT_EPS, F32
        EPS, SQRT_EPS, F32 = self.saved
        return False

# group descriptions: (rep layout, tangent layout); parts are (kind, size)
GROUPS = {
    "SO2":    dict(rep=[("complex", 2)], tan=[("ang1", 1)], dim=2, dof=1, repsize=2, tsize=3),
    "SE2":    dict(rep=[("vec", 2), ("complex", 2)], tan=[("lin", 2), ("ang1", 1)], dim=2, dof=3, repsize=4, tsize=3),
    "SO3":    dict(rep=[("quat", 4)], tan=[("ang3", 3)], dim=3, dof=3, repsize=4, tsize=4),
    "SE3":    dict(rep=[("vec", 3), ("quat", 4)], tan=[("lin", 3), ("ang3", 3)], dim=3, dof=6, repsize=7, tsize=4),
    "SE_2_3": dict(rep=[("vec", 3), ("quat", 4), ("vec", 3)], tan=[("lin", 3), ("ang3", 3), ("lin", 3)], dim=3, dof=9, repsize=10, tsize=5),
    "SGal3":  dict(rep=[("vec", 3), ("quat", 4), ("vec", 3), ("vec", 1)], tan=[("lin", 3), ("lin", 3), ("ang3", 3), ("lin", 1)], dim=3, dof=10, repsize=11, tsize=5),
    "R1":     dict(rep=[("vec", 1)], tan=[("lin", 1)], dim=1, dof=1, repsize=1, tsize=2),
    "R2":     dict(rep=[("vec", 2)], tan=[("lin", 2)], dim=2, dof=2, repsize=2, tsize=3),
    "R3":     dict(rep=[("vec", 3)], tan=[("lin", 3)], dim=3, dof=3, repsize=3, tsize=4),
    "R5":     dict(rep=[("vec", 5)], tan=[("lin", 5)], dim=5, dof=5, repsize=5, tsize=6),
    "R16":    dict(rep=[("vec", 16)], tan=[("lin", 16)], dim=16, dof=16, repsize=16, tsize=17),
}


class _Groups(dict):
    """`B:<elem>,<elem>,…` (a manif::Bundle) is synthesised from its elements' layouts."""

    def __missing__(self, name):
        if not name.startswith("B:"):
            raise KeyError(name)
        els = [self[e] for e in name[2:].split(",")]
        g = dict(rep=[p for e in els for p in e["rep"]], tan=[p for e in els for p in e["tan"]],
                 dim=sum(e["dim"] for e in els), dof=sum(e["dof"] for e in els),
                 repsize=sum(e["repsize"] for e in els), tsize=sum(e["tsize"] for e in els),
                 elems=name[2:].split(","))
        self[name] = g
        return g


GROUPS = _Groups(GROUPS)
BUNDLES = ["B:SO2", "B:R3", "B:SE3", "B:SO2,R3", "B:R3,SO2", "B:SE2,SO3,R2", "B:SO3,SE2,R5,SO3",
           "B:SE_2_3,R1,SE2", "B:R1,SE3,SO2,SE_2_3,SE2", "B:SE3,SE3", "B:R2,SO3", "B:R1,SGal3,SO2"]


def hex_of(x):
    return "%016x" % struct.unpack("<Q", struct.pack("<d", float(x)))[0]


def of_hex(s):
    return struct.unpack("<d", struct.pack("<Q", int(s, 16)))[0]


# ---------------------------------------------------------------- strata
ANGLE_STRATA = [
    ("zero", lambda r: 0.0),
    ("denormal", lambda r: r.choice([5e-324, 1e-310, 2.2e-308])),
    ("tiny", lambda r: 10.0 ** r.uniform(-300, -160)),           # theta^2 underflows to 0
    ("small", lambda r: 10.0 ** r.uniform(-160, -9)),
    ("below-switch", lambda r: SQRT_EPS * (1 - 10.0 ** r.uniform(-6, -0.05))),
    ("above-switch", lambda r: SQRT_EPS * (1 + 10.0 ** r.uniform(-6, 1))),
    ("cuberoot-switch", lambda r: EPS ** (1.0 / 3) * (1 + r.choice([-1, 1]) * 10.0 ** r.uniform(-6, -0.1))),
    ("fourthroot-switch", lambda r: r.choice([EPS ** 0.25, EPS ** 0.125, EPS ** (1.0 / 6)]) * (1 + r.choice([-1, 1]) * 10.0 ** r.uniform(-6, -0.1))),   # theta^2 = eps^(1/4): SGal3's E matrix switches at theta^8 < eps; theta = eps^(1/4) was its old switch; eps^(1/6): SGal3 ljac block N2
    ("low", lambda r: 10.0 ** r.uniform(-6, -1)),
    ("generic", lambda r: r.uniform(0.1, 3.0)),
    ("near-pi", lambda r: math.pi - 10.0 ** r.uniform(-9, -2)),
    ("near-pi6", lambda r: math.pi - 10.0 ** r.uniform(-6, -2)),     # "up to pi - 1e-6" (C05/C06)
    ("pi", lambda r: math.pi),
    ("beyond-pi", lambda r: r.uniform(math.pi, 4 * math.pi)),
    ("near-2pi", lambda r: 2 * math.pi - 10.0 ** r.uniform(-9, -2)),
]
ANGLE_NAMES = [n for n, _ in ANGLE_STRATA]

LIN_STRATA = [
    ("zero", lambda r: 0.0),
    ("tiny", lambda r: 10.0 ** r.uniform(-12, -6)),
    ("unit", lambda r: r.uniform(0.1, 10.0)),
    ("large", lambda r: 10.0 ** r.uniform(2, 6)),
    ("huge", lambda r: 10.0 ** r.uniform(6, 9)),
]


def direction(r, n):
    kind = r.choice(["axis", "generic", "near-axis"])
    if n == 1:
        return [r.choice([-1.0, 1.0])], kind
    if kind == "axis":
        v = [0.0] * n
        v[r.randrange(n)] = r.choice([-1.0, 1.0])
        return v, kind
    v = [r.gauss(0, 1) for _ in range(n)]
    if kind == "near-axis":
        k = r.randrange(n)
        v = [x * 1e-7 for x in v]
        v[k] = r.choice([-1.0, 1.0])
    s = math.sqrt(sum(x * x for x in v)) or 1.0
    return [x / s for x in v], kind


def pick(r, strata, only=None):
    if only:
        strata = [s for s in strata if s[0] in only]
    name, f = r.choice(strata)
    return name, f(r)


def tangent(r, group, angle_only=None, lin_only=None):
    """-> (coeffs, tags)"""
    g = GROUPS[group]
    out, tags = [], []
    for kind, n in g["tan"]:
        if kind == "ang1":
            nm, th = pick(r, ANGLE_STRATA, angle_only)
            out.append(th * r.choice([-1.0, 1.0]))
            tags.append("ang:" + nm)
        elif kind == "ang3":
            nm, th = pick(r, ANGLE_STRATA, angle_only)
            d, dk = direction(r, 3)
            out += [th * x for x in d]
            tags.append("ang:" + nm + "/" + dk)
        else:
            nm, m = pick(r, LIN_STRATA, lin_only)
            d, dk = direction(r, n)
            out += [m * x for x in d]
            tags.append("lin:" + nm)
    return out, tags


NORM_STRATA = [("exact", 0.0), ("exact", 0.0), ("exact", 0.0), ("+0.4eps", 0.4), ("-0.4eps", -0.4),
               ("+0.9eps", 0.9), ("-0.9eps", -0.9)]
NORM_BAD = [("+1.1eps", 1.1), ("-1.1eps", -1.1), ("+10eps", 10.0), ("-10eps", -10.0), ("far", 1e10)]


# exactly representable unit complex numbers / quaternions (quarter and half turns, Hurwitz units,
# 3-4-5 type rationals are not exact in binary, so only dyadic ones): inputs on which special-case
# code (`if (imag == 0)`, `if (w == 1)`) and exact arithmetic paths are exercised.
EXACT_COMPLEX = [(1.0, 0.0), (-1.0, 0.0), (0.0, 1.0), (0.0, -1.0)]
_H = 0.5
EXACT_QUAT = ([(0.0, 0.0, 0.0, 1.0), (0.0, 0.0, 0.0, -1.0), (1.0, 0.0, 0.0, 0.0), (0.0, 1.0, 0.0, 0.0),
               (0.0, 0.0, 1.0, 0.0), (-1.0, 0.0, 0.0, 0.0), (0.0, -1.0, 0.0, 0.0), (0.0, 0.0, -1.0, 0.0)] +
              [(a * _H, b * _H, c * _H, d * _H) for a in (1, -1) for b in (1, -1) for c in (1, -1) for d in (1, -1)])
EXACT_LIN = [0.0, 1.0, -1.0, 2.0, -0.5, 1024.0, -3.0]


def element(r, group, angle_only=None, lin_only=None, norm="valid", hemi_only=None):
    """A group element in manif's coefficient order.  norm: 'exact' | 'valid' (within the
    acceptance threshold) | 'any' (also outside)."""
    g = GROUPS[group]
    out, tags = [], []
    exact = (angle_only is None or "exact" in angle_only) and hemi_only is None and r.random() < 0.12
    for kind, n in g["rep"]:
        if exact:
            if kind == "complex":
                out += list(r.choice(EXACT_COMPLEX))
                tags.append("ang:exact")
            elif kind == "quat":
                out += list(r.choice(EXACT_QUAT))
                tags.append("ang:exact")
            else:
                out += [r.choice(EXACT_LIN) for _ in range(n)]
                tags.append("lin:exact")
            continue
        if kind == "complex":
            nm, th = pick(r, ANGLE_STRATA, angle_only)
            th *= r.choice([-1.0, 1.0])
            c = [math.cos(th), math.sin(th)]
            c, nt = _denorm(r, c, norm)
            out += c
            tags.append("ang:" + nm + nt)
        elif kind == "quat":
            nm, th = pick(r, ANGLE_STRATA, angle_only)
            d, dk = direction(r, 3)
            s, w = math.sin(th / 2), math.cos(th / 2)
            q = [s * d[0], s * d[1], s * d[2], w]
            nn = math.sqrt(sum(x * x for x in q))
            q = [x / nn for x in q]
            hemi = hemi_only or r.choice(["w+", "w+", "w-"])
            if hemi == "w-":
                q = [-x for x in q] if q[3] > 0 else q
            elif q[3] < 0:
                q = [-x for x in q]
            q, nt = _denorm(r, q, norm)
            out += q
            tags.append("ang:" + nm + "/" + dk + "/" + hemi + nt)
        else:
            nm, m = pick(r, LIN_STRATA, lin_only)
            d, _ = direction(r, n)
            out += [m * x for x in d]
            tags.append("lin:" + nm)
    return out, tags


def nudge(r, group, a):
    """an element close to `a` but different from it: every rotation part turned by a small angle
    (1e-9 .. 1e-5 rad), every linear part moved by a small amount.  -> (coeffs, tags)"""
    g = GROUPS[group]
    out, i = [], 0
    e = 10.0 ** r.uniform(-9, -5)
    for kind, n in g["rep"]:
        c = a[i:i + n]
        if kind == "complex":
            ce, se = math.cos(e), math.sin(e)
            out += [c[0] * ce - c[1] * se, c[1] * ce + c[0] * se]
        elif kind == "quat":
            d, _ = direction(r, 3)
            sh, ch = math.sin(e / 2), math.cos(e / 2)
            px, py, pz, pw = c
            qx, qy, qz, qw = sh * d[0], sh * d[1], sh * d[2], ch
            out += [pw * qx + px * qw + py * qz - pz * qy, pw * qy + py * qw + pz * qx - px * qz,
                    pw * qz + pz * qw + px * qy - py * qx, pw * qw - px * qx - py * qy - pz * qz]
        else:
            m = r.choice([0.0, 10.0 ** r.uniform(-9, -4)])
            d, _ = direction(r, n)
            out += [x + m * y for x, y in zip(c, d)]
        i += n
    return out, ["near:%.0e" % e]


def _denorm(r, c, norm):
    if norm == "exact":
        return c, ""
    strata = NORM_STRATA if norm == "valid" else NORM_STRATA + NORM_BAD
    nm, k = r.choice(strata)
    if k == 0.0:
        return c, ""
    # scale so that the *norm* deviates from 1 by k*eps
    s = 1.0 + k * EPS
    return [x * s for x in c], "/norm" + nm


def point(r, group):
    g = GROUPS[group]
    nm, m = pick(r, LIN_STRATA)
    d, _ = direction(r, g["dim"])
    return [m * x for x in d], ["pt:" + nm]


def req(dbg, storage, group, op, mask, floats=(), ints=()):
    if F32:
        floats = [f32(x) for x in floats]
    return " ".join([("1" if dbg else "0"), storage, group, op, str(mask)]
                    + [hex_of(x) for x in floats] + ["#%d" % i for i in ints])
