"""apimatrix.py — C19: the documented generic API instantiated for every group, scalar and storage.

The matrix   {documented API entry} x {group} x {float, double} x {owning, Map, Map<const>}
is *generated*: the alias entries come from lean/ManifModel/Api.lean (the same table the model
resolves aliases through and `alias_table`/`swapped_table` are proved about), the remaining
entries from ENTRIES below (DESIGN.md Appendix A: README operation table, LieGroupBase /
TangentBase public members, functions.h, algorithms/*.h, per-group accessors).

Every cell is one function template, explicitly instantiated; all cells of one (group, scalar)
share a translation unit.  If the TU compiles, every cell in it instantiates.  If it does not,
each cell is compiled on its own (`-DHX_ONLY=<n>`) so that the failing one-entry client programs
are identified exactly, with the compiler diagnostic as the replay.  The TUs are linked into
one program (link clause: no multiply-defined symbol across TUs including the same headers)
and run: every alias cell compares its result with the canonical member's on the same operands
(bit equality), every other cell must return without raising.
"""
import hashlib
import os
import re
import subprocess
import sys
from concurrent.futures import ThreadPoolExecutor

import vlib

ROOT = vlib.ROOT
API_LEAN = os.path.join(ROOT, "lean", "ManifModel", "Api.lean")

# ------------------------------------------------------------------ groups of the matrix
# name -> (C++ type with SC placeholder, group-side const accessors, group-side mutating, tangent accessors)
ROT3_C = ["X.transform()", "X.rotation()", "X.quat()", "X.x()", "X.y()", "X.z()"]
GROUPS = {
    "SO2": ("manif::SO2<SC>", ["X.transform()", "X.rotation()", "X.real()", "X.imag()", "X.angle()"],
            ["XM.normalize()"], ["t.angle()"]),
    "SE2": ("manif::SE2<SC>", ["X.transform()", "X.isometry()", "X.rotation()", "X.translation()", "X.real()",
                                "X.imag()", "X.angle()", "X.x()", "X.y()"], ["XM.normalize()"],
            ["t.x()", "t.y()", "t.angle()"]),
    "SO3": ("manif::SO3<SC>", ROT3_C + ["X.w()"],
            ["XM.normalize()", "XM.quat(Eigen::Quaternion<Sc>::Identity())",
             "XM.quat(Eigen::Matrix<Sc, 4, 1>(Sc(0), Sc(0), Sc(0), Sc(1)))"], ["t.x()", "t.y()", "t.z()", "t.ang()"]),
    "SE3": ("manif::SE3<SC>", ROT3_C + ["X.isometry()", "X.translation()", "X.asSO3()"],
            ["XM.normalize()", "XM.quat(Eigen::Quaternion<Sc>::Identity())", "XM.quat(manif::SO3<Sc>::Identity())",
             "XM.translation(Eigen::Matrix<Sc, 3, 1>::Zero())", "XM.asSO3()"],
            ["t.lin()", "t.ang()", "t.asSO3()"]),
    "SE_2_3": ("manif::SE_2_3<SC>", ROT3_C + ["X.isometry()", "X.translation()", "X.linearVelocity()", "X.vx()",
                                                "X.vy()", "X.vz()", "X.asSO3()"],
               ["XM.normalize()", "XM.asSO3()"], ["t.lin()", "t.ang()", "t.lin2()", "t.asSO3()"]),
    "SGal3": ("manif::SGal3<SC>", ROT3_C + ["X.isometry()", "X.translation()", "X.linearVelocity()", "X.vx()",
                                              "X.vy()", "X.vz()", "X.t()", "X.asSO3()"],
              ["XM.normalize()", "XM.asSO3()"], ["t.lin()", "t.ang()", "t.lin2()", "t.t()", "t.asSO3()"]),
    "R1": ("manif::Rn<SC, 1>", ["X.transform()"], [], []),
    "R3": ("manif::Rn<SC, 3>", ["X.transform()"], [], []),
    "R7": ("manif::Rn<SC, 7>", ["X.transform()"], [], []),
    "B1": ("manif::Bundle<SC, manif::SE2, manif::SO3, manif::R2>",
           ["X.transform()", "X.template element<0>()", "X.template element<1>()", "X.template element<2>()"],
           ["XM.template element<1>()"], ["t.template element<0>()", "t.template element<2>()"]),
    "B2": ("manif::Bundle<SC, manif::SE_2_3, manif::R1, manif::SGal3, manif::SO2>",
           ["X.transform()", "X.template element<0>()", "X.template element<3>()"],
           ["XM.template element<2>()"], ["t.template element<1>()", "t.template element<3>()"]),
}
SCALARS = ["double", "float"]
STORAGES = ["o", "m", "c"]

# ------------------------------------------------------------------ alias entries (from Api.lean)
# C++ spelling of every alias and of every canonical member.  Operands: X, Y (group, storage S),
# t, s (tangent, storage S); results are compared coefficient-wise with bit equality.
# kind: "GG"->G, "GT"->G, "GG_T"->T, "G"->G|T, "T"->G, "act"
CANON_CPP = {
    "rplus": ("GT", "X.rplus(t, Ja, Jb)"), "lplus": ("GT", "X.lplus(t, Ja, Jb)"),
    "rminus": ("GG_T", "X.rminus(Y, Ja, Jb)"), "lminus": ("GG_T", "X.lminus(Y, Ja, Jb)"),
    "compose": ("GG", "X.compose(Y, Ja, Jb)"), "between": ("GG", "X.between(Y, Ja, Jb)"),
    "inverse": ("G", "X.inverse(Ja)"), "log": ("G_T", "X.log(Ja)"), "exp": ("T", "t.exp(Ja)"),
    "act": ("act", "X.act(v, Jm, Jv)"),
}
# alias -> (C++ expression, has Jacobian outputs?, mutating?)
ALIAS_CPP = {
    "plus": ("X.plus(t, Ka, Kb)", 2, False), "op+": ("X + t", 0, False), "op+=": ("(XM += t)", 0, True),
    "minus": ("X.minus(Y, Ka, Kb)", 2, False), "op-": ("X - Y", 0, False),
    "op*": ("X * Y", 0, False), "op*=": ("(XM *= Y)", 0, True),
    "t+X": ("t + X", 0, False),
    "lift": ("X.lift(Ka)", 1, False), "retract": ("t.retract(Ka)", 1, False),
    "f_inverse": ("manif::inverse(X, Ka)", 1, False), "f_rplus": ("manif::rplus(X, t, Ka, Kb)", 2, False),
    "f_lplus": ("manif::lplus(X, t, Ka, Kb)", 2, False), "f_plus": ("manif::plus(X, t, Ka, Kb)", 2, False),
    "f_rminus": ("manif::rminus(X, Y, Ka, Kb)", 2, False), "f_lminus": ("manif::lminus(X, Y, Ka, Kb)", 2, False),
    "f_minus": ("manif::minus(X, Y, Ka, Kb)", 2, False), "f_log": ("manif::log(X, Ka)", 1, False),
    "f_exp": ("manif::exp(t, Ka)", 1, False), "f_compose": ("manif::compose(X, Y, Ka, Kb)", 2, False),
    "f_between": ("manif::between(X, Y, Ka, Kb)", 2, False), "f_act": ("manif::act(X, v, Km, Kv)", 2, False),
    # tangent-side forms: optional outputs in swapped order
    "t.plus": ("t.plus(X, Kb, Ka)", 2, False), "t.lplus": ("t.lplus(X, Kb, Ka)", 2, False),
    "t.rplus": ("t.rplus(X, Kb, Ka)", 2, False),
}


def api_tables():
    """parse aliasTable and swappedTable out of Api.lean"""
    src = open(API_LEAN).read()
    out = {}
    for name in ("aliasTable", "swappedTable"):
        m = re.search(r"def %s[^\n]*:=\s*\[(.*?)\]" % name, src, re.S)
        out[name] = re.findall(r'\("([^"]+)",\s*"([^"]+)"\)', m.group(1))
    return out


# ------------------------------------------------------------------ non-alias entries
# (name, mutating?, body).  Bodies may use: X Y (const GS&), Xo Yo (const G&), XM (GS&), t s
# (const TS&), to (const T&), tM (TS&), v (G::Vector), vv (DoF vector), a (Sc), Ja Jb (J),
# Jm Jv, A (LieAlg), os (std::ostream&), pts (std::vector<G>).
ENTRIES = [
    # ---- group side
    ("inverse", False, "G r = X.inverse(); G r2 = X.inverse(Ja); use(r); use(r2);"),
    ("compose", False, "G r = X.compose(Y); G r2 = X.compose(Yo, Ja, Jb); use(r); use(r2);"),
    ("act", False, "V r = X.act(v); V r2 = X.act(v, Jm, Jv); use(r); use(r2);"),
    ("log", False, "T r = X.log(); T r2 = X.log(Ja); use(r); use(r2);"),
    ("adj", False, "J r = X.adj(); use(r);"),
    ("rplus", False, "G r = X.rplus(t); G r2 = X.rplus(to, Ja, Jb); use(r); use(r2);"),
    ("lplus", False, "G r = X.lplus(t); G r2 = X.lplus(to, Ja, Jb); use(r); use(r2);"),
    ("rminus", False, "T r = X.rminus(Y); T r2 = X.rminus(Yo, Ja, Jb); use(r); use(r2);"),
    ("lminus", False, "T r = X.lminus(Y); T r2 = X.lminus(Yo, Ja, Jb); use(r); use(r2);"),
    ("between", False, "G r = X.between(Y); G r2 = X.between(Yo, Ja, Jb); use(r); use(r2);"),
    ("isApprox", False, "bool b = X.isApprox(Y, a); bool b2 = X.isApprox(Yo); use(b); use(b2);"),
    ("op==", False, "bool b = (X == Y); bool b2 = (X == Yo); use(b); use(b2);"),
    ("coeffs_const", False, "const typename G::DataType& c = X.coeffs(); const Sc* p = X.data(); use(c); use(p);"),
    ("index_size", False, "Sc c0 = X[0]; unsigned n = X.size(); use(c0); use(n);"),
    ("cast", False, "auto Xf = X.template cast<float>(); auto Xd = X.template cast<double>(); use(Xf); use(Xd);"),
    ("stream", False, "os << X;"),
    ("copy_construct", False, "G r(X); G r2(X.coeffs()); use(r); use(r2);"),
    ("Identity", False, "G r = G::Identity(); use(r);"),
    ("Random", False, "G r = G::Random(); use(r);"),
    ("setIdentity", True, "XM.setIdentity();"),
    ("setRandom", True, "XM.setRandom();"),
    ("assign", True, "XM = Y; XM = Yo; XM = Yo.coeffs();"),
    ("coeffs_mut", True, "typename G::DataType c = XM.coeffs(); Sc* p = XM.data(); XM.coeffs() = c; use(p);"),
    ("index_mut", True, "XM[0] = XM[0];"),
    # ---- tangent side
    ("hat", False, "typename T::LieAlg r = t.hat(); use(r);"),
    ("exp", False, "G r = t.exp(); G r2 = t.exp(Ja); use(r); use(r2);"),
    ("rjac", False, "J r = t.rjac(); use(r);"),
    ("ljac", False, "J r = t.ljac(); use(r);"),
    ("rjacinv", False, "J r = t.rjacinv(); use(r);"),
    ("ljacinv", False, "J r = t.ljacinv(); use(r);"),
    ("smallAdj", False, "J r = t.smallAdj(); use(r);"),
    ("bracket", False, "T r = t.bracket(s); T r2 = t.bracket(to); T r3 = TS::Bracket(t, s); T r4 = T::Bracket(to, s); use(r4); use(r); use(r2); use(r3);"),
    ("Vee", False, "T r = T::Vee(A); use(r);"),
    ("setVee", True, "tM.setVee(A);"),
    ("generator", False, "typename T::LieAlg r = t.generator(0); typename T::LieAlg r2 = T::Generator(0); use(r); use(r2);"),
    ("innerWeights", False, "typename T::InnerWeightsMatrix r = t.innerWeights(); typename T::InnerWeightsMatrix r2 = T::InnerWeights(); use(r); use(r2);"),
    ("inner", False, "Sc r = t.inner(s); Sc r2 = t.inner(to); use(r); use(r2);"),
    ("weightedNorm", False, "Sc r = t.weightedNorm(); Sc r2 = t.squaredWeightedNorm(); use(r); use(r2);"),
    ("t_plus_t", False, "T r = t.plus(s); T r2 = t.plus(to, Ja, Jb); T r3 = t + s; use(r); use(r2); use(r3);"),
    ("t_minus_t", False, "T r = t.minus(s); T r2 = t.minus(to, Ja, Jb); T r3 = t - s; use(r); use(r2); use(r3);"),
    ("t_compound_t", True, "tM += s; tM -= s; tM += to; tM -= to;"),
    ("t_compound_v", True, "tM += vv; tM -= vv;"),
    ("t_op_v", False, "T r = t + vv; T r2 = t - vv; use(r); use(r2);"),
    ("v_op_t", False, "typename T::DataType r = vv + t; typename T::DataType r2 = vv - t; use(r); use(r2);"),
    ("t_scale_compound", True, "tM *= a; tM /= a;"),
    ("t_scale", False, "T r = t * a; T r2 = a * t; T r3 = t / a; T r4 = -t; use(r); use(r2); use(r3); use(r4);"),
    ("J_times_t", False, "T r = Ja * t; use(r);"),
    ("t_eq", False, "bool b = (t == s); bool b2 = (t == to); bool b3 = (t == vv); use(b); use(b2); use(b3);"),
    ("t_isApprox", False, "bool b = t.isApprox(s, a); bool b2 = t.isApprox(to); bool b3 = t.isApprox(vv, a); use(b); use(b2); use(b3);"),
    ("t_coeffs_const", False, "const typename T::DataType& c = t.coeffs(); const Sc* p = t.data(); use(c); use(p);"),
    ("t_index_size", False, "Sc c0 = t[0]; unsigned n = t.size(); use(c0); use(n);"),
    ("t_cast", False, "auto tf = t.template cast<float>(); auto td = t.template cast<double>(); use(tf); use(td);"),
    ("t_stream", False, "os << t;"),
    ("t_copy_construct", False, "T r(t); T r2(t.coeffs()); use(r); use(r2);"),
    ("Zero", False, "T r = T::Zero(); use(r);"),
    ("t_Random", False, "T r = T::Random(); use(r);"),
    ("setZero", True, "tM.setZero();"),
    ("t_setRandom", True, "tM.setRandom();"),
    ("t_assign", True, "tM = s; tM = to; tM = to.coeffs();"),
    ("t_coeffs_mut", True, "typename T::DataType c = tM.coeffs(); Sc* p = tM.data(); tM.coeffs() = c; use(p);"),
    ("t_index_mut", True, "tM[0] = tM[0];"),
    # ---- free functions (functions.h) that are not plain aliases
    ("f_coeffs_data", False, "const typename G::DataType& c = manif::coeffs(X); const Sc* p = manif::data(X); "
                             "const typename T::DataType& c2 = manif::coeffs(t); const Sc* p2 = manif::data(t); use(c); use(p); use(c2); use(p2);"),
    ("f_data_mut", True, "Sc* p = manif::data(XM); Sc* p2 = manif::data(tM); use(p); use(p2);"),
    ("f_identity", True, "manif::identity(XM); G r = manif::Identity<G>(); use(r);"),
    ("f_zero", True, "manif::zero(tM); T r = manif::Zero<T>(); use(r);"),
    ("f_random", True, "manif::random(XM); manif::random(tM); G r = manif::Random<G>(); T r2 = manif::Random<T>(); use(r); use(r2);"),
    # ---- algorithms
    ("interpolate", False, "G r = manif::interpolate(X, Y, Sc(0.25)); "
                           "G r2 = manif::interpolate(X, Y, Sc(0.25), manif::INTERP_METHOD::CUBIC, to, to); "
                           "G r3 = manif::interpolate(X, Y, Sc(0.25), manif::INTERP_METHOD::CNSMOOTH, to, to); use(r); use(r2); use(r3);"),
    ("interpolate_named", False, "G r = manif::interpolate_slerp(X, Y, Sc(0.5)); G r2 = manif::interpolate_cubic(X, Y, Sc(0.5)); "
                                 "G r3 = manif::interpolate_smooth(X, Y, Sc(0.5), 3); use(r); use(r2); use(r3);"),
    ("smoothing_phi", False, "Sc r = manif::smoothing_phi(a, 3); use(r);"),
    ("average_biinvariant", False, "G r = manif::average_biinvariant(pts); G r2 = manif::average_biinvariant(pts, a, 5); use(r); use(r2);"),
    ("average", False, "G r = manif::average(pts); G r2 = manif::average(pts, a, 5); use(r); use(r2);"),
    ("average_frechet_left", False, "G r = manif::average_frechet_left(pts); use(r);"),
    ("average_frechet_right", False, "G r = manif::average_frechet_right(pts); use(r);"),
    ("decasteljau", False, "std::vector<G> r = manif::decasteljau(pts, 2, 3, false); use(r.size());"),
]
# storage-independent helpers (per scalar only)
SCALAR_ENTRIES = [
    ("binomial_coefficient", "auto r = manif::binomial_coefficient(5, 2); use(r);"),
    ("ipow", "auto r = manif::ipow(SC(2), 3); use(r);"),
    ("polynomialBernstein", "auto r = manif::polynomialBernstein(SC(3), SC(1), SC(0.5)); use(r);"),
]


def alias_cells():
    """-> list of (name, mutating, body) generated from Api.lean"""
    tabs = api_tables()
    cells = []
    missing = []
    for alias, canon in tabs["aliasTable"] + tabs["swappedTable"]:
        if alias not in ALIAS_CPP or canon not in CANON_CPP:
            missing.append(alias)
            continue
        expr, nj, mut = ALIAS_CPP[alias]
        kind, cexpr = CANON_CPP[canon]
        if kind == "act":
            body = ("V c_ = %s; JM Km; JV Kv; V r_ = %s; same(r_, c_); same(Km, Jm); same(Kv, Jv);" % (cexpr, expr))
        else:
            rt = "T" if kind in ("GG_T", "G_T") else "G"
            pre = "XM = Xo; " if mut else ""
            body = "%s c_ = %s; J Ka, Kb; %s%s r_ = %s; same(r_.coeffs(), c_.coeffs());" % (rt, cexpr, pre, rt, expr)
            if nj >= 1:
                body += " same(Ka, Ja);"
            if nj >= 2:
                body += " same(Kb, Jb);"
            if mut:
                body += " same(XM.coeffs(), c_.coeffs());"
        cells.append(("alias:" + alias, mut, body))
    return cells, missing, tabs


def all_cells(gname):
    _, acc_c, acc_m, acc_t = GROUPS[gname]
    cells, missing, _ = alias_cells()
    cells = list(cells) + list(ENTRIES)
    for e in acc_c:
        cells.append(("accessor:" + e, False, "auto r = %s; use(r);" % e))
    for e in acc_m:
        cells.append(("setter:" + e, True, "%s;" % e))
    for e in acc_t:
        cells.append(("t_accessor:" + e, False, "auto r = %s; use(r);" % e))
    return cells, missing


PRELUDE = r"""// generated by tools/apimatrix.py — do not edit
#include <manif/manif.h>
#include <manif/functions.h>
#include <manif/algorithms/interpolation.h>
#include <manif/algorithms/average.h>
#include <manif/algorithms/decasteljau.h>
#include <sstream>
#include <vector>
#include <cstring>
#include <cstdio>
namespace mx {
extern int g_mismatch;
extern const char* g_cell;
template <class A> inline void use(const A&) {}
template <class A, class B> inline void same(const A& a, const B& b) {
  bool ok = a.rows() == b.rows() && a.cols() == b.cols();
  for (int i = 0; ok && i < a.rows(); ++i) for (int j = 0; j < a.cols(); ++j) {
    auto x = a(i, j); auto y = b(i, j);
    if (!(x == y) && !(x != x && y != y)) { ok = false; break; }
  }
  if (!ok) { ++g_mismatch; std::printf("MISMATCH %s\n", g_cell); }
}
template <class GS, class TS> struct Ctx {
  using G = typename GS::LieGroup; using T = typename G::Tangent; using Sc = typename G::Scalar;
  const GS& X; const GS& Y; const G& Xo; const G& Yo; const TS& t; const TS& s; const T& to;
};
#define MX_TYPES \
  using G = typename GS::LieGroup; using T = typename G::Tangent; using Sc = typename G::Scalar; \
  using J = typename G::Jacobian; using V = typename G::Vector; \
  using JM = Eigen::Matrix<Sc, G::Dim, G::DoF>; using JV = Eigen::Matrix<Sc, G::Dim, G::Dim>;
#define MX_LOCALS \
  J Ja, Jb; JM Jm; JV Jv; V v = V::Random(); typename T::DataType vv = T::DataType::Random(); \
  Sc a = Sc(0.5); typename T::LieAlg A = to.hat(); std::ostringstream os; \
  std::vector<G> pts; pts.push_back(Xo); pts.push_back(Yo); pts.push_back(Xo); pts.push_back(Yo); \
  use(Ja); use(Jb); use(Jm); use(Jv); use(v); use(vv); use(a); use(A);
}  // namespace mx
"""


def tu_source(gname, scalar):
    gtype = GROUPS[gname][0].replace("SC", scalar)
    cells, missing = all_cells(gname)
    out = [PRELUDE, "namespace mx {", "using GG = %s;" % gtype, "using TT = GG::Tangent;"]
    calls = []
    for n, (name, mut, body) in enumerate(cells):
        fn = "cell_%d" % n
        out.append("#if !defined(HX_ONLY) || HX_ONLY == %d" % n)
        out.append("// %s" % name)
        if mut:
            out.append("template <class GS, class TS> void %s(const GS& X, const GS& Y, const typename GS::LieGroup& Xo, "
                       "const typename GS::LieGroup& Yo, const TS& t, const TS& s, const typename GS::LieGroup::Tangent& to, GS& XM, TS& tM) {"
                       % fn)
        else:
            out.append("template <class GS, class TS> void %s(const GS& X, const GS& Y, const typename GS::LieGroup& Xo, "
                       "const typename GS::LieGroup& Yo, const TS& t, const TS& s, const typename GS::LieGroup::Tangent& to) {" % fn)
        out.append("  MX_TYPES MX_LOCALS")
        out.append("  " + body)
        out.append("}")
        out.append("#endif")
        calls.append((n, name, mut))
    # scalar-only helpers
    for k, (name, body) in enumerate(SCALAR_ENTRIES):
        n = len(cells) + k
        out.append("#if !defined(HX_ONLY) || HX_ONLY == %d" % n)
        out.append("// %s" % name)
        out.append("inline void cell_%d() { %s }" % (n, body.replace("SC", scalar)))
        out.append("#endif")
    # driver: one function per TU that runs every cell for the three storages
    tag = "%s_%s" % (gname, scalar)
    out.append("int run_%s() {" % tag)
    out.append("  std::srand(12345);")
    out.append("  GG Xo = GG::Random(), Yo = GG::Random(); TT to = TT::Random(), so = TT::Random();")
    out.append("  typename GG::Scalar bx[GG::RepSize + 2], by[GG::RepSize + 2], bt[TT::DoF + 2], bs[TT::DoF + 2];")
    out.append("  for (int i = 0; i < GG::RepSize; ++i) { bx[1 + i] = Xo.coeffs()(i); by[1 + i] = Yo.coeffs()(i); }")
    out.append("  for (int i = 0; i < TT::DoF; ++i) { bt[1 + i] = to.coeffs()(i); bs[1 + i] = so.coeffs()(i); }")
    out.append("  int cells = 0;")
    for st in STORAGES:
        out.append("  {")
        if st == "o":
            out.append("    GG X(Xo), Y(Yo), XM(Xo); TT t(to), s(so), tM(to);")
            gs, ts = "GG", "TT"
        elif st == "m":
            out.append("    typename GG::Scalar bm[GG::RepSize + 2], btm[TT::DoF + 2]; std::memcpy(bm, bx, sizeof bx); std::memcpy(btm, bt, sizeof bt);")
            out.append("    Eigen::Map<GG> X(bx + 1), Y(by + 1), XM(bm + 1); Eigen::Map<TT> t(bt + 1), s(bs + 1), tM(btm + 1);")
            gs, ts = "Eigen::Map<GG>", "Eigen::Map<TT>"
        else:
            out.append("    Eigen::Map<const GG> X(bx + 1), Y(by + 1); Eigen::Map<const TT> t(bt + 1), s(bs + 1);")
            gs, ts = "Eigen::Map<const GG>", "Eigen::Map<const TT>"
        for n, name, mut in calls:
            if mut and st == "c":
                continue
            out.append("#if !defined(HX_ONLY) || HX_ONLY == %d" % n)
            out.append('    g_cell = "%s %s %s %s"; ++cells;' % (name.replace('"', "'").replace("\\", ""), gname, scalar, st))
            if mut:
                out.append("    XM = Xo; tM = to;")
                out.append("    cell_%d<%s, %s>(X, Y, Xo, Yo, t, s, to, XM, tM);" % (n, gs, ts))
            else:
                out.append("    cell_%d<%s, %s>(X, Y, Xo, Yo, t, s, to);" % (n, gs, ts))
            out.append("#endif")
        out.append("  }")
    for k, (name, _) in enumerate(SCALAR_ENTRIES):
        n = len(cells) + k
        out.append("#if !defined(HX_ONLY) || HX_ONLY == %d" % n)
        out.append('  g_cell = "%s %s %s -"; ++cells; cell_%d();' % (name, gname, scalar, n))
        out.append("#endif")
    out.append("  return cells;")
    out.append("}")
    out.append("}  // namespace mx")
    names = [c[0] for c in cells] + [e[0] for e in SCALAR_ENTRIES]
    return "\n".join(out) + "\n", names, missing


MAIN = r"""#include <cstdio>
#include <exception>
namespace mx { int g_mismatch = 0; const char* g_cell = "";
%s
}
int main() {
  int cells = 0;
  try {
%s
  } catch (const std::exception& e) { std::printf("RAISED %%s : %%s\n", mx::g_cell, e.what()); return 3; }
  std::printf("CELLS %%d MISMATCH %%d\n", cells, mx::g_mismatch);
  return mx::g_mismatch ? 2 : 0;
}
"""

FLAGS = ["-std=c++11", "-O0", "-w", "-ffp-contract=off", "-DEIGEN_DONT_VECTORIZE",
         "-I/repo/include", "-I/repo/external/tl", "-I/usr/include/eigen3"]


def build_and_run(groups=None, scalars=None, jobs=16):
    """-> dict(ok, cells, tus, failing=[{group, scalar, entry, storage?, diagnostic, program}], run_output, missing)"""
    groups = groups or list(GROUPS)
    scalars = scalars or SCALARS
    hsh = vlib.tree_hash(FLAGS + ["apimatrix", open(os.path.abspath(__file__)).read(), open(API_LEAN).read()])
    d = os.path.join(vlib.CACHE, "m_" + hsh)
    os.makedirs(d, exist_ok=True)
    res = dict(ok=True, failing=[], tus=0, cells=0, missing=[], run_output="", dir=d)
    srcs = {}
    for g in groups:
        for sc in scalars:
            src, names, missing = tu_source(g, sc)
            if missing:
                res["missing"] = missing
            path = os.path.join(d, "mx_%s_%s.cpp" % (g, sc))
            with open(path, "w") as f:
                f.write(src)
            srcs[(g, sc)] = (path, names)
    res["tus"] = len(srcs)

    def cc(key):
        path, names = srcs[key]
        obj = path[:-4] + ".o"
        if os.path.exists(obj):
            return key, 0, ""
        rc, out = vlib.sh(["g++"] + FLAGS + ["-c", path, "-o", obj + ".tmp"], timeout=3600)
        if rc == 0:
            os.replace(obj + ".tmp", obj)
        return key, rc, out

    with ThreadPoolExecutor(max_workers=jobs) as ex:
        results = list(ex.map(cc, list(srcs)))
    bad = [(k, out) for k, rc, out in results if rc != 0]
    if bad:
        res["ok"] = False
        # locate the failing one-entry programs
        tasks = []
        for (g, sc), out in bad:
            path, names = srcs[(g, sc)]
            for n, name in enumerate(names):
                tasks.append((g, sc, n, name, path))

        def one(tk):
            g, sc, n, name, path = tk
            rc, out = vlib.sh(["g++"] + FLAGS + ["-fsyntax-only", "-DHX_ONLY=%d" % n, path], timeout=1800)
            return tk, rc, out

        with ThreadPoolExecutor(max_workers=jobs) as ex:
            for tk, rc, out in ex.map(one, tasks):
                if rc != 0:
                    g, sc, n, name, path = tk
                    errs = [l for l in out.split("\n") if "error" in l][:6]
                    res["failing"].append(dict(group=g, scalar=sc, entry=name, cell=n,
                                               program="g++ %s -fsyntax-only -DHX_ONLY=%d %s" % (" ".join(FLAGS), n, path),
                                               diagnostic="\n".join(errs)[:3000]))
        if not res["failing"]:      # whole-TU failure that no single cell reproduces
            for (g, sc), out in bad:
                res["failing"].append(dict(group=g, scalar=sc, entry="<translation unit>", cell=-1,
                                           program="g++ %s -c %s" % (" ".join(FLAGS), srcs[(g, sc)][0]), diagnostic=out[-3000:]))
        return res
    # link + run
    decl = "\n".join("int run_%s_%s();" % k for k in srcs)
    calls = "\n".join("    cells += mx::run_%s_%s();" % k for k in srcs)
    mpath = os.path.join(d, "mx_main.cpp")
    with open(mpath, "w") as f:
        f.write(MAIN % (decl, calls))
    exe = os.path.join(d, "apimatrix")
    rc, out = vlib.sh(["g++"] + FLAGS + [mpath] + [p[:-4] + ".o" for p, _ in srcs.values()] + ["-o", exe], timeout=1800)
    if rc != 0:
        res["ok"] = False
        res["failing"].append(dict(group="*", scalar="*", entry="<link>", cell=-1, program="link of the matrix TUs", diagnostic=out[-3000:]))
        return res
    p = subprocess.run([exe], stdout=subprocess.PIPE, stderr=subprocess.STDOUT, text=True, timeout=600)
    res["run_output"] = p.stdout[-4000:]
    m = re.search(r"CELLS (\d+) MISMATCH (\d+)", p.stdout)
    if m:
        res["cells"] = int(m.group(1))
    if p.returncode != 0:
        res["ok"] = False
        for l in p.stdout.split("\n"):
            if l.startswith(("MISMATCH", "RAISED")):
                t = l.split()
                res["failing"].append(dict(group=t[-3] if len(t) > 3 else "?", scalar=t[-2] if len(t) > 2 else "?", entry=" ".join(t[1:-3]), cell=-1,
                                           program=exe, diagnostic=l))
        if not res["failing"]:
            res["failing"].append(dict(group="*", scalar="*", entry="<run>", cell=-1, program=exe,
                                       diagnostic="exit %d\n%s" % (p.returncode, p.stdout[-2000:])))
    return res


if __name__ == "__main__":
    gs = sys.argv[1].split(",") if len(sys.argv) > 1 else None
    scs = sys.argv[2].split(",") if len(sys.argv) > 2 else None
    r = build_and_run(gs, scs)
    print("ok" if r["ok"] else "FAILED", "tus", r["tus"], "cells", r["cells"], "missing", r["missing"])
    for f in r["failing"][:60]:
        print("--", f["group"], f["scalar"], f["entry"])
        print("   ", f["diagnostic"][:600].replace("\n", "\n    "))
    print(r["run_output"][-600:])
