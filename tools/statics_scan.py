#!/usr/bin/env python3
"""statics_scan.py — inventory of static-storage-duration objects and other shared mutable state in
/repo/include/manif (C14, C09).  Regenerated from the current source on every check.

A light C++ scope tracker (comments, strings and preprocessor lines removed; every `{` classified
as namespace / class / enum / function / block from the text that precedes it) finds

  * function-local `static` objects           (lazily initialised, guarded by the compiler: [stmt.dcl]/4)
  * class-scope `static` data members          (and their out-of-class definitions)
  * namespace-scope variables
  * `mutable` members and `thread_local` objects
  * `const_cast` / writes through a cast-away-const   (reported, never expected)

and records for each: file, line, enclosing function, declaration text, whether it is `const` /
`constexpr`, and whether it is initialised at its declaration.  The concurrency argument
(lean/ManifProofs/Properties/C14.lean) needs exactly: every such object is const (or constexpr),
initialised at its declaration and never assigned afterwards; no `mutable`, no `thread_local`, no
namespace-scope mutable object; the build does not pass -fno-threadsafe-statics.
"""
import json
import os
import re
import sys

REPO_INC = "/repo/include/manif"


def strip(src):
    """remove comments, string/char literals and preprocessor lines, keeping line structure"""
    out = []
    i, n = 0, len(src)
    while i < n:
        c = src[i]
        if src.startswith("//", i):
            j = src.find("\n", i)
            j = n if j < 0 else j
            i = j
        elif src.startswith("/*", i):
            j = src.find("*/", i + 2)
            j = n if j < 0 else j + 2
            out.append("".join(ch if ch == "\n" else " " for ch in src[i:j]))
            i = j
        elif c == '"' or c == "'":
            j = i + 1
            while j < n and src[j] != c:
                j += 2 if src[j] == "\\" else 1
            out.append(c + c)
            i = j + 1
        else:
            out.append(c)
            i += 1
    s = "".join(out)
    lines = s.split("\n")
    res, cont = [], False
    for l in lines:
        if cont or l.lstrip().startswith("#"):
            cont = l.rstrip().endswith("\\")
            res.append("")
        else:
            res.append(l)
    return "\n".join(res)


def classify(before):
    """kind of the scope opened by a `{` given the text since the previous `;`, `{` or `}`"""
    b = " ".join(before.split())[-600:]
    if re.search(r"\bnamespace\b[\w\s:]*$", b):
        return "namespace", ""
    if re.search(r"\benum\b", b) and "(" not in b:
        return "enum", ""
    tail = b
    # drop trailing qualifiers / trailing return type of a function definition
    m = re.search(r"->[^(){};]*$", tail)
    if m:
        tail = tail[:m.start()].rstrip()
    for _ in range(4):
        t2 = re.sub(r"\s*\b(const|noexcept|override|final|MANIF_MOVE_NOEXCEPT)$", "", tail).rstrip()
        if t2 == tail:
            break
        tail = t2
    if tail.endswith(")"):
        # function definition (possibly with a constructor initialiser list `) : a(b), c(d)`):
        # the name is the identifier before the FIRST top-level parameter list
        depth, first_open = 0, None
        for k, ch in enumerate(tail):
            if ch == "(":
                if depth == 0 and first_open is None:
                    first_open = k
                depth += 1
            elif ch == ")":
                depth -= 1
        head = tail[:first_open] if first_open is not None else tail
        m2 = re.search(r"([\w:~]+(?:<[^<>]*>)?(?:::[\w~]+)*|operator\s*\S+)\s*$", head)
        name = m2.group(1) if m2 else "?"
        if name in ("if", "for", "while", "switch", "catch"):
            return "block", ""
        return "function", name
    m = re.search(r"\b(class|struct|union)\b\s+([\w:]+)?", b)
    if m and "(" not in b[m.start():]:
        return "class", m.group(2) or ""
    return "block", ""


def scan_file(path, rel):
    src = strip(open(path, encoding="utf-8", errors="replace").read())
    found = []
    stack = []            # (kind, name)
    stmt_start = 0
    i, n = 0, len(src)
    line_of = lambda pos: src.count("\n", 0, pos) + 1

    def in_function():
        return any(k == "function" for k, _ in stack)

    def scope_kind():
        for k, nm in reversed(stack):
            if k in ("function", "class", "namespace"):
                return k
        return "namespace"

    def fn_name():
        for k, nm in reversed(stack):
            if k == "function":
                return nm
        return ""

    def cls_name():
        for k, nm in reversed(stack):
            if k == "class":
                return nm
        return ""

    def statement(text, pos):
        t = " ".join(text.split())
        if not t:
            return
        kind = "function" if in_function() else scope_kind()
        has_static = re.search(r"(^|[\s;{}])static\b", t) is not None
        if re.search(r"\bthread_local\b", t):
            found.append(dict(kind="thread_local", file=rel, line=line_of(pos), where=fn_name() or cls_name(), decl=t[:200]))
        if re.search(r"\bmutable\b", t) and "[" not in t.split("mutable")[0][-2:]:
            found.append(dict(kind="mutable-member", file=rel, line=line_of(pos), where=cls_name(), decl=t[:200]))
        if re.search(r"\bconst_cast\b", t):
            found.append(dict(kind="const_cast", file=rel, line=line_of(pos), where=fn_name() or cls_name(), decl=t[:200]))
        if not has_static:
            # namespace-scope variable definitions (incl. out-of-class definitions of static members)
            if kind == "namespace" and not re.search(r"\b(using|typedef|template\s*<[^>]*>\s*(class|struct|using)|friend|return|namespace|extern)\b", t) \
                    and re.search(r"[\w>:\]]\s+[\w:<>,\s]*::\s*\w+\s*(=|$)", t) and "(" not in t.split("=")[0] and "operator" not in t:
                found.append(dict(kind="member-definition", file=rel, line=line_of(pos), where="", decl=t[:240],
                                  const=bool(re.search(r"\bconst(expr)?\b", t)), constexpr="constexpr" in t, initialised="=" in t))
            return
        head = t.split("=")[0]
        if kind == "function":
            nm = re.search(r"([A-Za-z_]\w*)\s*(\(|=|\{|$)", re.sub(r"^.*\bstatic\b", "", re.sub(r"<[^<>]*>", "", head)).strip().split(" ")[-1] if False else "")
            # local static object: always a variable
            body = re.sub(r"\bstatic\b|\bconst\b|\bconstexpr\b", " ", t)
            m = re.search(r"([A-Za-z_]\w*)\s*(\(|=|\{|;|$)", re.sub(r"^\s*[\w:<>,\s\*&]+?\s+(?=[A-Za-z_]\w*\s*(\(|=|\{|$))", "", " ".join(body.split())))
            name = m.group(1) if m else "?"
            found.append(dict(kind="local-static", file=rel, line=line_of(pos), where=fn_name(), name=name, decl=t[:240],
                              const=bool(re.search(r"\bconst\b|\bconstexpr\b", head)), constexpr="constexpr" in head,
                              initialised=("=" in t) or bool(re.search(r"\w\s*[\(\{]", t.split("static", 1)[1]))))
        elif kind == "class":
            # static member function (has a parameter list before any '=') or static data member
            sig = re.sub(r"<[^<>]*>", "", head)
            sig = re.sub(r"<[^<>]*>", "", sig)
            if "(" in sig or re.search(r"\boperator\b", sig):
                return
            found.append(dict(kind="static-member", file=rel, line=line_of(pos), where=cls_name(), decl=t[:240],
                              const=bool(re.search(r"\bconst\b|\bconstexpr\b", head)), constexpr="constexpr" in head,
                              initialised="=" in t))
        else:
            sig = re.sub(r"<[^<>]*>", "", head)
            if "(" in sig:
                return        # static free function
            found.append(dict(kind="namespace-static", file=rel, line=line_of(pos), where="", decl=t[:240],
                              const=bool(re.search(r"\bconst\b|\bconstexpr\b", head)), constexpr="constexpr" in head, initialised="=" in t))

    paren = 0
    while i < n:
        c = src[i]
        if c == "(":
            paren += 1
        elif c == ")":
            paren = max(0, paren - 1)
        if c == "{" and paren == 0:
            before = src[stmt_start:i]
            kind, nm = classify(before)
            if kind == "block" and in_function() and re.search(r"\bstatic\b", before):
                # `static const T x{…}` brace initialiser inside a function: part of a statement
                depth, j = 1, i + 1
                while j < n and depth:
                    depth += src[j] == "{"
                    depth -= src[j] == "}"
                    j += 1
                i = j
                continue
            stack.append((kind, nm))
            stmt_start = i + 1
        elif c == "}" and paren == 0:
            if stack:
                stack.pop()
            stmt_start = i + 1
        elif c == ";" and paren == 0:
            statement(src[stmt_start:i], stmt_start + (len(src[stmt_start:i]) - len(src[stmt_start:i].lstrip())))
            stmt_start = i + 1
        i += 1
    return found


def scan(root=REPO_INC):
    out = []
    for d, dirs, files in sorted(os.walk(root)):
        dirs.sort()
        for f in sorted(files):
            if f.endswith((".h", ".hpp")):
                p = os.path.join(d, f)
                out += scan_file(p, os.path.relpath(p, root))
    return out


def build_flags_ok():
    """no -fno-threadsafe-statics anywhere in the build description"""
    bad = []
    for d, dirs, files in os.walk("/repo"):
        if "_build" in d or "/.git" in d or "/external" in d:
            continue
        for f in files:
            if f == "CMakeLists.txt" or f.endswith(".cmake") or f.endswith(".cmake.in"):
                p = os.path.join(d, f)
                try:
                    if "threadsafe-statics" in open(p, errors="replace").read():
                        bad.append(p)
                except OSError:
                    pass
    return bad


def problems(inv):
    """entries that contradict the assumptions of the concurrency argument"""
    bad = []
    for e in inv:
        if e["kind"] in ("thread_local", "mutable-member", "const_cast"):
            bad.append((e, e["kind"] + " present"))
        elif e["kind"] in ("local-static", "namespace-static"):
            if not e["const"]:
                bad.append((e, "static object is not const"))
            elif not e["initialised"]:
                bad.append((e, "static object is not initialised at its declaration"))
        elif e["kind"] == "static-member":
            if not e["const"]:
                bad.append((e, "static data member is not const"))
        elif e["kind"] == "member-definition":
            if not e["const"]:
                bad.append((e, "namespace-scope object is not const"))
    return bad


if __name__ == "__main__":
    inv = scan()
    for e in inv:
        print("%-18s %-44s %4d  %-28s %s" % (e["kind"], e["file"], e["line"], e.get("where", "")[:28], e["decl"][:90]))
    print(len(inv), "objects;", len(problems(inv)), "problems;", build_flags_ok())
    for e, why in problems(inv):
        print("PROBLEM", why, e["file"], e["line"], e["decl"][:120])
