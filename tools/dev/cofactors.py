#!/opt/veriftools/pyvenv/bin/python3
"""Development aid (not part of any check): read the `ring failed` residual goals that
`linear_combination (0:K) * h1 + ...` leaves in Lean's output and print, per goal, the
`linear_combination` certificate computed by polynomial division (sympy `reduced`).
usage: cofactors.py lean_output.txt h1 h2 ...   (names of the hypotheses, each `lhs = rhs` in the goal context)"""
import re, sys
import sympy as sp

def to_sym(s, table):
    s = s.replace("^", "**")
    def rep(m):
        n = m.group(0)
        table.setdefault(n, sp.Symbol(n.replace(".", "_")))
        return n.replace(".", "_")
    s2 = re.sub(r"[A-Za-z_][A-Za-z_0-9']*(?:\.[A-Za-z_0-9']+)*", rep, s)
    return sp.sympify(s2, locals={v.name: v for v in table.values()})

def lean(e, table):
    back = {v.name: k for k, v in table.items()}
    s = sp.sstr(e).replace("**", "^")
    return re.sub(r"[A-Za-z_][A-Za-z_0-9']*", lambda m: back.get(m.group(0), m.group(0)), s)

def main():
    txt = open(sys.argv[1]).read()
    hyps = sys.argv[2:]
    seen = []
    for blk in txt.split("error: ring failed")[1:]:
        blk = re.split(r"\n/[^\n]*:\d+:\d+:", blk)[0]
        ctx, goal = blk.split("⊢", 1)
        goal = " ".join(goal.split())
        table = {}
        hs = []
        for h in hyps:
            m = re.search(r"^" + re.escape(h) + r" : (.*?)(?=^[^\s:][^:\n]* : |\Z)", ctx, re.S | re.M)
            l, r = " ".join(m.group(1).split()).split(" = ")
            hs.append(to_sym(l, table) - to_sym(r, table))
        gl, gr = goal.split(" = ")
        g = sp.expand(to_sym(gl, table) - to_sym(gr, table))
        gens = sorted(g.free_symbols | set().union(*[h.free_symbols for h in hs]), key=lambda s: s.name)
        q, rem = sp.reduced(g, hs, *gens)
        if rem != 0:
            G = sp.groebner(hs, *gens)
            print("-- remainder nonzero:", rem, "| in ideal:", G.contains(g))
            continue
        cert = " + ".join("(%s) * %s" % (lean(sp.factor(c), table), h) for c, h in zip(q, hyps) if c != 0)
        if cert not in seen:
            seen.append(cert)
    for c in seen:
        print("    | linear_combination " + c)

main()
