#!/usr/bin/env python3
"""check.py <property> [--tier quick|thorough] [--replay FILE]

One check per property (DESIGN.md §6):
  1. proof obligations: `lake build` of the property's Lean modules, forbidden-token scan,
     `#print axioms` audit of every theorem registered for the property;
  2. L1: correspondence of the Lean model (native driver) with the real manif built from the
     current /repo working tree, bit for bit, on the operations the property is about;
  3. L2: the property's defining predicate on the implementation against 60-digit reference
     semantics (standing sweep; widened when 1 or 2 break);
  4. verdict: exit 0 / `VIOLATION property=<id> replay=<path>` + exit 1, evidence rewritten.
"""
import argparse
import collections
import json
import os
import random
import re
import subprocess
import sys
import time

sys.path.insert(0, os.path.dirname(os.path.abspath(__file__)))
import vlib  # noqa: E402

ROOT = vlib.ROOT
EVID = os.path.join(ROOT, "evidence")
REPLAYS = os.path.join(EVID, "replays")
ALLOWED_AXIOMS = {"propext", "Classical.choice", "Quot.sound"}
FORBIDDEN = [r"\bsorry\b", r"\badmit\b", r"^\s*axiom\s", r"\bnative_decide\b", r"\bbv_decide\b",
             r"\bimplemented_by\b", r"\bunsafe\s", r"maxHeartbeats\s+0\b"]


def venv_python():
    """the tooling venv carries mpmath (oracle); re-exec under it when needed"""
    try:
        import mpmath  # noqa: F401
        return
    except ImportError:
        pass
    for cand in ("/opt/veriftools/pyvenv/bin/python3", "python3-vt"):
        if os.path.exists(cand) or cand == "python3-vt":
            os.execvp(cand, [cand] + sys.argv)


# ---------------------------------------------------------------------------------------------
def strip_lean_comments(src):
    out, i, depth, n = [], 0, 0, len(src)
    while i < n:
        if src.startswith("/-", i):
            depth += 1
            i += 2
        elif depth and src.startswith("-/", i):
            depth -= 1
            i += 2
        elif depth:
            if src[i] == "\n":
                out.append("\n")
            i += 1
        elif src.startswith("--", i):
            while i < n and src[i] != "\n":
                i += 1
        else:
            out.append(src[i])
            i += 1
    return "".join(out)


def forbidden_scan():
    hits = []
    for base in ("ManifModel", "ManifProofs"):
        for d, _, files in os.walk(os.path.join(vlib.LEAN, base)):
            for f in files:
                if f.endswith(".lean"):
                    p = os.path.join(d, f)
                    body = strip_lean_comments(open(p).read())
                    for ln, line in enumerate(body.split("\n"), 1):
                        for pat in FORBIDDEN:
                            if re.search(pat, line):
                                hits.append("%s:%d: %s" % (os.path.relpath(p, ROOT), ln, line.strip()[:100]))
    for f in ("Driver.lean", "ManifModel.lean", "ManifProofs.lean"):
        p = os.path.join(vlib.LEAN, f)
        if os.path.exists(p):
            body = strip_lean_comments(open(p).read())
            for ln, line in enumerate(body.split("\n"), 1):
                for pat in FORBIDDEN:
                    if re.search(pat, line):
                        hits.append("%s:%d: %s" % (f, ln, line.strip()[:100]))
    return hits


def registry():
    return json.load(open(os.path.join(vlib.LEAN, "Registry.json")))


def proof_obligations(pid, thorough):
    """-> dict(ok, obligations, discharged, axioms, log, broken[list of names])"""
    reg = registry().get(pid, {})
    modules = reg.get("modules", [])
    thms = reg.get("theorems", [])
    res = dict(ok=True, obligations=len(thms), discharged=0, axioms=[], broken=[], log="",
               modules=modules, theorems=thms)
    if not thms:
        return res
    try:
        import gen_generators
        gen_generators.main()      # regenerate the generator tables from the current /repo
    except Exception as e:         # the translator no longer understands the source
        res.update(ok=False, log="gen_generators failed: %r" % (e,), broken=["translator gen_generators.py: %r" % (e,)])
        return res
    if pid == "C14":
        try:
            import conc
            conc.generate()        # regenerate the table of lazily initialised statics from the current /repo
        except Exception as e:
            res.update(ok=False, log="conc.generate failed: %r" % (e,), broken=["translator conc.generate: %r" % (e,)])
            return res
    ok, out = vlib.lean_build(["ManifModel", "manif_model"] + modules)
    if not ok:
        res.update(ok=False, log=out[-6000:], broken=["lake build " + " ".join(modules)])
        return res
    hits = forbidden_scan()
    if hits:
        res.update(ok=False, log="forbidden tokens:\n" + "\n".join(hits), broken=["forbidden-token scan"])
        return res
    audit = os.path.join(vlib.CACHE, "audit_%s.lean" % pid)
    os.makedirs(vlib.CACHE, exist_ok=True)
    with open(audit, "w") as fh:
        for m in modules:
            fh.write("import %s\n" % m)
        for t in thms:
            fh.write("#print axioms %s\n" % t)
    rc, out = vlib.sh(["lake", "env", "lean", audit], cwd=vlib.LEAN, timeout=1800)
    axioms = set()
    good = 0
    text = out.replace("\n  ", " ").replace("\n ", " ")
    for t in thms:
        m = re.search(r"'%s' depends on axioms: \[([^\]]*)\]" % re.escape(t), text)
        if m:
            ax = set(a.strip() for a in m.group(1).split(",") if a.strip())
            if ax <= ALLOWED_AXIOMS:
                good += 1
                axioms |= ax
            else:
                res["broken"].append("%s uses axioms %s" % (t, sorted(ax - ALLOWED_AXIOMS)))
        elif re.search(r"'%s' does not depend on any axioms" % re.escape(t), text):
            good += 1
        else:
            res["broken"].append("%s: not found / not checked" % t)
    res["discharged"] = good
    res["axioms"] = sorted(axioms)
    if rc != 0 or good != len(thms):
        res["ok"] = False
        res["log"] = out[-4000:]
    if thorough and res["ok"]:
        for m in modules:
            rc, out = vlib.sh(["lake", "env", "leanchecker", m], cwd=vlib.LEAN, timeout=3600)
            if rc != 0:
                res["ok"] = False
                res["broken"].append("leanchecker " + m)
                res["log"] = out[-3000:]
    return res


# ---------------------------------------------------------------------------------------------
def load_known():
    p = os.path.join(ROOT, "known_findings.json")
    if not os.path.exists(p):
        return dict(findings=[], fixed=[])
    return json.load(open(p))


def match_known(v, known):
    """a violation is suppressed only if property, group, op, output AND stratum all match"""
    for k in known["findings"]:
        if k["property"] != v["property"]:
            continue
        if k.get("group") not in (None, "*") and v.get("group") not in k["group"].split("|"):
            continue
        if k.get("op") not in (None, "*", v.get("op")) and v.get("op") not in k.get("op", "").split("|"):
            continue
        if k.get("output") not in (None, "*", v.get("output")) and v.get("output") not in k.get("output", "").split("|"):
            continue
        tags = " ".join(v.get("tags", []))
        if all(any(alt in tags for alt in s.split("|")) for s in k.get("stratum", [])):
            return k
    return None


CTX = dict(seed=None, tier=None, quiet=False)      # set by main(): recorded in every replay file


def write_replay(pid, kind, payload):
    if CTX.get("quiet"):
        return "(replay run)"
    os.makedirs(REPLAYS, exist_ok=True)
    p = os.path.join(REPLAYS, "%s_%s_%d.json" % (pid, kind, int(time.time() * 1000) % 10 ** 10))
    payload = dict(payload, property=pid, kind=kind, seed=CTX.get("seed"), tier=CTX.get("tier"),
                   replay_cmd="python3 tools/check.py %s --replay %s" % (pid, os.path.relpath(p, ROOT)))
    with open(p, "w") as fh:
        json.dump(payload, fh, indent=1, default=str)
    return os.path.relpath(p, ROOT)


class Result:
    def __init__(s, pid, tier, seed):
        s.pid, s.tier, s.seed = pid, tier, seed
        s.t0 = time.time()
        s.violations = []          # (replay path, description, no_input: bool)
        s.known_hits = collections.OrderedDict()
        s.cov = dict(evaluations=0, distinct_nontrivial=0, samples=[], rule="")
        s.cells = set()
        s.assumptions = []
        s.notes = {}

    def add_cells(s, cells):
        s.cells |= set(cells)

    def violation(s, replay, desc, no_input=False):
        s.violations.append((replay, desc, no_input))

    def finish(s, level, extra_cov):
        s.cov["distinct_nontrivial"] = len(s.cells)
        s.cov.update(extra_cov)
        ev = dict(property_id=s.pid, tier=s.tier, seed=s.seed, level=level, coverage=s.cov,
                  assumptions=s.assumptions, wall_s=round(time.time() - s.t0, 2),
                  violations=len(s.violations), known_findings=list(s.known_hits.keys()), notes=s.notes)
        if CTX.get("quiet"):        # a replay run: do not touch the evidence file, do not print verdict lines
            s.replay_verdict = [(d, ni) for _, d, ni in s.violations]
            return 1 if s.violations else 0
        os.makedirs(EVID, exist_ok=True)
        with open(os.path.join(EVID, s.pid + ".json"), "w") as fh:
            json.dump(ev, fh, indent=1, default=str)
        for k in s.known_hits:
            print("KNOWN-FINDING: property=%s %s" % (s.pid, k))
        if s.violations:
            for rp, desc, no_input in s.violations[:20]:
                print("VIOLATION property=%s replay=%s %s%s" % (s.pid, rp, desc, " no-failing-input-found" if no_input else ""))
            return 1
        print("OK property=%s tier=%s evaluations=%d cells=%d wall=%.1fs" % (
            s.pid, s.tier, s.cov["evaluations"], len(s.cells), time.time() - s.t0))
        return 0


# ---------------------------------------------------------------------------------------------
def main():
    venv_python()
    import props  # noqa: E402  (needs mpmath)
    ap = argparse.ArgumentParser()
    ap.add_argument("pid")
    ap.add_argument("--tier", default=os.environ.get("VERIF_TIER", "quick"))
    ap.add_argument("--replay")
    a = ap.parse_args()
    seed = int(os.environ.get("VERIF_SEED", "20260926"))
    if a.replay:
        sys.exit(props.replay(a.pid, a.replay))
    if a.pid not in props.PROPS:
        print("unknown property", a.pid)
        sys.exit(2)
    CTX.update(seed=seed, tier=a.tier)
    props.check.CTX.update(seed=seed, tier=a.tier)      # `props` imports this file as module `check`
    res = Result(a.pid, a.tier, seed)
    rc = props.run_property(a.pid, a.tier == "thorough", seed, res)
    vlib.prune_cache()
    sys.exit(rc)


if __name__ == "__main__":
    main()
