"""l2.py — the search for a failing input (L2): each property's *defining predicate* is
evaluated on the implementation's answers (C++ harness over the current /repo) against the
60-digit reference semantics of oracle.py.  Tolerances are the ones the properties state
(DESIGN.md Appendix D); they are not error estimates and are never tuned to the code.

A case = (property, group, kind, request lines, tags).  `judge` receives the harness responses
and returns violation records; it runs in worker processes.
"""
import math
import os
import multiprocessing as mpx
import random

import mpmath as mp

import gen
import oracle
from oracle import REG, mpf, M

ROT_GROUPS = ["SO2", "SE2", "SO3", "SE3", "SE_2_3", "SGal3"]


def parse(resp):
    t = resp.split()
    if not t or t[0] != "ok":
        return None, resp
    return [gen.of_hex(x) for x in t[1:]], None


def fin(vals):
    return all(math.isfinite(v) for v in vals)


def lin_scale(group, *coeff_lists):
    """size of the translation-like components of the operands (>= 1)."""
    g = gen.GROUPS[group]
    s = 1.0
    for c in coeff_lists:
        i = 0
        layout = g["rep"] if len(c) == g["repsize"] else g["tan"]
        for kind, n in layout:
            if kind in ("vec", "lin"):
                s = max(s, max(abs(x) for x in c[i:i + n]))
            i += n
    if group == "SGal3":
        s = s * s          # translation picks up t*v
    return s


def rot_block(group, M):
    """rotation block of a transformation matrix (None for groups without one / bundles)"""
    d = {"SO2": 2, "SE2": 2, "SO3": 3, "SE3": 3, "SE_2_3": 3, "SGal3": 3}.get(group)
    if d is None:
        return None
    return M[0:d, 0:d]


def V(prop, group, op, output, tags, line, what, err, tol):
    return dict(property=prop, group=group, op=op, output=output, tags=tags, request=line,
                what=what, err=float(err), tol=float(tol))


def mpl(vals):
    return [mpf(v) for v in vals]


C11_OPS = {"exp": ("T", ("repsize", [("dof", "dof")])), "log": ("G", ("dof", [("dof", "dof")])),
       "inverse": ("G", ("repsize", [("dof", "dof")])), "compose": ("GG", ("repsize", [("dof", "dof")] * 2)),
       "between": ("GG", ("repsize", [("dof", "dof")] * 2)), "rplus": ("GT", ("repsize", [("dof", "dof")] * 2)),
       "lplus": ("GT", ("repsize", [("dof", "dof")] * 2)), "rminus": ("GG", ("dof", [("dof", "dof")] * 2)),
       "lminus": ("GG", ("dof", [("dof", "dof")] * 2)), "act": ("GP", ("dim", [("dim", "dof"), ("dim", "dim")])),
       "adj": ("G", (None, [("dof", "dof")])), "rjac": ("T", (None, [("dof", "dof")])), "ljac": ("T", (None, [("dof", "dof")])),
       "rjacinv": ("T", (None, [("dof", "dof")])), "ljacinv": ("T", (None, [("dof", "dof")])),
       "smallAdj": ("T", (None, [("dof", "dof")])), "hat": ("T", (None, [("alg", "alg")])),
       "transform": ("G", (None, [("tsize", "tsize")])), "innerWeights": ("", (None, [("dof", "dof")])),
       "bracket": ("TT", ("dof", []))}



def c15_case_at(prop, group, A, B, va, vb, tins, tags):
    """end points, geodesic law at interior parameters, rejection - at one pair of end points"""
    dbg = True
    plan, reqs = [], []
    for t, ex in [(0.0, "A"), (1.0, "B")] + [(t, "geodesic") for t in tins] + [(-1e-9, "raise"), (1.0000001, "raise"), (float("nan"), "raise")]:
        plan.append(("slerp", t, ex))
        reqs.append(gen.req(dbg, "o", group, "interp_slerp", 0, A + B + [t]))
    for t, ex in ((0.0, "A"), (1.0, "B"), (-0.5, "raise"), (2.0, "raise"), (float("nan"), "raise"), (-5e-324, "raise"), (1.0000000000000002, "raise")):
        plan.append(("cubic", t, ex))
        reqs.append(gen.req(dbg, "o", group, "interp_cubic", 0, A + B + [t] + va + vb))
    for m in (1, 2, 3, 4):
        for t, ex in ((0.0, "A"), (1.0, "B"), (-0.5, "raise"), (float("nan"), "raise"), (1.0000000000000002, "raise"), (-5e-324, "raise")):
            plan.append(("smooth%d" % m, t, ex))
            reqs.append(gen.req(dbg, "o", group, "interp_smooth", 0, A + B + [t] + va + vb, [m]))
    for m in (0, 5, 7):
        plan.append(("smooth%d" % m, 0.5, "raise"))
        reqs.append(gen.req(dbg, "o", group, "interp_smooth", 0, A + B + [0.5] + va + vb, [m]))
    return dict(prop=prop, group=group, kind="c15", reqs=reqs, plan=plan, tags=tags, A=A, B=B)

def c11_case_at(prop, group, op, a, mask, tags):
    """the bundle-versus-elements comparison at one recorded input (directed search of C05/C11 on bundles)"""
    import l1
    els = group[2:].split(",")
    E = [gen.GROUPS[e] for e in els]
    sig, shape = C11_OPS[op]
    keys = {"G": "repsize", "T": "dof", "P": "dim"}
    parts, o = [], 0
    for ch in sig:
        n = sum(e[keys[ch]] for e in E)
        vec, res, k = a[o:o + n], [], 0
        for e in E:
            res.append(vec[k:k + e[keys[ch]]])
            k += e[keys[ch]]
        parts.append(res)
        o += n
    for e, nm in zip(E, els):
        e.setdefault("alg", l1.ALG[nm])
    reqs = [gen.req(True, "o", group, op, mask, a[:o])]
    for i, nm in enumerate(els):
        reqs.append(gen.req(True, "o", nm, op, mask, [x for p in parts for x in p[i]]))
    return dict(prop=prop, group=group, kind="c11", op=op, shape=shape, reqs=reqs, tags=tags + ["mask%d" % mask], mask=mask)


# ------------------------------------------------------------------ judges
def judge(case, resps):
    try:
        return JUDGES[case["kind"]](case, resps)
    except Exception as e:       # a crash of the oracle must not masquerade as a pass
        return [V(case["prop"], case["group"], case["kind"], "oracle-error", case["tags"],
                  case["reqs"][0], "oracle raised %r" % (e,), float("inf"), 0)]


def j_c01(case, resps):
    g = REG[case["group"]]
    grp = case["group"]
    X, Y, p = case["X"], case["Y"], case["p"]
    out = []
    s = lin_scale(grp, X, Y)
    tol = 1e-12 * s
    TX, TY = g.T(mpl(X)), g.T(mpl(Y))
    names = ["compose", "inverse", "act", "transform"]
    vals = {}
    for nm, line, r in zip(names, case["reqs"], resps):
        v, e = parse(r)
        if v is None or not fin(v):
            out.append(V("C01", grp, nm, "status", case["tags"], line, "no finite result: %s" % r[:60], float("inf"), 0))
            return out
        vals[nm] = v
    d = oracle.maxdiff(g.T(mpl(vals["compose"])), TX * TY)
    if d > tol:
        out.append(V("C01", grp, "compose", "value", case["tags"], case["reqs"][0], "T(X*Y) != T(X)T(Y)", d, tol))
    Ti = g.T(mpl(vals["inverse"]))
    d = max(oracle.maxdiff(Ti * TX, mp.eye(g.n)), oracle.maxdiff(TX * Ti, mp.eye(g.n)))
    if d > tol:
        out.append(V("C01", grp, "inverse", "value", case["tags"], case["reqs"][1], "T(X^-1)T(X) != I", d, tol))
    ref = g.act(TX, mpl(p))
    sp = max(s, max(abs(x) for x in p))
    d = max(abs(mpf(a) - b) for a, b in zip(vals["act"], ref))
    if d > 1e-12 * sp:
        out.append(V("C01", grp, "act", "value", case["tags"], case["reqs"][2], "act != T(X)*p", d, 1e-12 * sp))
    d = oracle.maxdiff(oracle.mat_of_rows(vals["transform"], g.n, g.n), TX)
    if d > tol:
        out.append(V("C01", grp, "transform", "value", case["tags"], case["reqs"][3], "transform() != matrix of coefficients", d, tol))
    return out


def j_c02(case, resps):
    g = REG[case["group"]]
    grp = case["group"]
    t = case["t"]
    v, e = parse(resps[0])
    if v is None or not fin(v):
        return [V("C02", grp, "exp", "status", case["tags"], case["reqs"][0], "no finite result: %s" % resps[0][:60], float("inf"), 0)]
    s = lin_scale(grp, t)
    tol = 1e-10 * s
    d = oracle.maxdiff(g.T(mpl(v)), g.exp(mpl(t)))
    out = []
    if d > tol:
        out.append(V("C02", grp, "exp", "value", case["tags"], case["reqs"][0], "T(exp t) != expm(hat t)", d, tol))
    # hat itself
    h, e = parse(resps[1])
    if h is None:
        out.append(V("C02", grp, "hat", "status", case["tags"], case["reqs"][1], resps[1][:60], float("inf"), 0))
    else:
        d = oracle.maxdiff(oracle.mat_of_rows(h, g.alg, g.alg), g.hat(mpl(t))[0:g.alg, 0:g.alg])
        if d > 0:
            out.append(V("C02", grp, "hat", "value", case["tags"], case["reqs"][1], "hat() differs from the documented matrix", d, 0))
    return out


def rot_angle_of_tangent(grp, t):
    lay = gen.GROUPS[grp]["tan"]
    i = 0
    for kind, n in lay:
        if kind == "ang1":
            return abs(t[i])
        if kind == "ang3":
            return math.sqrt(sum(x * x for x in t[i:i + 3]))
        i += n
    return 0.0


def j_c03_explog(case, resps):
    """exp(log X) = X as a transformation; angle <= pi; finite"""
    g = REG[case["group"]]
    grp = case["group"]
    X = case["X"]
    v, e = parse(resps[0])
    if v is None or not fin(v):
        return [V("C03", grp, "log", "status", case["tags"], case["reqs"][0], "no finite result: %s" % resps[0][:60], float("inf"), 0)]
    out = []
    s = lin_scale(grp, X)
    tol = 1e-10 * s
    ang = rot_angle_of_tangent(grp, v)
    if ang > math.pi * (1 + 1e-12):
        out.append(V("C03", grp, "log", "angle", case["tags"], case["reqs"][0], "rotation angle of log above pi", ang - math.pi, 0))
    d = oracle.maxdiff(g.exp(mpl(v)), g.T(mpl(X)))
    if d > tol:
        out.append(V("C03", grp, "log", "value", case["tags"], case["reqs"][0], "expm(hat(log X)) != T(X)", d, tol))
    # same transformation, other coefficient vector (q -> -q)
    if case.get("Xneg") is not None:
        v2, e = parse(resps[1])
        if v2 is None or not fin(v2):
            out.append(V("C03", grp, "log", "status", case["tags"], case["reqs"][1], "no finite result: %s" % resps[1][:60], float("inf"), 0))
        else:
            near_pi = ang > math.pi - 1e-6     # at pi the principal log is two-valued
            d = max(abs(a - b) for a, b in zip(v, v2))
            if d > tol and not near_pi:
                out.append(V("C03", grp, "log", "double-cover", case["tags"], case["reqs"][1], "log(q) != log(-q)", d, tol))
    return out


def j_c03_logexp(case, resps):
    grp = case["group"]
    t = case["t"]
    v, e = parse(resps[0])
    if v is None or not fin(v):
        return [V("C03", grp, "exp", "status", case["tags"], case["reqs"][0], resps[0][:60], float("inf"), 0)]
    return []


def s2_logexp(case, resps):
    v, e = parse(resps[0])
    if v is None or not fin(v):
        return []
    return [gen.req(True, "o", case["group"], "log", 0, v)]


def j_c03_logexp2(case, resps):
    """log(exp t) = t (second stage feeds the implementation's exp into its log)"""
    grp = case["group"]
    t = case["t"]
    if len(resps) < 2:
        return [V("C03", grp, "exp", "status", case["tags"], case["reqs"][0], "no finite result: %s" % resps[0][:60], float("inf"), 0)]
    v, e = parse(resps[1])
    if v is None or not fin(v):
        return [V("C03", grp, "log∘exp", "status", case["tags"], case["reqs"][-1], resps[1][:60], float("inf"), 0)]
    s = lin_scale(grp, t)
    ang = rot_angle_of_tangent(grp, t)
    # conditioning of the inverse map degrades like 1/(pi - angle) for the linear part
    tol = 1e-10 * s / max(1e-3, min(1.0, math.pi - ang))
    d = max(abs(a - b) for a, b in zip(v, t))
    if d > tol:
        return [V("C03", grp, "log∘exp", "value", case["tags"], case["reqs"][-1], "log(exp t) != t", d, tol)]
    return []


def _jac_tol(ref):
    return 2e-6 * max(1.0, float(oracle.maxabs(ref)))


def j_c06(case, resps):
    """rjac series, ljac = rjac(-t), inverses, Adj(exp t) = ljac rjacinv, smallAdj = ad"""
    g = REG[case["group"]]
    grp = case["group"]
    t = case["t"]
    names = ["rjac", "ljac", "rjacinv", "ljacinv", "smallAdj"]
    mats = {}
    out = []
    for nm, line, r in zip(names, case["reqs"], resps):
        v, e = parse(r)
        if v is None or not fin(v):
            out.append(V("C06", grp, nm, "status", case["tags"], line, "no finite result: %s" % r[:60], float("inf"), 0))
            return out
        mats[nm] = oracle.mat_of_rows(v, g.dof, g.dof)
    tm = mpl(t)
    Jr = g.rjac_series(tm)
    Jl = g.rjac_series([-x for x in tm])
    for nm, ref in (("rjac", Jr), ("ljac", Jl)):
        d = oracle.maxdiff(mats[nm], ref)
        tol = _jac_tol(ref)
        if d > tol:
            out.append(V("C06", grp, nm, "value", case["tags"], case["reqs"][names.index(nm)],
                         nm + " != series sum (∓ad)^k/(k+1)!", d, tol))
    for nm, ref in (("rjacinv", Jr), ("ljacinv", Jl)):
        inv = mp.inverse(ref)
        d = oracle.maxdiff(mats[nm], inv)
        tol = _jac_tol(inv)
        if d > tol:
            out.append(V("C06", grp, nm, "value", case["tags"], case["reqs"][names.index(nm)],
                         nm + " != inverse of the series", d, tol))
    ad = g.ad(tm)
    d = oracle.maxdiff(mats["smallAdj"], ad)
    if d > 1e-12 * max(1.0, float(oracle.maxabs(ad))):
        out.append(V("C06", grp, "smallAdj", "value", case["tags"], case["reqs"][4], "smallAdj != ad_t", d, 1e-12))
    return out


def j_c06_adj(case, resps):
    """X.adj() s = vee(X hat(s) X^-1); Adj(XY) = Adj X Adj Y (through the reference)"""
    g = REG[case["group"]]
    grp = case["group"]
    X = case["X"]
    v, e = parse(resps[0])
    if v is None or not fin(v):
        return [V("C06", grp, "adj", "status", case["tags"], case["reqs"][0], resps[0][:60], float("inf"), 0)]
    A = oracle.mat_of_rows(v, g.dof, g.dof)
    ref = g.Adj(g.T(mpl(X)))
    s = lin_scale(grp, X)
    d = oracle.maxdiff(A, ref)
    tol = 1e-12 * s * max(1.0, float(oracle.maxabs(ref)) / s)
    if d > tol:
        return [V("C06", grp, "adj", "value", case["tags"], case["reqs"][0], "adj != conjugation", d, tol)]
    return []


def _split_out(vals, sizes):
    out, i = [], 0
    for n in sizes:
        out.append(vals[i:i + n])
        i += n
    return out


def j_c05(case, resps):
    """Jacobians of one operation against central differences of the reference maps."""
    g = REG[case["group"]]
    grp = case["group"]
    op = case["op"]
    n, R, D = g.dof, g.repsize, g.dim
    v, e = parse(resps[0])
    if v is None or not fin(v):
        return [V("C05", grp, op, "status", case["tags"], case["reqs"][0], "no finite result: %s" % resps[0][:60], float("inf"), 0)]
    out = []
    line = case["reqs"][0]

    def cmp(name, got, ref):
        Jg = oracle.mat_of_rows(got, ref.rows, ref.cols)
        d = oracle.maxdiff(Jg, ref)
        tol = _jac_tol(ref)
        if d > tol:
            out.append(V("C05", grp, op, name, case["tags"], line,
                         "%s of %s differs from the derivative" % (name, op), d, tol))

    if op == "exp":
        t = mpl(case["t"])
        _, J = _split_out(v, [R, n * n])
        E0i = mp.inverse(g.exp(t))
        ref = oracle.num_jac(lambda d: g.log(E0i * g.exp([a + b for a, b in zip(t, d)])), n, n)
        cmp("J_m_t", J, ref)
    elif op == "log":
        TX = g.T(mpl(case["X"]))
        tv, J = _split_out(v, [n, n * n])
        if rot_angle_of_tangent(grp, tv) > math.pi - 1e-6:
            return out
        ref = oracle.num_jac(lambda d: g.log(TX * g.exp(d)), n, n)
        cmp("J_t_m", J, ref)
    elif op == "inverse":
        TX = g.T(mpl(case["X"]))
        _, J = _split_out(v, [R, n * n])
        ref = oracle.rjac_of_group_map(g, mp.inverse, TX)
        cmp("J_minv_m", J, ref)
    elif op in ("compose", "between"):
        TX, TY = g.T(mpl(case["X"])), g.T(mpl(case["Y"]))
        _, Ja, Jb = _split_out(v, [R, n * n, n * n])
        if op == "compose":
            fa = lambda A: A * TY
            fb = lambda B: TX * B
        else:
            fa = lambda A: mp.inverse(A) * TY
            fb = lambda B: mp.inverse(TX) * B
        cmp("J_a", Ja, oracle.rjac_of_group_map(g, fa, TX))
        cmp("J_b", Jb, oracle.rjac_of_group_map(g, fb, TY))
    elif op in ("rplus", "lplus"):
        TX = g.T(mpl(case["X"]))
        t = mpl(case["t"])
        _, Jm, Jt = _split_out(v, [R, n * n, n * n])
        if op == "rplus":
            fm = lambda A: A * g.exp(t)
            ft = lambda d: TX * g.exp([a + b for a, b in zip(t, d)])
        else:
            fm = lambda A: g.exp(t) * A
            ft = lambda d: g.exp([a + b for a, b in zip(t, d)]) * TX
        cmp("J_m", Jm, oracle.rjac_of_group_map(g, fm, TX))
        F0i = mp.inverse(ft([mpf(0)] * n))
        cmp("J_t", Jt, oracle.num_jac(lambda d: g.log(F0i * ft(d)), n, n))
    elif op in ("rminus", "lminus"):
        TX, TY = g.T(mpl(case["X"])), g.T(mpl(case["Y"]))
        tv, Ja, Jb = _split_out(v, [n, n * n, n * n])
        if rot_angle_of_tangent(grp, tv) > math.pi - 1e-6:
            return out      # relative rotation outside the property's quantifier (0 .. pi-1e-6)
        if op == "rminus":
            f = lambda A, B: g.log(mp.inverse(B) * A)
        else:
            f = lambda A, B: g.log(A * mp.inverse(B))
        cmp("J_a", Ja, oracle.num_jac(lambda d: f(TX * g.exp(d), TY), n, n))
        cmp("J_b", Jb, oracle.num_jac(lambda d: f(TX, TY * g.exp(d)), n, n))
    elif op == "act":
        TX = g.T(mpl(case["X"]))
        p = mpl(case["p"])
        _, Jm, Jv = _split_out(v, [D, D * n, D * D])
        cmp("J_m", Jm, oracle.num_jac(lambda d: g.act(TX * g.exp(d), p), n, D))
        cmp("J_v", Jv, oracle.num_jac(lambda d: g.act(TX, [a + b for a, b in zip(p, d)]), D, D))
    return out


def s2_c04(case, resps):
    """(X+t)-X and X+(Y-X): chain the implementation's own results"""
    grp = case["group"]
    out = []
    vp, _ = parse(resps[0])      # rplus(X,t)
    vm, _ = parse(resps[2])      # rminus(Y,X)  (= Y - X)
    if vp is not None and fin(vp):
        out.append(gen.req(True, "o", grp, "rminus", 0, vp[:REG[grp].repsize] + case["X"]))
    if vm is not None and fin(vm):
        out.append(gen.req(True, "o", grp, "rplus", 0, case["X"] + vm[:REG[grp].dof]))
    return out


def j_c04(case, resps):
    g = REG[case["group"]]
    grp = case["group"]
    X, Y, t = case["X"], case["Y"], case["t"]
    TX, TY, Et = g.T(mpl(X)), g.T(mpl(Y)), g.exp(mpl(t))
    s = lin_scale(grp, X, Y, t)
    tol = 1e-10 * s
    out = []
    names = ["rplus", "lplus", "rminus(Y,X)", "lminus(Y,X)", "between"]
    refs = [TX * Et, Et * TX, mp.inverse(TX) * TY, TY * mp.inverse(TX), mp.inverse(TX) * TY]
    vals = []
    for nm, line, r in zip(names, case["reqs"], resps):
        v, e = parse(r)
        if v is None or not fin(v):
            out.append(V("C04", grp, nm, "status", case["tags"], line, "no finite result: %s" % r[:60], float("inf"), 0))
            return out
        vals.append(v)
    for k, nm in enumerate(names):
        got = g.exp(mpl(vals[k])) if "minus" in nm else g.T(mpl(vals[k]))
        d = oracle.maxdiff(got, refs[k])
        kt = tol * (s if "minus" in nm or nm == "between" else 1.0)
        if d > kt:
            out.append(V("C04", grp, nm, "value", case["tags"], case["reqs"][k], nm + " is not the documented composition", d, kt))
        elif rot_block(grp, got) is not None:
            # the rotation part of the documented composition does not involve the translations at all
            dr = oracle.maxdiff(rot_block(grp, got), rot_block(grp, refs[k]))
            if dr > 1e-9:
                out.append(V("C04", grp, nm, "rotation", case["tags"], case["reqs"][k],
                             nm + ": rotation part is not that of the documented composition", dr, 1e-9))
    ang_t = rot_angle_of_tangent(grp, t)
    rel = rot_angle_of_tangent(grp, vals[2])
    if len(resps) >= 7:
        back, _ = parse(resps[5])     # (X+t)-X
        if back is not None and fin(back) and ang_t < math.pi - 1e-3:
            d = max(abs(a - b) for a, b in zip(back, t))
            kt = 1e-9 * s * s
            if d > kt:
                out.append(V("C04", grp, "(X+t)-X", "value", case["tags"], case["reqs"][5], "(X+t)-X != t", d, kt))
            else:
                # angular components of the round trip do not depend on where X is
                i, da = 0, 0.0
                for kind, n in gen.GROUPS[grp]["tan"]:
                    if kind in ("ang1", "ang3"):
                        da = max([da] + [abs(a - b) for a, b in zip(back[i:i + n], t[i:i + n])])
                    i += n
                if da > 1e-9 and not grp.startswith("B:"):
                    out.append(V("C04", grp, "(X+t)-X", "rotation", case["tags"], case["reqs"][5], "(X+t)-X != t in the angular components", da, 1e-9))
        fwd, _ = parse(resps[6])      # X+(Y-X)
        if fwd is not None and fin(fwd) and rel < math.pi - 1e-3:
            d = oracle.maxdiff(g.T(mpl(fwd)), TY)
            kt = 1e-9 * s * s
            if d > kt:
                out.append(V("C04", grp, "X+(Y-X)", "value", case["tags"], case["reqs"][6], "X+(Y-X) != Y", d, kt))
    return out


def j_c07(case, resps):
    """exact Lie-algebra identities on integer-valued inputs (rational arithmetic, no tolerance)"""
    from fractions import Fraction as F
    grp = case["group"]
    g = REG[grp]
    n, m = g.dof, g.alg
    a, b = case["a"], case["b"]
    out = []
    it = iter(zip(case["reqs"], resps))

    def nxt():
        return next(it)

    def mat(vals, r, c):
        return [[F(vals[i * c + j]) for j in range(c)] for i in range(r)]

    def mul(A, B):
        return [[sum(A[i][k] * B[k][j] for k in range(len(B))) for j in range(len(B[0]))] for i in range(len(A))]

    def sub(A, B):
        return [[x - y for x, y in zip(ra, rb)] for ra, rb in zip(A, B)]

    def tr(A):
        return [list(r) for r in zip(*A)]

    def bad(op, output, line, what):
        out.append(V("C07", grp, op, output, case["tags"], line, what, float("inf"), 0))

    # generators, in and out of range
    gens = {}
    for i in range(-3, n + 4):
        line, r = nxt()
        v, e = parse(r)
        if 0 <= i < n:
            if v is None:
                bad("generator", "status", line, "Generator(%d) raised: %s" % (i, r[:40]))
                return out
            G = mat(v, m, m)
            ref = g.hat([mpf(1) if k == i else mpf(0) for k in range(n)])
            refm = [[F(int(ref[x, y])) for y in range(m)] for x in range(m)]
            if G != refm:
                bad("generator", "value", line, "Generator(%d) is not the documented basis matrix" % i)
            gens[i] = G
        else:
            if r.strip() != "err invalid_argument":
                bad("generator", "status", line, "Generator(%d) out of range did not raise invalid_argument: %s" % (i, r[:40]))
    if len(gens) != n:
        return out
    vals = {}
    for nm in ("hat_a", "hat_b", "bracket", "inner", "sqw", "W", "vee"):
        line, r = nxt()
        v, e = parse(r)
        if v is None or not fin(v):
            bad(nm, "status", line, "no finite result: %s" % r[:40])
            return out
        vals[nm] = (v, line)
    Ha, Hb = mat(vals["hat_a"][0], m, m), mat(vals["hat_b"][0], m, m)
    lin = [[sum(F(a[i]) * gens[i][x][y] for i in range(n)) for y in range(m)] for x in range(m)]
    if Ha != lin:
        bad("hat", "linear", vals["hat_a"][1], "hat(a) != sum a_i Generator(i)")
    if [F(x) for x in vals["vee"][0]] != [F(x) for x in a]:
        bad("vee", "value", vals["vee"][1], "Vee(hat(a)) != a")
    # bracket
    c = vals["bracket"][0]
    Hc = [[sum(F(c[i]) * gens[i][x][y] for i in range(n)) for y in range(m)] for x in range(m)]
    if Hc != sub(mul(Ha, Hb), mul(Hb, Ha)):
        bad("bracket", "value", vals["bracket"][1], "hat(Bracket(a,b)) != [hat a, hat b]")
    # inner = Frobenius product = a^T W b ; W symmetric positive definite
    fro = sum(x * y for ra, rb in zip(Ha, Hb) for x, y in zip(ra, rb))
    W = mat(vals["W"][0], n, n)
    awb = sum(F(a[i]) * W[i][j] * F(b[j]) for i in range(n) for j in range(n))
    if F(vals["inner"][0][0]) != fro or awb != fro:
        bad("inner", "value", vals["inner"][1], "inner(a,b) != Frobenius <hat a, hat b> (= %s, got %r, a^T W b = %s)" % (fro, vals["inner"][0][0], awb))
    if W != tr(W):
        bad("innerWeights", "symmetry", vals["W"][1], "InnerWeights not symmetric")
    # positive definite: Gram matrix of linearly independent generators; check leading minors
    def det(A):
        A = [r[:] for r in A]
        d = F(1)
        for i in range(len(A)):
            p = next((k for k in range(i, len(A)) if A[k][i] != 0), None)
            if p is None:
                return F(0)
            if p != i:
                A[i], A[p] = A[p], A[i]
                d = -d
            d *= A[i][i]
            for k in range(i + 1, len(A)):
                f = A[k][i] / A[i][i]
                A[k] = [x - f * y for x, y in zip(A[k], A[i])]
        return d
    if any(det([r[:k] for r in W[:k]]) <= 0 for k in range(1, n + 1)):
        bad("innerWeights", "posdef", vals["W"][1], "InnerWeights not positive definite")
    froa = sum(x * x for ra in Ha for x in ra)
    if F(vals["sqw"][0][0]) != froa:
        bad("sqwnorm", "value", vals["sqw"][1], "squaredWeightedNorm != <hat a, hat a>")
    return out


def j_c07n(case, resps):
    """norm clauses on real-valued tangents of any magnitude, and the index range of Generator:
    weightedNorm = sqrt(a^T W a) (W: the implementation's own InnerWeights, validated exactly by
    j_c07 / C11), squaredWeightedNorm = a^T W a, inner(a,a) likewise; Generator(i) raises
    invalid_argument exactly outside [0, DoF)."""
    grp = case["group"]
    n = gen.GROUPS[grp]["dof"]
    a = case["a"]
    out = []
    it = iter(zip(case["reqs"], resps))
    for i in case["idx"]:
        line, r = next(it)
        inr = 0 <= i < n
        if inr and not r.startswith("ok"):
            out.append(V("C07", grp, "generator", "status", case["tags"], line, "Generator(%d) raised: %s" % (i, r[:40]), float("inf"), 0))
        if not inr and r.strip() != "err invalid_argument":
            out.append(V("C07", grp, "generator", "status", case["tags"], line,
                         "Generator(%d) out of range [0,%d) did not raise invalid_argument: %s" % (i, n, r[:40]), float("inf"), 0))
    vals = {}
    for nm in ("W", "wnorm", "sqw", "inner"):
        line, r = next(it)
        v, e = parse(r)
        if v is None or not fin(v):
            out.append(V("C07", grp, nm, "status", case["tags"], line, "no finite result: %s" % r[:40], float("inf"), 0))
            return out
        vals[nm] = (v, line)
    W = vals["W"][0]
    q = sum(mpf(a[i]) * mpf(W[i * n + j]) * mpf(a[j]) for i in range(n) for j in range(n))
    ref = mp.sqrt(q)
    for nm, want in (("wnorm", ref), ("sqw", q), ("inner", q)):
        got = mpf(vals[nm][0][0])
        tol = mpf(4e-15) * n * (want if want > 0 else 1) + mpf(5e-324)
        if abs(got - want) > tol:
            out.append(V("C07", grp, nm, "value", case["tags"], vals[nm][1],
                         "%s is not %s of the tangent (got %.17g, expected %.17g)" % (nm, "the induced norm sqrt(a^T W a)" if nm == "wnorm" else "a^T W a", float(got), float(want)),
                         abs(got - want), tol))
    return out


# ------------------------------------------------------------------ algorithms
def _rel_angle(g, grp, TA, TB):
    return rot_angle_of_tangent(grp, [float(x) for x in g.log(mp.inverse(TA) * TB)])


def j_c15(case, resps):
    """end points, rejection outside [0,1], SLERP = geodesic"""
    g = REG[case["group"]]
    grp = case["group"]
    A, B = case["A"], case["B"]
    TA, TB = g.T(mpl(A)), g.T(mpl(B))
    s = lin_scale(grp, A, B)
    tol = 1e-9 * s * s
    out = []
    if _rel_angle(g, grp, TA, TB) > math.pi - 1e-3:
        return out
    for (nm, t, expect), line, r in zip(case["plan"], case["reqs"], resps):
        v, e = parse(r)
        if expect == "raise":
            if v is not None:
                out.append(V("C15", grp, nm, "status", case["tags"], line, "t=%r outside [0,1] (or unsupported degree) accepted" % t, float("inf"), 0))
            continue
        if v is None or not fin(v):
            out.append(V("C15", grp, nm, "status", case["tags"], line, "no finite result: %s" % r[:60], float("inf"), 0))
            continue
        Tm = g.T(mpl(v))
        if expect == "A":
            d = oracle.maxdiff(Tm, TA)
            if d > tol:
                out.append(V("C15", grp, nm, "t=0", case["tags"], line, "interpolate(A,B,0) != A", d, tol))
        elif expect == "B":
            d = oracle.maxdiff(Tm, TB)
            if d > tol:
                out.append(V("C15", grp, nm, "t=1", case["tags"], line, "interpolate(A,B,1) != B", d, tol))
        elif expect == "geodesic":
            L = g.log(mp.inverse(TA) * TB)
            ref = TA * g.exp([mpf(t) * x for x in L])
            d = oracle.maxdiff(Tm, ref)
            if d > tol:
                out.append(V("C15", grp, nm, "geodesic", case["tags"], line, "slerp(A,B,t) != A exp(t log(A^-1 B))", d, tol))
    return out


def j_c15phi(case, resps):
    out = []
    grp = case["group"]
    vals = {}
    for (m, t), line, r in zip(case["plan"], case["reqs"], resps):
        v, e = parse(r)
        if m not in (1, 2, 3, 4):
            if v is not None:
                out.append(V("C15", grp, "phi", "status", case["tags"], line, "unsupported degree %d accepted" % m, float("inf"), 0))
            continue
        if v is None:
            out.append(V("C15", grp, "phi", "status", case["tags"], line, "phi raised: %s" % r[:40], float("inf"), 0))
            continue
        vals.setdefault(m, []).append((t, v[0], line))
    for m, lst in vals.items():
        lst.sort()
        for t, v, line in lst:
            if t == 0.0 and v != 0.0:
                out.append(V("C15", grp, "phi", "phi(0)", case["tags"], line, "phi(0) != 0", abs(v), 0))
            if t == 1.0 and abs(v - 1.0) > 1e-12:
                out.append(V("C15", grp, "phi", "phi(1)", case["tags"], line, "phi(1) != 1", abs(v - 1), 1e-12))
        for (t0, v0, _), (t1, v1, line) in zip(lst, lst[1:]):
            if v1 < v0 - 1e-13:
                out.append(V("C15", grp, "phi", "monotone", case["tags"], line, "phi_%d decreases between t=%r and %r" % (m, t0, t1), v0 - v1, 1e-13))
    return out


def s2_c16(case, resps):
    """stage 2: the averages of the cloud, of the reordered cloud, of the left/right translated clouds"""
    grp = case["group"]
    R = REG[grp].repsize
    n = case["n"]
    pts = case["pts"]
    comp = []
    for r in resps:
        v, e = parse(r)
        if v is None:
            return []
        comp.append(v[:R])
    left, right = comp[:n], comp[n:2 * n]
    perm = case["perm"]
    shuffled = [pts[i] for i in perm]
    flat = lambda P: [c for p in P for c in p]
    out = []
    for op in case["ops"]:
        for P in (pts, shuffled, left, right):
            out.append(gen.req(True, "o", grp, op, 0, [case["eps"]] + flat(P), [20]))
    out.append(gen.req(True, "o", grp, "log", 0, pts[0]))      # keeps the protocol honest (non-empty)
    return out


def j_c16(case, resps):
    g = REG[case["group"]]
    grp = case["group"]
    n, pts, Z = case["n"], case["pts"], case["Z"]
    out = []
    if len(resps) < 2 * n + 4 * len(case["ops"]):
        return [V("C16", grp, "avg", "status", case["tags"], case["reqs"][0], "pre-stage compose failed", float("inf"), 0)]
    TZ = g.T(mpl(Z))
    Tp = [g.T(mpl(p)) for p in pts]
    s = lin_scale(grp, Z, *pts)
    # The stopping rule and the geodesic radius are in tangent units whatever the absolute coordinates are, so the
    # tolerances grow with the coordinate scale s only up to s = 100; beyond that only rounding (~1e-16 s, measured
    # <= 1e-14 s on the unchanged tree) is added.  (A cloud at UTM-like coordinates must still be averaged.)
    sc = min(s, 100.0)

    def radius(Ts):
        """the property's precondition: the set lies within a moderate geodesic radius"""
        T0i = mp.inverse(Ts[0])
        return max([max(abs(x) for x in g.log(T0i * T_)) for T_ in Ts[1:]] + [mpf(0)])
    right_ok = radius([T_ * TZ for T_ in Tp]) <= 1.0      # conjugation by Z can spread the cloud
    if radius(Tp) > 1.0:
        return out
    k = 2 * n
    sq = math.sqrt(gen.EPS)
    for op in case["ops"]:
        res = []
        for j in range(4):
            v, e = parse(resps[k + j])
            if j == 3 and not right_ok and (v is None or not fin(v)):
                res.append(None)
                continue
            if v is None or not fin(v):
                out.append(V("C16", grp, op, "status", case["tags"], case["reqs"][k + j], "no finite result: %s" % resps[k + j][:60], float("inf"), 0))
                res = None
                break
            res.append(v)
        line = case["reqs"][k]
        k += 4
        if res is None:
            continue
        m, mperm, mleft, mright = res
        # validity of the returned element
        nrm = _rot_norm(grp, m)
        if abs(nrm - 1.0) >= gen.EPS:
            out.append(V("C16", grp, op, "valid", case["tags"], line, "average is not a valid element", abs(nrm - 1), gen.EPS))
        Tm = g.T(mpl(m))
        if case["identical"]:
            d = oracle.maxdiff(Tm, Tp[0])
            if d > 1e-9 * s:
                out.append(V("C16", grp, op, "identical", case["tags"], line, "average of identical points is not that point", d, 1e-9 * s))
            continue
        if op != "avg_w":
            Tmi = mp.inverse(Tm)
            acc = [mpf(0)] * g.dof
            for T_ in Tp:
                L = g.log(Tmi * T_)
                acc = [a + b for a, b in zip(acc, L)]
            resid = max(abs(a) / n for a in acc)
            tol = 10 * sq * sc + 1e-12 * s
            if resid > tol:
                out.append(V("C16", grp, op, "stationary", case["tags"], line, "mean of log(m^-1 X_i) not ~0", resid, tol))
        tolq = 1e-6 * sc * sc + 1e-11 * s
        d = oracle.maxdiff(g.T(mpl(mperm)), Tm)
        if d > tolq * (100 if op == "avg_w" else 1):      # "1e-4" for the weighted average
            out.append(V("C16", grp, op, "order", case["tags"], case["reqs"][k - 3], "average depends on the order of the points", d, tolq))
        d = oracle.maxdiff(g.T(mpl(mleft)), TZ * Tm)
        if d > tolq * sc:
            out.append(V("C16", grp, op, "left-equivariance", case["tags"], case["reqs"][k - 2], "avg(Z X_i) != Z avg(X_i)", d, tolq * sc))
        if op != "avg_w" and right_ok:
            d = oracle.maxdiff(g.T(mpl(mright)), Tm * TZ)
            if d > tolq * sc:
                out.append(V("C16", grp, op, "right-equivariance", case["tags"], case["reqs"][k - 1], "avg(X_i Z) != avg(X_i) Z", d, tolq * sc))
    return out


def _rot_norm(grp, c):
    i = 0
    for kind, n in gen.GROUPS[grp]["rep"]:
        if kind in ("complex", "quat"):
            return math.sqrt(sum(x * x for x in c[i:i + n]))
        i += n
    return 1.0


def j_c16empty(case, resps):
    out = []
    for line, r in zip(case["reqs"], resps):
        if not r.startswith("err"):
            out.append(V("C16", case["group"], line.split()[3], "empty", case["tags"], line, "empty point set did not raise", float("inf"), 0))
    return out


def j_c18(case, resps):
    """isApprox: reflexive, symmetric, true well below eps, false well above, q ~ -q"""
    g = REG[case["group"]]
    grp = case["group"]
    X, Y, eps = case["X"], case["Y"], case["eps"]
    out = []
    vals = []
    for line, r in zip(case["reqs"], resps):
        v, e = parse(r)
        if v is None:
            out.append(V("C18", grp, "isApprox", "status", case["tags"], line, "raised: %s" % r[:40], float("inf"), 0))
            return out
        vals.append(v[0])
    xy, yx, xx, eqxx = vals[:4]
    if xx != 1.0:
        out.append(V("C18", grp, "isApprox", "reflexive", case["tags"], case["reqs"][2], "X.isApprox(X, eps) is false", 1, 0))
    if eqxx != 1.0:
        out.append(V("C18", grp, "==", "reflexive", case["tags"], case["reqs"][3], "X == X is false", 1, 0))
    # Beyond this point the predicate compares tangent distances with eps; when the rounding error of
    # the coordinates themselves (s * 1e-14) exceeds eps the question is not decidable in double
    # precision, so only reflexivity is demanded there (as the property does for large coordinates).
    if len(vals) > 4 and vals[4] != 1.0:
        out.append(V("C18", grp, "isApprox", "double-cover", case["tags"], case["reqs"][4], "q and -q (same transformation) are not approximately equal", 1, 0))
    for i in (5, 6):
        if len(vals) > i and vals[i] != 1.0:
            out.append(V("C18", grp, "==", "double-cover", case["tags"], case["reqs"][i], "X == X' is false for the two coefficient vectors (q, -q) of one transformation", 1, 0))
    if lin_scale(grp, X, Y) * 1e-14 > eps:
        return out
    if xy != yx:
        # symmetric unless the tangent distance sits at the threshold itself
        d = g.log(mp.inverse(g.T(mpl(Y))) * g.T(mpl(X)))
        m = max(abs(x) for x in d)
        if not (0.99 * eps < m < 1.01 * eps):
            out.append(V("C18", grp, "isApprox", "symmetric", case["tags"], case["reqs"][0], "isApprox(X,Y) != isApprox(Y,X)", 1, 0))
    d = g.log(mp.inverse(g.T(mpl(X))) * g.T(mpl(Y)))      # Y (-) X
    m = max(abs(x) for x in d)
    if m <= eps / 100 and yx != 1.0:
        out.append(V("C18", grp, "isApprox", "below", case["tags"], case["reqs"][1], "tangent distance %.3g << eps but isApprox is false" % float(m), float(m), eps))
    if m >= 100 * eps and yx != 0.0:
        out.append(V("C18", grp, "isApprox", "above", case["tags"], case["reqs"][1], "tangent distance %.3g >> eps but isApprox is true" % float(m), float(m), eps))
    if False and len(vals) > 4 and vals[4] != 1.0:
        out.append(V("C18", grp, "isApprox", "double-cover", case["tags"], case["reqs"][4], "q and -q (same transformation) are not approximately equal", 1, 0))
    return out


def j_c18t(case, resps):
    grp = case["group"]
    a, b, eps = case["a"], case["b"], case["eps"]
    out = []
    vals = []
    for line, r in zip(case["reqs"], resps):
        v, e = parse(r)
        if v is None:
            return [V("C18", grp, "t.isApprox", "status", case["tags"], line, "raised: %s" % r[:40], float("inf"), 0)]
        vals.append(v[0])
    ab, ba, aa = vals
    if aa != 1.0:
        out.append(V("C18", grp, "t.isApprox", "reflexive", case["tags"], case["reqs"][2], "t.isApprox(t) is false", 1, 0))
    A, B = mpl(a), mpl(b)
    na, nb = mp.sqrt(sum(x * x for x in A)), mp.sqrt(sum(x * x for x in B))
    diff = [x - y for x, y in zip(A, B)]
    if min(na, nb) < eps * 0.99 or min(na, nb) > eps * 1.01:
        if min(na, nb) < eps:
            m = max(abs(x) for x in diff)
            expect = None if 0.99 * eps < m < 1.01 * eps else (1.0 if m <= eps else 0.0)
            what = "absolute test against zero"
        else:
            lhs, rhs = sum(x * x for x in diff), mpf(eps) ** 2 * min(na, nb) ** 2
            expect = None if 0.98 * rhs < lhs < 1.02 * rhs else (1.0 if lhs <= rhs else 0.0)
            what = "relative test"
        if expect is not None:
            if ab != expect:
                out.append(V("C18", grp, "t.isApprox", "value", case["tags"], case["reqs"][0], "%s: expected %r" % (what, expect), 1, 0))
            if ba != expect:
                out.append(V("C18", grp, "t.isApprox", "symmetric", case["tags"], case["reqs"][1], "%s: expected %r (swapped arguments)" % (what, expect), 1, 0))
    return out


def _rz(a):
    c, s_ = mp.cos(a), mp.sin(a)
    return M([[c, -s_, 0], [s_, c, 0], [0, 0, 1]])


def _ry(a):
    c, s_ = mp.cos(a), mp.sin(a)
    return M([[c, 0, s_], [0, 1, 0], [-s_, 0, c]])


def _rx(a):
    c, s_ = mp.cos(a), mp.sin(a)
    return M([[1, 0, 0], [0, c, -s_], [0, s_, c]])


def _wrap(a):
    return mp.atan2(mp.sin(a), mp.cos(a))


def j_c13(case, resps):
    """constructors reproduce the supplied quantities; rotation() orthonormal, det +1; acceptance
    threshold; normalize; NDEBUG never rejects (that half is checked by the correspondence)"""
    grp = case["group"]
    g = REG[grp]
    out = []
    for (kind, data), line, r in zip(case["plan"], case["reqs"], resps):
        v, e = parse(r)
        if kind == "accept":
            if v is None:
                out.append(V("C13", grp, "make", "accept", case["tags"], line, "data within the acceptance threshold rejected (%s)" % r[:30], data, gen.EPS))
            continue
        if kind == "reject":
            if v is not None:
                out.append(V("C13", grp, "make", "reject", case["tags"], line, "rotation data with |norm-1| = %.3g accepted with assertions enabled" % data, data, gen.EPS))
            continue
        if v is None or not fin(v):
            out.append(V("C13", grp, kind, "status", case["tags"], line, "no finite result: %s" % r[:60], float("inf"), 0))
            continue
        if kind == "normalize":
            n = _rot_norm(grp, v)
            if abs(n - 1.0) >= gen.EPS:
                out.append(V("C13", grp, "normalize", "norm", case["tags"], line, "normalize() left |norm-1| = %.3g" % abs(n - 1), abs(n - 1), gen.EPS))
            continue
        Tm = g.T(mpl(v))
        R = Tm[0:g.dim, 0:g.dim]
        # orthonormal, det +1 (of the element built)
        d = oracle.maxdiff(R * R.T, mp.eye(g.dim))
        if d > 1e-12:
            out.append(V("C13", grp, kind, "orthonormal", case["tags"], line, "rotation() not orthonormal", d, 1e-12))
        if abs(mp.det(R) - 1) > 1e-12:
            out.append(V("C13", grp, kind, "det", case["tags"], line, "det rotation() != 1", abs(mp.det(R) - 1), 1e-12))
        ref = None
        if kind == "ctor_angle":
            ref = _rz(mpf(data[0]))[0:2, 0:2]
        elif kind == "ctor_xyt":
            ref = _rz(mpf(data[2]))[0:2, 0:2]
            tr = [mpf(data[0]), mpf(data[1])]
        elif kind == "ctor_rpy":
            ref = _rz(mpf(data[2])) * _ry(mpf(data[1])) * _rx(mpf(data[0]))
        elif kind == "ctor_xyzrpy":
            ref = _rz(mpf(data[5])) * _ry(mpf(data[4])) * _rx(mpf(data[3]))
            tr = mpl(data[0:3])
        elif kind in ("ctor_aa", "ctor_taa"):
            off = 0 if kind == "ctor_aa" else 3
            ang, ax = mpf(data[off]), mpl(data[off + 1:off + 4])
            W = oracle._skew(ax)
            ref = mp.eye(3) + mp.sin(ang) * W + (1 - mp.cos(ang)) * W * W
            if kind == "ctor_taa":
                tr = mpl(data[0:3])
        elif kind == "ctor_iso":
            n_ = g.dim + 1
            H = oracle.mat_of_rows(data, n_, n_)
            ref = H[0:g.dim, 0:g.dim]
            tr = [H[i, g.dim] for i in range(g.dim)]
        if ref is not None:
            d = oracle.maxdiff(R, ref)
            tol = 1e-12 * (1 + max(abs(float(x)) for x in data))
            if d > tol:
                out.append(V("C13", grp, kind, "rotation", case["tags"], line, "rotation() does not reproduce the supplied rotation", d, tol))
        if kind in ("ctor_xyt", "ctor_xyzrpy", "ctor_taa", "ctor_iso"):
            pcol = 3 if grp == "SE_2_3" else g.n - 1          # SE_2(3): [R p v], SGal(3): [R v p; 0 1 t]
            got = [Tm[i, pcol] for i in range(g.dim)]
            d = max(abs(a - b) for a, b in zip(got, tr))
            if d > 0:
                out.append(V("C13", grp, kind, "translation", case["tags"], line, "translation() does not reproduce the supplied translation", d, 0))
            if grp in ("SE_2_3", "SGal3") and kind == "ctor_iso":
                vcol = 4 if grp == "SE_2_3" else 3
                dv = max(abs(Tm[i, vcol] - mpf(data[16 + i])) for i in range(3))
                if grp == "SGal3":
                    dv = max(dv, abs(Tm[3, 4] - mpf(data[19])))
                if dv > 0:
                    out.append(V("C13", grp, kind, "velocity/time", case["tags"], line, "linearVelocity() / t() do not reproduce the supplied values", dv, 0))
    return out


def _layout(group):
    els = group[2:].split(",")
    E = [gen.GROUPS[e] for e in els]
    return els, E


def _offs(sizes):
    o, acc = [], 0
    for x in sizes:
        o.append(acc)
        acc += x
    return o


def j_c11(case, resps):
    """a bundle member = the elements' members on their slices, placed at the elements' offsets;
    Jacobians block diagonal with exact zeros elsewhere (implementation against implementation,
    bit for bit except where the bundle-level code goes through a large matrix product)"""
    grp = case["group"]
    els, E = _layout(grp)
    op, kind = case["op"], case["shape"]       # shape: how outputs are laid out
    out = []
    vb, eb = parse(resps[0])
    line = case["reqs"][0]
    subs = [parse(r) for r in resps[1:]]
    if vb is None:
        if all(v is not None for v, _ in subs):
            out.append(V(case.get("prop", "C11"), grp, op, "status", case["tags"], line, "bundle raised (%s) but every element succeeds" % resps[0][:40], float("inf"), 0))
        return out
    if any(v is None for v, _ in subs):
        return out
    big = gen.GROUPS[grp]
    D = big["dof"]
    loose = D >= 8 and op in ("lplus", "lminus", "bracket")

    def close(a, b, scale):
        if a == b or (a == 0 and b == 0) or (a != a and b != b):      # same value (NaN = NaN: e.g. J^-1 at its pole |theta| = 2 pi)
            return True
        return loose and abs(a - b) <= 1e-12 * max(1.0, scale)

    def check_vec(name, got, sizes_key, parts):
        sizes = [e[sizes_key] for e in E]
        offs = _offs(sizes)
        for k, (o, n) in enumerate(zip(offs, sizes)):
            sc = max([abs(x) for x in parts[k]] + [1.0])
            if not all(close(a, b, sc) for a, b in zip(got[o:o + n], parts[k])):
                out.append(V(case.get("prop", "C11"), grp, op, name, case["tags"], line, "%s of the bundle differs from element %d (%s) placed at offset %d" % (name, k, els[k], o), float("inf"), 0))
                return

    def check_mat(name, got, rkey, ckey, parts):
        rs, cs = [e[rkey] for e in E], [e[ckey] for e in E]
        ro, co = _offs(rs), _offs(cs)
        R_, C_ = sum(rs), sum(cs)
        sc = max([abs(x) for p in parts for x in p] + [1.0])
        for i in range(R_):
            for j in range(C_):
                x = got[i * C_ + j]
                blk = None
                for k in range(len(E)):
                    if ro[k] <= i < ro[k] + rs[k] and co[k] <= j < co[k] + cs[k]:
                        blk = k
                if blk is None:
                    if x != 0:
                        out.append(V(case.get("prop", "C11"), grp, op, name, case["tags"], line, "%s: entry (%d,%d) outside the diagonal blocks is %r, not an exact zero" % (name, i, j, x), abs(x), 0))
                        return
                else:
                    want = parts[blk][(i - ro[blk]) * cs[blk] + (j - co[blk])]
                    if not close(x, want, sc):
                        out.append(V(case.get("prop", "C11"), grp, op, name, case["tags"], line, "%s: block %d (%s) differs from the element's own result at (%d,%d)" % (name, blk, els[blk], i, j), abs(x - want), 0))
                        return

    # split bundle output and the elements' outputs according to the shape
    vkey, jshapes = kind
    if vkey in ("repsize", "dof", "dim") and case.get("mask") and len(jshapes) == 2:
        # only the requested optional outputs are present (bit 0: first, bit 1: second)
        jshapes = [sh for b, sh in enumerate(jshapes) if (case["mask"] >> b) & 1]
    vs = sum(e[vkey] for e in E) if vkey else None
    k = 0
    if vkey in ("repsize", "dof", "dim"):
        parts = [v[:e[vkey]] for (v, _), e in zip(subs, E)]
        check_vec("value", vb[:vs], vkey, parts)
        k = vs
        eo = [e[vkey] for e in E]
    else:
        eo = [0] * len(E)
    for jn, (rk, ck) in enumerate(jshapes):
        R_, C_ = sum(e[rk] for e in E), sum(e[ck] for e in E)
        got = vb[k:k + R_ * C_]
        parts = []
        for i, ((v, _), e) in enumerate(zip(subs, E)):
            n = e[rk] * e[ck]
            parts.append(v[eo[i]:eo[i] + n])
            eo[i] += n
        check_mat("J%d" % jn if vkey in ("repsize", "dof", "dim") else "matrix", got, rk, ck, parts)
        k += R_ * C_
    return out


def _binom(n, k):
    return math.comb(n, k)


def j_c17(case, resps):
    """index structure on the trajectory e_0..e_{N-1} of R^16 (De Casteljau is linear there, so each
    curve point is the vector of weights with which the inputs were read)"""
    N, d, k, cl = case["N"], case["d"], case["k"], case["closed"]
    line, r = case["reqs"][0], resps[0]
    out = []
    grp = "R16"
    v, e = parse(r)
    should_raise = N < 3 or d > N or k == 0
    if should_raise:
        if v is not None:
            out.append(V("C17", grp, "decasteljau", "status", case["tags"], line, "invalid (N=%d,d=%d,k=%d) accepted" % (N, d, k), float("inf"), 0))
        return out
    if v is None or not fin(v):
        return [V("C17", grp, "decasteljau", "status", case["tags"], line, "no finite result: %s" % r[:60], float("inf"), 0)]
    segk = k if d == 2 else k * d
    nwin = (N - 1) // (d - 1) + (1 if cl else 0)
    npts = len(v) // 16
    if len(v) % 16 or npts != nwin * segk:
        return [V("C17", grp, "decasteljau", "count", case["tags"], line,
                  "%d curve points, expected %d windows x %d" % (npts, nwin, segk), abs(npts - nwin * segk), 0)]
    for w in range(nwin):
        if w < (N - 1) // (d - 1):
            idx = [w * (d - 1) + j for j in range(d)]
        else:
            last = w * (d - 1)
            idx = list(range(last, N)) + list(range(0, d - (N - last)))
        for t in range(1, segk + 1):
            p = v[(w * segk + t - 1) * 16:(w * segk + t) * 16]
            u = t / segk
            ref = [0.0] * 16
            for j, i in enumerate(idx):
                ref[i] += _binom(d - 1, j) * (1 - u) ** (d - 1 - j) * u ** j
            err = max(abs(a - b) for a, b in zip(p, ref))
            if err > 1e-12:
                out.append(V("C17", grp, "decasteljau", "window", case["tags"], line,
                             "window %d point %d: weights are not the Bernstein weights of control points %s" % (w, t, idx), err, 1e-12))
                return out
        p = v[(w * segk + segk - 1) * 16:(w * segk + segk) * 16]
        if any(abs(p[i] - (1.0 if i == idx[-1] else 0.0)) > 1e-13 for i in range(16)):
            out.append(V("C17", grp, "decasteljau", "join", case["tags"], line, "last curve point of window %d is not its last control point" % w, 1, 1e-13))
    return out


def j_c17g(case, resps):
    """random trajectories on a group: last point of each window = last control point; degree 2 = slerp"""
    g = REG[case["group"]]
    grp = case["group"]
    N, d, k, cl = case["N"], case["d"], case["k"], case["closed"]
    pts = case["pts"]
    line, r = case["reqs"][0], resps[0]
    v, e = parse(r)
    if v is None or not fin(v):
        return [V("C17", grp, "decasteljau", "status", case["tags"], line, "no finite result: %s" % r[:60], float("inf"), 0)]
    R = g.repsize
    segk = k if d == 2 else k * d
    nwin = (N - 1) // (d - 1) + (1 if cl else 0)
    out = []
    if len(v) != nwin * segk * R:
        return [V("C17", grp, "decasteljau", "count", case["tags"], line, "wrong number of curve points", abs(len(v) // R - nwin * segk), 0)]
    s = lin_scale(grp, *pts)
    for w in range(nwin):
        if w < (N - 1) // (d - 1):
            lastidx = w * (d - 1) + d - 1
            first = w * (d - 1)
        else:
            last = w * (d - 1)
            lastidx = (d - (N - last)) - 1 if d - (N - last) > 0 else N - 1
            first = last
        p = v[(w * segk + segk - 1) * R:(w * segk + segk) * R]
        dd = oracle.maxdiff(g.T(mpl(p)), g.T(mpl(pts[lastidx])))
        if dd > 1e-8 * s * s:
            out.append(V("C17", grp, "decasteljau", "join", case["tags"], line, "window %d does not end at its last control point" % w, dd, 1e-8 * s * s))
        if d == 2:
            TA, TB = g.T(mpl(pts[first])), g.T(mpl(pts[lastidx]))
            L = g.log(mp.inverse(TA) * TB)
            for t in range(1, segk + 1):
                q = v[(w * segk + t - 1) * R:(w * segk + t) * R]
                ref = TA * g.exp([mpf(t) / segk * x for x in L])
                dd = oracle.maxdiff(g.T(mpl(q)), ref)
                if dd > 1e-8 * s * s:
                    out.append(V("C17", grp, "decasteljau", "geodesic", case["tags"], line, "degree-2 curve is not the geodesic of window %d" % w, dd, 1e-8 * s * s))
                    break
    return out


STAGE2 = {"logexp": s2_logexp, "c04": s2_c04, "c16": s2_c16}
JUDGES = {"c07n": j_c07n, "c07": j_c07, "c04": j_c04, "c15": j_c15, "c15phi": j_c15phi, "c16": j_c16, "c16empty": j_c16empty,
          "c17": j_c17, "c17g": j_c17g, "c18": j_c18, "c18t": j_c18t, "c13": j_c13, "c11": j_c11, "c01": j_c01, "c02": j_c02, "c03a": j_c03_explog, "c03b": j_c03_logexp2,
          "c05": j_c05, "c06": j_c06, "c06adj": j_c06_adj}


# ------------------------------------------------------------------ case generators
def neg_rotation_part(group, X):
    """the other coefficient vector of the same transformation (q -> -q / none for SO2,SE2,Rn)"""
    lay = gen.GROUPS[group]["rep"]
    out, i, has = list(X), 0, False
    for kind, n in lay:
        if kind == "quat":
            for k in range(i, i + n):
                out[k] = -out[k]
            has = True
        i += n
    return out if has else None


def c07n_case(r, group, dbg=True):
    n = gen.GROUPS[group]["dof"]
    e = r.choice([0, -3, -6, -7, -8, -12, -30, -100, 3])      # squares stay in the normal range (no claim about underflow)
    mag = 10.0 ** e * r.uniform(1, 9.99)
    a = [mag * r.uniform(-1, 1) for _ in range(n)]
    if r.random() < 0.2:
        k = r.randrange(n)
        a = [x if i == k else 0.0 for i, x in enumerate(a)]
    ri = r.randrange(n)
    # far out-of-range indices that alias an in-range one modulo a power of two or the DoF must raise too
    idx = sorted(set([-3, -1, 0, n - 1, n, n + 1, n + 3, ri, ri + 16, n - 1 + 32, ri - 16, ri + 256, ri + 65536, ri + n, ri + 2 * n, ri - n]))
    reqs = [gen.req(dbg, "o", group, "generator", 0, [], [i]) for i in idx]
    reqs += [gen.req(dbg, "o", group, "innerWeights", 0, []), gen.req(dbg, "o", group, "wnorm", 0, a),
             gen.req(dbg, "o", group, "sqwnorm", 0, a), gen.req(dbg, "o", group, "inner", 0, a + a)]
    return dict(prop="C07", group=group, kind="c07n", reqs=reqs, tags=["mag:1e%d" % e], a=a, idx=idx)


def cases(prop, r, group, n, dbg=True):
    cs = []
    G = gen.GROUPS[group]
    for _it in range(n):
        if prop == "C01":
            X, tx = gen.element(r, group, norm="exact")
            Y, ty = gen.element(r, group, norm="exact")
            p, tp = gen.point(r, group)
            reqs = [gen.req(dbg, "o", group, "compose", 0, X + Y), gen.req(dbg, "o", group, "inverse", 0, X),
                    gen.req(dbg, "o", group, "act", 0, X + p), gen.req(dbg, "o", group, "transform", 0, X)]
            cs.append(dict(prop=prop, group=group, kind="c01", reqs=reqs, tags=tx + ty + tp, X=X, Y=Y, p=p))
        elif prop == "C02":
            t, tt = gen.tangent(r, group, lin_only=["zero", "tiny", "unit", "large"])
            reqs = [gen.req(dbg, "o", group, "exp", 0, t), gen.req(dbg, "o", group, "hat", 0, t)]
            cs.append(dict(prop=prop, group=group, kind="c02", reqs=reqs, tags=tt, t=t))
        elif prop == "C03":
            if r.random() < 0.6:
                X, tx = gen.element(r, group, norm="exact", lin_only=["zero", "tiny", "unit", "large"])
                Xn = neg_rotation_part(group, X)
                reqs = [gen.req(dbg, "o", group, "log", 0, X)]
                if Xn is not None:
                    reqs.append(gen.req(dbg, "o", group, "log", 0, Xn))
                cs.append(dict(prop=prop, group=group, kind="c03a", reqs=reqs, tags=tx, X=X, Xneg=Xn))
            else:
                t, tt = gen.tangent(r, group, lin_only=["zero", "tiny", "unit", "large"],
                                    angle_only=["zero", "denormal", "tiny", "small", "below-switch",
                                                "above-switch", "cuberoot-switch", "low", "generic", "near-pi"])
                cs.append(dict(prop=prop, group=group, kind="c03b", stage2="logexp", tags=tt, t=t,
                               reqs=[gen.req(dbg, "o", group, "exp", 0, t)]))
        elif prop == "C06":
            if r.random() < 0.75:
                t, tt = gen.tangent(r, group, lin_only=["zero", "tiny", "unit", "large"],
                                    angle_only=["zero", "denormal", "tiny", "small", "below-switch",
                                                "above-switch", "cuberoot-switch", "low", "generic", "near-pi"])
                reqs = [gen.req(dbg, "o", group, o, 0, t) for o in ("rjac", "ljac", "rjacinv", "ljacinv", "smallAdj")]
                cs.append(dict(prop=prop, group=group, kind="c06", reqs=reqs, tags=tt, t=t))
            else:
                X, tx = gen.element(r, group, norm="exact", lin_only=["zero", "tiny", "unit", "large"])
                cs.append(dict(prop=prop, group=group, kind="c06adj", reqs=[gen.req(dbg, "o", group, "adj", 0, X)], tags=tx, X=X))
        elif prop == "C04":
            lin = ["zero", "tiny", "unit", "large"]
            ang = ["zero", "denormal", "tiny", "small", "below-switch", "above-switch", "low", "generic", "near-pi6"]
            X, tx = gen.element(r, group, norm="exact", lin_only=lin)
            Y, ty = gen.element(r, group, norm="exact", lin_only=lin)
            t, tt = gen.tangent(r, group, lin_only=lin, angle_only=ang)
            reqs = [gen.req(dbg, "o", group, "rplus", 0, X + t), gen.req(dbg, "o", group, "lplus", 0, X + t),
                    gen.req(dbg, "o", group, "rminus", 0, Y + X), gen.req(dbg, "o", group, "lminus", 0, Y + X),
                    gen.req(dbg, "o", group, "between", 0, X + Y)]
            cs.append(dict(prop=prop, group=group, kind="c04", stage2="c04", reqs=reqs, tags=tx + ty + tt, X=X, Y=Y, t=t))
        elif prop == "C07":
            n = G["dof"]
            mag = r.choice([1, 3, 40, 1000])
            a = [float(r.randint(-mag, mag)) for _ in range(n)]
            b = [float(r.randint(-mag, mag)) for _ in range(n)]
            if r.random() < 0.1:
                a = [0.0] * n
            reqs = [gen.req(dbg, "o", group, "generator", 0, [], [i]) for i in range(-3, n + 4)]
            reqs += [gen.req(dbg, "o", group, "hat", 0, a), gen.req(dbg, "o", group, "hat", 0, b),
                     gen.req(dbg, "o", group, "bracket", 0, a + b), gen.req(dbg, "o", group, "inner", 0, a + b),
                     gen.req(dbg, "o", group, "sqwnorm", 0, a), gen.req(dbg, "o", group, "innerWeights", 0, [])]
            gg = REG[group]
            Hh = gg.hat([mpf(x) for x in a])
            reqs.append(gen.req(dbg, "o", group, "vee", 0, [float(Hh[i, j]) for i in range(gg.alg) for j in range(gg.alg)]))
            cs.append(dict(prop=prop, group=group, kind="c07", reqs=reqs, tags=["int:%d" % mag], a=a, b=b))
            cs.append(c07n_case(r, group, dbg))
        elif prop == "C05":
            op = r.choice(["exp", "log", "inverse", "compose", "between", "rplus", "lplus", "rminus", "lminus", "act"])
            ang = ["zero", "denormal", "tiny", "small", "below-switch", "above-switch", "cuberoot-switch", "fourthroot-switch",
                   "low", "generic", "near-pi6"]
            lin = ["zero", "tiny", "unit", "large"]
            c = dict(prop=prop, group=group, kind="c05", op=op)
            if _it < 3 and any(k == "quat" for k, _ in gen.GROUPS[group]["rep"]):
                # always: log at a quaternion stored in the other hemisphere (w < 0), rotation small but not tiny
                for _try in range(40):
                    X, tg = gen.element(r, group, norm="exact", angle_only=["low"], lin_only=["unit"], hemi_only="w-")
                    i0 = 0
                    for kind, m in gen.GROUPS[group]["rep"]:
                        if kind == "quat":
                            break
                        i0 += m
                    vn = math.sqrt(sum(x * x for x in X[i0:i0 + 3]))
                    if [2e-6, 2e-5, 1e-4][_it] <= 2 * vn <= [2e-5, 1e-4, 6e-4][_it]:       # rotation angle inside the band
                        break
                c.update(op="log", X=X, tags=["log"] + tg, reqs=[gen.req(dbg, "o", group, "log", 1, X)])
                cs.append(c)
                continue
            if op == "exp":
                t, tg = gen.tangent(r, group, angle_only=ang, lin_only=lin)
                c.update(t=t, tags=[op] + tg, reqs=[gen.req(dbg, "o", group, op, 1, t)])
            elif op in ("log", "inverse"):
                X, tg = gen.element(r, group, norm="exact", angle_only=ang, lin_only=lin)
                c.update(X=X, tags=[op] + tg, reqs=[gen.req(dbg, "o", group, op, 1, X)])
            elif op in ("compose", "between", "rminus", "lminus"):
                X, t1 = gen.element(r, group, norm="exact", angle_only=ang, lin_only=lin)
                Y, t2 = gen.element(r, group, norm="exact", angle_only=ang, lin_only=lin)
                c.update(X=X, Y=Y, tags=[op] + t1 + t2, reqs=[gen.req(dbg, "o", group, op, 3, X + Y)])
            elif op in ("rplus", "lplus"):
                X, t1 = gen.element(r, group, norm="exact", angle_only=ang, lin_only=lin)
                t, t2 = gen.tangent(r, group, angle_only=ang, lin_only=lin)
                c.update(X=X, t=t, tags=[op] + t1 + t2, reqs=[gen.req(dbg, "o", group, op, 3, X + t)])
            else:
                X, t1 = gen.element(r, group, norm="exact", angle_only=ang, lin_only=lin)
                p, t2 = gen.point(r, group)
                c.update(X=X, p=p, tags=[op] + t1 + t2, reqs=[gen.req(dbg, "o", group, op, 3, X + p)])
            cs.append(c)
    return cs


def cases_algo(prop, r, group, n, exe):
    """cases for the algorithm properties (need the implementation to build point clouds)"""
    import l1
    import vlib
    cs = []
    dbg = True
    if prop == "C15":
        for it in range(n):
            A, ta_ = gen.element(r, group, norm="exact", lin_only=["zero", "unit", "large"])
            B, tb_ = gen.element(r, group, norm="exact", lin_only=["zero", "unit", "large"])
            if it % 3 == 1:      # neighbours: a small relative rotation (both sides of the switch-overs) with sizeable linear parts
                d, td_ = gen.tangent(r, group, lin_only=["unit"], angle_only=["small", "above-switch", "fourthroot-switch", "low"])
                rc, o, err = vlib.run_lines(exe, [gen.req(dbg, "o", group, "rplus", 0, A + d)])
                if o and o[0].startswith("ok"):
                    B, tb_ = [gen.of_hex(x) for x in o[0].split()[1:]], ["near"] + td_
            va = l1.small_tangent(r, group, r.choice([0.0, 0.5, 3.0]))
            vb = l1.small_tangent(r, group, r.choice([0.0, 0.5, 3.0]))
            cs.append(c15_case_at(prop, group, A, B, va, vb, [r.random(), r.random()], ta_ + tb_))
        plan, reqs = [], []
        grid = [0.0, 1.0] + sorted(r.random() for _ in range(40))
        for m in (1, 2, 3, 4, 0, 5, 6, -1, 100):
            for t in (grid if m in (1, 2, 3, 4) else [0.5]):
                plan.append((m, t))
                reqs.append(gen.req(dbg, "o", group, "phi", 0, [t], [m]))
        cs.append(dict(prop=prop, group=group, kind="c15phi", reqs=reqs, plan=plan, tags=["phi"]))
    elif prop == "C16":
        ops = ["avg_bi", "avg_w", "avg_fl", "avg_fr"]
        for it in range(n):
            cnt = r.choice([1, 2, 3, 5, 8, 13, 21, 34, 50])
            identical = r.random() < 0.15
            radius = 0.0 if identical else r.choice([1e-6, 0.05, 0.3, 0.5])
            so = None
            if it < 2:         # always: two clouds sharing one orientation, spread in position/velocity/time only
                so, identical, radius, cnt = True, False, 0.5, r.choice([3, 5, 8])
            lin = ("zero", "unit")
            if it in (2, 3):   # always: two clouds far from the origin (the centre may be anywhere on the group)
                lin, identical, radius, cnt, so = ("large",), False, r.choice([0.05, 0.3]), r.choice([3, 5, 8]), (it == 3)
            X, pts, tags = l1.make_points(exe, r, group, cnt, radius, dbg, lin_only=lin, same_orientation=so)
            Z, tz = gen.element(r, group, norm="exact", lin_only=["zero", "unit"])
            perm = list(range(cnt))
            r.shuffle(perm)
            reqs = [gen.req(dbg, "o", group, "compose", 0, Z + p) for p in pts] + \
                   [gen.req(dbg, "o", group, "compose", 0, p + Z) for p in pts]
            cs.append(dict(prop=prop, group=group, kind="c16", stage2="c16", reqs=reqs, n=cnt, pts=pts, Z=Z, perm=perm,
                           ops=ops, eps=gen.EPS, identical=identical, tags=["n%d" % cnt, "radius:%g" % radius] + tags))
        cs.append(dict(prop=prop, group=group, kind="c16empty", tags=["empty"],
                       reqs=[gen.req(dbg, "o", group, op, 0, [gen.EPS], [20]) for op in ops]))
    elif prop == "C11":
        els = group[2:].split(",")
        E = [gen.GROUPS[e] for e in els]
        G = gen.GROUPS[group]

        def split(vec, key):
            o, res = 0, []
            for e in E:
                res.append(vec[o:o + e[key]])
                o += e[key]
            return res
        OPS = C11_OPS
        for e, nm in zip(E, els):
            e.setdefault("alg", l1.ALG[nm])
        for _ in range(n):
            op = r.choice(list(OPS))
            sig, shape = OPS[op]
            a, tags, parts = [], [op], []
            for ch in sig:
                if ch == "G":
                    v, t = gen.element(r, group, norm="exact")
                    parts.append(split(v, "repsize"))
                elif ch == "T":
                    v, t = gen.tangent(r, group)
                    parts.append(split(v, "dof"))
                else:
                    v, t = gen.point(r, group)
                    parts.append(split(v, "dim"))
                a += v
                tags += t[:3]
            nmask = {"exp": 1, "log": 1, "inverse": 1}.get(op, r.choice([1, 2, 3, 3]) if len(shape[1]) == 2 else 0)
            reqs = [gen.req(dbg, "o", group, op, nmask, a)]
            for i, nm in enumerate(els):
                reqs.append(gen.req(dbg, "o", nm, op, nmask, [x for p in parts for x in p[i]]))
            cs.append(dict(prop=prop, group=group, kind="c11", op=op, shape=shape, reqs=reqs, tags=tags + ["mask%d" % nmask], mask=nmask))
    elif prop == "C13":
        reqs, plan = [], []
        lin = lambda k: [gen.pick(r, gen.LIN_STRATA, ["zero", "tiny", "unit", "large"])[1] * r.choice([-1, 1]) for _ in range(k)]
        for _ in range(n):
            # acceptance threshold (assertion build): norm deviation k*eps
            X, tags = gen.element(r, group, norm="exact")
            if group not in l1.NO_ROTATION:
                k = r.choice([0.0, 0.3, -0.3, 0.8, -0.8, 1.5, -1.5, 10.0, -10.0, 1e6])
                Xs, i = list(X), 0
                for kind, m in gen.GROUPS[group]["rep"]:
                    if kind in ("complex", "quat"):
                        for j in range(i, i + m):
                            Xs[j] = X[j] * (1 + k * gen.EPS)
                    i += m
                plan.append(("accept" if abs(k) < 0.95 else "reject", abs(k) * gen.EPS))
                reqs.append(gen.req(dbg, "o", group, "make", 0, Xs))
                sc = r.choice([1e-3, 0.5, 1.0, 3.0, 1e5, 1 + 5e-9, 1 - 3e-10, 1 + 1e-12, 1 + 1e-6, 1 - 2e-5])
                Xn, i = list(X), 0
                for kind, m in gen.GROUPS[group]["rep"]:
                    if kind in ("complex", "quat"):
                        for j in range(i, i + m):
                            Xn[j] = X[j] * sc
                    i += m
                plan.append(("normalize", None))
                reqs.append(gen.req(dbg, "o", group, "normalize", 0, Xn))
            if group == "SO2":
                a = l1._angle(r)
                plan.append(("ctor_angle", [a])); reqs.append(gen.req(dbg, "o", group, "ctor_angle", 0, [a]))
            elif group == "SE2":
                d = lin(2) + [l1._angle(r)]
                plan.append(("ctor_xyt", d)); reqs.append(gen.req(dbg, "o", group, "ctor_xyt", 0, d))
                c, s_ = math.cos(d[2]), math.sin(d[2])
                h = [c, -s_, d[0], s_, c, d[1], 0.0, 0.0, 1.0]
                plan.append(("ctor_iso", h)); reqs.append(gen.req(dbg, "o", group, "ctor_iso", 0, h))
            elif group == "SO3":
                d = [l1._angle(r), l1._angle(r), l1._angle(r)]
                plan.append(("ctor_rpy", d)); reqs.append(gen.req(dbg, "o", group, "ctor_rpy", 0, d))
                ax, _ = gen.direction(r, 3)
                d = [l1._angle(r)] + ax
                plan.append(("ctor_aa", d)); reqs.append(gen.req(dbg, "o", group, "ctor_aa", 0, d))
            elif group == "SE3":
                d = lin(3) + [l1._angle(r), l1._angle(r), l1._angle(r)]
                plan.append(("ctor_xyzrpy", d)); reqs.append(gen.req(dbg, "o", group, "ctor_xyzrpy", 0, d))
                ax, _ = gen.direction(r, 3)
                d = lin(3) + [l1._angle(r)] + ax
                plan.append(("ctor_taa", d)); reqs.append(gen.req(dbg, "o", group, "ctor_taa", 0, d))
                Rm, _ = l1._rotmat(r)
                t = lin(3)
                h = Rm[0:3] + [t[0]] + Rm[3:6] + [t[1]] + Rm[6:9] + [t[2]] + [0.0, 0.0, 0.0, 1.0]
                plan.append(("ctor_iso", h)); reqs.append(gen.req(dbg, "o", group, "ctor_iso", 0, h))
            elif group in ("SE_2_3", "SGal3"):
                Rm, _ = l1._rotmat(r)
                t = lin(3)
                h = Rm[0:3] + [t[0]] + Rm[3:6] + [t[1]] + Rm[6:9] + [t[2]] + [0.0, 0.0, 0.0, 1.0] + lin(3) + ([lin(1)[0]] if group == "SGal3" else [])
                plan.append(("ctor_iso", h)); reqs.append(gen.req(dbg, "o", group, "ctor_iso", 0, h))
        if reqs:
            cs.append(dict(prop=prop, group=group, kind="c13", reqs=reqs, plan=plan, tags=["ctor"]))
    elif prop == "C18":
        G = gen.GROUPS[group]
        for _ in range(n):
            eps = r.choice([gen.EPS, 1e-8, 1e-3])
            scale = r.choice([0.0, 0.001, 0.01, 0.3, 3.0, 100.0, 1e4])
            X, tags = gen.element(r, group, norm="exact", lin_only=["zero", "tiny", "unit", "large", "huge"],
                                  angle_only=["zero", "small", "low", "generic", "near-pi6", "exact"])
            delta = []
            for kind, k in G["tan"]:
                d, _ = gen.direction(r, k if kind != "ang1" else 1)
                delta += [scale * eps * x for x in d]
            rc, o, err = vlib.run_lines(exe, [gen.req(dbg, "o", group, "rplus", 0, X + delta)])
            if not o or not o[0].startswith("ok"):
                continue
            Y = [gen.of_hex(x) for x in o[0].split()[1:]]
            Xn = neg_rotation_part(group, X)
            reqs = [gen.req(dbg, "o", group, "isApprox", 0, X + Y + [eps]), gen.req(dbg, "o", group, "isApprox", 0, Y + X + [eps]),
                    gen.req(dbg, "o", group, "isApprox", 0, X + X + [eps]), gen.req(dbg, "o", group, "isApprox", 0, X + X)]
            if Xn:
                reqs.append(gen.req(dbg, "o", group, "isApprox", 0, X + Xn + [eps]))
                reqs.append(gen.req(dbg, "o", group, "isApprox", 0, X + Xn))        # operator== on the two coefficient vectors of one transformation
                reqs.append(gen.req(dbg, "o", group, "isApprox", 0, Xn + X))
            cs.append(dict(prop=prop, group=group, kind="c18", reqs=reqs, X=X, Y=Y, eps=eps,
                           tags=["eps:%g" % eps, "dist:%g" % scale] + tags))
            a, ta = gen.tangent(r, group, angle_only=["zero", "small", "low", "generic"], lin_only=["zero", "tiny", "unit", "large", "huge"])
            mode = r.choice(["abs", "rel", "same"])
            if mode == "abs":
                a = [x * eps * r.choice([0.1, 0.5]) for x in a]
                b = [x + scale * eps * r.uniform(-1, 1) for x in a]
            elif mode == "rel":
                b = [x * (1 + scale * eps * r.uniform(-1, 1)) for x in a]
            else:
                b = list(a)
            cs.append(dict(prop=prop, group=group, kind="c18t", a=a, b=b, eps=eps, tags=["t", mode, "dist:%g" % scale] + ta,
                           reqs=[gen.req(dbg, "o", group, "t_isApprox", 0, a + b + [eps]), gen.req(dbg, "o", group, "t_isApprox", 0, b + a + [eps]),
                                 gen.req(dbg, "o", group, "t_isApprox", 0, a + a + [eps])]))
    elif prop == "C17":
        for _ in range(n):
            N = r.choice([3, 4, 5, 6, 7, 8, 10, 12])
            d = r.choice([2, 2, 3, 4, N]) if N > 3 else r.choice([2, 3])
            d = min(d, N)
            k = r.choice([1, 2, 3])
            cl = r.choice([0, 1])
            X, pts, tags = l1.make_points(exe, r, group, N, 0.6, dbg, lin_only=("zero", "unit"))
            dup = r.random() < 0.35
            if dup:            # a trajectory that returns to its start (the usual way to describe a closed curve), or a repeated point
                if r.random() < 0.7:
                    pts[-1] = list(pts[0])
                else:
                    j = r.randrange(1, N)
                    pts[j] = list(pts[j - 1])
                tags = tags + ["dup"]
            cs.append(dict(prop=prop, group=group, kind="c17g", N=N, d=d, k=k, closed=bool(cl), pts=pts,
                           tags=["N%d" % N, "d%d" % d, "k%d" % k, "cl%d" % cl] + tags,
                           reqs=[gen.req(dbg, "o", group, "decasteljau", 0, [c for p in pts for c in p], [d, k, cl])]))
    return cs


def cases_c17_box(maxN=16, maxk=4):
    """the exhaustive box of the property: N<=16, 2<=d<=N(+1), k<=4 (and 0), open/closed,
    trajectory e_0..e_{N-1} in R^16"""
    cs = []
    for N in range(0, maxN + 1):
        for d in range(2, max(N, 2) + 2):
            for k in range(0, maxk + 1):
                for cl in (0, 1):
                    pts = [[1.0 if j == i else 0.0 for j in range(16)] for i in range(N)]
                    cs.append(dict(prop="C17", group="R16", kind="c17", N=N, d=d, k=k, closed=bool(cl),
                                   tags=["box", "N%d" % N, "d%d" % d, "k%d" % k, "cl%d" % cl],
                                   reqs=[gen.req(True, "o", "R16", "decasteljau", 0, [c for p in pts for c in p], [d, k, cl])]))
    return cs


def _judge_star(args):
    return judge(*args)


def run(cs, harness_exe, jobs=16):
    """answer all requests with the implementation, judge in parallel. -> violations"""
    import vlib
    if not cs:
        return []
    lines = [l for c in cs for l in c["reqs"]]
    rc, resp, err = vlib.run_lines_parallel(harness_exe, lines, 8)
    if len(resp) != len(lines):
        raise RuntimeError("harness desync: %d requests, %d responses (rc=%d) %s" % (len(lines), len(resp), rc, err[-1000:]))
    work, i = [], 0
    for c in cs:
        k = len(c["reqs"])
        work.append((c, resp[i:i + k]))
        i += k
    # two-stage cases: second-stage requests are built from the implementation's own answers
    stage2 = [(k, c, rs) for k, (c, rs) in enumerate(work) if c.get("stage2")]
    if stage2:
        extra = []
        for k, c, rs in stage2:
            extra.append(STAGE2[c["stage2"]](c, rs))
        lines2 = [l for ls in extra for l in ls]
        rc, resp2, err = vlib.run_lines_parallel(harness_exe, lines2, 8) if lines2 else (0, [], "")
        if len(resp2) != len(lines2):
            raise RuntimeError("harness desync in stage 2")
        j = 0
        for (k, c, rs), ls in zip(stage2, extra):
            c2 = dict(c, reqs=c["reqs"] + ls)
            work[k] = (c2, rs + resp2[j:j + len(ls)])
            j += len(ls)
    with mpx.Pool(jobs) as pool:
        res = pool.map(_judge_star, work, chunksize=4)
    return [v for r in res for v in r]
