"""oracle.py — reference semantics for the search (L2), in 60-digit arithmetic (mpmath).

Nothing here goes through manif's closed forms: group elements are their homogeneous matrices,
`exp` is the matrix exponential of `hat`, `log` the principal matrix logarithm, Jacobians are
central differences of those *reference* maps with step 1e-20 (truncation ~1e-40), `adj` is
conjugation, `rjac` is its defining series.  The oracle is a search aid: it produces failing
inputs for replay; no theorem depends on it (trusted base: none of the proofs).
"""
import mpmath as mp

mp.mp.dps = 60
M = mp.matrix


def mpf(x):
    return mp.mpf(x)


# ------------------------------------------------------------------ group descriptions
class Grp:
    """name, dof, repsize, dim, matrix size n; hat(t)->M; T(c)->M; vee(M)->list."""

    def __init__(s, name):
        s.name = name

    # -- generic helpers
    def basis(s, k):
        e = [mpf(0)] * s.dof
        e[k] = mpf(1)
        return e

    def exp(s, t):
        return mp.expm(s.hat(t))

    def log(s, Tm):
        """principal logarithm.  mpmath's `logm` leaves the real branch near rotation angle pi, so:
        the rotation part is taken in closed form (atan2 of the skew and trace parts, 60 digits),
        then the remaining unipotent factor E = exp(-t) T is absorbed by Newton steps
        t <- t + Jr(t)^-1 vee(log E), where log E is a terminating series (E - 1 is nilpotent);
        one step is exact for SE2/SE3/SE_2(3), SGal(3) needs a few."""
        t = s.rotlog(Tm)
        for _ in range(12):
            E = mp.expm(-s.hat(t)) * Tm
            N = E - mp.eye(s.n)
            # rotation block of N is ~0; clean it so the series terminates exactly
            L, P, k = mp.zeros(s.n, s.n), mp.eye(s.n), 1
            while k <= s.n + 1:
                P = P * N
                L += P * (mpf(-1) ** (k + 1)) / k
                k += 1
            d = s.vee(L)
            if max([abs(x) for x in d] + [mpf(0)]) < mpf(10) ** -52:
                break
            dl = mp.lu_solve(s.rjac_series(t), M(d))
            t = [a + dl[i] for i, a in enumerate(t)]
        return t

    def rotlog(s, Tm):
        return [mpf(0)] * s.dof

    def gen(s, k):
        return s.hat(s.basis(k))

    def ad(s, t):
        """matrix of ad_t in the basis: column i = vee([hat t, hat e_i])"""
        A = s.hat(t)
        out = mp.zeros(s.dof, s.dof)
        for i in range(s.dof):
            E = s.gen(i)
            c = s.vee(A * E - E * A)
            for r in range(s.dof):
                out[r, i] = c[r]
        return out

    def Adj(s, Tm):
        Ti = mp.inverse(Tm)
        out = mp.zeros(s.dof, s.dof)
        for i in range(s.dof):
            c = s.vee(Tm * s.gen(i) * Ti)
            for r in range(s.dof):
                out[r, i] = c[r]
        return out

    def rjac_series(s, t):
        """sum_k (-ad_t)^k/(k+1)! = phi(-ad_t), phi(z) = (e^z - 1)/z, evaluated as the top-right
        block of expm [[-ad, 1],[0, 0]] (scaling and squaring copes with large translations)."""
        n = s.dof
        A = -s.ad(t)
        B = mp.zeros(2 * n, 2 * n)
        B[0:n, 0:n] = A
        for i in range(n):
            B[i, n + i] = 1
        E = mp.expm(B)
        return E[0:n, n:2 * n]

    def act(s, Tm, p):
        v = M(list(p) + s.homog_tail())
        r = Tm * v
        return [r[i] for i in range(s.dim)]

    def homog_tail(s):
        return [mpf(1)]


def _skew(v):
    return M([[0, -v[2], v[1]], [v[2], 0, -v[0]], [-v[1], v[0], 0]])


def _rotlog3(R):
    """principal log of a 3x3 rotation -> rotation vector"""
    v = [(R[2, 1] - R[1, 2]) / 2, (R[0, 2] - R[2, 0]) / 2, (R[1, 0] - R[0, 1]) / 2]
    sn = mp.sqrt(v[0] ** 2 + v[1] ** 2 + v[2] ** 2)
    cs = (R[0, 0] + R[1, 1] + R[2, 2] - 1) / 2
    th = mp.atan2(sn, cs)
    if sn > mpf(10) ** -40:
        return [th * x / sn for x in v]
    if cs > 0:
        return v            # theta ~ 0: log R ~ skew part
    # theta = pi: axis from (R + 1)/2 = a a^T
    S = (R + mp.eye(3)) / 2
    k = max(range(3), key=lambda i: S[i, i])
    a = [S[i, k] / mp.sqrt(S[k, k]) for i in range(3)]
    return [th * x for x in a]


def _rot_of_quat(q):
    x, y, z, w = q
    n = x * x + y * y + z * z + w * w      # normalised: reference of "the rotation q denotes"
    x, y, z, w = [c / mp.sqrt(n) for c in (x, y, z, w)]
    return M([[1 - 2 * (y * y + z * z), 2 * (x * y - w * z), 2 * (x * z + w * y)],
              [2 * (x * y + w * z), 1 - 2 * (x * x + z * z), 2 * (y * z - w * x)],
              [2 * (x * z - w * y), 2 * (y * z + w * x), 1 - 2 * (x * x + y * y)]])


class SO2(Grp):
    dof, repsize, dim, n = 1, 2, 2, 3
    alg = 2

    def rotlog(s, Tm):
        return [mp.atan2(Tm[1, 0], Tm[0, 0])]

    def hat(s, t):
        return M([[0, -t[0], 0], [t[0], 0, 0], [0, 0, 0]])

    def vee(s, A):
        return [A[1, 0]]

    def T(s, c):
        re, im = c
        r = mp.sqrt(re * re + im * im)
        re, im = re / r, im / r
        return M([[re, -im, 0], [im, re, 0], [0, 0, 1]])


class SE2(Grp):
    dof, repsize, dim, n = 3, 4, 2, 3
    alg = 3

    def rotlog(s, Tm):
        return [mpf(0), mpf(0), mp.atan2(Tm[1, 0], Tm[0, 0])]

    def hat(s, t):
        return M([[0, -t[2], t[0]], [t[2], 0, t[1]], [0, 0, 0]])

    def vee(s, A):
        return [A[0, 2], A[1, 2], A[1, 0]]

    def T(s, c):
        x, y, re, im = c
        r = mp.sqrt(re * re + im * im)
        re, im = re / r, im / r
        return M([[re, -im, x], [im, re, y], [0, 0, 1]])


class SO3(Grp):
    dof, repsize, dim, n = 3, 4, 3, 4
    alg = 3

    def rotlog(s, Tm):
        return _rotlog3(Tm[0:3, 0:3])

    def hat(s, t):
        A = mp.zeros(4, 4)
        A[0:3, 0:3] = _skew(t)
        return A

    def vee(s, A):
        return [A[2, 1], A[0, 2], A[1, 0]]

    def T(s, c):
        A = mp.eye(4)
        A[0:3, 0:3] = _rot_of_quat(c)
        return A


class SE3(Grp):
    dof, repsize, dim, n = 6, 7, 3, 4
    alg = 4

    def rotlog(s, Tm):
        return [mpf(0)] * 3 + _rotlog3(Tm[0:3, 0:3])

    def hat(s, t):
        A = mp.zeros(4, 4)
        A[0:3, 0:3] = _skew(t[3:6])
        for i in range(3):
            A[i, 3] = t[i]
        return A

    def vee(s, A):
        return [A[0, 3], A[1, 3], A[2, 3], A[2, 1], A[0, 2], A[1, 0]]

    def T(s, c):
        A = mp.eye(4)
        A[0:3, 0:3] = _rot_of_quat(c[3:7])
        for i in range(3):
            A[i, 3] = c[i]
        return A


class SE23(Grp):
    dof, repsize, dim, n = 9, 10, 3, 5
    alg = 5

    def rotlog(s, Tm):
        return [mpf(0)] * 3 + _rotlog3(Tm[0:3, 0:3]) + [mpf(0)] * 3

    def hat(s, t):
        A = mp.zeros(5, 5)
        A[0:3, 0:3] = _skew(t[3:6])
        for i in range(3):
            A[i, 3] = t[i]
            A[i, 4] = t[6 + i]
        return A

    def vee(s, A):
        return [A[0, 3], A[1, 3], A[2, 3], A[2, 1], A[0, 2], A[1, 0], A[0, 4], A[1, 4], A[2, 4]]

    def T(s, c):
        A = mp.eye(5)
        A[0:3, 0:3] = _rot_of_quat(c[3:7])
        for i in range(3):
            A[i, 3] = c[i]
            A[i, 4] = c[7 + i]
        return A

    def homog_tail(s):
        return [mpf(1), mpf(0)]


class SGal3(Grp):
    # coefficients [p(3), q(4), v(3), t]; tangent [rho(3), nu(3), theta(3), s]
    # matrix [[R, v, p], [0, 1, t], [0, 0, 1]]
    dof, repsize, dim, n = 10, 11, 3, 5
    alg = 5

    def rotlog(s, Tm):
        return [mpf(0)] * 6 + _rotlog3(Tm[0:3, 0:3]) + [mpf(0)]

    def hat(s, t):
        A = mp.zeros(5, 5)
        A[0:3, 0:3] = _skew(t[6:9])
        for i in range(3):
            A[i, 3] = t[3 + i]
            A[i, 4] = t[i]
        A[3, 4] = t[9]
        return A

    def vee(s, A):
        return [A[0, 4], A[1, 4], A[2, 4], A[0, 3], A[1, 3], A[2, 3], A[2, 1], A[0, 2], A[1, 0], A[3, 4]]

    def T(s, c):
        A = mp.eye(5)
        A[0:3, 0:3] = _rot_of_quat(c[3:7])
        for i in range(3):
            A[i, 3] = c[7 + i]
            A[i, 4] = c[i]
        A[3, 4] = c[10]
        return A

    def homog_tail(s):
        return [mpf(0), mpf(1)]


class Rn(Grp):
    def __init__(s, n):
        s.name = "R%d" % n
        s.dof = s.repsize = s.dim = n
        s.n = n + 1
        s.alg = n + 1

    def hat(s, t):
        A = mp.zeros(s.n, s.n)
        for i in range(s.dof):
            A[i, s.dof] = t[i]
        return A

    def vee(s, A):
        return [A[i, s.dof] for i in range(s.dof)]

    def T(s, c):
        A = mp.eye(s.n)
        for i in range(s.dof):
            A[i, s.dof] = c[i]
        return A


REG = {"SO2": SO2("SO2"), "SE2": SE2("SE2"), "SO3": SO3("SO3"), "SE3": SE3("SE3"),
       "SE_2_3": SE23("SE_2_3"), "SGal3": SGal3("SGal3"),
       "R1": Rn(1), "R2": Rn(2), "R3": Rn(3), "R5": Rn(5)}


# ------------------------------------------------------------------ numeric helpers
def mat_of_rows(vals, r, c):
    return M([[mpf(vals[i * c + j]) for j in range(c)] for i in range(r)])


def maxabs(A):
    return max([abs(x) for x in A] + [mpf(0)])


def maxdiff(A, B):
    return maxabs(A - B)


H = mpf(10) ** -20


def num_jac(f, n_in, n_out):
    """central-difference Jacobian of f : R^n_in -> list of n_out at 0."""
    J = mp.zeros(n_out, n_in)
    for k in range(n_in):
        d = [mpf(0)] * n_in
        d[k] = H
        fp = f(d)
        d[k] = -H
        fm = f(d)
        for r in range(n_out):
            J[r, k] = (fp[r] - fm[r]) / (2 * H)
    return J


def rjac_of_group_map(g, f, TX, TfX=None):
    """right Jacobian of f : G -> G at X:  d/dδ log( f(X)^-1 f(X exp δ) )."""
    if TfX is None:
        TfX = f(TX)
    Fi = mp.inverse(TfX)
    return num_jac(lambda d: g.log(Fi * f(TX * g.exp(d))), g.dof, g.dof)
