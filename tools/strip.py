#!/usr/bin/env python3
"""Print a C++ file without comments and blank lines (reading aid)."""
import re,sys
for f in sys.argv[1:]:
    s=open(f).read()
    s=re.sub(r'/\*.*?\*/','',s,flags=re.S)
    s=re.sub(r'//[^\n]*','',s)
    out=[l.rstrip() for l in s.split('\n') if l.strip()]
    print('#####',f)
    print('\n'.join(out))
