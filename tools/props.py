"""props.py — per-property plans (which theorems, which L1 operations, which L2 predicate) and the
generic runner that turns them into a verdict."""
import collections
import json
import os
import random

import check
import gen
import l1
import l2
import vlib

MODELLED = ["SO2", "SE2", "SO3", "SE3", "SE_2_3", "SGal3", "R1", "R2", "R3", "R5"]          # groups with a Lean model (L1 + theorems)
ALL_GROUPS = ["SO2", "SE2", "SO3", "SE3", "SE_2_3", "SGal3", "R1", "R3", "R5"]        # groups the harness / oracle cover (L2)

PROPS = {
    "C01": dict(l1_ops=["compose", "inverse", "act", "transform", "rotation", "adj"], l2="C01",
                n_l1=(300, 6000), n_l2=(1200, 40000)),
    "C02": dict(l1_ops=["exp", "hat"], l2="C02", n_l1=(400, 8000), n_l2=(600, 20000)),
    "C03": dict(l1_ops=["log", "exp"], l2="C03", n_l1=(400, 8000), n_l2=(800, 20000)),
    "C05": dict(l1_ops=["exp", "log", "inverse", "compose", "between", "rplus", "lplus", "rminus",
                        "lminus", "act"], l2="C05", n_l1=(240, 2500), n_l2=(40, 800), l1_masks=True,
                ),
    "C06": dict(l1_ops=["rjac", "ljac", "rjacinv", "ljacinv", "smallAdj", "adj"], l2="C06",
                n_l1=(300, 6000), n_l2=(240, 6000)),
}

PROPS["C01"]["groups_l1"] = MODELLED + ["B:SE_2_3,R1,SE2", "B:R1,SGal3,SO2", "B:SE2,SO3,R2"]
PROPS["C05"]["groups_l1"] = MODELLED + ["B:SE2,SO3,R2", "B:SE_2_3,R1,SE2", "B:R1,SGal3,SO2"]
PROPS["C04"] = dict(l1_ops=["rplus", "lplus", "rminus", "lminus", "between"] + l1.ALIASES, l2="C04",
                    n_l1=(900, 12000), n_l2=(400, 12000), l1_masks=True, custom="c04")
PROPS["C15"] = dict(l1_ops=[], l1_algo=["interp_slerp", "interp_cubic", "interp_smooth", "phi"], l2_algo="C15",
                    n_l1=(60, 600), n_l2=(10, 200))
PROPS["C16"] = dict(l1_ops=[], l1_algo=["avg_bi", "avg_w", "avg_fl", "avg_fr"], l2_algo="C16",
                    n_l1=(30, 300), n_l2=(16, 120))
PROPS["C17"] = dict(l1_ops=[], l1_algo=["decasteljau"], l2_algo="C17", box=True,
                    n_l1=(60, 600), n_l2=(10, 150))
PROPS["C18"] = dict(l1_ops=[], l1_approx=True, l2_algo="C18", n_l1=(200, 4000), n_l2=(60, 1500))
PROPS["C13"] = dict(l1_ops=[], l1_ctor=True, custom="c13", l2_algo="C13", n_l1=(1200, 20000), n_l2=(60, 1500))
PROPS["C08"] = dict(l1_ops=[], custom="c08", n_l1=(0, 0), n_l2=(0, 0))
PROPS["C09"] = dict(l1_ops=[], custom="c09", n_l1=(0, 0), n_l2=(0, 0))
PROPS["C10"] = dict(l1_ops=[], custom="c10", n_l1=(0, 0), n_l2=(0, 0))
PROPS["C11"] = dict(l1_ops=l1.UNARY_T + l1.UNARY_G + l1.BINARY_GG + l1.BINARY_GT + l1.BINARY_TT +
                    ["act", "generator", "innerWeights", "vee", "element", "plus", "op*", "t+X"],
                    l1_algo=["interp_slerp", "avg_bi", "decasteljau"], groups_l1=gen.BUNDLES, groups_l2=gen.BUNDLES,
                    l2_algo="C11", n_l1=(900, 9000), n_l2=(40, 600))
PROPS["C07"] = dict(l1_ops=["hat", "vee", "generator", "innerWeights", "bracket", "inner", "sqwnorm", "wnorm"],
                    l2="C07", groups_l1=MODELLED + ["B:SE2,SO3,R2", "B:SE_2_3,R1,SE2", "B:R2,SO3"], c07n_groups=gen.BUNDLES[3:], n_l1=(400, 6000), n_l2=(80, 2000))

PROPS["C14"] = dict(l1_ops=[], custom="c14", n_l1=(0, 0), n_l2=(0, 0))
PROPS["C12"] = dict(l1_ops=[], custom="c12", n_l1=(0, 0), n_l2=(0, 0))
PROPS["C19"] = dict(l1_ops=l1.ALIASES, custom="c19", l1_masks=True, n_l1=(600, 8000), n_l2=(0, 0))

LEVEL = collections.defaultdict(lambda: "proof")


def case_from_request(pid, line, r):
    """directed search: turn an L1-disagreeing request into a property-level case at that input"""
    t = line.split()
    if len(t) < 5 or t[0] not in ("0", "1"):
        return None                        # not a protocol request (build logs, launches, inventory entries)
    dbg, group, op = True, t[2], t[3]      # L2 always runs on the assertion-enabled build
    a = [gen.of_hex(x) for x in t[5:] if not x.startswith("#")]
    G = gen.GROUPS[group]
    R, D = G["repsize"], G["dof"]
    tags = ["directed:" + op]
    if pid == "C01" and group.startswith("B:") and op in ("compose", "inverse", "act", "transform", "adj"):
        # the matrix of a bundle is the block-diagonal matrix of its elements (judged separately as groups)
        return l2.c11_case_at(pid, group, op, a, 0, tags)
    if pid == "C01" and op in ("compose", "inverse", "act", "transform", "rotation", "adj"):
        X = a[:R]
        Y = a[R:2 * R] if op == "compose" else gen.element(r, group, norm="exact")[0]
        p = a[R:R + G["dim"]] if op == "act" else gen.point(r, group)[0]
        reqs = [gen.req(dbg, "o", group, "compose", 0, X + Y), gen.req(dbg, "o", group, "inverse", 0, X),
                gen.req(dbg, "o", group, "act", 0, X + p), gen.req(dbg, "o", group, "transform", 0, X)]
        return dict(prop=pid, group=group, kind="c01", reqs=reqs, tags=tags, X=X, Y=Y, p=p)
    if pid == "C02" and op in ("exp", "hat"):
        tt = a[:D]
        return dict(prop=pid, group=group, kind="c02", tags=tags, t=tt,
                    reqs=[gen.req(dbg, "o", group, "exp", 0, tt), gen.req(dbg, "o", group, "hat", 0, tt)])
    if pid == "C03" and op == "log":
        X = a[:R]
        Xn = l2.neg_rotation_part(group, X)
        reqs = [gen.req(dbg, "o", group, "log", 0, X)] + ([gen.req(dbg, "o", group, "log", 0, Xn)] if Xn else [])
        return dict(prop=pid, group=group, kind="c03a", reqs=reqs, tags=tags, X=X, Xneg=Xn)
    if pid == "C03" and op == "exp":
        tt = a[:D]
        return dict(prop=pid, group=group, kind="c03b", stage2="logexp", tags=tags, t=tt,
                    reqs=[gen.req(dbg, "o", group, "exp", 0, tt)])
    if pid == "C06" and op in ("rjac", "ljac", "rjacinv", "ljacinv", "smallAdj"):
        tt = a[:D]
        reqs = [gen.req(dbg, "o", group, o, 0, tt) for o in ("rjac", "ljac", "rjacinv", "ljacinv", "smallAdj")]
        return dict(prop=pid, group=group, kind="c06", reqs=reqs, tags=tags, t=tt)
    if pid == "C06" and op == "adj":
        return dict(prop=pid, group=group, kind="c06adj", reqs=[gen.req(dbg, "o", group, "adj", 0, a[:R])], tags=tags, X=a[:R])
    if pid == "C07" and op in ("wnorm", "sqwnorm", "inner", "generator"):
        c = l2.c07n_case(r, group)
        if op != "generator" and len(a) >= D:
            c["a"] = a[:D]
            c["reqs"] = c["reqs"][:len(c["idx"]) + 1] + [gen.req(dbg, "o", group, "wnorm", 0, a[:D]), gen.req(dbg, "o", group, "sqwnorm", 0, a[:D]),
                                                         gen.req(dbg, "o", group, "inner", 0, a[:D] + a[:D])]
        c["tags"] = tags
        return c
    if pid == "C04" and l1.CANON.get(op, op) in ("rminus", "lminus", "between", "rplus", "lplus"):
        cop = l1.CANON.get(op, op)
        if cop in ("rplus", "lplus"):
            X, tt = a[:R], a[R:R + D]
            Y = gen.nudge(r, group, X)[0]
        else:
            X, Y = (a[R:2 * R], a[:R]) if cop != "between" else (a[:R], a[R:2 * R])     # rminus(Y, X) = Y - X
            tt = gen.tangent(r, group, lin_only=["zero", "tiny"], angle_only=["small", "above-switch", "low"])[0]
        reqs = [gen.req(dbg, "o", group, "rplus", 0, X + tt), gen.req(dbg, "o", group, "lplus", 0, X + tt),
                gen.req(dbg, "o", group, "rminus", 0, Y + X), gen.req(dbg, "o", group, "lminus", 0, Y + X),
                gen.req(dbg, "o", group, "between", 0, X + Y)]
        return dict(prop=pid, group=group, kind="c04", stage2="c04", reqs=reqs, tags=tags, X=X, Y=Y, t=tt)
    if pid == "C15" and op.startswith("interp") and len(a) >= 2 * R + 1:
        A, B, tpar = a[:R], a[R:2 * R], a[2 * R]
        va = a[2 * R + 1:2 * R + 1 + D] if len(a) >= 2 * R + 1 + 2 * D else [0.0] * D
        vb = a[2 * R + 1 + D:2 * R + 1 + 2 * D] if len(a) >= 2 * R + 1 + 2 * D else [0.0] * D
        tins = [tpar] if 0.0 < tpar < 1.0 else []
        return l2.c15_case_at(pid, group, A, B, va, vb, tins + [0.25, 0.5, r.random()], tags)
    if pid == "C13" and op == "normalize" and len(a) >= R:
        return dict(prop=pid, group=group, kind="c13", reqs=[gen.req(True, "o", group, "normalize", 0, a[:R])], plan=[("normalize", None)], tags=tags)
    if pid == "C16" and op.startswith("avg") and len(a) > R:
        pts = [a[1 + i * R:1 + (i + 1) * R] for i in range((len(a) - 1) // R)]      # a[0] is the stopping tolerance
        Z = gen.element(r, group, norm="exact", lin_only=["zero", "unit"])[0]
        perm = list(range(len(pts)))
        r.shuffle(perm)
        reqs = [gen.req(dbg, "o", group, "compose", 0, Z + p_) for p_ in pts] + [gen.req(dbg, "o", group, "compose", 0, p_ + Z) for p_ in pts]
        return dict(prop=pid, group=group, kind="c16", stage2="c16", reqs=reqs, n=len(pts), pts=pts, Z=Z, perm=perm,
                    ops=["avg_bi", "avg_w", "avg_fl", "avg_fr"], eps=gen.EPS, identical=all(p_ == pts[0] for p_ in pts), tags=tags)
    if pid == "C05" and op in l1.MASKS and group.startswith("B:"):
        # a bundle's Jacobian is the derivative iff it is the elements' Jacobians on the diagonal blocks and
        # exactly zero elsewhere (the elements do not interact); the elements themselves are judged separately
        return l2.c11_case_at(pid, group, op, a, int(t[4]), tags)
    if pid == "C05" and op in l1.MASKS:
        c = dict(prop=pid, group=group, kind="c05", op=op, tags=tags)
        full = 3 if l1.MASKS[op] == 4 else 1
        if op == "exp":
            c.update(t=a[:D])
        elif op in ("log", "inverse"):
            c.update(X=a[:R])
        elif op in ("compose", "between", "rminus", "lminus"):
            c.update(X=a[:R], Y=a[R:2 * R])
        elif op in ("rplus", "lplus"):
            c.update(X=a[:R], t=a[R:R + D])
        else:
            c.update(X=a[:R], p=a[R:R + G["dim"]])
        c["reqs"] = [gen.req(dbg, "o", group, op, full, a)]
        return c
    return None


def run_property(pid, thorough, seed, res):
    cfg = PROPS[pid]
    known = check.load_known()
    r = random.Random(seed * 1000003 + sum(map(ord, pid)))
    ti = 1 if thorough else 0

    # 1 ---- proof obligations
    po = check.proof_obligations(pid, thorough)
    res.notes["proof"] = dict(obligations=po["obligations"], discharged=po["discharged"],
                              broken=po["broken"], modules=po.get("modules", []))

    # 2 ---- harness for the current tree (both configurations)
    builds = {}
    for dbg in (True, False):
        ok, exe = vlib.harness_build(dbg)
        if not ok:
            rp = check.write_replay(pid, "harness-build", dict(
                what="the correspondence harness no longer compiles against /repo (%s build)" % ("assert" if dbg else "NDEBUG"),
                compiler_output=exe[-6000:]))
            named = []
            if pid == "C19":
                # the API matrix does not need the harness: it names the instantiation that stopped compiling
                try:
                    _, cv, _ = custom_c19({}, r, thorough, res)
                    for v in cv:
                        if not check.match_known(v, known):
                            named.append(v)
                except Exception as e:      # noqa
                    res.notes["api_matrix_error"] = repr(e)[:300]
            for v in named[:12]:
                res.violation(check.write_replay(pid, "l2", dict(violation=v)),
                              "%s %s/%s: %s" % (v["group"], v["op"], v["output"], v["what"][:160]))
            if not named:
                res.violation(rp, "correspondence broken: harness does not compile", no_input=True)
            return res.finish(LEVEL[pid], proof_cov(po))
        builds[dbg] = exe

    # 3 ---- L1
    n1 = cfg["n_l1"][ti]
    l1_bad = []
    n_lines = 0
    bit_equal = 0
    for dbg in (True, False):
        reqs = []
        for g in cfg.get("groups_l1", MODELLED):
            if cfg["l1_ops"]:
                reqs += l1.requests_for(r, g, max(1, n1 // (2 * len(cfg["l1_ops"]))), dbg,
                                        storages=("o", "m", "c"), ops=cfg["l1_ops"],
                                        norm=("valid" if dbg else "any"))
            if cfg.get("l1_ctor"):
                reqs += l1.ctor_requests(r, g, max(1, n1 // 40), dbg)
            if cfg.get("l1_approx"):
                reqs += l1.approx_requests(builds[dbg], r, g, max(1, n1 // 16), dbg)
            if cfg.get("l1_algo"):
                reqs += l1.algo_requests(builds[dbg], r, g, max(1, n1 // (2 * len(cfg["l1_algo"]))), dbg, ops=cfg["l1_algo"])
        impl, model = l1.run(reqs, builds[dbg])
        n_lines += len(reqs)
        for (line, tags), a, b in zip(reqs, impl, model):
            tk = line.split()
            eq, why = l1.compare(a, b, (tk[2], tk[3]))
            res.add_cells([("L1",) + tuple(tags[:3]) + tuple(x.split("/")[0] for x in tags[3:]) + (a.split()[0],)])
            if eq:
                bit_equal += 1
            else:
                l1_bad.append(dict(request=line, tags=tags, impl=a, model=b, why=why))
        if len(res.cov["samples"]) < 4 and reqs:
            res.cov["samples"].append(dict(kind="L1", request=reqs[0][0], impl=impl[0], model=model[0]))
    custom_viol = []
    if cfg.get("custom"):
        cb, cv, cn = CUSTOM[cfg["custom"]](builds, r, thorough, res)
        l1_bad += cb
        custom_viol += cv
        n_lines += cn
        bit_equal += cn - len(cb)
    res.notes["l1"] = dict(requests=n_lines, bit_identical=bit_equal, disagreements=len(l1_bad))

    # 4 ---- L2 standing sweep (+ directed search when a link is broken)
    n2 = cfg["n_l2"][ti]
    broken = (not po["ok"]) or bool(l1_bad)
    cs = []
    for g in cfg.get("groups_l2", ALL_GROUPS):
        if cfg.get("l2"):
            cs += l2.cases(cfg["l2"], r, g, max(1, n2 // len(ALL_GROUPS)) * (4 if broken else 1))
        if cfg.get("l2_algo"):
            cs += l2.cases_algo(cfg["l2_algo"], r, g, n2 * (2 if broken else 1), builds[True])
    if cfg.get("box"):
        cs += l2.cases_c17_box()
    for g in cfg.get("c07n_groups", []):          # norm / index-range clauses on bundles (no reference model needed)
        cs += [l2.c07n_case(r, g) for _ in range(max(2, n2 // 40))]
    def valid_input(b):       # directed cases must be inputs the property quantifies over
        return not any(x in t for t in b["tags"] for x in ("norm+1.1", "norm-1.1", "norm+10", "norm-10", "normfar"))
    for b in [b for b in l1_bad if valid_input(b)][:400]:
        c = case_from_request(pid, b["request"], r)
        if c:
            cs.append(c)
    viol = l2.run(cs, builds[True])
    if pid == "C13":
        # "with NDEBUG nothing is rejected": an NDEBUG request of the construction / setter family that the
        # implementation answered with invalid_argument while the model accepts IS the failing input
        for b in l1_bad:
            tk = b["request"].split()
            if len(tk) > 4 and tk[0] == "0" and b.get("impl", "").startswith("err invalid_argument") and b.get("model", "").startswith("ok") \
                    and (tk[3] in ("make", "normalize", "set_quat", "accessors") or tk[3].startswith("ctor_")):
                viol.append(l2.V("C13", tk[2], tk[3], "ndebug-reject", b["tags"], b["request"],
                                 "with NDEBUG (assertions off) the data was rejected: " + b["impl"][:40], float("inf"), 0))
    for c in cs:
        res.add_cells([("L2", c["group"], c["kind"], c.get("op", "")) + tuple(x.split("/")[0] for x in c["tags"])])
    if cs:
        res.cov["samples"].append(dict(kind="L2", case={k: v for k, v in cs[0].items() if k != "prop"}))
    new = []
    for v in viol + custom_viol:
        k = check.match_known(v, known)
        if k:
            res.known_hits.setdefault("%s group=%s op=%s output=%s stratum=%s: %s" % (
                k.get("id", ""), k.get("group"), k.get("op"), k.get("output"), ",".join(k.get("stratum", [])), k.get("witness", "")[:100]), 0)
        else:
            new.append(v)
    res.notes["l2"] = dict(cases=len(cs), violations=len(viol), unlisted=len(new))
    res.cov["evaluations"] = n_lines + len(cs)
    res.cov["rule"] = ("L1: one protocol request per (group, op, mask, storage, stratum) answered by model and "
                       "implementation, compared bit for bit; L2: property predicate on the implementation vs 60-digit "
                       "reference. A cell is distinct when (link, group, op, mask/storage, input strata, status) differ; "
                       "identity/zero inputs are one stratum among many, so cells are non-trivial by construction.")

    # 5 ---- verdict
    seen = set()
    for v in new:
        key = (v["group"], v["op"], v["output"])
        if key in seen:
            continue
        seen.add(key)
        rp = check.write_replay(pid, "l2", dict(violation=v, tolerance=v["tol"], observed_error=v["err"]))
        res.violation(rp, "%s %s/%s: %s (err %.3g > tol %.3g)" % (v["group"], v["op"], v["output"], v["what"], v["err"], v["tol"]))
    if broken and not new:
        if not po["ok"]:
            rp = check.write_replay(pid, "proof", dict(what="proof obligation no longer checks", broken=po["broken"], log=po["log"]))
            res.violation(rp, "proof obligation broken: %s" % "; ".join(po["broken"])[:200], no_input=True)
        if l1_bad:
            rp = check.write_replay(pid, "l1", dict(what="model/implementation correspondence broken",
                                                    first=l1_bad[0], count=len(l1_bad),
                                                    by_op=collections.Counter(b["request"].split()[2] + "." + b["request"].split()[3] for b in l1_bad)))
            res.violation(rp, "correspondence broken at %s: %s" % (" ".join(l1_bad[0]["request"].split()[2:4]), l1_bad[0]["why"][:120]), no_input=True)
    return res.finish(LEVEL[pid], proof_cov(po))


def custom_c08(builds, r, thorough, res):
    """lock-step histories: random walks and adversarial repetition, both build configurations"""
    import hist
    from concurrent.futures import ThreadPoolExecutor
    steps = 400000 if thorough else 6000
    rep = 100000 if thorough else 2500
    jobs = []
    for dbg in (True, False):
        for g in MODELLED:
            if g in ("R1", "R2", "R5"):
                continue
            jobs.append((builds[dbg], dbg, g, steps, r.randrange(1 << 30), "random"))
            jobs.append((builds[dbg], dbg, g, rep, r.randrange(1 << 30), "repeat"))
    with ThreadPoolExecutor(max_workers=12) as ex:
        outs = list(ex.map(lambda j: (j, hist.run_history(*j)), jobs))
    bad, viol, n = [], [], 0
    for (exe, dbg, g, st, seed, mode), o in outs:
        n += o["steps"]
        res.add_cells([("hist", g, dbg, mode, op) for op in o["ops"]])
        res.notes.setdefault("histories", []).append(dict(group=g, assertions=dbg, mode=mode, steps=o["steps"],
                                                          max_dev=o["max_dev"], renorm_inputs=o["renorm_inputs"], ops=dict(o["ops"])))
        for b in o["l1_bad"]:
            bad.append(dict(request=b["request"], tags=["history", mode, "step%d" % b["step"]], impl=b["impl"], model=b["model"], why=b["why"]))
        for v in o["violations"]:
            viol.append(dict(property="C08", group=g, op=v.get("op", "history"), output="validity",
                             tags=["history", mode, "assert" if dbg else "ndebug", "seed%d" % seed, "step%d" % v["step"]],
                             request=v["request"], what=v["what"], err=float("inf"), tol=gen.EPS))
    if outs:
        res.cov["samples"].append(dict(kind="history", group=outs[0][0][2], steps=outs[0][1]["steps"], ops=dict(outs[0][1]["ops"])))
    return bad, viol, n


def _purity(kind):
    def run(builds, r, thorough, res):
        import purity
        n = 40 if thorough else 5
        groups = [g for g in ALL_GROUPS if g not in ("R1", "R5")] + ["B:SE2,SO3,R2"]
        bad, viol, total = [], [], 0
        for dbg in (True, False):
            f = purity.run_c09 if kind == "c09" else purity.run_c10
            v, lines, cells = f(builds[dbg], groups, r, n, dbg)
            viol += v
            total += len(lines)
            res.add_cells([(kind,) + tuple(c) + (dbg,) for c in cells])
            # the same (canonical) requests against the model
            base = []
            for l in lines:
                t = l.split()
                if t[3].startswith(("blk_", "self_", "assign_", "exprt_")) or t[2] not in MODELLED:
                    continue
                t[4] = str(int(t[4]) & 127)
                base.append(" ".join(t))
            base = sorted(set(base))
            impl, model = l1.run([(l, []) for l in base], builds[dbg])
            total += len(base)
            for l, a, b in zip(base, impl, model):
                tk = l.split()
                eq, why = l1.compare(a, b, (tk[2], tk[3]))
                if not eq:
                    bad.append(dict(request=l, tags=[kind], impl=a, model=b, why=why))
            if lines and len(res.cov["samples"]) < 3:
                res.cov["samples"].append(dict(kind=kind, request=lines[0]))
        if kind == "c10":
            # the same self-consistency run on builds with Eigen's vectorisation ON: views sit at
            # addresses that are never 16-byte aligned, so any code path that assumes alignment
            # of a viewed buffer faults (eigen_assert in the assertion build, SIGSEGV otherwise)
            for dbg in (True, False):
                ok, exe = vlib.harness_build(dbg, vectorize=True)
                if not ok:
                    viol.append(dict(property="C10", group="*", op="build", output="compile", tags=["vectorized"], request="harness with Eigen vectorisation",
                                     what="harness does not compile with vectorisation: " + exe[-800:], err=float("inf"), tol=0.0))
                    continue
                v, lines, cells = purity.run_c10(exe, groups, r, max(2, n // 2), dbg)
                viol += v
                total += len(lines)
                res.add_cells([(kind, "vectorized") + tuple(c) + (dbg,) for c in cells])
        return bad, viol, total
    return run


def float_builds(pid, res, dbgs=(True,)):
    """harness instantiated over `float` for the current tree -> {dbg: exe} or None (violation recorded)"""
    out = {}
    for dbg in dbgs:
        ok, exe = vlib.harness_build(dbg, extra_flags=["-DHX_SC=float"], tag="_f")
        if not ok:
            rp = check.write_replay(pid, "harness-build", dict(
                what="the correspondence harness instantiated over float no longer compiles against /repo",
                compiler_output=exe[-6000:]))
            res.violation(rp, "correspondence broken: float harness does not compile", no_input=True)
            return None
        out[dbg] = exe
    return out


def l1_float(res, reqs, exe, tag="f32"):
    """single-precision correspondence: implementation over float vs the model at Float32"""
    bad = []
    impl, model = l1.run(reqs, exe, driver=[vlib.DRIVER, "f32"])
    for (line, tags), a, b in zip(reqs, impl, model):
        tk = line.split()
        eq, why = l1.compare(a, b, (tk[2], tk[3]), tol_rel=1e-5)
        res.add_cells([("L1", tag) + tuple(tags[:3]) + tuple(x.split("/")[0] for x in tags[3:]) + (a.split()[0],)])
        if not eq:
            bad.append(dict(request=line, tags=[tag] + tags, impl=a, model=b, why=why, scalar="float"))
    return bad


def custom_c19(builds, r, thorough, res):
    """the API matrix (compile + link + run, exhaustive) and the alias correspondence over float"""
    import apimatrix
    m = apimatrix.build_and_run()
    viol, bad = [], []
    cells_by = collections.Counter()
    for g in apimatrix.GROUPS:
        names, _ = apimatrix.all_cells(g)
        for sc in apimatrix.SCALARS:
            for name, mut, _ in names:
                for st in apimatrix.STORAGES:
                    if mut and st == "c":
                        continue
                    res.add_cells([("matrix", name, g, sc, st)])
                    cells_by[g] += 1
    res.notes["api_matrix"] = dict(translation_units=m["tus"], cells_run=m["cells"], cells_enumerated=sum(cells_by.values()),
                                   groups=list(apimatrix.GROUPS), scalars=apimatrix.SCALARS, storages=apimatrix.STORAGES,
                                   alias_entries_from_Api_lean=len(apimatrix.alias_cells()[0]),
                                   failing=len(m["failing"]), ok=m["ok"])
    res.cov["exhaustive"] = True
    res.cov["programs"] = sum(cells_by.values())
    if m["missing"]:
        viol.append(dict(property="C19", group="*", op=",".join(m["missing"]), output="table", tags=["api-table"],
                         request="lean/ManifModel/Api.lean", what="alias listed in Api.lean has no entry in the generated matrix",
                         err=float("inf"), tol=0.0))
    for f in m["failing"]:
        viol.append(dict(property="C19", group="%s<%s>" % (f["group"], f["scalar"]), op=f["entry"], output="instantiation",
                         tags=["matrix", f["scalar"]], request=f["program"], what="does not compile/link/forward: " + f["diagnostic"][:1500],
                         err=float("inf"), tol=0.0))
    res.cov["samples"].append(dict(kind="matrix-cell", program="one function template per (entry, group, scalar, storage); e.g. "
                                   "`G r_ = X * Y; same(r_.coeffs(), X.compose(Y, Ja, Jb).coeffs())` for SE3<float>, Eigen::Map<const SE3f>"))
    n = 0
    fb = float_builds("C19", res)
    if fb:
        with gen.float32():
            reqs = []
            for g in MODELLED:
                reqs += l1.requests_for(r, g, (40 if thorough else 6), True, storages=("o", "m", "c"),
                                        ops=l1.ALIASES + ["rplus", "lplus", "rminus", "lminus", "compose", "between", "inverse", "log", "exp", "act"])
        bad += l1_float(res, reqs, fb[True])
        n += len(reqs)
    return bad, viol, n + m["cells"]


def custom_c14(builds, r, thorough, res):
    """static-state inventory + init-dependency trace (translator input) and the concurrency runs"""
    import conc
    viol, bad, n = [], [], 0

    def V(group, op, output, tags, req, what):
        return dict(property="C14", group=group, op=op, output=output, tags=tags, request=req, what=what, err=float("inf"), tol=0.0)
    g = conc.generate()
    res.notes["statics"] = dict(inventory=len(g["inventory"]), by_kind=dict(collections.Counter(e["kind"] for e in g["inventory"])),
                                guards_observed=len(g["guards"]), dependency_edges=len(g["edges"]), problems=len(g["problems"]),
                                unknown_guards=len(g["unknown"]), unobserved_entries=len(g["unobserved"]), cyclic=g["cyclic"])
    for e, why in g["problems"]:
        viol.append(V(e["file"], e.get("where", ""), "shared-mutable-state", [e["kind"]], "%s:%d: %s" % (e["file"], e["line"], e["decl"][:160]),
                      "static-duration state that the concurrency argument does not allow: " + why))
    for f in g["flags"]:
        viol.append(V("build", "flags", "threadsafe-statics", [], f, "build description disables thread-safe initialisation of local statics"))
    if not g["ok"]:
        bad.append(dict(request="harness/conc.cpp (guard trace build)", tags=["trace"], impl=g["log"][-1500:], model="", why="the concurrency harness does not build/run: " + g["log"][-300:]))
        return bad, viol, n
    if g["cyclic"]:
        viol.append(V("statics", "initialisation", "cycle", [], "EDGE list of `conc_trace 1 1 1`", "the initialisers of the lazily initialised statics depend on each other cyclically"))
    for u in g["unknown"][:5]:
        bad.append(dict(request=u, tags=["inventory"], impl=u, model="", why="a guarded static in the binary is not in the source inventory (scanner out of date): " + u[:200]))
    for e in g["unobserved"][:5]:
        bad.append(dict(request="%s:%d" % (e["file"], e["line"]), tags=["inventory"], impl="", model=e["decl"][:200],
                        why="a local static of the source is never initialised by the concurrency harness (not exercised): %s:%d %s" % (e["file"], e["line"], e.get("name"))))
    res.add_cells([("static", conc.short(x)[:80]) for x in g["guards"]])
    launches = []
    for kind, counts, seeds in (("tsan", [2, 3, 8, 16] if not thorough else [2, 3, 4, 6, 8, 12, 16, 24], range(3 if not thorough else 25)),
                                ("plain", [2, 4, 16, 32] if not thorough else [2, 4, 8, 16, 32, 64], range(6 if not thorough else 80))):
        ok, exe = conc.build(kind)
        if not ok:
            bad.append(dict(request="harness/conc.cpp (%s build)" % kind, tags=[kind], impl=exe[-1500:], model="", why="the concurrency harness does not build: " + exe[-300:]))
            continue
        ref = conc.launch(exe, 1, 1, 1)
        n += 1
        if ref["rc"] != 0 or not ref["hash"]:
            viol.append(V("conc", kind, "single-thread", [kind], "%s 1 1 1" % exe, "single-threaded reference run failed: rc=%s %s %s" % (ref["rc"], ref["line"], ref.get("err", "")[-300:])))
            continue
        jobs = [(nt, int(r.randrange(1 << 30))) for nt in counts for _ in seeds]
        from concurrent.futures import ThreadPoolExecutor
        with ThreadPoolExecutor(max_workers=4) as ex:
            outs = list(ex.map(lambda j: (j, conc.launch(exe, j[0], j[1], 2)), jobs))
        for (nt, sd), o in outs:
            n += 1
            res.add_cells([("launch", kind, nt)])
            cmd = "%s %d %d 2" % (exe, nt, sd)
            if o["timed_out"]:
                viol.append(V("conc", kind, "deadlock", ["threads%d" % nt], cmd, "the run did not finish (deadlock or livelock on first use of a static?)"))
            elif o["tsan"]:
                viol.append(V("conc", kind, "data-race", ["threads%d" % nt], cmd, "ThreadSanitizer: " + o["tsan"][:1500]))
            elif o["rc"] != 0 or not o["line"].startswith("RESULT ok"):
                viol.append(V("conc", kind, "per-thread-results", ["threads%d" % nt], cmd, "threads did not all obtain the single-thread results: rc=%s %s %s" % (o["rc"], o["line"], o.get("err", "")[-300:])))
            elif o["hash"] != ref["hash"]:
                viol.append(V("conc", kind, "launch-dependent", ["threads%d" % nt], cmd, "results differ from the single-threaded launch of the same binary (hash %s vs %s)" % (o["hash"], ref["hash"])))
        launches.append((kind, len(jobs)))
    res.notes["launches"] = dict(launches)
    res.cov["samples"].append(dict(kind="launch", cmd="conc_tsan <threads> <seed> <rounds>", answer="RESULT ok items=215 threads=8 hash=…"))
    return bad, viol, n


def custom_c13(builds, r, thorough, res):
    """cast<>() between float and double: model (L1, both directions) and validity of the result"""
    import math
    bad, viol, n = [], [], 0
    fb = float_builds("C13", res)
    if not fb:
        return bad, viol, n
    k = 60 if thorough else 8
    groups = ALL_GROUPS + ["B:SE2,SO3,R2", "B:SO3,SE2,R5,SO3"]
    for mode, exe, drv, eps_t in (("d2f", builds[True], None, gen.EPS_F), ("f2d", fb[True], [vlib.DRIVER, "f32"], gen.EPS_D)):
        reqs = []
        ctx = gen.float32() if mode == "f2d" else None
        if ctx:
            ctx.__enter__()
        try:
            for g in groups:
                for _ in range(k):
                    a, tags = gen.element(r, g, norm="valid")
                    reqs.append((gen.req(True, r.choice("omc"), g, "cast", 0, a), ["cast", mode, g] + tags))
        finally:
            if ctx:
                ctx.__exit__()
        lines = [q[0] for q in reqs]
        _, impl, _ = vlib.run_lines_parallel(exe, lines)
        mreqs = [(q, i) for i, q in enumerate(reqs) if q[1][2] in MODELLED]
        _, model, _ = vlib.run_lines_parallel(drv or vlib.DRIVER, [q[0] for q, _ in mreqs])
        n += len(lines) + len(mreqs)
        for (q, i), b in zip(mreqs, model):
            eq, why = l1.compare(impl[i], b, (q[1][2], "cast"))
            if not eq:
                bad.append(dict(request=q[0], tags=q[1], impl=impl[i], model=b, why=why, scalar="float" if mode == "f2d" else "double"))
        for (line, tags), a in zip(reqs, impl):
            g = tags[2]
            res.add_cells([("cast", mode, g) + tuple(x.split("/")[0] for x in tags[3:])])
            t = a.split()
            if t[0] != "ok":
                viol.append(dict(property="C13", group=g + ("<float>" if mode == "f2d" else ""), op="cast", output="status", tags=tags, request=line,
                                 what="cast<>() of a valid element raised: " + " ".join(t[:2]), err=float("inf"), tol=0.0))
                continue
            c = [gen.of_hex(x) for x in t[1:]]
            src = [gen.of_hex(x) for x in line.split()[5:]]
            i = 0
            for kind, m in gen.GROUPS[g]["rep"]:
                if kind in ("complex", "quat"):
                    dev = abs(math.sqrt(sum(x * x for x in c[i:i + m])) - 1.0)
                    if not dev < eps_t:
                        viol.append(dict(property="C13", group=g + ("<float>" if mode == "f2d" else ""), op="cast", output="validity", tags=tags, request=line,
                                         what="cast<>() returned an element that is not valid in the new scalar type (|norm-1| = %.3g)" % dev,
                                         err=dev, tol=eps_t))
                        break
                i += m
            sc = max([1.0] + [abs(x) for x in src if math.isfinite(x)])
            # same element: a valid source may be off unit norm by up to eps_float, which the cast removes,
            # so coefficients agree to 2 eps_float (+ rounding), relative to the largest coordinate
            err = max([abs(x - y) for x, y in zip(c, src) if math.isfinite(x) and math.isfinite(y)] + [0.0])
            if err > 3e-5 * sc and len(c) == len(src):
                viol.append(dict(property="C13", group=g + ("<float>" if mode == "f2d" else ""), op="cast", output="value", tags=tags, request=line,
                                 what="cast<>() changed the element beyond single precision", err=err, tol=3e-5 * sc))
    return bad, viol, n


def custom_c12(builds, r, thorough, res):
    """dual-number and single-precision instantiations (see jets.py), plus the Float32 model"""
    import jets
    viol, bad, n = [], [], 0
    ok, exj = vlib.harness_build(True, kind="jet")
    if not ok:
        viol.append(dict(property="C12", group="*<Jet>", op="instantiation", output="compile", tags=["jet"],
                         request="g++ … -I harness/shim harness/j_*.cpp", err=float("inf"), tol=0.0,
                         what="manif no longer instantiates over the forward-mode dual scalar: " + exj[-1500:]))
        return bad, viol, 0
    cells = set()
    k = 10 if thorough else 1
    v, c, worst, lb = jets.run_jets(builds[True], exj, jets.JGROUPS, r, 12 * k, cells,
                                    modelled=set(MODELLED) | {g for g in jets.JGROUPS if g.startswith("B:")})
    viol += v
    bad += lb
    n += c
    res.notes["dual_vs_jacobian_worst_rel"] = {"%s.%s" % kk: vv for kk, vv in sorted(worst.items(), key=lambda x: -x[1])[:12]}
    v, c = jets.run_functors(exj, jets.JGROUPS, r, 8 * k, cells)
    viol += v
    n += c
    fb = float_builds("C12", res)
    if fb:
        v, c, w = jets.run_float_vs_double(builds[False], fb[True], [g for g in ALL_GROUPS] + ["B:SE2,SO3,R2"], r, 10 * k, cells)
        viol += v
        n += c
        res.notes["float_vs_double_worst_rel"] = {"%s.%s.%s" % kk: vv for kk, vv in sorted(w.items(), key=lambda x: -x[1])[:12]}
        with gen.float32():
            reqs = []
            for g in MODELLED + ["B:SE2,SO3,R2", "B:R1,SE3,SO2,SE_2_3,SE2"]:
                reqs += l1.requests_for(r, g, 6 * k, True, storages=("o", "m", "c"))
                if g in ("SO2", "SE2", "SO3", "SE3"):
                    reqs += l1.ctor_requests(r, g, 10 * k, True)
                if not g.startswith("B:"):      # algorithms and isApprox over float as well
                    reqs += l1.algo_requests(fb[True], r, g, 2 * k, True) + l1.approx_requests(fb[True], r, g, 2 * k, True)
        bad += l1_float(res, reqs, fb[True])
        n += len(reqs)
    res.add_cells(list(cells))
    res.cov["samples"].append(dict(kind="jet", request="1 o SE3 jet_compose 3 <X Y>", answer="value | J_a J_b (primal parts) | AD_a AD_b (dual parts of f(X(+)d)(-)f(X)) | max |dual| of the constant run"))
    return bad, viol, n


def custom_c04(builds, r, thorough, res):
    """the in-place alias `*=` on ALIASED operands (X *= X; destination and operand two objects over the same
    coefficients) must still be the canonical compose(X, X) — implementation against implementation, bit for bit"""
    bad, viol, n = [], [], 0
    k = 12 if thorough else 3
    exe = builds[True]
    for g in ALL_GROUPS + ["B:SE2,SO3,R2", "B:R1,SGal3,SO2"]:
        lines, meta = [], []
        for _ in range(k):
            X, tags = gen.element(r, g, norm="valid")
            for st in "om":
                for op in ("self_timeseq", "self_timeseq_cv", "self_timeseq_vx"):
                    lines += [gen.req(True, st, g, op, 0, X), gen.req(True, "o", g, "compose", 0, X + X)]
                    meta.append((op, st, tags))
        _, out, _ = vlib.run_lines_parallel(exe, lines)
        n += len(lines)
        for i, (op, st, tags) in enumerate(meta):
            a, b = out[2 * i], out[2 * i + 1]
            res.add_cells([("alias-on-aliased-operands", g, op, st) + tuple(x.split("/")[0] for x in tags[:2])])
            if a != b:
                viol.append(dict(property="C04", group=g, op="*= (" + op + ")", output="value", tags=[st] + tags, request=lines[2 * i],
                                 what="X *= X through %s differs from X.compose(X): %s vs %s" % (op, a[:60], b[:60]), err=float("inf"), tol=0.0))
    return bad, viol, n


CUSTOM = {"c04": custom_c04, "c14": custom_c14, "c13": custom_c13, "c12": custom_c12, "c19": custom_c19, "c08": custom_c08, "c09": _purity("c09"), "c10": _purity("c10")}


def proof_cov(po):
    return dict(obligations=po["obligations"], discharged=po["discharged"],
                checker_cmd="cd lean && lake build && lake env lean <audit with #print axioms per registered theorem>",
                trusted_base=["Lean 4.33 kernel", "Mathlib v4.33 (compiled)"] + ["axiom " + a for a in po["axioms"]] +
                ["hand-written model tied to /repo by the bit-exact correspondence check (L1)",
                 "Eigen 3.4 kernels, libm, IEEE-754 double: modelled, validated by L1",
                 "mpmath oracle: search only, no theorem depends on it"])


def replay(pid, path):
    """re-run a recorded violation against the current tree"""
    d = json.load(open(path if os.path.isabs(path) else os.path.join(vlib.ROOT, path)))
    ok, exe = vlib.harness_build(True)
    if not ok:
        print("harness does not compile:\n" + exe[-3000:])
        return 1
    if d["kind"] == "l2":
        v = d["violation"]
        line = v["request"]
        rc, out, err = vlib.run_lines(exe, [line])
        rc2, out2, err2 = vlib.run_lines(vlib.DRIVER, [line])
        print("request:", line)
        print("impl   :", out[0] if out else err)
        print("model  :", out2[0] if out2 else err2)
        print("recorded: %s err=%g tol=%g" % (v["what"], v["err"], v["tol"]))
        c = case_from_request(pid, line, random.Random(1))
        if c:
            vs = l2.run([c], exe, jobs=1)
            for x in vs:
                print("now: %s %s/%s err=%g tol=%g" % (x["what"], x["op"], x["output"], x["err"], x["tol"]))
            if vs:
                print("VIOLATION property=%s replay=%s" % (pid, path))
                return 1
            print("no violation at this input on the current tree")
            return 0
        return rerun(pid, d, path)
    if d["kind"] == "l1":
        line = d["first"]["request"]
        t = line.split()
        if len(t) < 5 or t[0] not in ("0", "1"):
            return rerun(pid, d, path)
        f32 = d["first"].get("scalar") == "float"
        ok, hexe = vlib.harness_build(t[0] == "1", extra_flags=["-DHX_SC=float"] if f32 else (), tag="_f" if f32 else "")
        if not ok:
            print("harness does not compile:\n" + hexe[-3000:])
            return 1
        rc, out, err = vlib.run_lines(hexe, [line])
        rc2, out2, err2 = vlib.run_lines([vlib.DRIVER, "f32"] if f32 else vlib.DRIVER, [line])
        eq, why = l1.compare(out[0], out2[0], (t[2], t[3]), tol_rel=1e-5 if f32 else None)
        print("request:", line, "\nimpl :", out[0], "\nmodel:", out2[0], "\n", "agree" if eq else why)
        if not eq:
            print("VIOLATION property=%s replay=%s correspondence still broken at this request no-failing-input-found" % (pid, path))
        return 0 if eq else 1
    return rerun(pid, d, path)


def rerun(pid, d, path):
    """generic replay: re-run the check that recorded the violation with the recorded seed and tier against
    the current tree and report whether the same (group, operation, output) is still violated."""
    print(json.dumps({k: v for k, v in d.items() if k not in ("log", "compiler_output")}, indent=1)[:2500])
    seed, tier = d.get("seed"), d.get("tier") or "quick"
    if seed is None:
        print("replay file carries no seed: cannot re-run")
        return 1
    check.CTX.update(seed=seed, tier=tier, quiet=True)
    res = check.Result(pid, tier, seed)
    run_property(pid, tier == "thorough", seed, res)
    verdict = getattr(res, "replay_verdict", [])
    v = d.get("violation") or {}
    key = "%s %s/%s" % (v.get("group"), v.get("op"), v.get("output"))
    same = [x for x, _ in verdict if v and x.startswith(key)] if v else [x for x, _ in verdict]
    print("re-run with seed %s (%s tier): %d violation(s), %d matching the recorded one" % (seed, tier, len(verdict), len(same)))
    for x in (same or [x for x, _ in verdict])[:5]:
        print("  now:", x[:300])
    if same or (verdict and not v):
        print("VIOLATION property=%s replay=%s" % (pid, path))
        return 1
    print("not reproduced on the current tree")
    return 0
