#!/usr/bin/env python3
"""seedtest.py <seed-dir> <property> [<property>…] — apply a seeded defect (patch.diff) to /repo,
show that its demonstration fails, run the named checks, and undo the change.  Never commits."""
import os
import subprocess
import sys

d = os.path.abspath(sys.argv[1])
props = sys.argv[2:]
REPO = "/repo"
ROOT = os.path.dirname(os.path.dirname(os.path.abspath(__file__)))


def sh(cmd, **kw):
    return subprocess.run(cmd, shell=True, stdout=subprocess.PIPE, stderr=subprocess.STDOUT, text=True, **kw)


def demo(tag):
    src = os.path.join(d, "demo.cpp")
    if not os.path.exists(src):
        return None
    exe = "/tmp/seed_demo_%d" % os.getpid()
    r = sh("g++ -std=c++11 -O1 -pthread -I%s/include -I%s/external/tl -I/usr/include/eigen3 %s -o %s" % (REPO, REPO, src, exe))
    if r.returncode != 0:
        print("demo does not compile (%s):\n%s" % (tag, r.stdout[-1500:]))
        return None
    r = sh(exe, timeout=600, cwd=d, env=dict(os.environ, MANIF_ROOT=REPO))
    os.remove(exe)
    print("demo on %s tree: exit %d" % (tag, r.returncode))
    return r.returncode


assert sh("git -C %s status --porcelain --untracked-files=no" % REPO).stdout.strip() == "", "/repo has local edits"
rc_clean = demo("unchanged")
r = sh("git -C %s apply --whitespace=nowarn %s/patch.diff" % (REPO, d))
if r.returncode != 0:
    r = sh("cd %s && patch -p1 --fuzz=3 < %s/patch.diff" % (REPO, d))
    if r.returncode != 0:
        print("patch does not apply:\n" + r.stdout)
        sh("git -C %s checkout -- ." % REPO)
        sys.exit(2)
try:
    print(sh("git -C %s diff --stat" % REPO).stdout)
    rc_mut = demo("mutated")
    results = {}
    for p in props:
        r = sh("python3 tools/check.py %s --tier quick" % p, cwd=ROOT)
        lines = [l for l in r.stdout.split("\n") if l.startswith(("VIOLATION", "OK", "KNOWN"))]
        results[p] = (r.returncode, lines[:4])
        print("check %s: exit %d" % (p, r.returncode))
        for l in lines[:4]:
            print("   ", l[:260])
finally:
    sh("git -C %s checkout -- ." % REPO)
    sh("git -C %s clean -fdq -- include" % REPO)
print("SUMMARY demo clean=%s mutated=%s; caught by: %s; missed by: %s" % (
    rc_clean, rc_mut, [p for p, v in results.items() if v[0] == 1], [p for p, v in results.items() if v[0] != 1]))
