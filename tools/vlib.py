"""vlib.py — build + run plumbing shared by every check.

* Lean side: `lake build` of /verif/lean (model library, native driver, proofs).
* C++ side: the harness is compiled against the *current* /repo working tree; objects are cached
  under /verif/.cache/h_<sha256 of every header under /repo/include and /repo/external, the
  harness sources and the flags>, so an unchanged tree is not recompiled and a changed tree is
  always rebuilt.
"""
import hashlib
import json
import os
import subprocess
import sys
import time
from concurrent.futures import ThreadPoolExecutor

ROOT = os.path.dirname(os.path.dirname(os.path.abspath(__file__)))
REPO = os.environ.get("VERIF_REPO", "/repo")
LEAN = os.path.join(ROOT, "lean")
HARNESS = os.path.join(ROOT, "harness")
CACHE = os.path.join(ROOT, ".cache")
DRIVER = os.path.join(LEAN, ".lake", "build", "bin", "manif_model")

BASE_FLAGS = ["-std=c++11", "-O1", "-ffp-contract=off", "-DEIGEN_DONT_VECTORIZE", "-w",
              "-I" + os.path.join(REPO, "include"), "-I" + os.path.join(REPO, "external", "tl"),
              "-I/usr/include/eigen3", "-I" + HARNESS]


def sh(cmd, cwd=None, timeout=None, inp=None):
    p = subprocess.run(cmd, cwd=cwd, timeout=timeout, input=inp, stdout=subprocess.PIPE,
                       stderr=subprocess.STDOUT, text=True)
    return p.returncode, p.stdout


def tree_hash(extra=()):
    h = hashlib.sha256()
    roots = [os.path.join(REPO, "include"), os.path.join(REPO, "external"), HARNESS]
    for root in roots:
        for d, dirs, files in sorted(os.walk(root)):
            dirs.sort()
            for f in sorted(files):
                p = os.path.join(d, f)
                h.update(p.encode())
                with open(p, "rb") as fh:
                    h.update(fh.read())
    for e in extra:
        h.update(str(e).encode())
    return h.hexdigest()[:20]


def lean_build(targets=("ManifModel", "manif_model")):
    """Build the Lean model + native driver (no-op when up to date)."""
    rc, out = sh(["lake", "build"] + list(targets), cwd=LEAN, timeout=3600)
    return rc == 0, out


def groups_def():
    out = []
    for line in open(os.path.join(HARNESS, "groups.def")):
        line = line.strip()
        if line.startswith("HX_GROUP("):
            out.append(line[len("HX_GROUP("):-1])
    return out


def harness_build(dbg=True, extra_flags=(), tag="", kind="std", vectorize=False):
    """Compile the harness for the current /repo tree. -> (ok, exe_path_or_log)
    kind="jet": the dual-number harness (jmain.cpp + j_*.cpp against the ceres::Jet stand-in)"""
    if kind == "jet":
        tag = "_jet"
        extra_flags = list(extra_flags) + ["-I" + os.path.join(HARNESS, "shim")]
    flags = BASE_FLAGS + ([] if dbg else ["-DNDEBUG"]) + list(extra_flags)
    if vectorize:       # Eigen's explicit vectorisation on (SSE2 packets, aligned loads where Eigen believes in alignment)
        flags = [f for f in flags if f != "-DEIGEN_DONT_VECTORIZE"]
        tag += "_vec"
    hsh = tree_hash(flags)
    d = os.path.join(CACHE, "h_" + hsh)
    exe = os.path.join(d, "harness" + tag)
    if os.path.exists(exe):
        return True, exe
    os.makedirs(d, exist_ok=True)
    if kind == "jet":
        srcs = ["jmain.cpp"] + [f for f in sorted(os.listdir(HARNESS)) if f.startswith("j_") and f.endswith(".cpp")]
    else:
        srcs = ["main.cpp"] + ["g_%s.cpp" % g for g in groups_def()]
        srcs += [f for f in sorted(os.listdir(HARNESS)) if f.startswith("x_") and f.endswith(".cpp")]

    def cc(src):
        obj = os.path.join(d, src[:-4] + tag + ".o")
        rc, out = sh(["g++"] + flags + ["-c", os.path.join(HARNESS, src), "-o", obj], timeout=1800)
        return src, rc, out, obj

    with ThreadPoolExecutor(max_workers=16) as ex:
        res = list(ex.map(cc, srcs))
    bad = [(s, o) for s, rc, o, _ in res if rc != 0]
    if bad:
        log = "\n".join("== %s\n%s" % (s, o[-4000:]) for s, o in bad)
        return False, log
    rc, out = sh(["g++"] + [o for _, _, _, o in res] + ["-o", exe + ".tmp", "-lpthread"], timeout=600)
    if rc != 0:
        return False, out
    os.replace(exe + ".tmp", exe)
    return True, exe


def prune_cache(keep=6):
    """Keep the cache small: drop all but the newest builds of each kind."""
    if not os.path.isdir(CACHE):
        return
    for prefix, k in (("h_", keep), ("m_", 3), ("c_", 6)):      # harness / API-matrix / concurrency builds
        ds = [os.path.join(CACHE, x) for x in os.listdir(CACHE) if x.startswith(prefix)]
        ds.sort(key=os.path.getmtime, reverse=True)
        for d in ds[k:]:
            subprocess.run(["rm", "-rf", d])


def run_lines(exe, lines, timeout=3600):
    """Feed request lines to a protocol server; -> list of response lines."""
    inp = "\n".join(lines) + "\n"
    p = subprocess.run([exe] if isinstance(exe, str) else list(exe), input=inp, stdout=subprocess.PIPE, stderr=subprocess.PIPE, text=True,
                       timeout=timeout)
    out = p.stdout.split("\n")
    if out and out[-1] == "":
        out.pop()
    return p.returncode, out, p.stderr


def run_lines_parallel(exe, lines, jobs=8, timeout=3600):
    """Same, split over several processes (order preserved)."""
    if len(lines) < 2000 or jobs <= 1:
        return run_lines(exe, lines, timeout)
    n = len(lines)
    chunk = (n + jobs - 1) // jobs
    parts = [lines[i:i + chunk] for i in range(0, n, chunk)]
    with ThreadPoolExecutor(max_workers=jobs) as ex:
        res = list(ex.map(lambda p: run_lines(exe, p, timeout), parts))
    rc = max(r[0] for r in res)
    out = [l for r in res for l in r[1]]
    err = "".join(r[2] for r in res)
    return rc, out, err


class Server:
    """a persistent protocol server (harness or Lean driver): one request line in, one response out"""

    def __init__(self, exe):
        self.p = subprocess.Popen([exe] if isinstance(exe, str) else list(exe), stdin=subprocess.PIPE, stdout=subprocess.PIPE, text=True, bufsize=1)

    def ask(self, line):
        self.p.stdin.write(line + "\n")
        self.p.stdin.flush()
        out = self.p.stdout.readline()
        if not out:
            raise RuntimeError("server died on request: " + line[:200])
        return out.rstrip("\n")

    def ask_many(self, lines):
        # write all, then read all (the servers answer line by line; pipes buffer comfortably
        # for the batch sizes used here)
        for chunk in range(0, len(lines), 200):
            part = lines[chunk:chunk + 200]
            self.p.stdin.write("\n".join(part) + "\n")
            self.p.stdin.flush()
            for _ in part:
                yield self.p.stdout.readline().rstrip("\n")

    def close(self):
        try:
            self.p.stdin.close()
            self.p.wait(timeout=10)
        except Exception:
            self.p.kill()
