"""jets.py — C12: manif over a forward-mode dual-number scalar and over float, observed on the
implementation (the model side is l1_float / the Dual instance; see props.custom_c12).

  A  primal transparency : the Jet<double,N> instantiation returns bit for bit the value and the
                           analytic Jacobians of the double instantiation (all strata, all groups)
  B  dual part = Jacobian: d[f(X (+) d) (-) f(X)]/dd at d = 0, read off the dual parts, equals the
                           analytic Jacobian the same call reports (2e-6 * max(1, |J|max));
                           inputs of moderate size, away from the cut locus of log
  C  ceres functors      : Plus / LocalParameterization / Minus / objective / constraint through
                           raw-pointer views equal the documented member expressions, over double
                           and over Jet (value and dual parts)
  D  float vs double     : the float instantiation agrees with the double one to single precision
"""
import math

import gen
import l1
import purity
import vlib

JGROUPS = ["SO2", "SE2", "SO3", "SE3", "SE_2_3", "SGal3", "R1", "R3", "R5", "B:SE2,SO3,R2", "B:SE_2_3,R1,SE2"]
MOD_LIN = ["zero", "tiny", "unit"]
TOL_AD = 2e-6
PLAIN = [("rjac", "T"), ("ljac", "T"), ("rjacinv", "T"), ("ljacinv", "T"), ("smallAdj", "T"), ("hat", "T"),
         ("adj", "G"), ("transform", "G")]


def V(group, op, output, tags, line, what, err=float("inf"), tol=0.0):
    return dict(property="C12", group=group, op=op, output=output, tags=tags, request=line, what=what, err=err, tol=tol)


def args_for(r, group, sig, moderate):
    a, tags = [], []
    for ch in sig:
        if ch == "G":
            x, t = gen.element(r, group, norm="valid", lin_only=MOD_LIN if moderate else None)
        elif ch == "T":
            x, t = gen.tangent(r, group, lin_only=MOD_LIN if moderate else None)
        elif moderate:
            x, t = [r.uniform(-3, 3) for _ in range(gen.GROUPS[group]["dim"])], ["pt:unit"]
        else:
            x, t = gen.point(r, group)
        a += x
        tags += t
    return a, tags


def ang_parts(group, tangent):
    """magnitudes of the rotation parts of a tangent"""
    out, i = [], 0
    for kind, n in gen.GROUPS[group]["tan"]:
        if kind == "ang1":
            out.append(abs(tangent[i]))
        elif kind == "ang3":
            out.append(math.sqrt(sum(x * x for x in tangent[i:i + 3])))
        i += n
    return out


def run_jets(exe_d, exe_j, groups, r, n, res_cells, modelled=()):
    """A + B.  -> (violations, n_requests)"""
    H, HJ, M = vlib.Server(exe_d), vlib.Server(exe_j), vlib.Server(vlib.DRIVER)
    viol, total = [], 0
    worst = {}
    l1_bad = []        # the model evaluated at Dual Float (JetRun.lean) vs the C++ over the Jet scalar, bit for bit
    try:
        for group in groups:
            for op, (sig, nj) in purity.MASKED.items():
                for k in range(n):
                    moderate = k % 2 == 0
                    a, tags = args_for(r, group, sig, moderate)
                    mask = r.randrange(1, 1 << nj) if k % 3 else (1 << nj) - 1
                    l = gen.req(True, "o", group, op, mask, a)
                    lj = gen.req(True, "o", group, "jet_" + op, mask, a)
                    rj_line = HJ.ask(lj)
                    ra, rj = H.ask(l).split(), rj_line.split()
                    total += 3
                    res_cells.add(("jet", group, op, "mask%d" % mask, "moderate" if moderate else "any") + tuple(t.split("/")[0] for t in tags))
                    if group in modelled:
                        rm = M.ask(lj)
                        eq, why = l1.compare(rj_line, rm, (group, op))
                        if not eq:
                            l1_bad.append(dict(request=lj, tags=["dual", op, "mask%d" % mask] + tags, impl=rj_line, model=rm, why=why, scalar="dual"))
                    if ra[0] != rj[0] or (ra[0] != "ok" and ra[1:2] != rj[1:2]):
                        viol.append(V(group, op, "status", tags, lj, "dual-scalar run ends differently: double %s, Jet %s" % (" ".join(ra[:2]), " ".join(rj[:2]))))
                        continue
                    if ra[0] != "ok":
                        continue
                    nd = len(ra) - 1
                    if not all(l1.same(x, y) for x, y in zip(ra[1:], rj[1:1 + nd])) or len(rj) < 2 + nd:
                        viol.append(V(group, op, "primal", tags, lj, "value/Jacobian of the Jet instantiation differs from the double instantiation"))
                        continue
                    finite = all(math.isfinite(gen.of_hex(x)) for x in ra[1:])
                    if finite and gen.of_hex(rj[-1]) != 0.0:     # (inf * 0 in a dual part is NaN: only judged when the value is finite)
                        viol.append(V(group, op, "spurious-dual", tags, lj, "constant inputs produced a non-zero infinitesimal part (%g)" % gen.of_hex(rj[-1])))
                    if not moderate:
                        continue
                    vs, js = purity.out_layout(group, op)
                    val = [gen.of_hex(x) for x in ra[1:1 + vs]]
                    if op in ("log", "rminus", "lminus") and any(x > math.pi - 1e-3 for x in ang_parts(group, val)):
                        continue            # cut locus of log: the derivative is not defined/ill-conditioned there
                    ad = [gen.of_hex(x) for x in rj[1 + nd:-1]]
                    an = [gen.of_hex(x) for x in ra[1 + vs:]]
                    if len(ad) != len(an):
                        viol.append(V(group, op, "arity", tags, lj, "AD block has %d entries, analytic %d" % (len(ad), len(an))))
                        continue
                    sc = max([1.0] + [abs(x) for x in an if math.isfinite(x)])
                    err = max([abs(x - y) if (math.isfinite(x) and math.isfinite(y)) else float("inf") for x, y in zip(ad, an)] + [0.0])
                    key = (group, op)
                    if err / sc > worst.get(key, 0.0):
                        worst[key] = err / sc
                    if err > TOL_AD * sc:
                        viol.append(V(group, op, "dual-vs-jacobian", tags, lj,
                                      "derivative through the dual parts differs from the analytic Jacobian of the same call",
                                      err=err, tol=TOL_AD * sc))
            for op, sig in PLAIN:
                for _ in range(max(2, n // 3)):
                    a, tags = args_for(r, group, sig, False)
                    l = gen.req(True, "o", group, op, 0, a)
                    lj = gen.req(True, "o", group, "jet_" + op, 0, a)
                    ra, rj = H.ask(l).split(), HJ.ask(lj).split()
                    total += 2
                    res_cells.add(("jet", group, op) + tuple(t.split("/")[0] for t in tags))
                    if ra[0] != rj[0] or (ra[0] == "ok" and not all(l1.same(x, y) for x, y in zip(ra[1:], rj[1:len(ra)]))):
                        viol.append(V(group, op, "primal", tags, lj, "Jet instantiation differs from the double instantiation"))
                    elif ra[0] == "ok" and gen.of_hex(rj[-1]) != 0.0 and all(math.isfinite(gen.of_hex(x)) and abs(gen.of_hex(x)) < 1e150 for x in ra[1:]):
                        viol.append(V(group, op, "spurious-dual", tags, lj, "constant inputs produced a non-zero infinitesimal part"))
            # cast<Jet>() of a valid element: same coefficients up to one re-normalisation
            for _ in range(max(2, n // 3)):
                a, tags = gen.element(r, group, norm="valid")
                lj = gen.req(True, "o", group, "jet_cast", 0, a)
                rj = HJ.ask(lj).split()
                total += 1
                if rj[0] != "ok":
                    viol.append(V(group, "cast", "status", tags, lj, "cast<Jet>() of a valid element raised: " + " ".join(rj[:2])))
                else:
                    c = [gen.of_hex(x) for x in rj[1:-1]]
                    if max(abs(x - y) for x, y in zip(c, a)) > 4e-14 * max(1.0, max(abs(x) for x in a)):
                        viol.append(V(group, "cast", "value", tags, lj, "cast<Jet>() changed the element"))
    finally:
        H.close()
        HJ.close()
        M.close()
    return viol, total, worst, l1_bad


def run_functors(exe_j, groups, r, n, res_cells):
    """C.  -> (violations, n)"""
    HJ = vlib.Server(exe_j)
    viol, total = [], 0
    try:
        for group in groups:
            G = gen.GROUPS[group]
            R, D = G["repsize"], G["dof"]
            for _ in range(n):
                X, tx = gen.element(r, group, norm="valid")
                Y, ty = gen.element(r, group, norm="valid")
                t, tt = gen.tangent(r, group)
                w = r.choice([0, 1, 8, 20, -8])
                jobs = [("fun_plus", X + t, [], R, tx + tt), ("fun_lp", X + t, [], R, tx + tt), ("fun_minus", Y + X, [], D, ty + tx),
                        ("fun_objective", Y + X, [w], 1, ty + tx), ("fun_constraint", t + X + Y, [], D, tt + tx + ty)]
                for op, a, ints, k, tags in jobs:
                    lj = gen.req(True, "o", group, op, 0, a, ints)
                    rj = HJ.ask(lj).split()
                    total += 1
                    res_cells.add(("functor", group, op) + tuple(x.split("/")[0] for x in tags))
                    if rj[0] != "ok":
                        if op in ("fun_minus", "fun_objective", "fun_constraint") and rj[0] == "err":
                            continue      # rminus of far-apart / invalid operands may legitimately raise; compared below when ok
                        viol.append(V(group, op, "status", tags, lj, "functor raised: " + " ".join(rj[:2])))
                        continue
                    v = rj[1:]
                    dbl, jet, direct, flag = v[:k], v[k:2 * k], v[2 * k:3 * k], gen.of_hex(v[3 * k])
                    if not all(l1.same(x, y) for x, y in zip(dbl, direct)):
                        viol.append(V(group, op, "documented-value", tags, lj, "functor over double differs from the documented member expression"))
                    elif not all(l1.same(x, y) for x, y in zip(dbl, jet)):
                        viol.append(V(group, op, "primal", tags, lj, "functor over Jet: value part differs from the double run"))
                    elif flag != 1.0:
                        viol.append(V(group, op, "dual", tags, lj, "functor over Jet through raw pointers differs from the member call over Jet (value or dual parts)"))
    finally:
        HJ.close()
    return viol, total


F_OPS = [("exp", "T", 1), ("log", "G", 1), ("inverse", "G", 1), ("compose", "GG", 2), ("between", "GG", 2), ("rplus", "GT", 2),
         ("lplus", "GT", 2), ("rminus", "GG", 2), ("lminus", "GG", 2), ("act", "GP", 2), ("rjac", "T", 0), ("ljac", "T", 0),
         ("rjacinv", "T", 0), ("ljacinv", "T", 0), ("adj", "G", 0), ("transform", "G", 0), ("hat", "T", 0), ("smallAdj", "T", 0)]
TOL_F_VAL, TOL_F_JAC = 1e-3, 2e-2


def run_float_vs_double(exe_d, exe_f, groups, r, n, res_cells):
    """D.  same float-representable inputs to both instantiations (exe_d: the NDEBUG double build)"""
    viol, reqs = [], []
    ANG = ["zero", "small", "low", "generic"]
    with gen.float32():
        for group in groups:
            for op, sig, nj in F_OPS:
                for _ in range(n):
                    a, tags = [], []
                    for ch in sig:
                        if ch == "G":
                            x, t = gen.element(r, group, norm="exact", lin_only=MOD_LIN, angle_only=ANG)
                        elif ch == "T":
                            x, t = gen.tangent(r, group, lin_only=MOD_LIN, angle_only=ANG)
                        else:
                            x, t = [r.uniform(-3, 3) for _ in range(gen.GROUPS[group]["dim"])], ["pt:unit"]
                        a += x
                        tags += t
                    mask = (1 << nj) - 1
                    reqs.append((gen.req(True, "o", group, op, mask, a), tags, group, op))
    lines = [q[0] for q in reqs]
    # the double instantiation is run WITHOUT assertions: a float-rounded unit quaternion is unit to
    # 6e-8 only, which the float instantiation accepts (eps_f = 1.2e-5) and the double one rejects
    _, rd, _ = vlib.run_lines_parallel(exe_d, ["0" + l[1:] for l in lines])
    _, rf, _ = vlib.run_lines_parallel(exe_f, lines)
    worst = {}
    for (line, tags, group, op), a, b in zip(reqs, rd, rf):
        res_cells.add(("float-vs-double", group, op) + tuple(t.split("/")[0] for t in tags))
        ta, tb = a.split(), b.split()
        if ta[0] != tb[0]:
            # float rounding of a unit quaternion stays within the float threshold: both must accept
            viol.append(V(group + "<float>", op, "status", tags, line, "float instantiation ends differently: double %s, float %s" % (" ".join(ta[:2]), " ".join(tb[:2]))))
            continue
        if ta[0] != "ok":
            continue
        x = [gen.of_hex(v) for v in ta[1:]]
        y = [gen.of_hex(v) for v in tb[1:]]
        if len(x) != len(y):
            viol.append(V(group + "<float>", op, "arity", tags, line, "different output size"))
            continue
        vs = purity.out_layout(group, op)[0] if op in purity.MASKED else len(x)
        if op in ("log", "rminus", "lminus") and any(v > math.pi - 1e-2 for v in ang_parts(group, x[:vs])):
            continue
        for nm, lo, hi, tol in (("value", 0, vs, TOL_F_VAL), ("jacobian", vs, len(x), TOL_F_JAC)):
            if hi <= lo:
                continue
            sc = max([1.0] + [abs(v) for v in x[lo:hi] if math.isfinite(v)])
            err = max([abs(p - q) if (math.isfinite(p) and math.isfinite(q)) else (0.0 if (p != p and q != q) or p == q else float("inf"))
                       for p, q in zip(x[lo:hi], y[lo:hi])] + [0.0])
            worst[(group, op, nm)] = max(worst.get((group, op, nm), 0.0), err / sc)
            if err > tol * sc:
                viol.append(V(group + "<float>", op, nm, tags, line, "float instantiation differs from double beyond single precision",
                              err=err, tol=tol * sc))
    return viol, 2 * len(lines), worst
