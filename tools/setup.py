#!/usr/bin/env python3
"""setup.py — build everything the checks need, offline, from files on disk:
Lean model + native driver + every proof module in Registry.json; harness (assert + NDEBUG
builds) for the current /repo tree."""
import json
import os
import sys

sys.path.insert(0, os.path.dirname(os.path.abspath(__file__)))
import vlib

reg = json.load(open(os.path.join(vlib.LEAN, "Registry.json")))
mods = sorted({m for v in reg.values() for m in v.get("modules", [])})
ok, out = vlib.lean_build(["ManifModel", "manif_model"] + mods)
print(out[-3000:])
if not ok:
    print("lean build failed")
    sys.exit(1)
for dbg in (True, False):
    ok, exe = vlib.harness_build(dbg)
    print("harness", "assert" if dbg else "NDEBUG", "->", exe if ok else "FAILED\n" + exe[-3000:])
    # a harness that does not compile is reported by the checks themselves (as a broken
    # correspondence), not by setup
print("setup done")
