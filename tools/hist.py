"""hist.py — C08: operation histories executed in lock step.

A small pool of elements per group is driven through a long random (or adversarially repeated)
sequence of library operations.  Every step is answered by the implementation (persistent harness
process) and by the model (persistent Lean driver) FROM THE IMPLEMENTATION'S CURRENT STATE, so
rounding differences cannot accumulate into a false disagreement; after every step the result must
be finite, unit-norm within the library's own acceptance threshold, and — with assertions enabled —
no exception may have been raised.
"""
import math
import random

import gen
import l1
import vlib


def rot_dev(group, c):
    """| ||rotation part|| - 1 |"""
    i = 0
    for kind, n in gen.GROUPS[group]["rep"]:
        if kind in ("complex", "quat"):
            return abs(math.sqrt(sum(x * x for x in c[i:i + n])) - 1.0)
        i += n
    return 0.0


def moderate_tangent(r, group):
    g = gen.GROUPS[group]
    out = []
    for kind, n in g["tan"]:
        if kind == "ang1":
            out.append(r.choice([0.0, 1e-9, 1e-7, 2e-7, 1e-3, 0.3, 1.0, 3.0, math.pi, 5.0]) * r.choice([-1, 1]))
        elif kind == "ang3":
            th = r.choice([0.0, 1e-9, 1.4e-7, 1.6e-7, 1e-3, 0.3, 1.0, 3.0, math.pi, 5.0])
            d, _ = gen.direction(r, 3)
            out += [th * x for x in d]
        else:
            m = r.choice([0.0, 1e-6, 1.0, 10.0, 1e3])
            d, _ = gen.direction(r, n)
            out += [m * x for x in d]
    return out


OPS = ["exp", "compose", "inverse", "between", "rplus", "op+=", "op*=", "lplus", "interp_slerp", "avg_bi", "rminus_rplus"]


def run_history(exe, dbg, group, steps, seed, mode="random", pool_size=4):
    """-> dict(steps, l1_bad[list], violations[list], max_dev, ops Counter)"""
    import collections
    r = random.Random(seed)
    H = vlib.Server(exe)
    Mdl = vlib.Server(vlib.DRIVER)
    R = gen.GROUPS[group]["repsize"]
    pool = []
    for _ in range(pool_size):
        X, _ = gen.element(r, group, norm="valid", lin_only=["zero", "unit", "large"])
        pool.append(X)
    res = dict(steps=0, l1_bad=[], violations=[], max_dev=0.0, ops=collections.Counter(), renorm_inputs=0)
    fixed_op = r.choice(["compose_self", "op*=", "inverse", "rplus", "between"]) if mode == "repeat" else None
    fixed_t = moderate_tangent(r, group)
    try:
        for step in range(steps):
            i, j = r.randrange(pool_size), r.randrange(pool_size)
            op = fixed_op or r.choice(OPS)
            if mode == "repeat":
                i = j = 0
            if op == "compose_self":
                line = gen.req(dbg, "o", group, "compose", 0, pool[i] + pool[i])
            elif op == "exp":
                line = gen.req(dbg, "o", group, "exp", 0, moderate_tangent(r, group))
            elif op in ("compose", "between", "op*="):
                line = gen.req(dbg, r.choice("om") if op != "between" else r.choice("omc"), group, op, 0, pool[i] + pool[j])
            elif op == "inverse":
                line = gen.req(dbg, r.choice("omc"), group, "inverse", 0, pool[i])
            elif op in ("rplus", "lplus", "op+="):
                t = fixed_t if mode == "repeat" else moderate_tangent(r, group)
                line = gen.req(dbg, "o", group, op, 0, pool[i] + t)
            elif op == "interp_slerp":
                line = gen.req(dbg, "o", group, op, 0, pool[i] + pool[j] + [r.random()])
            elif op == "avg_bi":
                k = r.choice([2, 3])
                pts = [pool[r.randrange(pool_size)] for _ in range(k)]
                line = gen.req(dbg, "o", group, op, 0, [gen.EPS] + [c for p in pts for c in p], [20])
            else:   # X + (Y - X): two requests
                a = H.ask(gen.req(dbg, "o", group, "rminus", 0, pool[j] + pool[i]))
                b = Mdl.ask(gen.req(dbg, "o", group, "rminus", 0, pool[j] + pool[i]))
                eq, why = l1.compare(a, b, (group, "rminus"))
                if not eq:
                    res["l1_bad"].append(dict(step=step, request=gen.req(dbg, "o", group, "rminus", 0, pool[j] + pool[i]), impl=a, model=b, why=why))
                if not a.startswith("ok"):
                    res["violations"].append(dict(step=step, what="rminus raised on valid elements: " + a, request=gen.req(dbg, "o", group, "rminus", 0, pool[j] + pool[i])))
                    continue
                t = [gen.of_hex(x) for x in a.split()[1:]]
                line = gen.req(dbg, "o", group, "rplus", 0, pool[i] + t)
            res["ops"][op] += 1
            a = H.ask(line)
            b = Mdl.ask(line)
            res["steps"] += 1
            eq, why = l1.compare(a, b, (group, line.split()[3]))
            if not eq:
                res["l1_bad"].append(dict(step=step, request=line, impl=a, model=b, why=why))
            if not a.startswith("ok"):
                res["violations"].append(dict(step=step, what="operation on valid elements raised: " + a, request=line, op=op))
                continue
            v = [gen.of_hex(x) for x in a.split()[1:1 + R]]
            dev = rot_dev(group, v)
            if not all(math.isfinite(x) for x in v):
                res["violations"].append(dict(step=step, what="non-finite coefficient after " + op, request=line, op=op))
                continue
            if dev >= gen.EPS:
                res["violations"].append(dict(step=step, what="|norm-1| = %.3g >= eps after %s" % (dev, op), request=line, op=op))
                continue
            res["max_dev"] = max(res["max_dev"], dev)
            # keep coordinates bounded so that the walk stays in a realistic range
            if max(abs(x) for x in v) > 1e8:
                v, _ = gen.element(r, group, norm="valid", lin_only=["zero", "unit", "large"])
            pool[i] = v
            if r.random() < 0.05:      # inject an accepted-but-imperfect element: exercises renormalisation
                X, tg = gen.element(r, group, norm="valid", lin_only=["zero", "unit"])
                if any("norm" in x for x in tg):
                    res["renorm_inputs"] += 1
                pool[r.randrange(pool_size)] = X
    finally:
        H.close()
        Mdl.close()
    return res
