#!/usr/bin/env python3
"""mkmanifest.py — writes MANIFEST.json from the table below (kept in one place so that the
claims, the not_applicable list and the engines stay consistent)."""
import json
import os

ROOT = os.path.dirname(os.path.dirname(os.path.abspath(__file__)))
props = [json.loads(l) for l in open(os.path.join(ROOT, "properties.jsonl"))]

COMMON_NOTE = ("trusted: Lean 4.33 kernel; axioms propext, Classical.choice, Quot.sound only (audited per theorem on every run); "
               "the hand-written scalar-generic model, tied to /repo on every run by the bit-exact correspondence check (native Lean "
               "driver vs C++ harness compiled from the current working tree, -DEIGEN_DONT_VECTORIZE -ffp-contract=off); Eigen 3.4 "
               "kernels, libm and IEEE-754 arithmetic are modelled, not verified; the 60-digit mpmath oracle only searches for "
               "failing inputs. ")

CLAIMS = {
 "C01": ("proof", "Theorems over every ordered field (R and Q included): matrix of compose = product, inverse two-sided, exp(0) = 1, act = matrix action, no exception on valid data, for SO2/SE2/SO3/SE3 (both quaternion hemispheres: the sign of w never enters). Model tied bit-for-bit to the code; SE_2(3)/Rn covered by correspondence + oracle.",
         "floating-point accuracy clause is measured by the oracle sweep (1e-12 relative), not proved; SE_2(3), SGal(3), Rn, Bundle: no theorem yet (L1/L2 only)"),
 "C02": ("proof", "exp: theorems for identity/validity of exp and structure of hat; bit-exact correspondence of exp/hat over rotation magnitudes 0..4pi x linear parts 0..1e6; oracle compares T(exp t) with the 60-digit matrix exponential of hat t.",
         "the series theorem (exp = matrix exponential for all t) is in progress; uniform floating accuracy is measured, not proved"),
 "C03": ("proof", "log: bit-exact correspondence incl. w<0 quaternions, angles near 0, pi, 2pi; oracle checks exp(log X)=X, angle<=pi, log(q)=log(-q), log(exp t)=t with 60 digits.",
         "theorems for exp(log X) = X in progress; accuracy near pi is a recorded finding (KF-C03-2)"),
 "C04": ("proof", "The derived members are proved, for every record of primitives (hence every group incl. bundles), to be exactly the documented compositions (rplus = X.compose(exp t), lplus, rminus, lminus, between); the alias table (README aliases, operators, tangent-side forms with swapped optional outputs, functions.h) is proved to resolve each alias to its canonical member, and the driver the correspondence runs is proved to answer an alias with the canonical answer; every alias x group x storage x mask is compared bit for bit with the model; oracle checks the compositions and the round trips (X+t)-X = t, X+(Y-X) = Y at 60 digits. SO2: log(exp t) = t over R.",
         "round-trip theorems for the quaternion groups in progress"),
 "C06": ("proof", "rjac/ljac/inverses/Adj/adj: bit-exact correspondence; oracle compares with phi(-ad) (block matrix exponential), matrix inverse, conjugation and commutator at 60 digits.",
         "algebraic theorems in progress"),
 "C07": ("proof", "Exact Lie-algebra identities proved over every ordered field for SE2 and SO3 (generator tables regenerated from /repo on every run, hat linear, vee∘hat, bracket = commutator, antisymmetry, Jacobi, inner = Frobenius, weights positive definite); all groups: bit-exact correspondence and exact rational-arithmetic oracle on integer inputs, indices -3..DoF+3.",
         "SO2, SE3, SE_2(3), SGal(3), Rn, Bundle: correspondence + exact oracle only so far"),
 "C15": ("proof", "Smoothing polynomials proved over R: phi(0)=0, phi(1)=1, monotone on [0,1] for degrees 1-4 (derivative c t^d (1-t)^d >= 0), other degrees raise; every interpolation method proved to raise for t outside [0,1] for every group (any record of primitives); SLERP is ma.rplus(mb.rminus(ma)*t) by definition. All three methods x groups are tied bit-for-bit to the code (t in {0,1,interior,outside,NaN}, end velocities, degrees -1..9); oracle checks end points, the geodesic law log(A^-1 m(t)) = t log(A^-1 B) and rejection at 60 digits.",
         "end-point/geodesic theorems at the matrix level rest on C01-C04 and are measured, not yet composed into one theorem"),
 "C16": ("proof", "Decision logic of the four averaging loops proved for every group: empty set raises, singleton returned, loops bounded by max_iterations by construction (structural recursion), identical points return that point at the first stopping test. All four routines are tied bit-for-bit to the code over point clouds of size 0..8; oracle (clouds 1..50, radius <= 0.5, centres anywhere incl. near the cut locus) checks validity, stationarity of the mean tangent, order independence, left/right equivariance.",
         "convergence within the iteration budget and equivariance are measured (L2), not proved"),
 "C17": ("proof", "Window structure of decasteljau proved for ALL N, d, closed (no bound): rejection, no unsigned subtraction wraps, every window has d in-bounds indices, consecutive windows overlap by one, the number of windows is maximal ((N-1)/(d-1), fewer than d-1 points unused), the closed curve adds one wrapping window, the same number of points per window. The whole routine is tied bit-for-bit to the code on random trajectories of every group; the box N<=16, d<=N+1, k<=4, open/closed is enumerated exhaustively on the trajectory e_i of R^16, where each curve point reveals which inputs were read and with which Bernstein weights.",
         "that the last curve point equals the last control point on a group rests on X+(Y-X)=Y (C04), measured by the oracle"),
 "C18": ("proof", "Over every ordered field: tangent isApprox reflexive (eps >= 0) and symmetric; against the zero tangent it is exactly the component-wise absolute test, so X.isApprox(Y, eps) <=> every component of X (-) Y is <= eps, hence true well below and false well above eps; Eigen's halving reduction proved equal to the plain sum. isApprox/== of every group and of tangents tied bit-for-bit to the code on pairs at controlled tangent distance {0, 0.01, 0.5, 0.999, 1.001, 2, 100} eps, q/-q pairs, coordinates up to 1e9; oracle checks reflexivity (all scales), symmetry, below/above at 60 digits.",
         "floating-point reflexivity for large coordinates is rounding behaviour: measured (it exposed SE2::inverse, repaired)"),
 "C13": ("proof", "Over every ordered field: with assertions enabled a raw-coefficient constructor accepts exactly |norm-1| < eps, with NDEBUG it never rejects; normalize() makes any non-degenerate quaternion valid; rotation() of a valid element is orthonormal with determinant +1 (SO3-family and SO2/SE2); SO2(theta).angle() = theta on the principal range (R). Every constructor/setter/accessor (angle, x-y-theta, roll-pitch-yaw incl. gimbal configurations, angle-axis incl. non-unit axes, t+quaternion, t+SO3, Eigen isometry incl. trace<=0 rotations, quat setter, raw coefficients, normalize) is tied bit-for-bit to the code in BOTH build configurations with norms on both sides of the threshold — the model predicts every accept/reject decision exactly; oracle checks that accessors reproduce the supplied quantities.",
         "cast<float>() needs the single-precision instantiation (in progress); threshold behaviour at 1 ulp is tied by the correspondence only"),
 "C08": ("proof", "Exact arithmetic, no bound on the history: approxSqrtInv is a cubic contraction of the squared-norm deviation (explicit residual polynomial); compose multiplies squared norms and renormalises iff the deviation exceeds eps, so |norm^2-1| <= eps is an invariant of EVERY finite history of compose/inverse steps (induction over the operation list, proved for SO2 over every ordered field), under which the constructor check never fires - no exception with assertions enabled, deviation bounded independently of the length; a per-step rounding perturbation e moves the bound by |e| only. The floating-point part is tied by lock-step histories: random walks and adversarial repetition of one operation over exp/compose/inverse/between/rplus/+=/*=/lplus/slerp/average, every group, both build configurations, accepted-but-imperfect elements injected to exercise the renormalisation branch; after every step: bit-exact agreement with the model, finite, |norm-1| < eps, no exception.",
         "that each floating-point operation contributes only a few ulp of drift is measured by the histories, not proved; the history induction is proved for SO2 (the quaternion groups use the same recurrence via sqn(pq) = sqn(p) sqn(q))"),
 "C09": ("proof", "For every group (any record of primitives): requesting optional Jacobians never changes the value of rplus/lplus/rminus/lminus/between, and each Jacobian is independent of the other request — including lminus, whose two source code paths for J_t_mb are proved equal; the model's operations are functions (no state), so determinism is definitional there. On the implementation, bit for bit and in both build configurations: every op x every mask x {owning, Map, Map<const>}; operands echoed back unchanged after the call; every call re-issued in shuffled order after all other activity in the same process (first use of every lazily initialised static included); aliased forms X=X*X, X=X.compose(X), X*=X, X=X.inverse(), X=X.between(Y), X=X+t, X=X.lplus(t) against the unaliased result; every Jacobian bound to a block of a NaN-filled larger matrix writes exactly that block.",
         "C++ aliasing / Eigen evaluation order and the statics are observed (exhaustively over ops and masks, sampled over inputs), not proved"),
 "C10": ("proof", "Buffer/view model proved for every buffer, offset, length: a write through a view changes exactly the viewed window and keeps the length, reading back returns exactly what was written (copy/cross-kind assignment exact), a mutating member through a view equals the member on an owning copy of the window and leaves the rest untouched. On the implementation: every operation with owning / Map / Map<const> operands placed at an odd (unaligned) offset between guard zones gives bit-identical answers and intact guards; writes through mutable views (+=, *=, assignment of inverse/rplus/compose results) land in the window only.",
         "byte-level behaviour of Eigen::Map (alignment assumptions, vectorised loads) is runtime; the ASan build is run by the thorough tier"),
 "C11": ("proof", "Index arithmetic proved for EVERY list of element sizes: compute_indices (transcribed from the template recursion) is the exclusive prefix sum, consecutive offsets differ by the element size, the slices tile the flat vector (concatenated in order they give it back, with the element lengths) - so element<i>() aliases exactly the i-th element. The model's bundle members are defined as slice / element model / place at offset, and are tied bit-for-bit to the C++ Bundle on 11 layouts (every modelled group first, middle, last, repeated, single; Dim != DoF != RepSize != matrix size) for exp, log, compose, inverse, between, plus/minus, act, adj, hat, vee, Jacobians, generators, inner weights, transform, element views, algorithms; the oracle compares every bundle member with the standalone C++ element members placed at their offsets and demands exact zeros off the diagonal blocks.",
         "layouts in C++ are necessarily finite (11 instantiated); bundles containing SGal3 are not modelled; Random() is checked for validity only"),
 "C05": ("proof", "Jacobian = derivative stated with first-order dual numbers over an arbitrary ordered field: the SAME model code is evaluated at Dual K and f(X (+) eps d) = f(X) (+) eps (J d) is proved exactly, where exp(eps d) is what the model's own exp returns on an infinitesimal tangent. Proved: SE2 compose (both arguments), inverse, act (element and point); SO3 compose (both), inverse, act (point) - for every valid input, both quaternion hemispheres. Every Jacobian-returning operation x every mask x every group is tied bit-for-bit to the code; the oracle compares each Jacobian with a 60-digit central difference of the reference maps (step 1e-20) over rotation magnitudes 0..pi-1e-6 independently of translation size.",
         "Jacobians of exp/log (the rjac/rjacinv closed forms) and of the derived operations, and the composite groups, are covered by correspondence + oracle, theorems in progress; uniform 1e-6 floating accuracy is measured"),
 "C19": ("proof", "Behaviour half ('each instantiation forwards to the documented behaviour of the canonical member') is proved for every scalar instance, group name, mask and argument list: every plain alias answers exactly what its canonical member answers, tangent-side forms return the canonical member evaluated with exchanged optional-output requests, errors are forwarded, alias resolution is idempotent and the tables are disjoint (theorems over the same Api table the driver resolves aliases through). Compile/link half: the finite matrix {documented entry} x {SO2,SE2,SO3,SE3,SE_2_3,SGal3,R1,R3,R7,two Bundles} x {float,double} x {owning,Map,Map<const>} is GENERATED (alias entries parsed out of Api.lean, the rest from the documented-API table) and enumerated completely by the compiler on every run: one function template per cell, explicit per-storage instantiation, all TUs linked into one program and run; every alias cell compares with the canonical member bit for bit on the same operands. A TU that fails is bisected into its one-entry client programs, which are the replay. The float instantiation is additionally tied bit-for-bit to the model at Float32 (same model code, single precision).",
         "whether a C++ template instantiates is decided by the compiler (exhaustive enumeration of a finite matrix), not by a Lean theorem: Lean has no model of the C++ type system; the theorem covers the forwarding clause. Groups are the provided ones with Rn at N=1,3,7 and two bundle layouts (the matrix over all N and all layouts is infinite)"),
}

checks = []
for p in props:
    pid = p["id"]
    if pid not in CLAIMS:
        continue
    cat, text, gap = CLAIMS[pid]
    checks.append(dict(
        property_id=pid,
        quick_cmd="python3 tools/check.py %s --tier quick" % pid,
        thorough_cmd="python3 tools/check.py %s --tier thorough" % pid,
        evidence_file="evidence/%s.json" % pid,
        replay_cmd_template="python3 tools/check.py %s --replay {path}" % pid,
        engine="lean-proof+correspondence",
        level_claimed=dict(category=cat, text=text, design_ref="DESIGN.md §7 " + pid),
        level_note=COMMON_NOTE + "Not carried by the proof: " + gap,
        technique="Lean 4 theorems about a hand-written model + bit-exact differential correspondence with the C++ + high-precision oracle search"))

manifest = dict(
    version=1,
    setup_cmd="python3 tools/setup.py",
    hooks=dict(guard="MANIF_VERIF", enable="no hooks needed: every observation goes through the public API",
               baseline_off_cmd="cmake --build /repo/_build -j16 && ctest --test-dir /repo/_build -j8 --timeout 900",
               source_commits=[], add_only=True),
    engines=[dict(name="lean-proof+correspondence", path="tools/check.py", serves_properties=sorted(CLAIMS),
                  kind_free_text="Lean 4 theorems about a hand-written scalar-generic model (lean/); native Lean driver vs C++ harness "
                                 "(harness/) bit-exact on every run; mpmath oracle (tools/oracle.py, l2.py) searches failing inputs")],
    checks=checks,
    notes="fix: commits in /repo repair genuine defects found by these checks (see known_findings.json 'fixed'); "
          "recorded findings are printed as KNOWN-FINDING lines.",
    not_applicable=[dict(property_id=p["id"], reason="check under construction (not yet claimed)")
                    for p in props if p["id"] not in CLAIMS])
json.dump(manifest, open(os.path.join(ROOT, "MANIFEST.json"), "w"), indent=1)
print("claimed:", sorted(CLAIMS))
