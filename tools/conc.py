"""conc.py — C14 machinery on the implementation side: the concurrency harness (harness/conc.cpp)
built from the current /repo in three flavours, the guard trace, and the translator that writes
lean/ManifModel/Generated/Statics.lean from the scanner's inventory + the traced dependency edges.
"""
import os
import re
import subprocess

import statics_scan
import vlib

SRC = os.path.join(vlib.HARNESS, "conc.cpp")
INC = ["-I/repo/include", "-I/repo/external/tl", "-I/usr/include/eigen3"]
KINDS = {
    # name: (compiler, flags)
    "trace": ("g++", ["-std=c++11", "-O1", "-w", "-DHX_TRACE_GUARDS", "-rdynamic", "-ldl",
                      "-Wl,--wrap=__cxa_guard_acquire,--wrap=__cxa_guard_release,--wrap=__cxa_guard_abort"]),
    "tsan": ("clang++-14", ["-std=c++11", "-O1", "-w", "-g", "-fsanitize=thread"]),
    "plain": ("g++", ["-std=c++11", "-O2", "-w"]),
}


def build(kind):
    """-> (ok, exe or compiler output)"""
    cc, flags = KINDS[kind]
    hsh = vlib.tree_hash([cc] + flags + ["conc", kind])
    d = os.path.join(vlib.CACHE, "c_" + hsh)
    exe = os.path.join(d, "conc_" + kind)
    if os.path.exists(exe):
        return True, exe
    os.makedirs(d, exist_ok=True)
    rc, out = vlib.sh([cc] + [f for f in flags if not f.startswith(("-l", "-Wl"))] + INC + [SRC, "-o", exe + ".tmp", "-lpthread"] +
                      [f for f in flags if f.startswith(("-l", "-Wl"))], timeout=3600)
    if rc != 0:
        return False, out
    os.replace(exe + ".tmp", exe)
    return True, exe


def launch(exe, threads, seed, rounds=2, timeout=300, env=None):
    """-> dict(rc, result line, hash, tsan report, timed_out)"""
    e = dict(os.environ)
    e["TSAN_OPTIONS"] = "halt_on_error=0 report_signal_unsafe=0 exitcode=66"
    if env:
        e.update(env)
    try:
        p = subprocess.run([exe, str(threads), str(seed), str(rounds)], stdout=subprocess.PIPE, stderr=subprocess.PIPE, text=True,
                           timeout=timeout, env=e)
    except subprocess.TimeoutExpired as ex:
        return dict(rc=None, line="", hash=None, tsan="", timed_out=True, out=(ex.stdout or "")[-500:] if isinstance(ex.stdout, str) else "")
    line = next((l for l in p.stdout.split("\n") if l.startswith("RESULT")), "")
    m = re.search(r"hash=([0-9a-f]+)", line)
    tsan = p.stderr if "ThreadSanitizer" in p.stderr else ""
    return dict(rc=p.returncode, line=line, hash=m.group(1) if m else None, tsan=tsan[:6000], timed_out=False, out=p.stdout, err=p.stderr[-1500:])


GUARD_RE = re.compile(r"^guard variable for (.*)::(\w+)$")


def parse_guard(name):
    """'guard variable for manif::X<…>::f(args) const::var' -> (function simple name, var, full owner)"""
    m = GUARD_RE.match(name.strip())
    if not m:
        return None
    owner, var = m.group(1), m.group(2)
    # strip template arguments and the parameter list to get the function's simple name
    o, depth, flat = owner, 0, []
    for ch in o:
        if ch == "<":
            depth += 1
        elif ch == ">":
            depth -= 1
        elif depth == 0:
            flat.append(ch)
    flat = "".join(flat)
    flat = re.sub(r"\(.*\)(\s*const)?$", "", flat)
    fn = flat.split("::")[-1]
    cls = flat.split("::")[-2] if "::" in flat else ""
    return fn, var, cls, owner


def trace():
    """run the guard-tracing build single-threaded -> (ok, guards[list of names], edges[(outer, inner)], log)"""
    ok, exe = build("trace")
    if not ok:
        return False, [], [], exe
    r = launch(exe, 1, 1, 1)
    if r["rc"] != 0:
        return False, [], [], "trace run failed: %r %s" % (r["rc"], r.get("err", ""))
    guards = sorted(l[6:].strip() for l in r["out"].split("\n") if l.startswith("GUARD "))
    edges = sorted(tuple(x.strip() for x in l[5:].split(" <- ")) for l in r["out"].split("\n") if l.startswith("EDGE "))
    return True, guards, edges, ""


def short(name):
    """readable cell name: owner type without the scalar/derived noise"""
    p = parse_guard(name)
    if not p:
        return name
    fn, var, cls, owner = p
    inst = re.search(r"manif::(\w+?)(?:Tangent)?(?:Base)?<([^<>]*(?:<[^<>]*>[^<>]*)*)>", owner)
    return "%s::%s::%s @ %s" % (cls, fn, var, re.sub(r"\s+", "", owner)[:140])


def reconcile(inv, guards):
    """inventory (source) vs observed guards (binary).  -> (unknown guards, unobserved inventory entries)"""
    local = [e for e in inv if e["kind"] == "local-static"]
    keys = {}
    for e in local:
        fn = e["where"].split("::")[-1]
        keys.setdefault((fn, e.get("name", "?")), []).append(e)
    seen = set()
    unknown = []
    for g in guards:
        p = parse_guard(g)
        if not p:
            unknown.append(g)
            continue
        fn, var = p[0], p[1]
        if (fn, var) in keys:
            seen.add((fn, var))
        elif "manif::" in g:
            unknown.append(g)
    unobserved = [e for k, es in keys.items() if k not in seen for e in es]
    return unknown, unobserved


def topo_rank(n, edges):
    """edges: (outer, inner) = outer's initialiser uses inner.  rank(inner) < rank(outer); None if cyclic"""
    deps = {i: set() for i in range(n)}
    for o, i in edges:
        deps[o].add(i)
    rank = {}
    state = {}

    def visit(c):
        if state.get(c) == 1:
            return None
        if c in rank:
            return rank[c]
        state[c] = 1
        r = 0
        for d in deps[c]:
            rd = visit(d)
            if rd is None:
                return None
            r = max(r, rd + 1)
        state[c] = 2
        rank[c] = r
        return r
    for c in range(n):
        if visit(c) is None:
            return None
    return [rank[c] for c in range(n)]


def generate():
    """translator: scanner inventory + traced edges -> Generated/Statics.lean.
    -> dict(ok, inventory, problems, guards, edges, unknown, unobserved, cyclic, log)"""
    inv = statics_scan.scan()
    probs = statics_scan.problems(inv)
    flags = statics_scan.build_flags_ok()
    ok, guards, edges, log = trace()
    res = dict(ok=ok, inventory=inv, problems=probs, flags=flags, guards=guards, edges=edges, unknown=[], unobserved=[], cyclic=False, log=log)
    if not ok:
        return res
    res["unknown"], res["unobserved"] = reconcile(inv, guards)
    idx = {g: i for i, g in enumerate(guards)}
    E = sorted(set((idx[o], idx[i]) for o, i in edges if o in idx and i in idx))
    rank = topo_rank(len(guards), E)
    res["cyclic"] = rank is None
    if rank is None:
        rank = [0] * len(guards)
    deps = {}
    for o, i in E:
        deps.setdefault(o, []).append(i)
    out = ["/-",
           "  GENERATED by tools/conc.py (generate) on every C14 check — do not edit.",
           "  Cells: the lazily initialised function-local statics observed (by their compiler-generated",
           "  guards) when harness/conc.cpp, built from the current /repo, exercises every group; the",
           "  source inventory of tools/statics_scan.py is reconciled against this list (every observed",
           "  manif guard is in the inventory, every inventory entry is observed).",
           "  deps: `c` uses `d` when the guarded initialisation of `d` ran nested inside that of `c`.",
           "  rank: a topological rank computed by the translator; Lean re-checks it (`table_acyclic`).",
           "-/",
           "namespace Manif.Statics.Generated",
           "",
           "def cellNames : List String := ["]
    out += ["  %s%s" % (lean_str(short(g)), "," if k + 1 < len(guards) else "") for k, g in enumerate(guards)]
    out += ["]", "", "/-- (cell, cells its initialiser uses) -/", "def depsTable : List (Nat × List Nat) := ["]
    items = sorted(deps.items())
    out += ["  (%d, [%s])%s" % (c, ", ".join(map(str, sorted(ds))), "," if k + 1 < len(items) else "") for k, (c, ds) in enumerate(items)]
    out += ["]", "", "def rankTable : List Nat := [%s]" % ", ".join(map(str, rank)), "",
            "/-- number of static-duration objects in the source inventory, by kind (scanner) -/",
            "def inventoryCounts : List (String × Nat) := [%s]" % ", ".join(
                "(%s, %d)" % (lean_str(k), sum(1 for e in inv if e["kind"] == k)) for k in sorted(set(e["kind"] for e in inv))),
            "/-- inventory entries that are not `const`, not initialised at their declaration, `mutable`, `thread_local` … -/",
            "def inventoryProblems : Nat := %d" % len(probs), "",
            "end Manif.Statics.Generated", ""]
    dst = os.path.join(vlib.LEAN, "ManifModel", "Generated", "Statics.lean")
    new = "\n".join(out)
    if not os.path.exists(dst) or open(dst).read() != new:
        with open(dst, "w") as f:
            f.write(new)
    return res


def lean_str(s):
    return '"' + s.replace("\\", "\\\\").replace('"', '\\"') + '"'


if __name__ == "__main__":
    r = generate()
    print("ok", r["ok"], "inventory", len(r["inventory"]), "problems", len(r["problems"]), "guards", len(r["guards"]),
          "edges", len(r["edges"]), "unknown", len(r["unknown"]), "unobserved", len(r["unobserved"]), "cyclic", r["cyclic"])
    for g in r["unknown"][:10]:
        print("UNKNOWN", g)
    for e in r["unobserved"][:20]:
        print("UNOBSERVED", e["file"], e["line"], e["where"], e.get("name"))
