// harness TU for B:R1,SGal3,SO2
#define HX_HAS_ROTATION 0
#include "generic.h"
namespace hx {
using B_b12 = manif::Bundle<HX_SC, manif::R1, manif::SGal3, manif::SO2>;
template <> struct Extra<B_b12> {
  static bool run(const Req& r, Resp& R) {
    // element<i>() views alias exactly the i-th element's coefficients
    if (r.op == "element" && r.a.size() == (size_t)B_b12::RepSize && r.ints.size() == 1) {
      Operand<B_b12, 'o'> x(r.a.data());
      switch (r.ints[0]) {
      case 0: pushM(R.out, x.get().template element<0>().coeffs()); return true;
      case 1: pushM(R.out, x.get().template element<1>().coeffs()); return true;
      case 2: pushM(R.out, x.get().template element<2>().coeffs()); return true;
      default: return false;
      }
    }
    return false;
  }
};
void run_b12(const Req& r, Resp& R) { run<B_b12>(r, R); }
}
