// Jet-scalar harness TU for R1
#include "jetgeneric.h"
namespace hx { void runj_R1(const Req& r, Resp& R) { runJ<manif::R1d>(r, R); } }
