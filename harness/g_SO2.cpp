// harness TU for SO2 (double)
#define HX_HAS_ROTATION 1
#include "generic.h"
namespace hx {
template <> struct Extra<manif::SO2<HX_SC>> {
  static bool run(const Req& r, Resp& R) {
    const auto& a = r.a;
    if (r.op == "ctor_angle" && a.size() == 1) { manif::SO2<HX_SC> g((HX_SC)a[0]); pushM(R.out, g.coeffs()); return true; }
    if (r.op == "angle" && a.size() == 2) { Operand<manif::SO2<HX_SC>, 'o'> x(a.data()); R.out.push_back(x.get().angle()); return true; }
    if (r.op == "accessors" && a.size() == 2) {
      Operand<manif::SO2<HX_SC>, 'o'> x(a.data());
      R.out.push_back(x.get().real()); R.out.push_back(x.get().imag()); R.out.push_back(x.get().angle());
      return true;
    }
    return false;
  }
};
void run_SO2(const Req& r, Resp& R) { run<manif::SO2<HX_SC>>(r, R); }
}
