// harness TU for SO2 (double)
#define HX_HAS_ROTATION 1
#include "generic.h"
namespace hx { void run_SO2(const Req& r, Resp& R) { run<manif::SO2d>(r, R); } }
