// harness TU for B:SE2,SO3,R2
#define HX_HAS_ROTATION 0
#include "generic.h"
namespace hx {
using B_b06 = manif::Bundle<HX_SC, manif::SE2, manif::SO3, manif::R2>;
template <> struct Extra<B_b06> {
  static bool run(const Req& r, Resp& R) {
    // element<i>() views alias exactly the i-th element's coefficients
    if (r.op == "element" && r.a.size() == (size_t)B_b06::RepSize && r.ints.size() == 1) {
      Operand<B_b06, 'o'> x(r.a.data());
      switch (r.ints[0]) {
      case 0: pushM(R.out, x.get().template element<0>().coeffs()); return true;
      case 1: pushM(R.out, x.get().template element<1>().coeffs()); return true;
      case 2: pushM(R.out, x.get().template element<2>().coeffs()); return true;
      default: return false;
      }
    }
    return false;
  }
};
void run_b06(const Req& r, Resp& R) { run<B_b06>(r, R); }
}
