// harness TU for SE3 (double)
#define HX_HAS_ROTATION 1
#include "generic.h"
namespace hx { void run_SE3(const Req& r, Resp& R) { run<manif::SE3d>(r, R); } }
