// harness TU for SE3 (double)
#define HX_HAS_ROTATION 1
#include "generic.h"
namespace hx {
template <> struct Extra<manif::SE3<HX_SC>> {
  static bool run(const Req& r, Resp& R) {
    const auto& a = r.a;
    using G = manif::SE3<HX_SC>;
    if (r.op == "ctor_xyzrpy" && a.size() == 6) { G g((HX_SC)a[0], (HX_SC)a[1], (HX_SC)a[2], (HX_SC)a[3], (HX_SC)a[4], (HX_SC)a[5]); pushM(R.out, g.coeffs()); return true; }
    if (r.op == "ctor_taa" && a.size() == 7) {
      G g(Eigen::Matrix<HX_SC, 3, 1>((HX_SC)a[0], (HX_SC)a[1], (HX_SC)a[2]), Eigen::AngleAxis<HX_SC>((HX_SC)a[3], Eigen::Matrix<HX_SC, 3, 1>((HX_SC)a[4], (HX_SC)a[5], (HX_SC)a[6])));
      pushM(R.out, g.coeffs()); return true;
    }
    if (r.op == "ctor_tso3" && a.size() == 7) {
      Operand<manif::SO3<HX_SC>, 'o'> q(a.data() + 3);
      G g(Eigen::Matrix<HX_SC, 3, 1>((HX_SC)a[0], (HX_SC)a[1], (HX_SC)a[2]), q.get()); pushM(R.out, g.coeffs()); return true;
    }
    if (r.op == "ctor_iso" && a.size() == 16) {
      Eigen::Transform<HX_SC, 3, Eigen::Isometry> h;
      for (int i = 0; i < 4; ++i) for (int j = 0; j < 4; ++j) h.matrix()(i, j) = (HX_SC)a[4 * i + j];
      G g(h); pushM(R.out, g.coeffs()); return true;
    }
    if (r.op == "set_quat" && a.size() == 11) {
      Operand<G, 'o'> x(a.data());
      x.mut().quat(Eigen::Quaternion<HX_SC>((HX_SC)a[10], (HX_SC)a[7], (HX_SC)a[8], (HX_SC)a[9]));
      pushM(R.out, x.get().coeffs()); return true;
    }
    if (r.op == "accessors" && a.size() == 7) {
      Operand<G, 'o'> x(a.data());
      R.out.push_back(x.get().x()); R.out.push_back(x.get().y()); R.out.push_back(x.get().z());
      pushM(R.out, x.get().translation()); pushM(R.out, x.get().quat().coeffs());
      pushM(R.out, x.get().isometry().matrix()); pushM(R.out, x.get().asSO3().coeffs());
      return true;
    }
    return false;
  }
};
void run_SE3(const Req& r, Resp& R) { run<manif::SE3<HX_SC>>(r, R); }
}
