// harness TU for B:R1,SE3,SO2,SE_2_3,SE2
#define HX_HAS_ROTATION 0
#include "generic.h"
namespace hx {
using B_b09 = manif::Bundle<HX_SC, manif::R1, manif::SE3, manif::SO2, manif::SE_2_3, manif::SE2>;
template <> struct Extra<B_b09> {
  static bool run(const Req& r, Resp& R) {
    // element<i>() views alias exactly the i-th element's coefficients
    if (r.op == "element" && r.a.size() == (size_t)B_b09::RepSize && r.ints.size() == 1) {
      Operand<B_b09, 'o'> x(r.a.data());
      switch (r.ints[0]) {
      case 0: pushM(R.out, x.get().template element<0>().coeffs()); return true;
      case 1: pushM(R.out, x.get().template element<1>().coeffs()); return true;
      case 2: pushM(R.out, x.get().template element<2>().coeffs()); return true;
      case 3: pushM(R.out, x.get().template element<3>().coeffs()); return true;
      case 4: pushM(R.out, x.get().template element<4>().coeffs()); return true;
      default: return false;
      }
    }
    return false;
  }
};
void run_b09(const Req& r, Resp& R) { run<B_b09>(r, R); }
}
