// harness TU for R2 (double)
#define HX_HAS_ROTATION 0
#include "generic.h"
namespace hx { void run_R2(const Req& r, Resp& R) { run<manif::Rn<HX_SC, 2>>(r, R); } }
