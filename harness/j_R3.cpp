// Jet-scalar harness TU for R3
#include "jetgeneric.h"
namespace hx { void runj_R3(const Req& r, Resp& R) { runJ<manif::R3d>(r, R); } }
