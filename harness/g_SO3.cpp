// harness TU for SO3 (double)
#define HX_HAS_ROTATION 1
#include "generic.h"
namespace hx { void run_SO3(const Req& r, Resp& R) { run<manif::SO3d>(r, R); } }
