// harness TU for SO3 (double)
#define HX_HAS_ROTATION 1
#include "generic.h"
namespace hx {
template <> struct Extra<manif::SO3d> {
  static bool run(const Req& r, Resp& R) {
    const auto& a = r.a;
    using G = manif::SO3d;
    if (r.op == "ctor_rpy" && a.size() == 3) { G g(a[0], a[1], a[2]); pushM(R.out, g.coeffs()); return true; }
    if (r.op == "ctor_aa" && a.size() == 4) {
      G g(Eigen::AngleAxisd(a[0], Eigen::Vector3d(a[1], a[2], a[3]))); pushM(R.out, g.coeffs()); return true;
    }
    if (r.op == "set_quat" && a.size() == 8) {
      Operand<G, 'o'> x(a.data());
      x.mut().quat(Eigen::Quaterniond(a[7], a[4], a[5], a[6]));
      pushM(R.out, x.get().coeffs()); return true;
    }
    if (r.op == "accessors" && a.size() == 4) {
      Operand<G, 'o'> x(a.data());
      R.out.push_back(x.get().x()); R.out.push_back(x.get().y()); R.out.push_back(x.get().z()); R.out.push_back(x.get().w());
      pushM(R.out, x.get().quat().coeffs());
      return true;
    }
    return false;
  }
};
void run_SO3(const Req& r, Resp& R) { run<manif::SO3d>(r, R); }
}
