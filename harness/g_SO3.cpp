// harness TU for SO3 (double)
#define HX_HAS_ROTATION 1
#include "generic.h"
namespace hx {
template <> struct Extra<manif::SO3<HX_SC>> {
  static bool run(const Req& r, Resp& R) {
    const auto& a = r.a;
    using G = manif::SO3<HX_SC>;
    if (r.op == "ctor_rpy" && a.size() == 3) { G g((HX_SC)a[0], (HX_SC)a[1], (HX_SC)a[2]); pushM(R.out, g.coeffs()); return true; }
    if (r.op == "ctor_aa" && a.size() == 4) {
      G g(Eigen::AngleAxis<HX_SC>((HX_SC)a[0], Eigen::Matrix<HX_SC, 3, 1>((HX_SC)a[1], (HX_SC)a[2], (HX_SC)a[3]))); pushM(R.out, g.coeffs()); return true;
    }
    if (r.op == "set_quat" && a.size() == 8) {
      Operand<G, 'o'> x(a.data());
      x.mut().quat(Eigen::Quaternion<HX_SC>((HX_SC)a[7], (HX_SC)a[4], (HX_SC)a[5], (HX_SC)a[6]));
      pushM(R.out, x.get().coeffs()); return true;
    }
    if (r.op == "accessors" && a.size() == 4) {
      Operand<G, 'o'> x(a.data());
      R.out.push_back(x.get().x()); R.out.push_back(x.get().y()); R.out.push_back(x.get().z()); R.out.push_back(x.get().w());
      pushM(R.out, x.get().quat().coeffs());
      return true;
    }
    return false;
  }
};
void run_SO3(const Req& r, Resp& R) { run<manif::SO3<HX_SC>>(r, R); }
}
