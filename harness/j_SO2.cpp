// Jet-scalar harness TU for SO2
#include "jetgeneric.h"
namespace hx { void runj_SO2(const Req& r, Resp& R) { runJ<manif::SO2d>(r, R); } }
