// Jet-scalar harness TU for B:SE2,SO3,R2
#include "jetgeneric.h"
namespace hx { void runj_jb06(const Req& r, Resp& R) { runJ<manif::Bundle<double, manif::SE2, manif::SO3, manif::R2>>(r, R); } }
