// harness TU for R16 (double): used by the De Casteljau index check (trajectory e_i in R^N)
#define HX_HAS_ROTATION 0
#include "generic.h"
namespace hx { void run_R16(const Req& r, Resp& R) { run<manif::Rn<HX_SC, 16>>(r, R); } }
