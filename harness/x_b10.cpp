// harness TU for B:SE3,SE3
#define HX_HAS_ROTATION 0
#include "generic.h"
namespace hx {
using B_b10 = manif::Bundle<HX_SC, manif::SE3, manif::SE3>;
template <> struct Extra<B_b10> {
  static bool run(const Req& r, Resp& R) {
    // element<i>() views alias exactly the i-th element's coefficients
    if (r.op == "element" && r.a.size() == (size_t)B_b10::RepSize && r.ints.size() == 1) {
      Operand<B_b10, 'o'> x(r.a.data());
      switch (r.ints[0]) {
      case 0: pushM(R.out, x.get().template element<0>().coeffs()); return true;
      case 1: pushM(R.out, x.get().template element<1>().coeffs()); return true;
      default: return false;
      }
    }
    return false;
  }
};
void run_b10(const Req& r, Resp& R) { run<B_b10>(r, R); }
}
