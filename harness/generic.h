// generic.h — answers protocol requests for one manif group by calling the real library.
// Everything is written against the public CRTP API, so one template serves every group.
#pragma once
#include "proto.h"
#include <manif/manif.h>
#include <manif/functions.h>
#include <manif/algorithms/interpolation.h>
#include <manif/algorithms/average.h>
#include <manif/algorithms/decasteljau.h>
#include <vector>
#include <limits>

#ifndef HX_SC
#define HX_SC double
#endif

namespace hx {

// request-scoped state: guard-zone violations around view buffers, and (on request, mask bit 128)
// an echo of every operand's coefficients after the call (C09: operations do not modify their
// arguments; C10: writes through a view touch nothing adjacent)
struct Scope {
  bool echo = false;
  bool guard_broken = false;
  std::vector<double> echoed;
};
inline Scope& scope() { static thread_local Scope s; return s; }
constexpr double kGuard = 1234.5;

template <class M> void pushM(std::vector<double>& out, const M& m) {
  for (int i = 0; i < m.rows(); ++i) for (int j = 0; j < m.cols(); ++j) out.push_back((double)m(i, j));
}

// Operand factories. Elements are built by writing coefficients directly (no constructor
// check), so that un-normalised inputs reach the operation under test exactly as given.
template <class G, char S> struct Operand;
template <class G> struct Operand<G, 'o'> {
  G g;
  explicit Operand(const double* p) { for (int i = 0; i < G::RepSize; ++i) g.coeffs()(i) = (HX_SC)p[i]; }
  ~Operand() { if (scope().echo) for (int i = 0; i < G::RepSize; ++i) scope().echoed.push_back((double)g.coeffs()(i)); }
  const G& get() const { return g; }
  G& mut() { return g; }
  const typename G::Scalar* raw() const { return g.coeffs().data(); }
};
template <class G> struct Operand<G, 'm'> {
  // view over a caller buffer placed at an odd (unaligned) offset inside a guarded array
  alignas(16) typename G::Scalar buf[G::RepSize + 9];   // view at buf+3: never 16-byte aligned
  Eigen::Map<G> v;
  explicit Operand(const double* p) : v(buf + 3) {
    for (auto& x : buf) x = (HX_SC)kGuard;
    for (int i = 0; i < G::RepSize; ++i) buf[3 + i] = (HX_SC)p[i];
  }
  ~Operand() {
    for (int i = 0; i < G::RepSize + 9; ++i) if ((i < 3 || i >= 3 + G::RepSize) && buf[i] != (HX_SC)kGuard) scope().guard_broken = true;
    if (scope().echo) for (int i = 0; i < G::RepSize; ++i) scope().echoed.push_back((double)buf[3 + i]);
  }
  const Eigen::Map<G>& get() const { return v; }
  Eigen::Map<G>& mut() { return v; }
  const typename G::Scalar* raw() const { return buf + 3; }
};
template <class G> struct Operand<G, 'c'> {
  alignas(16) typename G::Scalar buf[G::RepSize + 9];   // view at buf+3: never 16-byte aligned
  Eigen::Map<const G> v;
  explicit Operand(const double* p) : v(buf + 3) {
    for (auto& x : buf) x = (HX_SC)kGuard;
    for (int i = 0; i < G::RepSize; ++i) buf[3 + i] = (HX_SC)p[i];
  }
  ~Operand() {
    for (int i = 0; i < G::RepSize + 9; ++i) if ((i < 3 || i >= 3 + G::RepSize) && buf[i] != (HX_SC)kGuard) scope().guard_broken = true;
    if (scope().echo) for (int i = 0; i < G::RepSize; ++i) scope().echoed.push_back((double)buf[3 + i]);
  }
  const Eigen::Map<const G>& get() const { return v; }
};

template <class T, char S> struct TOperand;
template <class T> struct TOperand<T, 'o'> {
  T t;
  explicit TOperand(const double* p) { for (int i = 0; i < T::DoF; ++i) t.coeffs()(i) = (HX_SC)p[i]; }
  ~TOperand() { if (scope().echo) for (int i = 0; i < T::DoF; ++i) scope().echoed.push_back((double)t.coeffs()(i)); }
  const T& get() const { return t; }
  T& mut() { return t; }
  const typename T::Scalar* raw() const { return t.coeffs().data(); }
};
template <class T> struct TOperand<T, 'm'> {
  alignas(16) typename T::Scalar buf[T::DoF + 9];
  Eigen::Map<T> v;
  explicit TOperand(const double* p) : v(buf + 3) {
    for (auto& x : buf) x = (HX_SC)kGuard;
    for (int i = 0; i < T::DoF; ++i) buf[3 + i] = (HX_SC)p[i];
  }
  ~TOperand() {
    for (int i = 0; i < T::DoF + 9; ++i) if ((i < 3 || i >= 3 + T::DoF) && buf[i] != (HX_SC)kGuard) scope().guard_broken = true;
    if (scope().echo) for (int i = 0; i < T::DoF; ++i) scope().echoed.push_back((double)buf[3 + i]);
  }
  const Eigen::Map<T>& get() const { return v; }
  Eigen::Map<T>& mut() { return v; }
  const typename T::Scalar* raw() const { return buf + 3; }
};
template <class T> struct TOperand<T, 'c'> {
  alignas(16) typename T::Scalar buf[T::DoF + 9];
  Eigen::Map<const T> v;
  explicit TOperand(const double* p) : v(buf + 3) {
    for (auto& x : buf) x = (HX_SC)kGuard;
    for (int i = 0; i < T::DoF; ++i) buf[3 + i] = (HX_SC)p[i];
  }
  ~TOperand() {
    for (int i = 0; i < T::DoF + 9; ++i) if ((i < 3 || i >= 3 + T::DoF) && buf[i] != (HX_SC)kGuard) scope().guard_broken = true;
    if (scope().echo) for (int i = 0; i < T::DoF; ++i) scope().echoed.push_back((double)buf[3 + i]);
  }
  const Eigen::Map<const T>& get() const { return v; }
};

// Aliases of the canonical members (README table, operators, tangent-side forms, functions.h).
// Returns false when `op` is not an alias handled here.
template <class G, char S>
bool runAlias(const Req& r, Resp& R) {
  using T = typename G::Tangent;
  using J = typename G::Jacobian;
  constexpr int Rep = G::RepSize, DoF = G::DoF, Dim = G::Dim;
  const std::string& op = r.op;
  static const char* const kAliases[] = {"plus", "op+", "t+X", "t.plus", "t.lplus", "t.rplus", "f_rplus", "f_lplus",
    "f_plus", "minus", "op-", "op*", "f_rminus", "f_lminus", "f_minus", "f_compose", "f_between", "f_inverse",
    "f_log", "f_exp", "f_act"};
  bool known = false;
  for (const char* k : kAliases) if (op == k) known = true;
  if (!known) return false;
  const std::vector<double>& a = r.a;
  auto& out = R.out;
  const bool w0 = r.mask & 1, w1 = r.mask & 2;
  J ja = J::Constant(std::numeric_limits<HX_SC>::quiet_NaN()), jb = ja;   // an entry the library does not write stays NaN
  typename G::OptJacobianRef oa, ob;
  if (w0) oa = ja;
  if (w1) ob = jb;
  auto need = [&](size_t n) { return a.size() == n; };
  auto fin = [&]() { if (w0) pushM(out, ja); if (w1) pushM(out, jb); };
  if (need(Rep + DoF)) {           // (X, t) forms
    Operand<G, S> x(a.data()); TOperand<T, S> t(a.data() + Rep);
    if (op == "plus") { G g = x.get().plus(t.get(), oa, ob); pushM(out, g.coeffs()); fin(); return true; }
    if (op == "op+") { G g = x.get() + t.get(); pushM(out, g.coeffs()); return true; }
    if (op == "t+X") { G g = t.get() + x.get(); pushM(out, g.coeffs()); return true; }
    if (op == "t.plus") { G g = t.get().plus(x.get(), oa, ob); pushM(out, g.coeffs()); fin(); return true; }
    if (op == "t.lplus") { G g = t.get().lplus(x.get(), oa, ob); pushM(out, g.coeffs()); fin(); return true; }
    if (op == "t.rplus") { G g = t.get().rplus(x.get(), oa, ob); pushM(out, g.coeffs()); fin(); return true; }
    if (op == "f_rplus") { G g = manif::rplus(x.get(), t.get(), oa, ob); pushM(out, g.coeffs()); fin(); return true; }
    if (op == "f_lplus") { G g = manif::lplus(x.get(), t.get(), oa, ob); pushM(out, g.coeffs()); fin(); return true; }
    if (op == "f_plus") { G g = manif::plus(x.get(), t.get(), oa, ob); pushM(out, g.coeffs()); fin(); return true; }
  }
  if (need(2 * Rep)) {             // (X, Y) forms
    Operand<G, S> x(a.data()), y(a.data() + Rep);
    if (op == "minus") { T t = x.get().minus(y.get(), oa, ob); pushM(out, t.coeffs()); fin(); return true; }
    if (op == "op-") { T t = x.get() - y.get(); pushM(out, t.coeffs()); return true; }
    if (op == "op*") { G g = x.get() * y.get(); pushM(out, g.coeffs()); return true; }
    if (op == "f_rminus") { T t = manif::rminus(x.get(), y.get(), oa, ob); pushM(out, t.coeffs()); fin(); return true; }
    if (op == "f_lminus") { T t = manif::lminus(x.get(), y.get(), oa, ob); pushM(out, t.coeffs()); fin(); return true; }
    if (op == "f_minus") { T t = manif::minus(x.get(), y.get(), oa, ob); pushM(out, t.coeffs()); fin(); return true; }
    if (op == "f_compose") { G g = manif::compose(x.get(), y.get(), oa, ob); pushM(out, g.coeffs()); fin(); return true; }
    if (op == "f_between") { G g = manif::between(x.get(), y.get(), oa, ob); pushM(out, g.coeffs()); fin(); return true; }
  }
  if (need(Rep)) {
    Operand<G, S> x(a.data());
    if (op == "f_inverse") { G g = manif::inverse(x.get(), oa); pushM(out, g.coeffs()); if (w0) pushM(out, ja); return true; }
    if (op == "f_log") { T t = manif::log(x.get(), oa); pushM(out, t.coeffs()); if (w0) pushM(out, ja); return true; }
  }
  if (need(DoF)) {
    TOperand<T, S> t(a.data());
    if (op == "f_exp") { G g = manif::exp(t.get(), oa); pushM(out, g.coeffs()); if (w0) pushM(out, ja); return true; }
  }
  if (op == "f_act" && need(Rep + Dim)) {
    Operand<G, S> x(a.data());
    typename G::Vector v;
    for (int i = 0; i < Dim; ++i) v(i) = (HX_SC)a[Rep + i];
    Eigen::Matrix<HX_SC, Dim, DoF> jm; Eigen::Matrix<HX_SC, Dim, Dim> jv;
    tl::optional<Eigen::Ref<Eigen::Matrix<HX_SC, Dim, DoF>>> om;
    tl::optional<Eigen::Ref<Eigen::Matrix<HX_SC, Dim, Dim>>> ov;
    if (w0) om = jm;
    if (w1) ov = jv;
    typename G::Vector res = manif::act(x.get(), v, om, ov);
    pushM(out, res); if (w0) pushM(out, jm); if (w1) pushM(out, jv);
    return true;
  }
  return false;
}

// mutating aliases: only for owning objects and mutable views
template <class G, char S>
typename std::enable_if<S != 'c', bool>::type runMutAlias(const Req& r, Resp& R) {
  using T = typename G::Tangent;
  constexpr int Rep = G::RepSize, DoF = G::DoF;
  const std::vector<double>& a = r.a;
  if (r.op == "op+=" && a.size() == (size_t)(Rep + DoF)) {
    Operand<G, S> x(a.data()); TOperand<T, 'o'> t(a.data() + Rep);
    x.mut() += t.get(); pushM(R.out, x.get().coeffs()); return true;
  }
  if (r.op == "op*=" && a.size() == (size_t)(2 * Rep)) {
    Operand<G, S> x(a.data()); Operand<G, 'o'> y(a.data() + Rep);
    x.mut() *= y.get(); pushM(R.out, x.get().coeffs()); return true;
  }
  return false;
}
template <class G, char S>
typename std::enable_if<S == 'c', bool>::type runMutAlias(const Req&, Resp&) { return false; }

// group-specific constructors / accessors: specialised in the per-group translation units
template <class G> struct Extra { static bool run(const Req&, Resp&) { return false; } };

// algorithms/{interpolation,average,decasteljau}.h
template <class G>
bool runAlgo(const Req& r, Resp& R) {
  using T = typename G::Tangent;
  constexpr int Rep = G::RepSize, DoF = G::DoF;
  const std::string& op = r.op;
  const std::vector<double>& a = r.a;
  auto& out = R.out;
  auto elem = [&](size_t off) { Operand<G, 'o'> x(a.data() + off); return x.g; };
  auto tang = [&](size_t off) { TOperand<T, 'o'> t(a.data() + off); return t.t; };
  if (op == "interp_slerp" && a.size() == (size_t)(2 * Rep + 1)) {
    G g = manif::interpolate(elem(0), elem(Rep), (HX_SC)a[2 * Rep], manif::INTERP_METHOD::SLERP);
    pushM(out, g.coeffs()); return true;
  }
  if (op == "interp_cubic" && a.size() == (size_t)(2 * Rep + 1 + 2 * DoF)) {
    G g = manif::interpolate(elem(0), elem(Rep), (HX_SC)a[2 * Rep], manif::INTERP_METHOD::CUBIC,
                             tang(2 * Rep + 1), tang(2 * Rep + 1 + DoF));
    pushM(out, g.coeffs()); return true;
  }
  if (op == "interp_smooth" && a.size() == (size_t)(2 * Rep + 1 + 2 * DoF) && r.ints.size() == 1) {
    G g = manif::interpolate_smooth(elem(0), elem(Rep), (HX_SC)a[2 * Rep], (unsigned int)r.ints[0],
                                    tang(2 * Rep + 1), tang(2 * Rep + 1 + DoF));
    pushM(out, g.coeffs()); return true;
  }
  if ((op == "avg_bi" || op == "avg_w" || op == "avg_fl" || op == "avg_fr") && r.ints.size() == 1 &&
      a.size() >= 1 && (a.size() - 1) % Rep == 0) {
    std::vector<G> pts;
    for (size_t i = 1; i + Rep <= a.size(); i += Rep) pts.push_back(elem(i));
    const HX_SC eps = (HX_SC)a[0]; const int mi = (int)r.ints[0];
    G g = (op == "avg_bi") ? manif::average_biinvariant(pts, eps, mi)
        : (op == "avg_w")  ? manif::average(pts, eps, mi)
        : (op == "avg_fl") ? manif::average_frechet_left(pts, eps, mi)
                           : manif::average_frechet_right(pts, eps, mi);
    pushM(out, g.coeffs()); return true;
  }
  if (op == "t_isApprox" && (a.size() == (size_t)(2 * DoF + 1) || a.size() == (size_t)(2 * DoF))) {
    T ta = tang(0), tb = tang(DoF);
    const bool res = (a.size() == (size_t)(2 * DoF + 1)) ? ta.isApprox(tb, (HX_SC)a[2 * DoF]) : (ta == tb);
    out.push_back(res ? 1.0 : 0.0); return true;
  }
  if (op == "isApprox" && (a.size() == (size_t)(2 * Rep + 1) || a.size() == (size_t)(2 * Rep))) {
    G x = elem(0), y = elem(Rep);
    const bool res = (a.size() == (size_t)(2 * Rep + 1)) ? x.isApprox(y, (HX_SC)a[2 * Rep]) : (x == y);
    out.push_back(res ? 1.0 : 0.0); return true;
  }
  if (op == "phi" && a.size() == 1 && r.ints.size() == 1) {
    out.push_back((double)manif::smoothing_phi((HX_SC)a[0], (std::size_t)r.ints[0])); return true;
  }
  if (op == "decasteljau" && r.ints.size() == 3 && a.size() % Rep == 0) {
    std::vector<G> traj;
    for (size_t i = 0; i + Rep <= a.size(); i += Rep) traj.push_back(elem(i));
    std::vector<G> curve = manif::decasteljau(traj, (unsigned)r.ints[0], (unsigned)r.ints[1], r.ints[2] != 0);
    for (const G& g : curve) pushM(out, g.coeffs());
    return true;
  }
  return false;
}

// C09: aliased assignments and Jacobian outputs bound to a block of a larger matrix.
template <class G, char S>
typename std::enable_if<S != 'c', bool>::type runPurity(const Req& r, Resp& R) {
  using T = typename G::Tangent;
  using J = typename G::Jacobian;
  constexpr int Rep = G::RepSize, DoF = G::DoF, Dim = G::Dim;
  const std::string& op = r.op;
  const std::vector<double>& a = r.a;
  auto& out = R.out;
  if (op.compare(0, 5, "self_") == 0) {
    if (op == "self_compose" && a.size() == (size_t)Rep) { Operand<G, S> x(a.data()); x.mut() = x.get() * x.get(); pushM(out, x.get().coeffs()); return true; }
    if (op == "self_compose2" && a.size() == (size_t)Rep) { Operand<G, S> x(a.data()); x.mut() = x.get().compose(x.get()); pushM(out, x.get().coeffs()); return true; }
    if (op == "self_timeseq" && a.size() == (size_t)Rep) { Operand<G, S> x(a.data()); x.mut() *= x.get(); pushM(out, x.get().coeffs()); return true; }
    // the same storage seen through a SECOND object (a view of the operand's coefficients): an alias check that
    // compares object addresses does not see it
    if (op == "self_timeseq_cv" && a.size() == (size_t)Rep) { Operand<G, S> x(a.data()); Eigen::Map<const G> v(x.raw()); x.mut() *= v; pushM(out, x.get().coeffs()); return true; }
    if (op == "self_timeseq_vx" && a.size() == (size_t)Rep) { Operand<G, S> x(a.data()); Eigen::Map<G> w(const_cast<typename G::Scalar*>(x.raw())); w *= x.get(); pushM(out, x.get().coeffs()); return true; }
    if (op == "self_compose_cv" && a.size() == (size_t)Rep) { Operand<G, S> x(a.data()); Eigen::Map<const G> v(x.raw()); x.mut() = v.compose(v); pushM(out, x.get().coeffs()); return true; }
    if (op == "self_compose_vx" && a.size() == (size_t)Rep) { Operand<G, S> x(a.data()); Eigen::Map<G> w(const_cast<typename G::Scalar*>(x.raw())); w = x.get() * x.get(); pushM(out, x.get().coeffs()); return true; }
    if (op == "self_inverse_cv" && a.size() == (size_t)Rep) { Operand<G, S> x(a.data()); Eigen::Map<const G> v(x.raw()); x.mut() = v.inverse(); pushM(out, x.get().coeffs()); return true; }
    if (op == "self_rplus_cv" && a.size() == (size_t)(Rep + DoF)) { Operand<G, S> x(a.data()); TOperand<T, 'o'> t(a.data() + Rep); Eigen::Map<const G> v(x.raw()); x.mut() = v + t.get(); pushM(out, x.get().coeffs()); return true; }
    if (op == "self_inverse" && a.size() == (size_t)Rep) { Operand<G, S> x(a.data()); x.mut() = x.get().inverse(); pushM(out, x.get().coeffs()); return true; }
    if (op == "self_between" && a.size() == (size_t)(2 * Rep)) { Operand<G, S> x(a.data()); Operand<G, 'o'> y(a.data() + Rep); x.mut() = x.get().between(y.get()); pushM(out, x.get().coeffs()); return true; }
    if (op == "self_rplus" && a.size() == (size_t)(Rep + DoF)) { Operand<G, S> x(a.data()); TOperand<T, 'o'> t(a.data() + Rep); x.mut() = x.get() + t.get(); pushM(out, x.get().coeffs()); return true; }
    if (op == "self_lplus" && a.size() == (size_t)(Rep + DoF)) { Operand<G, S> x(a.data()); TOperand<T, 'o'> t(a.data() + Rep); x.mut() = x.get().lplus(t.get()); pushM(out, x.get().coeffs()); return true; }
    return false;
  }
  if (op.compare(0, 7, "assign_") == 0) {
    // the assignment family between two objects of the same storage kind.  Reported: the
    // destination's underlying storage after the assignment; then, after a further write through
    // the destination (setIdentity / setZero), the destination's and the source's storage —
    // a view must copy coefficients into ITS buffer and keep viewing it.
    auto rawG = [&](const typename G::Scalar* p) { for (int i = 0; i < Rep; ++i) out.push_back((double)p[i]); };
    auto rawT = [&](const typename G::Scalar* p) { for (int i = 0; i < DoF; ++i) out.push_back((double)p[i]); };
    const bool tangent_form = op.compare(0, 8, "assign_t") == 0;
    if (!tangent_form && a.size() == (size_t)(2 * Rep)) {
      Operand<G, S> x(a.data()), y(a.data() + Rep);
      if (op == "assign_copy") x.mut() = y.get();
      else if (op == "assign_move") x.mut() = std::move(y.mut());
      else if (op == "assign_owning") { G o(y.get()); x.mut() = o; }
      else if (op == "assign_owning_move") { G o(y.get()); x.mut() = std::move(o); }
      else if (op == "assign_coeffs") x.mut() = y.get().coeffs();
      else return false;
      rawG(x.raw()); x.mut().setIdentity(); rawG(x.raw()); rawG(y.raw());
      return true;
    }
    if (tangent_form && a.size() == (size_t)(2 * DoF)) {
      TOperand<T, S> x(a.data()), y(a.data() + DoF);
      if (op == "assign_tcopy") x.mut() = y.get();
      else if (op == "assign_tmove") x.mut() = std::move(y.mut());
      else if (op == "assign_towning") { T o(y.get()); x.mut() = o; }
      else if (op == "assign_tcoeffs") x.mut() = y.get().coeffs();
      else return false;
      rawT(x.raw()); x.mut().setZero(); rawT(x.raw()); rawT(y.raw());
      return true;
    }
    return false;
  }
  if (op.compare(0, 6, "exprt_") == 0 && a.size() == (size_t)DoF) {
    // a tangent assigned from an Eigen expression that reads its own coefficients (directly, or through a second
    // view of the same memory): Eigen evaluates a product into a temporary unless told `noalias()`
    TOperand<T, S> x(a.data());
    Eigen::Matrix<typename G::Scalar, DoF, DoF> M;
    for (int i = 0; i < DoF; ++i) for (int j = 0; j < DoF; ++j) M(i, j) = (typename G::Scalar)(((i * 7 + j * 3) % 5) - 2 + (i == j ? 0.25 : 0.0));
    if (op == "exprt_selfprod") x.mut() = M * x.get().coeffs();
    else if (op == "exprt_selfprod_cv") { Eigen::Map<const T> v(x.raw()); x.mut() = M * v.coeffs(); }
    else if (op == "exprt_selfsum") x.mut() = x.get().coeffs() + M * x.get().coeffs();
    else if (op == "exprt_selfscale") x.mut() = x.get().coeffs() * (typename G::Scalar)0.5 + x.get().coeffs();
    else return false;
    for (int i = 0; i < DoF; ++i) out.push_back((double)x.raw()[i]);
    return true;
  }
  if (op.compare(0, 4, "blk_") != 0) return false;
  const std::string base = op.substr(4);
  const bool w0 = r.mask & 1, w1 = r.mask & 2;
  const HX_SC nan = std::numeric_limits<HX_SC>::quiet_NaN();
  Eigen::Matrix<HX_SC, DoF + 3, DoF + 4> A, B;
  A.setConstant(nan); B.setConstant(nan);
  typename G::OptJacobianRef oa, ob;
  if (w0) oa = A.template block<DoF, DoF>(1, 2);
  if (w1) ob = B.template block<DoF, DoF>(2, 1);
  auto fin = [&]() { if (w0) pushM(out, A); if (w1) pushM(out, B); };
  if ((base == "compose" || base == "between") && a.size() == (size_t)(2 * Rep)) {
    Operand<G, S> x(a.data()), y(a.data() + Rep);
    G g = (base == "compose") ? x.get().compose(y.get(), oa, ob) : x.get().between(y.get(), oa, ob);
    pushM(out, g.coeffs()); fin(); return true;
  }
  if ((base == "rplus" || base == "lplus") && a.size() == (size_t)(Rep + DoF)) {
    Operand<G, S> x(a.data()); TOperand<T, S> t(a.data() + Rep);
    G g = (base == "rplus") ? x.get().rplus(t.get(), oa, ob) : x.get().lplus(t.get(), oa, ob);
    pushM(out, g.coeffs()); fin(); return true;
  }
  if ((base == "rminus" || base == "lminus") && a.size() == (size_t)(2 * Rep)) {
    Operand<G, S> x(a.data()), y(a.data() + Rep);
    T t = (base == "rminus") ? x.get().rminus(y.get(), oa, ob) : x.get().lminus(y.get(), oa, ob);
    pushM(out, t.coeffs()); fin(); return true;
  }
  if (base == "inverse" && a.size() == (size_t)Rep) { Operand<G, S> x(a.data()); G g = x.get().inverse(oa); pushM(out, g.coeffs()); if (w0) pushM(out, A); return true; }
  if (base == "log" && a.size() == (size_t)Rep) { Operand<G, S> x(a.data()); T t = x.get().log(oa); pushM(out, t.coeffs()); if (w0) pushM(out, A); return true; }
  if (base == "exp" && a.size() == (size_t)DoF) { TOperand<T, S> t(a.data()); G g = t.get().exp(oa); pushM(out, g.coeffs()); if (w0) pushM(out, A); return true; }
  if (base == "act" && a.size() == (size_t)(Rep + Dim)) {
    Operand<G, S> x(a.data());
    Eigen::Matrix<HX_SC, Dim, 1> v;
    for (int i = 0; i < Dim; ++i) v(i) = (HX_SC)a[Rep + i];
    Eigen::Matrix<HX_SC, Dim + 3, DoF + 4> Am; Eigen::Matrix<HX_SC, Dim + 3, Dim + 4> Bm;
    Am.setConstant(nan); Bm.setConstant(nan);
    tl::optional<Eigen::Ref<Eigen::Matrix<HX_SC, Dim, DoF>>> om;
    tl::optional<Eigen::Ref<Eigen::Matrix<HX_SC, Dim, Dim>>> ov;
    if (w0) om = Am.template block<Dim, DoF>(1, 2);
    if (w1) ov = Bm.template block<Dim, Dim>(2, 1);
    Eigen::Matrix<HX_SC, Dim, 1> res = x.get().act(v, om, ov);
    pushM(out, res); if (w0) pushM(out, Am); if (w1) pushM(out, Bm); return true;
  }
  return false;
}
template <class G, char S>
typename std::enable_if<S == 'c', bool>::type runPurity(const Req&, Resp&) { return false; }

template <class G, char S>
void runS(const Req& r, Resp& R) {
  using T = typename G::Tangent;
  using J = typename G::Jacobian;
  constexpr int Rep = G::RepSize, DoF = G::DoF, Dim = G::Dim;
  const std::string& op = r.op;
  const unsigned mask = r.mask;
  const std::vector<double>& a = r.a;
  auto& out = R.out;
  const bool w0 = mask & 1, w1 = mask & 2;
  auto need = [&](size_t n) { return a.size() == n; };
  R.handled = true;
  if (runAlias<G, S>(r, R) || runMutAlias<G, S>(r, R)) return;
  if (runPurity<G, S>(r, R)) return;
  if (S == 'o' && runAlgo<G>(r, R)) return;
  if (S == 'o' && Extra<G>::run(r, R)) return;
  if (op == "exp" && need(DoF)) {
    TOperand<T, S> t(a.data()); J j = J::Constant(std::numeric_limits<HX_SC>::quiet_NaN());
    G g = w0 ? t.get().exp(j) : t.get().exp();
    pushM(out, g.coeffs()); if (w0) pushM(out, j);
  } else if (op == "log" && need(Rep)) {
    Operand<G, S> x(a.data()); J j = J::Constant(std::numeric_limits<HX_SC>::quiet_NaN());
    T t = w0 ? x.get().log(j) : x.get().log();
    pushM(out, t.coeffs()); if (w0) pushM(out, j);
  } else if (op == "inverse" && need(Rep)) {
    Operand<G, S> x(a.data()); J j = J::Constant(std::numeric_limits<HX_SC>::quiet_NaN());
    G g = w0 ? x.get().inverse(j) : x.get().inverse();
    pushM(out, g.coeffs()); if (w0) pushM(out, j);
  } else if ((op == "compose" || op == "between") && need(2 * Rep)) {
    Operand<G, S> x(a.data()), y(a.data() + Rep); J ja = J::Constant(std::numeric_limits<HX_SC>::quiet_NaN()), jb = ja;
    typename G::OptJacobianRef oa, ob;
    if (w0) oa = ja; if (w1) ob = jb;
    G g = (op == "compose") ? x.get().compose(y.get(), oa, ob) : x.get().between(y.get(), oa, ob);
    pushM(out, g.coeffs()); if (w0) pushM(out, ja); if (w1) pushM(out, jb);
  } else if ((op == "rplus" || op == "lplus") && need(Rep + DoF)) {
    Operand<G, S> x(a.data()); TOperand<T, S> t(a.data() + Rep); J ja = J::Constant(std::numeric_limits<HX_SC>::quiet_NaN()), jb = ja;
    typename G::OptJacobianRef oa, ob;
    if (w0) oa = ja; if (w1) ob = jb;
    G g = (op == "rplus") ? x.get().rplus(t.get(), oa, ob) : x.get().lplus(t.get(), oa, ob);
    pushM(out, g.coeffs()); if (w0) pushM(out, ja); if (w1) pushM(out, jb);
  } else if ((op == "rminus" || op == "lminus") && need(2 * Rep)) {
    Operand<G, S> x(a.data()), y(a.data() + Rep); J ja = J::Constant(std::numeric_limits<HX_SC>::quiet_NaN()), jb = ja;
    typename G::OptJacobianRef oa, ob;
    if (w0) oa = ja; if (w1) ob = jb;
    T t = (op == "rminus") ? x.get().rminus(y.get(), oa, ob) : x.get().lminus(y.get(), oa, ob);
    pushM(out, t.coeffs()); if (w0) pushM(out, ja); if (w1) pushM(out, jb);
  } else if (op == "act" && need(Rep + Dim)) {
    Operand<G, S> x(a.data());
    Eigen::Matrix<HX_SC, Dim, 1> v;
    for (int i = 0; i < Dim; ++i) v(i) = (HX_SC)a[Rep + i];
    Eigen::Matrix<HX_SC, Dim, DoF> jm; Eigen::Matrix<HX_SC, Dim, Dim> jv;
    tl::optional<Eigen::Ref<Eigen::Matrix<HX_SC, Dim, DoF>>> om;
    tl::optional<Eigen::Ref<Eigen::Matrix<HX_SC, Dim, Dim>>> ov;
    if (w0) om = jm; if (w1) ov = jv;
    Eigen::Matrix<HX_SC, Dim, 1> res = x.get().act(v, om, ov);
    pushM(out, res); if (w0) pushM(out, jm); if (w1) pushM(out, jv);
  } else if (op == "adj" && need(Rep)) {
    Operand<G, S> x(a.data()); pushM(out, x.get().adj());
  } else if (op == "transform" && need(Rep)) {
    Operand<G, S> x(a.data()); pushM(out, x.get().transform());
#if HX_HAS_ROTATION
  } else if (op == "rotation" && need(Rep)) {
    Operand<G, S> x(a.data()); pushM(out, x.get().rotation());
  } else if (op == "normalize" && need(Rep) && S != 'c') {
    Operand<G, 'o'> x(a.data()); x.mut().normalize(); pushM(out, x.get().coeffs());
#endif
  } else if (op == "rjac" && need(DoF)) {
    TOperand<T, S> t(a.data()); pushM(out, t.get().rjac());
  } else if (op == "ljac" && need(DoF)) {
    TOperand<T, S> t(a.data()); pushM(out, t.get().ljac());
  } else if (op == "rjacinv" && need(DoF)) {
    TOperand<T, S> t(a.data()); pushM(out, t.get().rjacinv());
  } else if (op == "ljacinv" && need(DoF)) {
    TOperand<T, S> t(a.data()); pushM(out, t.get().ljacinv());
  } else if (op == "smallAdj" && need(DoF)) {
    TOperand<T, S> t(a.data()); pushM(out, t.get().smallAdj());
  } else if (op == "hat" && need(DoF)) {
    TOperand<T, S> t(a.data()); pushM(out, t.get().hat());
  } else if (op == "bracket" && need(2 * DoF)) {
    TOperand<T, S> ta(a.data()), tb(a.data() + DoF);
    T res = ta.get().bracket(tb.get());
    pushM(out, res.coeffs());
  } else if (op == "inner" && need(2 * DoF)) {
    TOperand<T, S> ta(a.data()), tb(a.data() + DoF);
    out.push_back((double)ta.get().inner(tb.get()));
  } else if (op == "sqwnorm" && need(DoF)) {
    TOperand<T, S> ta(a.data()); out.push_back((double)ta.get().squaredWeightedNorm());
  } else if (op == "wnorm" && need(DoF)) {
    TOperand<T, S> ta(a.data()); out.push_back((double)ta.get().weightedNorm());
  } else if (op == "t_arith" && need(2 * DoF + 1)) {
    // tangent arithmetic: t*a, a*t, t/a, -t, t+s, t-s, t+v, v+t, v-t  (operands echoed on request: none may change)
    TOperand<T, S> ta(a.data()), tb(a.data() + DoF);
    const HX_SC sc = (HX_SC)a[2 * DoF];
    typename T::DataType vv = tb.get().coeffs();
    { T r = ta.get() * sc; pushM(out, r.coeffs()); }
    { T r = sc * ta.get(); pushM(out, r.coeffs()); }
    { T r = ta.get() / sc; pushM(out, r.coeffs()); }
    { T r = -ta.get(); pushM(out, r.coeffs()); }
    { T r = ta.get() + tb.get(); pushM(out, r.coeffs()); }
    { T r = ta.get() - tb.get(); pushM(out, r.coeffs()); }
    { T r = ta.get() + vv; pushM(out, r.coeffs()); }
    { typename T::DataType r = vv + ta.get(); pushM(out, r); }
    { typename T::DataType r = vv - ta.get(); pushM(out, r); }
  } else if (op == "vee" && need((size_t)(T::LieAlg::RowsAtCompileTime * T::LieAlg::ColsAtCompileTime))) {
    typename T::LieAlg A;
    for (int i = 0; i < A.rows(); ++i) for (int j = 0; j < A.cols(); ++j) A(i, j) = (HX_SC)a[i * A.cols() + j];
    T res = T::Vee(A);
    pushM(out, res.coeffs());
  } else if (op == "generator" && need(0) && r.ints.size() == 1) {
    pushM(out, T::Generator((int)r.ints[0]));
  } else if (op == "innerWeights" && need(0)) {
    pushM(out, T::InnerWeights());
  } else if (op == "cast" && need(Rep)) {
    // cast<>() to the other floating-point type (double -> float, float -> double)
    using Other = typename std::conditional<std::is_same<HX_SC, double>::value, float, double>::type;
    Operand<G, S> x(a.data());
    auto y = x.get().template cast<Other>();
    pushM(out, y.coeffs());
  } else if (op == "make" && need(Rep)) {
    // constructor from raw coefficients: runs the unit-norm assertion when enabled
    Eigen::Matrix<HX_SC, Rep, 1> d;
    for (int i = 0; i < Rep; ++i) d(i) = (HX_SC)a[i];
    G g(d);
    pushM(out, g.coeffs());
  } else {
    R.handled = false;
  }
}

template <class G>
void run(const Req& r0, Resp& R) {
  Req r = r0;
  scope().echo = (r.mask & 128) != 0;
  scope().guard_broken = false;
  scope().echoed.clear();
  r.mask &= 127u;
  try {
    switch (r.storage) {
      case 'o': runS<G, 'o'>(r, R); break;
      case 'm': runS<G, 'm'>(r, R); break;
      case 'c': runS<G, 'c'>(r, R); break;
      default: R.handled = false;
    }
  } catch (const manif::invalid_argument&) { R.handled = true; R.err = "invalid_argument"; R.out.clear(); }
  catch (const manif::runtime_error&) { R.handled = true; R.err = "runtime_error"; R.out.clear(); }
  catch (const std::logic_error&) { R.handled = true; R.err = "logic_error"; R.out.clear(); }
  catch (const std::exception&) { R.handled = true; R.err = "other_exception"; R.out.clear(); }
  if (scope().guard_broken) { R.handled = true; R.err = "guard_zone_overwritten"; R.out.clear(); }
  else if (scope().echo && R.err.empty()) R.out.insert(R.out.end(), scope().echoed.begin(), scope().echoed.end());
  scope().echo = false;
}

}  // namespace hx
