// jetgeneric.h — C12: manif instantiated over a forward-mode dual-number scalar
// (ceres::Jet<double, N> from the stand-in in shim/ceres/jet.h), driven by the same line protocol.
//
//   jet_<op> <mask> <args of op>   ->  value (primal parts of the Jet run with constant inputs)
//                                      J_a, J_b           (primal parts of the analytic Jacobians, per mask)
//                                      AD_a, AD_b         (row-major: d[ f(X (+) d) (-) f(X) ]/dd at d = 0
//                                                          read off the dual parts, per mask)
//                                      maxdual            (largest |dual part| in the constant run: must be 0)
//   fun_<functor> …                ->  see runFunctors
#pragma once
#include <ceres/jet.h>
#include <manif/manif.h>
#include <manif/ceres/ceres.h>
#include <manif/ceres/manifold.h>              // both functor families are exercised in one binary
#include <manif/ceres/local_parametrization.h>
#include "proto.h"
#include <vector>
#include <string>

namespace hx {

template <class M> void pushPrimal(std::vector<double>& out, const M& m, double& maxdual) {
  for (int i = 0; i < m.rows(); ++i) for (int j = 0; j < m.cols(); ++j) {
    out.push_back(m(i, j).a);
    for (int k = 0; k < m(i, j).v.size(); ++k) { double d = std::fabs(m(i, j).v[k]); if (d > maxdual || d != d) maxdual = (d != d) ? 1e300 : d; }
  }
}
// dual parts of a vector of Jets: rows = components, cols = the first `nin` directions
template <class M> void pushDual(std::vector<double>& out, const M& m, int nin) {
  for (int i = 0; i < m.rows(); ++i) for (int k = 0; k < nin; ++k) out.push_back(m(i, 0).v[k]);
}

template <class G>
struct JetRun {
  static constexpr int Rep = G::RepSize, DoF = G::DoF, Dim = G::Dim;
  static constexpr int N = (DoF > Dim ? DoF : Dim);
  using Jet = ceres::Jet<double, N>;
  using T = typename G::Tangent;
  using GJ = typename G::template LieGroupTemplate<Jet>;
  using TJ = typename T::template TangentTemplate<Jet>;
  using JJ = typename GJ::Jacobian;
  using VJ = Eigen::Matrix<Jet, Dim, 1>;

  static GJ elem(const double* p) { GJ g; for (int i = 0; i < Rep; ++i) g.coeffs()(i) = Jet(p[i]); return g; }
  static TJ tang(const double* p) { TJ t; for (int i = 0; i < DoF; ++i) t.coeffs()(i) = Jet(p[i]); return t; }
  // tangent with unit infinitesimal parts: value p (or 0), d/dd_k = e_k
  static TJ dtang(const double* p) { TJ t; for (int i = 0; i < DoF; ++i) t.coeffs()(i) = Jet(p ? p[i] : 0.0, i); return t; }
  static VJ vec(const double* p, bool seed) { VJ v; for (int i = 0; i < Dim; ++i) v(i) = seed ? Jet(p[i], i) : Jet(p[i]); return v; }

  static bool run(const Req& r, Resp& R) {
    const std::string& op = r.op;
    if (op.compare(0, 4, "jet_") != 0) return false;
    const std::string base = op.substr(4);
    const std::vector<double>& a = r.a;
    auto& out = R.out;
    const bool w0 = r.mask & 1, w1 = r.mask & 2;
    double maxdual = 0;
    JJ ja, jb;
    typename GJ::OptJacobianRef oa, ob;
    if (w0) oa = ja;
    if (w1) ob = jb;
    auto need = [&](size_t n) { return a.size() == n; };
    const TJ d0 = dtang(nullptr);          // the perturbation d, at d = 0
    if (base == "exp" && need(DoF)) {
      TJ t = tang(a.data());
      GJ f0 = t.exp(oa);
      pushPrimal(out, f0.coeffs(), maxdual); if (w0) pushPrimal(out, ja, maxdual);
      if (w0) { TJ tp = dtang(a.data()); TJ F = tp.exp().rminus(f0); pushDual(out, F.coeffs(), DoF); }
    } else if (base == "log" && need(Rep)) {
      GJ X = elem(a.data());
      TJ f0 = X.log(oa);
      pushPrimal(out, f0.coeffs(), maxdual); if (w0) pushPrimal(out, ja, maxdual);
      if (w0) { TJ F = (X + d0).log(); pushDual(out, F.coeffs(), DoF); }
    } else if (base == "inverse" && need(Rep)) {
      GJ X = elem(a.data());
      GJ f0 = X.inverse(oa);
      pushPrimal(out, f0.coeffs(), maxdual); if (w0) pushPrimal(out, ja, maxdual);
      if (w0) { TJ F = (X + d0).inverse().rminus(f0); pushDual(out, F.coeffs(), DoF); }
    } else if ((base == "compose" || base == "between") && need(2 * Rep)) {
      GJ X = elem(a.data()), Y = elem(a.data() + Rep);
      const bool c = base == "compose";
      GJ f0 = c ? X.compose(Y, oa, ob) : X.between(Y, oa, ob);
      pushPrimal(out, f0.coeffs(), maxdual); if (w0) pushPrimal(out, ja, maxdual); if (w1) pushPrimal(out, jb, maxdual);
      if (w0) { GJ Xp = X + d0; TJ F = (c ? Xp.compose(Y) : Xp.between(Y)).rminus(f0); pushDual(out, F.coeffs(), DoF); }
      if (w1) { GJ Yp = Y + d0; TJ F = (c ? X.compose(Yp) : X.between(Yp)).rminus(f0); pushDual(out, F.coeffs(), DoF); }
    } else if ((base == "rplus" || base == "lplus") && need(Rep + DoF)) {
      GJ X = elem(a.data()); TJ t = tang(a.data() + Rep);
      const bool c = base == "rplus";
      GJ f0 = c ? X.rplus(t, oa, ob) : X.lplus(t, oa, ob);
      pushPrimal(out, f0.coeffs(), maxdual); if (w0) pushPrimal(out, ja, maxdual); if (w1) pushPrimal(out, jb, maxdual);
      if (w0) { GJ Xp = X + d0; TJ F = (c ? Xp.rplus(t) : Xp.lplus(t)).rminus(f0); pushDual(out, F.coeffs(), DoF); }
      if (w1) { TJ tp = dtang(a.data() + Rep); TJ F = (c ? X.rplus(tp) : X.lplus(tp)).rminus(f0); pushDual(out, F.coeffs(), DoF); }
    } else if ((base == "rminus" || base == "lminus") && need(2 * Rep)) {
      GJ X = elem(a.data()), Y = elem(a.data() + Rep);
      const bool c = base == "rminus";
      TJ f0 = c ? X.rminus(Y, oa, ob) : X.lminus(Y, oa, ob);
      pushPrimal(out, f0.coeffs(), maxdual); if (w0) pushPrimal(out, ja, maxdual); if (w1) pushPrimal(out, jb, maxdual);
      if (w0) { GJ Xp = X + d0; TJ F = c ? Xp.rminus(Y) : Xp.lminus(Y); pushDual(out, F.coeffs(), DoF); }
      if (w1) { GJ Yp = Y + d0; TJ F = c ? X.rminus(Yp) : X.lminus(Yp); pushDual(out, F.coeffs(), DoF); }
    } else if (base == "act" && need(Rep + Dim)) {
      GJ X = elem(a.data()); VJ v = vec(a.data() + Rep, false);
      Eigen::Matrix<Jet, Dim, DoF> jm; Eigen::Matrix<Jet, Dim, Dim> jv;
      tl::optional<Eigen::Ref<Eigen::Matrix<Jet, Dim, DoF>>> om;
      tl::optional<Eigen::Ref<Eigen::Matrix<Jet, Dim, Dim>>> ov;
      if (w0) om = jm;
      if (w1) ov = jv;
      VJ f0 = X.act(v, om, ov);
      pushPrimal(out, f0, maxdual); if (w0) pushPrimal(out, jm, maxdual); if (w1) pushPrimal(out, jv, maxdual);
      if (w0) { VJ F = (X + d0).act(v); pushDual(out, F, DoF); }
      if (w1) { VJ vp = vec(a.data() + Rep, true); VJ F = X.act(vp); pushDual(out, F, Dim); }
    } else if ((base == "rjac" || base == "ljac" || base == "rjacinv" || base == "ljacinv" || base == "smallAdj") && need(DoF)) {
      // Jacobian-valued members over the dual scalar: primal parts must equal the double run
      TJ t = tang(a.data());
      JJ j = base == "rjac" ? t.rjac() : base == "ljac" ? t.ljac() : base == "rjacinv" ? t.rjacinv()
           : base == "ljacinv" ? t.ljacinv() : t.smallAdj();
      pushPrimal(out, j, maxdual);
    } else if (base == "adj" && need(Rep)) {
      GJ X = elem(a.data()); JJ j = X.adj(); pushPrimal(out, j, maxdual);
    } else if (base == "hat" && need(DoF)) {
      TJ t = tang(a.data()); pushPrimal(out, t.hat(), maxdual);
    } else if (base == "transform" && need(Rep)) {
      GJ X = elem(a.data()); pushPrimal(out, X.transform(), maxdual);
    } else if (base == "cast" && need(Rep)) {
      // cast<>(): double -> Jet and back through the library's own conversion
      G X; for (int i = 0; i < Rep; ++i) X.coeffs()(i) = a[i];
      GJ Xj = X.template cast<Jet>();
      pushPrimal(out, Xj.coeffs(), maxdual);
    } else {
      return false;
    }
    out.push_back(maxdual);
    return true;
  }

  // ceres functors through raw-pointer views; over double and over Jet.
  //   fun_plus  X t   : Plus / LocalParameterization::operator()  -> X (+) t
  //   fun_minus Y X   : Manifold::Minus                           -> Y (-) X
  //   fun_objective target state  : |(target - state)| * weight   (weight = ints[0] / 8)
  //   fun_constraint m past future: sqrt_info_upper * (m - (future - past))   (covariance = identity)
  // Output: double-functor result | Jet-functor primal | direct member call over double |
  //         flag (1 = Jet functor result equals the direct member call over Jet, value and dual parts)
  static bool runFunctors(const Req& r, Resp& R) {
    const std::string& op = r.op;
    const std::vector<double>& a = r.a;
    auto& out = R.out;
    if (op == "fun_plus" || op == "fun_lp") {
      if (a.size() != (size_t)(Rep + DoF)) return false;
      double o1[Rep]; Jet xj[Rep], tj[DoF], o2[Rep];
      for (int i = 0; i < Rep; ++i) xj[i] = Jet(a[i]);
      for (int i = 0; i < DoF; ++i) tj[i] = Jet(a[Rep + i], i);
      bool ok1, ok2;
      if (op == "fun_plus") {
        manif::CeresManifoldFunctor<G> f;
        ok1 = f.Plus(a.data(), a.data() + Rep, o1); ok2 = f.Plus(xj, tj, o2);
      } else {
        manif::CeresLocalParameterizationFunctor<G> f;
        ok1 = f(a.data(), a.data() + Rep, o1); ok2 = f(xj, tj, o2);
      }
      G X; T t; for (int i = 0; i < Rep; ++i) X.coeffs()(i) = a[i]; for (int i = 0; i < DoF; ++i) t.coeffs()(i) = a[Rep + i];
      G direct = X.rplus(t);
      GJ Xj = elem(a.data()); TJ tp = dtang(a.data() + Rep);
      GJ dj = Xj.rplus(tp);
      bool same = ok1 && ok2;
      for (int i = 0; i < Rep; ++i) { out.push_back(o1[i]); }
      for (int i = 0; i < Rep; ++i) { out.push_back(o2[i].a); same = same && eqJet(o2[i], dj.coeffs()(i)); }
      for (int i = 0; i < Rep; ++i) out.push_back(direct.coeffs()(i));
      out.push_back(same ? 1.0 : 0.0);
      return true;
    }
    if (op == "fun_minus" && a.size() == (size_t)(2 * Rep)) {
      double o1[DoF]; Jet yj[Rep], xj[Rep], o2[DoF];
      // seed: y = Y (+) d  is not expressible on raw coefficients; seed the coefficients of Y themselves
      for (int i = 0; i < Rep; ++i) { yj[i] = Jet(a[i]); xj[i] = Jet(a[Rep + i]); }
      manif::CeresManifoldFunctor<G> f;
      bool same = f.Minus(a.data(), a.data() + Rep, o1) && f.Minus(yj, xj, o2);
      G Y, X; for (int i = 0; i < Rep; ++i) { Y.coeffs()(i) = a[i]; X.coeffs()(i) = a[Rep + i]; }
      T direct = Y.rminus(X);
      TJ dj = elem(a.data()).rminus(elem(a.data() + Rep));
      for (int i = 0; i < DoF; ++i) out.push_back(o1[i]);
      for (int i = 0; i < DoF; ++i) { out.push_back(o2[i].a); same = same && eqJet(o2[i], dj.coeffs()(i)); }
      for (int i = 0; i < DoF; ++i) out.push_back(direct.coeffs()(i));
      out.push_back(same ? 1.0 : 0.0);
      return true;
    }
    if (op == "fun_objective" && a.size() == (size_t)(2 * Rep) && r.ints.size() == 1) {
      G target, X; for (int i = 0; i < Rep; ++i) { target.coeffs()(i) = a[i]; X.coeffs()(i) = a[Rep + i]; }
      const double w = (double)r.ints[0] / 8.0;
      const G& ctarget = target; manif::CeresObjectiveFunctor<G> f(ctarget, w);
      double o1; Jet xj[Rep], o2;
      for (int i = 0; i < Rep; ++i) xj[i] = Jet(a[Rep + i]);
      bool same = f(a.data() + Rep, &o1) && f(xj, &o2);
      const double direct = (target.template cast<double>() - X).coeffs().norm() * w;   // the documented residual
      GJ tj = target.template cast<Jet>();
      Jet dj = (tj - elem(a.data() + Rep)).coeffs().norm() * Jet(w);
      out.push_back(o1); out.push_back(o2.a); out.push_back(direct);
      out.push_back(same && eqJet(o2, dj) ? 1.0 : 0.0);
      return true;
    }
    if (op == "fun_constraint" && a.size() == (size_t)(DoF + 2 * Rep)) {
      T m; for (int i = 0; i < DoF; ++i) m.coeffs()(i) = a[i];
      manif::CeresConstraintFunctor<G> f(m);
      const double* past = a.data() + DoF; const double* fut = a.data() + DoF + Rep;
      double o1[DoF]; Jet pj[Rep], fj[Rep], o2[DoF];
      for (int i = 0; i < Rep; ++i) { pj[i] = Jet(past[i]); fj[i] = Jet(fut[i]); }
      bool same = f(past, fut, o1) && f(pj, fj, o2);
      G P, F; for (int i = 0; i < Rep; ++i) { P.coeffs()(i) = past[i]; F.coeffs()(i) = fut[i]; }
      T direct = m - (F - P);                      // identity covariance: sqrt information = identity
      TJ mj = tang(a.data());
      TJ dj = mj - (elem(fut) - elem(past));
      for (int i = 0; i < DoF; ++i) out.push_back(o1[i]);
      for (int i = 0; i < DoF; ++i) { out.push_back(o2[i].a); same = same && eqJet(o2[i], dj.coeffs()(i)); }
      for (int i = 0; i < DoF; ++i) out.push_back(direct.coeffs()(i));
      out.push_back(same ? 1.0 : 0.0);
      return true;
    }
    return false;
  }

  static bool eqJet(const Jet& x, const Jet& y) {
    auto eq = [](double p, double q) { return p == q || (p != p && q != q); };
    if (!eq(x.a, y.a)) return false;
    for (int k = 0; k < N; ++k) if (!eq(x.v[k], y.v[k])) return false;
    return true;
  }
};

template <class G>
void runJ(const Req& r, Resp& R) {
  R.handled = true;
  try {
    if (!(JetRun<G>::run(r, R) || JetRun<G>::runFunctors(r, R))) R.handled = false;
  } catch (const manif::invalid_argument&) { R.err = "invalid_argument"; R.out.clear(); }
  catch (const manif::runtime_error&) { R.err = "runtime_error"; R.out.clear(); }
  catch (const std::logic_error&) { R.err = "logic_error"; R.out.clear(); }
  catch (const std::exception&) { R.err = "other_exception"; R.out.clear(); }
}

}  // namespace hx
