// harness TU for SE_2_3 (double)
#define HX_HAS_ROTATION 1
#include "generic.h"
namespace hx { void run_SE_2_3(const Req& r, Resp& R) { run<manif::SE_2_3<HX_SC>>(r, R); } }
