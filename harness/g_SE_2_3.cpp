// harness TU for SE_2_3 (double)
#define HX_HAS_ROTATION 1
#include "generic.h"
namespace hx {
template <> struct Extra<manif::SE_2_3<HX_SC>> {
  static bool run(const Req& r, Resp& R) {
    const auto& a = r.a;
    using G = manif::SE_2_3<HX_SC>;
    if (r.op == "ctor_iso" && a.size() == 19) {       // SE_2_3(Isometry3, linear velocity)
      Eigen::Transform<HX_SC, 3, Eigen::Isometry> h;
      for (int i = 0; i < 4; ++i) for (int j = 0; j < 4; ++j) h.matrix()(i, j) = (HX_SC)a[4 * i + j];
      G g(h, Eigen::Matrix<HX_SC, 3, 1>((HX_SC)a[16], (HX_SC)a[17], (HX_SC)a[18])); pushM(R.out, g.coeffs()); return true;
    }
    return false;
  }
};
void run_SE_2_3(const Req& r, Resp& R) { run<manif::SE_2_3<HX_SC>>(r, R); }
}
