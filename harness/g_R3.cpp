// harness TU for R3 (double)
#define HX_HAS_ROTATION 0
#include "generic.h"
namespace hx { void run_R3(const Req& r, Resp& R) { run<manif::Rn<HX_SC, 3>>(r, R); } }
