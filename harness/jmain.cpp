// jmain.cpp — protocol server of the Jet-scalar harness (C12).
#include "proto.h"
#include <iostream>
#include <map>
#include <functional>
namespace hx {
#define HX_JGROUP(id, name) void runj_##id(const Req&, Resp&);
#include "jgroups.def"
#undef HX_JGROUP
}
int main() {
  std::ios::sync_with_stdio(false);
  std::map<std::string, std::function<void(const Req&, Resp&)>> table;
#define HX_JGROUP(id, name) table[name] = hx::runj_##id;
#include "jgroups.def"
#undef HX_JGROUP
#ifdef NDEBUG
  const bool built_dbg = false;
#else
  const bool built_dbg = true;
#endif
  std::string line;
  while (std::getline(std::cin, line)) {
    Req r; Resp R;
    if (!parseReq(line, r) || r.dbg != built_dbg) { std::cout << "bad-op\n" << std::flush; continue; }
    auto it = table.find(r.group);
    if (it == table.end()) { std::cout << "bad-op\n" << std::flush; continue; }
    it->second(r, R);
    std::cout << formatResp(R) << "\n" << std::flush;
  }
  return 0;
}
