// ceres/autodiff_local_parameterization.h — stand-in (see jet.h): only the class template name manif's make_* helpers mention.
#pragma once
#include <memory>
namespace ceres {
template <typename Functor, int kGlobalSize, int kLocalSize>
class AutoDiffLocalParameterization { public: template <typename... A> AutoDiffLocalParameterization(A&&...) {} };
}
