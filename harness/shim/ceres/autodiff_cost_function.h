// ceres/autodiff_cost_function.h — stand-in (see jet.h): only the class template name manif's make_* helpers mention.
#pragma once
#include <memory>
namespace ceres {
template <typename CostFunctor, int kNumResiduals, int... Ns>
class AutoDiffCostFunction { public: template <typename... A> AutoDiffCostFunction(A&&...) {} };
}
