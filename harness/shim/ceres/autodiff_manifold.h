// ceres/autodiff_manifold.h — stand-in (see jet.h): only the class template name manif's make_* helpers mention.
#pragma once
#include <memory>
namespace ceres {
template <typename Functor, int kAmbientSize, int kTangentSize>
class AutoDiffManifold { public: template <typename... A> AutoDiffManifold(A&&...) {} };
}
