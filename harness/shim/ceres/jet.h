// ceres/jet.h — stand-in for ceres::Jet<T, N> (ceres-solver is not installed in this sandbox).
//
// A conforming forward-mode dual-number scalar with the interface manif relies on: value part
// `a`, infinitesimal part `v` (N partial derivatives), construction from a scalar, arithmetic,
// comparisons on the value part, the <cmath> functions found by argument-dependent lookup, and
// the Eigen NumTraits / ScalarBinaryOpTraits specialisations.  It lets manif/ceres/*.h compile
// unmodified.  The lifting rules are written in the operation order of the Lean model's
// `Dual K` instance (lean/ManifModel/Dual.lean), so that one partial derivative of a Jet run is
// comparable bit for bit with the model evaluated at `Dual Float`.
#pragma once
#include <Eigen/Core>
#include <cmath>
#include <limits>
#include <ostream>

namespace ceres {

template <typename T, int N>
struct Jet {
  typedef T Scalar;
  enum { DIMENSION = N };
  T a;
  Eigen::Matrix<T, N, 1> v;

  Jet() : a() { v.setZero(); }
  explicit Jet(const T& value) : a(value) { v.setZero(); }
  // implicit from arithmetic literals (Jet(0), Jet(0.5), int)
  template <typename U, typename = typename std::enable_if<std::is_arithmetic<U>::value && !std::is_same<U, T>::value>::type>
  Jet(const U& value) : a(T(value)) { v.setZero(); }
  Jet(const T& value, int k) : a(value) { v.setZero(); v[k] = T(1); }
  template <typename Derived>
  Jet(const T& value, const Eigen::DenseBase<Derived>& vin) : a(value), v(vin) {}

  Jet& operator+=(const Jet& y) { *this = *this + y; return *this; }
  Jet& operator-=(const Jet& y) { *this = *this - y; return *this; }
  Jet& operator*=(const Jet& y) { *this = *this * y; return *this; }
  Jet& operator/=(const Jet& y) { *this = *this / y; return *this; }
  Jet& operator+=(const T& s) { a = a + s; return *this; }
  Jet& operator-=(const T& s) { a = a - s; return *this; }
  Jet& operator*=(const T& s) { *this = *this * Jet(s); return *this; }
  Jet& operator/=(const T& s) { *this = *this / Jet(s); return *this; }
};

#define HX_JET template <typename T, int N> inline
// ---- arithmetic: same formulas, same order as Dual.lean
HX_JET Jet<T, N> operator+(const Jet<T, N>& f) { return f; }
HX_JET Jet<T, N> operator-(const Jet<T, N>& f) { Jet<T, N> r; r.a = -f.a; r.v = -f.v; return r; }
HX_JET Jet<T, N> operator+(const Jet<T, N>& f, const Jet<T, N>& g) { Jet<T, N> r; r.a = f.a + g.a; r.v = f.v + g.v; return r; }
HX_JET Jet<T, N> operator-(const Jet<T, N>& f, const Jet<T, N>& g) { Jet<T, N> r; r.a = f.a - g.a; r.v = f.v - g.v; return r; }
HX_JET Jet<T, N> operator*(const Jet<T, N>& f, const Jet<T, N>& g) {
  Jet<T, N> r; r.a = f.a * g.a;
  for (int i = 0; i < N; ++i) r.v[i] = f.a * g.v[i] + f.v[i] * g.a;
  return r;
}
HX_JET Jet<T, N> operator/(const Jet<T, N>& f, const Jet<T, N>& g) {
  Jet<T, N> r; r.a = f.a / g.a;
  const T d = g.a * g.a;
  for (int i = 0; i < N; ++i) r.v[i] = (f.v[i] * g.a - f.a * g.v[i]) / d;
  return r;
}
// mixed with the underlying scalar: the scalar is lifted, then the Jet formula runs
HX_JET Jet<T, N> operator+(const Jet<T, N>& f, T s) { return f + Jet<T, N>(s); }
HX_JET Jet<T, N> operator+(T s, const Jet<T, N>& f) { return Jet<T, N>(s) + f; }
HX_JET Jet<T, N> operator-(const Jet<T, N>& f, T s) { return f - Jet<T, N>(s); }
HX_JET Jet<T, N> operator-(T s, const Jet<T, N>& f) { return Jet<T, N>(s) - f; }
HX_JET Jet<T, N> operator*(const Jet<T, N>& f, T s) { return f * Jet<T, N>(s); }
HX_JET Jet<T, N> operator*(T s, const Jet<T, N>& f) { return Jet<T, N>(s) * f; }
HX_JET Jet<T, N> operator/(const Jet<T, N>& f, T s) { return f / Jet<T, N>(s); }
HX_JET Jet<T, N> operator/(T s, const Jet<T, N>& f) { return Jet<T, N>(s) / f; }

// ---- comparisons: on the value part
#define HX_JET_CMP(op) \
  HX_JET bool operator op(const Jet<T, N>& f, const Jet<T, N>& g) { return f.a op g.a; } \
  HX_JET bool operator op(const T& s, const Jet<T, N>& g) { return s op g.a; } \
  HX_JET bool operator op(const Jet<T, N>& f, const T& s) { return f.a op s; }
HX_JET_CMP(<) HX_JET_CMP(<=) HX_JET_CMP(>) HX_JET_CMP(>=) HX_JET_CMP(==) HX_JET_CMP(!=)
#undef HX_JET_CMP

// ---- <cmath>
HX_JET Jet<T, N> abs(const Jet<T, N>& f) { return f.a < T(0) ? -f : f; }
HX_JET Jet<T, N> fabs(const Jet<T, N>& f) { return abs(f); }
HX_JET Jet<T, N> sqrt(const Jet<T, N>& f) {
  using std::sqrt;
  Jet<T, N> r; r.a = sqrt(f.a);
  const T d = T(2) * r.a;
  for (int i = 0; i < N; ++i) r.v[i] = f.v[i] / d;
  return r;
}
HX_JET Jet<T, N> sin(const Jet<T, N>& f) {
  using std::sin; using std::cos;
  Jet<T, N> r; r.a = sin(f.a); const T c = cos(f.a);
  for (int i = 0; i < N; ++i) r.v[i] = c * f.v[i];
  return r;
}
HX_JET Jet<T, N> cos(const Jet<T, N>& f) {
  using std::sin; using std::cos;
  Jet<T, N> r; r.a = cos(f.a); const T s = sin(f.a);
  for (int i = 0; i < N; ++i) r.v[i] = -(s * f.v[i]);
  return r;
}
HX_JET Jet<T, N> tan(const Jet<T, N>& f) { return sin(f) / cos(f); }
HX_JET Jet<T, N> atan2(const Jet<T, N>& g, const Jet<T, N>& f) {   // atan2(y = g, x = f)
  using std::atan2;
  Jet<T, N> r; r.a = atan2(g.a, f.a);
  const T d = f.a * f.a + g.a * g.a;
  for (int i = 0; i < N; ++i) r.v[i] = (f.a * g.v[i] - g.a * f.v[i]) / d;
  return r;
}
HX_JET Jet<T, N> atan(const Jet<T, N>& f) {
  using std::atan;
  Jet<T, N> r; r.a = atan(f.a); const T d = T(1) + f.a * f.a;
  for (int i = 0; i < N; ++i) r.v[i] = f.v[i] / d;
  return r;
}
HX_JET Jet<T, N> acos(const Jet<T, N>& f) {
  using std::acos; using std::sqrt;
  Jet<T, N> r; r.a = acos(f.a); const T d = -sqrt(T(1) - f.a * f.a);
  for (int i = 0; i < N; ++i) r.v[i] = f.v[i] / d;
  return r;
}
HX_JET Jet<T, N> asin(const Jet<T, N>& f) {
  using std::asin; using std::sqrt;
  Jet<T, N> r; r.a = asin(f.a); const T d = sqrt(T(1) - f.a * f.a);
  for (int i = 0; i < N; ++i) r.v[i] = f.v[i] / d;
  return r;
}
HX_JET Jet<T, N> exp(const Jet<T, N>& f) {
  using std::exp;
  Jet<T, N> r; r.a = exp(f.a);
  for (int i = 0; i < N; ++i) r.v[i] = r.a * f.v[i];
  return r;
}
HX_JET Jet<T, N> log(const Jet<T, N>& f) {
  using std::log;
  Jet<T, N> r; r.a = log(f.a);
  for (int i = 0; i < N; ++i) r.v[i] = f.v[i] / f.a;
  return r;
}
HX_JET Jet<T, N> pow(const Jet<T, N>& f, T p) {
  using std::pow;
  Jet<T, N> r; r.a = pow(f.a, p); const T d = p * pow(f.a, p - T(1));
  for (int i = 0; i < N; ++i) r.v[i] = d * f.v[i];
  return r;
}
HX_JET Jet<T, N> pow(const Jet<T, N>& f, int p) { return pow(f, T(p)); }
HX_JET bool isfinite(const Jet<T, N>& f) { using std::isfinite; return isfinite(f.a) && f.v.allFinite(); }
HX_JET bool isnan(const Jet<T, N>& f) { using std::isnan; return isnan(f.a) || f.v.hasNaN(); }
HX_JET bool isinf(const Jet<T, N>& f) { using std::isinf; return isinf(f.a); }
HX_JET Jet<T, N> fmin(const Jet<T, N>& f, const Jet<T, N>& g) { return g.a < f.a ? g : f; }
HX_JET Jet<T, N> fmax(const Jet<T, N>& f, const Jet<T, N>& g) { return f.a < g.a ? g : f; }
HX_JET Jet<T, N> floor(const Jet<T, N>& f) { using std::floor; return Jet<T, N>(floor(f.a)); }
HX_JET Jet<T, N> ceil(const Jet<T, N>& f) { using std::ceil; return Jet<T, N>(ceil(f.a)); }
HX_JET std::ostream& operator<<(std::ostream& s, const Jet<T, N>& z) { return s << "[" << z.a << " ; " << z.v.transpose() << "]"; }
#undef HX_JET

}  // namespace ceres

namespace std {
template <typename T, int N>
struct numeric_limits<ceres::Jet<T, N>> {
  static constexpr bool is_specialized = true;
  static constexpr bool is_signed = true;
  static constexpr bool is_integer = false;
  static constexpr bool is_exact = false;
  static constexpr bool has_infinity = true;
  static constexpr bool has_quiet_NaN = true;
  static constexpr int digits = numeric_limits<T>::digits;
  static constexpr int digits10 = numeric_limits<T>::digits10;
  static constexpr int max_digits10 = numeric_limits<T>::max_digits10;
  static ceres::Jet<T, N> min() { return ceres::Jet<T, N>(numeric_limits<T>::min()); }
  static ceres::Jet<T, N> max() { return ceres::Jet<T, N>(numeric_limits<T>::max()); }
  static ceres::Jet<T, N> lowest() { return ceres::Jet<T, N>(numeric_limits<T>::lowest()); }
  static ceres::Jet<T, N> epsilon() { return ceres::Jet<T, N>(numeric_limits<T>::epsilon()); }
  static ceres::Jet<T, N> infinity() { return ceres::Jet<T, N>(numeric_limits<T>::infinity()); }
  static ceres::Jet<T, N> quiet_NaN() { return ceres::Jet<T, N>(numeric_limits<T>::quiet_NaN()); }
};
}  // namespace std

namespace Eigen {
template <typename T, int N>
struct NumTraits<ceres::Jet<T, N>> {
  typedef ceres::Jet<T, N> Real;
  typedef ceres::Jet<T, N> NonInteger;
  typedef ceres::Jet<T, N> Nested;
  typedef ceres::Jet<T, N> Literal;
  static typename ceres::Jet<T, N> dummy_precision() { return ceres::Jet<T, N>(1e-12); }
  static inline Real epsilon() { return Real(std::numeric_limits<T>::epsilon()); }
  static inline int digits10() { return NumTraits<T>::digits10(); }
  static inline Real highest() { return Real(std::numeric_limits<T>::max()); }
  static inline Real lowest() { return Real(-std::numeric_limits<T>::max()); }
  enum {
    IsComplex = 0, IsInteger = 0, IsSigned, ReadCost = 1, AddCost = 1, MulCost = 3,
    HasFloatingPoint = 1, RequireInitialization = 1
  };
  template <bool Vectorized> struct Div { enum { AVX = false, Cost = 3 }; };
};
template <typename BinaryOp, typename T, int N>
struct ScalarBinaryOpTraits<ceres::Jet<T, N>, T, BinaryOp> { typedef ceres::Jet<T, N> ReturnType; };
template <typename BinaryOp, typename T, int N>
struct ScalarBinaryOpTraits<T, ceres::Jet<T, N>, BinaryOp> { typedef ceres::Jet<T, N> ReturnType; };
}  // namespace Eigen
