// ceres/version.h — stand-in (see jet.h).  HX_CERES_MINOR selects which functor header
// manif/ceres/ceres.h pulls in (>= 2.2: manifold.h, otherwise local_parametrization.h).
#pragma once
#define CERES_VERSION_MAJOR 2
#ifndef HX_CERES_MINOR
#define HX_CERES_MINOR 2
#endif
#define CERES_VERSION_MINOR HX_CERES_MINOR
