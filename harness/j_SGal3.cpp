// Jet-scalar harness TU for SGal3
#include "jetgeneric.h"
namespace hx { void runj_SGal3(const Req& r, Resp& R) { runJ<manif::SGal3d>(r, R); } }
