// harness TU for R5 (double)
#define HX_HAS_ROTATION 0
#include "generic.h"
namespace hx { void run_R5(const Req& r, Resp& R) { run<manif::Rn<HX_SC, 5>>(r, R); } }
