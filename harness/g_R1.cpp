// harness TU for R1 (double)
#define HX_HAS_ROTATION 0
#include "generic.h"
namespace hx { void run_R1(const Req& r, Resp& R) { run<manif::Rn<HX_SC, 1>>(r, R); } }
