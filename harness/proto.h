// proto.h — line protocol shared by every harness translation unit.
//   request :  <dbg:0|1> <storage:o|m|c> <group> <op> <mask> <token>…
//              token = 16 hex digits (IEEE-754 bits of a double) or #<int>
//   response:  ok <hex>… | err <exception> | bad-op
// The Lean driver answers the same request lines (it ignores <storage>: views are
// required to behave exactly like owning objects, property C10).
#pragma once
#include <cstdint>
#include <cstring>
#include <cmath>
#include <string>
#include <vector>
#include <sstream>

struct Req {
  bool dbg = true;
  char storage = 'o';
  std::string group, op;
  unsigned mask = 0;
  std::vector<double> a;
  std::vector<long> ints;
};

struct Resp {
  bool handled = false;           // false -> "bad-op"
  std::string err;                // non-empty -> "err <err>"
  std::vector<double> out;
};

inline bool parseReq(const std::string& line, Req& r) {
  std::istringstream is(line);
  std::string d, s, m, tok;
  if (!(is >> d >> s >> r.group >> r.op >> m)) return false;
  r.dbg = (d == "1");
  r.storage = s.empty() ? 'o' : s[0];
  char* end = nullptr;
  r.mask = (unsigned)std::strtoul(m.c_str(), &end, 10);
  if (*end) return false;
  while (is >> tok) {
    if (tok[0] == '#') { r.ints.push_back(std::strtol(tok.c_str() + 1, &end, 10)); if (*end) return false; }
    else {
      if (tok.size() != 16) return false;
      uint64_t b = std::strtoull(tok.c_str(), &end, 16);
      if (*end) return false;
      double v; std::memcpy(&v, &b, 8);
      r.a.push_back(v);
    }
  }
  return true;
}

inline std::string formatResp(const Resp& r) {
  if (!r.handled) return "bad-op";
  if (!r.err.empty()) return "err " + r.err;
  std::string s = "ok";
  char buf[32];
  for (double v : r.out) {
    uint64_t b;
    if (std::isnan(v)) b = 0x7ff8000000000000ULL; else std::memcpy(&b, &v, 8);
    std::snprintf(buf, sizeof buf, " %016llx", (unsigned long long)b);
    s += buf;
  }
  return s;
}
