// Jet-scalar harness TU for SE_2_3
#include "jetgeneric.h"
namespace hx { void runj_SE_2_3(const Req& r, Resp& R) { runJ<manif::SE_2_3d>(r, R); } }
