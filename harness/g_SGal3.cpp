// harness TU for SGal3 (double)
#define HX_HAS_ROTATION 1
#include "generic.h"
namespace hx { void run_SGal3(const Req& r, Resp& R) { run<manif::SGal3<HX_SC>>(r, R); } }
