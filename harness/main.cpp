// main.cpp — reads protocol requests on stdin, answers on stdout.
#include "proto.h"
#include <iostream>
#include <map>
#include <functional>

namespace hx {
#define HX_GROUP(name) void run_##name(const Req&, Resp&);
#include "groups.def"
#undef HX_GROUP
#define HX_BUNDLE(id, name) void run_##id(const Req&, Resp&);
#include "bundles.def"
#undef HX_BUNDLE
}

int main() {
  std::ios::sync_with_stdio(false);
  std::map<std::string, std::function<void(const Req&, Resp&)>> table;
#define HX_GROUP(name) table[#name] = hx::run_##name;
#include "groups.def"
#undef HX_GROUP
#define HX_BUNDLE(id, name) table[name] = hx::run_##id;
#include "bundles.def"
#undef HX_BUNDLE
#ifdef NDEBUG
  const bool built_dbg = false;
#else
  const bool built_dbg = true;
#endif
  std::string line;
  while (std::getline(std::cin, line)) {
    Req r; Resp R;
    if (!parseReq(line, r) || r.dbg != built_dbg) { std::cout << "bad-op\n" << std::flush; continue; }
    auto it = table.find(r.group);
    if (it == table.end()) { std::cout << "bad-op\n" << std::flush; continue; }
    it->second(r, R);
    std::cout << formatResp(R) << "\n" << std::flush;
  }
  return 0;
}
