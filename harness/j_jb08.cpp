// Jet-scalar harness TU for B:SE_2_3,R1,SE2
#include "jetgeneric.h"
namespace hx { void runj_jb08(const Req& r, Resp& R) { runJ<manif::Bundle<double, manif::SE_2_3, manif::R1, manif::SE2>>(r, R); } }
