// conc.cpp — C14: the const API under concurrency.
//
//   conc <threads> <seed> <rounds> [trace]
//
// Shared, immutable operands are built first.  Then <threads> threads are released together by a
// spin barrier; each runs, in its own pseudo-random order, the first use of every lazily
// initialised static of every group (Identity, Zero, Generator(i), InnerWeights, the constant
// Jacobians / adjoints of the commutative groups) and const operations on the shared operands,
// and records every result.  After the join every thread's record is compared bit for bit with
// the record of a single-threaded pass made by the main thread.  The program prints
//   RESULT ok items=<n> hash=<h>           (h: hash of the single-thread record; equal across launches)
//   RESULT mismatch thread=<i> item=<k> …
// and is built twice: with ThreadSanitizer (data races are reported by the runtime, exit 66) and
// plain with the static-initialisation guards wrapped (trace mode: prints which guarded
// initialisations ran nested inside which, i.e. the dependency edges between lazily initialised
// statics, with their symbol names).
#include <manif/manif.h>
#include <atomic>
#include <thread>
#include <vector>
#include <string>
#include <cstdio>
#include <cstdint>
#include <cstring>
#include <functional>
#include <algorithm>

#ifdef HX_TRACE_GUARDS
#include <cxxabi.h>
#include <dlfcn.h>
#include <mutex>
#include <map>
#include <set>
extern "C" int __real___cxa_guard_acquire(void*);
extern "C" void __real___cxa_guard_release(void*);
extern "C" void __real___cxa_guard_abort(void*);
namespace tr {
static std::mutex mu;
static std::set<std::pair<void*, void*>> edges;     // (outer guard, inner guard)
static std::set<void*> guards;
static thread_local std::vector<void*> stack;
static std::string name(void* g) {
  Dl_info info;
  if (dladdr(g, &info) && info.dli_sname) {
    int st = 0;
    char* d = abi::__cxa_demangle(info.dli_sname, nullptr, nullptr, &st);
    std::string s = (st == 0 && d) ? d : info.dli_sname;
    free(d);
    return s;
  }
  char b[32]; std::snprintf(b, sizeof b, "?%p", g); return b;
}
}
extern "C" int __wrap___cxa_guard_acquire(void* g) {
  int r = __real___cxa_guard_acquire(g);
  if (r) {
    std::lock_guard<std::mutex> l(tr::mu);
    tr::guards.insert(g);
    if (!tr::stack.empty()) tr::edges.insert({tr::stack.back(), g});
    tr::stack.push_back(g);
  }
  return r;
}
extern "C" void __wrap___cxa_guard_release(void* g) {
  if (!tr::stack.empty() && tr::stack.back() == g) tr::stack.pop_back();
  __real___cxa_guard_release(g);
}
extern "C" void __wrap___cxa_guard_abort(void* g) {
  if (!tr::stack.empty() && tr::stack.back() == g) tr::stack.pop_back();
  __real___cxa_guard_abort(g);
}
#endif

using Rec = std::vector<double>;
template <class M> static void put(Rec& r, const M& m) {
  for (int i = 0; i < m.rows(); ++i) for (int j = 0; j < m.cols(); ++j) r.push_back((double)m(i, j));
}

struct Item { std::function<void(Rec&)> f; };

template <class G>
static void addGroup(std::vector<Item>& items, unsigned seed) {
  using T = typename G::Tangent;
  using Sc = typename G::Scalar;
  std::srand(seed);
  // shared immutable operands (heap, alive for the whole run)
  const G* X = new G(G::Random());
  const G* Y = new G(G::Random());
  const T* t = new T(T::Random());
  const T* s = new T(T::Random());
  const typename G::Vector* v = new typename G::Vector(G::Vector::Random());
  Sc* buf = new Sc[G::RepSize + T::DoF + 2];
  for (int i = 0; i < G::RepSize; ++i) buf[1 + i] = X->coeffs()(i);
  for (int i = 0; i < T::DoF; ++i) buf[1 + G::RepSize + i] = t->coeffs()(i);
  const Eigen::Map<const G>* XV = new Eigen::Map<const G>(buf + 1);
  const Eigen::Map<const T>* tV = new Eigen::Map<const T>(buf + 1 + G::RepSize);
  // static helpers (first use in the process happens inside the threads)
  items.push_back({[](Rec& r) { put(r, G::Identity().coeffs()); }});
  items.push_back({[](Rec& r) { put(r, T::Zero().coeffs()); }});
  items.push_back({[](Rec& r) { G g; g.setIdentity(); put(r, g.coeffs()); }});
  for (int i = 0; i < T::DoF; ++i) items.push_back({[i](Rec& r) { put(r, T::Generator(i)); }});
  items.push_back({[](Rec& r) { put(r, T::InnerWeights()); }});
  items.push_back({[t](Rec& r) { put(r, t->innerWeights()); r.push_back((double)t->weightedNorm()); }});
  // const operations on shared elements and tangents (owning and const views)
  items.push_back({[X](Rec& r) { put(r, X->adj()); put(r, X->inverse().coeffs()); put(r, X->log().coeffs()); }});
  items.push_back({[t](Rec& r) { put(r, t->rjac()); put(r, t->ljac()); put(r, t->smallAdj()); put(r, t->exp().coeffs()); put(r, t->hat()); }});
  items.push_back({[t](Rec& r) { put(r, t->rjacinv()); put(r, t->ljacinv()); }});
  items.push_back({[X, Y](Rec& r) { typename G::Jacobian ja, jb; put(r, X->compose(*Y, ja, jb).coeffs()); put(r, ja); put(r, jb); put(r, X->between(*Y).coeffs()); }});
  items.push_back({[X, Y](Rec& r) { typename G::Jacobian ja, jb; put(r, X->rminus(*Y, ja, jb).coeffs()); put(r, ja); put(r, jb); put(r, X->lminus(*Y).coeffs()); }});
  items.push_back({[X, t](Rec& r) { typename G::Jacobian ja, jb; put(r, X->rplus(*t, ja, jb).coeffs()); put(r, ja); put(r, jb); put(r, X->lplus(*t).coeffs()); }});
  items.push_back({[X, v](Rec& r) { put(r, X->act(*v)); put(r, X->transform()); }});
  items.push_back({[t, s](Rec& r) { put(r, t->bracket(*s).coeffs()); r.push_back((double)t->inner(*s)); put(r, (*t + *s).coeffs()); }});
  items.push_back({[XV, tV, Y](Rec& r) { put(r, XV->compose(*Y).coeffs()); put(r, XV->rplus(*tV).coeffs()); put(r, tV->exp().coeffs()); put(r, XV->adj()); }});
  items.push_back({[X, Y](Rec& r) { r.push_back(X->isApprox(*Y) ? 1 : 0); r.push_back(*X == *X ? 1 : 0); }});
}

static uint64_t hashRec(const std::vector<Rec>& recs) {
  uint64_t h = 1469598103934665603ULL;
  for (const Rec& r : recs) for (double d : r) {
    uint64_t b; std::memcpy(&b, &d, 8);
    if (d != d) b = 0x7ff8000000000000ULL;
    for (int k = 0; k < 8; ++k) { h ^= (b >> (8 * k)) & 0xff; h *= 1099511628211ULL; }
  }
  return h;
}

int main(int argc, char** argv) {
  const int nthreads = argc > 1 ? std::atoi(argv[1]) : 4;
  const unsigned seed = argc > 2 ? (unsigned)std::atoi(argv[2]) : 1;
  const int rounds = argc > 3 ? std::atoi(argv[3]) : 2;
  std::vector<Item> items;
  addGroup<manif::SO2d>(items, 11); addGroup<manif::SE2d>(items, 12); addGroup<manif::SO3d>(items, 13);
  addGroup<manif::SE3d>(items, 14); addGroup<manif::SE_2_3d>(items, 15); addGroup<manif::SGal3d>(items, 16);
  addGroup<manif::R3d>(items, 17); addGroup<manif::R1d>(items, 18);
  addGroup<manif::Bundle<double, manif::SE2, manif::SO3, manif::R2>>(items, 19);
  addGroup<manif::SO3f>(items, 20); addGroup<manif::SE2f>(items, 21);
  const size_t n = items.size();
  std::atomic<int> ready(0);
  std::atomic<bool> go(false);
  std::vector<std::vector<Rec>> recs(nthreads, std::vector<Rec>(n));
  std::vector<std::thread> th;
  for (int k = 0; k < nthreads; ++k) {
    th.emplace_back([&, k]() {
      // per-thread order: a permutation derived from (seed, k)
      std::vector<size_t> order(n);
      for (size_t i = 0; i < n; ++i) order[i] = i;
      uint64_t st = seed * 6364136223846793005ULL + (uint64_t)k * 1442695040888963407ULL + 1;
      for (size_t i = n - 1; i > 0; --i) { st = st * 6364136223846793005ULL + 1442695040888963407ULL; std::swap(order[i], order[(st >> 33) % (i + 1)]); }
      ready.fetch_add(1);
      while (!go.load(std::memory_order_acquire)) { }
      for (int rd = 0; rd < rounds; ++rd)
        for (size_t i : order) { Rec r; items[i].f(r); if (rd == 0) recs[k][i] = r; else if (r.size() != recs[k][i].size() || std::memcmp(r.data(), recs[k][i].data(), r.size() * 8)) recs[k][i].push_back(-12345.0); }
    });
  }
  while (ready.load() < nthreads) { }
  go.store(true, std::memory_order_release);
  for (auto& t : th) t.join();
  // single-threaded reference (statics are initialised by now; their values must be the same)
  std::vector<Rec> ref(n);
  for (size_t i = 0; i < n; ++i) items[i].f(ref[i]);
  for (int k = 0; k < nthreads; ++k)
    for (size_t i = 0; i < n; ++i)
      if (recs[k][i].size() != ref[i].size() || std::memcmp(recs[k][i].data(), ref[i].data(), ref[i].size() * 8)) {
        std::printf("RESULT mismatch thread=%d item=%zu size=%zu/%zu\n", k, i, recs[k][i].size(), ref[i].size());
        return 2;
      }
  std::printf("RESULT ok items=%zu threads=%d hash=%016llx\n", n, nthreads, (unsigned long long)hashRec(ref));
#ifdef HX_TRACE_GUARDS
  for (void* g : tr::guards) std::printf("GUARD %s\n", tr::name(g).c_str());
  for (auto& e : tr::edges) std::printf("EDGE %s <- %s\n", tr::name(e.first).c_str(), tr::name(e.second).c_str());
#endif
  return 0;
}
