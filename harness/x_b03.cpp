// harness TU for B:SE3
#define HX_HAS_ROTATION 0
#include "generic.h"
namespace hx {
using B_b03 = manif::Bundle<HX_SC, manif::SE3>;
template <> struct Extra<B_b03> {
  static bool run(const Req& r, Resp& R) {
    // element<i>() views alias exactly the i-th element's coefficients
    if (r.op == "element" && r.a.size() == (size_t)B_b03::RepSize && r.ints.size() == 1) {
      Operand<B_b03, 'o'> x(r.a.data());
      switch (r.ints[0]) {
      case 0: pushM(R.out, x.get().template element<0>().coeffs()); return true;
      default: return false;
      }
    }
    return false;
  }
};
void run_b03(const Req& r, Resp& R) { run<B_b03>(r, R); }
}
