// harness TU for B:SO2,R3
#define HX_HAS_ROTATION 0
#include "generic.h"
namespace hx {
using B_b04 = manif::Bundle<HX_SC, manif::SO2, manif::R3>;
template <> struct Extra<B_b04> {
  static bool run(const Req& r, Resp& R) {
    // element<i>() views alias exactly the i-th element's coefficients
    if (r.op == "element" && r.a.size() == (size_t)B_b04::RepSize && r.ints.size() == 1) {
      Operand<B_b04, 'o'> x(r.a.data());
      switch (r.ints[0]) {
      case 0: pushM(R.out, x.get().template element<0>().coeffs()); return true;
      case 1: pushM(R.out, x.get().template element<1>().coeffs()); return true;
      default: return false;
      }
    }
    return false;
  }
};
void run_b04(const Req& r, Resp& R) { run<B_b04>(r, R); }
}
