// Jet-scalar harness TU for SE2
#include "jetgeneric.h"
namespace hx { void runj_SE2(const Req& r, Resp& R) { runJ<manif::SE2d>(r, R); } }
