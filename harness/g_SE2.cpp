// harness TU for SE2 (double)
#define HX_HAS_ROTATION 1
#include "generic.h"
namespace hx { void run_SE2(const Req& r, Resp& R) { run<manif::SE2d>(r, R); } }
