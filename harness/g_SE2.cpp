// harness TU for SE2 (double)
#define HX_HAS_ROTATION 1
#include "generic.h"
namespace hx {
template <> struct Extra<manif::SE2<HX_SC>> {
  static bool run(const Req& r, Resp& R) {
    const auto& a = r.a;
    using G = manif::SE2<HX_SC>;
    if (r.op == "ctor_xyt" && a.size() == 3) { G g((HX_SC)a[0], (HX_SC)a[1], (HX_SC)a[2]); pushM(R.out, g.coeffs()); return true; }
    if (r.op == "angle" && a.size() == 4) { Operand<G, 'o'> x(a.data()); R.out.push_back(x.get().angle()); return true; }
    if (r.op == "ctor_iso" && a.size() == 9) {
      Eigen::Transform<HX_SC, 2, Eigen::Isometry> h;
      for (int i = 0; i < 3; ++i) for (int j = 0; j < 3; ++j) h.matrix()(i, j) = (HX_SC)a[3 * i + j];
      G g(h); pushM(R.out, g.coeffs()); return true;
    }
    if (r.op == "accessors" && a.size() == 4) {
      Operand<G, 'o'> x(a.data());
      R.out.push_back(x.get().x()); R.out.push_back(x.get().y()); R.out.push_back(x.get().real());
      R.out.push_back(x.get().imag()); R.out.push_back(x.get().angle());
      pushM(R.out, x.get().translation()); pushM(R.out, x.get().isometry().matrix());
      return true;
    }
    return false;
  }
};
void run_SE2(const Req& r, Resp& R) { run<manif::SE2<HX_SC>>(r, R); }
}
