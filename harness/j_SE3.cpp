// Jet-scalar harness TU for SE3
#include "jetgeneric.h"
namespace hx { void runj_SE3(const Req& r, Resp& R) { runJ<manif::SE3d>(r, R); } }
