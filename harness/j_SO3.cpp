// Jet-scalar harness TU for SO3
#include "jetgeneric.h"
namespace hx { void runj_SO3(const Req& r, Resp& R) { runJ<manif::SO3d>(r, R); } }
