// Jet-scalar harness TU for R5
#include "jetgeneric.h"
namespace hx { void runj_R5(const Req& r, Resp& R) { runJ<manif::R5d>(r, R); } }
